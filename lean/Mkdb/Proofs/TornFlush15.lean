import Mkdb.Proofs.TornFlush14
/-!
Torn flush without page allocation, part 15: **`Engine.recover` on ANY data file whose pages are, each,
the page some boundary database of the history showed** - several flushes, torn anywhere; as in
`Redo.Image`, for the concrete recovery model and real logs.

* `Ckpt.image_round`: from a checkpointed database `db`, a chain of runs `SpecRunsNA` with boundary
  databases `mids` (no page allocated), a data file `r0.disk` that holds at every page offset of the
  catalog the page that SOME boundary database showed there (independently per page), under a header of
  the allocation frontier and catalog root of the history and counters not behind the checkpoint's:
  `Engine.recover` with the complete log succeeds and its result is a checkpointed database for the
  plain database of all acknowledged statements.
-/
set_option autoImplicit false
namespace Mkdb.Store
open Mkdb.Page Mkdb.Tuple Mkdb.Generated Mkdb.Tree Mkdb.Engine

/-- pick, for every `o` with `P o`, an index with `Q o` (0 elsewhere) -/
theorem choose_index {P : Nat → Prop} {Q : Nat → Nat → Prop} (h : ∀ o, P o → ∃ j, Q o j) :
    ∃ k : Nat → Nat, ∀ o, (P o → Q o (k o)) ∧ (¬ P o → k o = 0) := by
  classical
  refine ⟨fun o => if hp : P o then Classical.choose (h o hp) else 0, ?_⟩
  intro o
  refine ⟨fun hp => ?_, fun hn => ?_⟩
  · simp only [hp, dif_pos]
    exact Classical.choose_spec (h o hp)
  · simp only [hn, dif_neg, not_false_eq_true]

/-- **Recovery from any mixture of boundary pages.**  `h`: `db` is checkpointed; `runs`: statements take it
through the boundary databases `mids` to `dbN`, allocating no page; `r0`: a data file - `himg`: at every page
offset of the catalog (page table, `sys_schema`, every page of every user table) it holds the page object
that some database among `db :: mids` showed at that offset, a different one for each offset if need be
(pages flushed at different moments, flushes torn anywhere); its header has the allocation frontier and
catalog root of `db` and counters not behind `db`'s.  `Engine.recover` on `r0` with the log of `dbN`
succeeds, keeps the log, and ends checkpointed for the plain database `sdbN` of all acknowledged
statements. -/
theorem Ckpt.image_round {sch : Levels} {db dbN : Engine.DB} {sdb sdbN : Spec.SDB} {mids : List Engine.DB}
    {pt : Levels} {tbls : List (Bytes × Levels)} (h : Ckpt sch db sdb pt tbls)
    (runs : SpecRunsNA sch db sdb mids dbN sdbN) (r0 : Store)
    (hnf0 : r0.dhdr.nextFree = db.store.hdr.nextFree) (hpr0 : r0.dhdr.ptRoot = db.store.hdr.ptRoot)
    (hlk0 : db.store.hdr.lastKey ≤ r0.dhdr.lastKey) (hls0 : db.store.hdr.nextLSN ≤ r0.dhdr.nextLSN)
    (himg : ∀ x ∈ catTrees pt sch tbls, ∀ e ∈ flatten x, ∃ dbm ∈ db :: mids, ∃ n d,
      view dbm.store e.1 = some (n, d) ∧ assocGet r0.disk e.1 = some n)
    (o1 o2 : List Nat) :
    ∃ db' tblsL, Engine.recover { store := r0, wal := dbN.wal } o1 o2 = .ok db' ∧
      db'.wal = dbN.wal ∧ AbsV dbN.store pt sch tblsL sdbN ∧ Ckpt sch db' sdbN (clean pt) (cleanT tblsL) ∧
      db'.store.hdr.nextFree = dbN.store.hdr.nextFree ∧ dbN.store.hdr.lastKey ≤ db'.store.hdr.lastKey ∧
      db'.store.hdr.ptRoot = dbN.store.hdr.ptRoot ∧ dbN.store.hdr.nextLSN ≤ db'.store.hdr.nextLSN := by
  obtain ⟨_, hcs, _⟩ := h.disk.clean_eq
  obtain ⟨sdb0, habs0, hv0⟩ := h.abs
  obtain ⟨hdj, hln⟩ := habs0.cat.skel
  have hfill := fillT_pageOf hdj hln
  obtain ⟨c, logs, tblsN, a0, H, hw, hN, hAN, hfN, hlk, _, hbd, hlogN, _, hnext, hnfN⟩ :=
    spec_runs_hist sch runs pt tbls (pageOf tbls) tbls hfill.symm (pFiled_pageOf hdj hln) habs0.cat.tnames hdj hln
      (fun e he => h.fresh.pos e he _ (rootOff_mem_offs e.2 _ (habs0.cat.tree e.2 (Cat.tb_mem he)).2.1))
      h.abs h.fresh h.log h.lsn
  have hc0 : fillT (c 0) tbls = tbls := by rw [a0]; exact hfill
  obtain ⟨sdbF, habsF, hvF⟩ := hAN
  have hcatN := habsF.cat
  have hmem0 : ∀ {e0 : Bytes × Levels}, e0 ∈ tbls → (e0.1, fill (c 0) e0.2) ∈ tbls := by
    intro e0 he0
    have := mem_fillT (c := c 0) he0
    rw [hc0] at this
    exact this
  -- a frozen page: the data file holds it
  have hfrozen : ∀ x ∈ catTrees pt sch tbls, ∀ e ∈ flatten x,
      (∀ j, j ≤ logs.length → ∀ s, Cat s pt sch (fillT (c j) tbls) → view s e.1 = some (e.2.1, e.2.2)) →
      assocGet r0.disk e.1 = some e.2.1 := by
    intro x hx e he hall
    obtain ⟨dbm, hm, n, d, hv, hd⟩ := himg x hx e he
    obtain ⟨j, hj, hcj⟩ := hbd dbm hm
    have := hall j hj _ hcj
    rw [hv] at this
    simp only [Option.some.injEq, Prod.mk.injEq] at this
    rw [hd, this.1]
  -- how much of the history each leaf page of the data file has seen
  obtain ⟨k, hkspec⟩ := choose_index (P := fun o => ∃ e0 ∈ tbls, o ∈ leafOffs e0.2)
    (Q := fun o j => j ≤ logs.length ∧ assocGet r0.disk o = some (Node.leaf (c j o).1)) (by
      intro o ⟨e0, he0, ho⟩
      have hx := Cat.tb_mem (pt := pt) (sch := sch) (hmem0 he0)
      have hme : ((c 0 o).1.off, Node.leaf (c 0 o).1, (c 0 o).2) ∈ flatten (fill (c 0) e0.2) := by
        rw [mem_flatten]
        exact .inl ⟨c 0 o, fill_leaf_mem ho, rfl⟩
      obtain ⟨dbm, hm, n, d, hv, hd⟩ := himg _ hx _ hme
      obtain ⟨j, hj, hcj⟩ := hbd dbm hm
      have hH := (hcj.tree _ (Cat.tb_mem (mem_fillT (c := c j) he0))).1
      have hvj := holds_leaf hH (fill_leaf_mem (c := c j) ho)
      simp only at hv hd
      rw [H.step_off (Nat.zero_le _) he0 ho] at hv hd
      rw [H.step_off hj he0 ho, hv] at hvj
      simp only [Option.some.injEq, Prod.mk.injEq] at hvj
      exact ⟨j, hj, by rw [hd, hvj.1]⟩)
  have hk : ∀ o, k o ≤ logs.length := by
    intro o
    by_cases hp : ∃ e0 ∈ tbls, o ∈ leafOffs e0.2
    · exact ((hkspec o).1 hp).1
    · rw [(hkspec o).2 hp]; exact Nat.zero_le _
  -- the data file holds the frozen catalog and the mixed leaf pages
  have hdisk : OnDisk (reopen r0) pt sch (fillT (img c k) tbls) := by
    intro x hx e he
    show assocGet r0.disk e.1 = some e.2.1 ∧ e.2.2 = false
    rcases mem_catTrees.mp hx with rfl | rfl | ⟨e1, he1, rfl⟩
    · exact ⟨hfrozen x Cat.pt_mem e he (fun j _ s hc => (hc.tree x Cat.pt_mem).1 e he), (h.disk x Cat.pt_mem e he).2⟩
    · exact ⟨hfrozen x Cat.sch_mem e he (fun j _ s hc => (hc.tree x Cat.sch_mem).1 e he), (h.disk x Cat.sch_mem e he).2⟩
    · obtain ⟨e0, he0, rfl⟩ := mem_fillT_inv he1
      rcases mem_flatten.mp he with ⟨p, hp, rfl⟩ | ⟨lvl, hlv, p, hp, rfl⟩
      · obtain ⟨o, ho, rfl⟩ := mem_fill_leaves hp
        refine ⟨?_, rfl⟩
        show assocGet r0.disk (c (k o) o).1.off = some (Node.leaf (c (k o) o).1)
        rw [H.step_off (hk o) he0 ho]
        exact ((hkspec o).1 ⟨e0, he0, ho⟩).2
      · have hx0 := Cat.tb_mem (pt := pt) (sch := sch) (hmem0 he0)
        have hm0 : (p.1.off, Node.internal p.1, p.2) ∈ flatten (fill (c 0) e0.2) := by
          rw [mem_flatten]; exact .inr ⟨lvl, hlv, p, hp, rfl⟩
        refine ⟨hfrozen _ hx0 _ hm0 (fun j _ s hc => ?_), (h.disk _ hx0 _ hm0).2⟩
        have hmj : (p.1.off, Node.internal p.1, p.2) ∈ flatten (fill (c j) e0.2) := by
          rw [mem_flatten]; exact .inr ⟨lvl, hlv, p, hp, rfl⟩
        exact (hc.tree _ (Cat.tb_mem (mem_fillT (c := c j) he0))).1 _ hmj
  -- the replay of the whole log
  obtain ⟨rN, ρ, eall, hcN, hnN, hcl, hdk, _, hmfR, hlsnR, hkeysR, hmonoR, hlsnT⟩ :=
    torn_image_replay H h.self k hk db.wal (by rw [hc0]; exact h.log) (reopen r0) rfl hdisk
      hnf0 (by show _ = r0.dhdr.ptRoot; rw [hpr0]; exact habs0.cat.root)
      (by
        rcases hlk with e | ⟨r, hr, hop, hcell⟩
        · left; rw [e]; exact hlk0
        · exact .inr ⟨r, List.mem_append_right _ hr, hop, hcell⟩)
  rw [← hw] at eall hlsnR hkeysR
  have hsameC : ∀ o, ((c logs.length o).1, ρ o).1 = (c logs.length o).1 := fun _ => rfl
  have hsame : SameT tblsN (fillT (fun o => ((c logs.length o).1, ρ o)) tbls) := by
    rw [hN]; exact sameT_fillT hsameC
  have hsame' : SameT (fillT (fun o => ((c logs.length o).1, ρ o)) tbls) tblsN := by
    rw [hN]; exact sameT_fillT (cA := fun o => ((c logs.length o).1, ρ o)) (cB := c logs.length) (fun _ => rfl)
  have htabs : AbsTables sch (fillT (fun o => ((c logs.length o).1, ρ o)) tbls) sdbF :=
    AbsTables.sameC (by rw [← hN]; exact habsF.tabs) (H.filed _ (Nat.le_refl _)) hsameC
  have hlsnT' : r0.dhdr.nextLSN ≤ rN.hdr.nextLSN := hlsnT
  have hnx : dbN.store.hdr.nextLSN ≤ rN.hdr.nextLSN + 1 := by
    rcases hnext with h1 | ⟨r, hr, h1⟩
    · rw [h1]; omega
    · have := hlsnR r (by rw [hw]; exact List.mem_append_right _ hr); omega
  have hsy : Synced { rN with hdr := { rN.hdr with nextLSN := rN.hdr.nextLSN + 1 } } pt sch
      (fillT (fun o => ((c logs.length o).1, ρ o)) tbls) := by
    intro x hx e he hd
    show assocGet rN.disk e.1 = _
    rw [hdk]
    rcases mem_catTrees.mp hx with rfl | rfl | ⟨e1, he1, rfl⟩
    · exact (hdisk x Cat.pt_mem e he).1
    · exact (hdisk x Cat.sch_mem e he).1
    · obtain ⟨e0, he0, rfl⟩ := mem_fillT_inv he1
      have hI := hdisk _ (Cat.tb_mem (mem_fillT (c := img c k) he0))
      rcases mem_flatten.mp he with ⟨p, hp, rfl⟩ | ⟨lvl, hlv, p, hp, rfl⟩
      · obtain ⟨o, ho, rfl⟩ := mem_fill_leaves hp
        simp only at hd ⊢
        rw [hcl o hd]
        have hm : ((c (k o) o).1.off, Node.leaf (c (k o) o).1, false) ∈ flatten (fill (img c k) e0.2) := by
          rw [mem_flatten]
          exact .inl ⟨img c k o, fill_leaf_mem ho, rfl⟩
        exact (hI _ hm).1
      · have hm : (p.1.off, Node.internal p.1, p.2) ∈ flatten (fill (img c k) e0.2) := by
          rw [mem_flatten]; exact .inr ⟨lvl, hlv, p, hp, rfl⟩
        exact (hI _ hm).1
  have hcB : Cat { rN with hdr := { rN.hdr with nextLSN := rN.hdr.nextLSN + 1 } } pt sch
      (fillT (fun o => ((c logs.length o).1, ρ o)) tbls) := hcN.raise rfl rfl rfl (Nat.le_refl _)
  have hmB : MemFiled { rN with hdr := { rN.hdr with nextLSN := rN.hdr.nextLSN + 1 } } := hmfR.of_mem_eq rfl
  obtain ⟨s1, ef1, hh1, _⟩ := flushPages_spec o1 _ hmB
  have hk1 := ckpt_of_flushed (wal := dbN.wal) hcs ⟨sdbF, ⟨hcB, htabs⟩, hvF⟩ h.self
    ((hfN.sameNodes hsame).of_hdr hnx (by show _ ≤ rN.hdr.nextFree; rw [hnN, hnfN]; exact Nat.le_refl _)) hmB
    (fun r hr => (hlogN r hr).sameNodes hsame')
    (fun r hr => by show r.lsn < rN.hdr.nextLSN + 1; have := hlsnR r hr; omega)
    (fun r hr hop => hkeysR r hr hop) hsy ef1
  obtain ⟨s2, ef2, hh2, _⟩ := flushPages_spec o2 s1 hk1.filed
  have hk2 := hk1.flush_again ef2
  rw [cleanT_fillT_sameC (cA := c logs.length) hsameC, ← hN] at hk2
  refine ⟨{ store := s2, wal := dbN.wal }, tblsN, ?_, rfl, ⟨sdbF, habsF, hvF⟩, hk2, ?_, ?_, ?_, ?_⟩
  · unfold Engine.recover
    simp only [eall, ef1, ef2]
  · show s2.hdr.nextFree = _; rw [hh2, hh1]; show rN.hdr.nextFree = _; rw [hnN, hnfN]
  · show _ ≤ s2.hdr.lastKey; rw [hh2, hh1]; show _ ≤ rN.hdr.lastKey
    rcases hlk with e | ⟨r, hr, hop, hcell⟩
    · rw [e]; exact Nat.le_trans hlk0 hmonoR
    · rw [← hcell]; exact hkeysR r (by rw [hw]; exact List.mem_append_right _ hr) hop
  · show s2.hdr.ptRoot = _; rw [hh2, hh1]; show rN.hdr.ptRoot = _
    rw [← hcN.root, ← hcatN.root]
  · show _ ≤ s2.hdr.nextLSN; rw [hh2, hh1]; exact hnx

end Mkdb.Store
