import Mkdb.Proofs.Evict5
/-!
C16 on the heap model, part 6: **every statement, and every history, on the smaller cache is the same
run** - the engine level.

* `DbEq db1 db2`: the same log, stores related by `CacheEq` (`db2` has the smaller cache).
* `ERel`: `SRel` for the results of the statement evaluators.
* `evalInsert_rel`, `evalDelete_rel`, `evalUpdate_rel`, `evalCreateTable_rel`, `evalStmt_rel`,
  `flush_rel`: whatever the statement evaluator returns on the smaller cache - `.ok` or `.err e` - it
  returns on the larger cache, with the same error `e`, and the databases are related again.
* `DbEq.dbInv`: related databases satisfy the database invariant for the same plain database and the
  same catalog trees.
* `runOps_exact`: a history with evictions of pages that are in the data file (`evictsSafeB`, a
  computable check along the run) gives, statement for statement, the outcomes of the history without
  the evictions - including the error values and the statements refused at a later row.
* `DbInv.evictSafe`: under the database invariant every page of the catalog description may be evicted.
-/
set_option autoImplicit false
namespace Mkdb.Store
open Mkdb.Page Mkdb.Tuple Mkdb.Generated Mkdb.Tree Mkdb.Engine

/-- the same log, and `db2`'s store is `db1`'s store with a smaller cache -/
def DbEq (db1 db2 : Engine.DB) : Prop := db2.wal = db1.wal ∧ CacheEq db1.store db2.store

theorem DbEq.refl {db : Engine.DB} (hf : MemFiled db.store) (hn : MemNodup db.store) : DbEq db db :=
  ⟨rfl, CacheEq.refl hf hn⟩

theorem DbEq.evict_right {db1 db2 : Engine.DB} (h : DbEq db1 db2) (offs : List Nat) (hs : EvictSafe db2.store offs) :
    DbEq db1 (evictDB db2 offs) := ⟨h.1, h.2.evict_right offs hs⟩

/-- the result on the larger cache (`r1`) against the result on the smaller cache (`r2`) -/
def ERel {α} (r1 r2 : Engine.Res α) : Prop :=
  match r2 with
  | .ok a d2 => ∃ d1, r1 = .ok a d1 ∧ DbEq d1 d2
  | .err e d2 => ∃ d1, r1 = .err e d1 ∧ DbEq d1 d2
  | .panic _ => True
  | .unmodelled w => r1 = .unmodelled w
  | .fuel => r1 = .fuel

theorem ERel.ok {α} {a : α} {d1 d2 : Engine.DB} (h : DbEq d1 d2) : ERel (.ok a d1) (.ok a d2) := ⟨d1, rfl, h⟩
theorem ERel.err {α} {e : Engine.StmtErr} {d1 d2 : Engine.DB} (h : DbEq d1 d2) :
    ERel (.err e d1 : Engine.Res α) (.err e d2) := ⟨d1, rfl, h⟩

theorem ERel.void {α} {r1 r2 : Engine.Res α} (h : ERel r1 r2) : ERel (voidRes r1) (voidRes r2) := by
  cases r2 with
  | ok a d2 => obtain ⟨d1, rfl, hd⟩ := h; exact ⟨d1, rfl, hd⟩
  | err e d2 => obtain ⟨d1, rfl, hd⟩ := h; exact ⟨d1, rfl, hd⟩
  | panic p => trivial
  | unmodelled w => have h' : r1 = .unmodelled w := h; subst h'; rfl
  | fuel => have h' : r1 = .fuel := h; subst h'; rfl

/-- a store program run from a database, and what is done with its result -/
theorem liftS_rel {α β} {db1 db2 : Engine.DB} (hd : DbEq db1 db2) {m : SM α} (hm : Sim m)
    {k1 k2 : α → Store → Engine.Res β}
    (hk : ∀ a s1 s2, CacheEq s1 s2 → ERel (k1 a s1) (k2 a s2)) :
    ERel (Engine.liftS db1 m k1) (Engine.liftS db2 m k2) := by
  have h0 := hm db1.store db2.store hd.2
  unfold Engine.liftS
  cases e2 : m db2.store with
  | ok a t2 =>
    rw [e2] at h0
    obtain ⟨t1, e1, ht⟩ := h0
    rw [e1]
    exact hk a t1 t2 ht
  | err x t2 =>
    rw [e2] at h0
    obtain ⟨t1, e1, ht⟩ := h0
    rw [e1]
    exact ⟨_, rfl, hd.1, ht⟩
  | panic p => trivial
  | unmodelled w =>
    rw [e2] at h0
    have h0' : m db1.store = .unmodelled w := h0
    rw [h0']; rfl
  | fuel =>
    rw [e2] at h0
    have h0' : m db1.store = .fuel := h0
    rw [h0']; rfl

/-! ### the statement evaluators -/

theorem evalInsert_go_rel {db1 db2 : Engine.DB} (hd : db2.wal = db1.wal) (table : Bytes) (cols : List Bytes) :
    ∀ (rows : List (List Val)) (s1 s2 : Store) (batch : List WalRec) (n : Nat), CacheEq s1 s2 →
      ERel (Engine.evalInsert.go db1 table cols s1 batch n rows) (Engine.evalInsert.go db2 table cols s2 batch n rows)
  | [], s1, s2, batch, n, h => by
    simp only [Engine.evalInsert.go]
    rw [hd]
    exact ERel.ok ⟨rfl, h⟩
  | r :: rest, s1, s2, batch, n, h => by
    have h0 := Sim.insert table (cols.map Engine.bytesToName) r s1 s2 h
    simp only [Engine.evalInsert.go]
    cases e2 : insert table (cols.map Engine.bytesToName) r s2 with
    | ok logs t2 =>
      rw [e2] at h0
      obtain ⟨t1, e1, ht⟩ := h0
      rw [e1]
      exact evalInsert_go_rel hd table cols rest t1 t2 _ _ ht
    | err x t2 =>
      rw [e2] at h0
      obtain ⟨t1, e1, ht⟩ := h0
      rw [e1]
      exact ⟨_, rfl, hd, ht⟩
    | panic p => trivial
    | unmodelled w =>
      rw [e2] at h0
      have h0' : insert table (cols.map Engine.bytesToName) r s1 = .unmodelled w := h0
      rw [h0']; rfl
    | fuel =>
      rw [e2] at h0
      have h0' : insert table (cols.map Engine.bytesToName) r s1 = .fuel := h0
      rw [h0']; rfl

theorem evalInsert_rel {db1 db2 : Engine.DB} (hd : DbEq db1 db2) (table : Bytes) (cols : List Bytes)
    (rows : List (List Val)) :
    ERel (Engine.evalInsert db1 table cols rows) (Engine.evalInsert db2 table cols rows) :=
  evalInsert_go_rel hd.1 table cols rows db1.store db2.store [] 0 hd.2

theorem evalDelete_go_rel {db1 db2 : Engine.DB} (hd : db2.wal = db1.wal) (table : Bytes) :
    ∀ (ids : List (Nat × List Val)) (s1 s2 : Store) (batch : List WalRec) (n : Nat), CacheEq s1 s2 →
      ERel (Engine.evalDelete.go db1 table s1 batch n ids) (Engine.evalDelete.go db2 table s2 batch n ids)
  | [], s1, s2, batch, n, h => by
    simp only [Engine.evalDelete.go]
    rw [hd]
    exact ERel.ok ⟨rfl, h⟩
  | r :: rest, s1, s2, batch, n, h => by
    have h0 := Sim.markDeleted table r.1 s1 s2 h
    simp only [Engine.evalDelete.go]
    cases e2 : markDeleted table r.1 s2 with
    | ok logs t2 =>
      rw [e2] at h0
      obtain ⟨t1, e1, ht⟩ := h0
      rw [e1]
      exact evalDelete_go_rel hd table rest t1 t2 _ _ ht
    | err x t2 =>
      rw [e2] at h0
      obtain ⟨t1, e1, ht⟩ := h0
      rw [e1]
      exact ⟨_, rfl, hd, ht⟩
    | panic p => trivial
    | unmodelled w =>
      rw [e2] at h0
      have h0' : markDeleted table r.1 s1 = .unmodelled w := h0
      rw [h0']; rfl
    | fuel =>
      rw [e2] at h0
      have h0' : markDeleted table r.1 s1 = .fuel := h0
      rw [h0']; rfl

theorem evalDelete_rel {db1 db2 : Engine.DB} (hd : DbEq db1 db2) (table : Bytes) (w : Option Sql.Cond) :
    ERel (Engine.evalDelete db1 table w) (Engine.evalDelete db2 table w) := by
  unfold Engine.evalDelete Engine.fetchForExec
  refine liftS_rel hd (Sim.fetchTable table) fun a s1 s2 hs => ?_
  obtain ⟨rows, schema⟩ := a
  simp only
  cases Engine.filterIds w (schema.map fun fd => ⟨[], fd.name.toUTF8.toList⟩) rows with
  | ok sel => exact evalDelete_go_rel hd.1 table sel s1 s2 _ _ hs
  | err x => exact ⟨_, rfl, hd.1, hs⟩
  | panic p => trivial

theorem evalUpdate_go_rel {db1 db2 : Engine.DB} (hd : db2.wal = db1.wal) (table : Bytes) (cols : List String)
    (src : List Val) :
    ∀ (ids : List (Nat × List Val)) (s1 s2 : Store) (batch : List WalRec), CacheEq s1 s2 →
      ERel (Engine.evalUpdate.go db1 table cols src s1 batch ids) (Engine.evalUpdate.go db2 table cols src s2 batch ids)
  | [], s1, s2, batch, h => by
    simp only [Engine.evalUpdate.go]
    rw [hd]
    exact ERel.ok ⟨rfl, h⟩
  | r :: rest, s1, s2, batch, h => by
    have h0 := Sim.update table r.1 cols src s1 s2 h
    simp only [Engine.evalUpdate.go]
    cases e2 : update table r.1 cols src s2 with
    | ok logs t2 =>
      rw [e2] at h0
      obtain ⟨t1, e1, ht⟩ := h0
      rw [e1]
      exact evalUpdate_go_rel hd table cols src rest t1 t2 _ ht
    | err x t2 =>
      rw [e2] at h0
      obtain ⟨t1, e1, ht⟩ := h0
      rw [e1]
      exact ⟨_, rfl, hd, ht⟩
    | panic p => trivial
    | unmodelled w =>
      rw [e2] at h0
      have h0' : update table r.1 cols src s1 = .unmodelled w := h0
      rw [h0']; rfl
    | fuel =>
      rw [e2] at h0
      have h0' : update table r.1 cols src s1 = .fuel := h0
      rw [h0']; rfl

theorem evalUpdate_rel {db1 db2 : Engine.DB} (hd : DbEq db1 db2) (table : Bytes) (sets : List (Bytes × Sql.VExpr))
    (w : Option Sql.Cond) :
    ERel (Engine.evalUpdate db1 table sets w) (Engine.evalUpdate db2 table sets w) := by
  by_cases hcol : ∃ p ∈ sets, ∃ c, p.2 = .col c
  · rw [evalUpdate_col db1 table sets w hcol, evalUpdate_col db2 table sets w hcol]
    exact ERel.err hd
  · have hnocol : ∀ p ∈ sets, ∀ c, p.2 ≠ .col c := fun p hp c hpc => hcol ⟨p, hp, c, hpc⟩
    rw [evalUpdate_nocol db1 table sets w hnocol, evalUpdate_nocol db2 table sets w hnocol]
    unfold Engine.fetchForExec
    refine liftS_rel hd (Sim.fetchTable table) fun a s1 s2 hs => ?_
    obtain ⟨rows, schema⟩ := a
    simp only
    cases Engine.checkSetColumns (schema.map fun fd => ⟨[], fd.name.toUTF8.toList⟩) [] (sets.map (·.1)) with
    | some ec => exact ⟨_, rfl, hd.1, hs⟩
    | none =>
    simp only
    cases Engine.filterIds w (schema.map fun fd => ⟨[], fd.name.toUTF8.toList⟩) rows with
    | ok sel => exact evalUpdate_go_rel hd.1 table _ _ sel s1 s2 _ hs
    | err x => exact ⟨_, rfl, hd.1, hs⟩
    | panic p => trivial

theorem evalCreateTable_rel {db1 db2 : Engine.DB} (hd : DbEq db1 db2) (name : Bytes) (cols : List Sql.ColDef)
    (order : List Nat) (doFlush : Bool) :
    ERel (Engine.evalCreateTable db1 name cols order doFlush) (Engine.evalCreateTable db2 name cols order doFlush) := by
  unfold Engine.evalCreateTable
  exact liftS_rel hd (Sim.createTable _ _ _ _) fun _ s1 s2 hs => ERel.ok ⟨hd.1, hs⟩

/-- the timer's flush -/
theorem flush_rel {db1 db2 : Engine.DB} (hd : DbEq db1 db2) (order : List Nat) :
    ERel (Engine.flush db1 order) (Engine.flush db2 order) := by
  unfold Engine.flush
  exact liftS_rel hd (Sim.flushPages _) fun _ s1 s2 hs => ERel.ok ⟨hd.1, hs⟩

/-- **Every statement**: what it returns on the smaller cache it returns on the larger cache. -/
theorem evalStmt_rel {db1 db2 : Engine.DB} (hd : DbEq db1 db2) (order : List Nat) (st : Sql.Stmt) :
    ERel (evalStmt db1 order st) (evalStmt db2 order st) := by
  cases st with
  | createTable n cols => exact evalCreateTable_rel hd n cols order true
  | insert t cols rows => exact (evalInsert_rel hd t cols _).void
  | update t sets w => exact evalUpdate_rel hd t sets w
  | delete t w => exact (evalDelete_rel hd t w).void
  | createDatabase n => exact ERel.ok hd
  | select s => exact ERel.ok hd
  | use d => exact ERel.ok hd
  | showDatabases => exact ERel.ok hd

/-! ### related databases satisfy the same invariant -/

theorem CacheEq.holds {s1 s2 : Store} (h : CacheEq s1 s2) {t : Levels} : Holds s1 t ↔ Holds s2 t :=
  ⟨fun hh e he => by rw [h.view]; exact hh e he, fun hh e he => by rw [← h.view]; exact hh e he⟩

theorem CacheEq.cat {s1 s2 : Store} (h : CacheEq s1 s2) {pt sch : Levels} {tbls : List (Bytes × Levels)} :
    Cat s1 pt sch tbls ↔ Cat s2 pt sch tbls := by
  constructor
  · intro c
    exact { c with
      tree := fun x hx => by
        obtain ⟨a, b, c', d, e⟩ := c.tree x hx
        rw [h.hdr]
        exact ⟨h.holds.mp a, b, c', d, e⟩
      root := by rw [h.hdr]; exact c.root }
  · intro c
    exact { c with
      tree := fun x hx => by
        obtain ⟨a, b, c', d, e⟩ := c.tree x hx
        rw [← h.hdr]
        exact ⟨h.holds.mpr a, b, c', d, e⟩
      root := by rw [← h.hdr]; exact c.root }

theorem CacheEq.absV {s1 s2 : Store} (h : CacheEq s1 s2) {pt sch : Levels} {tbls : List (Bytes × Levels)}
    {sdb : Spec.SDB} : AbsV s1 pt sch tbls sdb ↔ AbsV s2 pt sch tbls sdb := by
  constructor
  · rintro ⟨sdb0, ⟨c, t⟩, hv⟩; exact ⟨sdb0, ⟨h.cat.mp c, t⟩, hv⟩
  · rintro ⟨sdb0, ⟨c, t⟩, hv⟩; exact ⟨sdb0, ⟨h.cat.mpr c, t⟩, hv⟩

theorem CacheEq.synced {s1 s2 : Store} (h : CacheEq s1 s2) {pt sch : Levels} {tbls : List (Bytes × Levels)} :
    Synced s1 pt sch tbls ↔ Synced s2 pt sch tbls :=
  ⟨fun hs x hx e he hd => by rw [h.disk]; exact hs x hx e he hd,
   fun hs x hx e he hd => by rw [← h.disk]; exact hs x hx e he hd⟩

/-- **Related databases satisfy the database invariant for the same plain database and the same trees.** -/
theorem DbEq.dbInv {db1 db2 : Engine.DB} (h : DbEq db1 db2) {sdb : Spec.SDB} {pt sch : Levels}
    {tbls : List (Bytes × Levels)} : DbInv db1 sdb pt sch tbls ↔ DbInv db2 sdb pt sch tbls := by
  obtain ⟨hw, hc⟩ := h
  constructor
  · intro i
    refine ⟨hc.absV.mp i.abs, i.nostale, hc.filed2, ?_, ?_, ?_, hc.synced.mp i.synced⟩
    · rw [hw]; exact i.log
    · rw [hw, hc.hdr]; exact i.lsn
    · rw [hw, hc.hdr]; exact i.keys
  · intro i
    refine ⟨hc.absV.mpr i.abs, i.nostale, hc.filed1, ?_, ?_, ?_, hc.synced.mpr i.synced⟩
    · rw [← hw]; exact i.log
    · rw [← hw, ← hc.hdr]; exact i.lsn
    · rw [← hw, ← hc.hdr]; exact i.keys

/-! ### which pages may go -/

/-- the offsets of the pages of the catalog description -/
def catOffs (pt sch : Levels) (tbls : List (Bytes × Levels)) : List Nat := (catTrees pt sch tbls).flatMap offs

/-- **Under the database invariant every page of the catalog description may be evicted**: where it is
clean it is in the data file (`Synced`). -/
theorem DbInv.evictSafe {db : Engine.DB} {sdb : Spec.SDB} {pt sch : Levels} {tbls : List (Bytes × Levels)}
    (h : DbInv db sdb pt sch tbls) (offs : List Nat) (hoffs : ∀ o ∈ offs, o ∈ catOffs pt sch tbls) :
    EvictSafe db.store offs := by
  intro o ho n hv
  obtain ⟨x, hx, hox⟩ := List.mem_flatMap.mp (hoffs o ho)
  obtain ⟨e, he, rfl⟩ := List.mem_map.mp hox
  obtain ⟨sdb0, habs, _⟩ := h.abs
  have hh := (habs.cat.tree x hx).1 e he
  rw [hh] at hv
  simp only [Option.some.injEq, Prod.mk.injEq] at hv
  rw [← hv.1]
  exact h.synced x hx e he hv.2

/-- the check that the clean pages at these offsets are the data file's pages, computed -/
def evictSafeB (s : Store) (offs : List Nat) : Bool :=
  offs.all fun o =>
    match Store.view s o with
    | some (n, false) => assocGet s.disk o == some n
    | _ => true

theorem evictSafe_of_B {s : Store} {offs : List Nat} (h : evictSafeB s offs = true) : EvictSafe s offs := by
  intro o ho n hv
  unfold evictSafeB at h
  rw [List.all_eq_true] at h
  have := h o ho
  rw [hv] at this
  simpa using this

/-! ### histories -/

/-- along the run of a history, every eviction drops only pages that are in the data file (computed) -/
def evictsSafeB (order : List Nat) : List CacheOp → Engine.DB → Bool
  | [], _ => true
  | .stmt st :: rest, db =>
    match evalStmt db order st with
    | .ok _ db' => evictsSafeB order rest db'
    | .err _ db' => evictsSafeB order rest db'
    | _ => true
  | .flush o :: rest, db =>
    match Engine.flush db o with
    | .ok _ db' => evictsSafeB order rest db'
    | _ => true
  | .evict offs :: rest, db => evictSafeB db.store offs && evictsSafeB order rest (evictDB db offs)

/-- **A history with evictions is, statement for statement, the history without them.**  `db2` runs the
history `ops` with its evictions, `db1` - the same database, or one with a larger cache - runs the same
statements and flushes without any eviction.  If the run with the evictions completes, so does the
other, with the SAME outcome for every statement (accepted, or refused with the same error value), and
the final databases are related: same log, same headers, same data file, the same page at every
offset. -/
theorem runOps_exact (order : List Nat) (ops : List CacheOp) :
    ∀ (db1 db2 : Engine.DB), DbEq db1 db2 → evictsSafeB order ops db2 = true →
      ∀ (d2 : Engine.DB) (outs : List (Option Engine.StmtErr)), runOps order db2 ops = some (d2, outs) →
        ∃ d1, runOps order db1 (noEvict ops) = some (d1, outs) ∧ DbEq d1 d2 := by
  induction ops with
  | nil =>
    intro db1 db2 hd _ d2 outs hr
    simp only [runOps, Option.some.injEq, Prod.mk.injEq] at hr
    obtain ⟨rfl, rfl⟩ := hr
    exact ⟨db1, rfl, hd⟩
  | cons op rest ih =>
    intro db1 db2 hd hsafe d2 outs hr
    cases op with
    | stmt st =>
      have h0 := evalStmt_rel hd order st
      simp only [runOps, noEvict] at hr ⊢
      simp only [evictsSafeB] at hsafe
      cases e2 : evalStmt db2 order st with
      | ok u t2 =>
        rw [e2] at h0 hr hsafe
        obtain ⟨t1, e1, ht⟩ := h0
        simp only [Option.map_eq_some_iff, Prod.mk.injEq] at hr
        obtain ⟨r, hr2, rfl, rfl⟩ := hr
        obtain ⟨d1, hr1, hd1⟩ := ih t1 t2 ht hsafe r.1 r.2 hr2
        refine ⟨d1, ?_, hd1⟩
        rw [e1]
        simp only [hr1, Option.map_some]
      | err x t2 =>
        rw [e2] at h0 hr hsafe
        obtain ⟨t1, e1, ht⟩ := h0
        simp only [Option.map_eq_some_iff, Prod.mk.injEq] at hr
        obtain ⟨r, hr2, rfl, rfl⟩ := hr
        obtain ⟨d1, hr1, hd1⟩ := ih t1 t2 ht hsafe r.1 r.2 hr2
        refine ⟨d1, ?_, hd1⟩
        rw [e1]
        simp only [hr1, Option.map_some]
      | panic p => rw [e2] at hr; cases hr
      | unmodelled w => rw [e2] at hr; cases hr
      | fuel => rw [e2] at hr; cases hr
    | flush o =>
      have h0 := flush_rel hd o
      simp only [runOps, noEvict] at hr ⊢
      simp only [evictsSafeB] at hsafe
      cases e2 : Engine.flush db2 o with
      | ok u t2 =>
        rw [e2] at h0 hr hsafe
        obtain ⟨t1, e1, ht⟩ := h0
        obtain ⟨d1, hr1, hd1⟩ := ih t1 t2 ht hsafe d2 outs hr
        refine ⟨d1, ?_, hd1⟩
        rw [e1]
        exact hr1
      | err x t2 => rw [e2] at hr; cases hr
      | panic p => rw [e2] at hr; cases hr
      | unmodelled w => rw [e2] at hr; cases hr
      | fuel => rw [e2] at hr; cases hr
    | evict offs =>
      simp only [runOps, noEvict] at hr ⊢
      simp only [evictsSafeB, Bool.and_eq_true] at hsafe
      exact ih db1 (evictDB db2 offs) (hd.evict_right offs (evictSafe_of_B hsafe.1)) hsafe.2 d2 outs hr

end Mkdb.Store
