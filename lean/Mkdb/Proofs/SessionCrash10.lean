import Mkdb.Proofs.SessionCrash9
/-!
Sessions and crashes, part 10: **CREATE TABLE anywhere** - also while the selected database holds row
statements that are logged but not flushed.

`CreateTable` (storage/relation.go: lockExclusive; createTable; flushPagesLocked) writes no log record; it
changes catalog pages and then flushes ALL dirty pages and the header.  So it ends in a checkpoint whatever was
dirty before it.  The old records stay in the log; after the flush they are all applied (`AppliedC.grows`: the
catalog trees only grew), so recovery skips them.

* `DbCrashB.self_fresh`: the two side conditions of the replay theorems (`PtSelf`, `FreshM`) hold for every
  catalog description of a database that satisfies the crash invariant `DbCrashB` - not only at a checkpoint.
* `DbInv.createTable_ckpt`: `Ckpt.createTable_ok` from a database IN USE (`DbInv`, dirty pages allowed) that
  meets these two side conditions: the result is checkpointed.
* `createTable_anywhere_sessCrashB`: the session theorem, with NO "checkpointed before" hypothesis.
* `OkOps4`, `runOps_sessCrashB`: the list theorem without the flag.
-/
set_option autoImplicit false
namespace Mkdb.Store
open Mkdb.Page Mkdb.Tuple Mkdb.Generated Mkdb.Tree Mkdb.Engine

/-- the side conditions of the replay theorems hold for every catalog description of a database that satisfies
the crash invariant -/
theorem DbCrashB.self_fresh {db : Engine.DB} {sdb : Spec.SDB} (h : DbCrashB db sdb) {pt sch : Levels}
    {tbls : List (Bytes × Levels)} (hc : Cat db.store pt sch tbls) : PtSelf pt ∧ FreshM db.store tbls := by
  obtain ⟨sch0, db0, sdb0, pt0, tbls0, ptN, tblsN, logs, hk, _, hrun, hw, hAN, _, _⟩ := h
  obtain ⟨hselfN, hfN, _⟩ := ckpt_live_factsB hk hrun hw hAN
  obtain ⟨_, habsN, _⟩ := id hAN
  have e : pt = ptN := hc.pt_unique habsN.cat
  exact ⟨e ▸ hselfN, hfN.sub (hc.tbls_sub habsN.cat)⟩

/-- **An accepted CREATE TABLE on a database in use ends in a checkpoint.**  `Ckpt.createTable_ok` without
"checkpointed before": from `DbInv` (dirty pages allowed; every log record applied) with the side conditions
`PtSelf` and `FreshM`. -/
theorem DbInv.createTable_ckpt {db : Engine.DB} {sdb : Spec.SDB} {pt sch : Levels} {tbls : List (Bytes × Levels)}
    (hinv : DbInv db sdb pt sch tbls) (hself : PtSelf pt) (hfresh : FreshM db.store tbls)
    (name : Bytes) (cols : List Sql.ColDef) (order : List Nat)
    (hfind : Spec.findTable sdb name = none) (hn1 : name ≠ sysPages) (hn2 : name ≠ sysSchema)
    (hfld : checkFieldsFrom [] (cols.map Engine.colTypeToField) = none)
    (hchk : checkCatalogRows (cols.map Engine.colTypeToField) name = none)
    (hpd : pt.inner.length + 3 ≤ treeFuel) (hpl : pt.leaves.length + 1 ≤ scanFuel)
    (hsd : sch.inner.length + cols.length + 2 ≤ treeFuel) (hsl : sch.leaves.length + cols.length ≤ scanFuel)
    (hbig : db.store.hdr.nextFree + 262144 * cols.length + 262144 ≤ 9223372036854775807) :
    ∃ db' pt' sch' tbls', Engine.evalCreateTable db name cols order true = .ok () db' ∧ db'.wal = db.wal ∧
      Ckpt sch' db' (sdb ++ [⟨name, cols.map Spec.colField, []⟩]) pt' tbls' ∧ NoStale sch' tbls' := by
  obtain ⟨db', pt', sch', tbls', heval, hw, hk⟩ := hinv.createTable_ok name cols order hfind hn1 hn2 hfld hchk
    hpd hpl hsd hsl hbig
  obtain ⟨sdb0, habs0, hv⟩ := hinv.abs
  have hfind0 : Spec.findTable sdb0 name = none := (findTable_none_congr hv name).mpr hfind
  have hn3 : name ∉ tbls.map (·.1) := findTable_none_notin habs0.tabs habs0.cat.tnames hfind0
  have hlen : (cols.map Engine.colTypeToField).length = cols.length := List.length_map _
  obtain ⟨sN, pt1, nf1, ptN, schN, hrun, hcN, hins, hsame, _, hent, hcells, _, _, _, ⟨m, _, hlsn⟩, hnf1, hnfN⟩ :=
    createTable_cat_core habs0.cat (cols.map Engine.colTypeToField) name order hn1 hn2 hn3 hfld hchk hpd hpl
      (by rw [hlen]; exact hsd) (by rw [hlen]; exact hsl) (by rw [hlen]; exact hbig)
  rw [hlen] at hlsn hnfN
  obtain ⟨_, hIpt, _, _, _⟩ := habs0.cat.tree pt Cat.pt_mem
  have hIpt' : Inv pt (db.store.hdr.nextFree + c_pageSize) := Inv_mono pt _ _ hIpt (Nat.le_add_right _ _)
  have hle1 : db.store.hdr.nextFree + c_pageSize ≤ nf1 := insertAppend_nextFree pt pt1 _ _ _ nf1 _ hins
  have hselfN : PtSelf ptN := hself.createTable hIpt' hins hsame hn1 hent
  have hfrN : FreshM sN (tbls ++ [(name, emptyTree db.store.hdr.nextFree)]) :=
    hfresh.createTable name (by omega) (by omega)
  have erun : createTable (cols.map Engine.colTypeToField) name order false db.store = .ok () sN := hrun false
  have hmfN : MemFiled sN := createTable_memFiled hinv.filed erun
  obtain ⟨s', ef, hc', hh', _, _, _⟩ := flushPages_cat order hcN hmfN
  have e_t : createTable (cols.map Engine.colTypeToField) name order true db.store = .ok () s' := by
    rw [hrun true]; exact ef
  have hdb' : db' = { db with store := s' } := by
    simp only [Engine.evalCreateTable, Engine.liftS, e_t, Engine.Res.ok.injEq, true_and] at heval
    exact heval.symm
  have hst : db'.store = s' := by rw [hdb']
  obtain ⟨sdb1, habs1, _⟩ := hk.inv.abs
  have hc1 : Cat s' pt' sch' tbls' := hst ▸ habs1.cat
  have ept : pt' = clean ptN := hc1.pt_unique hc'
  have hsub : ∀ e ∈ tbls', e ∈ cleanT (tbls ++ [(name, emptyTree db.store.hdr.nextFree)]) := hc1.tbls_sub hc'
  have hself' : PtSelf pt' := ept ▸ hselfN.clean
  have hfr' : FreshM db'.store tbls' := by
    rw [hst]
    exact (hfrN.clean (by rw [hh']; exact Nat.le_refl _) (by rw [hh']; exact Nat.le_refl _)).sub hsub
  exact ⟨db', pt', sch', tbls', heval, hw, hk.ckpt hself' hfr', hk.inv.nostale⟩

end Mkdb.Store

namespace Mkdb.Session
open Mkdb.Engine Mkdb.Sql Mkdb.Tree
open Mkdb.Store hiding Stmt

/-- **An accepted CREATE TABLE keeps the crash invariant - whatever the selected database holds unflushed** -
and the selected database is checkpointed after it.  `createTable_sessCrashB` without the hypothesis that the
selected database is checkpointed. -/
theorem createTable_anywhere_sessCrashB {s : Sess} {w : String → Spec.SDB} (h : SessCrashB s w) (n : String)
    (hc : s.cur = some n) (db : DB) (hg : getDB s n = some db) (t : Bytes) (cols : List ColDef)
    (hroom : ∀ pt sch tbls, DbInv db (w n) pt sch tbls → StmtRoom db pt sch tbls (.createTable t cols))
    (sdb' : Spec.SDB) (hspec : Spec.specStmt (w n) (.createTable t cols) = some sdb') :
    (exec s (.createTable t cols)).2 = Out.ok ∧ SessCrashB (exec s (.createTable t cols)).1 (setW w n sdb') ∧
      ∃ db', getDB (exec s (.createTable t cols)).1 n = some db' ∧ db'.wal = db.wal ∧ CkptNS db' sdb' := by
  obtain ⟨pt, sch, tbls, hi, _⟩ := h.abs.dbs (n, db) (getDB_mem hg)
  obtain ⟨_, habs0, _⟩ := id hi.abs
  obtain ⟨hself, hfresh⟩ := (h.crash (n, db) (getDB_mem hg)).self_fresh habs0.cat
  obtain ⟨hlo, hchk, hpd, hpl, hsd, hsl, hbig⟩ := hroom pt sch tbls hi
  obtain ⟨hfind, hn1, hn2, hhi, hndc, rfl⟩ := specCreate_some hspec
  obtain ⟨db', pt', sch', tbls', e, hw', hk', hns'⟩ := hi.createTable_ckpt hself hfresh t cols [] hfind hn1 hn2
    (colFields_ok cols hhi hlo hndc) hchk hpd hpl hsd hsl hbig
  have e' : evalStmt db [] (.createTable t cols) = .ok () db' := e
  rw [exec_routed s _ (.inl ⟨t, cols, rfl⟩)]
  unfold onCurrent
  simp only [hc, hg, e']
  have hck' : CkptNS db' (w n ++ [⟨t, cols.map Spec.colField, []⟩]) := ⟨sch', pt', tbls', hk', hns'⟩
  refine ⟨trivial, setCur_sessCrashB h hc (hk'.dbFlushed hns').inv hck'.dbCrashB, db', ?_, hw', hck'⟩
  rw [getDB_setDB]; simp

/-! ### lists of operations, without the flag -/

/-- the side condition of a statement routed to the selected database: it leaves the session as it is and the
plain model refuses it too; or the plain model accepts it, with room - a CREATE TABLE too, whenever it comes -;
or the selected database refuses it with only its cache grown (`StmtRefusalC`) -/
def OkRouted4 (s : Sess) (w : String → Spec.SDB) (st : Stmt) : Prop :=
  ((exec s st).1 = s ∧ ∀ n, s.cur = some n → Spec.specStmt (w n) st = none) ∨
  (∃ n db sdb', s.cur = some n ∧ getDB s n = some db ∧ Spec.specStmt (w n) st = some sdb' ∧
    (∀ pt sch tbls, DbInv db (w n) pt sch tbls → StmtRoom db pt sch tbls st)) ∨
  (∃ n db, s.cur = some n ∧ getDB s n = some db ∧
    ∀ pt sch tbls, DbInv db (w n) pt sch tbls → StmtRefusalC (w n) pt st)

def OkStmt4 (s : Sess) (w : String → Spec.SDB) (st : Stmt) : Prop :=
  isRouted st = true → OkRouted4 s w st

/-- the side conditions along a list of operations: `OkOps3` without the flag -/
def OkOps4 : Sess → (String → Spec.SDB) → List SOp → Prop
  | _, _, [] => True
  | s, w, .stmt st :: rest =>
    (OkStmt4 s w st ∧ OkOps4 (exec s st).1 (worldStep s w st) rest) ∨
    ((∃ n db, s.cur = some n ∧ getDB s n = some db ∧ FirstRowRefused (w n) st) ∧
      OkOps4 (exec s st).1 w rest)
  | s, w, .restart :: rest => ∀ s', restart s = some s' → OkOps4 s' w rest
  | s, w, .crash :: rest => ∀ s', crashRestart s = some s' → OkOps4 s' w rest

theorem OkRouted2.toOkRouted4 {s : Sess} {w : String → Spec.SDB} {clean : Bool} {st : Stmt}
    (h : OkRouted2 s w clean st) : OkRouted4 s w st := by
  rcases h with (h | ⟨n, db, sdb', hc, hg, hspec, hroom, _⟩) | h
  · exact .inl h
  · exact .inr (.inl ⟨n, db, sdb', hc, hg, hspec, hroom⟩)
  · exact .inr (.inr h)

/-- every list that meets `OkOps3` (whatever the flag) meets `OkOps4` -/
theorem OkOps3.toOkOps4 : ∀ (ops : List SOp) (s : Sess) (w : String → Spec.SDB) (clean : Bool),
    OkOps3 s w clean ops → OkOps4 s w ops
  | [], _, _, _, _ => trivial
  | .stmt _ :: rest, _, _, _, h => by
    rcases h with ⟨h1, h2⟩ | ⟨h1, h2⟩
    · exact .inl ⟨fun hr => (h1 hr).toOkRouted4, OkOps3.toOkOps4 rest _ _ _ h2⟩
    · exact .inr ⟨h1, OkOps3.toOkOps4 rest _ _ _ h2⟩
  | .restart :: rest, _, _, _, h => fun s' e => OkOps3.toOkOps4 rest _ _ _ (h s' e)
  | .crash :: rest, _, _, _, h => fun s' e => OkOps3.toOkOps4 rest _ _ _ (h s' e)

theorem routed_sessCrashB {s : Sess} {w : String → Spec.SDB} (h : SessCrashB s w) (st : Stmt)
    (hr : isRouted st = true) (hok : OkRouted4 s w st) : SessCrashB (exec s st).1 (routedW s w st) := by
  have hB : CInvB s w false := ⟨h, fun hx => by cases hx⟩
  rcases hok with ⟨hs, hno⟩ | ⟨n, db, sdb', hc, hg, hspec, hroom⟩ | ⟨n, db, hc, hg, hbad⟩
  · exact (unchanged_cinvB hB st hs hno).inv
  · cases st with
    | createTable t cols =>
      have h1 : routedW s w (.createTable t cols) = setW w n sdb' := by
        unfold routedW; simp only [hc, hspec]
      rw [h1]
      exact (createTable_anywhere_sessCrashB h n hc db hg t cols hroom sdb' hspec).2.1
    | insert t c r =>
      exact (accepted_cinvB hB _ hr n db sdb' hc hg hspec hroom (fun hx => by cases hx)).2.inv
    | update t a c =>
      exact (accepted_cinvB hB _ hr n db sdb' hc hg hspec hroom (fun hx => by cases hx)).2.inv
    | delete t c =>
      exact (accepted_cinvB hB _ hr n db sdb' hc hg hspec hroom (fun hx => by cases hx)).2.inv
    | createDatabase _ => cases hr
    | use _ => cases hr
    | showDatabases => cases hr
    | select _ => cases hr
  · exact (refused_cinvB hB st n db hc hg hbad).inv

/-- **One statement keeps the invariant** - no flag. -/
theorem step_sessCrashB {s : Sess} {w : String → Spec.SDB} (h : SessCrashB s w) (st : Stmt)
    (hok : OkStmt4 s w st) : SessCrashB (exec s st).1 (worldStep s w st) := by
  cases st with
  | createDatabase name => exact createDatabase_sessCrashB h name
  | use name => exact use_sessCrashB h name
  | showDatabases => exact h
  | select q =>
    show SessCrashB (exec s (.select q)).1 w
    rw [exec_select_fst]; exact h
  | createTable t c => exact routed_sessCrashB h _ rfl (hok rfl)
  | insert t c r => exact routed_sessCrashB h _ rfl (hok rfl)
  | update t a c => exact routed_sessCrashB h _ rfl (hok rfl)
  | delete t c => exact routed_sessCrashB h _ rfl (hok rfl)

/-- **Every list of operations that meets `OkOps4` - CREATE TABLE anywhere - runs (no recovery in it fails) and
keeps the invariant**, for the plain databases `worldOps` computes. -/
theorem runOps_sessCrashB : ∀ (ops : List SOp) (s : Sess) (w : String → Spec.SDB),
    SessCrashB s w → OkOps4 s w ops →
    ∃ s', runOps s ops = some s' ∧ SessCrashB s' (worldOps s w ops)
  | [], s, w, h, _ => ⟨s, rfl, h⟩
  | .stmt st :: rest, s, w, h, hok => by
    rcases hok with ⟨h1, h2⟩ | ⟨⟨n, db, hc, hg, hbad⟩, h2⟩
    · obtain ⟨s', e, h'⟩ := runOps_sessCrashB rest _ _ (step_sessCrashB h st h1) h2
      exact ⟨s', e, h'⟩
    · obtain ⟨hnone, _, hinv, _⟩ := firstRowRefused_sessCrashB h n hc db hg st hbad
      have hr : isRouted st = true := by
        cases st with
        | insert _ _ _ => rfl
        | createTable _ _ => exact hbad.elim
        | update _ _ _ => exact hbad.elim
        | delete _ _ => exact hbad.elim
        | createDatabase _ => exact hbad.elim
        | use _ => exact hbad.elim
        | showDatabases => exact hbad.elim
        | select _ => exact hbad.elim
      obtain ⟨hw, _⟩ := refused_step_eqs (s := s) (w := w) false (st := st) hr hc hnone
      obtain ⟨s', e, h'⟩ := runOps_sessCrashB rest (exec s st).1 w hinv h2
      refine ⟨s', e, ?_⟩
      show SessCrashB s' (worldOps (exec s st).1 (worldStep s w st) rest)
      rw [hw]; exact h'
  | .restart :: rest, s, w, h, hok => by
    obtain ⟨s1, e1, h1, _, _, _⟩ := restart_sessCrashB h
    obtain ⟨s', e, h'⟩ := runOps_sessCrashB rest s1 w h1.toB (hok s1 e1)
    refine ⟨s', ?_, ?_⟩
    · simp only [runOps, e1, Option.bind_some, e]
    · simp only [worldOps, e1]; exact h'
  | .crash :: rest, s, w, h, hok => by
    obtain ⟨s1, e1, h1, _, _, _⟩ := crashRestart_sessCrashB h
    obtain ⟨s', e, h'⟩ := runOps_sessCrashB rest s1 w h1.toB (hok s1 e1)
    refine ⟨s', ?_, ?_⟩
    · simp only [runOps, e1, Option.bind_some, e]
    · simp only [worldOps, e1]; exact h'

end Mkdb.Session

namespace Mkdb.Session
open Mkdb.Engine Mkdb.Sql Mkdb.Tree
open Mkdb.Store hiding Stmt

/-! ### example -/

/-- CREATE DATABASE d; USE d; CREATE TABLE t (a INT); INSERT INTO t VALUES (5); CREATE TABLE u (a INT) - while the
INSERT is logged and not flushed -; crash -/
def createAnywhereOps : List SOp :=
  [.stmt (.createDatabase [100]), .stmt (.use [100]), .stmt (.createTable tname acols),
   .stmt (.insert tname [] [[.int 5]]), .stmt (.createTable uname acols), .crash]

/-- the rows a reader sees in table `tb` of the database `n` -/
def rowsOfT (s : Sess) (n : String) (tb : Bytes) : Option (List Exec.Row) :=
  (getDB s n).bind fun db => (fetchOfDB db tb).map (·.rows)

set_option maxRecDepth 100000 in
/-- **The computed example**: all five statements are accepted.  Before the crash the log of `d` holds one record
(the INSERT: CREATE TABLE logs nothing), and the header in the data file carries the counters of the header in
memory (CREATE TABLE u flushed).  The process dies; recovery succeeds (it finds the record applied); nothing is
selected; after USE d a reader sees the row `(5)` in `t`, and `u` is there and empty. -/
theorem createAnywhereOps_example :
    (outsOps {} createAnywhereOps).map (·.map outCode) = some [0, 0, 0, 0, 0] ∧
    (runOps {} createAnywhereOps.dropLast).map (fun s' => (getDB s' "d").map fun db =>
        (db.wal.length, decide (db.store.dhdr = db.store.hdr))) = some (some (1, true)) ∧
    (runOps {} createAnywhereOps).map (fun s' => (s'.cur, rowsOfT (exec s' (.use [100])).1 "d" tname,
        rowsOfT (exec s' (.use [100])).1 "d" uname)) = some (none, some [[.int 5]], some []) := by
  decide +kernel

end Mkdb.Session
