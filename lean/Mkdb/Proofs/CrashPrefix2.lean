import Mkdb.Proofs.CrashPrefix1
/-!
Crash while a statement appends its records to the log, part 2 (storage level, Goal 1): **replaying
any prefix of the log of a live run yields the live state after a prefix of its row statements.**

* `LiveRunM.split`: a live run over `A ++ B` is a live run over `A` followed by one over `B`
  (prefix-closure of `LiveRunM`).
* `PtRestamp`: the page table of the replayed store when the cut fell between the INSERT record and
  the catalog record of an insert that moved the root.
* `CutAt`, `replay_prefix_gen`: the induction.
* `replay_prefix`: the case `r0 = s0`, with the page-by-page conclusion.
* `replay_prefix_boundary`: every prefix of the row statements is reached by some cut.
-/
set_option autoImplicit false
namespace Mkdb.Store
open Mkdb.Page Mkdb.Tuple Mkdb.Generated Mkdb.Tree Mkdb.Engine

/-! ### prefix-closure of live runs -/

/-- **A live run over `A ++ B` splits** into a live run over `A` and a live run over `B` from where
the first one ended; the log is the concatenation of the two logs. -/
theorem LiveRunM.split {sch : Levels} {s sN : Store} {tbls tblsN : List (Bytes × Levels)}
    {stmts : List RStmt} {logs : List WalRec} (run : LiveRunM sch s tbls stmts sN tblsN logs) :
    ∀ (A B : List RStmt), stmts = A ++ B →
      ∃ sK tblsK l1 l2, LiveRunM sch s tbls A sK tblsK l1 ∧ LiveRunM sch sK tblsK B sN tblsN l2 ∧
        logs = l1 ++ l2 := by
  induction run with
  | nil s tbls =>
    intro A B hAB
    obtain ⟨rfl, rfl⟩ := List.append_eq_nil_iff.mp hAB.symm
    exact ⟨s, tbls, [], [], .nil _ _, .nil _ _, rfl⟩
  | same hs _ ih =>
    intro A B hAB
    obtain ⟨sK, tblsK, l1, l2, r1, r2, e⟩ := ih A B hAB
    exact ⟨sK, tblsK, l1, l2, .same hs r1, r2, e⟩
  | @ins s s1 s2 tbls tbls2 rest logs logs2 table cols vals t schema buf t' nf' ht hsch hcols hnames henc hlen hins
      hd' hl' hbig hrun hrest ih =>
    intro A B hAB
    cases A with
    | nil =>
      rw [List.nil_append] at hAB
      subst hAB
      exact ⟨s, tbls, [], _, .nil _ _, .ins table cols vals t schema buf t' nf' ht hsch hcols hnames henc hlen hins hd'
        hl' hbig hrun hrest, rfl⟩
    | cons a A' =>
      rw [List.cons_append, List.cons.injEq] at hAB
      obtain ⟨rfl, hAB⟩ := hAB
      obtain ⟨sK, tblsK, l1, l2, r1, r2, e⟩ := ih A' B hAB
      exact ⟨sK, tblsK, logs ++ l1, l2, .ins table cols vals t schema buf t' nf' ht hsch hcols hnames henc hlen hins hd'
        hl' hbig hrun r1, r2, by rw [e, List.append_assoc]⟩
  | @upd s s1 s2 tbls tbls2 rest logs logs2 table rowId cols src t schema c m buf ht hsch hc hk hdec henc hlen
      hrun hrest ih =>
    intro A B hAB
    cases A with
    | nil =>
      rw [List.nil_append] at hAB
      subst hAB
      exact ⟨s, tbls, [], _, .nil _ _, .upd table rowId cols src t schema c m buf ht hsch hc hk hdec henc hlen hrun
        hrest, rfl⟩
    | cons a A' =>
      rw [List.cons_append, List.cons.injEq] at hAB
      obtain ⟨rfl, hAB⟩ := hAB
      obtain ⟨sK, tblsK, l1, l2, r1, r2, e⟩ := ih A' B hAB
      exact ⟨sK, tblsK, logs ++ l1, l2, .upd table rowId cols src t schema c m buf ht hsch hc hk hdec henc hlen hrun
        r1, r2, by rw [e, List.append_assoc]⟩
  | @updAbsent s s1 s2 tbls tbls2 rest logs logs2 table rowId cols src t schema ht hsch habs hrun hrest ih =>
    intro A B hAB
    cases A with
    | nil =>
      rw [List.nil_append] at hAB
      subst hAB
      exact ⟨s, tbls, [], _, .nil _ _, .updAbsent table rowId cols src t schema ht hsch habs hrun hrest, rfl⟩
    | cons a A' =>
      rw [List.cons_append, List.cons.injEq] at hAB
      obtain ⟨rfl, hAB⟩ := hAB
      obtain ⟨sK, tblsK, l1, l2, r1, r2, e⟩ := ih A' B hAB
      exact ⟨sK, tblsK, logs ++ l1, l2, .updAbsent table rowId cols src t schema ht hsch habs hrun r1, r2,
        by rw [e, List.append_assoc]⟩
  | @del s s1 s2 tbls tbls2 rest logs logs2 table rowId t c ht hc hk hrun hrest ih =>
    intro A B hAB
    cases A with
    | nil =>
      rw [List.nil_append] at hAB
      subst hAB
      exact ⟨s, tbls, [], _, .nil _ _, .del table rowId t c ht hc hk hrun hrest, rfl⟩
    | cons a A' =>
      rw [List.cons_append, List.cons.injEq] at hAB
      obtain ⟨rfl, hAB⟩ := hAB
      obtain ⟨sK, tblsK, l1, l2, r1, r2, e⟩ := ih A' B hAB
      exact ⟨sK, tblsK, logs ++ l1, l2, .del table rowId t c ht hc hk hrun r1, r2, by rw [e, List.append_assoc]⟩

/-- a prefix of a live run is a live run, and its log is a prefix of the log -/
theorem LiveRunM.take {sch : Levels} {s sN : Store} {tbls tblsN : List (Bytes × Levels)}
    {stmts : List RStmt} {logs : List WalRec} (run : LiveRunM sch s tbls stmts sN tblsN logs) (j : Nat) :
    ∃ sK tblsK l1, LiveRunM sch s tbls (stmts.take j) sK tblsK l1 ∧ l1 = logs.take l1.length ∧
      LiveRunM sch sK tblsK (stmts.drop j) sN tblsN (logs.drop l1.length) := by
  obtain ⟨sK, tblsK, l1, l2, r1, r2, e⟩ := run.split (stmts.take j) (stmts.drop j) (List.take_append_drop j stmts).symm
  refine ⟨sK, tblsK, l1, r1, ?_, ?_⟩
  · rw [e, List.take_left]
  · rw [e, List.drop_left]; exact r2

/-! ### what a cut of the log leaves -/

/-- The live page table `ptS` is the replayed one `ptR` with the LSN stamp of one leaf raised (the row
`key` rewritten to the value `v` it already has in `ptR`); both name the same roots.  This is the
state of the page table when the log was cut between the INSERT record of a row whose insert moved
the root of its table and the catalog record that follows it: redo of the INSERT record repoints the
page table itself, stamping the leaf with the INSERT record's LSN; the catalog record would stamp it
once more. -/
def PtRestamp (ptR ptS : Levels) : Prop :=
  ∃ key lsn v, ptS = setVal ptR key lsn v ∧ ptEntries ptR = ptEntries ptS

theorem PtRestamp.root {ptR ptS : Levels} (h : PtRestamp ptR ptS) : rootOff ptS = rootOff ptR := by
  obtain ⟨key, lsn, v, rfl, _⟩ := h
  exact (PtLike.facts (.inr ⟨key, lsn, v, rfl⟩)).2.1

theorem PtRestamp.offs {ptR ptS : Levels} (h : PtRestamp ptR ptS) : offs ptS = offs ptR := by
  obtain ⟨key, lsn, v, rfl, _⟩ := h
  exact offs_setVal ptR key lsn v

/-- The state a cut of the log after `k` records leaves, for a live run of `stmts` from `s` (tables
`tbls`) that wrote `logs`, the log being replayed on `r0`: there is a number `j` of row statements and
a live run of exactly the first `j` statements, to a store `sK` with tables `tblsK`, such that the
replay of `logs.take k` on `r0` succeeds and ends in a store `rK` that satisfies the catalog
description with the same tables `tblsK`, and agrees with `sK` on the allocation frontier and the
row-id counter.  Either the cut is a boundary between row statements - the log of the `j` statements
is exactly `logs.take k` and the page tables are equal - or the cut fell between the two records of the
`j`-th statement, an INSERT that moved the root of its table: the log of the `j` statements is
`logs.take (k+1)`, and the replayed page table is the live one up to one LSN stamp (`PtRestamp`). -/
def CutAt (sch : Levels) (s : Store) (tbls : List (Bytes × Levels)) (stmts : List RStmt)
    (logs : List WalRec) (r0 : Store) (k : Nat) : Prop :=
  ∃ j sK tblsK logsK ptK ptR rK,
    j ≤ stmts.length ∧
    LiveRunM sch s tbls (stmts.take j) sK tblsK logsK ∧
    replayAll (logs.take k) r0 = (rK, none, false) ∧
    Cat sK ptK sch tblsK ∧ Cat rK ptR sch tblsK ∧ PtSelf ptK ∧ FreshM sK tblsK ∧
    rK.hdr.nextFree = sK.hdr.nextFree ∧ rK.hdr.lastKey = sK.hdr.lastKey ∧
    rK.hdr.nextLSN ≤ sK.hdr.nextLSN ∧
    ((logsK = logs.take k ∧ ptR = ptK) ∨
     (logsK = logs.take (k + 1) ∧ k + 1 ≤ logs.length ∧ PtRestamp ptR ptK ∧
       ∃ table cols vals, (stmts.take j).getLast? = some (.ins table cols vals)))

theorem getLast?_cons_of_some {α : Type} {x y : α} {l : List α} (h : l.getLast? = some y) :
    (x :: l).getLast? = some y := by
  cases l with
  | nil => cases h
  | cons b l => rw [List.getLast?_cons_cons]; exact h

theorem CutAt.zero {sch : Levels} {s r0 : Store} {pt : Levels} {tbls : List (Bytes × Levels)}
    (stmts : List RStmt) (logs : List WalRec) (h : Cat s pt sch tbls) (hr : Cat r0 pt sch tbls)
    (hself : PtSelf pt) (hf : FreshM s tbls) (e1 : r0.hdr.nextFree = s.hdr.nextFree)
    (e2 : r0.hdr.lastKey = s.hdr.lastKey) (e3 : r0.hdr.nextLSN ≤ s.hdr.nextLSN) :
    CutAt sch s tbls stmts logs r0 0 :=
  ⟨0, s, tbls, [], pt, pt, r0, Nat.zero_le _, by rw [List.take_zero]; exact .nil _ _,
    by rw [List.take_zero]; rfl, h, hr, hself, hf, e1, e2, e3, .inl ⟨by rw [List.take_zero], rfl⟩⟩

theorem CutAt.same {sch : Levels} {s s1 r0 : Store} {tbls : List (Bytes × Levels)} {stmts : List RStmt}
    {logs : List WalRec} {k : Nat} (hs : Same s s1) (hc : CutAt sch s1 tbls stmts logs r0 k) :
    CutAt sch s tbls stmts logs r0 k := by
  obtain ⟨j, sK, tblsK, logsK, ptK, ptR, rK, hj, run, rest⟩ := hc
  exact ⟨j, sK, tblsK, logsK, ptK, ptR, rK, hj, .same hs run, rest⟩

/-- one row statement `x` with log `l1` in front -/
theorem CutAt.step {sch : Levels} {s s1 r0 r1 : Store} {tbls tbls1 : List (Bytes × Levels)} {x : RStmt}
    {rest : List RStmt} {l1 logs2 : List WalRec} {k' : Nat}
    (hpre : ∀ st' sK tblsK lK, LiveRunM sch s1 tbls1 st' sK tblsK lK →
      LiveRunM sch s tbls (x :: st') sK tblsK (l1 ++ lK))
    (hrep : replayAll l1 r0 = (r1, none, false))
    (hc : CutAt sch s1 tbls1 rest logs2 r1 k') :
    CutAt sch s tbls (x :: rest) (l1 ++ logs2) r0 (l1.length + k') := by
  obtain ⟨j, sK, tblsK, logsK, ptK, ptR, rK, hj, run, hre, c1, c2, c3, c4, c5, c6, c7, hcase⟩ := hc
  refine ⟨j + 1, sK, tblsK, l1 ++ logsK, ptK, ptR, rK, by rw [List.length_cons]; omega, ?_, ?_, c1, c2, c3, c4,
    c5, c6, c7, ?_⟩
  · rw [List.take_succ_cons]; exact hpre _ _ _ _ run
  · rw [List.take_length_add_append, replayAll_append hrep]; exact hre
  · rcases hcase with ⟨a, b⟩ | ⟨a, b, c, table, cols, vals, d⟩
    · exact .inl ⟨by rw [List.take_length_add_append, a], b⟩
    · refine .inr ⟨by rw [Nat.add_assoc, List.take_length_add_append, a],
        by rw [List.length_append]; omega, c, table, cols, vals, ?_⟩
      rw [List.take_succ_cons]
      exact getLast?_cons_of_some d

/-! ### the induction -/

/-- **Replaying any prefix of the log of a live run** (on a store `r0` with the same catalog
description as the store `s0` the run started from): see `CutAt`. -/
theorem replay_prefix_gen (sch : Levels) {s0 sN : Store} {tbls tblsN : List (Bytes × Levels)}
    {stmts : List RStmt} {logs : List WalRec} (run : LiveRunM sch s0 tbls stmts sN tblsN logs) :
    ∀ (k : Nat), k ≤ logs.length → ∀ (pt : Levels) (r0 : Store), Cat s0 pt sch tbls → Cat r0 pt sch tbls →
      PtSelf pt → FreshM s0 tbls →
      r0.hdr.nextFree = s0.hdr.nextFree → r0.hdr.lastKey = s0.hdr.lastKey →
      r0.hdr.nextLSN ≤ s0.hdr.nextLSN → CutAt sch s0 tbls stmts logs r0 k := by
  induction run with
  | nil s tbls =>
    intro k hk pt r0 h hr hself hf e1 e2 e3
    simp only [List.length_nil, Nat.le_zero_eq] at hk
    subst hk
    exact CutAt.zero _ _ h hr hself hf e1 e2 e3
  | @same s s1 s2 tbls tbls2 stmts logs hs _ ih =>
    intro k hk pt r0 h hr hself hf e1 e2 e3
    exact (ih k hk pt r0 (h.of_same hs) hr hself
      (hf.of_hdr (by rw [hs.2]; exact Nat.le_refl _) (by rw [hs.2]; exact Nat.le_refl _))
      (by rw [hs.2]; exact e1) (by rw [hs.2]; exact e2) (by rw [hs.2]; exact e3)).same hs
  | @ins s s1 s2 tbls tbls2 rest logs logs2 table cols vals t schema buf t' nf' ht hsch hcols hnames henc hlen hins
      hd' hl' hbig hrun hrest ih =>
    intro k hk pt r0 h hr hself hf e1 e2 e3
    by_cases hk0 : k = 0
    · subst hk0; exact CutAt.zero _ _ h hr hself hf e1 e2 e3
    obtain ⟨_, hIt, _, _, _⟩ := h.tree t (Cat.tb_mem ht)
    obtain ⟨s', ptF, logs', r', erun, hc', hrep, hcr', hselfF, hnf', hnfr, hlk', hlkr, hl, hcase⟩ :=
      replay_insert_logs_cut s r0 pt sch tbls h hr hself e1 e2 e3 table t ht cols vals schema buf
        hsch hcols hnames henc hlen t' nf' hins hd' hl' hbig (hf.root ht hIt)
        (hf.pos _ ht _ (rootOff_mem_offs t _ hIt))
    rw [hrun] at erun
    simp only [SRes.ok.injEq] at erun
    obtain ⟨rfl, rfl⟩ := erun
    have hf' : FreshM s1 (setTable tbls table t') :=
      hf.ins_step ht hins (by rcases hcase with ⟨_, h2, _⟩ | ⟨_, h2, _⟩ <;> omega) hnf'
    have hpre : ∀ st' sK tblsK lK, LiveRunM sch s1 (setTable tbls table t') st' sK tblsK lK →
        LiveRunM sch s tbls (.ins table cols vals :: st') sK tblsK (logs ++ lK) := fun _ _ _ _ r =>
      .ins table cols vals t schema buf t' nf' ht hsch hcols hnames henc hlen hins hd' hl' hbig hrun r
    rw [List.length_append] at hk
    by_cases hmid : logs.length = 2 ∧ k = 1
    · -- the cut between the INSERT record and the catalog record
      obtain ⟨hl2, rfl⟩ := hmid
      rcases hcase with ⟨_, _, hl1⟩ | ⟨_, hlsn2, _, r1, ptM, key, lsn, v, hrep1, hc1, hptF, hent, a1, a2, a3⟩
      · omega
      · refine ⟨1, s1, setTable tbls table t', logs ++ [], ptF, ptM, r1, by simp, ?_, ?_, hc', hc1, hselfF, hf',
          by rw [a1, hnf'], by rw [a2, hlk'], by omega, .inr ⟨?_, by rw [List.length_append]; omega,
            ⟨key, lsn, v, hptF, hent⟩, table, cols, vals, rfl⟩⟩
        · exact hpre _ _ _ _ (.nil _ _)
        · rw [List.take_append_of_le_length (by omega)]; exact hrep1
        · rw [List.append_nil, show 1 + 1 = logs.length by omega, List.take_left]
    · have hge : logs.length ≤ k := by
        rcases hcase with ⟨_, _, hl1⟩ | ⟨_, _, hl2, _⟩ <;> omega
      have hcut := CutAt.step hpre hrep (ih (k - logs.length) (by omega) ptF r' hc' hcr' hselfF hf'
        (by rw [hnfr, hnf']) (by rw [hlkr, hlk']) (by omega))
      rw [show logs.length + (k - logs.length) = k by omega] at hcut
      exact hcut
  | @upd s s1 s2 tbls tbls2 rest logs logs2 table rowId cols src t schema c m buf ht hsch hc hk hdec henc hlen
      hrun _ ih =>
    intro k hk' pt r0 h hr hself hf e1 e2 e3
    by_cases hk0 : k = 0
    · subst hk0; exact CutAt.zero _ _ h hr hself hf e1 e2 e3
    obtain ⟨s', logs', r', erun, hc', hrep, hcr', hf', a1, a2, a3, a4, a5, hl1⟩ :=
      replay_update_logs_gen s r0 pt sch tbls h hr hf e3 table t ht schema hsch rowId cols src
        (update_ok_names h ht hsch hrun) c hc hk m buf hdec henc hlen
    rw [hrun] at erun
    simp only [SRes.ok.injEq] at erun
    obtain ⟨rfl, rfl⟩ := erun
    rw [List.length_append] at hk'
    have hcut := CutAt.step (x := .upd table rowId cols src)
      (fun _ _ _ _ r => .upd table rowId cols src t schema c m buf ht hsch hc hk hdec henc hlen hrun r) hrep
      (ih (k - logs.length) (by omega) pt r' hc' hcr' hself hf' (by rw [a3, a1, e1]) (by rw [a4, a2, e2])
        (by omega))
    rw [show logs.length + (k - logs.length) = k by omega] at hcut
    exact hcut
  | @updAbsent s s1 s2 tbls tbls2 rest logs logs2 table rowId cols src t schema ht hsch habs hrun _ ih =>
    intro k hk' pt r0 h hr hself hf e1 e2 e3
    obtain ⟨s', erun, hs, hc'⟩ := update_cat_absent h table t ht schema hsch rowId cols src
      (update_ok_names h ht hsch hrun) habs
    rw [hrun] at erun
    simp only [SRes.ok.injEq] at erun
    obtain ⟨rfl, rfl⟩ := erun
    have hf' : FreshM s1 tbls := hf.of_hdr (by rw [hs.2]; exact Nat.le_refl _) (by rw [hs.2]; exact Nat.le_refl _)
    rw [List.nil_append] at hk'
    have hcut := CutAt.step (x := .upd table rowId cols src) (l1 := [])
      (fun _ _ _ _ r => .updAbsent table rowId cols src t schema ht hsch habs hrun r) (r1 := r0) rfl
      (ih k hk' pt r0 hc' hr hself hf' (by rw [hs.2]; exact e1) (by rw [hs.2]; exact e2)
        (by rw [hs.2]; exact e3))
    rw [show ([] : List WalRec).length + k = k by simp] at hcut
    exact hcut
  | @del s s1 s2 tbls tbls2 rest logs logs2 table rowId t c ht hc hk hrun _ ih =>
    intro k hk' pt r0 h hr hself hf e1 e2 e3
    by_cases hk0 : k = 0
    · subst hk0; exact CutAt.zero _ _ h hr hself hf e1 e2 e3
    obtain ⟨s', logs', r', erun, hc', hrep, hcr', hf', a1, a2, a3, a4, a5, hl1⟩ :=
      replay_delete_logs_gen s r0 pt sch tbls h hr hf e3 table t ht rowId c hc hk
    rw [hrun] at erun
    simp only [SRes.ok.injEq] at erun
    obtain ⟨rfl, rfl⟩ := erun
    rw [List.length_append] at hk'
    have hcut := CutAt.step (x := .del table rowId)
      (fun _ _ _ _ r => .del table rowId t c ht hc hk hrun r) hrep
      (ih (k - logs.length) (by omega) pt r' hc' hcr' hself hf' (by rw [a3, a1, e1]) (by rw [a4, a2, e2])
        (by omega))
    rw [show logs.length + (k - logs.length) = k by omega] at hcut
    exact hcut

/-! ### the case `r0 = s0` -/

/-- two stores satisfying catalog descriptions with the same `sys_schema` tree and the same user
tables show the same page at every offset of these trees (the page tables may differ) -/
theorem Cat.same_pages_tables {s r : Store} {ptS ptR sch : Levels} {tbls : List (Bytes × Levels)}
    (h : Cat s ptS sch tbls) (hr : Cat r ptR sch tbls) :
    ∀ x ∈ sch :: tbls.map (·.2), ∀ o ∈ offs x, view r o = view s o := by
  intro x hx o ho
  obtain ⟨e, he, rfl⟩ := List.mem_map.mp ho
  rw [(h.tree x (List.mem_cons_of_mem _ hx)).1 e he, (hr.tree x (List.mem_cons_of_mem _ hx)).1 e he]

/-- **Goal 1: a crash that leaves the first `k` records of the log of a live run.**  The statements
`stmts` ran live from `s0` and wrote `logs`; nothing reached the data file, so recovery replays
`logs.take k` on `s0`.  For every `k ≤ logs.length` the replay ends without error in a store `rK`, and
there are a number `j` and a live run of the first `j` row statements `stmts.take j` from `s0` to a
store `sK` (tables `tblsK`) such that `rK` and `sK` both satisfy the catalog description with the
tables `tblsK`; they show the same page at every offset of `sys_schema` and of every user table; they
agree on the allocation frontier, the row-id counter and the page-table root, and the replayed LSN
counter is not ahead.  Either the cut is a boundary between row statements (the log of the `j`
statements is `logs.take k`; then the page tables agree page for page as well), or it fell between the
INSERT record and the catalog record of the `j`-th statement, an INSERT that moved the root of its
table (the log of the `j` statements is `logs.take (k+1)`): the row is completely in the tree, the
replayed page table names the same roots as the live one and differs from it in one LSN stamp. -/
theorem replay_prefix (sch : Levels) {s0 sN : Store} {tbls tblsN : List (Bytes × Levels)}
    {stmts : List RStmt} {logs : List WalRec} (run : LiveRunM sch s0 tbls stmts sN tblsN logs)
    (pt : Levels) (h : Cat s0 pt sch tbls) (hself : PtSelf pt) (hf : FreshM s0 tbls)
    (k : Nat) (hk : k ≤ logs.length) :
    ∃ j sK tblsK logsK ptK ptR rK,
      j ≤ stmts.length ∧
      LiveRunM sch s0 tbls (stmts.take j) sK tblsK logsK ∧
      replayAll (logs.take k) s0 = (rK, none, false) ∧
      Cat sK ptK sch tblsK ∧ Cat rK ptR sch tblsK ∧
      (∀ x ∈ sch :: tblsK.map (·.2), ∀ o ∈ offs x, view rK o = view sK o) ∧
      rK.hdr.nextFree = sK.hdr.nextFree ∧ rK.hdr.lastKey = sK.hdr.lastKey ∧
      rK.hdr.ptRoot = sK.hdr.ptRoot ∧ rK.hdr.nextLSN ≤ sK.hdr.nextLSN ∧
      ((logsK = logs.take k ∧ ptR = ptK ∧ ∀ o ∈ offs ptK, view rK o = view sK o) ∨
       (logsK = logs.take (k + 1) ∧ k + 1 ≤ logs.length ∧ PtRestamp ptR ptK ∧
         ∃ table cols vals, (stmts.take j).getLast? = some (.ins table cols vals))) := by
  obtain ⟨j, sK, tblsK, logsK, ptK, ptR, rK, hj, hrun, hre, c1, c2, _, _, c5, c6, c7, hcase⟩ :=
    replay_prefix_gen sch run k hk pt s0 h h hself hf rfl rfl (Nat.le_refl _)
  refine ⟨j, sK, tblsK, logsK, ptK, ptR, rK, hj, hrun, hre, c1, c2, c1.same_pages_tables c2, c5, c6, ?_, c7, ?_⟩
  · rw [← c1.root, ← c2.root]
    rcases hcase with ⟨_, rfl⟩ | ⟨_, _, hp, _⟩
    · rfl
    · exact hp.root.symm
  · rcases hcase with ⟨a, rfl⟩ | hm
    · exact .inl ⟨a, rfl, c1.same_pages c2 ptR Cat.pt_mem⟩
    · exact .inr hm

/-- **Every prefix of the row statements is reached by a cut**: for every `j` there is a `k` such
that `logs.take k` is exactly the log of the first `j` statements; its replay on `s0` gives the live
state after these statements, page for page on all catalog trees. -/
theorem replay_prefix_boundary (sch : Levels) {s0 sN : Store} {tbls tblsN : List (Bytes × Levels)}
    {stmts : List RStmt} {logs : List WalRec} (run : LiveRunM sch s0 tbls stmts sN tblsN logs)
    (pt : Levels) (h : Cat s0 pt sch tbls) (hself : PtSelf pt) (hf : FreshM s0 tbls) (j : Nat) :
    ∃ k sK tblsK ptK rK, k ≤ logs.length ∧
      LiveRunM sch s0 tbls (stmts.take j) sK tblsK (logs.take k) ∧
      replayAll (logs.take k) s0 = (rK, none, false) ∧
      Cat sK ptK sch tblsK ∧ Cat rK ptK sch tblsK ∧
      (∀ x ∈ catTrees ptK sch tblsK, ∀ o ∈ offs x, view rK o = view sK o) ∧
      rK.hdr.nextFree = sK.hdr.nextFree ∧ rK.hdr.lastKey = sK.hdr.lastKey ∧
      rK.hdr.ptRoot = sK.hdr.ptRoot ∧ rK.hdr.nextLSN ≤ sK.hdr.nextLSN := by
  obtain ⟨sK, tblsK, l1, r1, hl1, _⟩ := run.take j
  obtain ⟨ptK, rK, e, c⟩ := replay_history_mixed sch r1 pt h hself hf
  have hle : l1.length ≤ logs.length := by
    have := congrArg List.length hl1
    rw [List.length_take] at this
    omega
  refine ⟨l1.length, sK, tblsK, ptK, rK, hle, ?_, ?_, c⟩
  · rw [← hl1]; exact r1
  · rw [← hl1]; exact e

end Mkdb.Store
