import Mkdb.Proofs.LRU
import Mkdb.Proofs.FlushOrder1
/-!
C15, the recency change of a flush on the LRU model: `flushPagesLocked` calls, for every dirty page in
the order of a map iteration, `LRUCache.set` of that page's own key with the page itself
(`MoveToFront`) and marks it clean.  `touchAll c order` is that loop on `Mkdb.LRU.Cache`.  (Defined
here and not in Model/LRU.lean, which is compared with the code by the driver and is not to be edited:
nothing new is compared.)  Each turn is the identity or a `set` step of the model, so a flush is a run of
the existing operations and every theorem about reachable states covers the states after flushes.
-/
namespace Mkdb.LRU

/-- one turn of the loop at key `k`: a resident dirty entry moves to the front and becomes clean -/
def visit (c : Cache) (k : Nat) : Cache :=
  match find? c.items k with
  | some e => if e.dirty then { c with items := { e with dirty := false } :: remove c.items k } else c
  | none => c

/-- the recency change of `flushPagesLocked` meeting the keys in the order `order` -/
def touchAll (c : Cache) (order : List Nat) : Cache := order.foldl visit c

/-- a turn that moves something is `LRUCache.set` of the resident page under its own key, clean -/
theorem visit_eq_set (c : Cache) (k : Nat) (e : Entry) (hf : find? c.items k = some e)
    (hd : e.dirty = true) : visit c k = (step c (.set k e.id false)).1 := by
  have hk := (find?_some_mem hf).2
  simp only [visit, hf, hd, ↓reduceIte, step, Cache.set]
  cases e
  simp_all

theorem visit_skip (c : Cache) (k : Nat) (h : ∀ e, find? c.items k = some e → e.dirty = false) :
    visit c k = c := by
  unfold visit
  cases hf : find? c.items k with
  | none => rfl
  | some e => simp [h e hf]

theorem visit_cases (c : Cache) (k : Nat) :
    visit c k = c ∨ ∃ e, find? c.items k = some e ∧ e.dirty = true ∧ visit c k = (step c (.set k e.id false)).1 := by
  cases hf : find? c.items k with
  | none => left; exact visit_skip c k (by simp [hf])
  | some e =>
    cases hd : e.dirty with
    | false =>
      left
      apply visit_skip
      intro e' he'
      rw [hf] at he'
      cases he'
      exact hd
    | true => right; exact ⟨e, rfl, hd, visit_eq_set c k e hf hd⟩

theorem run_append (c : Cache) (a b : List Op) : run c (a ++ b) = run (run c a) b := by
  simp [run, List.foldl_append]

/-- a flush is a run of `set` operations of resident keys -/
theorem touchAll_is_run (c : Cache) (order : List Nat) :
    ∃ ops, touchAll c order = run c ops ∧ ∀ op ∈ ops, ∃ k id, op = .set k id false := by
  induction order generalizing c with
  | nil => exact ⟨[], rfl, by simp⟩
  | cons k rest ih =>
    obtain ⟨ops, h1, h2⟩ := ih (visit c k)
    rcases visit_cases c k with h | ⟨e, _, _, h⟩
    · exact ⟨ops, by show touchAll (visit c k) rest = _; rw [h1, h], h2⟩
    · refine ⟨.set k e.id false :: ops, ?_, ?_⟩
      · show touchAll (visit c k) rest = run (step c (.set k e.id false)).1 ops
        rw [h1, h]
      · intro op hop
        rcases List.mem_cons.mp hop with rfl | hop
        · exact ⟨k, e.id, rfl⟩
        · exact h2 op hop

theorem touchAll_inv (c : Cache) (h : Inv c) (order : List Nat) : Inv (touchAll c order) := by
  obtain ⟨ops, h1, _⟩ := touchAll_is_run c order
  rw [h1]
  exact run_inv c ops h

theorem touchAll_cap (c : Cache) (order : List Nat) : (touchAll c order).cap = c.cap := by
  obtain ⟨ops, h1, _⟩ := touchAll_is_run c order
  rw [h1]
  exact run_cap c ops

/-- a turn keeps the page filed under every key -/
theorem find?_visit (c : Cache) (k' k : Nat) :
    (find? (visit c k').items k).map (·.id) = (find? c.items k).map (·.id) := by
  rcases visit_cases c k' with h | ⟨e, hf, _, h⟩
  · rw [h]
  · rw [h]
    simp only [step, Cache.set, hf]
    by_cases hk : k' = k
    · subst hk
      have hf' := hf
      simp only [find?] at hf'
      simp [find?, hf']
    · have hb : (k' == k) = false := by simpa using hk
      have := find?_remove_ne c.items (k := k) (k' := k') (fun h => hk h.symm)
      simp only [find?] at this
      simp only [find?, List.find?_cons, hb, this]

theorem find?_touchAll (c : Cache) (order : List Nat) (k : Nat) :
    (find? (touchAll c order).items k).map (·.id) = (find? c.items k).map (·.id) := by
  induction order generalizing c with
  | nil => rfl
  | cons k' rest ih =>
    show (find? (touchAll (visit c k') rest).items k).map (·.id) = _
    rw [ih, find?_visit]

end Mkdb.LRU

namespace Mkdb.PageCache
variable {α : Type}

/-- one turn of the loop in the page-cache model projects to the turn of the LRU model -/
theorem proj_visit (cap : Nat) (l : List (Ent α)) (k : Nat) :
    proj (visit l k) = (LRU.visit ⟨cap, proj l⟩ k).items := by
  unfold visit LRU.visit
  simp only [proj_find?]
  cases hf : find? l k with
  | none => rfl
  | some e =>
    simp only [Option.map_some, projE]
    cases hd : e.dirty with
    | false => simp
    | true =>
      simp only [↓reduceIte, proj_cons, proj_remove]
      rfl

theorem proj_foldl_visit (cap : Nat) (l : List (Ent α)) (order : List Nat) :
    proj (order.foldl visit l) = (LRU.touchAll ⟨cap, proj l⟩ order).items := by
  induction order generalizing l with
  | nil => rfl
  | cons k rest ih =>
    simp only [List.foldl_cons, LRU.touchAll]
    rw [ih]
    have : (⟨cap, proj (visit l k)⟩ : LRU.Cache) = LRU.visit ⟨cap, proj l⟩ k := by
      rw [proj_visit cap l k]
      have : (LRU.visit ⟨cap, proj l⟩ k).cap = cap := by
        have := LRU.touchAll_cap ⟨cap, proj l⟩ [k]
        exact this
      cases hv : LRU.visit ⟨cap, proj l⟩ k
      rw [hv] at this
      simp only at this
      subst this
      rfl
    rw [this]
    rfl

end Mkdb.PageCache
