import Mkdb.Proofs.Unchanged1
import Mkdb.Proofs.Unchanged2
import Mkdb.Proofs.Unchanged3
import Mkdb.Proofs.Unchanged4
/-!
C14, statement level: a refused INSERT statement.

* `evalInsert_first_row_err`: the first row is refused - the statement returns that error, the store
  is the one the refused row left (same data, by `Store.insert_err`), the log is untouched.
* `evalInsert_kth_row_err`: a later row is refused - the rows before it STAY applied in the cache
  (the store is the one they produced), but nothing at all reaches the log.
* non-vacuity: a concrete well-filed store on which `fetch` pulls a page into the cache.
-/
set_option autoImplicit false
namespace Mkdb.Engine
open Mkdb.Store Mkdb.Page Mkdb.Tuple Mkdb.Generated

/-- `Applies table cols rows s logs s'`: inserting `rows` one after the other, starting in `s`,
succeeds for every row, produces the log records `logs` (in order) and ends in `s'`. -/
inductive Applies (table : Bytes) (cols : List String) :
    List (List Val) → Store → List WalRec → Store → Prop
  | nil (s : Store) : Applies table cols [] s [] s
  | cons {r : List Val} {rest : List (List Val)} {s s1 s2 : Store} {logs logs' : List WalRec} :
      insert table cols r s = .ok logs s1 → Applies table cols rest s1 logs' s2 →
      Applies table cols (r :: rest) s (logs ++ logs') s2

/-- the loop of `evalInsert` runs through a prefix of good rows, collecting their records -/
theorem evalInsert_go_applies (db : DB) (table : Bytes) (cols : List Bytes)
    (good tail : List (List Val)) (s sk : Store) (logs batch : List WalRec) (n : Nat)
    (h : Applies table (cols.map bytesToName) good s logs sk) :
    evalInsert.go db table cols s batch n (good ++ tail) =
      evalInsert.go db table cols sk (batch ++ logs) (n + good.length) tail := by
  induction h generalizing batch n with
  | nil s => simp only [List.nil_append, List.append_nil, List.length_nil, Nat.add_zero]
  | cons hr _ ih =>
    simp only [List.cons_append, evalInsert.go, hr, List.length_cons]
    rw [ih, List.append_assoc, Nat.add_assoc, Nat.add_comm 1]

theorem evalInsert_go_err (db : DB) (table : Bytes) (cols : List Bytes)
    (r : List Val) (rest : List (List Val)) (s s' : Store) (batch : List WalRec) (n : Nat) (e : SErr)
    (h : insert table (cols.map bytesToName) r s = .err e s') :
    evalInsert.go db table cols s batch n (r :: rest) = .err (.store e) { db with store := s' } := by
  simp only [evalInsert.go, h]

/-- D. The first row of an INSERT statement is refused: the statement fails with that error, in the
store the refused row left behind; the log is the old one (`evalInsert_err_wal`). -/
theorem evalInsert_first_row_err (db : DB) (table : Bytes) (cols : List Bytes) (r : List Val)
    (rest : List (List Val)) (e : SErr) (s' : Store)
    (h : insert table (cols.map bytesToName) r db.store = .err e s') :
    evalInsert db table cols (r :: rest) = .err (.store e) { db with store := s' } :=
  evalInsert_go_err db table cols r rest db.store s' [] 0 e h

/-- the database an INSERT statement fails in carries the old log -/
theorem evalInsert_err_wal (db : DB) (s' : Store) : ({ db with store := s' } : DB).wal = db.wal := rfl

/-- D. The `k`-th row is refused after `good` rows went in: the statement fails with that error; the
store is the one the good rows produced (then the refused row's reads) - the good rows stay applied
in the cache - and the log is the old one: none of the records `logs` of the good rows is written. -/
theorem evalInsert_kth_row_err (db : DB) (table : Bytes) (cols : List Bytes)
    (good : List (List Val)) (bad : List Val) (rest : List (List Val))
    (logs : List WalRec) (sk s' : Store) (e : SErr)
    (hgood : Applies table (cols.map bytesToName) good db.store logs sk)
    (hbad : insert table (cols.map bytesToName) bad sk = .err e s') :
    evalInsert db table cols (good ++ bad :: rest) = .err (.store e) { db with store := s' } := by
  unfold evalInsert
  rw [evalInsert_go_applies db table cols good (bad :: rest) db.store sk logs [] 0 hgood]
  exact evalInsert_go_err db table cols bad rest sk s' _ _ e hbad

/-- for contrast: when every row goes in, the records of all rows are appended to the log -/
theorem evalInsert_all_rows_ok (db : DB) (table : Bytes) (cols : List Bytes)
    (rows : List (List Val)) (logs : List WalRec) (sk : Store)
    (h : Applies table (cols.map bytesToName) rows db.store logs sk) :
    evalInsert db table cols rows = .ok rows.length { store := sk, wal := db.wal ++ logs } := by
  unfold evalInsert
  have := evalInsert_go_applies db table cols rows [] db.store sk logs [] 0 h
  rw [List.append_nil] at this
  rw [this]
  simp only [evalInsert.go, List.nil_append, Nat.zero_add]

/-- a validation error of a row (unknown table, column count, type, integer range, duplicate key,
a column name the table does not have, a column named twice) -/
def Refusal (e : SErr) : Prop :=
  e = .tableNotExist ∨ e = .colCountMismatch ∨ e = .typeMismatch ∨ e = .intOutOfRange ∨ e = .keyExists ∨
    e = .fieldNotFound ∨ e = .fieldAmbiguous

/-- C14 for INSERT, first row: statement refused, every page / dirty bit / the data file / the
header as before, log untouched. -/
theorem evalInsert_first_row_refused (db : DB) (table : Bytes) (cols : List Bytes) (r : List Val)
    (rest : List (List Val)) (e : SErr) (s' : Store) (hf : Filed db.store)
    (h : insert table (cols.map bytesToName) r db.store = .err e s') (he : Refusal e) :
    ∃ db', evalInsert db table cols (r :: rest) = .err (.store e) db' ∧
      db'.wal = db.wal ∧ Filed db'.store ∧ SameData db.store db'.store :=
  ⟨{ db with store := s' }, evalInsert_first_row_err db table cols r rest e s' h, rfl,
    insert_err table _ r db.store e s' hf h he⟩

/-- C14 for INSERT, `k`-th row: relative to the store `sk` the good rows produced, the refused row
changes nothing; relative to the log, the whole statement changes nothing. -/
theorem evalInsert_kth_row_refused (db : DB) (table : Bytes) (cols : List Bytes)
    (good : List (List Val)) (bad : List Val) (rest : List (List Val))
    (logs : List WalRec) (sk s' : Store) (e : SErr) (hf : Filed sk)
    (hgood : Applies table (cols.map bytesToName) good db.store logs sk)
    (hbad : insert table (cols.map bytesToName) bad sk = .err e s') (he : Refusal e) :
    ∃ db', evalInsert db table cols (good ++ bad :: rest) = .err (.store e) db' ∧
      db'.wal = db.wal ∧ Filed db'.store ∧ SameData sk db'.store :=
  ⟨{ db with store := s' }, evalInsert_kth_row_err db table cols good bad rest logs sk s' e hgood hbad,
    rfl, insert_err table _ bad sk e s' hf hbad he⟩

/-! ### CREATE TABLE -/

theorem evalCreateTable_err (db : DB) (name : Bytes) (cols : List Sql.ColDef) (flushOrder : List Nat)
    (doFlush : Bool) (e : SErr) (s' : Store)
    (h : createTable (cols.map colTypeToField) name flushOrder doFlush db.store = .err e s') :
    evalCreateTable db name cols flushOrder doFlush = .err (.store e) { db with store := s' } := by
  simp only [evalCreateTable, liftS, h]

/-- C14 for CREATE TABLE: refused because the table exists (or the catalog cannot be read), because
a column length is outside `int32`, because a column name is used twice (`fieldAmbiguous`), or
because a table / column name is too long for a catalog cell (`rowTooLarge`, caught by
`checkCatalogRows` before anything is allocated): nothing changed, log untouched. -/
theorem evalCreateTable_refused (db : DB) (name : Bytes) (cols : List Sql.ColDef)
    (flushOrder : List Nat) (doFlush : Bool) (e : SErr) (s' : Store) (hf : Filed db.store)
    (h : createTable (cols.map colTypeToField) name flushOrder doFlush db.store = .err e s')
    (he : e = .tableAlreadyExist ∨ e = .intOutOfRange ∨ e = .rowTooLarge ∨ e = .typeMismatch ∨
          e = .colCountMismatch ∨ e = .fieldAmbiguous) :
    ∃ db', evalCreateTable db name cols flushOrder doFlush = .err (.store e) db' ∧
      db'.wal = db.wal ∧ Filed db'.store ∧ SameData db.store db'.store :=
  ⟨{ db with store := s' }, evalCreateTable_err db name cols flushOrder doFlush e s' h, rfl,
    createTable_err _ name flushOrder doFlush db.store e s' hf h he⟩

/-- the same for every error that is not one of the five the body can still return -/
theorem evalCreateTable_refused' (db : DB) (name : Bytes) (cols : List Sql.ColDef)
    (flushOrder : List Nat) (doFlush : Bool) (e : SErr) (s' : Store) (hf : Filed db.store)
    (h : createTable (cols.map colTypeToField) name flushOrder doFlush db.store = .err e s')
    (he : ¬ BodyErr e) :
    ∃ db', evalCreateTable db name cols flushOrder doFlush = .err (.store e) db' ∧
      db'.wal = db.wal ∧ Filed db'.store ∧ SameData db.store db'.store :=
  ⟨{ db with store := s' }, evalCreateTable_err db name cols flushOrder doFlush e s' h, rfl,
    createTable_err_of_not_bodyErr _ name flushOrder doFlush db.store e s' hf h he⟩

/-! ### DELETE -/

theorem evalDelete_go_err (db : DB) (table : Bytes) (r : Nat × List Val)
    (rest : List (Nat × List Val)) (s s' : Store) (batch : List WalRec) (n : Nat) (e : SErr)
    (h : markDeleted table r.1 s = .err e s') :
    evalDelete.go db table s batch n (r :: rest) = .err (.store e) { db with store := s' } := by
  simp only [evalDelete.go, h]

/-- C14 for DELETE, first selected row: whatever error `markDeleted` reports (no such live row,
unknown table, unreadable catalog), the statement fails with it, every page / dirty bit / the data
file / the header are as before the statement, and the log is untouched. -/
theorem evalDelete_first_row_err (db : DB) (table : Bytes) (where_ : Option Sql.Cond)
    (rows : List (Nat × List Val)) (schema : List FieldDef) (s0 : Store)
    (r : Nat × List Val) (rest : List (Nat × List Val)) (e : SErr) (s' : Store)
    (hf : Filed db.store)
    (hfetch : fetchTable table db.store = .ok (rows, schema) s0)
    (hsel : filterIds where_ (schema.map fun fd => ⟨[], fd.name.toUTF8.toList⟩) rows = .ok (r :: rest))
    (h : markDeleted table r.1 s0 = .err e s') :
    evalDelete db table where_ = .err (.store e) { db with store := s' } ∧
      Filed s' ∧ SameData db.store s' := by
  constructor
  · simp only [evalDelete, fetchForExec, liftS, hfetch, hsel]
    exact evalDelete_go_err db table r rest s0 s' [] 0 e h
  · obtain ⟨f0, d0⟩ := (ReadOnly.fetchTable table).ok hf hfetch
    obtain ⟨f1, d1⟩ := markDeleted_err table r.1 s0 e s' f0 h
    exact ⟨f1, d0.trans d1⟩

end Mkdb.Engine

/-! ### non-vacuity -/
namespace Mkdb.Store
open Mkdb.Page

/-- one leaf page in the data file at offset 4096, carrying that offset; empty cache -/
def demoLeaf : Leaf := ⟨4096, 7, false, false, 0, 0, [⟨1, false, [1, 2, 3]⟩]⟩
def demoStore : Store :=
  { hdr := { lastKey := 1, ptRoot := 4096, nextFree := 8192, nextLSN := 8 },
    mem := [], disk := [(4096, .leaf demoLeaf)],
    dhdr := { lastKey := 1, ptRoot := 4096, nextFree := 8192, nextLSN := 8 } }

theorem demoStore_filed : Filed demoStore := by
  constructor
  · intro p hp
    simp only [demoStore, List.mem_singleton] at hp
    subst hp
    exact ⟨rfl, by decide⟩
  · intro p hp
    simp only [demoStore, List.not_mem_nil] at hp

/-- `fetch 4096` succeeds, returns the page and leaves it in the cache (clean) -/
example : fetch 4096 demoStore =
    .ok (.leaf demoLeaf) { demoStore with mem := [(4096, ⟨.leaf demoLeaf, false⟩)] } := rfl

/-- ... and, by `ReadOnly.fetch`, the store it leaves is well filed and holds the same data -/
example : ∃ s', fetch 4096 demoStore = .ok (.leaf demoLeaf) s' ∧
    s'.mem = [(4096, ⟨.leaf demoLeaf, false⟩)] ∧ Filed s' ∧ SameData demoStore s' :=
  ⟨_, rfl, rfl, (ReadOnly.fetch 4096).ok demoStore_filed rfl⟩

/-- a page that does not exist is cached as the zero page under offset 0 -/
example : ∃ s', fetch 12288 demoStore = .ok zeroPage s' ∧
    s'.mem = [(0, ⟨zeroPage, false⟩)] ∧ Filed s' ∧ SameData demoStore s' :=
  ⟨_, rfl, rfl, (ReadOnly.fetch 12288).ok demoStore_filed rfl⟩

/-- a refused row on a concrete store: the table does not exist; `insert_err` applies -/
def insertNoTableCheck : Bool :=
  match insert [116] [] [] emptyCatalog with
  | .err e _ => e == .tableNotExist
  | _ => false

set_option maxRecDepth 100000 in
theorem insertNoTableCheck_true : insertNoTableCheck = true := by decide

example : ∃ s', insert [116] [] [] emptyCatalog = .err .tableNotExist s' ∧
    Filed s' ∧ SameData emptyCatalog s' := by
  have h := insertNoTableCheck_true
  unfold insertNoTableCheck at h
  split at h
  · rename_i e s' heq
    simp only [beq_iff_eq] at h
    subst h
    exact ⟨s', heq, insert_err _ _ _ _ _ _ emptyCatalog_filed heq (.inl rfl)⟩
  · cases h

end Mkdb.Store
