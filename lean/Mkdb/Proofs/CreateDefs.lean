import Mkdb.Proofs.RefineStmt
import Mkdb.Proofs.Unchanged4
/-!
CREATE TABLE at the statement level: shared definitions.

* `clean t`: the tree `t` with every dirty bit cleared (what a flush leaves in the cache).
* `MemFiled s`: every cached page object is filed under the offset it carries (the cache half of
  `Filed`, without the clause about offset 0).  Every primitive of the page store keeps it: the
  cache is only ever written through `assocSet mem (nodeOff n) ⟨n, _⟩`.
-/
set_option autoImplicit false
namespace Mkdb.Store
open Mkdb.Page Mkdb.Tuple Mkdb.Generated Mkdb.Tree

/-- all dirty bits cleared -/
def clean (t : Levels) : Levels :=
  { leaves := t.leaves.map fun p => (p.1, false),
    inner := t.inner.map fun lvl => lvl.map fun p => (p.1, false) }

/-- every cached page object sits under the offset it carries -/
def MemFiled (s : Store) : Prop := ∀ p ∈ s.mem, nodeOff p.2.node = p.1

end Mkdb.Store
