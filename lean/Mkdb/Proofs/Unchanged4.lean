import Mkdb.Proofs.Unchanged3
import Mkdb.Proofs.Bin
/-!
C14, part 4: which errors the write paths can return; CREATE TABLE.

`createTable` pre-validates: existence, column lengths (`intOutOfRange`) and repeated column names
(`fieldAmbiguous`) - `checkFieldsFrom` -, and - `checkCatalogRows` -
that the `sys_pages` row and every `sys_schema` row of the new table encode and fit a page cell.
A pre-validation failure returns in the store the (read-only) catalog lookup left.  After a passed
pre-validation the body calls `btInsert` with exactly the buffers that were measured (the
`sys_pages` row is re-encoded with the real offset: same length), so the body cannot fail with
`rowTooLarge` any more; nor can `updatePageTable … "sys_schema"` (its row is 24 bytes).
-/
set_option autoImplicit false
namespace Mkdb.Store
open Mkdb.Page Mkdb.Tuple Mkdb.Generated Mkdb.Bin

/-! ### which errors the write paths can return -/

theorem ErrIn.insertLeaf {P : SErr → Prop} (hk : P .keyExists) (parent : Option Nat) (cur : Leaf)
    (key lsn : Nat) (value : Bytes) (root : RootOff)
    (hr : value.length > c_maxValueSize → P .rowTooLarge) :
    ErrIn P (insertLeaf parent cur key lsn value root) := by
  unfold Store.insertLeaf
  split
  split
  · exact ErrIn.throw hk
  · split
    · rename_i hlen; exact ErrIn.throw (hr hlen)
    · split
      · exact ErrIn.unmodelledS _
      · split
        · exact ErrIn.unmodelledS _
        · repeat ei_step

theorem ErrIn.insertInternal {P : SErr → Prop} (hk : P .keyExists)
    (fuel : Nat) (parent : Option Nat) (cur : Internal) (key lsn : Nat) (value : Bytes)
    (root : RootOff) (hr : value.length > c_maxValueSize → P .rowTooLarge) :
    ErrIn P (insertInternal fuel parent cur key lsn value root) := by
  induction fuel generalizing parent cur root with
  | zero => exact ErrIn.outOfFuel
  | succ fuel ih =>
    unfold Store.insertInternal
    split
    split
    · exact ErrIn.throw hk
    · refine ErrIn.bind (ErrIn.fetch _) (fun child => ?_)
      conv => arg 2; zeta
      split
      · refine ErrIn.bind (ErrIn.insertLeaf hk _ _ _ _ _ _ hr) (fun root1 => ?_)
        repeat ei_step
      · refine ErrIn.bind (ih _ _ _) (fun root1 => ?_)
        repeat ei_step

theorem ErrIn.insertKeyHeap {P : SErr → Prop} (hk : P .keyExists)
    (bt : BT) (key lsn : Nat) (value : Bytes) (hr : value.length > c_maxValueSize → P .rowTooLarge) :
    ErrIn P (insertKeyHeap bt key lsn value) := by
  unfold Store.insertKeyHeap
  refine ErrIn.bind (ErrIn.fetch _) (fun pg => ?_)
  split
  · exact ErrIn.bind (ErrIn.insertLeaf hk _ _ _ _ _ _ hr) (fun _ => ErrIn.pure _)
  · exact ErrIn.bind (ErrIn.insertInternal hk _ _ _ _ _ _ _ hr) (fun _ => ErrIn.pure _)

theorem ErrIn.insertKey {P : SErr → Prop} (hk : P .keyExists)
    (bt : BT) (key lsn : Nat) (value : Bytes) (hr : value.length > c_maxValueSize → P .rowTooLarge) :
    ErrIn P (insertKey bt key lsn value) := by
  intro s e s' h
  unfold Store.insertKey at h
  simp only at h
  split at h
  · exact ErrIn.insertKeyHeap hk bt key lsn value hr _ _ _ h
  · split at h
    · cases h
    · rename_i e1 s1 heq
      cases h
      exact ErrIn.insertKeyHeap hk bt key lsn value hr _ _ _ heq
    · rename_i hne1 hne2
      exact (hne2 e s' h).elim

/-- the tree insert refuses a row only as a duplicate key or - if it really is longer than
`c_maxValueSize` - as too large -/
theorem ErrIn.btInsert {P : SErr → Prop} (hk : P .keyExists)
    (bt : BT) (value : Bytes) (hr : value.length > c_maxValueSize → P .rowTooLarge) :
    ErrIn P (btInsert bt value) := by
  intro s e s' h
  unfold Store.btInsert at h
  simp only at h
  split at h <;> try cases h
  rename_i e1 s1 heq
  exact ErrIn.insertKey hk bt _ _ value hr _ _ _ heq

/-- a row that fits can only be refused as a duplicate key -/
theorem btInsert_fits (bt : BT) (value : Bytes) (h : value.length ≤ c_maxValueSize) :
    ErrIn (fun e => e = .keyExists) (btInsert bt value) :=
  ErrIn.btInsert (P := fun e => e = .keyExists) rfl bt value (fun hgt => absurd h (by omega))

theorem ErrIn.relationOffset {P : SErr → Prop} (hd : P .decode) (hn : P .tableNotExist)
    (name : Bytes) : ErrIn P (relationOffset name) := by
  unfold Store.relationOffset
  refine ErrIn.bind ErrIn.getS (fun s => ?_)
  refine ErrIn.bind (ErrIn.scanRight _) (fun cells => ?_)
  refine ErrIn.bind ?_ (fun hit => ?_)
  · apply ErrIn.findFirstM
    intro c
    refine ErrIn.bind (ErrIn.decodeRow hd _ _) (fun m => ?_)
    repeat ei_step
  · split
    · exact ErrIn.pure _
    · exact ErrIn.throw hn

theorem ErrIn.flushPages {P : SErr → Prop} (order : List Nat) : ErrIn P (flushPages order) := by
  intro s e s' h; cases h

theorem OkPost.encodeRow (sch : List FieldDef) (m : Vals) :
    OkPost (fun b => encodeTuple sch m = .ok b) (encodeRow sch m) := by
  intro s b s' h
  unfold Store.encodeRow at h
  split at h <;> cases h
  assumption

theorem encodeRow_noErr {P : SErr → Prop} {sch : List FieldDef} {m : Vals}
    (h : ∃ b, encodeTuple sch m = .ok b) : ErrIn P (Store.encodeRow sch m) := by
  intro s e s' he
  obtain ⟨b, hb⟩ := h
  unfold Store.encodeRow at he
  rw [hb] at he
  cases he

theorem ErrIn.updateCellAt' {P : SErr → Prop} (h2 : P .cellNotFound)
    (off key : Nat) (value : Bytes) (lsn : Nat) (h1 : value.length > c_maxValueSize → P .rowTooLarge) :
    ErrIn P (Store.updateCellAt off key value lsn) := by
  unfold Store.updateCellAt
  split
  · rename_i hlen; exact ErrIn.throw (h1 hlen)
  · refine ErrIn.bind (ErrIn.fetch _) (fun pg => ?_)
    split
    · exact ErrIn.panicS _
    · split
      · exact ErrIn.throw h2
      · repeat ei_step

/-! ### the `sys_pages` row: its encoding, and its length whatever the offset -/

/-- the bytes of a `sys_pages` row -/
def pagesRowBytes (name : Bytes) (off : Nat) : Bytes :=
  encBool false ++ encU32 name.length ++ name ++ (encBool false ++ encI 8 off)

theorem pagesRowBytes_length (name : Bytes) (off : Nat) :
    (pagesRowBytes name off).length = name.length + 14 := by
  simp only [pagesRowBytes, encBool, encU32, encI, List.length_append, List.length_cons,
    List.length_nil, encLE_length]
  omega

/-- any value map whose `table_name` is `name` and whose `file_offset` is `off` encodes to
`pagesRowBytes name off` -/
theorem encode_pagesRow (m : Vals) (name : Bytes) (off : Nat)
    (h1 : Tuple.get m "table_name" = Val.str name) (h2 : Tuple.get m "file_offset" = Val.int off) :
    encodeTuple pageTableSchema m = .ok (pagesRowBytes name off) := by
  simp [pageTableSchema, encodeTuple, h1, h2, encField, validate, pagesRowBytes]

theorem get_newPagesRow_name (name : Bytes) (off : Nat) :
    Tuple.get [("table_name", Val.str name), ("file_offset", Val.int off)] "table_name" = Val.str name := by
  simp [Tuple.get]

theorem get_newPagesRow_off (name : Bytes) (off : Nat) :
    Tuple.get [("table_name", Val.str name), ("file_offset", Val.int (off : Int))] "file_offset"
      = Val.int off := by
  simp [Tuple.get]

/-- the row `insertPageTable` writes has the same length as the row `checkCatalogRows` measured
(offset 0): `file_offset` is a fixed-width `bigint` -/
theorem encode_newPagesRow (name : Bytes) (off : Nat) :
    encodeTuple pageTableSchema [("table_name", Val.str name), ("file_offset", Val.int off)]
      = .ok (pagesRowBytes name off) :=
  encode_pagesRow _ name off (get_newPagesRow_name name off) (get_newPagesRow_off name off)

/-- `updatePageTable` for a table whose name leaves room (`name.length + 14 ≤ 400`) cannot fail
with `rowTooLarge`: the re-encoded row is `pagesRowBytes name newRoot` -/
theorem updatePageTable_errIn_short (newRoot : Nat) (name : Bytes)
    (hname : name.length + 14 ≤ c_maxValueSize) :
    ErrIn (fun e => e = .pageTableEntryMissing ∨ e = .decode ∨ e = .cellNotFound)
      (updatePageTable newRoot name) := by
  unfold Store.updatePageTable
  refine ErrIn.bind ErrIn.getS (fun s => ?_)
  refine ErrIn.bind (ErrIn.scanRight _) (fun cells => ?_)
  refine ErrIn.bind_post (Q := fun r => ∀ b, r = some b →
      (Tuple.get b.2 "table_name" == Val.str name) = true) ?_ ?_ ?_
  · apply OkPost.findFirstM
    intro c s r s' h b hb
    obtain ⟨m, s1, _, h2⟩ := bind_eq_ok h
    split at h2
    · rename_i hc; cases h2; cases hb; exact hc
    · cases h2; cases hb
  · apply ErrIn.findFirstM
    intro c
    refine ErrIn.bind (ErrIn.decodeRow (.inr (.inl rfl)) _ _) (fun m => ?_)
    split <;> exact ErrIn.pure _
  · intro hit hq
    split
    · exact ErrIn.throw (.inl rfl)
    · rename_i c m
      have hc : Tuple.get m "table_name" = Val.str name := by simpa using hq _ rfl
      have g1 : Tuple.get (("file_offset", Val.int newRoot) :: m) "table_name" = Val.str name := by
        rw [← hc]; simp [Tuple.get]
      have g2 : Tuple.get (("file_offset", Val.int (newRoot : Int)) :: m) "file_offset"
          = Val.int newRoot := by simp [Tuple.get]
      have henc := encode_pagesRow _ name newRoot g1 g2
      refine ErrIn.bind_post (OkPost.encodeRow _ _) (encodeRow_noErr ⟨_, henc⟩) (fun buf hbuf => ?_)
      have hlen : buf.length ≤ c_maxValueSize := by
        rw [henc] at hbuf
        cases hbuf
        rw [pagesRowBytes_length]; exact hname
      refine ErrIn.bind ErrIn.getS (fun s => ?_)
      refine ErrIn.bind (ErrIn.updateCellAt' (.inr (.inr rfl)) _ _ _ _
        (fun hgt => absurd hlen (by omega))) (fun _ => ?_)
      repeat ei_step

/-- C (oversized row, by error code). For a table whose name leaves room in a catalog cell
(`table.length + 14 ≤ 400`; the engine cannot create any other), an INSERT row refused with
`rowTooLarge` changes nothing: the only other source of that code, the catalog update, is excluded. -/
theorem insert_err_rowTooLarge (table : Bytes) (cols : List String) (vals : List Val) (s : Store)
    (s' : Store) (hf : Filed s) (hname : table.length + 14 ≤ c_maxValueSize)
    (h : insert table cols vals s = .err .rowTooLarge s') : Filed s' ∧ SameData s s' := by
  rcases insert_err_cases table cols vals s _ s' hf h with h1 | ⟨off, buf, bt, id, lsn, s0, s1, _, _, _, _, h6⟩
  · exact h1
  · have hc := updatePageTable_errIn_short _ _ hname _ _ _ h6
    rcases hc with hc | hc | hc <;> cases hc

/-! ### CREATE TABLE -/

/-- the `sys_schema` row of one column (as `checkCatalogRows` and `insertSchemaRows` build it) -/
def schemaRow (name : Bytes) (fd : FieldDef) : Vals :=
  [("table_name", Val.str name), ("field_name", strOf fd.name),
   ("field_type", Val.int (match fd.ty with | .int => 0 | .varchar => 1 | .boolean => 2 | .bigint => 3)),
   ("field_length", Val.int fd.len)]

/-- what a passed `checkCatalogRows` has established -/
theorem checkCatalogRows_none {fields : List FieldDef} {name : Bytes}
    (h : checkCatalogRows fields name = none) :
    name.length + 14 ≤ c_maxValueSize ∧
    ∀ fd ∈ fields, ∃ b, encodeTuple schemaTableSchema (schemaRow name fd) = .ok b ∧
      b.length ≤ c_maxValueSize := by
  unfold checkCatalogRows at h
  simp only [List.findSome?_eq_none_iff, List.mem_cons, List.mem_map] at h
  constructor
  · have h0 := h _ (.inl rfl)
    simp only at h0
    have henc := encode_newPagesRow name 0
    simp only [Int.natCast_zero] at henc  -- `((0 : Nat) : Int)` is the literal `0`
    rw [henc] at h0
    simp only [pagesRowBytes_length] at h0
    by_cases hgt : name.length + 14 > c_maxValueSize
    · rw [if_pos hgt] at h0; cases h0
    · omega
  · intro fd hfd
    have h1 := h _ (.inr ⟨fd, hfd, rfl⟩)
    simp only at h1
    show ∃ b, encodeTuple schemaTableSchema (schemaRow name fd) = .ok b ∧ _
    unfold schemaRow
    split at h1
    · rename_i b hb
      refine ⟨b, hb, ?_⟩
      by_cases hgt : b.length > c_maxValueSize
      · rw [if_pos hgt] at h1; cases h1
      · omega
    · cases h1
    · cases h1
    · cases h1

/-- the errors the body of CREATE TABLE can return after a passed pre-validation:
`rowTooLarge` is no longer among them -/
def BodyErr (e : SErr) : Prop :=
  e = .keyExists ∨ e = .decode ∨ e = .tableNotExist ∨ e = .pageTableEntryMissing ∨ e = .cellNotFound

/-- `insertPageTable` with a name that was measured: only a duplicate key can stop it -/
theorem insertPageTable_errIn (pageOff : Nat) (name : Bytes)
    (hname : name.length + 14 ≤ c_maxValueSize) :
    ErrIn (fun e => e = .keyExists) (insertPageTable pageOff name) := by
  unfold insertPageTable
  refine ErrIn.bind_post (OkPost.encodeRow _ _) (encodeRow_noErr ⟨_, encode_newPagesRow _ _⟩)
    (fun buf hbuf => ?_)
  have hlen : buf.length ≤ c_maxValueSize := by
    rw [encode_newPagesRow] at hbuf
    cases hbuf
    rw [pagesRowBytes_length]; exact hname
  refine ErrIn.bind ErrIn.getS (fun s => ?_)
  refine ErrIn.bind (ErrIn.fetch _) (fun _ => ?_)
  refine ErrIn.bind (btInsert_fits _ _ hlen) (fun r => ?_)
  repeat ei_step

theorem sysSchemaName_short : "sys_schema".toUTF8.toList.length + 14 ≤ c_maxValueSize := by
  decide +kernel

/-- `insertSchemaRows` with rows that were measured: `btInsert` gets exactly the measured buffers -/
theorem insertSchemaRows_errIn (fields : List FieldDef) (name : Bytes) (root : Nat)
    (hrows : ∀ fd ∈ fields, ∃ b, encodeTuple schemaTableSchema (schemaRow name fd) = .ok b ∧
      b.length ≤ c_maxValueSize) :
    ErrIn BodyErr (insertSchemaRows fields name root) := by
  induction fields generalizing root with
  | nil => exact ErrIn.pure _
  | cons fd rest ih =>
    have ih' := fun r => ih r (fun fd' h' => hrows fd' (List.mem_cons_of_mem _ h'))
    obtain ⟨b, hb, hblen⟩ := hrows fd List.mem_cons_self
    unfold insertSchemaRows
    refine ErrIn.bind_post (OkPost.encodeRow _ _) (encodeRow_noErr ⟨b, hb⟩) (fun buf hbuf => ?_)
    have hlen : buf.length ≤ c_maxValueSize := by
      have : encodeTuple schemaTableSchema (schemaRow name fd) = .ok buf := hbuf
      rw [hb] at this; cases this; exact hblen
    refine ErrIn.bind ((btInsert_fits _ _ hlen).mono (fun e he => .inl he)) (fun r => ?_)
    split
    split
    · refine ErrIn.bind ((updatePageTable_errIn_short _ _ sysSchemaName_short).mono ?_)
        (fun _ => ih' _)
      intro e he
      rcases he with rfl | rfl | rfl
      · exact .inr (.inr (.inr (.inl rfl)))
      · exact .inr (.inl rfl)
      · exact .inr (.inr (.inr (.inr rfl)))
    · exact ih' _

/-- the body of `createTable`, run after the pre-validation -/
def createBody (fields : List FieldDef) (name : Bytes) (flushOrder : List Nat) (doFlush : Bool) :
    SM Unit := do
  let pgOff ← appendNode (.leaf ⟨0, 0, false, false, 0, 0, []⟩) true
  insertPageTable pgOff name
  let schemaRoot ← relationOffset "sys_schema".toUTF8.toList
  let _ ← fetch schemaRoot
  insertSchemaRows fields name schemaRoot
  if doFlush then flushPages flushOrder else pure ()

/-- 3. After a passed pre-validation the body cannot fail with `rowTooLarge` (nor with any encode
error): no catalog invariant is needed. -/
theorem createBody_errIn (fields : List FieldDef) (name : Bytes) (flushOrder : List Nat)
    (doFlush : Bool) (hchk : checkCatalogRows fields name = none) :
    ErrIn BodyErr (createBody fields name flushOrder doFlush) := by
  obtain ⟨hname, hrows⟩ := checkCatalogRows_none hchk
  unfold createBody
  refine ErrIn.bind (ErrIn.appendNode _ _) (fun pgOff => ?_)
  refine ErrIn.bind ((insertPageTable_errIn _ _ hname).mono (fun e he => .inl he)) (fun _ => ?_)
  refine ErrIn.bind (ErrIn.relationOffset (.inr (.inl rfl)) (.inr (.inr (.inl rfl))) _)
    (fun schemaRoot => ?_)
  refine ErrIn.bind (ErrIn.fetch _) (fun _ => ?_)
  refine ErrIn.bind (insertSchemaRows_errIn _ _ _ hrows) (fun _ => ?_)
  split
  · exact ErrIn.flushPages _
  · exact ErrIn.pure _

/-- the three pre-validation refusals, each with the store it returns -/
theorem createTable_exists_err (fields : List FieldDef) (name : Bytes) (flushOrder : List Nat)
    (doFlush : Bool) (s s1 : Store) (off : Nat) (hf : Filed s)
    (h : relationOffset name s = .ok off s1) :
    createTable fields name flushOrder doFlush s = .err .tableAlreadyExist s1 ∧
      Filed s1 ∧ SameData s s1 := by
  refine ⟨?_, (ReadOnly.relationOffset name).ok hf h⟩
  unfold createTable; rw [h]

/-- the per-column checks can only object with these two errors -/
theorem checkFieldsFrom_some {seen : List String} {fields : List FieldDef} {e : SErr}
    (h : checkFieldsFrom seen fields = some e) : e = .intOutOfRange ∨ e = .fieldAmbiguous := by
  induction fields generalizing seen with
  | nil => cases h
  | cons fd rest ih =>
    unfold checkFieldsFrom at h
    split at h
    · cases h; exact .inl rfl
    · split at h
      · cases h; exact .inr rfl
      · exact ih h

/-- a column length outside `int32` makes the per-column checks object -/
theorem checkFieldsFrom_of_len {seen : List String} {fields : List FieldDef}
    (hlen : fields.any (fun fd => fd.len > 2147483647 || fd.len < -2147483648) = true) :
    ∃ e, checkFieldsFrom seen fields = some e := by
  induction fields generalizing seen with
  | nil => cases hlen
  | cons fd rest ih =>
    unfold checkFieldsFrom
    split
    · exact ⟨_, rfl⟩
    · split
      · exact ⟨_, rfl⟩
      · rename_i h1 _
        rw [List.any_cons, Bool.or_eq_true] at hlen
        rcases hlen with hl | hl
        · exact absurd hl h1
        · exact ih hl

/-- passed per-column checks: every length is inside `int32` -/
theorem checkFieldsFrom_none_len {seen : List String} {fields : List FieldDef}
    (h : checkFieldsFrom seen fields = none) :
    fields.any (fun fd => fd.len > 2147483647 || fd.len < -2147483648) = false := by
  cases hany : fields.any (fun fd => fd.len > 2147483647 || fd.len < -2147483648) with
  | false => rfl
  | true =>
    obtain ⟨e, he⟩ := checkFieldsFrom_of_len (seen := seen) hany
    rw [h] at he; cases he

/-- whatever the per-column checks object to (a column length outside `int32`, a column name used
twice), `createTable` returns that error in the store the catalog lookup left -/
theorem createTable_fields_err (fields : List FieldDef) (name : Bytes) (flushOrder : List Nat)
    (doFlush : Bool) (s s1 : Store) (e : SErr) (hf : Filed s)
    (h : relationOffset name s = .err .tableNotExist s1)
    (hfld : checkFieldsFrom [] fields = some e) :
    createTable fields name flushOrder doFlush s = .err e s1 ∧ Filed s1 ∧ SameData s s1 := by
  refine ⟨?_, (ReadOnly.relationOffset name).err hf h⟩
  unfold createTable; rw [h]; simp only [hfld]

theorem createTable_length_err (fields : List FieldDef) (name : Bytes) (flushOrder : List Nat)
    (doFlush : Bool) (s s1 : Store) (hf : Filed s)
    (h : relationOffset name s = .err .tableNotExist s1)
    (hlen : fields.any (fun fd => fd.len > 2147483647 || fd.len < -2147483648) = true) :
    (createTable fields name flushOrder doFlush s = .err .intOutOfRange s1 ∨
      createTable fields name flushOrder doFlush s = .err .fieldAmbiguous s1) ∧
      Filed s1 ∧ SameData s s1 := by
  obtain ⟨e, he⟩ := checkFieldsFrom_of_len (seen := []) hlen
  obtain ⟨h1, h2⟩ := createTable_fields_err fields name flushOrder doFlush s s1 e hf h he
  refine ⟨?_, h2⟩
  rcases checkFieldsFrom_some he with rfl | rfl
  · exact .inl h1
  · exact .inr h1

/-- 1. Whatever `checkCatalogRows` objects to (a catalog row that does not encode, or is too long
for a page cell - an over-long table or column name), `createTable` returns that error in the store
the catalog lookup left: well filed, same data. -/
theorem createTable_prevalidation_err (fields : List FieldDef) (name : Bytes)
    (flushOrder : List Nat) (doFlush : Bool) (s s1 : Store) (e : SErr) (hf : Filed s)
    (h : relationOffset name s = .err .tableNotExist s1)
    (hfld : checkFieldsFrom [] fields = none)
    (hchk : checkCatalogRows fields name = some e) :
    createTable fields name flushOrder doFlush s = .err e s1 ∧ Filed s1 ∧ SameData s s1 := by
  refine ⟨?_, (ReadOnly.relationOffset name).err hf h⟩
  unfold createTable; rw [h]; simp only [hfld, hchk]

/-- The exact shape of an error of `createTable`: a pre-validation refusal (name taken or catalog
unreadable; column length outside `int32`; a column name used twice; a catalog row `checkCatalogRows` rejects) - nothing
changed; or the pre-validation passed and the body failed with one of `BodyErr`, after the root
page of the new table was allocated. -/
theorem createTable_err_cases (fields : List FieldDef) (name : Bytes) (flushOrder : List Nat)
    (doFlush : Bool) (s : Store) (e : SErr) (s' : Store) (hf : Filed s)
    (h : createTable fields name flushOrder doFlush s = .err e s') :
    ((e = .tableAlreadyExist ∨ e = .intOutOfRange ∨ e = .fieldAmbiguous ∨
        checkCatalogRows fields name = some e) ∧
      Filed s' ∧ SameData s s') ∨
    (∃ s1, relationOffset name s = .err .tableNotExist s1 ∧ Filed s1 ∧ SameData s s1 ∧
      checkCatalogRows fields name = none ∧
      createBody fields name flushOrder doFlush s1 = .err e s' ∧ BodyErr e) := by
  unfold createTable at h
  split at h
  · rename_i s1 heq
    obtain ⟨f1, d1⟩ := (ReadOnly.relationOffset name).err hf heq
    split at h
    · rename_i e1 hfld
      cases h
      rcases checkFieldsFrom_some hfld with rfl | rfl
      · exact .inl ⟨.inr (.inl rfl), f1, d1⟩
      · exact .inl ⟨.inr (.inr (.inl rfl)), f1, d1⟩
    · split at h
      · rename_i e1 hchk
        cases h
        exact .inl ⟨.inr (.inr (.inr hchk)), f1, d1⟩
      · rename_i hchk
        exact .inr ⟨s1, heq, f1, d1, hchk, h,
          createBody_errIn fields name flushOrder doFlush hchk _ _ _ h⟩
  · rename_i a s1 heq
    cases h
    exact .inl ⟨.inl rfl, (ReadOnly.relationOffset name).ok hf heq⟩
  · rename_i e1 s1 hne heq
    cases h
    exact .inl ⟨.inl rfl, (ReadOnly.relationOffset name).err hf heq⟩
  · cases h
  · cases h
  · cases h

/-- D. CREATE TABLE refused with any error outside `BodyErr` changes nothing. -/
theorem createTable_err_of_not_bodyErr (fields : List FieldDef) (name : Bytes)
    (flushOrder : List Nat) (doFlush : Bool) (s : Store) (e : SErr) (s' : Store) (hf : Filed s)
    (h : createTable fields name flushOrder doFlush s = .err e s') (he : ¬ BodyErr e) :
    Filed s' ∧ SameData s s' := by
  rcases createTable_err_cases fields name flushOrder doFlush s e s' hf h with h1 | ⟨s1, _, _, _, _, _, hb⟩
  · exact h1.2
  · exact absurd hb he

/-- D. CREATE TABLE refused because the table exists (or the catalog is unreadable), because a
column length is outside `int32`, because a column name is used twice (`fieldAmbiguous`), because a
table or column name is too long (`rowTooLarge`), or with `typeMismatch` / `colCountMismatch`:
nothing changed. -/
theorem createTable_err (fields : List FieldDef) (name : Bytes) (flushOrder : List Nat)
    (doFlush : Bool) (s : Store) (e : SErr) (s' : Store) (hf : Filed s)
    (h : createTable fields name flushOrder doFlush s = .err e s')
    (he : e = .tableAlreadyExist ∨ e = .intOutOfRange ∨ e = .rowTooLarge ∨ e = .typeMismatch ∨
          e = .colCountMismatch ∨ e = .fieldAmbiguous) : Filed s' ∧ SameData s s' := by
  apply createTable_err_of_not_bodyErr fields name flushOrder doFlush s e s' hf h
  unfold BodyErr
  rcases he with rfl | rfl | rfl | rfl | rfl | rfl <;> intro hb <;>
    rcases hb with hb | hb | hb | hb | hb <;> cases hb

/-! ### the former counterexample, now a positive example -/

/-- a catalog with no tables: one empty leaf at 4096 as the page table -/
def emptyCatalog : Store :=
  { hdr := { ptRoot := 4096, nextFree := 8192 }, mem := [],
    disk := [(4096, .leaf ⟨4096, 0, false, false, 0, 0, []⟩)],
    dhdr := { ptRoot := 4096, nextFree := 8192 } }

theorem emptyCatalog_filed : Filed emptyCatalog := by
  constructor
  · intro p hp
    simp only [emptyCatalog, List.mem_singleton] at hp
    subst hp
    exact ⟨rfl, by decide⟩
  · intro p hp
    simp only [emptyCatalog, List.not_mem_nil] at hp

/-- `emptyCatalog` after the catalog lookup: the page table's leaf is cached, clean -/
def emptyCatalogRead : Store :=
  { emptyCatalog with mem := [(4096, ⟨.leaf ⟨4096, 0, false, false, 0, 0, []⟩, false⟩)] }

/-- all fields of a store that the model can change (`Store` itself has no `DecidableEq`) -/
def sameFields (a b : Store) : Bool :=
  a.hdr == b.hdr && a.mem == b.mem && a.disk == b.disk && a.dhdr == b.dhdr && a.ghost == b.ghost

theorem eq_of_sameFields {a b : Store} (h : sameFields a b = true) : a = b := by
  cases a; cases b
  simp only [sameFields, Bool.and_eq_true, beq_iff_eq] at h
  obtain ⟨⟨⟨⟨h1, h2⟩, h3⟩, h4⟩, h5⟩ := h
  simp only [h1, h2, h3, h4, h5]

/-- a table name of 400 bytes: its catalog row (414 bytes) exceeds `c_maxValueSize` = 400 -/
def longName : Bytes := List.replicate 400 97

/-- a column name of 400 bytes -/
def longColumn : String := String.ofList (List.replicate 400 'c')

def createLongNameCheck : Bool :=
  match createTable [] longName [] true emptyCatalog with
  | .err e s' => e == .rowTooLarge && sameFields s' emptyCatalogRead
  | _ => false

theorem createLongNameCheck_true : createLongNameCheck = true := by decide +kernel

/-- 2. (Before the repair: `nextFree` moved to 12288 and an orphan page sat dirty in the cache.)
CREATE TABLE with a 400-byte table name is refused with `rowTooLarge` by the pre-validation; the
store returned is `emptyCatalog` with the page-table leaf cached clean - nothing allocated,
nothing dirty - and by `createTable_err` it is well filed and holds the same data. -/
theorem createTable_longName_unchanged :
    createTable [] longName [] true emptyCatalog = .err .rowTooLarge emptyCatalogRead ∧
      Filed emptyCatalogRead ∧ SameData emptyCatalog emptyCatalogRead := by
  have h := createLongNameCheck_true
  unfold createLongNameCheck at h
  split at h
  · rename_i e s' heq
    simp only [Bool.and_eq_true, beq_iff_eq] at h
    obtain ⟨rfl, hs⟩ := h
    have hs' := eq_of_sameFields hs
    subst hs'
    exact ⟨heq, createTable_err _ _ _ _ _ _ _ emptyCatalog_filed heq (.inr (.inr (.inl rfl)))⟩
  · cases h

def createLongColumnCheck : Bool :=
  match createTable [⟨"a", .int, 0⟩, ⟨longColumn, .int, 0⟩] [116] [] true emptyCatalog with
  | .err e s' => e == .rowTooLarge && sameFields s' emptyCatalogRead
  | _ => false

theorem createLongColumnCheck_true : createLongColumnCheck = true := by decide +kernel

/-- 2. The worse case of the unrepaired code - an over-long name in the SECOND column, after the
first column's `sys_schema` row had been written: refused up front, nothing changed. -/
theorem createTable_longColumn_unchanged :
    createTable [⟨"a", .int, 0⟩, ⟨longColumn, .int, 0⟩] [116] [] true emptyCatalog
        = .err .rowTooLarge emptyCatalogRead ∧
      Filed emptyCatalogRead ∧ SameData emptyCatalog emptyCatalogRead := by
  have h := createLongColumnCheck_true
  unfold createLongColumnCheck at h
  split at h
  · rename_i e s' heq
    simp only [Bool.and_eq_true, beq_iff_eq] at h
    obtain ⟨rfl, hs⟩ := h
    have hs' := eq_of_sameFields hs
    subst hs'
    exact ⟨heq, createTable_err _ _ _ _ _ _ _ emptyCatalog_filed heq (.inr (.inr (.inl rfl)))⟩
  · cases h

end Mkdb.Store
