import Mkdb.Proofs.Tree2
/-!
Proofs about the levels model of the B+ tree, part 4: the page-local cell changes `setVal` and
`setDeleted` map the cell list and preserve the invariant.
-/
namespace Mkdb.Tree
open Mkdb.Page Mkdb.Generated

/-- change the cell `key` by `f` -/
def updCell (f : LeafCell → LeafCell) (key : Nat) (c : LeafCell) : LeafCell :=
  if c.key == key then f c else c

/-- the common shape of `setVal` and `setDeleted` on one leaf -/
def updLeaf (f : LeafCell → LeafCell) (key lsn : Nat) (p : Leaf × Bool) : Leaf × Bool :=
  if p.1.cells.any (fun c => c.key == key) then
    ({ p.1 with cells := p.1.cells.map (updCell f key), lsn := lsn }, true)
  else p

def updLeaves (f : LeafCell → LeafCell) (key lsn : Nat) (t : Levels) : Levels :=
  { t with leaves := t.leaves.map (updLeaf f key lsn) }

theorem setVal_eq (t : Levels) (key lsn : Nat) (v : Bytes) :
    setVal t key lsn v = updLeaves (fun c => { c with val := v }) key lsn t := by
  unfold setVal updLeaves
  congr 1

theorem setDeleted_eq (t : Levels) (key lsn : Nat) :
    setDeleted t key lsn = updLeaves (fun c => { c with deleted := true }) key lsn t := by
  unfold setDeleted updLeaves
  congr 1

variable (f : LeafCell → LeafCell) (key lsn : Nat)

theorem updLeaf_cells (p : Leaf × Bool) :
    (updLeaf f key lsn p).1.cells = p.1.cells.map (updCell f key) := by
  unfold updLeaf
  split
  · rfl
  · rename_i h
    symm
    rw [List.map_congr_left (g := id), List.map_id]
    intro c hc
    simp only [List.any_eq_true, not_exists, not_and] at h
    simp [updCell, h c hc]

theorem updLeaf_off (p : Leaf × Bool) : (updLeaf f key lsn p).1.off = p.1.off := by
  unfold updLeaf; split <;> rfl

theorem updLeaf_sibs (p : Leaf × Bool) :
    (updLeaf f key lsn p).1.hasL = p.1.hasL ∧ (updLeaf f key lsn p).1.hasR = p.1.hasR ∧
    (updLeaf f key lsn p).1.lSib = p.1.lSib ∧ (updLeaf f key lsn p).1.rSib = p.1.rSib := by
  unfold updLeaf; split <;> simp

theorem cells_updLeaves (t : Levels) :
    cells (updLeaves f key lsn t) = (cells t).map (updCell f key) := by
  simp only [cells, updLeaves, List.flatMap_map, List.map_flatMap, updLeaf_cells]

theorem updCell_key (hf : ∀ c, (f c).key = c.key) (c : LeafCell) : (updCell f key c).key = c.key := by
  unfold updCell; split <;> simp [hf]

theorem keys_updLeaves (hf : ∀ c, (f c).key = c.key) (t : Levels) :
    keys (updLeaves f key lsn t) = keys t := by
  simp only [keys, cells_updLeaves, List.map_map]
  apply List.map_congr_left
  intro c _
  exact updCell_key f key hf c

theorem chainFrom_map_congr (g : Leaf → Leaf) (hoff : ∀ l, (g l).off = l.off)
    (hL : ∀ l, (g l).hasL = l.hasL) (hR : ∀ l, (g l).hasR = l.hasR)
    (hl : ∀ l, (g l).lSib = l.lSib) (hr : ∀ l, (g l).rSib = l.rSib) (ls : List Leaf) :
    ∀ prev, chainFrom prev ls → chainFrom prev (ls.map g) := by
  induction ls with
  | nil => intro prev h; exact h
  | cons l rest ih =>
    intro prev h
    obtain ⟨h1, h2, h3⟩ := h
    refine ⟨?_, ?_, ?_⟩
    · cases prev <;> simpa [hL, hl] using h1
    · cases rest with
      | nil => simpa [hR] using h2
      | cons m ms => simpa [hR, hr, hoff] using h2
    · rw [hoff]; exact ih _ h3

theorem updLeaves_inv (hf : ∀ c, (f c).key = c.key) (t : Levels) (nf : Nat) (hinv : Inv t nf) :
    Inv (updLeaves f key lsn t) nf := by
  have hoffs : (updLeaves f key lsn t).leaves.map (·.1.off) = t.leaves.map (·.1.off) := by
    simp [updLeaves, updLeaf_off]
  have hlen : ∀ p, (updLeaf f key lsn p).1.cells.length = p.1.cells.length := by
    intro p; rw [updLeaf_cells, List.length_map]
  refine ⟨⟨?_, hinv.cap.2⟩, ?_, ?_, ?_, ?_, ?_, ?_⟩
  · intro p hp
    simp only [updLeaves, List.mem_map] at hp
    obtain ⟨q, hq, rfl⟩ := hp
    rw [hlen]
    exact hinv.cap.1 q hq
  · unfold KeysAsc
    rw [keys_updLeaves f key lsn hf]
    exact hinv.asc
  · intro h2 p hp
    simp only [updLeaves, List.mem_map, List.length_map] at hp h2
    obtain ⟨q, hq, rfl⟩ := hp
    have := hinv.ne h2 q hq
    intro h0
    apply this
    apply List.eq_nil_of_length_eq_zero
    rw [← hlen, h0]
    rfl
  · unfold ChainOK
    have : (updLeaves f key lsn t).leaves.map (·.1) =
        (t.leaves.map (·.1)).map (fun l => (updLeaf f key lsn (l, false)).1) := by
      simp only [updLeaves, List.map_map]
      apply List.map_congr_left
      intro p _
      simp only [Function.comp, updLeaf]
      split <;> rfl
    rw [this]
    exact chainFrom_map_congr _ (fun l => updLeaf_off f key lsn (l, false))
      (fun l => (updLeaf_sibs f key lsn (l, false)).1)
      (fun l => (updLeaf_sibs f key lsn (l, false)).2.1)
      (fun l => (updLeaf_sibs f key lsn (l, false)).2.2.1)
      (fun l => (updLeaf_sibs f key lsn (l, false)).2.2.2) _ _ hinv.chain
  · unfold LinkOK
    rw [hoffs]
    exact hinv.link
  · unfold SepsOK
    have : (updLeaves f key lsn t).leaves.map (fun p => (p.1.cells.head?.map (·.key)).getD 0) =
        t.leaves.map (fun p => (p.1.cells.head?.map (·.key)).getD 0) := by
      simp only [updLeaves, List.map_map]
      apply List.map_congr_left
      intro p _
      simp only [Function.comp, updLeaf_cells]
      cases p.1.cells with
      | nil => rfl
      | cons c cs => simp [updCell_key f key hf]
    rw [this]
    exact hinv.seps
  · unfold OffsOK
    have : offs (updLeaves f key lsn t) = offs t := by
      rw [offs_eq, hoffs, offs_eq]
      rfl
    rw [this]
    exact hinv.offs

/-! ### `setVal` -/

theorem cells_setVal (t : Levels) (key lsn : Nat) (v : Bytes) :
    cells (setVal t key lsn v) =
      (cells t).map (fun c => if c.key == key then { c with val := v } else c) := by
  rw [setVal_eq, cells_updLeaves]
  rfl

theorem keys_setVal (t : Levels) (key lsn : Nat) (v : Bytes) : keys (setVal t key lsn v) = keys t := by
  rw [setVal_eq]
  exact keys_updLeaves (fun c => { c with val := v }) key lsn (fun _ => rfl) t

theorem setVal_inv (t : Levels) (key lsn nf : Nat) (v : Bytes) (hinv : Inv t nf) :
    Inv (setVal t key lsn v) nf := by
  rw [setVal_eq]
  exact updLeaves_inv (fun c => { c with val := v }) key lsn (fun _ => rfl) t nf hinv

theorem setVal_inner (t : Levels) (key lsn : Nat) (v : Bytes) : (setVal t key lsn v).inner = t.inner := rfl

/-- UPDATE does not change which rows are live, only the value of the row `key` -/
theorem live_setVal (t : Levels) (key lsn : Nat) (v : Bytes) :
    live (setVal t key lsn v) =
      (live t).map (fun c => if c.key == key then { c with val := v } else c) := by
  unfold live
  rw [cells_setVal, List.filter_map]
  congr 1
  apply List.filter_congr
  intro c _
  simp only [Function.comp]
  split <;> rfl

/-! ### `setDeleted` -/

theorem cells_setDeleted (t : Levels) (key lsn : Nat) :
    cells (setDeleted t key lsn) =
      (cells t).map (fun c => if c.key == key then { c with deleted := true } else c) := by
  rw [setDeleted_eq, cells_updLeaves]
  rfl

theorem keys_setDeleted (t : Levels) (key lsn : Nat) : keys (setDeleted t key lsn) = keys t := by
  rw [setDeleted_eq]
  exact keys_updLeaves (fun c => { c with deleted := true }) key lsn (fun _ => rfl) t

theorem setDeleted_inv (t : Levels) (key lsn nf : Nat) (hinv : Inv t nf) :
    Inv (setDeleted t key lsn) nf := by
  rw [setDeleted_eq]
  exact updLeaves_inv (fun c => { c with deleted := true }) key lsn (fun _ => rfl) t nf hinv

theorem setDeleted_inner (t : Levels) (key lsn : Nat) : (setDeleted t key lsn).inner = t.inner := rfl

/-- DELETE removes exactly the row `key` from what a scan sees -/
theorem live_setDeleted (t : Levels) (key lsn : Nat) :
    live (setDeleted t key lsn) = (live t).filter (fun c => c.key != key) := by
  unfold live
  rw [cells_setDeleted]
  generalize cells t = cs
  induction cs with
  | nil => rfl
  | cons c cs ih =>
    simp only [List.map_cons, List.filter_cons, ih]
    by_cases hk : c.key = key
    · cases hd : c.deleted <;> simp [hk]
    · cases hd : c.deleted <;> simp [hk, hd]

/-- a deleted key is no longer live -/
theorem not_live_setDeleted (t : Levels) (key lsn : Nat) (c : LeafCell)
    (hc : c ∈ live (setDeleted t key lsn)) : c.key ≠ key := by
  rw [live_setDeleted, List.mem_filter] at hc
  simpa using hc.2

end Mkdb.Tree
