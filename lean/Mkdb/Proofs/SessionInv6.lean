import Mkdb.Proofs.SessionInv5
import Mkdb.Proofs.BaseCase1
import Mkdb.Proofs.Session
import Mkdb.Proofs.TypedTables6
/-!
Session invariant, part 6: **the invariant of a session, and `Session.exec` keeps it.**

* `SessAbs s w`: the session `s` abstracts to the plain databases `w` (one per database name): every
  database of the session satisfies the invariant `DbInv` for its plain database `w name`, every database
  other than the selected one is closed (`DbFlushed`: `USE` closes the database it leaves, `CREATE
  DATABASE` installs a closed one), the selected name - if any - is a database of the session, names are
  distinct.
* `StmtSide s st`: the side conditions of the statement-level theorems (`StmtNames`, `StmtRoomT`,
  `StmtLits`), for the selected database under whatever catalog description it has; and, since the
  session model EVALUATES a SELECT (`Exec.evaluateSelect` on `fetchOfDB` of the selected database),
  `SelectSide`: for a `.select q` the select list has a shape the parser builds and the FROM clause names
  user tables (`UserTables q`) - the two hypotheses of `select_on_stored_never_panics` (TypedTables6).
* `sessAbs_empty`, **`exec_sessAbs`**: every statement, accepted or refused, with or without a selected
  database, keeps the invariant and does not return `Out.panic`; databases other than the selected one
  (for CREATE DATABASE: other than the new one) keep their plain database; `USE` changes no plain
  database at all (`use_sessAbs`).  The SELECT case is no longer trivial: that the evaluation does not
  panic is `select_sessAbs`, proved from `select_on_stored_never_panics` under `DbInv` of the selected
  database (this file now imports TypedTables6; TypedTables5 imports SessionInv8 instead of SessionInv10).
-/
set_option autoImplicit false
namespace Mkdb.Session
open Mkdb.Engine Mkdb.Store Mkdb.Sql Mkdb.Tree

/-! ### the database table as a finite map -/

theorem getDB_mem {s : Sess} {n : String} {db : DB} (h : getDB s n = some db) : (n, db) ∈ s.dbs := by
  unfold getDB at h
  obtain ⟨p, hp, hpd⟩ := Option.map_eq_some_iff.mp h
  have h1 := List.find?_some hp
  have h2 := List.mem_of_find?_eq_some hp
  obtain ⟨a, b⟩ := p
  simp only [beq_iff_eq] at h1 hpd
  subst h1; subst hpd
  exact h2

theorem find_of_mem_nodup : ∀ (l : List (String × DB)) (n : String) (db : DB), (l.map (·.1)).Nodup → (n, db) ∈ l →
    (l.find? (·.1 == n)).map (·.2) = some db
  | [], _, _, _, h => by cases h
  | p :: rest, n, db, hnd, h => by
    simp only [List.map_cons, List.nodup_cons] at hnd
    rcases List.mem_cons.mp h with rfl | h'
    · simp
    · have hne : p.1 ≠ n := by
        intro heq
        exact hnd.1 (heq ▸ List.mem_map.mpr ⟨(n, db), h', rfl⟩)
      have hb : (p.1 == n) = false := by simpa using hne
      rw [List.find?_cons, hb]
      exact find_of_mem_nodup rest n db hnd.2 h'

theorem mem_getDB {s : Sess} (hnd : (names s).Nodup) {n : String} {db : DB} (h : (n, db) ∈ s.dbs) :
    getDB s n = some db := find_of_mem_nodup s.dbs n db hnd h

theorem getDB_none_not_mem {s : Sess} {n : String} (h : getDB s n = none) : n ∉ names s := by
  intro hm
  obtain ⟨p, hp, hpn⟩ := List.mem_map.mp hm
  unfold getDB at h
  rw [Option.map_eq_none_iff, List.find?_eq_none] at h
  have := h p hp
  simp [hpn] at this

theorem mem_setDB {s : Sess} {n : String} {db : DB} {p : String × DB} (h : p ∈ (setDB s n db).dbs) :
    p = (n, db) ∨ (p ∈ s.dbs ∧ p.1 ≠ n) := by
  unfold setDB at h
  simp only at h
  split at h
  · obtain ⟨q, hq, rfl⟩ := List.mem_map.mp h
    by_cases hqn : q.1 = n
    · left; simp [hqn]
    · right
      have hb : (q.1 == n) = false := by simpa using hqn
      simp only [hb, Bool.false_eq_true, if_false]
      exact ⟨hq, hqn⟩
  · rename_i hany
    rcases List.mem_append.mp h with h1 | h1
    · right
      refine ⟨h1, ?_⟩
      intro heq
      apply hany
      rw [List.any_eq_true]
      exact ⟨p, h1, by simp [heq]⟩
    · left; simpa using h1

theorem nodup_setDB {s : Sess} (hnd : (names s).Nodup) (n : String) (db : DB) : (names (setDB s n db)).Nodup := by
  rw [names_setDB]
  split
  · exact hnd
  · rename_i hn
    have hnone : getDB s n = none := by
      cases hg : getDB s n with
      | none => rfl
      | some x => rw [hg] at hn; exact absurd rfl hn
    rw [List.nodup_append]
    refine ⟨hnd, by simp, ?_⟩
    intro a ha b hb
    simp only [List.mem_singleton] at hb
    subst hb
    intro heq
    exact getDB_none_not_mem hnone (heq ▸ ha)

/-! ### the invariant -/

/-- **The session abstracts to the plain databases `w`.** -/
structure SessAbs (s : Sess) (w : String → Spec.SDB) : Prop where
  dbs : ∀ p ∈ s.dbs, ∃ pt sch tbls, DbInv p.2 (w p.1) pt sch tbls ∧
    (s.cur ≠ some p.1 → DbFlushed p.2 (w p.1) pt sch tbls)
  cur : ∀ n, s.cur = some n → (getDB s n).isSome
  nodup : (names s).Nodup

/-- the invariant of a session: it abstracts to some plain databases -/
def SessInv (s : Sess) : Prop := ∃ w, SessAbs s w

/-- the side condition of a SELECT (none for the other statements): the select list has a shape the
parser builds - `*` alone, or no leading `*`: the shape hypothesis of `C18_no_panic_partial`, which
`parsed_select_shape` / `C18_parsed_select_has_the_shape` discharges for every parsed statement - and the
FROM clause names neither `sys_pages` nor `sys_schema` (`UserTables`) -/
def SelectSide : Sql.Stmt → Prop
  | .select q => (Exec.NoPanicP.ParsedShape q) ∧ UserTables q
  | _ => True

/-- the side conditions of the statement-level theorems, for the selected database (none for the
statements that are not routed to it, and none when no database is selected).  CHANGED with the session
model evaluating SELECT: the fourth conjunct `SelectSide st` (the parser shape and `UserTables q` for a
`.select q`, `True` for every other statement). -/
def StmtSide (s : Sess) (st : Sql.Stmt) : Prop :=
  ∀ n db, s.cur = some n → getDB s n = some db → ∀ sdb pt sch tbls, DbInv db sdb pt sch tbls →
    StmtNames pt tbls st ∧ StmtRoomT db pt sch tbls st ∧ StmtLits st ∧ SelectSide st

/-- **The empty session satisfies the invariant.** -/
theorem sessAbs_empty (w : String → Spec.SDB) : SessAbs {} w where
  dbs := fun p hp => absurd hp List.not_mem_nil
  cur := fun n hn => by cases hn
  nodup := List.nodup_nil

/-- the database `CREATE DATABASE` installs is a closed database for the empty plain database -/
theorem dbFlushed_newDB : DbFlushed newDB [] ptNew schNew [] := ckpt_newDB.dbFlushed noStale_new

/-- the plain databases with the one of `n` replaced -/
def setW (w : String → Spec.SDB) (n : String) (sdb : Spec.SDB) : String → Spec.SDB :=
  fun m => if m = n then sdb else w m

theorem setW_same (w : String → Spec.SDB) (n : String) (sdb : Spec.SDB) : setW w n sdb n = sdb := by simp [setW]
theorem setW_other (w : String → Spec.SDB) {n m : String} (sdb : Spec.SDB) (h : m ≠ n) : setW w n sdb m = w m := by
  simp [setW, h]

/-- replacing the selected database by one that satisfies the invariant -/
theorem SessAbs.setCur {s : Sess} {w : String → Spec.SDB} (h : SessAbs s w) {n : String} (hc : s.cur = some n)
    {db' : DB} {sdb' : Spec.SDB} {pt sch : Levels} {tbls : List (Bytes × Levels)} (hi : DbInv db' sdb' pt sch tbls) :
    SessAbs (setDB s n db') (setW w n sdb') := by
  refine ⟨?_, ?_, nodup_setDB h.nodup n db'⟩
  · intro p hp
    rcases mem_setDB hp with rfl | ⟨hp', hne⟩
    · refine ⟨pt, sch, tbls, by rw [setW_same]; exact hi, fun hcur => ?_⟩
      exact absurd hc hcur
    · obtain ⟨pt0, sch0, tbls0, h1, h2⟩ := h.dbs p hp'
      rw [setW_other w _ hne]
      exact ⟨pt0, sch0, tbls0, h1, h2⟩
  · intro m hm
    rw [getDB_setDB]
    split
    · rfl
    · exact h.cur m hm

/-! ### the dispatch -/

theorem exec_routed (s : Sess) (st : Sql.Stmt)
    (hk : (∃ n c, st = .createTable n c) ∨ (∃ t c r, st = .insert t c r) ∨ (∃ t a w, st = .update t a w) ∨
      (∃ t w, st = .delete t w)) :
    exec s st = onCurrent s fun db => evalStmt db [] st := by
  have hv : ∀ {α} (f : DB → Res α), onCurrent s f = onCurrent s fun db => voidRes (f db) := by
    intro α f
    unfold onCurrent
    split
    · rfl
    · split
      · rfl
      · rename_i db _
        cases hf : f db <;> simp [voidRes, hf]
  rcases hk with ⟨n, c, rfl⟩ | ⟨t, c, r, rfl⟩ | ⟨t, a, w, rfl⟩ | ⟨t, w, rfl⟩
  · rfl
  · exact hv _
  · rfl
  · exact hv _

/-- a statement routed to the selected database: the invariant is kept, no panic, and only the plain
database of the selected name may change -/
theorem onCurrent_sessAbs {s : Sess} {w : String → Spec.SDB} (h : SessAbs s w) (st : Sql.Stmt) (hside : StmtSide s st) :
    ∃ w', SessAbs (onCurrent s fun db => evalStmt db [] st).1 w' ∧
      (onCurrent s fun db => evalStmt db [] st).2 ≠ .panic ∧ ∀ m, s.cur ≠ some m → w' m = w m := by
  unfold onCurrent
  cases hc : s.cur with
  | none => exact ⟨w, h, by simp, fun _ _ => rfl⟩
  | some n =>
    simp only
    cases hg : getDB s n with
    | none =>
      have := h.cur n hc
      rw [hg] at this
      cases this
    | some db =>
      simp only
      obtain ⟨pt, sch, tbls, hi, _⟩ := h.dbs (n, db) (getDB_mem hg)
      obtain ⟨hnames, hroom, hlits, _⟩ := hside n db hc hg _ pt sch tbls hi
      obtain ⟨db', hres, sdb', pt', sch', tbls', hi'⟩ := evalStmt_keeps_inv db [] _ pt sch tbls hi st hnames hroom hlits
      have hframe : ∀ m, some n ≠ some m → setW w n sdb' m = w m := fun m hm =>
        setW_other w sdb' (fun heq => hm (by rw [heq]))
      rcases hres with hres | ⟨e, hres⟩
      · rw [hres]
        exact ⟨setW w n sdb', h.setCur hc hi', by simp, hframe⟩
      · rw [hres]
        exact ⟨setW w n sdb', h.setCur hc hi', by simp, hframe⟩

/-! ### USE -/

/-- selecting `n` in a session all of whose other databases are closed -/
theorem sessAbs_select {s1 : Sess} {w : String → Spec.SDB} {n : String}
    (hdbs : ∀ p ∈ s1.dbs, ∃ pt sch tbls, DbInv p.2 (w p.1) pt sch tbls ∧
      (p.1 ≠ n → DbFlushed p.2 (w p.1) pt sch tbls))
    (hget : (getDB s1 n).isSome = true) (hnd : (names s1).Nodup) :
    SessAbs { s1 with cur := some n } w := by
  refine ⟨?_, ?_, hnd⟩
  · intro p hp
    obtain ⟨pt, sch, tbls, h1, h2⟩ := hdbs p hp
    exact ⟨pt, sch, tbls, h1, fun hcur => h2 (fun heq => hcur (by rw [heq]))⟩
  · intro m hm
    have : m = n := (Option.some.inj hm).symm
    rw [this]; exact hget

/-- **USE keeps the invariant and changes no plain database**: the database it leaves is flushed and
re-opened (a closed database for the same plain database), the one it selects was closed. -/
theorem use_sessAbs {s : Sess} {w : String → Spec.SDB} (h : SessAbs s w) (name : Bytes) :
    SessAbs (exec s (.use name)).1 w ∧ (exec s (.use name)).2 ≠ .panic := by
  unfold exec
  by_cases hv' : validDbName name = false
  · simp only [hv', Bool.not_false, if_true]
    exact ⟨h, by simp⟩
  have hv : validDbName name = true := by simpa using hv'
  simp only [hv, Bool.not_true, Bool.false_eq_true, if_false]
  by_cases hne : name.isEmpty = true
  · simp only [hne, if_true]
    exact ⟨h, by simp⟩
  simp only [hne, Bool.false_eq_true, if_false]
  by_cases hex : (getDB s (canon name)).isNone = true
  · simp only [hex, if_true]
    exact ⟨h, by simp⟩
  simp only [hex, Bool.false_eq_true, if_false]
  refine ⟨?_, by simp⟩
  have hsome : (getDB s (canon name)).isSome = true := by
    cases hg : getDB s (canon name) with
    | none => rw [hg] at hex; simp at hex
    | some x => rfl
  cases hc : s.cur with
  | none =>
    simp only
    apply sessAbs_select _ hsome h.nodup
    intro p hp
    obtain ⟨pt, sch, tbls, h1, h2⟩ := h.dbs p hp
    exact ⟨pt, sch, tbls, h1, fun _ => h2 (by rw [hc]; simp)⟩
  | some c =>
    simp only
    by_cases hcn : c = canon name
    · have hb : (c == canon name) = true := by simp [hcn]
      simp only [hb, if_true]
      apply sessAbs_select _ hsome h.nodup
      intro p hp
      obtain ⟨pt, sch, tbls, h1, h2⟩ := h.dbs p hp
      exact ⟨pt, sch, tbls, h1, fun hpn => h2 (by rw [hc, hcn]; exact fun heq => hpn (Option.some.inj heq).symm)⟩
    · have hb : (c == canon name) = false := by simpa using hcn
      simp only [hb, Bool.false_eq_true, if_false]
      cases hg : getDB s c with
      | none =>
        have := h.cur c hc
        rw [hg] at this
        cases this
      | some db =>
        simp only
        obtain ⟨pt, sch, tbls, hi, _⟩ := h.dbs (c, db) (getDB_mem hg)
        obtain ⟨db1, e, _, hk⟩ := hi.flush []
        simp only [e]
        have hk' := hk.reopen
        apply sessAbs_select _ _ (nodup_setDB h.nodup c _)
        · intro p hp
          rcases mem_setDB hp with rfl | ⟨hp', hne'⟩
          · exact ⟨_, _, _, hk'.inv, fun _ => hk'⟩
          · obtain ⟨pt0, sch0, tbls0, h1, h2⟩ := h.dbs p hp'
            exact ⟨pt0, sch0, tbls0, h1, fun _ => h2 (by rw [hc]; exact fun heq => hne' (Option.some.inj heq).symm)⟩
        · rw [getDB_setDB]
          split
          · rfl
          · exact hsome

/-! ### CREATE DATABASE -/

/-- installing the database `CREATE DATABASE` creates under the name `n` -/
theorem SessAbs.addNew {s : Sess} {w : String → Spec.SDB} (h : SessAbs s w) (n : String) :
    SessAbs (setDB s n newDB) (setW w n []) := by
  refine ⟨?_, ?_, nodup_setDB h.nodup _ _⟩
  · intro p hp
    rcases mem_setDB hp with rfl | ⟨hp', hne'⟩
    · refine ⟨ptNew, schNew, [], ?_, fun _ => ?_⟩
      · rw [setW_same]; exact dbFlushed_newDB.inv
      · rw [setW_same]; exact dbFlushed_newDB
    · obtain ⟨pt0, sch0, tbls0, h1, h2⟩ := h.dbs p hp'
      rw [setW_other w _ hne']
      exact ⟨pt0, sch0, tbls0, h1, h2⟩
  · intro m hm
    rw [getDB_setDB]
    split
    · rfl
    · exact h.cur m hm

/-- **CREATE DATABASE keeps the invariant**: refused (invalid or empty name, name taken) it changes
nothing; accepted it adds a closed database for the empty plain database under the canonical name. -/
theorem createDatabase_sessAbs {s : Sess} {w : String → Spec.SDB} (h : SessAbs s w) (name : Bytes) :
    ∃ w', SessAbs (exec s (.createDatabase name)).1 w' ∧ (exec s (.createDatabase name)).2 ≠ .panic ∧
      (∀ m, (getDB s m).isSome = true → w' m = w m) ∧
      ((exec s (.createDatabase name)).2 = .ok → w' = setW w (canon name) []) := by
  unfold exec
  by_cases hv' : validDbName name = false
  · simp only [hv', Bool.not_false, if_true]
    exact ⟨w, h, by simp, fun _ _ => rfl, fun hx => by cases hx⟩
  have hv : validDbName name = true := by simpa using hv'
  simp only [hv, Bool.not_true, Bool.false_eq_true, if_false]
  by_cases hne : name.isEmpty = true
  · simp only [hne, if_true]
    exact ⟨w, h, by simp, fun _ _ => rfl, fun hx => by cases hx⟩
  simp only [hne, Bool.false_eq_true, if_false]
  by_cases hex : (getDB s (canon name)).isSome = true
  · simp only [hex, if_true]
    exact ⟨w, h, by simp, fun _ _ => rfl, fun hx => by cases hx⟩
  simp only [hex, Bool.false_eq_true, if_false, createDB_eq]
  have hnone : getDB s (canon name) = none := by
    cases hg : getDB s (canon name) with
    | none => rfl
    | some x => rw [hg] at hex; exact absurd rfl hex
  refine ⟨setW w (canon name) [], h.addNew (canon name), by simp, ?_, fun _ => rfl⟩
  intro m hm
  apply setW_other
  intro heq
  rw [heq, hnone] at hm
  cases hm

/-! ### SELECT -/

/-- what the session's SELECT reads is the `fetchOf` of the TypedTables theorems -/
theorem fetchOfDB_eq (db : DB) : fetchOfDB db = fetchOf db := rfl

/-- a SELECT changes nothing, whatever it returns -/
theorem exec_select_fst (s : Sess) (q : Sql.Select) : (exec s (.select q)).1 = s := by
  simp only [exec]
  split
  · rfl
  · split
    · rfl
    · split <;> rfl

/-- the outcome of `exec s (.select q)` with the database `db` selected -/
theorem exec_select_cur {s : Sess} {n : String} {db : DB} (hc : s.cur = some n) (hg : getDB s n = some db)
    (q : Sql.Select) :
    exec s (.select q) = (s, match Exec.evaluateSelect (fetchOf db) q with
      | .ok _ => Out.ok
      | .err e => .err (stmtErr (.exec e))
      | .panic _ => .panic) := by
  simp only [exec, hc, hg, fetchOfDB_eq]
  cases Exec.evaluateSelect (fetchOf db) q <;> rfl

/-- **SELECT keeps the session as it is and does not return `Out.panic`**: with no database selected it
is refused; with a database selected the evaluation runs on a database that satisfies `DbInv`, where a
SELECT of a parser-produced shape over user tables never panics (`select_on_stored_never_panics`). -/
theorem select_sessAbs {s : Sess} {w : String → Spec.SDB} (h : SessAbs s w) (q : Sql.Select)
    (hside : StmtSide s (.select q)) :
    (exec s (.select q)).1 = s ∧ (exec s (.select q)).2 ≠ .panic := by
  cases hc : s.cur with
  | none => simp [exec, hc]
  | some n =>
    cases hg : getDB s n with
    | none =>
      have := h.cur n hc
      rw [hg] at this
      cases this
    | some db =>
      obtain ⟨pt, sch, tbls, hi, _⟩ := h.dbs (n, db) (getDB_mem hg)
      obtain ⟨_, _, _, hq, hn⟩ := hside n db hc hg _ pt sch tbls hi
      have hnp := (select_on_stored_never_panics hi.abs q hq hn).2.1
      rw [exec_select_cur hc hg]
      refine ⟨rfl, ?_⟩
      cases he : Exec.evaluateSelect (fetchOf db) q with
      | ok r => simp
      | err e => simp
      | panic x => exact absurd he (hnp x)

/-! ### every statement -/

/-- **`Session.exec` keeps the invariant, for every statement kind**, accepted or refused, with or
without a selected database; it never returns `Out.panic`; and the plain database of every database
other than the selected one is the same afterwards.  (The SELECT case now rests on `select_sessAbs`: the
evaluation of the query on the selected database does not panic.) -/
theorem exec_sessAbs {s : Sess} {w : String → Spec.SDB} (h : SessAbs s w) (st : Sql.Stmt) (hside : StmtSide s st) :
    ∃ w', SessAbs (exec s st).1 w' ∧ (exec s st).2 ≠ .panic ∧
      ∀ m, s.cur ≠ some m → (getDB s m).isSome = true → w' m = w m := by
  cases st with
  | createDatabase n =>
    obtain ⟨w', h1, h2, h3, _⟩ := createDatabase_sessAbs h n
    exact ⟨w', h1, h2, fun m _ hm => h3 m hm⟩
  | use n =>
    obtain ⟨h1, h2⟩ := use_sessAbs h n
    exact ⟨w, h1, h2, fun _ _ _ => rfl⟩
  | showDatabases => exact ⟨w, h, by simp [exec], fun _ _ _ => rfl⟩
  | select q =>
    obtain ⟨h1, h2⟩ := select_sessAbs h q hside
    exact ⟨w, by rw [h1]; exact h, h2, fun _ _ _ => rfl⟩
  | createTable n c =>
    rw [exec_routed s _ (.inl ⟨n, c, rfl⟩)]
    obtain ⟨w', h1, h2, h3⟩ := onCurrent_sessAbs h _ hside
    exact ⟨w', h1, h2, fun m hm _ => h3 m hm⟩
  | insert t c r =>
    rw [exec_routed s _ (.inr (.inl ⟨t, c, r, rfl⟩))]
    obtain ⟨w', h1, h2, h3⟩ := onCurrent_sessAbs h _ hside
    exact ⟨w', h1, h2, fun m hm _ => h3 m hm⟩
  | update t a c =>
    rw [exec_routed s _ (.inr (.inr (.inl ⟨t, a, c, rfl⟩)))]
    obtain ⟨w', h1, h2, h3⟩ := onCurrent_sessAbs h _ hside
    exact ⟨w', h1, h2, fun m hm _ => h3 m hm⟩
  | delete t c =>
    rw [exec_routed s _ (.inr (.inr (.inr ⟨t, c, rfl⟩)))]
    obtain ⟨w', h1, h2, h3⟩ := onCurrent_sessAbs h _ hside
    exact ⟨w', h1, h2, fun m hm _ => h3 m hm⟩

end Mkdb.Session
