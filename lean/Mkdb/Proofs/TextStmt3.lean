import Mkdb.Proofs.TextStmt2
import Mkdb.Proofs.RoundtripStmt8
/-!
# Statements as SQL text, part 3: the statement round trip through text

`renderStmt_tokOK`: all tokens of a rendered text-writable statement and its closing semicolons are covered.
`parseSQL_renderStmt`: writing the statement as text and parsing the text gives the statement back.
-/
namespace Mkdb.Sql
open Mkdb.Scan Mkdb.Generated

theorem allOK_closing (o : ROpts) (k : Nat) : AllOK (closing o k false) = true := by
  simp only [closing, Bool.false_eq_true, ↓reduceIte, List.append_nil, AllOK, List.all_eq_true, List.mem_replicate]
  intro t ht
  rw [ht.2]
  exact TokOK_K o _ (by decide)

/-- **Every token of a rendered text-writable statement is covered by the text level**: identifiers are
bare words, strings pass `strBodyOK`, integers are decimal digits, everything else is a token of the
keyword table (whose text `o.kw` is irrelevant: the text level writes the table's spelling in the case
chosen per occurrence). -/
theorem allOK_renderStmt (o : ROpts) (ho : o.lit = stdLitTok) (s : Stmt) (h : TextOK s) :
    AllOK (renderStmt o s) = true := by
  unfold TextOK at h
  cases s with
  | createDatabase n =>
    simp (disch := decide) only [renderStmt, AllOK, List.all_cons, List.all_nil, TokOK_K, Bool.true_and, Bool.and_true]
    exact h
  | createTable n cols =>
    simp only [stmtTextOK, Bool.and_eq_true] at h
    simp (disch := decide) only [renderStmt, AllOK, List.all_cons, List.all_append, List.all_nil, TokOK_K, Bool.true_and,
      Bool.and_true, Bool.and_eq_true]
    refine ⟨?_, ?_⟩
    · split
      · rfl
      · rename_i hn
        simp only [List.all_cons, List.all_nil, Bool.and_true]
        have := h.1
        simp only [optIdentOK, Bool.or_eq_true] at this
        rcases this with h1 | h1
        · exact absurd h1 hn
        · exact h1
    · refine allOK_tokSep _ _ (TokOK_K o _ (by decide)) cols 0 ?_
      intro j c hc
      simp only [tokColDef, AllOK, List.all_cons, Bool.and_eq_true]
      exact ⟨List.all_eq_true.mp h.2 c hc, allOK_tokColType o ho _⟩
  | select s =>
    simp (disch := decide) only [renderStmt, AllOK, List.all_cons, TokOK_K, Bool.true_and]
    exact allOK_tokSelect o ho s h
  | insert t cols rows =>
    simp only [stmtTextOK, Bool.and_eq_true] at h
    obtain ⟨⟨ht, hcols⟩, hrows⟩ := h
    simp (disch := decide) only [renderStmt, AllOK, List.all_cons, List.all_append, TokOK_K, Bool.true_and, Bool.and_eq_true]
    refine ⟨ht, ?_, ?_⟩
    · unfold tokInsCols
      split
      · split
        · simp (disch := decide) only [List.all_cons, List.all_nil, TokOK_K, Bool.and_self]
        · rfl
      · simp (disch := decide) only [List.all_cons, List.all_append, List.all_nil, TokOK_K, Bool.true_and, Bool.and_true]
        refine allOK_tokSep _ _ (TokOK_K o _ (by decide)) cols 0 ?_
        intro j c hc
        simp only [tokInsCol, AllOK, List.all_cons, List.all_nil, Bool.and_true]
        exact List.all_eq_true.mp hcols c hc
    · refine allOK_tokSep _ _ (TokOK_K o _ (by decide)) rows 0 ?_
      intro j r hr
      simp (disch := decide) only [tokRow, AllOK, List.all_cons, List.all_append, List.all_nil, TokOK_K, Bool.true_and,
        Bool.and_true]
      refine allOK_tokSep _ _ (TokOK_K o _ (by decide)) r 0 ?_
      intro j' l hl
      simp only [tokLitItem, ho, AllOK, List.all_cons, List.all_nil, Bool.and_true]
      exact allOK_lit l (List.all_eq_true.mp (List.all_eq_true.mp hrows r hr) l hl)
  | update t sets w =>
    simp only [stmtTextOK, Bool.and_eq_true] at h
    obtain ⟨⟨ht, hsets⟩, hw⟩ := h
    simp (disch := decide) only [renderStmt, AllOK, List.all_cons, List.all_append, TokOK_K, Bool.true_and, Bool.and_eq_true]
    refine ⟨ht, ?_, allOK_tokWhere o ho w hw⟩
    refine allOK_tokSep _ _ (TokOK_K o _ (by decide)) sets 0 ?_
    intro j a ha
    have := List.all_eq_true.mp hsets a ha
    simp only [Bool.and_eq_true] at this
    simp (disch := decide) only [tokSet, AllOK, List.all_cons, TokOK_K, Bool.true_and, Bool.and_eq_true]
    exact ⟨this.1, allOK_tokVE o ho _ this.2⟩
  | delete t w =>
    simp only [stmtTextOK, Bool.and_eq_true] at h
    simp (disch := decide) only [renderStmt, AllOK, List.all_cons, TokOK_K, Bool.true_and, Bool.and_eq_true]
    exact ⟨h.1, allOK_tokWhere o ho w h.2⟩
  | use db =>
    simp (disch := decide) only [renderStmt, AllOK, List.all_cons, List.all_nil, TokOK_K, Bool.true_and, Bool.and_true]
    exact h
  | showDatabases =>
    simp (disch := decide) only [renderStmt, AllOK, List.all_cons, TokOK_K, Bool.true_and]
    exact allOK_tokShow o

/-- the statement's tokens followed by `k` semicolons (no EOF token: the scanner makes none) -/
theorem renderStmt_tokOK (o : ROpts) (ho : o.lit = stdLitTok) (s : Stmt) (h : TextOK s) (k : Nat) :
    ∀ t ∈ renderStmt o s ++ closing o k false, TokOK t = true := by
  have : AllOK (renderStmt o s ++ closing o k false) = true := by
    simp only [AllOK, List.all_append, Bool.and_eq_true]
    exact ⟨allOK_renderStmt o ho s h, allOK_closing o k⟩
  exact List.all_eq_true.mp this

/-- **Text round trip of a statement**: scanner and parser composed with the token-level round trip. -/
theorem parseSQL_renderStmt (o : ROpts) (ho : o.lit = stdLitTok) (s : Stmt) (hw : WFStmt s) (ht : TextOK s)
    (k : Nat) (hc : closingOK s k false = true) (gap : Nat → Gap) (cs : Nat → List Bool)
    (hlay : layoutOK gap cs 0 (renderStmt o s ++ closing o k false) = true) :
    parseSQL (renderText gap cs (renderStmt o s ++ closing o k false)) = .ok s := by
  rw [parseSQL_renderText gap cs _ (renderStmt_tokOK o ho s ht k) hlay]
  exact parseTokens_render o stdLit (fun l hl => by rw [ho]; exact stdLitTok_good l hl) s hw k false hc

/-! ## Layout and keyword cases of the examples in `Props/C10Text.lean` -/

/-- nothing before the first token; CR LF and two blanks before every 7th token, a tab before every 5th,
one blank before the others (and at the end) -/
def c10TxGap (i : Nat) : Gap :=
  if i == 0 then [] else if i % 7 == 0 then [.ws 13, .ws 10, .ws 32, .ws 32] else if i % 5 == 0 then [.ws 9] else [.ws 32]

/-- keywords alternating lower/upper letter by letter, all lower case, or all upper case, by position -/
def c10TxCase (i : Nat) : List Bool :=
  if i % 3 == 0 then [true, false, true, false, true, false, true, false]
  else if i % 3 == 1 then [true, true, true, true, true, true, true, true] else []

theorem c10TxGap_ok (i : Nat) : Gap.ok (c10TxGap i) = true := by
  unfold c10TxGap
  split
  · rfl
  · split
    · rfl
    · split <;> rfl

theorem c10TxGap_ne (j : Nat) (h : 0 < j) : c10TxGap j ≠ [] := by
  unfold c10TxGap
  have : (j == 0) = false := by simp only [beq_eq_false_iff_ne]; omega
  simp only [this, Bool.false_eq_true, ↓reduceIte]
  split
  · simp
  · split <;> simp

/-- `SELECT COUNT(*),t.a FROM t WHERE a<=1 GROUP BY t.a;` -/
def c10TxTightStmt : Stmt := .select {
  list := [⟨.count none, []⟩, ⟨.expr (.val (.col ⟨[116], [97]⟩)), []⟩],
  from_ := some (.table ⟨[116], none⟩),
  where_ := some (.pred ⟨.col ⟨[], [97]⟩, t_LTE, .lit (.int 1)⟩),
  groupBy := [⟨[116], [97]⟩] }

/-- the layout of that text: one blank only where two words (or a number and a word) meet -/
def c10TxTight (i : Nat) : Gap := if [1, 9, 10, 11, 12, 15, 16, 17].contains i then [.ws 32] else []

end Mkdb.Sql
