import Mkdb.Proofs.ReplayCkpt3
import Mkdb.Proofs.CreateFlush
/-!
Crash after a checkpoint, part 4: which pages a run leaves clean, and descriptions after a flush.

* `insertAppend_pages_new`, `updLeaves_pages_new`: every page of the tree after a statement is a page
  of the tree before it, or is stamped with the statement's LSN *and dirty*.
* `OldOrDirty P`, **`live_run_pages`**: along a `LiveRunM`, every page of the catalog description is
  dirty or is a page of the description the run started with (any property `P` of those pages - here:
  "is on disk" - survives on the clean pages).
* `PageLsn.clean`, `AppliedC.clean`, `PtSelf.clean`, `FreshM.clean`, `clean_eq_self`: the catalog
  description after a flush (`clean`: all dirty bits cleared).
* `Cat.of_holds`: `Cat` for another store that shows the same pages of the catalog.
* `Cat.pt_unique`.
-/
set_option autoImplicit false
namespace Mkdb.Store
open Mkdb.Page Mkdb.Tuple Mkdb.Generated Mkdb.Tree Mkdb.Engine

/-! ### new pages are dirty -/

theorem bubble_pages_new (lsn : Nat) : ∀ (lvls : List (List (Internal × Bool))) (sep l nc nf : Nat),
    ∀ lvl' ∈ (bubble lsn lvls sep l nc nf).1, ∀ p ∈ lvl',
      (∃ lvl ∈ lvls, p ∈ lvl) ∨ (p.1.lsn = lsn ∧ p.2 = true)
  | [], sep, l, nc, nf => by
    rw [bubble_nil]
    intro lvl' h p hp
    simp only [List.mem_singleton] at h
    subst h
    simp only [List.mem_singleton] at hp
    subst hp
    exact .inr ⟨rfl, rfl⟩
  | lvl :: rest, sep, l, nc, nf => by
    rcases eq_nil_or_snoc lvl with rfl | ⟨pre, ⟨p0, d0⟩, rfl⟩
    · rw [bubble_cons_nil]
      intro lvl' h
      cases h
    · rw [bubble_cons_snoc]
      split
      · intro lvl' h p hp
        rcases List.mem_cons.mp h with rfl | h
        · rcases List.mem_append.mp hp with hp | hp
          · exact .inl ⟨_, List.mem_cons_self, List.mem_append_left _ hp⟩
          · simp only [List.mem_singleton] at hp
            subst hp
            exact .inr ⟨rfl, rfl⟩
        · exact .inl ⟨lvl', List.mem_cons_of_mem _ h, hp⟩
      · intro lvl' h p hp
        simp only at h
        rcases List.mem_cons.mp h with rfl | h
        · rcases List.mem_append.mp hp with hp | hp
          · exact .inl ⟨_, List.mem_cons_self, List.mem_append_left _ hp⟩
          · simp only [List.mem_cons, List.not_mem_nil, or_false] at hp
            rcases hp with rfl | rfl
            · exact .inr ⟨rfl, rfl⟩
            · exact .inr ⟨rfl, rfl⟩
        · rcases bubble_pages_new lsn rest _ _ _ _ lvl' h p hp with ⟨lv, hlv, hp'⟩ | h2
          · exact .inl ⟨lv, List.mem_cons_of_mem _ hlv, hp'⟩
          · exact .inr h2

/-- **Every page of the tree after an insert** is a page of the tree before it, or carries the
insert's LSN and is dirty. -/
theorem insertAppend_pages_new (t t' : Levels) (k lsn nf nf' : Nat) (v : Bytes)
    (h : insertAppend t k lsn v nf = .ok (t', nf')) :
    ∀ x ∈ flatten t', x ∈ flatten t ∨ (nodeLSN x.2.1 = lsn ∧ x.2.2 = true) := by
  obtain ⟨pre, last, d, hpre, _, _, hcase⟩ := insertAppend_inv_cases h
  have hold : ∀ q ∈ pre, (q.1.off, Node.leaf q.1, q.2) ∈ flatten t := fun q hq =>
    mem_flatten.mpr (.inl ⟨q, by rw [hpre]; exact List.mem_append_left _ hq, rfl⟩)
  intro x hx
  rcases hcase with ⟨_, rfl, _⟩ | ⟨_, rfl, _⟩
  · rcases mem_flatten.mp hx with ⟨q, hq, rfl⟩ | ⟨lvl, hl, q, hq, rfl⟩
    · rcases List.mem_append.mp hq with hq | hq
      · exact .inl (hold q hq)
      · simp only [List.mem_singleton] at hq
        subst hq
        exact .inr ⟨rfl, rfl⟩
    · exact .inl (mem_flatten.mpr (.inr ⟨lvl, hl, q, hq, rfl⟩))
  · rcases mem_flatten.mp hx with ⟨q, hq, rfl⟩ | ⟨lvl', hl', q, hq, rfl⟩
    · rcases List.mem_append.mp hq with hq | hq
      · exact .inl (hold q hq)
      · simp only [List.mem_cons, List.not_mem_nil, or_false] at hq
        rcases hq with rfl | rfl
        · exact .inr ⟨rfl, rfl⟩
        · exact .inr ⟨rfl, rfl⟩
    · rcases bubble_pages_new lsn t.inner _ _ _ _ lvl' hl' q hq with ⟨lv, hlv, hp'⟩ | h2
      · exact .inl (mem_flatten.mpr (.inr ⟨lv, hlv, q, hp', rfl⟩))
      · exact .inr h2

/-- the same about a cell change -/
theorem updLeaves_pages_new (f : LeafCell → LeafCell) (key lsn : Nat) (t : Levels) :
    ∀ x ∈ flatten (updLeaves f key lsn t), x ∈ flatten t ∨ (nodeLSN x.2.1 = lsn ∧ x.2.2 = true) := by
  intro x hx
  rcases mem_flatten.mp hx with ⟨q, hq, rfl⟩ | ⟨lvl, hl, q, hq, rfl⟩
  · obtain ⟨q0, hq0, rfl⟩ := List.mem_map.mp hq
    unfold updLeaf
    split
    · exact .inr ⟨rfl, rfl⟩
    · exact .inl (mem_flatten.mpr (.inl ⟨q0, hq0, rfl⟩))
  · exact .inl (mem_flatten.mpr (.inr ⟨lvl, hl, q, hq, rfl⟩))

/-! ### the clean pages of a run are pages it started with -/

/-- every page of the catalog description is dirty or has the property `P` -/
def OldOrDirty (P : Nat × Node × Bool → Prop) (pt sch : Levels) (tbls : List (Bytes × Levels)) : Prop :=
  ∀ x ∈ catTrees pt sch tbls, ∀ e ∈ flatten x, e.2.2 = true ∨ P e

theorem OldOrDirty.step_table {P : Nat × Node × Bool → Prop} {pt sch : Levels} {tbls : List (Bytes × Levels)}
    (h : OldOrDirty P pt sch tbls) {table : Bytes} {t t2 : Levels} (ht : (table, t) ∈ tbls)
    (hk : ∀ x ∈ flatten t2, x ∈ flatten t ∨ x.2.2 = true) : OldOrDirty P pt sch (setTable tbls table t2) := by
  intro x hx e he
  rcases mem_catTrees.mp hx with rfl | rfl | ⟨e0, he0, rfl⟩
  · exact h x Cat.pt_mem e he
  · exact h x Cat.sch_mem e he
  · rcases mem_setTable he0 with ⟨rfl, _⟩ | ⟨he0, _⟩
    · rcases hk e he with h1 | h1
      · exact h t (Cat.tb_mem ht) e h1
      · exact .inl h1
    · exact h e0.2 (Cat.tb_mem he0) e he

theorem OldOrDirty.step_pt {P : Nat × Node × Bool → Prop} {pt sch : Levels} {tbls : List (Bytes × Levels)}
    (h : OldOrDirty P pt sch tbls) {pt2 : Levels}
    (hk : ∀ x ∈ flatten pt2, x ∈ flatten pt ∨ x.2.2 = true) : OldOrDirty P pt2 sch tbls := by
  intro x hx e he
  rcases mem_catTrees.mp hx with rfl | rfl | ⟨e0, he0, rfl⟩
  · rcases hk e he with h1 | h1
    · exact h pt Cat.pt_mem e h1
    · exact .inl h1
  · exact h x Cat.sch_mem e he
  · exact h e0.2 (Cat.tb_mem he0) e he

/-- **The clean pages at the end of a live run are pages the run started with**: whatever property
`P` the clean pages of the first catalog description have (e.g. "this page object is in the data
file"), the clean pages of the last one have - every page a statement writes is marked dirty. -/
theorem live_run_pages (P : Nat × Node × Bool → Prop) (sch : Levels) {s0 sN : Store}
    {tbls tblsN : List (Bytes × Levels)} {stmts : List RStmt} {logs : List WalRec}
    (run : LiveRunM sch s0 tbls stmts sN tblsN logs) :
    ∀ (pt : Levels), Cat s0 pt sch tbls → OldOrDirty P pt sch tbls →
      ∃ ptN, Cat sN ptN sch tblsN ∧ OldOrDirty P ptN sch tblsN := by
  induction run with
  | nil s tbls => intro pt h ho; exact ⟨pt, h, ho⟩
  | @same s s1 s2 tbls tbls2 stmts logs hs _ ih => intro pt h ho; exact ih pt (h.of_same hs) ho
  | @ins s s1 s2 tbls tbls2 rest logs logs2 table cols vals t schema buf t' nf' ht hsch hcols hnames henc hlen hins
      hd' hl' hbig hrun _ ih =>
    intro pt h ho
    obtain ⟨s', ptF, logs', erun, hc', _, _, hcase⟩ := insert_refines' s pt sch tbls h table t ht cols vals
      schema buf hsch hcols hnames henc hlen t' nf' hins hd' hl' hbig
    rw [hrun] at erun
    simp only [SRes.ok.injEq] at erun
    obtain ⟨_, rfl⟩ := erun
    have h1 : OldOrDirty P pt sch (setTable tbls table t') :=
      ho.step_table ht (fun x hx => by
        rcases insertAppend_pages_new t t' _ _ _ nf' buf hins x hx with h | h
        · exact .inl h
        · exact .inr h.2)
    refine ih ptF hc' ?_
    rcases hcase with ⟨_, rfl, _⟩ | ⟨_, _, a, p, _, _, _, _, rfl, _⟩
    · exact h1
    · rw [setVal_eq]
      exact h1.step_pt (fun x hx => by
        rcases updLeaves_pages_new _ _ _ pt x hx with h | h
        · exact .inl h
        · exact .inr h.2)
  | @upd s s1 s2 tbls tbls2 rest logs logs2 table rowId cols src t schema c m buf ht hsch hc hk hdec henc hlen
      hrun _ ih =>
    intro pt h ho
    obtain ⟨s', l, d, _, _, erun, hc', _⟩ := update_cat h table t ht schema hsch rowId cols src
      (update_ok_names h ht hsch hrun) c hc hk
      m buf hdec henc hlen
    rw [hrun] at erun
    simp only [SRes.ok.injEq] at erun
    obtain ⟨_, rfl⟩ := erun
    refine ih pt hc' ?_
    rw [setVal_eq]
    exact ho.step_table ht (fun x hx => by
      rcases updLeaves_pages_new _ _ _ t x hx with h | h
      · exact .inl h
      · exact .inr h.2)
  | @updAbsent s s1 s2 tbls tbls2 rest logs logs2 table rowId cols src t schema ht hsch habs hrun _ ih =>
    intro pt h ho
    obtain ⟨s', erun, hs, hc'⟩ := update_cat_absent h table t ht schema hsch rowId cols src
      (update_ok_names h ht hsch hrun) habs
    rw [hrun] at erun
    simp only [SRes.ok.injEq] at erun
    obtain ⟨_, rfl⟩ := erun
    exact ih pt hc' ho
  | @del s s1 s2 tbls tbls2 rest logs logs2 table rowId t c ht hc hk hrun _ ih =>
    intro pt h ho
    obtain ⟨s', l, d, _, _, erun, hc', _⟩ := markDeleted_cat h table t ht rowId c hc hk
    rw [hrun] at erun
    simp only [SRes.ok.injEq] at erun
    obtain ⟨_, rfl⟩ := erun
    refine ih pt hc' ?_
    rw [setDeleted_eq]
    exact ho.step_table ht (fun x hx => by
      rcases updLeaves_pages_new _ _ _ t x hx with h | h
      · exact .inl h
      · exact .inr h.2)

/-! ### the catalog description after a flush -/

/-- the table list with all dirty bits cleared -/
def cleanT (tbls : List (Bytes × Levels)) : List (Bytes × Levels) := tbls.map fun e => (e.1, clean e.2)

theorem mem_flatten_clean {t : Levels} {e : Nat × Node × Bool} :
    e ∈ flatten (clean t) ↔ ∃ e0 ∈ flatten t, e = (e0.1, e0.2.1, false) := by
  rw [flatten_clean, List.mem_map]
  constructor
  · rintro ⟨e0, h, rfl⟩; exact ⟨e0, h, rfl⟩
  · rintro ⟨e0, h, rfl⟩; exact ⟨e0, h, rfl⟩

theorem PageLsn.clean {x : Levels} {page lsn : Nat} (h : PageLsn x page lsn) : PageLsn (clean x) page lsn := by
  obtain ⟨e, he, hp, hl⟩ := h
  exact ⟨_, mem_flatten_clean.mpr ⟨e, he, rfl⟩, hp, hl⟩

theorem AppliedC.clean {pt sch : Levels} {tbls : List (Bytes × Levels)} {r : WalRec}
    (ha : AppliedC pt sch tbls r) : AppliedC (clean pt) (clean sch) (cleanT tbls) r := by
  rcases ha with ⟨x, hx, hpl⟩ | ⟨hop, tb, tr, hm, hpg, hkey⟩
  · left
    refine ⟨Mkdb.Store.clean x, ?_, hpl.clean⟩
    unfold cleanT
    rw [catTrees_clean]
    exact List.mem_map.mpr ⟨x, hx, rfl⟩
  · right
    refine ⟨hop, tb, Mkdb.Store.clean tr, List.mem_map.mpr ⟨(tb, tr), hm, rfl⟩, ?_, ?_⟩
    · rw [rootOff_clean]; exact hpg
    · rw [keys_clean]; exact hkey

theorem PtSelf.clean {pt : Levels} (h : PtSelf pt) : PtSelf (clean pt) := by
  intro off hm
  rw [ptEntries_clean] at hm
  rw [offs_clean]
  exact h off hm

theorem FreshM.clean {s s' : Store} {tbls : List (Bytes × Levels)} (hf : FreshM s tbls)
    (h1 : s.hdr.nextLSN ≤ s'.hdr.nextLSN) (h2 : s.hdr.nextFree ≤ s'.hdr.nextFree) : FreshM s' (cleanT tbls) := by
  refine ⟨?_, Nat.lt_of_lt_of_le hf.nf h2, ?_⟩
  · intro e he x hx
    obtain ⟨e0, he0, rfl⟩ := List.mem_map.mp he
    obtain ⟨x0, hx0, rfl⟩ := mem_flatten_clean.mp hx
    exact Nat.lt_of_lt_of_le (hf.lsn e0 he0 x0 hx0) h1
  · intro e he o ho
    obtain ⟨e0, he0, rfl⟩ := List.mem_map.mp he
    simp only [offs_clean] at ho
    exact hf.pos e0 he0 o ho

/-- a tree none of whose pages is dirty is its own `clean` -/
theorem clean_eq_self {t : Levels} (h : ∀ e ∈ flatten t, e.2.2 = false) : Mkdb.Store.clean t = t := by
  obtain ⟨leaves, inner⟩ := t
  unfold Mkdb.Store.clean
  simp only [Levels.mk.injEq]
  constructor
  · conv => rhs; rw [← List.map_id leaves]
    apply List.map_congr_left
    intro p hp
    have := h _ (mem_flatten.mpr (.inl ⟨p, hp, rfl⟩))
    simp only at this
    rw [← this]
    rfl
  · conv => rhs; rw [← List.map_id inner]
    apply List.map_congr_left
    intro lvl hl
    conv => rhs; rw [id, ← List.map_id lvl]
    apply List.map_congr_left
    intro p hp
    have := h _ (mem_flatten.mpr (.inr ⟨lvl, hl, p, hp, rfl⟩))
    simp only at this
    rw [← this]
    rfl

/-! ### `Cat` on another store -/

/-- a store that shows the pages of the catalog and has the same header satisfies the same `Cat` -/
theorem Cat.of_holds {s s' : Store} {pt sch : Levels} {tbls : List (Bytes × Levels)} (h : Cat s pt sch tbls)
    (hH : ∀ x ∈ catTrees pt sch tbls, Holds s' x) (hh : s'.hdr = s.hdr) : Cat s' pt sch tbls where
  tree := fun x hx => by
    obtain ⟨_, b, c, d, e⟩ := h.tree x hx
    rw [hh]
    exact ⟨hH x hx, b, c, d, e⟩
  disj := h.disj
  root := by rw [hh]; exact h.root
  dec := h.dec
  names := h.names
  esch := h.esch
  etb := h.etb
  only := h.only
  tnames := h.tnames
  tsys := h.tsys
  tlen := h.tlen

/-- the page table a store holds is determined by the store -/
theorem Cat.pt_unique {s : Store} {pt pt2 sch sch2 : Levels} {tbls tbls2 : List (Bytes × Levels)}
    (h : Cat s pt sch tbls) (h2 : Cat s pt2 sch2 tbls2) : pt = pt2 := by
  obtain ⟨a, b, c, _, _⟩ := h.tree pt Cat.pt_mem
  obtain ⟨a2, b2, c2, _, _⟩ := h2.tree pt2 Cat.pt_mem
  exact holds_unique a b c a2 b2 c2 (by rw [h.root, h2.root])

end Mkdb.Store
