import Mkdb.Proofs.SpecRefineB1
/-!
End-to-end refinement, part B2: totality of the DML evaluators on the model ("no statement can crash
the engine"): under the abstraction relation the result of `evalInsert`, `evalDelete`, `evalUpdate` is
`.ok _ _` or `.err _ _` - never `.panic`, `.unmodelled` or `.fuel`.

* `evalInsert_go_total`, `evalInsert_total`: every row is accepted (`insert_step`) or refused
  (`insert_refused_abs`); room conditions `InsRunOK` (fuel of the descents / scans, `int64` frontier).
* `evalDelete_total`: no room condition at all.
* `evalUpdate_go_total`, `evalUpdate_total`: no room condition, no condition on the values.
In the `.err` case the log is the old one.
-/
set_option autoImplicit false
namespace Mkdb.Store
open Mkdb.Page Mkdb.Tuple Mkdb.Generated Mkdb.Tree

/-- a result that is not a crash: `.ok`, or `.err` with the log untouched -/
def Total {α} (db : Engine.DB) (r : Engine.Res α) : Prop :=
  (∃ a db', r = .ok a db') ∨ (∃ e db', r = .err e db' ∧ db'.wal = db.wal)

theorem Total.not_crash {α} {db : Engine.DB} {r : Engine.Res α} (h : Total db r) :
    (∀ p, r ≠ .panic p) ∧ (∀ w, r ≠ .unmodelled w) ∧ r ≠ .fuel := by
  rcases h with ⟨a, db', rfl⟩ | ⟨e, db', rfl, _⟩
  · exact ⟨(fun _ h => by cases h), (fun _ h => by cases h), (fun h => by cases h)⟩
  · exact ⟨(fun _ h => by cases h), (fun _ h => by cases h), (fun h => by cases h)⟩

/-! ### INSERT -/

/-- the loop of `evalInsert` never crashes -/
theorem evalInsert_go_total (db : Engine.DB) (table : Bytes) (cols : List Bytes) (sch : Levels)
    (schema : List FieldDef) (hsch : schemaOf sch table = some schema) :
    ∀ (rows : List (List Val)) (s : Store) (pt : Levels) (tbls : List (Bytes × Levels)) (t : Levels)
      (sdb : Spec.SDB) (batch : List WalRec) (n : Nat),
      Abs s pt sch tbls sdb → (table, t) ∈ tbls → (∀ r ∈ rows, ∀ v ∈ r, ValidVal v) →
      InsRunOK schema (cols.map Engine.bytesToName) t s.hdr.lastKey s.hdr.nextLSN s.hdr.nextFree rows →
      Total db (Engine.evalInsert.go db table cols s batch n rows)
  | [], s, pt, tbls, t, sdb, batch, n, _, _, _, _ => .inl ⟨n, _, rfl⟩
  | r :: rest, s, pt, tbls, t, sdb, batch, n, h, ht, hvalid, hrun => by
    cases hrow : Spec.rowOf (absTable table schema t) cols r with
    | none =>
      obtain ⟨e, s', he, _⟩ := insert_refused_abs h table t ht schema hsch cols r hrow
      exact .inr ⟨.store e, { db with store := s' }, evalInsert_go_err db table cols r rest s s' batch n e he, rfl⟩
    | some vs =>
      cases hcc : checkColumns schema (colsOf schema (cols.map Engine.bytesToName)) with
      | some ec =>
        -- the column list names an unknown column, or one column twice
        have hlen := ((specRowOf_some_iff _ cols r vs).mp hrow).1
        obtain ⟨s', he, _⟩ := insert_names_refused_cat h.cat table t ht schema hsch _ r ec hlen hcc
        exact .inr ⟨.store ec, { db with store := s' }, evalInsert_go_err db table cols r rest s s' batch n ec he,
          rfl⟩
      | none =>
      obtain ⟨s1, ptF1, logs1, buf, t1, nf1, e1, henc, hins, habs1, hlk1, hnf1, hlsn1⟩ :=
        insert_step h table t ht schema hsch cols r vs (hvalid r List.mem_cons_self) hrow hcc
          (fun buf t' nf' he hi => by
            obtain ⟨a, b, c, _⟩ := hrun buf t' nf' he hi
            exact ⟨a, b, c⟩)
      obtain ⟨_, _, _, hrun1⟩ := hrun buf t1 nf1 henc hins
      rw [← hlk1, ← hnf1, ← hlsn1] at hrun1
      have ih := evalInsert_go_total db table cols sch schema hsch rest s1 ptF1 (setTable tbls table t1) t1 _
        (batch ++ logs1) (n + 1) habs1 (mem_setTable_self t1 ht)
        (fun r' hr' => hvalid r' (List.mem_cons_of_mem _ hr')) hrun1
      simp only [Engine.evalInsert.go, e1]
      exact ih

/-- **INSERT is total.**  Under the abstraction relation, with values a Go program can hold and the
room conditions `InsRunOK` for the table (if the catalog has it; an unknown name must not be one of the
two catalog tables), `evalInsert` returns `.ok` or `.err`. -/
theorem evalInsert_total (db : Engine.DB) (pt sch : Levels) (tbls : List (Bytes × Levels))
    (sdb : Spec.SDB) (h : AbsV db.store pt sch tbls sdb) (table : Bytes) (cols : List Bytes)
    (rows : List (List Val)) (hvalid : ∀ r ∈ rows, ∀ v ∈ r, ValidVal v)
    (hsys : table ∉ tbls.map (·.1) → table ≠ sysPages ∧ table ≠ sysSchema)
    (hrun : ∀ t schema, (table, t) ∈ tbls → schemaOf sch table = some schema →
      InsRunOK schema (cols.map Engine.bytesToName) t db.store.hdr.lastKey db.store.hdr.nextLSN
        db.store.hdr.nextFree rows) :
    Total db (Engine.evalInsert db table cols rows) := by
  obtain ⟨sdb0, habs, _⟩ := h
  by_cases hn : table ∈ tbls.map (·.1)
  · obtain ⟨e, he, hen⟩ := List.mem_map.mp hn
    have ht : (table, e.2) ∈ tbls := by rw [← hen]; exact he
    obtain ⟨schema, hsch, _, _⟩ := habs.tabs.find habs.cat.tnames ht
    exact evalInsert_go_total db table cols sch schema hsch rows db.store pt tbls e.2 sdb0 [] 0 habs ht hvalid
      (hrun e.2 schema ht hsch)
  · obtain ⟨h1, h2⟩ := hsys hn
    cases rows with
    | nil => exact .inl ⟨0, _, rfl⟩
    | cons r rest =>
      obtain ⟨s', e, _, _⟩ := insert_unknown_table db.store pt sch tbls habs.cat table (cols.map Engine.bytesToName) r
        h1 h2 hn
      exact .inr ⟨.store .tableNotExist, { db with store := s' },
        evalInsert_go_err db table cols r rest db.store s' [] 0 _ e, rfl⟩

/-! ### DELETE -/

/-- **DELETE is total**: no room condition. -/
theorem evalDelete_total (db : Engine.DB) (pt sch : Levels) (tbls : List (Bytes × Levels))
    (sdb : Spec.SDB) (h : AbsV db.store pt sch tbls sdb) (table : Bytes) (w : Option Sql.Cond)
    (hsys : Spec.findTable sdb table = none → table ≠ sysPages ∧ table ≠ sysSchema) :
    Total db (Engine.evalDelete db table w) := by
  cases hspec : Spec.specDelete sdb table w with
  | some sdb' =>
    obtain ⟨n, db', _, _, e, _⟩ := evalDelete_refines_specV db pt sch tbls sdb sdb' h table w hspec
    exact .inl ⟨n, db', e⟩
  | none =>
    obtain ⟨e, db', he, _, _, _, hw, _⟩ := evalDelete_refused_specV db pt sch tbls sdb h table w hsys hspec
    exact .inr ⟨e, db', he, hw⟩

/-! ### UPDATE -/

/-- the loop of `evalUpdate` over distinct row ids of live cells that decode never crashes -/
theorem evalUpdate_go_total (db : Engine.DB) (table : Bytes) (pt sch : Levels) (schema : List FieldDef)
    (hsch : schemaOf sch table = some schema) (sets : List (Bytes × Sql.VExpr))
    (hnames : checkColumns schema (sets.map fun p => Engine.bytesToName p.1) = none) :
    ∀ (ids : List (Nat × List Val)) (s : Store) (tbls : List (Bytes × Levels)) (t : Levels)
      (batch : List WalRec),
      Cat s pt sch tbls → (table, t) ∈ tbls → (ids.map (·.1)).Nodup →
      (∀ r ∈ ids, ∃ c ∈ live t, c.key = r.1 ∧ ∃ m, decodeTuple schema c.val [] = .ok m) →
      Total db (Engine.evalUpdate.go db table (sets.map fun p => Engine.bytesToName p.1)
        (sets.map fun p => match p.2 with | .lit l => Engine.litToVal l | .col _ => Val.null) s batch ids)
  | [], s, tbls, t, batch, _, _, _, _ => .inl ⟨(), _, rfl⟩
  | r :: rest, s, tbls, t, batch, h, ht, hnd, hlive => by
    simp only [List.map_cons, List.nodup_cons] at hnd
    obtain ⟨c, hc, hck, m, hdec⟩ := hlive r List.mem_cons_self
    cases hsa : specAssign schema sets (schema.map fun fd => get m fd.name) with
    | none =>
      obtain ⟨e, s', he, _⟩ := update_refused_cat h table t ht schema hsch sets hnames c hc m hdec hsa
      rw [hck] at he
      exact .inr ⟨.store e, { db with store := s' }, evalUpdate_go_first_err db table _ _ r rest s s' batch e he, rfl⟩
    | some v =>
      obtain ⟨buf, henc, hsz, _⟩ := (specAssign_some_iff schema sets m v).mp hsa
      have henc' : encodeTuple schema (((sets.map fun p => Engine.bytesToName p.1).zip
          (sets.map fun p => match p.2 with | .lit l => Engine.litToVal l | .col _ => Val.null)).reverse ++ m) =
          .ok buf := henc
      obtain ⟨s1, l, d, _, _, e1, hc1, _⟩ := update_cat h table t ht schema hsch r.1
        (sets.map fun p => Engine.bytesToName p.1)
        (sets.map fun p => match p.2 with | .lit l => Engine.litToVal l | .col _ => Val.null)
        hnames c hc hck m buf hdec henc' hsz
      have hlive1 : live (setVal t r.1 s.hdr.nextLSN buf) =
          (live t).map (fun c => if c.key == r.1 then { c with val := buf } else c) :=
        update_live t r.1 s.hdr.nextLSN buf
      have ih := evalUpdate_go_total db table pt sch schema hsch sets hnames rest s1
        (setTable tbls table (setVal t r.1 s.hdr.nextLSN buf)) (setVal t r.1 s.hdr.nextLSN buf)
        (batch ++ [⟨c_OpUpdate, s.hdr.nextLSN, l.off, r.1, buf⟩]) hc1 (mem_setTable_self _ ht) hnd.2
        (fun r' hr' => by
          obtain ⟨c', hc', hck', hrest⟩ := hlive r' (List.mem_cons_of_mem _ hr')
          refine ⟨c', ?_, hck', hrest⟩
          rw [hlive1]
          have hne : c'.key ≠ r.1 := by
            intro heq
            apply hnd.1
            rw [← heq, hck']
            exact List.mem_map.mpr ⟨r', hr', rfl⟩
          exact List.mem_map.mpr ⟨c', hc', by simp [hne]⟩)
      simp only [Engine.evalUpdate.go, e1]
      exact ih

/-- **UPDATE is total**: no room condition, no condition on the SET values. -/
theorem evalUpdate_total (db : Engine.DB) (pt sch : Levels) (tbls : List (Bytes × Levels))
    (sdb : Spec.SDB) (h : AbsV db.store pt sch tbls sdb) (table : Bytes)
    (sets : List (Bytes × Sql.VExpr)) (w : Option Sql.Cond)
    (hsys : table ∉ tbls.map (·.1) → table ≠ sysPages ∧ table ≠ sysSchema) :
    Total db (Engine.evalUpdate db table sets w) := by
  obtain ⟨sdb0, habs, _⟩ := h
  by_cases hcol : ∃ p ∈ sets, ∃ c, p.2 = .col c
  · exact .inr ⟨.unsupported, db, evalUpdate_col db table sets w hcol, rfl⟩
  · have hnocol : ∀ p ∈ sets, ∀ c, p.2 ≠ .col c := fun p hp c hpc => hcol ⟨p, hp, c, hpc⟩
    rw [evalUpdate_nocol db table sets w hnocol]
    by_cases hn : table ∈ tbls.map (·.1)
    · obtain ⟨e, he, hen⟩ := List.mem_map.mp hn
      have ht : (table, e.2) ∈ tbls := by rw [← hen]; exact he
      obtain ⟨schema, hsch, hdec, hfind⟩ := habs.tabs.find habs.cat.tnames ht
      obtain ⟨s1, efetch, hs1, hc1⟩ := fetchTable_cat habs.cat table e.2 ht schema hsch hdec
      simp only [Engine.fetchForExec, Engine.liftS, efetch]
      cases hset : Engine.checkSetColumns (schema.map fun fd => (⟨[], fd.name.toUTF8.toList⟩ : Exec.Field)) []
          (sets.map (·.1)) with
      | some ec => exact .inr ⟨.store ec, _, rfl, rfl⟩
      | none =>
      have hcc : checkColumns schema (sets.map fun p => Engine.bytesToName p.1) = none := by
        have := checkSetColumns_none_checkColumns schema _ hset
        rwa [List.map_map] at this
      simp only
      cases hsel : Spec.selects (absTable table schema e.2) w with
      | none =>
        obtain ⟨x, efilter⟩ := filterIds_fail table schema (rowsOf schema (live e.2)) (fun r hr => rowsOf_len hr) w hsel
        simp only [efilter]
        exact .inr ⟨.exec x, _, rfl, rfl⟩
      | some sel =>
        obtain ⟨efilter, _⟩ := filterIds_selects table schema (rowsOf schema (live e.2)) w sel hsel
        simp only [efilter]
        obtain ⟨_, hIt, _, _, _⟩ := habs.cat.tree e.2 (Cat.tb_mem he)
        have hnd : ((rowsOf schema (live e.2)).map (·.1)).Nodup := by
          rw [rowsOf_keys schema (live e.2) hdec]
          exact live_keys_nodup hIt.asc
        exact evalUpdate_go_total db table pt sch schema hsch sets hcc _ s1 tbls e.2 [] hc1 ht
          (hnd.sublist ((selRows_sublist _ sel).map _))
          (fun r hr => by
            obtain ⟨c, hc, hck, m, hm, _⟩ := mem_rowsOf_cell ((selRows_sublist _ sel).subset hr)
            exact ⟨c, hc, hck, m, hm⟩)
    · obtain ⟨h1, h2⟩ := hsys hn
      obtain ⟨s', e, _, _⟩ := fetchTable_unknown_table habs.cat table h1 h2 hn
      simp only [Engine.fetchForExec, Engine.liftS, e]
      exact .inr ⟨.store .tableNotExist, _, rfl, rfl⟩

end Mkdb.Store
