import Mkdb.Proofs.TypedStmt2
/-!
# From keystrokes to the parsed statement, part 3: a rendered statement has no `;` token

`noSemi_renderStmt`: no token of `renderStmt o s` has the type SEMICOLON, for a well-formed statement
`s` (`WFStmt`: the operator of a comparison is one of the six comparison operators - a `Pred` value
could carry any token type as its operator) written with the standard literal tokens.  So the only
`;` outside quotes in the text of `s` closed by one semicolon is its last character.
-/
namespace Mkdb.Sql
open Mkdb.Scan Mkdb.Generated

/-- the token is no `;` -/
def notSemi (t : Token) : Bool := t.ty != t_SEMICOLON

/-- no token of the list is a `;` -/
abbrev NoSemi (ts : List Token) : Bool := ts.all notSemi

theorem ns_K (o : ROpts) (x : Int) (h : (x != t_SEMICOLON) = true) : notSemi (K o x) = true := h

theorem ns_I (b : Bytes) : notSemi (I b) = true := by
  show (t_IDENT != t_SEMICOLON) = true
  decide

theorem ns_lit (l : Lit) : notSemi (stdLitTok l) = true := by
  cases l with
  | int i => show (t_INT != t_SEMICOLON) = true; decide
  | str b => show (t_STR != t_SEMICOLON) = true; decide
  | bool b => cases b <;> decide

theorem ns_tokSep {α} (tk : Nat → α → List Token) (comma : Token) (hc : notSemi comma = true)
    (xs : List α) : ∀ i, (∀ j x, x ∈ xs → NoSemi (tk j x) = true) → NoSemi (tokSep tk comma i xs) = true := by
  induction xs with
  | nil => intro i _; rfl
  | cons x r ih =>
    intro i h
    cases r with
    | nil => exact h i x (List.mem_cons_self ..)
    | cons y r' =>
      simp only [tokSep, NoSemi, List.all_append, List.all_cons, hc, Bool.true_and, Bool.and_eq_true]
      exact ⟨h i x (List.mem_cons_self ..), ih (i + 1) (fun j z hz => h j z (List.mem_cons_of_mem _ hz))⟩

variable (o : ROpts) (ho : o.lit = stdLitTok) (ok : Lit → Bool)

theorem ns_tokCol (c : ColRef) : NoSemi (tokCol o c) = true := by
  unfold tokCol
  split <;> simp (disch := decide) only [NoSemi, List.all_cons, List.all_nil, ns_K, ns_I, Bool.and_self]

include ho in
theorem ns_tokVE (v : VExpr) : NoSemi (tokVE o v) = true := by
  cases v with
  | lit l => simp only [tokVE, ho, NoSemi, List.all_cons, List.all_nil, Bool.and_true]; exact ns_lit l
  | col c => exact ns_tokCol o c

theorem compOps_ne : ∀ x ∈ compOps, (x != t_SEMICOLON) = true := by decide

include ho in
theorem ns_tokPr (p : Pred) (h : wfPred ok p = true) : NoSemi (tokPr o p) = true := by
  simp only [wfPred, Bool.and_eq_true, List.contains_iff_mem] at h
  simp only [tokPr, NoSemi, List.all_append, List.all_cons, Bool.and_eq_true]
  exact ⟨ns_tokVE o ho _, ns_K o _ (compOps_ne _ h.1.1), ns_tokVE o ho _⟩

include ho in
theorem ns_tokAnd (c : Cond) (h : wfAnd ok c = true) : NoSemi (tokCond o c) = true := by
  induction c with
  | val v => exact ns_tokVE o ho v
  | pred p => exact ns_tokPr o ho ok p h
  | and p r ih =>
    simp only [wfAnd, Bool.and_eq_true] at h
    simp (disch := decide) only [tokCond, NoSemi, List.all_append, List.all_cons, ns_K, Bool.true_and, Bool.and_eq_true]
    exact ⟨ns_tokPr o ho ok p h.1, ih h.2⟩
  | or l r _ _ => simp [wfAnd] at h

include ho in
theorem ns_tokCond (c : Cond) (h : wfCond ok c = true) : NoSemi (tokCond o c) = true := by
  induction c with
  | val v => exact ns_tokVE o ho v
  | pred p => exact ns_tokPr o ho ok p h
  | and p r _ => exact ns_tokAnd o ho ok (.and p r) h
  | or l r _ ihr =>
    simp only [wfCond, Bool.and_eq_true] at h
    simp (disch := decide) only [tokCond, NoSemi, List.all_append, List.all_cons, ns_K, Bool.true_and, Bool.and_eq_true]
    exact ⟨ns_tokAnd o ho ok l h.1, ihr h.2⟩

include ho in
theorem ns_tokItem (it : SelItem) (h : wfItem ok it = true) : NoSemi (tokItem o it) = true := by
  cases it with
  | star => simp (disch := decide) only [tokItem, NoSemi, List.all_cons, List.all_nil, ns_K, Bool.and_self]
  | count c =>
    cases c with
    | none => simp (disch := decide) only [tokItem, NoSemi, List.all_cons, List.all_nil, ns_K, Bool.and_self]
    | some c =>
      simp (disch := decide) only [tokItem, NoSemi, List.all_cons, List.all_append, List.all_nil, ns_K, Bool.and_true,
        Bool.true_and]
      exact ns_tokCol o c
  | avg c =>
    simp (disch := decide) only [tokItem, NoSemi, List.all_cons, List.all_append, List.all_nil, ns_K, Bool.and_true,
      Bool.true_and]
    exact ns_tokCol o c
  | expr c => exact ns_tokCond o ho ok c h

theorem ns_tokAlias (i : Nat) (a : Bytes) : NoSemi (tokAlias o i a) = true := by
  unfold tokAlias
  split
  · rfl
  · split <;> simp (disch := decide) only [NoSemi, List.all_cons, List.all_nil, ns_K, ns_I, Bool.and_self]

include ho in
theorem ns_tokSelList (sl : List DerivedCol) (h : wfSelList ok sl = true) : NoSemi (tokSelList o sl) = true := by
  unfold tokSelList
  split
  · simp (disch := decide) only [NoSemi, List.all_cons, List.all_nil, ns_K, Bool.and_self]
  · rename_i hne
    simp only [wfSelList, Bool.or_eq_true, decide_eq_true_eq, Bool.and_eq_true, List.all_eq_true] at h
    rcases h with h | h
    · exact absurd h hne
    · refine ns_tokSep _ _ (ns_K o _ (by decide)) sl 0 ?_
      intro j x hx
      simp only [tokDC, NoSemi, List.all_append, Bool.and_eq_true]
      exact ⟨ns_tokItem o ho ok _ (h.2 x hx), ns_tokAlias o j _⟩

theorem ns_tokTN (t : TableName) : NoSemi (tokTN t) = true := by
  obtain ⟨n, a⟩ := t
  cases a <;> simp only [tokTN, NoSemi, List.all_cons, List.all_nil, ns_I, Bool.and_self]

theorem ns_tokJoinKw (i : Nat) (jt : JoinType) : NoSemi (tokJoinKw o i jt) = true := by
  cases jt <;> simp (disch := decide) only [tokJoinKw, NoSemi, List.all_cons, List.all_nil, ns_K, Bool.and_self]
  split <;> simp (disch := decide) only [List.all_cons, List.all_nil, ns_K, Bool.and_self]

include ho in
theorem ns_tokJoins (js : List JoinSpec) : ∀ i, (∀ j ∈ js, wfCond ok j.2.2 = true) →
    NoSemi (tokJoins o i js) = true := by
  induction js with
  | nil => intro i _; rfl
  | cons j js ih =>
    intro i h
    simp (disch := decide) only [tokJoins, NoSemi, List.all_append, List.all_cons, ns_K, Bool.true_and, Bool.and_eq_true]
    exact ⟨⟨⟨ns_tokJoinKw o i _, ns_tokTN _⟩, ns_tokCond o ho ok _ (h j (List.mem_cons_self ..))⟩,
      ih (i + 1) (fun j' hj' => h j' (List.mem_cons_of_mem _ hj'))⟩

include ho in
theorem ns_tokWhere (w : Option Cond) (h : wfOptCond ok w = true) : NoSemi (tokWhere o w) = true := by
  cases w with
  | none => rfl
  | some c =>
    simp (disch := decide) only [tokWhere, NoSemi, List.all_cons, ns_K, Bool.true_and]
    exact ns_tokCond o ho ok c h

theorem ns_tokGBCols (gb : List ColRef) : ∀ i, NoSemi (tokGBCols o i gb) = true := by
  induction gb with
  | nil => intro i; rfl
  | cons c r ih =>
    intro i
    cases r with
    | nil => exact ns_tokCol o c
    | cons d r' =>
      simp only [tokGBCols, NoSemi, List.all_append, Bool.and_eq_true]
      refine ⟨⟨ns_tokCol o c, ?_⟩, ih (i + 1)⟩
      split
      · simp (disch := decide) only [List.all_cons, List.all_nil, ns_K, Bool.and_self]
      · rfl

theorem ns_tokGroupBy (gb : List ColRef) : NoSemi (tokGroupBy o gb) = true := by
  unfold tokGroupBy
  split
  · split
    · simp (disch := decide) only [NoSemi, List.all_cons, List.all_nil, ns_K, Bool.and_self]
    · rfl
  · simp (disch := decide) only [NoSemi, List.all_cons, ns_K, Bool.true_and]
    exact ns_tokGBCols o gb 0

theorem ns_tokSort (i : Nat) (s : SortSpec) : NoSemi (tokSort o i s) = true := by
  simp only [tokSort, NoSemi, List.all_append, Bool.and_eq_true]
  refine ⟨ns_tokCol o _, ?_⟩
  split
  · simp (disch := decide) only [List.all_cons, List.all_nil, ns_K, Bool.and_self]
  · split
    · simp (disch := decide) only [List.all_cons, List.all_nil, ns_K, Bool.and_self]
    · rfl

theorem ns_tokOrderBy (ob : List SortSpec) : NoSemi (tokOrderBy o ob) = true := by
  unfold tokOrderBy
  split
  · rfl
  · simp (disch := decide) only [NoSemi, List.all_cons, ns_K, Bool.true_and]
    exact ns_tokSep _ _ (ns_K o _ (by decide)) ob 0 (fun j x _ => ns_tokSort o j x)

include ho in
theorem ns_tokLimit (l : LimitOffset) : NoSemi (tokLimit o l) = true := by
  have h1 : NoSemi (if l.limitActive then [K o t_LIMIT, o.lit (.int l.limit)] else []) = true := by
    split
    · simp (disch := decide) only [ho, NoSemi, List.all_cons, List.all_nil, ns_K, ns_lit, Bool.and_self]
    · rfl
  have h2 : NoSemi (if l.offsetActive then [K o t_OFFSET, o.lit (.int l.offset)] else []) = true := by
    split
    · simp (disch := decide) only [ho, NoSemi, List.all_cons, List.all_nil, ns_K, ns_lit, Bool.and_self]
    · rfl
  simp only [tokLimit]
  split <;> simp only [NoSemi, List.all_append, Bool.and_eq_true] <;> first | exact ⟨h1, h2⟩ | exact ⟨h2, h1⟩

include ho in
theorem ns_tokSelect (s : Select) (h : wfSelect ok s = true) : NoSemi (tokSelect o s) = true := by
  simp only [wfSelect, Bool.and_eq_true] at h
  obtain ⟨⟨⟨hl, _⟩, _⟩, hf⟩ := h
  unfold tokSelect
  split
  · exact ns_tokSelList o ho ok _ hl
  · rename_i tr htr
    rw [htr] at hf
    simp only [Bool.and_eq_true, List.all_eq_true] at hf
    simp only [NoSemi, List.all_append, Bool.and_eq_true]
    refine ⟨ns_tokSelList o ho ok _ hl, ?_, ns_tokWhere o ho ok _ hf.2, ns_tokGroupBy o _, ns_tokOrderBy o _,
      ns_tokLimit o ho _⟩
    simp (disch := decide) only [tokFrom, List.all_cons, List.all_append, ns_K, Bool.true_and, Bool.and_eq_true]
    exact ⟨ns_tokTN _, ns_tokJoins o ho ok _ 0 hf.1⟩

include ho in
theorem ns_tokColType (t : ColType) : NoSemi (tokColType o t) = true := by
  cases t <;>
    simp (disch := decide) only [tokColType, ho, NoSemi, List.all_cons, List.all_nil, ns_K, ns_lit, Bool.and_self]

theorem ns_tokShow : NoSemi (tokShow o) = true := by
  unfold tokShow
  split
  · split <;> simp (disch := decide) only [NoSemi, List.all_cons, List.all_nil, ns_K, ns_I, Bool.and_self]
  · simp (disch := decide) only [NoSemi, List.all_cons, List.all_nil, ns_K, Bool.and_self]

include ho in
/-- **No token of a rendered well-formed statement is a `;`.** -/
theorem noSemi_renderStmt (s : Stmt) (h : wfStmt ok s = true) : NoSemi (renderStmt o s) = true := by
  cases s with
  | createDatabase n =>
    simp (disch := decide) only [renderStmt, NoSemi, List.all_cons, List.all_nil, ns_K, ns_I, Bool.and_self]
  | createTable n cols =>
    simp (disch := decide) only [renderStmt, NoSemi, List.all_cons, List.all_append, List.all_nil, ns_K, Bool.true_and,
      Bool.and_true, Bool.and_eq_true]
    refine ⟨?_, ?_⟩
    · split
      · rfl
      · simp only [List.all_cons, List.all_nil, ns_I, Bool.and_self]
    · refine ns_tokSep _ _ (ns_K o _ (by decide)) cols 0 ?_
      intro j c _
      simp only [tokColDef, NoSemi, List.all_cons, ns_I, Bool.true_and]
      exact ns_tokColType o ho _
  | select s =>
    simp (disch := decide) only [renderStmt, NoSemi, List.all_cons, ns_K, Bool.true_and]
    exact ns_tokSelect o ho ok s h
  | insert t cols rows =>
    simp (disch := decide) only [renderStmt, NoSemi, List.all_cons, List.all_append, ns_K, ns_I, Bool.true_and,
      Bool.and_eq_true]
    refine ⟨?_, ?_⟩
    · unfold tokInsCols
      split
      · split
        · simp (disch := decide) only [List.all_cons, List.all_nil, ns_K, Bool.and_self]
        · rfl
      · simp (disch := decide) only [List.all_cons, List.all_append, List.all_nil, ns_K, Bool.true_and, Bool.and_true]
        refine ns_tokSep _ _ (ns_K o _ (by decide)) cols 0 ?_
        intro j c _
        simp only [tokInsCol, NoSemi, List.all_cons, List.all_nil, ns_I, Bool.and_self]
    · refine ns_tokSep _ _ (ns_K o _ (by decide)) rows 0 ?_
      intro j r _
      simp (disch := decide) only [tokRow, NoSemi, List.all_cons, List.all_append, List.all_nil, ns_K, Bool.true_and,
        Bool.and_true]
      refine ns_tokSep _ _ (ns_K o _ (by decide)) r 0 ?_
      intro j' l _
      simp only [tokLitItem, ho, NoSemi, List.all_cons, List.all_nil, ns_lit, Bool.and_self]
  | update t sets w =>
    simp only [wfStmt, Bool.and_eq_true] at h
    simp (disch := decide) only [renderStmt, NoSemi, List.all_cons, List.all_append, ns_K, ns_I, Bool.true_and,
      Bool.and_eq_true]
    refine ⟨?_, ns_tokWhere o ho ok w h.2⟩
    refine ns_tokSep _ _ (ns_K o _ (by decide)) sets 0 ?_
    intro j a _
    simp (disch := decide) only [tokSet, NoSemi, List.all_cons, ns_K, ns_I, Bool.true_and]
    exact ns_tokVE o ho _
  | delete t w =>
    simp (disch := decide) only [renderStmt, NoSemi, List.all_cons, ns_K, ns_I, Bool.true_and]
    exact ns_tokWhere o ho ok w h
  | use db =>
    simp (disch := decide) only [renderStmt, NoSemi, List.all_cons, List.all_nil, ns_K, ns_I, Bool.and_self]
  | showDatabases =>
    simp (disch := decide) only [renderStmt, NoSemi, List.all_cons, ns_K, Bool.true_and]
    exact ns_tokShow o

end Mkdb.Sql
