import Mkdb.Proofs.Evict6
/-!
C16 on the heap model, part 7: the compositions the property theorems state, and **non-vacuity on the
computed database `tableDB`** (`CREATE DATABASE; CREATE TABLE t (a INT)`, BaseCase2).

* `evalStmt_evict_exact`: on a database that satisfies the invariant, with one cache entry per offset,
  after the eviction of any pages that are in the data file, EVERY statement the parser can produce
  (side conditions of `C18_every_statement_keeps_the_database_invariant`) has the same outcome as without
  the eviction - accepted, or refused with the same error, also at a later row - and both results satisfy
  the invariant for the SAME plain database and the SAME trees.
* `reads_evict_exact`: what `Fetch` returns after the eviction it returns without it.
* `dbI`, `dbF`, `allPages`: `INSERT INTO t VALUES (5), (6)` on `tableDB`, then a flush, then the eviction of
  all three pages (the cache is empty afterwards); computed: the SELECT source and an UPDATE followed by
  the SELECT source give the same rows with and without the eviction; before the flush the dirty page of
  `t` stays in the cache.
* `visible_without_the_file`: the hypothesis of `evict_view_eq` is needed - a clean cached page that is
  NOT the data file's page (no operation of the page store produces one at a statement boundary) reads
  differently once it is dropped.
-/
set_option autoImplicit false
namespace Mkdb.Store
open Mkdb.Page Mkdb.Tuple Mkdb.Generated Mkdb.Tree Mkdb.Engine

/-- **Every statement after the eviction of pages that are in the data file** -/
theorem evalStmt_evict_exact {db : Engine.DB} {sdb : Spec.SDB} {pt sch : Levels} {tbls : List (Bytes × Levels)}
    (h : DbInv db sdb pt sch tbls) (hn : MemNodup db.store) (offs : List Nat) (hs : EvictSafe db.store offs)
    (order : List Nat) (st : Sql.Stmt) (hnames : StmtNames pt tbls st) (hroom : StmtRoomT db pt sch tbls st)
    (hlits : StmtLits st) :
    ∃ db1 db2,
      ((evalStmt db order st = .ok () db1 ∧ evalStmt (evictDB db offs) order st = .ok () db2) ∨
        ∃ e, evalStmt db order st = .err e db1 ∧ evalStmt (evictDB db offs) order st = .err e db2) ∧
      DbEq db1 db2 ∧
      ∃ sdb' pt' sch' tbls', DbInv db1 sdb' pt' sch' tbls' ∧ DbInv db2 sdb' pt' sch' tbls' := by
  obtain ⟨db2, hout, sdb', pt', sch', tbls', hi2⟩ := evalStmt_keeps_inv (evictDB db offs) order sdb pt sch tbls
    (h.evict offs) st hnames (hroom.evict offs) hlits
  have hd : DbEq db (evictDB db offs) := ⟨rfl, CacheEq.of_evict h.filed hn offs hs⟩
  have h0 := evalStmt_rel hd order st
  rcases hout with e2 | ⟨e, e2⟩
  · rw [e2] at h0
    obtain ⟨db1, e1, hd1⟩ := h0
    exact ⟨db1, db2, .inl ⟨e1, e2⟩, hd1, sdb', pt', sch', tbls', hd1.dbInv.mpr hi2, hi2⟩
  · rw [e2] at h0
    obtain ⟨db1, e1, hd1⟩ := h0
    exact ⟨db1, db2, .inr ⟨e, e1, e2⟩, hd1, sdb', pt', sch', tbls', hd1.dbInv.mpr hi2, hi2⟩

/-- **What a reader gets after the eviction it gets without it** (no invariant needed) -/
theorem reads_evict_exact {db : Engine.DB} (hf : MemFiled db.store) (hn : MemNodup db.store) (offs : List Nat)
    (hs : EvictSafe db.store offs) (t : Bytes) (rows : List (Nat × List Val)) (cols : List FieldDef) (s2 : Store)
    (h : fetchTable t (evict db.store offs) = .ok (rows, cols) s2) :
    ∃ s1, fetchTable t db.store = .ok (rows, cols) s1 ∧ CacheEq s1 s2 := by
  have h0 := Sim.fetchTable t db.store (evict db.store offs) (CacheEq.of_evict hf hn offs hs)
  rw [h] at h0
  exact h0

/-! ### non-vacuity on the computed database -/

/-- `INSERT INTO t VALUES (5), (6)` -/
def stI : Sql.Stmt := .insert tname [] [[.int 5], [.int 6]]
/-- `UPDATE t SET a = 7 WHERE a = 5` -/
def stU : Sql.Stmt := .update tname [([97], .lit (.int 7))] (some (.pred ⟨.col ⟨[], [97]⟩, t_EQ, .lit (.int 5)⟩))

/-- `tableDB` after the INSERT (page 12288 is dirty) -/
def dbI : Engine.DB := match evalStmt tableDB [] stI with | Engine.Res.ok _ db => db | _ => tableDB
/-- … and after a flush -/
def dbF : Engine.DB := match Engine.flush dbI [] with | Engine.Res.ok _ db => db | _ => dbI
/-- the pages of the database: `sys_pages`, `sys_schema`, `t` -/
def allPages : List Nat := [4096, 8192, 12288]

/-- the rows `Fetch` of `t` returns -/
def rowsOfDB (db : Engine.DB) : Option (List (Nat × List Val)) :=
  match fetchTable tname db.store with
  | SRes.ok (rows, _) _ => some rows
  | _ => none

/-- the rows of `t` after the UPDATE -/
def rowsAfterU (db : Engine.DB) : Option (List (Nat × List Val)) :=
  match evalStmt db [] stU with
  | Engine.Res.ok _ db' => rowsOfDB db'
  | _ => none

/-- **Computed**: after INSERT and flush the three pages are cached and clean; evicting them all empties
the cache; `Fetch` of `t` returns rows 11 and 12 with the values 5 and 6 from the empty cache as from
the full one; `UPDATE t SET a = 7 WHERE a = 5` succeeds on both and `Fetch` then returns 7 and 6 on both.
Before the flush the dirty page of `t` cannot be evicted. -/
theorem evict_example :
    dbF.store.mem.map (·.1) = [4096, 12288, 8192] ∧ (evictDB dbF allPages).store.mem = [] ∧
    rowsOfDB dbF = some [(11, [.int 5]), (12, [.int 6])] ∧
    rowsOfDB (evictDB dbF allPages) = some [(11, [.int 5]), (12, [.int 6])] ∧
    rowsAfterU dbF = some [(11, [.int 7]), (12, [.int 6])] ∧
    rowsAfterU (evictDB dbF allPages) = some [(11, [.int 7]), (12, [.int 6])] ∧
    (evictDB dbI allPages).store.mem.map (·.1) = [12288] := by
  refine ⟨by decide +kernel, by decide +kernel, by decide +kernel, by decide +kernel, by decide +kernel,
    by decide +kernel, by decide +kernel⟩

theorem memNodup_dbF : MemNodup dbF.store := by
  unfold MemNodup
  decide +kernel

theorem evictSafe_dbF : EvictSafe dbF.store allPages := evictSafe_of_B (by decide +kernel)

theorem stmtLits_stU : StmtLits stU := by
  intro p hp l hl
  simp only [List.mem_singleton] at hp
  subst hp
  simp only [Sql.VExpr.lit.injEq] at hl
  subst hl
  exact ⟨by decide, by decide⟩

/-- the flushed database satisfies the invariant for the plain database with the rows 5 and 6, and the
UPDATE meets the side conditions of `evalStmt_evict_exact` on it -/
theorem dbInv_dbF : ∃ pt sch tbls, DbInv dbF sdbA1 pt sch tbls ∧ StmtNames pt tbls stU ∧
    StmtRoomT dbF pt sch tbls stU ∧ StmtLits stU := by
  obtain ⟨db1, pt1, sch1, tbls1, e1, hi1⟩ := dbFlushed_tableDB.inv.accepted [] stI room_insert56 sdbA1 rfl
  have hI : dbI = db1 := by unfold dbI; rw [e1]
  obtain ⟨db2, e2, _, hk⟩ := hi1.flush []
  have hF : dbF = db2 := by unfold dbF; rw [hI, e2]
  rw [hF]
  exact ⟨_, _, _, hk.inv, fun _ => tname_ne_sys, trivial, stmtLits_stU⟩

/-- a history on `tableDB`: INSERT, flush, eviction of all pages, UPDATE, eviction again (the page of
`t` is dirty and stays), `DELETE FROM t`, flush, eviction, a refused CREATE TABLE -/
def opsExample : List CacheOp :=
  [.stmt stI, .flush [], .evict allPages, .stmt stU, .evict allPages, .stmt (.delete tname none), .flush [],
   .evict allPages, .stmt (.createTable tname acols)]

/-- **Computed**: every eviction of the example history drops only pages that are in the data file, the
run completes, and its outcomes are: accepted, accepted, accepted, refused -/
theorem opsExample_ok : evictsSafeB [] opsExample tableDB = true ∧
    ((runOps [] tableDB opsExample).map fun r => r.2.map Option.isNone) = some [true, true, true, false] := by
  refine ⟨by decide +kernel, by decide +kernel⟩

theorem memNodup_tableDB : MemNodup tableDB.store := by
  unfold MemNodup
  decide +kernel


/-! ### one cache entry per offset, in every database a session reaches -/

/-- a re-opened data file has an empty cache -/
theorem memNodup_reopen (s : Store) : MemNodup (reopen s) := List.Pairwise.nil

/-- every statement keeps "one cache entry per offset" (and the filing), whatever its outcome -/
theorem evalStmt_memNodup {db db' : Engine.DB} (hf : MemFiled db.store) (hn : MemNodup db.store) (order : List Nat)
    (st : Sql.Stmt) (h : evalStmt db order st = .ok () db' ∨ ∃ e, evalStmt db order st = .err e db') :
    MemNodup db'.store ∧ MemFiled db'.store := by
  have h0 := evalStmt_rel (DbEq.refl hf hn) order st
  rcases h with e | ⟨x, e⟩
  · rw [e] at h0
    obtain ⟨_, _, hd⟩ := h0
    exact ⟨hd.2.nodup2, hd.2.filed2⟩
  · rw [e] at h0
    obtain ⟨_, _, hd⟩ := h0
    exact ⟨hd.2.nodup2, hd.2.filed2⟩

/-- … and so does every history of statements, flushes and evictions -/
theorem runOps_memNodup (order : List Nat) (ops : List CacheOp) :
    ∀ (db : Engine.DB), MemFiled db.store → MemNodup db.store →
      ∀ (d : Engine.DB) (outs : List (Option Engine.StmtErr)), runOps order db ops = some (d, outs) →
        MemNodup d.store ∧ MemFiled d.store := by
  induction ops with
  | nil =>
    intro db hf hn d outs hr
    simp only [runOps, Option.some.injEq, Prod.mk.injEq] at hr
    rw [← hr.1]; exact ⟨hn, hf⟩
  | cons op rest ih =>
    intro db hf hn d outs hr
    cases op with
    | stmt st =>
      simp only [runOps] at hr
      cases e : evalStmt db order st with
      | ok u t =>
        rw [e] at hr
        simp only [Option.map_eq_some_iff, Prod.mk.injEq] at hr
        obtain ⟨r, hr2, rfl, _⟩ := hr
        obtain ⟨a, b⟩ := evalStmt_memNodup hf hn order st (.inl e)
        exact ih t b a r.1 r.2 hr2
      | err x t =>
        rw [e] at hr
        simp only [Option.map_eq_some_iff, Prod.mk.injEq] at hr
        obtain ⟨r, hr2, rfl, _⟩ := hr
        obtain ⟨a, b⟩ := evalStmt_memNodup hf hn order st (.inr ⟨x, e⟩)
        exact ih t b a r.1 r.2 hr2
      | panic p => rw [e] at hr; cases hr
      | unmodelled w => rw [e] at hr; cases hr
      | fuel => rw [e] at hr; cases hr
    | flush o =>
      simp only [runOps] at hr
      have h0 := flush_rel (DbEq.refl hf hn) o
      cases e : Engine.flush db o with
      | ok u t =>
        rw [e] at hr h0
        obtain ⟨_, _, hd⟩ := h0
        exact ih t hd.2.filed2 hd.2.nodup2 d outs hr
      | err x t => rw [e] at hr; cases hr
      | panic p => rw [e] at hr; cases hr
      | unmodelled w => rw [e] at hr; cases hr
      | fuel => rw [e] at hr; cases hr
    | evict offs =>
      simp only [runOps] at hr
      exact ih (evictDB db offs) (hf.evict offs) (hn.evict offs) d outs hr

/-! ### the hypothesis of the invisibility lemma is needed -/

/-- a clean cached page that the data file does not hold: after its eviction the engine sees nothing at
the offset.  (No operation of the page store leaves such a page at a statement boundary: a page enters
the cache clean only by `fetch`, from the data file, or is written to it by the flush that cleans it.) -/
theorem visible_without_the_file :
    let s : Store := { mem := [(4096, ⟨.leaf ⟨4096, 0, false, false, 0, 0, []⟩, false⟩)] }
    Store.view s 4096 = some (.leaf ⟨4096, 0, false, false, 0, 0, []⟩, false) ∧
      Store.view (evict s [4096]) 4096 = none := by
  refine ⟨by decide +kernel, by decide +kernel⟩

end Mkdb.Store
