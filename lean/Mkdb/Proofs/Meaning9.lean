import Mkdb.Proofs.Meaning8
/-!
`evaluateSelect` against `Spec.meaning` / `Spec.satisfies`, part 9: the aggregate / GROUP BY SELECT
over any FROM clause, end to end, in both directions.
-/
namespace Mkdb.Exec.MeaningP
open Mkdb.Sql Mkdb.Tuple Mkdb.Spec Mkdb.Exec.SelectP Mkdb.Exec.AggP

theorem specAgg_some_idxs {q : Select} {fields : List Field} {src out : List Row}
    (h : specAgg q fields src = some out) : ∃ idxs, q.groupBy.mapM (groupIdx q.list) = some idxs := by
  unfold specAgg at h
  cases hgi : q.groupBy.mapM (groupIdx q.list) with
  | none => simp only [hgi, Option.bind_eq_bind, Option.bind_none] at h; cases h
  | some idxs => exact ⟨idxs, rfl⟩

/-- the rows of the relational FROM clause are as long as its header, when the tables are well
shaped -/
theorem fromRows_rows_length {fetch : Bytes → Option Table} (hws : NoPanicP.WellShaped fetch)
    {tr : TableRef} {src : List Row} {fields : List Field}
    (h : Spec.fromRows fetch tr = some (src, fields)) : ∀ r ∈ src, r.length = fields.length := by
  obtain ⟨rowsM, fieldsM, hM, rfl, hp⟩ := JoinP.nestedLoopJoin_perm_fromRows fetch tr src fields h
  intro r hr
  exact NoPanicP.nestedLoopJoin_lengths hws hM r (hp.mem_iff.2 hr)

/-- what a defined grouping part of the meaning says, the empty input included -/
theorem specAgg_inv' {q : Select} {fields : List Field} {src out : List Row} {idxs : List Nat}
    (hgi : q.groupBy.mapM (groupIdx q.list) = some idxs)
    (hres : ColumnsResolve q.list fields) (hlen : ∀ r ∈ src, r.length = fields.length)
    (havg : AvgConst q.list fields (keyAt idxs) src)
    (h : specAgg q fields src = some out) :
    Projects q.list fields src ∧ GroupConst q.list fields (keyAt idxs) src := by
  by_cases hz : q.groupBy = [] ∧ src = []
  · obtain ⟨_, rfl⟩ := hz
    exact ⟨fun r hr => (nomatch hr), fun _ _ _ r hr => (nomatch hr)⟩
  · obtain ⟨hP, hC⟩ := specAgg_inv hgi hz hres hlen h
    exact ⟨hP, GroupConst.of_plain_avg hC havg⟩

/-- a query that groups and has a reference meaning does not start its select list with `*` -/
theorem meaning_groups_nostar {fetch : Bytes → Option Table} {q : Select} {want : List Row}
    (hg : groups q = true) (hm : Spec.meaning fetch q = some want) : isStar q.list = false := by
  obtain ⟨tr, src, fields, hf, hfr⟩ := meaning_some_from hm
  rw [meaning_of hf hfr] at hm
  obtain ⟨filtered, _, hst⟩ := option_bind_some.1 hm
  exact specTail_groups_nostar ((groups_iff q).1 hg) hst

/-- **one table, aggregates / GROUP BY: what the executor answers is the meaning**, exactly (same
groups in the same order), when everything but the COUNTs is constant on each group -/
theorem agg_single_result {fetch : Bytes → Option Table} {q : Select} {t : TableName}
    (hfrom : q.from_ = some (.table t)) (hs : isStar q.list = false) (hg : groups q = true)
    (hw : whereIsBoolean q = true)
    (hconst : ∀ src fields idxs, Spec.fromRows fetch (.table t) = some (src, fields) →
      q.groupBy.mapM (groupIdx q.list) = some idxs → GroupConst q.list fields (keyAt idxs) src)
    {rows : List Row} {hdr : List Field} (h : evaluateSelect fetch q = .ok (rows, hdr)) :
    ∃ want keys, Spec.meaning fetch q = some want ∧
      projectColumns q.list (judgeFields fetch q) [] = .ok ([], hdr) ∧
      Spec.sortKeys q hdr = some keys ∧
      (∀ a ∈ want, ∀ b ∈ want, KeyComparable keys a b) ∧
      rows = cut q.lim (sortRows keys want) := by
  have hnp := (groups_iff q).1 hg
  obtain ⟨src, fields, filtered, projected, agg, keys, hj, hwh, hproj, hag, hkeys, hcomp, rfl, _⟩ :=
    (evaluateSelect_iff hfrom).1 h
  have hfr : Spec.fromRows fetch (.table t) = some (src, fields) := by
    rw [fromRows_table]; exact fieldsOf_iff_fetchTable.2 hj
  have hsw := whereX_ok_spec (by unfold whereIsBoolean at hw; exact hw) hwh
  obtain ⟨hres, rfl, hP⟩ := projectColumns_projects hs hproj
  have hsa := (aggregate_agree hnp hres hP (fun idxs hi =>
    (hconst src fields idxs hfr hi).sublist (specWhere_subset hsw))).1 hag
  refine ⟨agg, keys, ?_, ?_, resolveSortKeys_iff_spec.1 hkeys, hcomp, rfl⟩
  · rw [meaning_of hfrom hfr, hsw]
    exact (specTail_nostar_iff hs).2 ⟨hres, by simp only [hnp, Bool.false_eq_true, if_false]; exact hsa⟩
  · rw [judgeFields_of hfrom hfr]; exact projectColumns_header hproj

/-- **one table, aggregates / GROUP BY: a meaningful query is answered**, exactly, on rows as long
as the header and with `AVG` only over groups of equal values -/
theorem agg_single_answered {fetch : Bytes → Option Table} {q : Select} {t : TableName}
    (hfrom : q.from_ = some (.table t)) (hg : groups q = true)
    (hne : q.list ≠ []) (hb : Spec.boundsOK q.lim = true)
    (havg : ∀ src fields idxs, Spec.fromRows fetch (.table t) = some (src, fields) →
      q.groupBy.mapM (groupIdx q.list) = some idxs → AvgConst q.list fields (keyAt idxs) src)
    (hws : NoPanicP.WellShaped fetch)
    {want : List Row} {keys : List (Nat × Bool)}
    (hm : Spec.meaning fetch q = some want)
    (hk : Spec.sortKeys q (judgeHeader fetch q) = some keys)
    (hcomp : ∀ a ∈ want, ∀ b ∈ want, KeyComparable keys a b) :
    evaluateSelect fetch q = .ok (cut q.lim (sortRows keys want), judgeHeader fetch q) := by
  have hnp := (groups_iff q).1 hg
  obtain ⟨tr, src, fields, hf, hfr⟩ := meaning_some_from hm
  rw [hfrom] at hf
  cases hf
  rw [meaning_of hfrom hfr] at hm
  obtain ⟨filtered, hsw, hst⟩ := option_bind_some.1 hm
  have hs := specTail_groups_nostar hnp hst
  obtain ⟨hres, hsa⟩ := (specTail_nostar_iff hs).1 hst
  simp only [hnp, Bool.false_eq_true, if_false] at hsa
  have hsub := specWhere_subset hsw
  obtain ⟨idxs, hgi⟩ := specAgg_some_idxs hsa
  obtain ⟨hP, hC⟩ := specAgg_inv' hgi hres
    (fun r hr => fromRows_rows_length hws hfr r (hsub r hr))
    ((havg src fields idxs hfr hgi).sublist hsub) hsa
  obtain ⟨hdr', hpc⟩ := projectColumns_of_projects hne hs hres hP
  have hag := (aggregate_agree hnp hres hP (fun idxs' hi => by
    rw [hgi] at hi; cases hi; exact hC)).2 hsa
  have hh : projectColumns q.list (judgeFields fetch q) [] = .ok ([], hdr') := by
    rw [judgeFields_of hfrom hfr]; exact projectColumns_header hpc
  rw [judgeHeader_of hh] at hk ⊢
  rw [evaluateSelect_iff hfrom]
  rw [fromRows_table] at hfr
  exact ⟨src, fields, filtered, _, want, keys, fieldsOf_iff_fetchTable.1 hfr,
    specWhere_whereX hsw, hpc, hag, resolveSortKeys_iff_spec.2 hk, hcomp, rfl, hb⟩

/-- **any FROM clause, aggregates / GROUP BY: what the executor answers is the meaning**, as a
multiset before ORDER BY: a permutation `got` of the meaning, sorted and cut -/
theorem agg_any_result {fetch : Bytes → Option Table} {q : Select} {tr : TableRef}
    (hfrom : q.from_ = some tr) (hs : isStar q.list = false) (hg : groups q = true)
    (hw : whereIsBoolean q = true)
    (hconst : ∀ src fields idxs, Spec.fromRows fetch tr = some (src, fields) →
      q.groupBy.mapM (groupIdx q.list) = some idxs → GroupConst q.list fields (keyAt idxs) src)
    {rows : List Row} {hdr : List Field} (h : evaluateSelect fetch q = .ok (rows, hdr)) :
    ∃ want got keys, Spec.meaning fetch q = some want ∧
      projectColumns q.list (judgeFields fetch q) [] = .ok ([], hdr) ∧
      Spec.sortKeys q hdr = some keys ∧ got.Perm want ∧
      (∀ a ∈ want, ∀ b ∈ want, KeyComparable keys a b) ∧
      rows = cut q.lim (sortRows keys got) := by
  have hnp := (groups_iff q).1 hg
  obtain ⟨srcM, fields, filteredM, projected, agg, keys, hj, hwh, hproj, hag, hkeys, hcomp, rfl, _⟩ :=
    (evaluateSelect_iff hfrom).1 h
  obtain ⟨srcS, hfr, hpsrc⟩ := fromRows_of_nestedLoopJoin fetch tr srcM fields hj
  have hswM := whereX_ok_spec (by unfold whereIsBoolean at hw; exact hw) hwh
  obtain ⟨filteredS, hswS, hpf⟩ := specWhere_perm hpsrc.symm hswM
  obtain ⟨hres, rfl, hPM⟩ := projectColumns_projects hs hproj
  have hsubS := specWhere_subset hswS
  have hconstM : ∀ idxs, q.groupBy.mapM (groupIdx q.list) = some idxs →
      GroupConst q.list fields (keyAt idxs) filteredM := fun idxs hi =>
    (hconst srcS fields idxs hfr hi).sublist (fun r hr => hsubS r (hpf.symm.mem_iff.1 hr))
  have hsaM := (aggregate_agree hnp hres hPM hconstM).1 hag
  obtain ⟨idxs, hgi⟩ := specAgg_some_idxs hsaM
  have hPS : Projects q.list fields filteredS := hPM.sublist (fun r hr => hpf.mem_iff.1 hr)
  obtain ⟨want, hsaS, hpw⟩ := specAgg_perm hpf.symm hgi hres hPS
    ((hconst srcS fields idxs hfr hgi).sublist hsubS) hsaM
  refine ⟨want, agg, keys, ?_, ?_, resolveSortKeys_iff_spec.1 hkeys, hpw, ?_, rfl⟩
  · rw [meaning_of hfrom hfr, hswS]
    exact (specTail_nostar_iff hs).2 ⟨hres, by simp only [hnp, Bool.false_eq_true, if_false]; exact hsaS⟩
  · rw [judgeFields_of hfrom hfr]; exact projectColumns_header hproj
  · exact fun a ha b hb => hcomp a (hpw.mem_iff.2 ha) b (hpw.mem_iff.2 hb)

/-- **any FROM clause, aggregates / GROUP BY: a meaningful query is answered**, with the judge's
header and a permutation of the meaning, sorted and cut (rows as long as the header, `AVG` only
over groups of equal values) -/
theorem agg_any_answered {fetch : Bytes → Option Table} {q : Select} {tr : TableRef}
    (hfrom : q.from_ = some tr) (hg : groups q = true)
    (hne : q.list ≠ []) (hb : Spec.boundsOK q.lim = true)
    (havg : ∀ src fields idxs, Spec.fromRows fetch tr = some (src, fields) →
      q.groupBy.mapM (groupIdx q.list) = some idxs → AvgConst q.list fields (keyAt idxs) src)
    (hws : NoPanicP.WellShaped fetch)
    {want : List Row} {keys : List (Nat × Bool)}
    (hm : Spec.meaning fetch q = some want)
    (hk : Spec.sortKeys q (judgeHeader fetch q) = some keys)
    (hcomp : ∀ a ∈ want, ∀ b ∈ want, KeyComparable keys a b) :
    ∃ got, got.Perm want ∧
      evaluateSelect fetch q = .ok (cut q.lim (sortRows keys got), judgeHeader fetch q) := by
  have hnp := (groups_iff q).1 hg
  obtain ⟨tr', srcS, fields, hf, hfr⟩ := meaning_some_from hm
  rw [hfrom] at hf
  cases hf
  rw [meaning_of hfrom hfr] at hm
  obtain ⟨filteredS, hswS, hst⟩ := option_bind_some.1 hm
  have hs := specTail_groups_nostar hnp hst
  obtain ⟨hres, hsaS⟩ := (specTail_nostar_iff hs).1 hst
  simp only [hnp, Bool.false_eq_true, if_false] at hsaS
  obtain ⟨srcM, fieldsM, hj, hfe, hpsrc⟩ := JoinP.nestedLoopJoin_perm_fromRows fetch tr srcS fields hfr
  rw [hfe] at hj
  obtain ⟨filteredM, hswM, hpf⟩ := specWhere_perm hpsrc hswS
  have hsubS := specWhere_subset hswS
  obtain ⟨idxs, hgi⟩ := specAgg_some_idxs hsaS
  obtain ⟨hPS, hCS⟩ := specAgg_inv' hgi hres
    (fun r hr => fromRows_rows_length hws hfr r (hsubS r hr))
    ((havg srcS fields idxs hfr hgi).sublist hsubS) hsaS
  have hPM : Projects q.list fields filteredM := hPS.sublist (fun r hr => hpf.mem_iff.1 hr)
  have hCM : GroupConst q.list fields (keyAt idxs) filteredM :=
    hCS.sublist (fun r hr => hpf.mem_iff.1 hr)
  obtain ⟨got, hsaM, hpg⟩ := specAgg_perm hpf.symm hgi hres hPM hCM hsaS
  have hag := (aggregate_agree hnp hres hPM (fun idxs' hi => by
    rw [hgi] at hi; cases hi; exact hCM)).2 hsaM
  obtain ⟨hdr', hpc⟩ := projectColumns_of_projects hne hs hres hPM
  have hh : projectColumns q.list (judgeFields fetch q) [] = .ok ([], hdr') := by
    rw [judgeFields_of hfrom hfr]; exact projectColumns_header hpc
  rw [judgeHeader_of hh] at hk ⊢
  refine ⟨got, hpg.symm, ?_⟩
  rw [evaluateSelect_iff hfrom]
  exact ⟨srcM, fields, filteredM, _, got, keys, hj, specWhere_whereX hswM, hpc, hag,
    resolveSortKeys_iff_spec.2 hk,
    fun a ha b hb' => hcomp a (hpg.symm.mem_iff.1 ha) b (hpg.symm.mem_iff.1 hb'), rfl, hb⟩

/-! ### the hypothesis, as a test on the query alone and as a test on the data -/

/-- every select-list element is a COUNT, a literal or a column a GROUP BY reference designates
(no AVG, no element computed from a column outside the GROUP BY) -/
def groupedQuery (q : Select) : Bool :=
  match q.groupBy.mapM (groupIdx q.list) with
  | some idxs => groupedItems q.list idxs
  | none => true

theorem groupConst_of_groupedQuery {q : Select} (h : groupedQuery q = true) (fetch : Bytes → Option Table)
    (tr : TableRef) :
    ∀ src fields idxs, Spec.fromRows fetch tr = some (src, fields) →
      q.groupBy.mapM (groupIdx q.list) = some idxs → GroupConst q.list fields (keyAt idxs) src := by
  intro src fields idxs _ hgi
  unfold groupedQuery at h
  rw [hgi] at h
  exact groupConst_of_grouped h fields src

/-- `GroupConst` as a test on the data -/
def groupConstB (sl : List DerivedCol) (fields : List Field) (key : Row → List Val) (src : List Row) : Bool :=
  sl.all fun d => match d.item with
    | .count _ => true
    | _ => src.all fun r => src.all fun r' =>
        !(key (projRow sl fields r) == key (projRow sl fields r')) || pv fields d r == pv fields d r'

theorem groupConst_of_groupConstB {sl : List DerivedCol} {fields : List Field} {key : Row → List Val}
    {src : List Row} (h : groupConstB sl fields key src = true) : GroupConst sl fields key src := by
  intro d hd hc r hr r' hr' hk
  unfold groupConstB at h
  rw [List.all_eq_true] at h
  have hdd := h d hd
  have key' : (src.all fun r => src.all fun r' =>
      !(key (projRow sl fields r) == key (projRow sl fields r')) || pv fields d r == pv fields d r') = true := by
    cases hi : d.item with
    | count c => exact absurd hi (hc c)
    | star => rw [hi] at hdd; exact hdd
    | avg c => rw [hi] at hdd; exact hdd
    | expr e => rw [hi] at hdd; exact hdd
  simp only [List.all_eq_true, Bool.or_eq_true, Bool.not_eq_true', beq_eq_false_iff_ne, ne_eq,
    beq_iff_eq] at key'
  rcases key' r hr r' hr' with h1 | h1
  · exact absurd hk h1
  · exact h1

/-- on the rows of the FROM clause, every select-list element that is not a COUNT is constant on
each group of the query (a decidable test on the tables and the query) -/
def nonCountsConstantOnGroups (fetch : Bytes → Option Table) (q : Select) : Bool :=
  match q.from_ with
  | none => true
  | some tr =>
    match Spec.fromRows fetch tr with
    | none => true
    | some (src, fields) =>
      match q.groupBy.mapM (groupIdx q.list) with
      | none => true
      | some idxs => groupConstB q.list fields (keyAt idxs) src

theorem groupConst_of_nonCountsConstantOnGroups {fetch : Bytes → Option Table} {q : Select}
    {tr : TableRef} (hfrom : q.from_ = some tr) (h : nonCountsConstantOnGroups fetch q = true) :
    ∀ src fields idxs, Spec.fromRows fetch tr = some (src, fields) →
      q.groupBy.mapM (groupIdx q.list) = some idxs → GroupConst q.list fields (keyAt idxs) src := by
  intro src fields idxs hfr hgi
  unfold nonCountsConstantOnGroups at h
  simp only [hfrom, hfr, hgi] at h
  exact groupConst_of_groupConstB h

end Mkdb.Exec.MeaningP
