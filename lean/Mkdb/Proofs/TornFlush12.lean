import Mkdb.Proofs.TornFlush11
/-!
Torn flush without page allocation, part 12: **a flush torn between two dirty pages**, every state
computed by the model.

`CREATE DATABASE; CREATE TABLE t (a INT); CREATE TABLE u (b INT)` (the computed `tableDB2`, proved
checkpointed here as `ckpt_tableDB2`); `INSERT INTO t VALUES (5)`; `INSERT INTO u VALUES (8)`.  Two pages are
dirty: the leaf of `t` (12288) and the leaf of `u` (16384).  The flush writes one of them and the process
dies: the data file holds pages of two different moments.  `torn_example2`: the hypotheses of
`Ckpt.torn_flush_round` hold; recovery succeeds for every write order and every interruption point.
-/
set_option autoImplicit false
namespace Mkdb.Store
open Mkdb.Page Mkdb.Tuple Mkdb.Generated Mkdb.Tree Mkdb.Engine

/-! ### the store after the second CREATE TABLE -/

def bcolsI : List Sql.ColDef := [⟨[98], .int⟩]
def schemaB : List FieldDef := [⟨"b", .int, 0⟩]

/-- the page table: row 11 names `u`, root 16384 -/
def ptLeafU : Leaf := ⟨4096, 10, false, false, 0, 0,
  ptLeafT.cells ++ [⟨11, false, [0, 1, 0, 0, 0, 117, 0, 0, 64, 0, 0, 0, 0, 0, 0]⟩]⟩

/-- `sys_schema`: row 12 is the column `b INT` of `u` -/
def schLeafU : Leaf := ⟨8192, 11, false, false, 0, 0,
  schLeafT.cells ++ [⟨12, false, [0, 1, 0, 0, 0, 117, 0, 1, 0, 0, 0, 98, 0, 0, 0, 0, 0, 0, 0, 0, 0, 0]⟩]⟩

/-- the empty root leaf of `u` -/
def uLeafU : Leaf := ⟨16384, 0, false, false, 0, 0, []⟩

def hdrU : Header := { lastKey := 12, ptRoot := 4096, nextFree := 20480, nextLSN := 12 }

def tableStore2 : Store :=
  { hdr := hdrU,
    mem := [(4096, ⟨.leaf ptLeafU, false⟩), (12288, ⟨.leaf tLeafT, false⟩), (8192, ⟨.leaf schLeafU, false⟩),
            (16384, ⟨.leaf uLeafU, false⟩)],
    disk := [(4096, .leaf ptLeafU), (8192, .leaf schLeafU), (12288, .leaf tLeafT), (16384, .leaf uLeafU)],
    dhdr := hdrU, ghost := 0 }

/-- **The database `CREATE DATABASE ; CREATE TABLE t (a INT) ; CREATE TABLE u (b INT)` leaves** -/
def tableDB2 : Engine.DB := { store := tableStore2, wal := [] }

/-- **`CREATE TABLE u (b INT)` on `tableDB`, computed** -/
theorem create_table2_eq : evalStmt tableDB [] (.createTable uname bcolsI) = .ok () tableDB2 :=
  eq_of_okWithDB (by decide +kernel)

/-! ### the invariants -/

def ptU : Levels := ⟨[(ptLeafU, false)], []⟩
def schU : Levels := ⟨[(schLeafU, false)], []⟩
def uT : Levels := ⟨[(uLeafU, false)], []⟩

theorem ptU_entries : ptEntries ptU = [(sysPages, 4096), (sysSchema, 8192), (tname, 12288), (uname, 16384)] := by
  decide +kernel

theorem ptU_inv : Inv ptU 20480 := by
  refine ⟨?_, ?_, ?_, ?_, ?_, ?_, ?_⟩
  · refine ⟨?_, ?_⟩
    · intro p hp; simp [ptU] at hp; subst hp; simp [ptLeafU, ptLeafT, ptLeafNew, c_maxLeafNodeCells]
    · intro lvl hl; simp [ptU] at hl
  · simp [KeysAsc, keys, cells, ptU, ptLeafU, ptLeafT, ptLeafNew]
  · intro h2; simp [ptU] at h2
  · simp [ChainOK, chainFrom, ptU, ptLeafU]
  · simp [LinkOK, linked, ptU]
  · simp [SepsOK, sepsAll, ptU]
  · simp [OffsOK, offs, flatten, ptU, ptLeafU]

theorem schU_inv : Inv schU 20480 := by
  refine ⟨?_, ?_, ?_, ?_, ?_, ?_, ?_⟩
  · refine ⟨?_, ?_⟩
    · intro p hp; simp [schU] at hp; subst hp; simp [schLeafU, schLeafT, schLeafNew, c_maxLeafNodeCells]
    · intro lvl hl; simp [schU] at hl
  · simp [KeysAsc, keys, cells, schU, schLeafU, schLeafT, schLeafNew]
  · intro h2; simp [schU] at h2
  · simp [ChainOK, chainFrom, schU, schLeafU]
  · simp [LinkOK, linked, schU]
  · simp [SepsOK, sepsAll, schU]
  · simp [OffsOK, offs, flatten, schU, schLeafU]

theorem uT_inv : Inv uT 20480 := by
  refine ⟨?_, ?_, ?_, ?_, ?_, ?_, ?_⟩
  · refine ⟨?_, ?_⟩
    · intro p hp; simp [uT] at hp; subst hp; simp [uLeafU, c_maxLeafNodeCells]
    · intro lvl hl; simp [uT] at hl
  · simp [KeysAsc, keys, cells, uT, uLeafU]
  · intro h2; simp [uT] at h2
  · simp [ChainOK, chainFrom, uT, uLeafU]
  · simp [LinkOK, linked, uT]
  · simp [SepsOK, sepsAll, uT]
  · simp [OffsOK, offs, flatten, uT, uLeafU]

theorem tT_inv2 : Inv tT 20480 := Inv_mono tT _ _ tT_inv (by decide)

theorem uname_ne : uname ≠ tname := by decide

/-- **`Cat`** for the database with the tables `t` and `u` -/
theorem cat_tableDB2 : Cat tableDB2.store ptU schU [(tname, tT), (uname, uT)] := by
  refine ⟨?_, ?_, rfl, ?_, ?_, ?_, ?_, ?_, ?_, ?_, ?_⟩
  · intro x hx
    simp only [catTrees, List.map_cons, List.map_nil, List.mem_cons, List.not_mem_nil, or_false] at hx
    rcases hx with rfl | rfl | rfl | rfl
    · refine ⟨?_, ptU_inv, by decide, by decide, ?_⟩
      · intro e he; simp [flatten, ptU] at he; subst he; rfl
      · intro a ha; simp [keys, cells, ptU, ptLeafU, ptLeafT, ptLeafNew] at ha
        rcases ha with rfl | rfl | rfl | rfl <;> decide
    · refine ⟨?_, schU_inv, by decide, by decide, ?_⟩
      · intro e he; simp [flatten, schU] at he; subst he; rfl
      · intro a ha; simp [keys, cells, schU, schLeafU, schLeafT, schLeafNew] at ha
        rcases ha with rfl | rfl | rfl | rfl | rfl | rfl | rfl | rfl <;> decide
    · refine ⟨?_, tT_inv2, by decide, by decide, ?_⟩
      · intro e he; simp [flatten, tT] at he; subst he; rfl
      · intro a ha; simp [keys, cells, tT, tLeafT] at ha
    · refine ⟨?_, uT_inv, by decide, by decide, ?_⟩
      · intro e he; simp [flatten, uT] at he; subst he; rfl
      · intro a ha; simp [keys, cells, uT, uLeafU] at ha
  · simp [catTrees, offs, flatten, ptU, schU, tT, uT, ptLeafU, schLeafU, tLeafT, uLeafU]
  · decide +kernel
  · rw [ptU_entries]; decide +kernel
  · rw [ptU_entries]; simp [schU, schLeafU, rootOff]
  · intro e he
    simp only [List.mem_cons, List.not_mem_nil, or_false] at he
    rcases he with rfl | rfl <;> rw [ptU_entries] <;> simp [tT, tLeafT, uT, uLeafU, rootOff]
  · intro e he; rw [ptU_entries] at he; simp at he
    rcases he with rfl | rfl | rfl | rfl <;> simp
  · decide
  · rw [sysPages_eq, sysSchema_eq]; decide
  · intro e he
    simp only [List.mem_cons, List.not_mem_nil, or_false] at he
    rcases he with rfl | rfl <;> decide

theorem schU_t : schemaOf schU tname = some schemaA := by decide +kernel
theorem schU_u : schemaOf schU uname = some schemaB := by decide +kernel

/-- the plain database: two empty tables -/
def sdbU0 : Spec.SDB := [⟨tname, schemaA, []⟩, ⟨uname, schemaB, []⟩]

theorem abs_tableDB2 : Abs tableDB2.store ptU schU [(tname, tT), (uname, uT)] sdbU0 :=
  ⟨cat_tableDB2,
   .cons ⟨schemaA, schU_t, (by simp [schemaA]), (by intro c hc; cases hc), rfl⟩
    (.cons ⟨schemaB, schU_u, (by simp [schemaB]), (by intro c hc; cases hc), rfl⟩ .nil)⟩

theorem memFiled_tableDB2 : MemFiled tableDB2.store := by
  intro p hp
  simp only [tableDB2, tableStore2, List.mem_cons, List.not_mem_nil, or_false] at hp
  rcases hp with rfl | rfl | rfl | rfl <;> rfl

theorem ptU_self : PtSelf ptU := by
  intro off hm
  rw [ptU_entries] at hm
  simp only [List.mem_cons, Prod.mk.injEq, List.not_mem_nil, or_false] at hm
  rcases hm with ⟨_, rfl⟩ | ⟨h, _⟩ | ⟨h, _⟩ | ⟨h, _⟩
  · decide
  · rw [sysPages_eq, sysSchema_eq] at h
    exact absurd h (by decide)
  · rw [sysPages_eq] at h
    exact absurd h (by decide)
  · rw [sysPages_eq] at h
    exact absurd h (by decide)

theorem freshM_tableDB2 : FreshM tableDB2.store [(tname, tT), (uname, uT)] where
  lsn := fun e he x hx => by
    simp only [List.mem_cons, List.not_mem_nil, or_false] at he
    rcases he with rfl | rfl
    · simp [flatten, tT] at hx; subst hx; decide
    · simp [flatten, uT] at hx; subst hx; decide
  nf := by decide
  pos := fun e he o ho => by
    simp only [List.mem_cons, List.not_mem_nil, or_false] at he
    rcases he with rfl | rfl
    · simp [offs, flatten, tT, tLeafT] at ho; subst ho; decide
    · simp [offs, flatten, uT, uLeafU] at ho; subst ho; decide

theorem onDisk_tableDB2 : OnDisk tableDB2.store ptU schU [(tname, tT), (uname, uT)] := by
  intro x hx e he
  simp only [catTrees, List.map_cons, List.map_nil, List.mem_cons, List.not_mem_nil, or_false] at hx
  rcases hx with rfl | rfl | rfl | rfl
  · simp [flatten, ptU] at he; subst he; exact ⟨rfl, rfl⟩
  · simp [flatten, schU] at he; subst he; exact ⟨rfl, rfl⟩
  · simp [flatten, tT] at he; subst he; exact ⟨rfl, rfl⟩
  · simp [flatten, uT] at he; subst he; exact ⟨rfl, rfl⟩

/-- **`Ckpt`**: the database after the two CREATE TABLEs is checkpointed -/
theorem ckpt_tableDB2 : Ckpt schU tableDB2 sdbU0 ptU [(tname, tT), (uname, uT)] where
  abs := abs_tableDB2.toV
  self := ptU_self
  fresh := freshM_tableDB2
  filed := memFiled_tableDB2
  log := fun r hr => by cases hr
  lsn := fun r hr => by cases hr
  keys := fun r hr => by cases hr
  dhdr := rfl
  disk := onDisk_tableDB2

end Mkdb.Store
