import Mkdb.Model.Wal
import Mkdb.Proofs.Bin
/-!
The log file codec: what is written is read back (`readLog_encodeLog`); a file cut at an arbitrary
byte reads back as exactly the records whose frames are complete (`readLog_take`); after the reader
has truncated the torn tail, later appends are read back right after the surviving prefix
(`append_after_cut`).
-/
namespace Mkdb.Wal
open Mkdb.Bin

/-! ### sizes -/

theorem encodeRec_length (r : Rec) : (encodeRec r).length = 25 + r.val.length := by
  simp only [encodeRec, encU8, encU32, encU64, List.length_append, encLE_length]

theorem frame_length (r : Rec) : (frame r).length = 29 + r.val.length := by
  simp only [frame, encU32, List.length_append, encLE_length, encodeRec_length]
  omega

@[simp] theorem encodeLog_nil : encodeLog [] = [] := rfl

theorem encodeLog_cons (r : Rec) (rs : List Rec) : encodeLog (r :: rs) = frame r ++ encodeLog rs := by
  simp only [encodeLog, List.flatMap_cons]

theorem encodeLog_append (as bs : List Rec) : encodeLog (as ++ bs) = encodeLog as ++ encodeLog bs := by
  simp only [encodeLog, List.flatMap_append]

theorem encodeLog_take_drop (rs : List Rec) (k : Nat) :
    encodeLog (rs.take k) ++ encodeLog (rs.drop k) = encodeLog rs := by
  rw [← encodeLog_append, List.take_append_drop]

/-! ### one record -/

theorem decLE_short (k : Nat) (bs : Bytes) (h : bs.length < k) : decLE k bs = none := by
  induction k generalizing bs with
  | zero => omega
  | succ k ih =>
    cases bs with
    | nil => rfl
    | cons b bs =>
      simp only [List.length_cons] at h
      simp only [decLE, ih bs (by omega)]

theorem decodeRec_encodeRec (r : Rec) (h : r.wf) : decodeRec (encodeRec r) = some r := by
  obtain ⟨hop, hlsn, hpage, hcell, hval⟩ := h
  have e1 : r.op % 256 ^ 1 = r.op := Nat.mod_eq_of_lt (by omega)
  have e2 : r.lsn % 256 ^ 8 = r.lsn := Nat.mod_eq_of_lt (by omega)
  have e3 : r.page % 256 ^ 8 = r.page := Nat.mod_eq_of_lt (by omega)
  have e4 : r.cell % 256 ^ 4 = r.cell := Nat.mod_eq_of_lt (by omega)
  have e5 : r.val.length % 256 ^ 4 = r.val.length := Nat.mod_eq_of_lt (by omega)
  simp only [decodeRec, encodeRec, encU8, encU32, encU64, decU8, decU32, decU64,
    List.append_assoc, decLE_encLE, e1, e2, e3, e4, e5]
  cases r with
  | mk op lsn page cell val =>
    cases val with
    | nil => simp
    | cons b val => simp

/-! ### the reader -/

theorem readLoop_nil (fuel : Nat) (acc : List Rec) (good : Nat) :
    readLoop fuel [] acc good = .ok acc good false := by
  cases fuel <;> simp [readLoop]

theorem isEmpty_false_of_length_pos (bs : Bytes) (h : 0 < bs.length) : bs.isEmpty = false := by
  cases bs with
  | nil => simp at h
  | cons _ _ => rfl

/-- one complete frame is consumed and its record delivered -/
theorem readLoop_frame (fuel : Nat) (r : Rec) (h : r.wf) (tail : Bytes) (acc : List Rec) (good : Nat) :
    readLoop (fuel + 1) (frame r ++ tail) acc good
      = readLoop fuel tail (acc ++ [r]) (good + (frame r).length) := by
  have hv : r.val.length < 2 ^ 32 - 25 := h.2.2.2.2
  have hne : (frame r ++ tail).isEmpty = false :=
    isEmpty_false_of_length_pos _ (by rw [List.length_append, frame_length]; omega)
  have hmod : (encodeRec r).length % 256 ^ 4 = (encodeRec r).length :=
    Nat.mod_eq_of_lt (by rw [encodeRec_length]; omega)
  have hdec : decU32 (frame r ++ tail) = some ((encodeRec r).length, encodeRec r ++ tail) := by
    simp only [frame, decU32, encU32, List.append_assoc, decLE_encLE, hmod]
  have h0 : ((encodeRec r).length == 0) = false := by
    rw [encodeRec_length]; simp
  have hlt : ¬ (encodeRec r ++ tail).length < (encodeRec r).length := by
    rw [List.length_append]; omega
  have htake : (encodeRec r ++ tail).take (encodeRec r).length = encodeRec r := by
    simp
  have hdrop : (encodeRec r ++ tail).drop (encodeRec r).length = tail := by
    simp
  have hlen : good + 4 + (encodeRec r).length = good + (frame r).length := by
    rw [frame_length, encodeRec_length]; omega
  rw [readLoop]
  simp only [hne, hdec, h0, hlt, htake, hdrop, decodeRec_encodeRec r h, hlen]
  simp

/-- a frame cut short stops the reader: no record, no error; torn unless nothing at all is left -/
theorem readLoop_cut (fuel : Nat) (r : Rec) (h : r.wf) (m : Nat) (hm : m < (frame r).length)
    (acc : List Rec) (good : Nat) :
    readLoop (fuel + 1) ((frame r).take m) acc good = .ok acc good (decide (0 < m)) := by
  have hv : r.val.length < 2 ^ 32 - 25 := h.2.2.2.2
  have hfl := frame_length r
  rcases Nat.eq_zero_or_pos m with rfl | hpos
  · simp [readLoop]
  · have hne : ((frame r).take m).isEmpty = false :=
      isEmpty_false_of_length_pos _ (by rw [List.length_take]; omega)
    by_cases h4 : m < 4
    · have hdec : decU32 ((frame r).take m) = none :=
        decLE_short 4 _ (by rw [List.length_take]; omega)
      rw [readLoop]
      simp only [hne, hdec]
      simp [hpos]
    · have hmod : (encodeRec r).length % 256 ^ 4 = (encodeRec r).length :=
        Nat.mod_eq_of_lt (by rw [encodeRec_length]; omega)
      have hsplit : (frame r).take m
          = encU32 (encodeRec r).length ++ (encodeRec r).take (m - 4) := by
        have : (encU32 (encodeRec r).length).length = 4 := encLE_length 4 _
        rw [frame, List.take_append, this, List.take_of_length_le (by omega)]
      have hdec : decU32 ((frame r).take m)
          = some ((encodeRec r).length, (encodeRec r).take (m - 4)) := by
        rw [hsplit]
        simp only [decU32, encU32, decLE_encLE, hmod]
      have h0 : ((encodeRec r).length == 0) = false := by
        rw [encodeRec_length]; simp
      have hlt : ((encodeRec r).take (m - 4)).length < (encodeRec r).length := by
        rw [List.length_take, encodeRec_length]; omega
      rw [readLoop]
      simp only [hne, hdec, h0, hlt]
      simp [hpos]

/-- a whole log followed by anything: all its records are delivered, the reader goes on with the rest -/
theorem readLoop_encodeLog (rs : List Rec) (h : ∀ r ∈ rs, r.wf) (fuel : Nat) (tail : Bytes)
    (acc : List Rec) (good : Nat) :
    readLoop (rs.length + fuel) (encodeLog rs ++ tail) acc good
      = readLoop fuel tail (acc ++ rs) (good + (encodeLog rs).length) := by
  induction rs generalizing acc good with
  | nil => simp
  | cons r rs ih =>
    have hr : r.wf := h r (List.mem_cons_self)
    have hrs : ∀ x ∈ rs, x.wf := fun x hx => h x (List.mem_cons_of_mem _ hx)
    have e : (r :: rs).length + fuel = (rs.length + fuel) + 1 := by
      simp only [List.length_cons]; omega
    rw [e, encodeLog_cons, List.append_assoc, readLoop_frame _ r hr, ih hrs]
    simp only [List.append_assoc, List.cons_append, List.nil_append, List.length_append,
      Nat.add_assoc]

theorem encodeLog_length_ge (rs : List Rec) : 29 * rs.length ≤ (encodeLog rs).length := by
  induction rs with
  | nil => simp
  | cons r rs ih =>
    rw [encodeLog_cons, List.length_append, frame_length, List.length_cons]
    omega

theorem readLog_encodeLog (rs : List Rec) (h : ∀ r ∈ rs, r.wf) :
    readLog (encodeLog rs) = .ok rs (encodeLog rs).length false := by
  have hge := encodeLog_length_ge rs
  have e : (encodeLog rs).length + 1 = rs.length + ((encodeLog rs).length + 1 - rs.length) := by
    omega
  have := readLoop_encodeLog rs h ((encodeLog rs).length + 1 - rs.length) [] [] 0
  rw [List.append_nil] at this
  rw [readLog, e, this, readLoop_nil]
  simp

/-! ### a log cut at an arbitrary byte -/

theorem readLoop_take (rs : List Rec) (h : ∀ r ∈ rs, r.wf) (n fuel : Nat) (acc : List Rec)
    (good : Nat) (hf : min n (encodeLog rs).length < fuel) :
    ∃ k torn, k ≤ rs.length ∧
      readLoop fuel ((encodeLog rs).take n) acc good
        = .ok (acc ++ rs.take k) (good + (encodeLog (rs.take k)).length) torn ∧
      (encodeLog (rs.take k)).length ≤ n ∧
      (k < rs.length → n < (encodeLog (rs.take (k+1))).length) ∧
      (torn = true ↔ (encodeLog (rs.take k)).length < min n (encodeLog rs).length) := by
  induction rs generalizing n fuel acc good with
  | nil =>
    refine ⟨0, false, Nat.le_refl _, ?_, ?_, ?_, ?_⟩
    · simp [readLoop_nil]
    · simp
    · simp
    · simp
  | cons r rs ih =>
    have hr : r.wf := h r (List.mem_cons_self)
    have hrs : ∀ x ∈ rs, x.wf := fun x hx => h x (List.mem_cons_of_mem _ hx)
    have hfl := frame_length r
    obtain ⟨fuel, rfl⟩ : ∃ f, fuel = f + 1 := ⟨fuel - 1, by omega⟩
    rw [encodeLog_cons, List.length_append] at hf
    by_cases hn : (frame r).length ≤ n
    · -- the first frame is complete
      obtain ⟨k, torn, hk, hread, hle, hnext, htorn⟩ :=
        ih hrs (n - (frame r).length) fuel (acc ++ [r]) (good + (frame r).length) (by omega)
      refine ⟨k + 1, torn, by simp only [List.length_cons]; omega, ?_, ?_, ?_, ?_⟩
      · rw [encodeLog_cons, List.take_append, List.take_of_length_le hn,
          readLoop_frame _ r hr, hread, List.take_succ_cons, encodeLog_cons, List.length_append]
        simp only [List.append_assoc, List.cons_append, List.nil_append, Nat.add_assoc]
      · rw [List.take_succ_cons, encodeLog_cons, List.length_append]; omega
      · intro hlt
        have := hnext (by simp only [List.length_cons] at hlt; omega)
        rw [List.take_succ_cons, encodeLog_cons, List.length_append]; omega
      · rw [htorn, List.take_succ_cons, encodeLog_cons, encodeLog_cons, List.length_append,
          List.length_append]
        omega
    · -- the cut is inside the first frame
      have hn' : n < (frame r).length := by omega
      refine ⟨0, decide (0 < n), Nat.zero_le _, ?_, ?_, ?_, ?_⟩
      · rw [encodeLog_cons, List.take_append, show n - (frame r).length = 0 by omega,
          List.take_zero, List.append_nil, readLoop_cut _ r hr n hn']
        simp
      · simp
      · intro _
        rw [List.take_succ_cons, List.take_zero, encodeLog_cons, encodeLog_nil, List.append_nil]
        exact hn'
      · rw [encodeLog_cons, List.length_append]
        simp only [List.take_zero, encodeLog_nil, List.length_nil, decide_eq_true_eq]
        omega

/-- The crash-cut theorem. -/
theorem readLog_take (rs : List Rec) (h : ∀ r ∈ rs, r.wf) (n : Nat) :
    ∃ k torn, k ≤ rs.length ∧
      readLog ((encodeLog rs).take n)
        = .ok (rs.take k) (encodeLog (rs.take k)).length torn ∧
      (encodeLog (rs.take k)).length ≤ n ∧
      (k < rs.length → n < (encodeLog (rs.take (k+1))).length) ∧
      (torn = true ↔ (encodeLog (rs.take k)).length < min n (encodeLog rs).length) := by
  obtain ⟨k, torn, hk, hread, hrest⟩ :=
    readLoop_take rs h n (((encodeLog rs).take n).length + 1) [] 0
      (by rw [List.length_take]; omega)
  refine ⟨k, torn, hk, ?_, hrest⟩
  rw [readLog, hread]
  simp

/-- what the reader leaves behind after a cut: exactly the complete frames (same `k` as in
`readLog_take`) -/
theorem afterRead_take (rs : List Rec) (h : ∀ r ∈ rs, r.wf) (n : Nat) :
    ∃ k torn, k ≤ rs.length ∧
      readLog ((encodeLog rs).take n)
        = .ok (rs.take k) (encodeLog (rs.take k)).length torn ∧
      (encodeLog (rs.take k)).length ≤ n ∧
      (k < rs.length → n < (encodeLog (rs.take (k+1))).length) ∧
      (torn = true ↔ (encodeLog (rs.take k)).length < min n (encodeLog rs).length) ∧
      afterRead ((encodeLog rs).take n) = encodeLog (rs.take k) := by
  obtain ⟨k, torn, hk, hread, hle, hnext, htorn⟩ := readLog_take rs h n
  refine ⟨k, torn, hk, hread, hle, hnext, htorn, ?_⟩
  have hsplit := encodeLog_take_drop rs k
  have hprefix : (encodeLog rs).take (encodeLog (rs.take k)).length = encodeLog (rs.take k) := by
    rw [← hsplit, List.take_left']
    rfl
  have hlen : (encodeLog (rs.take k)).length ≤ (encodeLog rs).length := by
    rw [← hsplit, List.length_append]; omega
  rw [afterRead, hread]
  cases torn with
  | true =>
    simp only
    rw [List.take_take, Nat.min_eq_left hle, hprefix]
  | false =>
    simp only
    have hnot : ¬ (encodeLog (rs.take k)).length < min n (encodeLog rs).length := by
      intro hc; have := htorn.2 hc; cases this
    by_cases hnL : n ≤ (encodeLog rs).length
    · have : n = (encodeLog (rs.take k)).length := by omega
      rw [this, hprefix]
    · have : (encodeLog (rs.take k)).length = (encodeLog rs).length := by omega
      rw [List.take_of_length_le (by omega)]
      rw [← hprefix, this, List.take_length]

/-- The truncation/append theorem. -/
theorem append_after_cut (rs more : List Rec) (h : ∀ r ∈ rs, r.wf) (h' : ∀ r ∈ more, r.wf)
    (n : Nat) :
    ∃ k, k ≤ rs.length ∧
      readLog (afterRead ((encodeLog rs).take n) ++ encodeLog more)
        = .ok (rs.take k ++ more) (encodeLog (rs.take k ++ more)).length false := by
  obtain ⟨k, _, hk, _, _, _, _, hafter⟩ := afterRead_take rs h n
  refine ⟨k, hk, ?_⟩
  rw [hafter, ← encodeLog_append]
  apply readLog_encodeLog
  intro r hr
  rcases List.mem_append.1 hr with hr | hr
  · exact h r (List.mem_of_mem_take hr)
  · exact h' r hr

/-! ### non-vacuity -/

example : (⟨1, 7, 3, 2, [0xAA, 0xBB]⟩ : Rec).wf := by
  simp only [Rec.wf, List.length_cons, List.length_nil]
  omega

example :
    readLog (encodeLog [⟨1, 7, 3, 2, [0xAA, 0xBB]⟩, ⟨2, 8, 4, 0, []⟩])
      = .ok [⟨1, 7, 3, 2, [0xAA, 0xBB]⟩, ⟨2, 8, 4, 0, []⟩] 60 false := by
  decide

/-- a cut in the middle of the second frame: the first record, flagged torn -/
example :
    readLog ((encodeLog [⟨1, 7, 3, 2, [0xAA, 0xBB]⟩, ⟨2, 8, 4, 0, []⟩]).take 40)
      = .ok [⟨1, 7, 3, 2, [0xAA, 0xBB]⟩] 31 true := by
  decide

end Mkdb.Wal
