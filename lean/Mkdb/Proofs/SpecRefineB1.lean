import Mkdb.Proofs.SpecRefine
import Mkdb.Proofs.NoPanicExec
/-!
End-to-end refinement, part B1: the refusals of DELETE and UPDATE at the level of the spec (C14).

* `filterIds_fail`: when the spec's `selects` cannot evaluate the WHERE on some row, the model's
  `filterIds` returns an executor error (never a panic: the fetched rows have one value per column).
* `evalDelete_refused_spec`, `evalDelete_refused_specV`: `specDelete = none` (unknown table, WHERE not
  evaluable): `evalDelete` fails, NOTHING is changed (`Same`: pages and header; only the cache grew),
  the log is untouched.
* `evalUpdate_refused_spec`, `evalUpdate_refused_specV`: `specUpdate = none` because of an unknown
  table, a column as source, a WHERE that cannot be evaluated, or a FIRST selected row that cannot be
  rewritten: `evalUpdate` fails, nothing is changed, the log is untouched.
-/
set_option autoImplicit false
namespace Mkdb.Store
open Mkdb.Page Mkdb.Tuple Mkdb.Generated Mkdb.Tree

/-! ### the WHERE filter fails with an error -/

theorem rowsOf_len {schema : List FieldDef} {cs : List LeafCell} {r : Nat × List Val}
    (h : r ∈ rowsOf schema cs) : r.2.length = schema.length := by
  unfold rowsOf at h
  obtain ⟨c, _, hr⟩ := List.mem_filterMap.mp h
  unfold rowOf at hr
  cases hd : decRow schema c.val with
  | none => rw [hd] at hr; cases hr
  | some m =>
    rw [hd] at hr
    simp only [Option.map_some, Option.some.injEq] at hr
    rw [← hr, List.length_map]

theorem mapM_cons_none {α β} (f : α → Option β) (a : α) (l : List α) (h : (a :: l).mapM f = none) :
    f a = none ∨ ∃ b, f a = some b ∧ l.mapM f = none := by
  rw [List.mapM_cons] at h
  cases hfa : f a with
  | none => exact .inl rfl
  | some b =>
    right
    refine ⟨b, rfl, ?_⟩
    rw [hfa] at h
    cases hl : l.mapM f with
    | none => rfl
    | some bs => rw [hl] at h; cases h

theorem filterIds_go_fail (c : Sql.Cond) (fields : List Exec.Field) :
    ∀ (rows : List (Nat × List Val)), (∀ r ∈ rows, r.2.length = fields.length) →
      (rows.map mkRow).mapM (fun r =>
        match Exec.evaluate c fields r.vals with
        | .ok v => some (v == .bool true)
        | _ => none) = none →
      ∃ e, Engine.filterIds.go fields c rows = .err e
  | [], _, h => by simp at h
  | r :: rest, hlen, h => by
    rw [List.map_cons] at h
    have hv : (mkRow r).vals = r.2 := rfl
    cases hev : Exec.evaluate c fields r.2 with
    | ok v =>
      rcases mapM_cons_none _ _ _ h with h1 | ⟨b, _, h2⟩
      · rw [hv, hev] at h1; cases h1
      · obtain ⟨e, he⟩ := filterIds_go_fail c fields rest (fun r' hr' => hlen r' (List.mem_cons_of_mem _ hr')) h2
        exact ⟨e, by simp only [Engine.filterIds.go, hev, he]⟩
    | err e => exact ⟨e, by simp only [Engine.filterIds.go, hev]⟩
    | panic p =>
      exact absurd hev (Exec.NoPanicP.evaluate_no_panic c (hlen r List.mem_cons_self) p)

/-- **The WHERE filter, refusal.**  If the spec's `selects` cannot evaluate the condition on some
row of the abstraction of the table, the model's `filterIds` fails with an executor error. -/
theorem filterIds_fail (name : Bytes) (schema : List FieldDef) (rows : List (Nat × List Val))
    (hlen : ∀ r ∈ rows, r.2.length = schema.length) (w : Option Sql.Cond)
    (h : Spec.selects ⟨name, schema, rows.map mkRow⟩ w = none) :
    ∃ e, Engine.filterIds w (schema.map fun fd => ⟨[], fd.name.toUTF8.toList⟩) rows = .err e := by
  cases w with
  | none => simp [Spec.selects] at h
  | some c =>
    exact filterIds_go_fail c _ rows (fun r hr => by rw [hlen r hr, List.length_map]) h

/-! ### DELETE -/

/-- the statement-level errors with which DELETE / UPDATE refuse before touching anything -/
def PreErr (e : Engine.StmtErr) : Prop := e = .store .tableNotExist ∨ ∃ x, e = .exec x

/-- **DELETE refused (C14).**  The spec refuses the statement (`specDelete … = none`: unknown table,
or the WHERE cannot be evaluated on some row): the model's `evalDelete` fails - with
`.store .tableNotExist` resp. the executor's error - BEFORE deleting anything: pages and header are
as before (`Same`), the log is untouched, the abstraction is the same. -/
theorem evalDelete_refused_spec (db : Engine.DB) (pt sch : Levels) (tbls : List (Bytes × Levels))
    (sdb : Spec.SDB) (h : Abs db.store pt sch tbls sdb) (table : Bytes) (w : Option Sql.Cond)
    (hsys : Spec.findTable sdb table = none → table ≠ sysPages ∧ table ≠ sysSchema)
    (hspec : Spec.specDelete sdb table w = none) :
    ∃ e db', Engine.evalDelete db table w = .err e db' ∧ PreErr e ∧
      (Spec.findTable sdb table = none → e = .store .tableNotExist) ∧
      ((Spec.findTable sdb table).isSome → ∃ x, e = .exec x) ∧
      db'.wal = db.wal ∧ Same db.store db'.store ∧ Abs db'.store pt sch tbls sdb := by
  unfold Spec.specDelete at hspec
  cases hfind : Spec.findTable sdb table with
  | none =>
    obtain ⟨h1, h2⟩ := hsys hfind
    have hn : table ∉ tbls.map (·.1) := by
      intro hm
      obtain ⟨e, he, hen⟩ := List.mem_map.mp hm
      obtain ⟨schema, _, _, hf⟩ := h.tabs.find h.cat.tnames (table := table) (t := e.2) (by rw [← hen]; exact he)
      rw [hf] at hfind
      cases hfind
    obtain ⟨s', e, hs, hc⟩ := fetchTable_unknown_table h.cat table h1 h2 hn
    refine ⟨.store .tableNotExist, { db with store := s' }, ?_, .inl rfl, fun _ => rfl, (fun hc => by cases hc), rfl, hs,
      ⟨hc, h.tabs⟩⟩
    simp only [Engine.evalDelete, Engine.fetchForExec, Engine.liftS, e]
  | some st =>
    rw [hfind] at hspec
    simp only [Option.bind_eq_bind, Option.bind_some] at hspec
    cases hsel : Spec.selects st w with
    | some sel => rw [hsel] at hspec; cases hspec
    | none =>
      obtain ⟨t, ht⟩ := h.tabs.find_some hfind
      obtain ⟨schema, hsch, hdec, hf⟩ := h.tabs.find h.cat.tnames ht
      rw [hfind] at hf
      simp only [Option.some.injEq] at hf
      subst hf
      obtain ⟨s1, efetch, hs1, hc1⟩ := fetchTable_cat h.cat table t ht schema hsch hdec
      obtain ⟨x, efilter⟩ := filterIds_fail table schema (rowsOf schema (live t)) (fun r hr => rowsOf_len hr) w hsel
      refine ⟨.exec x, { db with store := s1 }, ?_, .inr ⟨x, rfl⟩, (fun hc => by cases hc), fun _ => ⟨x, rfl⟩, rfl, hs1,
        ⟨hc1, h.tabs⟩⟩
      simp only [Engine.evalDelete, Engine.fetchForExec, Engine.liftS, efetch, efilter]

theorem findTable_none_congr {sdb0 sdb : Spec.SDB} (hv : valsOf sdb0 = valsOf sdb) (n : Bytes) :
    Spec.findTable sdb0 n = none ↔ Spec.findTable sdb n = none := by
  have := findTable_congr sdb0 sdb hv n
  constructor
  · intro h0
    rw [h0] at this
    cases hf : Spec.findTable sdb n with
    | none => rfl
    | some x => rw [hf] at this; cases this
  · intro h0
    rw [h0] at this
    cases hf : Spec.findTable sdb0 n with
    | none => rfl
    | some x => rw [hf] at this; cases this

/-- **DELETE refused, modulo row ids.** -/
theorem evalDelete_refused_specV (db : Engine.DB) (pt sch : Levels) (tbls : List (Bytes × Levels))
    (sdb : Spec.SDB) (h : AbsV db.store pt sch tbls sdb) (table : Bytes) (w : Option Sql.Cond)
    (hsys : Spec.findTable sdb table = none → table ≠ sysPages ∧ table ≠ sysSchema)
    (hspec : Spec.specDelete sdb table w = none) :
    ∃ e db', Engine.evalDelete db table w = .err e db' ∧ PreErr e ∧
      (Spec.findTable sdb table = none → e = .store .tableNotExist) ∧
      ((Spec.findTable sdb table).isSome → ∃ x, e = .exec x) ∧
      db'.wal = db.wal ∧ Same db.store db'.store ∧ AbsV db'.store pt sch tbls sdb := by
  obtain ⟨sdb0, habs, hv⟩ := h
  have hspec0 : Spec.specDelete sdb0 table w = none := by
    cases h0 : Spec.specDelete sdb0 table w with
    | none => rfl
    | some x =>
      obtain ⟨y, hy, _⟩ := specDelete_congr hv.symm table w h0
      rw [hy] at hspec
      cases hspec
  obtain ⟨e, db', he, hp, hn, hsome, hw, hs, habs'⟩ := evalDelete_refused_spec db pt sch tbls sdb0 habs table w
    (fun h0 => hsys ((findTable_none_congr hv table).mp h0)) hspec0
  refine ⟨e, db', he, hp, fun h0 => hn ((findTable_none_congr hv table).mpr h0), ?_, hw, hs, ⟨sdb0, habs', hv⟩⟩
  intro h1
  apply hsome
  cases hf0 : Spec.findTable sdb0 table with
  | some x => rfl
  | none =>
    rw [(findTable_none_congr hv table).mp hf0] at h1
    cases h1

/-! ### UPDATE -/

theorem specAssign_none_iff (schema : List FieldDef) (sets : List (Bytes × Sql.VExpr)) (m : Vals) :
    specAssign schema sets (schema.map fun fd => get m fd.name) = none ↔
      (∃ e, encodeTuple schema (setMap sets ++ m) = .error e) ∨
      ∃ buf, encodeTuple schema (setMap sets ++ m) = .ok buf ∧ buf.length > c_maxValueSize := by
  cases hs : specAssign schema sets (schema.map fun fd => get m fd.name) with
  | some v =>
    obtain ⟨buf, henc, hsz, _⟩ := (specAssign_some_iff schema sets m v).mp hs
    simp only [henc, reduceCtorEq, exists_false, false_or, Except.ok.injEq, exists_eq_left', false_iff]
    omega
  | none =>
    simp only [true_iff]
    cases henc : encodeTuple schema (setMap sets ++ m) with
    | error e => exact .inl ⟨e, rfl⟩
    | ok buf =>
      right
      refine ⟨buf, rfl, ?_⟩
      apply Classical.byContradiction
      intro hle
      have := (specAssign_some_iff schema sets m _).mpr ⟨buf, henc, by omega, rfl⟩
      rw [hs] at this
      cases this

/-- a SET source that is a column: `evalUpdate` refuses at once -/
theorem evalUpdate_col (db : Engine.DB) (table : Bytes) (sets : List (Bytes × Sql.VExpr)) (w : Option Sql.Cond)
    (hcol : ∃ p ∈ sets, ∃ c, p.2 = .col c) : Engine.evalUpdate db table sets w = .err .unsupported db := by
  unfold Engine.evalUpdate
  split
  · rfl
  · rename_i hany
    exfalso
    apply hany
    obtain ⟨p, hp, c, hpc⟩ := hcol
    rw [List.any_eq_true]
    exact ⟨p, hp, by simp only [hpc]⟩

/-- without a column source `evalUpdate` fetches, checks the SET columns, filters and runs its loop -/
theorem evalUpdate_nocol (db : Engine.DB) (table : Bytes) (sets : List (Bytes × Sql.VExpr)) (w : Option Sql.Cond)
    (hnocol : ∀ p ∈ sets, ∀ c, p.2 ≠ .col c) :
    Engine.evalUpdate db table sets w =
      Engine.fetchForExec db table fun rows fields s =>
        match Engine.checkSetColumns fields [] (sets.map (·.1)) with
        | some e => .err (.store e) { db with store := s }
        | none =>
        match Engine.filterIds w fields rows with
        | .err e => .err (.exec e) { db with store := s }
        | .panic p => .panic p
        | .ok sel =>
          Engine.evalUpdate.go db table (sets.map fun p => Engine.bytesToName p.1)
            (sets.map fun p => match p.2 with | .lit l => Engine.litToVal l | .col _ => Val.null) s [] sel := by
  unfold Engine.evalUpdate
  split
  · rename_i hanyE
    exfalso
    rw [List.any_eq_true] at hanyE
    obtain ⟨p, hp, hpe⟩ := hanyE
    cases hp2 : p.2 with
    | lit l => rw [hp2] at hpe; cases hpe
    | col c => exact hnocol p hp c hp2
  · rfl

theorem specUpdate_col (sdb : Spec.SDB) (table : Bytes) (sets : List (Bytes × Sql.VExpr)) (w : Option Sql.Cond)
    (hcol : ∃ p ∈ sets, ∃ c, p.2 = .col c) : Spec.specUpdate sdb table sets w = none := by
  rw [specUpdate_eq]
  cases Spec.findTable sdb table with
  | none => rfl
  | some st =>
    simp only [Option.bind_some]
    split
    · rfl
    · rename_i hany
      exfalso
      apply hany
      obtain ⟨p, hp, c, hpc⟩ := hcol
      rw [List.any_eq_true]
      exact ⟨p, hp, by simp only [hpc]⟩

/-- the spec's `specUpdate` without a column source -/
theorem specUpdate_nocol (sdb : Spec.SDB) (table : Bytes) (sets : List (Bytes × Sql.VExpr)) (w : Option Sql.Cond)
    (hnocol : ∀ p ∈ sets, ∀ c, p.2 ≠ .col c) :
    Spec.specUpdate sdb table sets w =
      (Spec.findTable sdb table).bind fun t =>
        if !Spec.namesOK t (sets.map fun p => Spec.nameStr p.1) then none else
        (Spec.selects t w).bind fun sel =>
          ((t.rows.zip sel).mapM (specUpdRow t.cols sets)).bind fun rows' =>
            some (sdb.map fun x => if x.name == table then { x with rows := rows' } else x) := by
  rw [specUpdate_eq]
  cases Spec.findTable sdb table with
  | none => rfl
  | some st =>
    simp only [Option.bind_some]
    split
    · rename_i hanyE
      exfalso
      rw [List.any_eq_true] at hanyE
      obtain ⟨p, hp, hpe⟩ := hanyE
      cases hp2 : p.2 with
      | lit l => rw [hp2] at hpe; cases hpe
      | col c => exact hnocol p hp c hp2
    · rfl

/-- the values of the rows a selection vector selects, in order -/
def selVals (st : Spec.STable) (sel : List Bool) : List (List Val) :=
  (((st.rows.map (·.vals)).zip sel).filter (·.2)).map (·.1)

theorem selVals_selRows : ∀ (rows : List (Nat × List Val)) (sel : List Bool),
    ((((rows.map mkRow).map (·.vals)).zip sel).filter (·.2)).map (·.1) = (selRows rows sel).map (·.2)
  | [], _ => by simp [selRows]
  | _ :: _, [] => by simp [selRows]
  | r :: rows, b :: sel => by
    have ih := selVals_selRows rows sel
    rw [selRows_cons]
    cases b
    · simpa using ih
    · simp only [List.map_cons, List.zip_cons_cons, List.filter_cons, if_true, ih]
      rfl

theorem mem_selVals {st : Spec.STable} {sel : List Bool} {v : List Val} (h : v ∈ selVals st sel) :
    ∃ r, (r, true) ∈ st.rows.zip sel ∧ r.vals = v := by
  unfold selVals at h
  obtain ⟨p, hp, hpv⟩ := List.mem_map.mp h
  obtain ⟨hpz, hp2⟩ := List.mem_filter.mp hp
  rw [List.zip_map_left] at hpz
  obtain ⟨q, hq, hqp⟩ := List.mem_map.mp hpz
  refine ⟨q.1, ?_, ?_⟩
  · have : q.2 = true := by rw [← hqp] at hp2; exact hp2
    rw [← this]; exact hq
  · rw [← hpv, ← hqp]; rfl

/-- a selected row the spec's `assign` refuses makes the spec refuse the statement -/
theorem specUpdate_none_of_selected (sdb : Spec.SDB) (table : Bytes) (sets : List (Bytes × Sql.VExpr))
    (w : Option Sql.Cond) (hnocol : ∀ p ∈ sets, ∀ c, p.2 ≠ .col c) (st : Spec.STable) (sel : List Bool)
    (hfind : Spec.findTable sdb table = some st) (hsel : Spec.selects st w = some sel)
    (v : List Val) (hv : v ∈ selVals st sel) (hno : specAssign st.cols sets v = none) :
    Spec.specUpdate sdb table sets w = none := by
  rw [specUpdate_nocol sdb table sets w hnocol, hfind, Option.bind_some, hsel, Option.bind_some]
  obtain ⟨r, hr, hrv⟩ := mem_selVals hv
  rw [mapM_none_of_mem _ _ ⟨(r, true), hr, by simp only [specUpdRow, if_true, hrv, hno, Option.map_none]⟩]
  split <;> rfl

/-- why the spec refuses an UPDATE before / at its first row -/
inductive UpdRefusal (sdb : Spec.SDB) (table : Bytes) (sets : List (Bytes × Sql.VExpr)) (w : Option Sql.Cond) : Prop
  | col : (∃ p ∈ sets, ∃ c, p.2 = .col c) → UpdRefusal sdb table sets w
  | unknown : (∀ p ∈ sets, ∀ c, p.2 ≠ .col c) → Spec.findTable sdb table = none →
      table ≠ sysPages → table ≠ sysSchema → UpdRefusal sdb table sets w
  | where_ (st : Spec.STable) : (∀ p ∈ sets, ∀ c, p.2 ≠ .col c) → Spec.findTable sdb table = some st →
      Spec.selects st w = none → UpdRefusal sdb table sets w
  | firstRow (st : Spec.STable) (sel : List Bool) (v : List Val) (rest : List (List Val)) :
      (∀ p ∈ sets, ∀ c, p.2 ≠ .col c) → Spec.findTable sdb table = some st →
      Spec.selects st w = some sel → selVals st sel = v :: rest → specAssign st.cols sets v = none →
      UpdRefusal sdb table sets w
  | names (st : Spec.STable) : (∀ p ∈ sets, ∀ c, p.2 ≠ .col c) → Spec.findTable sdb table = some st →
      Spec.namesOK st (sets.map fun p => Spec.nameStr p.1) = false → UpdRefusal sdb table sets w

/-- the first row the model's loop visits cannot be rewritten: the statement fails there -/
theorem evalUpdate_go_first_err (db : Engine.DB) (table : Bytes) (cols : List String) (src : List Val)
    (r : Nat × List Val) (rest : List (Nat × List Val)) (s s' : Store) (batch : List WalRec) (e : SErr)
    (h : update table r.1 cols src s = .err e s') :
    Engine.evalUpdate.go db table cols src s batch (r :: rest) = .err (.store e) { db with store := s' } := by
  simp only [Engine.evalUpdate.go, h]

/-- a live cell whose overridden tuple is refused by the spec's `assign`: `Store.update` of its row id
fails; nothing changes but the cache -/
theorem update_refused_cat {s : Store} {pt sch : Levels} {tbls : List (Bytes × Levels)} (h : Cat s pt sch tbls)
    (table : Bytes) (t : Levels) (ht : (table, t) ∈ tbls) (schema : List FieldDef)
    (hsch : schemaOf sch table = some schema) (sets : List (Bytes × Sql.VExpr))
    (hnames : checkColumns schema (sets.map fun p => Engine.bytesToName p.1) = none)
    (c : LeafCell) (hc : c ∈ live t) (m : Vals) (hdec : decodeTuple schema c.val [] = .ok m)
    (hno : specAssign schema sets (schema.map fun fd => get m fd.name) = none) :
    ∃ e s', update table c.key (sets.map fun p => Engine.bytesToName p.1)
        (sets.map fun p => match p.2 with | .lit l => Engine.litToVal l | .col _ => Val.null) s = .err e s' ∧
      (e = .typeMismatch ∨ e = .intOutOfRange ∨ e = .rowTooLarge) ∧ Same s s' ∧ Cat s' pt sch tbls := by
  rcases (specAssign_none_iff schema sets m).mp hno with ⟨err, henc⟩ | ⟨buf, henc, hsz⟩
  · have henc' : encodeTuple schema (((sets.map fun p => Engine.bytesToName p.1).zip
        (sets.map fun p => match p.2 with | .lit l => Engine.litToVal l | .col _ => Val.null)).reverse ++ m) =
        .error err := henc
    obtain ⟨s', e, hs, hc'⟩ := update_cat_encode_error h table t ht schema hsch c.key _ _ hnames c hc rfl m err hdec henc'
    refine ⟨serrOf err, s', e, ?_, hs, hc'⟩
    rcases encodeTuple_err _ _ _ henc with rfl | rfl
    · exact .inl rfl
    · exact .inr (.inl rfl)
  · have henc' : encodeTuple schema (((sets.map fun p => Engine.bytesToName p.1).zip
        (sets.map fun p => match p.2 with | .lit l => Engine.litToVal l | .col _ => Val.null)).reverse ++ m) =
        .ok buf := henc
    obtain ⟨s', e, hs, hc'⟩ := update_cat_too_large h table t ht schema hsch c.key _ _ hnames c hc rfl m buf hdec henc' hsz
    exact ⟨.rowTooLarge, s', e, .inr (.inr rfl), hs, hc'⟩

/-- a fetched row and the cell it was built from -/
theorem mem_rowsOf_cell {schema : List FieldDef} {cs : List LeafCell} {r : Nat × List Val}
    (h : r ∈ rowsOf schema cs) :
    ∃ c ∈ cs, c.key = r.1 ∧ ∃ m, decodeTuple schema c.val [] = .ok m ∧ r.2 = schema.map fun fd => get m fd.name := by
  unfold rowsOf at h
  obtain ⟨c, hc, hr⟩ := List.mem_filterMap.mp h
  refine ⟨c, hc, (rowOf_key hr).symm, ?_⟩
  unfold rowOf at hr
  unfold decRow at hr
  cases hd : decodeTuple schema c.val [] with
  | error e => rw [hd] at hr; cases hr
  | ok m =>
    rw [hd] at hr
    simp only [Option.map_some, Option.some.injEq] at hr
    exact ⟨m, rfl, by rw [← hr]⟩

/-- the errors with which UPDATE refuses before / at its first row -/
def UpdErr (e : Engine.StmtErr) : Prop :=
  e = .unsupported ∨ PreErr e ∨ e = .store .typeMismatch ∨ e = .store .intOutOfRange ∨ e = .store .rowTooLarge ∨
    e = .store .fieldNotFound ∨ e = .store .fieldAmbiguous

theorem UpdErr.of_checkSetColumns {fields : List Exec.Field} {cs : List Bytes} {e : SErr}
    (h : Engine.checkSetColumns fields [] cs = some e) : UpdErr (.store e) := by
  rcases checkSetColumns_some fields cs [] e h with rfl | rfl
  · exact .inr (.inr (.inr (.inr (.inr (.inl rfl)))))
  · exact .inr (.inr (.inr (.inr (.inr (.inr rfl)))))

/-- the SET columns fail the statement's check: `evalUpdate` fails with the error of the check right
after the fetch - before the WHERE clause is looked at, whatever it selects; nothing changes but the
cache -/
theorem evalUpdate_names_err (db : Engine.DB) {pt sch : Levels} {tbls : List (Bytes × Levels)}
    (h : Cat db.store pt sch tbls) (table : Bytes) (t : Levels) (ht : (table, t) ∈ tbls)
    (schema : List FieldDef) (hsch : schemaOf sch table = some schema)
    (hdec : ∀ c ∈ live t, ∃ m, decodeTuple schema c.val [] = .ok m)
    (sets : List (Bytes × Sql.VExpr)) (w : Option Sql.Cond) (hnocol : ∀ p ∈ sets, ∀ c, p.2 ≠ .col c) (e : SErr)
    (hset : Engine.checkSetColumns (schema.map fun fd => (⟨[], fd.name.toUTF8.toList⟩ : Exec.Field)) []
      (sets.map (·.1)) = some e) :
    ∃ s1, Engine.evalUpdate db table sets w = .err (.store e) { db with store := s1 } ∧
      Same db.store s1 ∧ Cat s1 pt sch tbls := by
  obtain ⟨s1, efetch, hs1, hc1⟩ := fetchTable_cat h table t ht schema hsch hdec
  refine ⟨s1, ?_, hs1, hc1⟩
  rw [evalUpdate_nocol db table sets w hnocol]
  simp only [Engine.fetchForExec, Engine.liftS, efetch, hset]

/-- **UPDATE refused before anything is rewritten (C14).**  The spec refuses the statement because of a
column as SET source, an unknown table, a SET column the table does not have or one set twice (whatever
the WHERE selects, also nothing), a WHERE that cannot be evaluated, or because the FIRST selected row
cannot be rewritten (the overridden tuple does not encode or is over the size limit): the model's
`evalUpdate` fails, pages and header are as before (`Same`), the log is untouched, the abstraction is
the same. -/
theorem evalUpdate_refused_spec (db : Engine.DB) (pt sch : Levels) (tbls : List (Bytes × Levels))
    (sdb : Spec.SDB) (h : Abs db.store pt sch tbls sdb) (table : Bytes)
    (sets : List (Bytes × Sql.VExpr)) (w : Option Sql.Cond) (hbad : UpdRefusal sdb table sets w) :
    Spec.specUpdate sdb table sets w = none ∧
    ∃ e db', Engine.evalUpdate db table sets w = .err e db' ∧ UpdErr e ∧
      db'.wal = db.wal ∧ Same db.store db'.store ∧ Abs db'.store pt sch tbls sdb := by
  cases hbad with
  | col hcol =>
    exact ⟨specUpdate_col sdb table sets w hcol, .unsupported, db, evalUpdate_col db table sets w hcol, .inl rfl,
      rfl, Same.refl _, h⟩
  | unknown hnocol hfind h1 h2 =>
    refine ⟨by rw [specUpdate_nocol sdb table sets w hnocol, hfind]; rfl, ?_⟩
    have hn : table ∉ tbls.map (·.1) := by
      intro hm
      obtain ⟨e, he, hen⟩ := List.mem_map.mp hm
      obtain ⟨schema, _, _, hf⟩ := h.tabs.find h.cat.tnames (table := table) (t := e.2) (by rw [← hen]; exact he)
      rw [hf] at hfind
      cases hfind
    obtain ⟨s', e, hs, hc⟩ := fetchTable_unknown_table h.cat table h1 h2 hn
    refine ⟨.store .tableNotExist, { db with store := s' }, ?_, .inr (.inl (.inl rfl)), rfl, hs, ⟨hc, h.tabs⟩⟩
    rw [evalUpdate_nocol db table sets w hnocol]
    simp only [Engine.fetchForExec, Engine.liftS, e]
  | names st hnocol hfind hbadn =>
    refine ⟨by rw [specUpdate_nocol sdb table sets w hnocol, hfind, Option.bind_some, hbadn]; rfl, ?_⟩
    obtain ⟨t, ht⟩ := h.tabs.find_some hfind
    obtain ⟨schema, hsch, hdec, hf⟩ := h.tabs.find h.cat.tnames ht
    rw [hfind] at hf
    simp only [Option.some.injEq] at hf
    subst hf
    obtain ⟨e, hset, _⟩ := checkSetColumns_some_of_not_namesOK (absTable table schema t) (sets.map (·.1))
      (by rw [List.map_map]; exact hbadn)
    obtain ⟨s1, he, hs1, hc1⟩ := evalUpdate_names_err db h.cat table t ht schema hsch hdec sets w hnocol e hset
    exact ⟨.store e, { db with store := s1 }, he, UpdErr.of_checkSetColumns hset, rfl, hs1, ⟨hc1, h.tabs⟩⟩
  | where_ st hnocol hfind hsel =>
    refine ⟨by rw [specUpdate_nocol sdb table sets w hnocol, hfind, Option.bind_some, hsel]; split <;> rfl, ?_⟩
    obtain ⟨t, ht⟩ := h.tabs.find_some hfind
    obtain ⟨schema, hsch, hdec, hf⟩ := h.tabs.find h.cat.tnames ht
    rw [hfind] at hf
    simp only [Option.some.injEq] at hf
    subst hf
    cases hset : Engine.checkSetColumns (schema.map fun fd => (⟨[], fd.name.toUTF8.toList⟩ : Exec.Field)) []
        (sets.map (·.1)) with
    | some e =>
      obtain ⟨s1, he, hs1, hc1⟩ := evalUpdate_names_err db h.cat table t ht schema hsch hdec sets w hnocol e hset
      exact ⟨.store e, { db with store := s1 }, he, UpdErr.of_checkSetColumns hset, rfl, hs1, ⟨hc1, h.tabs⟩⟩
    | none =>
    obtain ⟨s1, efetch, hs1, hc1⟩ := fetchTable_cat h.cat table t ht schema hsch hdec
    obtain ⟨x, efilter⟩ := filterIds_fail table schema (rowsOf schema (live t)) (fun r hr => rowsOf_len hr) w hsel
    refine ⟨.exec x, { db with store := s1 }, ?_, .inr (.inl (.inr ⟨x, rfl⟩)), rfl, hs1, ⟨hc1, h.tabs⟩⟩
    rw [evalUpdate_nocol db table sets w hnocol]
    simp only [Engine.fetchForExec, Engine.liftS, efetch, hset, efilter]
  | firstRow st sel v rest hnocol hfind hsel hfirst hno =>
    obtain ⟨t, ht⟩ := h.tabs.find_some hfind
    obtain ⟨schema, hsch, hdec, hf⟩ := h.tabs.find h.cat.tnames ht
    rw [hfind] at hf
    simp only [Option.some.injEq] at hf
    subst hf
    have hspecnone : Spec.specUpdate sdb table sets w = none :=
      specUpdate_none_of_selected sdb table sets w hnocol _ sel hfind hsel v
        (by rw [hfirst]; exact List.mem_cons_self) hno
    cases hset : Engine.checkSetColumns (schema.map fun fd => (⟨[], fd.name.toUTF8.toList⟩ : Exec.Field)) []
        (sets.map (·.1)) with
    | some e =>
      obtain ⟨s1, he, hs1, hc1⟩ := evalUpdate_names_err db h.cat table t ht schema hsch hdec sets w hnocol e hset
      exact ⟨hspecnone, .store e, { db with store := s1 }, he, UpdErr.of_checkSetColumns hset, rfl, hs1,
        ⟨hc1, h.tabs⟩⟩
    | none =>
    have hcc : checkColumns schema (sets.map fun p => Engine.bytesToName p.1) = none := by
      have := checkSetColumns_none_checkColumns schema _ hset
      rwa [List.map_map] at this
    obtain ⟨s1, efetch, hs1, hc1⟩ := fetchTable_cat h.cat table t ht schema hsch hdec
    obtain ⟨efilter, hsl⟩ := filterIds_selects table schema (rowsOf schema (live t)) w sel hsel
    -- the first selected row
    have hsv : (selRows (rowsOf schema (live t)) sel).map (·.2) = v :: rest := by
      rw [← selVals_selRows]; exact hfirst
    cases hsr : selRows (rowsOf schema (live t)) sel with
    | nil => rw [hsr] at hsv; cases hsv
    | cons r rs =>
      rw [hsr] at hsv efilter
      simp only [List.map_cons, List.cons.injEq] at hsv
      have hrmem : r ∈ rowsOf schema (live t) := (selRows_sublist _ sel).subset (by rw [hsr]; exact List.mem_cons_self)
      obtain ⟨c, hc, hck, m, hm, hr2⟩ := mem_rowsOf_cell hrmem
      have hno' : specAssign schema sets (schema.map fun fd => get m fd.name) = none := by
        rw [← hr2, hsv.1]; exact hno
      obtain ⟨e, s2, he, hkind, hs2, hc2⟩ := update_refused_cat hc1 table t ht schema hsch sets hcc c hc m hm hno'
      rw [hck] at he
      constructor
      · exact hspecnone
      · refine ⟨.store e, { db with store := s2 }, ?_, ?_, rfl, hs1.trans hs2, ⟨hc2, h.tabs⟩⟩
        · rw [evalUpdate_nocol db table sets w hnocol]
          simp only [Engine.fetchForExec, Engine.liftS, efetch, hset, efilter]
          exact evalUpdate_go_first_err db table _ _ r rs s1 s2 [] e he
        · rcases hkind with rfl | rfl | rfl
          · exact .inr (.inr (.inl rfl))
          · exact .inr (.inr (.inr (.inl rfl)))
          · exact .inr (.inr (.inr (.inr (.inl rfl))))

theorem UpdRefusal.congr {sdb0 sdb : Spec.SDB} (hv : valsOf sdb0 = valsOf sdb) {table : Bytes}
    {sets : List (Bytes × Sql.VExpr)} {w : Option Sql.Cond} (h : UpdRefusal sdb table sets w) :
    UpdRefusal sdb0 table sets w := by
  cases h with
  | col hcol => exact .col hcol
  | unknown hnocol hfind h1 h2 => exact .unknown hnocol ((findTable_none_congr hv table).mpr hfind) h1 h2
  | where_ st hnocol hfind hsel =>
    obtain ⟨st0, hf0, htv⟩ := findTable_congr_some hv hfind
    exact .where_ st0 hnocol hf0 (by rw [selects_congr htv w]; exact hsel)
  | firstRow st sel v rest hnocol hfind hsel hfirst hno =>
    obtain ⟨st0, hf0, htv⟩ := findTable_congr_some hv hfind
    refine .firstRow st0 sel v rest hnocol hf0 (by rw [selects_congr htv w]; exact hsel) ?_ ?_
    · unfold selVals at hfirst ⊢
      rw [tv_rows htv]; exact hfirst
    · rw [tv_cols htv]; exact hno
  | names st hnocol hfind hbadn =>
    obtain ⟨st0, hf0, htv⟩ := findTable_congr_some hv hfind
    exact .names st0 hnocol hf0 (by rw [namesOK_congr (tv_cols htv)]; exact hbadn)

/-- **UPDATE refused before anything is rewritten, modulo row ids.** -/
theorem evalUpdate_refused_specV (db : Engine.DB) (pt sch : Levels) (tbls : List (Bytes × Levels))
    (sdb : Spec.SDB) (h : AbsV db.store pt sch tbls sdb) (table : Bytes)
    (sets : List (Bytes × Sql.VExpr)) (w : Option Sql.Cond) (hbad : UpdRefusal sdb table sets w) :
    Spec.specUpdate sdb table sets w = none ∧
    ∃ e db', Engine.evalUpdate db table sets w = .err e db' ∧ UpdErr e ∧
      db'.wal = db.wal ∧ Same db.store db'.store ∧ AbsV db'.store pt sch tbls sdb := by
  obtain ⟨sdb0, habs, hv⟩ := h
  obtain ⟨hnone0, e, db', he, hk, hw, hs, habs'⟩ := evalUpdate_refused_spec db pt sch tbls sdb0 habs table sets w
    (hbad.congr hv)
  refine ⟨?_, e, db', he, hk, hw, hs, ⟨sdb0, habs', hv⟩⟩
  cases h0 : Spec.specUpdate sdb table sets w with
  | none => rfl
  | some x =>
    obtain ⟨y, hy, _⟩ := specUpdate_congr hv table sets w h0
    rw [hy] at hnone0
    cases hnone0

end Mkdb.Store
