import Mkdb.Proofs.BaseCase
import Mkdb.Proofs.ReplayCkpt8
/-!
# The base case, part 2: the new database is checkpointed

`PtSelf`, `FreshM`, `OnDisk` and hence `Ckpt` for the database `newDB` a fresh `CREATE DATABASE` leaves
(`BaseCase`), with the empty plain database; the corollary for rounds of flushes, crashes and
recoveries (`from_create_database_rounds`); the catalog description of `newDB` is unique
(`rel_newDB_unique`), so the one-statement history `CREATE TABLE t (a INT)` meets `HistOK`.

`Rounds` has no CREATE TABLE and keeps `sys_schema` fixed: from the EMPTY plain database no row
statement is accepted (`specRun_of_empty`), so the rounds from `newDB` are rounds of flushes, crashes
and recoveries without statements.
-/
set_option autoImplicit false
namespace Mkdb.Store
open Mkdb.Page Mkdb.Tuple Mkdb.Generated Mkdb.Tree Mkdb.Engine

/-- **Base case of `PtSelf`**: the row of `sys_pages` in the page table names the page table's root
(its only page) -/
theorem ptNew_self : PtSelf ptNew := by
  intro off hm
  rw [ptNew_entries] at hm
  simp only [List.mem_cons, Prod.mk.injEq, List.not_mem_nil, or_false] at hm
  rcases hm with ⟨_, rfl⟩ | ⟨h, _⟩
  · decide
  · rw [sysPages_eq, sysSchema_eq] at h
    exact absurd h (by decide)

/-- **Base case of `FreshM`** (no user tables; the allocation frontier is not 0) -/
theorem freshM_newDB : FreshM newDB.store [] where
  lsn := fun e he => by cases he
  nf := by decide
  pos := fun e he => by cases he

/-- both catalog pages are in the data file and clean: the flush `CreateDB` ends with -/
theorem onDisk_newDB : OnDisk newDB.store ptNew schNew [] := by
  intro x hx e he
  simp only [catTrees, List.map_nil, List.mem_cons, List.not_mem_nil, or_false] at hx
  rcases hx with rfl | rfl
  · simp [flatten, ptNew] at he; subst he; exact ⟨rfl, rfl⟩
  · simp [flatten, schNew] at he; subst he; exact ⟨rfl, rfl⟩

/-- **Base case of `Ckpt`.**  The database `CREATE DATABASE` leaves is a checkpointed database for the
empty plain database: the log is empty, the header and both catalog pages are in the data file. -/
theorem ckpt_newDB : Ckpt schNew newDB [] ptNew [] where
  abs := absV_newDB
  self := ptNew_self
  fresh := freshM_newDB
  filed := memFiled_newDB
  log := fun r hr => by cases hr
  lsn := fun r hr => by cases hr
  keys := fun r hr => by cases hr
  dhdr := rfl
  disk := onDisk_newDB

/-- **Rounds from a fresh `CREATE DATABASE`**: any number of rounds of `statements ; flush` and
`statements ; crash ; recovery` from the database `CREATE DATABASE` leaves end in a checkpointed
database for the plain-model state of all acknowledged statements. -/
theorem from_create_database_rounds {db' : Engine.DB} {sdb' : Spec.SDB}
    (hist : Rounds schNew newDB [] db' sdb') : ∃ pt' tbls', Ckpt schNew db' sdb' pt' tbls' :=
  rounds_ckpt hist ckpt_newDB

/-- … and no recovery in such a history fails -/
theorem from_create_database_recover {db1 dbN : Engine.DB} {sdb1 sdbN : Spec.SDB} {stmts : List EStmt}
    (hist : Rounds schNew newDB [] db1 sdb1) (run : SpecRun schNew db1 sdb1 stmts dbN sdbN) (o1 o2 : List Nat) :
    ∃ db2, Engine.recover dbN o1 o2 = .ok db2 ∧ Rounds schNew newDB [] db2 sdbN ∧
      ∃ pt2 tbls2, AbsV db2.store pt2 schNew tbls2 sdbN ∧ ∀ r ∈ db2.wal, Applied tbls2 db2.store r :=
  rounds_recover ckpt_newDB hist run o1 o2

/-! ### what the rounds from the new database are -/

/-- the empty plain database accepts no row statement: a run of statements from it is the empty run -/
theorem specRun_of_empty {sch : Levels} {db dbN : Engine.DB} {sdbN : Spec.SDB} {stmts : List EStmt}
    (run : SpecRun sch db [] stmts dbN sdbN) : stmts = [] ∧ dbN = db ∧ sdbN = [] := by
  cases run with
  | nil => exact ⟨rfl, rfl, rfl⟩
  | insert table cols rows _ hspec => cases hspec
  | delete table w hspec => cases hspec
  | update table sets w _ hspec => cases hspec

/-- **Non-vacuity of the rounds**: the new database is flushed, then crashes and is recovered; both
succeed and form a `Rounds` history, which ends checkpointed for the empty plain database. -/
theorem rounds_newDB_example : ∃ db1 db2, Engine.flush newDB [] = .ok () db1 ∧
    Engine.recover db1 [] [] = .ok db2 ∧ Rounds schNew newDB [] db2 [] ∧
    ∃ pt' tbls', Ckpt schNew db2 [] pt' tbls' := by
  obtain ⟨db1, _, _, e1, _, hk1⟩ := ckpt_newDB.flush_round (.nil newDB []) []
  obtain ⟨db2, _, _, e2, _, hk2⟩ := hk1.recover_round (.nil db1 []) [] []
  exact ⟨db1, db2, e1, e2, .crash (.flush .nil (.nil newDB []) e1) (.nil db1 []) e2, _, _, hk2⟩

/-! ### the catalog description of the new database is unique -/

/-- whatever catalog description the new database has, it is `ptNew`, `schNew`, no user tables -/
theorem cat_newDB_unique {pt sch : Levels} {tbls : List (Bytes × Levels)} (h : Cat newDB.store pt sch tbls) :
    pt = ptNew ∧ sch = schNew ∧ tbls = [] := by
  have hpt : pt = ptNew := h.pt_unique cat_newDB
  subst hpt
  refine ⟨rfl, ?_, ?_⟩
  · obtain ⟨a, b, c, _, _⟩ := h.tree sch Cat.sch_mem
    obtain ⟨a2, b2, c2, _, _⟩ := cat_newDB.tree schNew Cat.sch_mem
    refine holds_unique a b c a2 b2 c2 ?_
    have he := h.esch
    rw [ptNew_entries] at he
    simp only [List.mem_cons, Prod.mk.injEq, List.not_mem_nil, or_false] at he
    rcases he with ⟨h1, _⟩ | ⟨_, h2⟩
    · rw [sysPages_eq, sysSchema_eq] at h1
      exact absurd h1 (by decide)
    · exact h2
  · cases tbls with
    | nil => rfl
    | cons e rest =>
      have he := h.etb e List.mem_cons_self
      rw [ptNew_entries] at he
      simp only [List.mem_cons, Prod.mk.injEq, List.not_mem_nil, or_false] at he
      have hm : e.1 ∈ (e :: rest).map (·.1) := List.mem_map.mpr ⟨e, List.mem_cons_self, rfl⟩
      rcases he with ⟨h1, _⟩ | ⟨h1, _⟩
      · exact absurd (h1 ▸ hm) h.tsys.1
      · exact absurd (h1 ▸ hm) h.tsys.2

/-- … and the plain database it is related to is the empty one -/
theorem rel_newDB_unique {pt sch : Levels} {tbls : List (Bytes × Levels)} {sdb : Spec.SDB}
    (h : Rel newDB pt sch tbls sdb) : pt = ptNew ∧ sch = schNew ∧ tbls = [] ∧ sdb = [] := by
  obtain ⟨⟨sdb0, habs, hv⟩, _, _⟩ := h
  obtain ⟨rfl, rfl, rfl⟩ := cat_newDB_unique habs.cat
  refine ⟨rfl, rfl, rfl, ?_⟩
  have h0 : sdb0 = [] := by
    cases habs.tabs
    rfl
  subst h0
  cases sdb with
  | nil => rfl
  | cons a l => simp [valsOf] at hv

/-- the one-statement history `[CREATE TABLE t (a INT)]` meets `HistOK`: `from_create_database_history`
is not vacuous -/
theorem histOK_create_t : HistOK [] [.createTable tname acols] newDB [] := by
  refine ⟨?_, ?_, fun _ _ => trivial⟩
  · intro _ pt sch tbls hrel
    obtain ⟨rfl, rfl, rfl, _⟩ := rel_newDB_unique hrel
    exact room_create_t
  · intro h; rw [spec_create_t] at h; cases h

/-- the history `[CREATE TABLE t (a INT)]` from a fresh `CREATE DATABASE`, through
`from_create_database_history` -/
theorem history_create_t : ∃ db' pt' sch' tbls', runHist [] newDB [.createTable tname acols] = some db' ∧
    Rel db' pt' sch' tbls' [⟨tname, [⟨"a", .int, 0⟩], []⟩] := by
  have h := from_create_database_history [.createTable tname acols] histOK_create_t
  simp only [specHist, spec_create_t, Option.getD_some] at h
  exact h

end Mkdb.Store
