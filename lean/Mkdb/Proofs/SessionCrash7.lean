import Mkdb.Proofs.SessionCrash6
/-!
Sessions and crashes, part 7: **the crash invariant of a database, up to the cache** (storage level).

`DbCrash db sdb` (SessionCrash1) says that `db` IS the end of a run of accepted row statements from a
checkpoint (`SpecRun`).  A statement the database refuses before it changes anything still reads pages -
`fetch` files every page it reads in the cache - so the database after it is not the end of such a run any
more, although nothing the engine can see has changed.

* `DbCrashL db sdb`: the weaker invariant the crash theorems really use: `db.store` is reached from the store
  of a checkpoint by a LIVE RUN (`LiveRunM`: row operations, and steps `Same` in which only the cache grows),
  the log is the checkpoint's log followed by the records of the run, the store abstracts to `sdb`, the cache
  is filed and the data file is the checkpoint's.
* `DbCrash.toL`: `DbCrash` implies it.
* `DbCrashL.flush`, `DbCrashL.recover`: **the flush and - after a crash - start-up recovery of such a database
  succeed and give a checkpointed database for the same plain database** (the proofs of
  `Ckpt.flush_round_full` / `Ckpt.replay_reopened` / `Ckpt.recover_round_full`, which use the run of
  statements only through its live run).
* `DbCrashL.same`: **a step in which only the cache grows keeps it** - this is what a refused statement is.
* `DbCrashL.step`: one more accepted row statement keeps it.
* `evalStmt_err_disk_filed`: a refused statement does not write the data file and keeps the cache filed.

NOT covered: a refusal that advances the row-id / LSN counters (an INSERT whose first row is too large is
refused inside `btInsert`, after the counters moved): `Same` asks for the same header, and `LiveRunM` has no
step for a counter that moves without a log record.
-/
set_option autoImplicit false
namespace Mkdb.Store
open Mkdb.Page Mkdb.Tuple Mkdb.Generated Mkdb.Tree Mkdb.Engine

/-- **The crash invariant of a database in use, up to the cache**: reached from the store of a checkpoint by
a live run (row operations and cache-only steps). -/
def DbCrashL (db : Engine.DB) (sdb : Spec.SDB) : Prop :=
  ∃ sch db0 sdb0 pt0 tbls0 ptN tblsN stmtsM logs,
    Ckpt sch db0 sdb0 pt0 tbls0 ∧ NoStale sch tblsN ∧
    LiveRunM sch db0.store tbls0 stmtsM db.store tblsN logs ∧ db.wal = db0.wal ++ logs ∧
    AbsV db.store ptN sch tblsN sdb ∧ MemFiled db.store ∧ DiskSame db0.store db.store

/-- the live facts of a live run from a checkpointed database (`Ckpt.run_facts` without the statements) -/
theorem ckpt_live_facts {sch : Levels} {db dbN : Engine.DB} {sdb sdbN : Spec.SDB} {pt ptN : Levels}
    {tbls tblsN : List (Bytes × Levels)} {stmtsM : List RStmt} {logs : List WalRec}
    (h : Ckpt sch db sdb pt tbls) (hrun : LiveRunM sch db.store tbls stmtsM dbN.store tblsN logs)
    (hw : dbN.wal = db.wal ++ logs) (hAN : AbsV dbN.store ptN sch tblsN sdbN) :
    PtSelf ptN ∧ FreshM dbN.store tblsN ∧
      (∀ r ∈ dbN.wal, AppliedC ptN sch tblsN r) ∧ (∀ r ∈ dbN.wal, r.lsn < dbN.store.hdr.nextLSN) ∧
      (dbN.store.hdr.nextLSN = db.store.hdr.nextLSN ∨ ∃ r ∈ logs, dbN.store.hdr.nextLSN = r.lsn + 1) ∧
      OldOrDirty (fun e => assocGet db.store.disk e.1 = some e.2.1) ptN sch tblsN ∧
      (∀ r ∈ dbN.wal, r.op = c_OpInsert → r.cell ≤ dbN.store.hdr.lastKey) := by
  obtain ⟨_, habs0, _⟩ := h.abs
  obtain ⟨_, habsN, _⟩ := id hAN
  obtain ⟨pt1, c1, a1, a2, a3⟩ := live_run_applied sch hrun pt db.wal habs0.cat h.log h.lsn
  obtain ⟨pt2, c2, o2⟩ := live_run_pages (fun e => assocGet db.store.disk e.1 = some e.2.1) sch hrun pt habs0.cat
    (fun x hx e he => .inr (h.disk x hx e he).1)
  have e1 : pt1 = ptN := c1.pt_unique habsN.cat
  have e2 : pt2 = ptN := c2.pt_unique habsN.cat
  rw [e1] at a1
  rw [e2] at o2
  obtain ⟨ptN', _, _, c3, _, hselfN, hfN, _⟩ := replay_history_mixed_gen sch hrun pt db.store habs0.cat habs0.cat
    h.self h.fresh rfl rfl (Nat.le_refl _)
  have ept : ptN' = ptN := c3.pt_unique habsN.cat
  rw [ept] at hselfN
  refine ⟨hselfN, hfN, by rw [hw]; exact a1, by rw [hw]; exact a2, a3, o2, ?_⟩
  rw [hw]
  exact (live_run_keys sch hrun pt db.wal habs0.cat h.keys).1

/-- `Ckpt.flush_round_full` for a live run -/
theorem ckpt_flush_live {sch : Levels} {db dbN : Engine.DB} {sdb sdbN : Spec.SDB} {pt ptN : Levels}
    {tbls tblsN : List (Bytes × Levels)} {stmtsM : List RStmt} {logs : List WalRec}
    (h : Ckpt sch db sdb pt tbls) (hrun : LiveRunM sch db.store tbls stmtsM dbN.store tblsN logs)
    (hw : dbN.wal = db.wal ++ logs) (hAN : AbsV dbN.store ptN sch tblsN sdbN) (hmfN : MemFiled dbN.store)
    (hd : DiskSame db.store dbN.store) (order : List Nat) :
    ∃ db', Engine.flush dbN order = .ok () db' ∧ db'.wal = dbN.wal ∧
      Ckpt sch db' sdbN (clean ptN) (cleanT tblsN) := by
  obtain ⟨_, hcs, _⟩ := h.disk.clean_eq
  obtain ⟨hselfN, hfN, hlogN, hlsnN, _, hP, hkN⟩ := ckpt_live_facts h hrun hw hAN
  have hsy : Synced dbN.store ptN sch tblsN := by
    intro x hx e he hdy
    rcases hP x hx e he with h1 | h1
    · rw [hdy] at h1; cases h1
    · rw [hd.1]; exact h1
  obtain ⟨s1, ef1, hh1, _⟩ := flushPages_spec order dbN.store hmfN
  have hk := ckpt_of_flushed hcs hAN hselfN hfN hmfN hlogN hlsnN hkN hsy ef1
  refine ⟨{ store := s1, wal := dbN.wal }, ?_, rfl, hk⟩
  simp only [Engine.flush, Engine.liftS, ef1]

/-- `Ckpt.recover_round_full` for a live run: the crash (nothing flushed since the checkpoint), then start-up
recovery, which replays the whole log on the re-opened data file -/
theorem ckpt_recover_live {sch : Levels} {db dbN : Engine.DB} {sdb sdbN : Spec.SDB} {pt ptN : Levels}
    {tbls tblsN : List (Bytes × Levels)} {stmtsM : List RStmt} {logs : List WalRec}
    (h : Ckpt sch db sdb pt tbls) (hrun : LiveRunM sch db.store tbls stmtsM dbN.store tblsN logs)
    (hw : dbN.wal = db.wal ++ logs) (hAN : AbsV dbN.store ptN sch tblsN sdbN)
    (hd : DiskSame db.store dbN.store) (o1 o2 : List Nat) :
    ∃ db', Engine.recover dbN o1 o2 = .ok db' ∧ db'.wal = dbN.wal ∧
      Ckpt sch db' sdbN (clean ptN) (cleanT tblsN) := by
  obtain ⟨_, hcs, _⟩ := h.disk.clean_eq
  obtain ⟨hselfN0, hfN0, hlogN, _, hnext, hP, hkN⟩ := ckpt_live_facts h hrun hw hAN
  obtain ⟨hd1, hd2, _⟩ := hd
  obtain ⟨_, habs0, _⟩ := h.abs
  obtain ⟨sdbF, habsF, hvF⟩ := hAN
  -- the re-opened data file holds the catalog of the checkpoint
  have hr0 : Cat (reopen dbN.store) pt sch tbls := reopen_cat habs0.cat h.disk h.dhdr dbN.store hd1 hd2
  have hh0 : (reopen dbN.store).hdr = db.store.hdr := by show dbN.store.dhdr = _; rw [hd2, h.dhdr]
  -- the old records change nothing
  obtain ⟨r1, e1, _, hc1, hh1⟩ := replay_clean_hdr db.wal (reopen dbN.store) pt sch tbls hr0
    (fun r hr => (h.log r hr).applied hr0) (fun r hr => by rw [hh0]; exact Nat.le_of_lt (h.lsn r hr))
    (fun r hr hop => by rw [hh0]; exact h.keys r hr hop)
  -- the new records are redone
  obtain ⟨ptN', rN, e, c1, c2, hselfN, hfN, a1, a2, a4⟩ := replay_history_mixed_gen sch hrun pt r1 habs0.cat hc1
    h.self h.fresh (by rw [hh1, hh0]) (by rw [hh1, hh0]) (by rw [hh1, hh0]; exact Nat.le_refl _)
  have ept : ptN' = ptN := c1.pt_unique habsF.cat
  rw [ept] at c1 c2 hselfN
  have eall : replayAll dbN.wal (reopen dbN.store) = (rN, none, false) := by
    rw [hw, replayAll_append e1]; exact e
  have hmfN : MemFiled rN := by
    have := replayAll_memFiled dbN.wal (reopen dbN.store) (by intro p hp; cases hp)
    rw [eall] at this; exact this
  obtain ⟨hdN1, _, hdN3⟩ : DiskSame (reopen dbN.store) rN := by
    have := replayAll_disk dbN.wal (reopen dbN.store)
    rw [eall] at this; exact this
  have hlsnR := replayAll_lsn dbN.wal _ _ eall
  have hnx : dbN.store.hdr.nextLSN ≤ rN.hdr.nextLSN + 1 := by
    rcases hnext with h1 | ⟨r, hr, h1⟩
    · rw [h1, ← hh0]; omega
    · have := hlsnR r (by rw [hw]; exact List.mem_append_right _ hr); omega
  have hsy : Synced rN ptN sch tblsN := by
    intro x hx e he hdy
    rcases hP x hx e he with h1 | h1
    · rw [hdy] at h1; cases h1
    · rw [hdN1]
      show assocGet dbN.store.disk e.1 = _
      rw [hd1]; exact h1
  -- the cache right before recovery's flush: the final LSN bump
  have hcB : Cat { rN with hdr := { rN.hdr with nextLSN := rN.hdr.nextLSN + 1 } } ptN sch tblsN :=
    c2.raise rfl rfl rfl (Nat.le_refl _)
  have hmB : MemFiled { rN with hdr := { rN.hdr with nextLSN := rN.hdr.nextLSN + 1 } } := hmfN.of_mem_eq rfl
  obtain ⟨s1, ef1, hh1', _⟩ := flushPages_spec o1 _ hmB
  have hk1 := ckpt_of_flushed (wal := dbN.wal) hcs ⟨sdbF, ⟨hcB, habsF.tabs⟩, hvF⟩ hselfN
    (hfN.of_hdr hnx (by show _ ≤ rN.hdr.nextFree; rw [a1]; exact Nat.le_refl _)) hmB hlogN
    (fun r hr => by show r.lsn < rN.hdr.nextLSN + 1; have := hlsnR r hr; omega)
    (fun r hr hop => by show r.cell ≤ rN.hdr.lastKey; rw [a2]; exact hkN r hr hop) hsy ef1
  obtain ⟨s2, ef2, hh2, _⟩ := flushPages_spec o2 s1 hk1.filed
  have hk2 := hk1.flush_again ef2
  refine ⟨{ store := s2, wal := dbN.wal }, ?_, rfl, hk2⟩
  unfold Engine.recover
  simp only [eall, ef1, ef2]

/-- the crash invariant implies the one up to the cache -/
theorem DbCrash.toL {db : Engine.DB} {sdb : Spec.SDB} (h : DbCrash db sdb) : DbCrashL db sdb := by
  obtain ⟨sch, db0, sdb0, pt0, tbls0, stmts, hk, hns, run⟩ := h
  obtain ⟨ptN, tblsN, stmtsM, logs, hrun, hw, hAN⟩ := spec_run_live sch run pt0 tbls0 hk.abs
  exact ⟨sch, db0, sdb0, pt0, tbls0, ptN, tblsN, stmtsM, logs, hk, specRun_noStale run hk.abs hns hAN, hrun, hw, hAN,
    specRun_memFiled run hk.filed, specRun_disk run⟩

theorem CkptNS.dbCrashL {db : Engine.DB} {sdb : Spec.SDB} (h : CkptNS db sdb) : DbCrashL db sdb := h.dbCrash.toL

/-- **Crash and recovery**, up to the cache: no flush, the cache is lost; start-up recovery succeeds, keeps the
log, and gives a checkpointed database for the same plain database. -/
theorem DbCrashL.recover {db : Engine.DB} {sdb : Spec.SDB} (h : DbCrashL db sdb) (o1 o2 : List Nat) :
    ∃ db', Engine.recover db o1 o2 = .ok db' ∧ db'.wal = db.wal ∧ CkptNS db' sdb := by
  obtain ⟨sch, db0, sdb0, pt0, tbls0, ptN, tblsN, stmtsM, logs, hk, hns, hrun, hw, hAN, _, hd⟩ := h
  obtain ⟨_, hcs, _⟩ := hk.disk.clean_eq
  obtain ⟨db', e, hw', hk'⟩ := ckpt_recover_live hk hrun hw hAN hd o1 o2
  refine ⟨db', e, hw', sch, _, _, hk', ?_⟩
  have := hns.clean
  rw [hcs] at this
  exact this

/-- the flush (the session's close) of such a database -/
theorem DbCrashL.flush {db : Engine.DB} {sdb : Spec.SDB} (h : DbCrashL db sdb) (order : List Nat) :
    ∃ db', Engine.flush db order = .ok () db' ∧ db'.wal = db.wal ∧ CkptNS db' sdb := by
  obtain ⟨sch, db0, sdb0, pt0, tbls0, ptN, tblsN, stmtsM, logs, hk, hns, hrun, hw, hAN, hmf, hd⟩ := h
  obtain ⟨_, hcs, _⟩ := hk.disk.clean_eq
  obtain ⟨db', e, hw', hk'⟩ := ckpt_flush_live hk hrun hw hAN hmf hd order
  refine ⟨db', e, hw', sch, _, _, hk', ?_⟩
  have := hns.clean
  rw [hcs] at this
  exact this

/-- **A step in which only the cache grows** - every page and the header read as before, the log and the data
file are untouched, the cache is filed - **keeps the crash invariant**, for the same plain database. -/
theorem DbCrashL.same {db db' : Engine.DB} {sdb : Spec.SDB} (h : DbCrashL db sdb)
    (hs : Same db.store db'.store) (hw : db'.wal = db.wal) (hd : DiskSame db.store db'.store)
    (hf : MemFiled db'.store) : DbCrashL db' sdb := by
  obtain ⟨sch, db0, sdb0, pt0, tbls0, ptN, tblsN, stmtsM, logs, hk, hns, hrun, hw0, ⟨sdbF, habsF, hvF⟩, _, hd0⟩ := h
  refine ⟨sch, db0, sdb0, pt0, tbls0, ptN, tblsN, stmtsM ++ [], logs ++ [], hk, hns,
    hrun.append (.same hs (.nil _ _)), by rw [hw, hw0, List.append_nil], ⟨sdbF, habsF.of_same hs, hvF⟩, hf,
    hd0.trans hd⟩

/-- **One more accepted row statement** keeps it. -/
theorem DbCrashL.step {db db' : Engine.DB} {sdb sdb' : Spec.SDB} (h : DbCrashL db sdb)
    (hstep : ∀ sch, ∃ st, SpecRun sch db sdb [st] db' sdb') : DbCrashL db' sdb' := by
  obtain ⟨sch, db0, sdb0, pt0, tbls0, ptN, tblsN, stmtsM, logs, hk, hns, hrun, hw0, hAN, hmf, hd0⟩ := h
  obtain ⟨st, run⟩ := hstep sch
  obtain ⟨ptN', tblsN', stmtsM', logs', hrun', hw', hAN'⟩ := spec_run_live sch run ptN tblsN hAN
  exact ⟨sch, db0, sdb0, pt0, tbls0, ptN', tblsN', stmtsM ++ stmtsM', logs ++ logs', hk,
    specRun_noStale run hAN hns hAN', hrun.append hrun', by rw [hw', hw0, List.append_assoc], hAN',
    specRun_memFiled run hmf, hd0.trans (specRun_disk run)⟩

/-- start-up recovery of such a database, and of the same with the cache dropped -/
theorem DbCrashL.recoverable {db : Engine.DB} {sdb : Spec.SDB} (h : DbCrashL db sdb) :
    Session.Recoverable db sdb ∧ Session.Recoverable { db with store := reopen db.store } sdb := by
  obtain ⟨db', e, _, hk⟩ := h.recover [] []
  exact ⟨⟨db', e, hk.reopen⟩, ⟨db', by rw [recover_reopen]; exact e, hk.reopen⟩⟩

/-! ### a refused statement does not write the data file and keeps the cache filed -/

/-- whatever a CREATE TABLE / INSERT / UPDATE / DELETE returns with an error: the data file and the header in
it are as before, the LSN counter did not go down, the cache is filed -/
theorem evalStmt_err_disk_filed {db db' : Engine.DB} {st : Sql.Stmt} {e : Engine.StmtErr}
    (hf : MemFiled db.store) (he : evalStmt db [] st = .err e db') :
    DiskSame db.store db'.store ∧ MemFiled db'.store := by
  cases st with
  | insert t cols rows =>
    simp only [evalStmt] at he
    have h1 := evalInsert_go_disk db t cols db.store (rows.map fun r => r.map Engine.litToVal) db.store [] 0
      (DiskSame.refl _)
    have h2 := evalInsert_filed db t cols (rows.map fun r => r.map Engine.litToVal) hf
    cases hr : Engine.evalInsert db t cols (rows.map fun r => r.map Engine.litToVal) with
    | err x y =>
      rw [hr] at he
      simp only [voidRes, Engine.Res.err.injEq] at he
      obtain ⟨_, rfl⟩ := he
      have h1' : ResDisk db.store (Engine.evalInsert db t cols (rows.map fun r => r.map Engine.litToVal)) := h1
      rw [hr] at h1' h2
      exact ⟨h1', h2⟩
    | ok a y => rw [hr] at he; cases he
    | panic p => rw [hr] at he; cases he
    | unmodelled p => rw [hr] at he; cases he
    | fuel => rw [hr] at he; cases he
  | update t sets w =>
    have h1 := evalUpdate_resDisk db t sets w
    have h2 := evalUpdate_filed db t sets w hf
    have he' : Engine.evalUpdate db t sets w = .err e db' := he
    rw [he'] at h1 h2
    exact ⟨h1, h2⟩
  | delete t w =>
    simp only [evalStmt] at he
    have h1 := evalDelete_resDisk db t w
    have h2 := evalDelete_filed db t w hf
    cases hr : Engine.evalDelete db t w with
    | err x y =>
      rw [hr] at he
      simp only [voidRes, Engine.Res.err.injEq] at he
      obtain ⟨_, rfl⟩ := he
      rw [hr] at h1 h2
      exact ⟨h1, h2⟩
    | ok a y => rw [hr] at he; cases he
    | panic p => rw [hr] at he; cases he
    | unmodelled p => rw [hr] at he; cases he
    | fuel => rw [hr] at he; cases he
  | createTable n cols =>
    have he' : Engine.evalCreateTable db n cols [] true = .err e db' := he
    have h2 := (evalCreateTable_filed db n cols [] true hf).err he'
    simp only [Engine.evalCreateTable, Engine.liftS] at he'
    cases e2 : createTable (cols.map Engine.colTypeToField) n [] true db.store with
    | err x s' =>
      rw [e2] at he'
      simp only [Engine.Res.err.injEq] at he'
      obtain ⟨_, rfl⟩ := he'
      exact ⟨createTable_err_disk e2, h2⟩
    | ok a s' => rw [e2] at he'; cases he'
    | panic p => rw [e2] at he'; cases he'
    | unmodelled w => rw [e2] at he'; cases he'
    | fuel => rw [e2] at he'; cases he'
  | createDatabase n => cases he
  | select s => cases he
  | use d => cases he
  | showDatabases => cases he

/-! ### refusals after which only the cache has grown -/

/-- the plain model refuses the row for its arity or for a value (type, integer range) - NOT for its size:
an oversized row is refused inside `btInsert`, after the row-id and LSN counters moved -/
def rowRefusedEarly (cs : List FieldDef) (cols : List Bytes) (vals : List Val) : Bool :=
  (if cols.isEmpty then cs.map (·.name) else cols.map Spec.nameStr).length != vals.length ||
    match encodeTuple cs ((if cols.isEmpty then cs.map (·.name) else cols.map Spec.nameStr).zip vals).reverse with
    | .error _ => true
    | .ok _ => false

/-- such a row is refused by `Store.insert` before `btInsert`: only the cache has grown -/
theorem insert_early_refused_cat {s : Store} {pt sch : Levels} {tbls : List (Bytes × Levels)}
    (h : Cat s pt sch tbls) (table : Bytes) (t : Levels) (ht : (table, t) ∈ tbls) (schema : List FieldDef)
    (hsch : schemaOf sch table = some schema) (cols : List Bytes) (vals : List Val)
    (hbad : rowRefusedEarly schema cols vals = true) :
    ∃ e s', insert table (cols.map Engine.bytesToName) vals s = .err e s' ∧ Same s s' := by
  obtain ⟨s3, hs3, hc3, hrun⟩ := insert_prefix h table t ht schema hsch (cols.map Engine.bytesToName) vals
  unfold rowRefusedEarly at hbad
  simp only [specCols_eq] at hbad
  by_cases hlen : (colsOf schema (cols.map Engine.bytesToName)).length = vals.length
  · have hb : ((colsOf schema (cols.map Engine.bytesToName)).length != vals.length) = false := by simp [hlen]
    cases hcc : checkColumns schema (colsOf schema (cols.map Engine.bytesToName)) with
    | some ec =>
      obtain ⟨s', he, hs', _⟩ := insert_names_refused_cat h table t ht schema hsch _ vals ec hlen hcc
      exact ⟨ec, s', he, hs'⟩
    | none =>
      rw [hb, Bool.false_or] at hbad
      cases henc : encodeTuple schema ((colsOf schema (cols.map Engine.bytesToName)).zip vals).reverse with
      | ok buf => rw [henc] at hbad; cases hbad
      | error err =>
        have he : encodeRow schema ((colsOf schema (cols.map Engine.bytesToName)).zip vals).reverse s3 =
            .err (serrOf err) s3 := by
          unfold encodeRow
          rw [henc]
          cases err <;> rfl
        refine ⟨serrOf err, s3, ?_, hs3⟩
        rw [hrun]
        simp only [hb, Bool.false_eq_true, if_false, hcc]
        rw [bind_err he]
  · have hb : ((colsOf schema (cols.map Engine.bytesToName)).length != vals.length) = true := by simpa using hlen
    refine ⟨.colCountMismatch, s3, ?_, hs3⟩
    rw [hrun]
    simp only [hb, if_true]
    rfl

/-- **Why a statement is refused before it changed anything, with only the cache grown**: `StmtRefusal`
(SpecRefineB4, the refusals of `C14_refused_statement_plain_model`) without the INSERT whose first row is
refused for its SIZE. -/
inductive StmtRefusalC (sdb : Spec.SDB) (pt : Levels) : Sql.Stmt → Prop
  | create (n : Bytes) (cols : List Sql.ColDef) : CreateRefusal sdb pt n cols → StmtRefusalC sdb pt (.createTable n cols)
  | insert (t : Bytes) (cols : List Bytes) (r : List Sql.Lit) (rest : List (List Sql.Lit)) :
      ((Spec.findTable sdb t = none ∧ t ≠ sysPages ∧ t ≠ sysSchema) ∨
        ∃ st, Spec.findTable sdb t = some st ∧
          (rowRefusedEarly st.cols cols (r.map Engine.litToVal) = true ∨
            Spec.namesOK st (cols.map Spec.nameStr) = false)) →
      StmtRefusalC sdb pt (.insert t cols (r :: rest))
  | update (t : Bytes) (sets : List (Bytes × Sql.VExpr)) (w : Option Sql.Cond) :
      UpdRefusal sdb t sets w → StmtRefusalC sdb pt (.update t sets w)
  | delete (t : Bytes) (w : Option Sql.Cond) :
      (Spec.findTable sdb t = none → t ≠ sysPages ∧ t ≠ sysSchema) → Spec.specDelete sdb t w = none →
      StmtRefusalC sdb pt (.delete t w)

theorem rowOf_none_of_early {st : Spec.STable} {cols : List Bytes} {vals : List Val}
    (h : rowRefusedEarly st.cols cols vals = true) : Spec.rowOf st cols vals = none := by
  unfold rowRefusedEarly at h
  unfold Spec.rowOf
  simp only
  by_cases hb : ((if cols.isEmpty then st.cols.map (·.name) else cols.map Spec.nameStr).length != vals.length) = true
  · simp only [hb, if_true]
  · have hb' : ((if cols.isEmpty then st.cols.map (·.name) else cols.map Spec.nameStr).length != vals.length) = false := by
      simpa using hb
    rw [hb', Bool.false_or] at h
    simp only [hb', Bool.false_eq_true, if_false]
    cases henc : encodeTuple st.cols ((if cols.isEmpty then st.cols.map (·.name) else cols.map Spec.nameStr).zip vals).reverse with
    | ok buf => rw [henc] at h; cases h
    | error err => rfl

theorem StmtRefusalC.toRefusal {sdb : Spec.SDB} {pt : Levels} {st : Sql.Stmt} (h : StmtRefusalC sdb pt st) :
    StmtRefusal sdb pt st := by
  cases h with
  | create n cols hc => exact .create n cols hc
  | insert t cols r rest hc =>
    refine .insert t cols r rest ?_
    rcases hc with hc | ⟨st, hf, hr | hr⟩
    · exact .inl hc
    · exact .inr ⟨st, hf, .inl (rowOf_none_of_early hr)⟩
    · exact .inr ⟨st, hf, .inr hr⟩
  | update t sets w hc => exact .update t sets w hc
  | delete t w h1 h2 => exact .delete t w h1 h2

/-- **A statement refused before it changed anything, not for the size of a row: only the cache has grown.**
The plain model refuses; the engine returns an error; the log is the old one; every page and the whole
header read as before (`Same`); the data file is untouched and the cache is filed. -/
theorem evalStmt_refused_same (db : Engine.DB) (pt sch : Levels) (tbls : List (Bytes × Levels))
    (sdb : Spec.SDB) (h : Rel db pt sch tbls sdb) (st : Sql.Stmt) (hbad : StmtRefusalC sdb pt st) :
    Spec.specStmt sdb st = none ∧
    ∃ e db', evalStmt db [] st = .err e db' ∧ db'.wal = db.wal ∧ Same db.store db'.store ∧
      DiskSame db.store db'.store ∧ MemFiled db'.store := by
  obtain ⟨hnone, _⟩ := evalStmt_refused_spec db [] pt sch tbls sdb h st hbad.toRefusal
  refine ⟨hnone, ?_⟩
  obtain ⟨habs, hns, hmf⟩ := h
  have key : ∃ e db', evalStmt db [] st = .err e db' ∧ db'.wal = db.wal ∧ Same db.store db'.store := by
    cases hbad with
    | create n cols hc =>
      obtain ⟨_, e, db', he, _, hw, hs, _⟩ := evalCreateTable_refused_specV db pt sch tbls sdb habs n cols [] true hc
      exact ⟨.store e, db', he, hw, hs⟩
    | update t sets w hc =>
      obtain ⟨_, e, db', he, _, hw, hs, _⟩ := evalUpdate_refused_specV db pt sch tbls sdb habs t sets w hc
      exact ⟨e, db', he, hw, hs⟩
    | delete t w hsys hn =>
      obtain ⟨e, db', he, _, _, _, hw, hs, _⟩ := evalDelete_refused_specV db pt sch tbls sdb habs t w hsys hn
      exact ⟨e, db', by simp only [evalStmt, he, voidRes], hw, hs⟩
    | insert t cols r rest hc =>
      obtain ⟨sdb0, habs0, hv⟩ := habs
      have hstore : ∃ e s', insert t (cols.map Engine.bytesToName) (r.map Engine.litToVal) db.store = .err e s' ∧
          Same db.store s' := by
        rcases hc with ⟨hn, h1, h2⟩ | ⟨st, hf, hr⟩
        · have hn0 : Spec.findTable sdb0 t = none := by
            have := findTable_congr sdb0 sdb hv t
            rw [hn] at this
            cases hf0 : Spec.findTable sdb0 t with
            | none => rfl
            | some x => rw [hf0] at this; cases this
          have hnt : t ∉ tbls.map (·.1) := by
            intro hm
            obtain ⟨e, he, hen⟩ := List.mem_map.mp hm
            obtain ⟨schema, _, _, hf⟩ := habs0.tabs.find habs0.cat.tnames (table := t) (t := e.2) (by rw [← hen]; exact he)
            rw [hf] at hn0
            cases hn0
          obtain ⟨s', e, hs, _⟩ := insert_unknown_table db.store pt sch tbls habs0.cat t (cols.map Engine.bytesToName)
            (r.map Engine.litToVal) h1 h2 hnt
          exact ⟨_, s', e, hs⟩
        · obtain ⟨st0, hf0, htv⟩ := findTable_congr_some hv hf
          obtain ⟨tr, ht⟩ := habs0.tabs.find_some hf0
          obtain ⟨schema, hsch, _, hfa⟩ := habs0.tabs.find habs0.cat.tnames ht
          rw [hf0] at hfa
          simp only [Option.some.injEq] at hfa
          subst hfa
          rcases hr with hr | hr
          · have hr0 : rowRefusedEarly schema cols (r.map Engine.litToVal) = true := by
              have hc : (absTable t schema tr).cols = st.cols := tv_cols htv
              rw [← hc] at hr
              exact hr
            exact insert_early_refused_cat habs0.cat t tr ht schema hsch cols _ hr0
          · have hr0 : Spec.namesOK (absTable t schema tr) (cols.map Spec.nameStr) = false := by
              rw [namesOK_congr (tv_cols htv)]; exact hr
            obtain ⟨e, s', he, _, _, hs⟩ := insert_badNames_abs habs0 t tr ht schema hsch cols (r.map Engine.litToVal) hr0
            exact ⟨e, s', he, hs⟩
      obtain ⟨e, s', he, hs⟩ := hstore
      refine ⟨.store e, { db with store := s' }, ?_, rfl, hs⟩
      have := evalInsert_go_err db t cols (r.map Engine.litToVal) (rest.map fun r => r.map Engine.litToVal) db.store s'
        [] 0 _ he
      simp only [evalStmt, List.map_cons, voidRes]
      have h2 : Engine.evalInsert db t cols (r.map Engine.litToVal :: rest.map fun r => r.map Engine.litToVal) =
          .err (.store e) { db with store := s' } := this
      rw [h2]
  obtain ⟨e, db', he, hw, hs⟩ := key
  obtain ⟨hd, hf⟩ := evalStmt_err_disk_filed hmf he
  exact ⟨e, db', he, hw, hs, hd, hf⟩

end Mkdb.Store
