import Mkdb.Proofs.Fuel
/-!
# The scanner on text in standard form, part 1: runes, generic stopping lemmas, gaps

`asciiRune`, and the facts about the helper loops of `Model/Scan.lean` that the round trip
`scanSQL (rendered text) = tokens` needs: each loop (`skipWs`, `scanIdentTail`, `digits`,
`scanNumber`, `scanStringBody`, `lineComment`, `blockComment`) stops exactly where the
rendered token ends.  Nothing here is assumed about the text: the stopping point is proved.
-/
namespace Mkdb.Scan
open Mkdb.Generated

/-- `unicode.ToUpper` on ASCII -/
def asciiUpper (c : Nat) : Nat := if 97 ≤ c ∧ c ≤ 122 then c - 32 else c
/-- `unicode.IsLetter` on ASCII -/
def asciiLetter (c : Nat) : Bool := (65 ≤ c && c ≤ 90) || (97 ≤ c && c ≤ 122)

/-- The rune `Scanner.next` delivers for the ASCII byte `c` (`c < 128`): code `c`, the one byte `c`,
and the Unicode facts as Go's tables give them for ASCII (letters `A-Z a-z`, digits `0-9`, `ToUpper`
maps `a-z` to `A-Z`). -/
def asciiRune (c : Nat) : Rune := ⟨c, [UInt8.ofNat c], asciiLetter c, isDecimal c, asciiUpper c⟩

@[simp] theorem asciiRune_code (c : Nat) : (asciiRune c).code = c := rfl
@[simp] theorem asciiRune_bytes (c : Nat) : (asciiRune c).bytes = [UInt8.ofNat c] := rfl
@[simp] theorem asciiRune_upper (c : Nat) : (asciiRune c).upper = asciiUpper c := rfl
@[simp] theorem asciiRune_letter (c : Nat) : (asciiRune c).letter = asciiLetter c := rfl
@[simp] theorem asciiRune_digit (c : Nat) : (asciiRune c).digit = isDecimal c := rfl

/-- the property `p` holds of the first rune of the input, if there is one -/
def HeadP (p : Rune → Bool) : Input → Bool
  | [] => true
  | r :: _ => p r

theorem HeadP_cons (p : Rune → Bool) (r : Rune) (X : Input) : HeadP p (r :: X) = p r := rfl
theorem HeadP_nil (p : Rune → Bool) : HeadP p [] = true := rfl

theorem HeadP_append_of_ne (p : Rune → Bool) (A X : Input) (h : A ≠ []) :
    HeadP p (A ++ X) = HeadP p A := by
  cases A with
  | nil => exact absurd rfl h
  | cons a A => rfl

/-! ## The helper loops stop at the end of the token -/

theorem skipWs_not (r : Rune) (X : Input) (h : isWs r.code = false) : skipWs (r :: X) = r :: X := by
  simp only [skipWs, h, Bool.false_eq_true, ↓reduceIte]

theorem skipWs_append (ws X : Input) (h : ∀ r ∈ ws, isWs r.code = true) :
    skipWs (ws ++ X) = skipWs X := by
  induction ws with
  | nil => rfl
  | cons w ws ih =>
    have hw := h w (List.mem_cons_self ..)
    simp only [List.cons_append, skipWs, hw, ↓reduceIte]
    exact ih fun r hr => h r (List.mem_cons_of_mem _ hr)

/-- `scanIdentifier` consumes the identifier runes and stops at the first rune that is not one. -/
theorem scanIdentTail_append (w X : Input) (hw : ∀ r ∈ w, isIdentRune r false = true)
    (hX : HeadP (fun r => !isIdentRune r false) X = true) : scanIdentTail (w ++ X) = X := by
  induction w with
  | nil =>
    cases X with
    | nil => rfl
    | cons x X =>
      simp only [HeadP, Bool.not_eq_true'] at hX
      simp only [List.nil_append, scanIdentTail, hX, Bool.false_eq_true, ↓reduceIte]
  | cons a w ih =>
    have ha := hw a (List.mem_cons_self ..)
    simp only [List.cons_append, scanIdentTail, ha, ↓reduceIte]
    exact ih fun r hr => hw r (List.mem_cons_of_mem _ hr)

/-- `digits` (decimal) consumes digits and stops at the first rune that is neither a digit nor `_`. -/
theorem digits_append (w X : Input) (hw : ∀ r ∈ w, isDecimal r.code = true)
    (hX : HeadP (fun r => !(isDecimal r.code || r.code == 95)) X = true) : digits false (w ++ X) = X := by
  induction w with
  | nil =>
    cases X with
    | nil => rfl
    | cons x X =>
      simp only [HeadP, Bool.not_eq_true'] at hX
      simp only [List.nil_append, digits, Bool.false_eq_true, ↓reduceIte, hX]
  | cons a w ih =>
    have ha := hw a (List.mem_cons_self ..)
    simp only [List.cons_append, digits, Bool.false_eq_true, ↓reduceIte, ha, Bool.true_or]
    exact ih fun r hr => hw r (List.mem_cons_of_mem _ hr)

/-- what may not follow a decimal integer: `.`, an exponent letter (`e E p P`) -/
def notFloatCont (r : Rune) : Bool := !(r.code == 46 || lower r.code == 101 || lower r.code == 112)
/-- what may not follow a lone `0`: a base prefix letter (`x X o O b B`) -/
def notBasePrefix (r : Rune) : Bool := !(lower r.code == 120 || lower r.code == 111 || lower r.code == 98)

/-- `scanNumber` on a decimal digit `z` followed by `Y`: when the digit loop over `Y` stops at `X`,
`Y` does not start with a base prefix letter after a `0`, and `X` does not continue a float, the
number is an integer that ends at `X`. -/
theorem scanNumber_int (z : Rune) (Y X : Input) (hz : isDecimal z.code = true)
    (hY : z.code = 48 → HeadP notBasePrefix Y = true) (hd : digits false Y = X)
    (hX : HeadP notFloatCont X = true) : scanNumber (z :: Y) false = (false, X) := by
  have hzd : digits false (z :: Y) = X := by
    simp only [digits, Bool.false_eq_true, ↓reduceIte, hz, Bool.true_or]; exact hd
  unfold scanNumber
  simp only [Bool.false_eq_true, ↓reduceIte]
  by_cases h48 : (z.code == 48) = true
  · have h48' : z.code = 48 := by simpa using h48
    have hp := hY h48'
    have hfin : ∀ X : Input, HeadP notFloatCont X = true →
        (match (match X with
            | d :: rest => if (d.code == 46) = true then (true, digits false rest) else (false, X)
            | [] => (false, X) : Bool × Input) with
          | (isF1, l2) =>
            match l2 with
            | r :: rest =>
              if (lower r.code == 101 || lower r.code == 112) = true then
                (true, digits false (match rest with
                  | s :: rest' => if (s.code == 43 || s.code == 45) = true then rest' else rest
                  | [] => rest))
              else (isF1, l2)
            | [] => (isF1, l2)) = (false, X) := by
      intro X hX
      cases X with
      | nil => rfl
      | cons x X' =>
        simp only [HeadP, notFloatCont, Bool.not_eq_true', Bool.or_eq_false_iff] at hX
        simp only [hX.1.1, hX.1.2, hX.2, Bool.false_eq_true, ↓reduceIte, Bool.or_self]
    cases Y with
    | nil =>
      simp only [digits] at hd
      subst hd
      simp only [h48, ↓reduceIte, digits]
    | cons p Y' =>
      simp only [HeadP, notBasePrefix, Bool.not_eq_true', Bool.or_eq_false_iff] at hp
      simp only [h48, ↓reduceIte, hp.1.1, hp.1.2, hp.2, Bool.false_eq_true, hd]
      exact hfin X hX
  · simp only [h48, Bool.false_eq_true, ↓reduceIte, hzd]
    cases X with
    | nil => rfl
    | cons x X' =>
      simp only [HeadP, notFloatCont, Bool.not_eq_true', Bool.or_eq_false_iff] at hX
      simp only [hX.1.1, hX.1.2, hX.2, Bool.false_eq_true, ↓reduceIte, Bool.or_self]

/-- `scanString`: a body without the quote, a newline or a backslash is read up to the closing quote. -/
theorem scanStringBody_plain (q : Nat) (body : Input) (c : Rune) (X : Input) (hc : c.code = q)
    (hb : ∀ r ∈ body, (r.code == q || r.code == 10 || r.code == 92) = false) :
    scanStringBody q .normal (body ++ c :: X) = (true, c :: X) := by
  induction body with
  | nil => simp only [List.nil_append, scanStringBody, hc, beq_self_eq_true, ↓reduceIte]
  | cons a body ih =>
    have ha := hb a (List.mem_cons_self ..)
    simp only [Bool.or_eq_false_iff] at ha
    simp only [List.cons_append, scanStringBody, ha.1.1, ha.1.2, ha.2, Bool.false_eq_true, ↓reduceIte]
    exact ih fun r hr => hb r (List.mem_cons_of_mem _ hr)

/-- `scanString` depends only on the text up to the closing quote: if the body followed by the quote
alone is read up to that quote, it is read up to that quote whatever follows. -/
theorem scanStringBody_ext (q : Nat) (c : Rune) (X : Input) (body : Input) :
    ∀ s, scanStringBody q s (body ++ [c]) = (true, [c]) →
      scanStringBody q s (body ++ c :: X) = (true, c :: X) := by
  induction body with
  | nil =>
    intro s h
    cases s <;> simp only [List.nil_append, scanStringBody] at h ⊢ <;> (repeat' split at h) <;>
      first
      | (simp_all; done)
      | (simp_all; intros; omega)
  | cons a body ih =>
    intro s h
    have hne : ∀ b : Bool, (b, a :: (body ++ [c])) ≠ (true, [c]) := by
      intro b hh
      have := congrArg (fun p => p.2.length) hh
      simp at this
    cases s <;> simp only [List.cons_append, scanStringBody] at h ⊢ <;> (repeat' split at h) <;>
      first
      | exact absurd h (hne _)
      | (simp_all; done)
      | (simp_all; intros; omega)

/-- a `//` comment runs up to (not including) the line feed -/
theorem lineComment_append (body : Input) (nl : Rune) (X : Input) (hnl : nl.code = 10)
    (hb : ∀ r ∈ body, (r.code == 10) = false) : lineComment (body ++ nl :: X) = nl :: X := by
  induction body with
  | nil => simp only [List.nil_append, lineComment, hnl, beq_self_eq_true, ↓reduceIte]
  | cons a body ih =>
    have ha := hb a (List.mem_cons_self ..)
    simp only [List.cons_append, lineComment, ha, Bool.false_eq_true, ↓reduceIte]
    exact ih fun r hr => hb r (List.mem_cons_of_mem _ hr)

/-- a `/* */` comment whose body does not contain `*/` ends at the `*/` written behind the body -/
theorem blockComment_append (body : Input) (s sl : Rune) (X : Input) (hs : s.code = 42) (hsl : sl.code = 47) :
    ∀ b, blockComment b body = none → blockComment b (body ++ s :: sl :: X) = some X := by
  induction body with
  | nil =>
    intro b _
    simp only [List.nil_append, blockComment, hs, hsl, beq_self_eq_true, Bool.and_true]
    have : (42 == 47) = false := by decide
    simp [this]
  | cons a body ih =>
    intro b h
    simp only [blockComment] at h
    simp only [List.cons_append, blockComment]
    split
    · rename_i hc; rw [if_pos hc] at h; cases h
    · rename_i hc; rw [if_neg hc] at h; exact ih _ h

theorem take_append_sub (A X : Input) : List.take ((A ++ X).length - X.length) (A ++ X) = A := by
  rw [List.length_append, Nat.add_sub_cancel]
  exact List.take_left

/-! ## Gaps: whitespace and comments between tokens -/

theorem scanTok_ws (f : Nat) (w : Rune) (X : Input) (h : isWs w.code = true) :
    scanTok (f + 1) (w :: X) = scanTok (f + 1) X := by
  simp only [scanTok, skipWs, h, ↓reduceIte]

theorem scanTok_lineStart (f : Nat) (Y : Input) :
    scanTok (f + 1) (asciiRune 47 :: asciiRune 47 :: Y) = scanTok f (lineComment Y) := by
  rw [scanTok]
  have h1 : skipWs (asciiRune 47 :: asciiRune 47 :: Y) = asciiRune 47 :: asciiRune 47 :: Y := skipWs_not _ _ rfl
  have h2 : isIdentRune (asciiRune 47) true = false := by decide
  simp only [h1, h2]
  simp [isDecimal]

theorem scanTok_blockStart (f : Nat) (Y Z : Input) (hZ : blockComment false Y = some Z) :
    scanTok (f + 1) (asciiRune 47 :: asciiRune 42 :: Y) = scanTok f Z := by
  rw [scanTok]
  have h1 : skipWs (asciiRune 47 :: asciiRune 42 :: Y) = asciiRune 47 :: asciiRune 42 :: Y := skipWs_not _ _ rfl
  have h2 : isIdentRune (asciiRune 47) true = false := by decide
  simp only [h1, h2, hZ]
  simp [isDecimal]

/-- an element of the space between two tokens -/
inductive GapEl where
  /-- one whitespace rune: tab (9), line feed (10), carriage return (13) or space (32) -/
  | ws (c : Nat)
  /-- `/* body */` -/
  | block (body : Input)
  /-- `// body` and the line feed that ends it -/
  | line (body : Input)

abbrev Gap := List GapEl

def GapEl.runes : GapEl → Input
  | .ws c => [asciiRune c]
  | .block body => asciiRune 47 :: asciiRune 42 :: body ++ [asciiRune 42, asciiRune 47]
  | .line body => asciiRune 47 :: asciiRune 47 :: body ++ [asciiRune 10]

/-- well-formed: a whitespace code; a block comment body without `*/`; a line comment body without a
line feed -/
def GapEl.ok : GapEl → Bool
  | .ws c => isWs c
  | .block body => (blockComment false body).isNone
  | .line body => body.all fun r => !(r.code == 10)

/-- scanner passes (`goto redo`) the element costs -/
def GapEl.cost : GapEl → Nat
  | .ws _ => 0
  | _ => 1

def Gap.runes (g : Gap) : Input := g.flatMap GapEl.runes
def Gap.ok (g : Gap) : Bool := g.all GapEl.ok
def Gap.cost (g : Gap) : Nat := (g.map GapEl.cost).sum

theorem Gap.runes_cons (e : GapEl) (g : Gap) : Gap.runes (e :: g) = e.runes ++ Gap.runes g := by
  simp [Gap.runes]

/-- The scanner skips a well-formed gap: one extra pass per comment. -/
theorem scanTok_gap (g : Gap) (hg : Gap.ok g = true) (X : Input) :
    ∀ f, scanTok (Gap.cost g + f + 1) (Gap.runes g ++ X) = scanTok (f + 1) X := by
  induction g with
  | nil => intro f; simp [Gap.cost, Gap.runes]
  | cons e g ih =>
    intro f
    simp only [Gap.ok, List.all_cons, Bool.and_eq_true] at hg
    have ih' := ih hg.2
    have hcost : Gap.cost (e :: g) = e.cost + Gap.cost g := by simp [Gap.cost]
    rw [Gap.runes_cons, hcost, List.append_assoc]
    cases e with
    | ws c =>
      have hc : isWs (asciiRune c).code = true := hg.1
      simp only [GapEl.runes, GapEl.cost, Nat.zero_add, List.cons_append, List.nil_append]
      rw [scanTok_ws _ _ _ hc]; exact ih' f
    | block body =>
      have hb : blockComment false body = none := by simpa [GapEl.ok] using hg.1
      have := blockComment_append body (asciiRune 42) (asciiRune 47) (Gap.runes g ++ X) rfl rfl false hb
      simp only [GapEl.runes, GapEl.cost, List.cons_append, List.nil_append, List.append_assoc]
      have e1 : 1 + Gap.cost g + f + 1 = (Gap.cost g + f + 1) + 1 := by omega
      rw [e1, scanTok_blockStart _ _ _ this]; exact ih' f
    | line body =>
      have hb : ∀ r ∈ body, (r.code == 10) = false := by
        intro r hr
        have := hg.1
        simp only [GapEl.ok, List.all_eq_true] at this
        simpa using this r hr
      have := lineComment_append body (asciiRune 10) (Gap.runes g ++ X) rfl hb
      simp only [GapEl.runes, GapEl.cost, List.cons_append, List.nil_append, List.append_assoc]
      have e1 : 1 + Gap.cost g + f + 1 = (Gap.cost g + f + 1) + 1 := by omega
      rw [e1, scanTok_lineStart, this, scanTok_ws _ _ _ (by rfl)]; exact ih' f

end Mkdb.Scan
