import Mkdb.Proofs.CrashPrefix8
/-!
Crash while a statement appends its records to the log, part 9: the three theorems of `CrashPrefix6`
restated against `Spec.rowPrefixStates` - **the database starts, the table of the crashed statement
holds one of the row-prefix states, every other table is as before the statement.**
-/
set_option autoImplicit false
namespace Mkdb.Store
open Mkdb.Page Mkdb.Tuple Mkdb.Generated Mkdb.Tree Mkdb.Engine

/-- **C03, INSERT.**  After a history of acknowledged statements, a multi-row INSERT ran in memory
and the crash cut the append of its records after `k` of them (any `k`).  Recovery - the replay of
the surviving log on the store the history started from - ends without error in a store that
abstracts to a plain-model database `sdbK` in which the table of the statement holds one of the states
`Spec.rowPrefixStates` lists (its rows before the statement plus the first `j` new rows, for some `j`)
and every other table is as in `sdbN`; the row-id counter is the one before the statement plus `j`. -/
theorem insert_crash_rowPrefixState (sch : Levels) {db0 dbN : Engine.DB} {sdb0 sdbN : Spec.SDB}
    {stmts : List EStmt} (run : SpecRun sch db0 sdb0 stmts dbN sdbN) (hwal : db0.wal = [])
    (pt : Levels) (tbls : List (Bytes × Levels)) (hA : AbsV db0.store pt sch tbls sdb0)
    (hself : PtSelf pt) (hf : FreshM db0.store tbls)
    (table : Bytes) (cols : List Bytes) (lrows : List (List Sql.Lit))
    (hvalid : ∀ r ∈ lrows.map (fun r => r.map Spec.litVal), ∀ v ∈ r, ValidVal v) (sdbC : Spec.SDB)
    (hspec : Spec.specInsert sdbN table cols (lrows.map fun r => r.map Spec.litVal) = some sdbC)
    (hrunok : ∀ pt tbls t schema, AbsV dbN.store pt sch tbls sdbN → (table, t) ∈ tbls →
      schemaOf sch table = some schema →
      InsRunOK schema (cols.map Engine.bytesToName) t dbN.store.hdr.lastKey dbN.store.hdr.nextLSN
        dbN.store.hdr.nextFree (lrows.map fun r => r.map Spec.litVal))
    (n : Nat) (dbC : Engine.DB)
    (heval : Engine.evalInsert dbN table cols (lrows.map fun r => r.map Spec.litVal) = .ok n dbC) (k : Nat) :
    ∃ rK ptR tblsK sdbK stK j,
      replayAll (dbN.wal ++ (dbC.wal.drop dbN.wal.length).take k) db0.store = (rK, none, false) ∧
      AbsV rK ptR sch tblsK sdbK ∧
      Spec.findTable sdbK table = some stK ∧
      (table, stK.rows.map (·.vals)) ∈ Spec.rowPrefixStates sdbN (.insert table cols lrows) ∧
      (∀ n, n ≠ table → Spec.findTable sdbK n = Spec.findTable sdbN n) ∧
      j ≤ lrows.length ∧ rK.hdr.lastKey = dbN.store.hdr.lastKey + j := by
  obtain ⟨j, rK, sdbJ, dbJ, ptJ, ptR, tblsJ, hj, hre, hspecJ, hAR, _, _, _, _, hlk, hlkJ, _⟩ :=
    insert_crash_prefix sch run hwal pt tbls hA hself hf table cols _ hvalid sdbC hspec hrunok n dbC heval k
  obtain ⟨stJ, hfindJ, hmem, hother⟩ := insert_state_in_rowPrefixStates sdbN sdbC sdbJ table cols lrows hspec j hspecJ
  exact ⟨rK, ptR, tblsJ, sdbJ, stJ, j, hre, hAR, hfindJ, hmem, hother, by rw [List.length_map] at hj; exact hj,
    by rw [hlk, hlkJ]⟩

/-- **C03, DELETE.**  As `insert_crash_rowPrefixState`: the table holds its rows before the statement
without the first `j` selected ones (`j = min k (number of selected rows)`); the row-id counter is
the one before the statement. -/
theorem delete_crash_rowPrefixState (sch : Levels) {db0 dbN : Engine.DB} {sdb0 sdbN : Spec.SDB}
    {stmts : List EStmt} (run : SpecRun sch db0 sdb0 stmts dbN sdbN) (hwal : db0.wal = [])
    (pt : Levels) (tbls : List (Bytes × Levels)) (hA : AbsV db0.store pt sch tbls sdb0)
    (hself : PtSelf pt) (hf : FreshM db0.store tbls)
    (table : Bytes) (w : Option Sql.Cond) (sdbC : Spec.SDB)
    (hspec : Spec.specDelete sdbN table w = some sdbC)
    (n : Nat) (dbC : Engine.DB) (heval : Engine.evalDelete dbN table w = .ok n dbC) (k : Nat) :
    ∃ rK ptK tblsK sdbK stK,
      replayAll (dbN.wal ++ (dbC.wal.drop dbN.wal.length).take k) db0.store = (rK, none, false) ∧
      AbsV rK ptK sch tblsK sdbK ∧
      Spec.findTable sdbK table = some stK ∧
      (table, stK.rows.map (·.vals)) ∈ Spec.rowPrefixStates sdbN (.delete table w) ∧
      (∀ n, n ≠ table → Spec.findTable sdbK n = Spec.findTable sdbN n) ∧
      rK.hdr.lastKey = dbN.store.hdr.lastKey ∧ rK.hdr.nextFree = dbN.store.hdr.nextFree := by
  obtain ⟨st, sel, _, hfind, hsel, _, rK, _, ptK, tblsK, _, hre, hAR, _, _, _, _, hnf, hlk, _⟩ :=
    delete_crash_prefix sch run hwal pt tbls hA hself hf table w sdbC hspec n dbC heval k
  exact ⟨rK, ptK, tblsK, _, _, hre, hAR, findTable_updRows_self table _ sdbN st hfind,
    delete_state_in_rowPrefixStates sdbN table w st sel hfind hsel _ (Nat.min_le_right _ _),
    fun n hn => findTable_updRows_other table _ n hn sdbN, hlk, hnf⟩

/-- **C03, UPDATE.**  As `insert_crash_rowPrefixState`: the table holds its rows before the statement
with the first `j` selected ones rewritten (`j = min k (number of selected rows)`). -/
theorem update_crash_rowPrefixState (sch : Levels) {db0 dbN : Engine.DB} {sdb0 sdbN : Spec.SDB}
    {stmts : List EStmt} (run : SpecRun sch db0 sdb0 stmts dbN sdbN) (hwal : db0.wal = [])
    (pt : Levels) (tbls : List (Bytes × Levels)) (hA : AbsV db0.store pt sch tbls sdb0)
    (hself : PtSelf pt) (hf : FreshM db0.store tbls)
    (table : Bytes) (sets : List (Bytes × Sql.VExpr)) (w : Option Sql.Cond)
    (hvalid : ∀ p ∈ sets, ∀ l, p.2 = .lit l → ValidVal (Engine.litToVal l)) (sdbC : Spec.SDB)
    (hspec : Spec.specUpdate sdbN table sets w = some sdbC)
    (dbC : Engine.DB) (heval : Engine.evalUpdate dbN table sets w = .ok () dbC) (k : Nat) :
    ∃ rK ptK tblsK sdbK stK,
      replayAll (dbN.wal ++ (dbC.wal.drop dbN.wal.length).take k) db0.store = (rK, none, false) ∧
      AbsV rK ptK sch tblsK sdbK ∧
      Spec.findTable sdbK table = some stK ∧
      (table, stK.rows.map (·.vals)) ∈ Spec.rowPrefixStates sdbN (.update table sets w) ∧
      (∀ n, n ≠ table → Spec.findTable sdbK n = Spec.findTable sdbN n) ∧
      rK.hdr.lastKey = dbN.store.hdr.lastKey ∧ rK.hdr.nextFree = dbN.store.hdr.nextFree := by
  obtain ⟨st, sel, _, hfind, hsel, _, rK, _, ptK, tblsK, _, hre, hAR, _, _, _, _, hnf, hlk, _⟩ :=
    update_crash_prefix sch run hwal pt tbls hA hself hf table sets w hvalid sdbC hspec dbC heval k
  exact ⟨rK, ptK, tblsK, _, _, hre, hAR, findTable_updRows_self table _ sdbN st hfind,
    update_state_in_rowPrefixStates sdbN sdbC table sets w hspec st sel hfind hsel _ (Nat.min_le_right _ _),
    fun n hn => findTable_updRows_other table _ n hn sdbN, hlk, hnf⟩

end Mkdb.Store
