import Mkdb.Proofs.Meaning4
import Mkdb.Proofs.Aggregate
/-!
`evaluateSelect` against `Spec.meaning` / `Spec.satisfies`, part 5: aggregates and GROUP BY (C07),
cell by cell and row by row.

The executor projects every source row first (`projectColumns`: `COUNT(*)` becomes `1`,
`COUNT(c)` becomes `0`/`1`) and aggregates the *projected* rows by the values at the GROUP BY
positions; the specification groups the *source* rows by the values of the designated select-list
items and computes each aggregate on the source rows of the group.  Here: one cell
(`cell_agree`), one result row (`row_agree`), all groups (`groups_agree`).
-/
namespace Mkdb.Exec.MeaningP
open Mkdb.Sql Mkdb.Tuple Mkdb.Spec Mkdb.Exec.SelectP Mkdb.Exec.AggP

/-! ### projected rows as a function of the source row -/

/-- the value of one select-list element on a source row (`NULL` where it has none) -/
def pv (fields : List Field) (d : DerivedCol) (r : Row) : Val := (itemVal d.item fields r).getD .null

/-- the projected row -/
def projRow (sl : List DerivedCol) (fields : List Field) (r : Row) : Row := sl.map fun d => pv fields d r

/-- every select-list element has a value on every row -/
def Projects (sl : List DerivedCol) (fields : List Field) (rows : List Row) : Prop :=
  ∀ r ∈ rows, ∀ d ∈ sl, itemVal d.item fields r = some (pv fields d r)

theorem mapM_eq_some_map {α β : Type} {f : α → Option β} {g : α → β} {l : List α}
    (h : ∀ a ∈ l, f a = some (g a)) : l.mapM f = some (l.map g) := by
  induction l with
  | nil => rfl
  | cons a l ih =>
    exact mapM_cons_some.2 ⟨g a, l.map g, h a List.mem_cons_self,
      ih (fun a ha => h a (List.mem_cons_of_mem _ ha)), rfl⟩

theorem projects_of_mapM {sl : List DerivedCol} {fields : List Field} {rows p : List Row}
    (h : rows.mapM (fun r => sl.mapM fun d => itemVal d.item fields r) = some p) :
    p = rows.map (projRow sl fields) ∧ Projects sl fields rows := by
  have inner : ∀ r vs, sl.mapM (fun d => itemVal d.item fields r) = some vs →
      vs = projRow sl fields r ∧ ∀ d ∈ sl, itemVal d.item fields r = some (pv fields d r) := by
    intro r vs hvs
    exact JoinP.mapM_some_eq_map (g := fun d => pv fields d r) hvs
      (by intro d _ b hb; simp only [pv, hb, Option.getD_some])
  obtain ⟨hp, hall⟩ := JoinP.mapM_some_eq_map (g := projRow sl fields) h
    (by intro r _ b hb; exact (inner r b hb).1)
  exact ⟨hp, fun r hr => (inner r _ (hall r hr)).2⟩

theorem mapM_of_projects {sl : List DerivedCol} {fields : List Field} {rows : List Row}
    (h : Projects sl fields rows) :
    rows.mapM (fun r => sl.mapM fun d => itemVal d.item fields r) = some (rows.map (projRow sl fields)) :=
  mapM_eq_some_map (fun r hr => mapM_eq_some_map (g := fun d => pv fields d r) (h r hr))

theorem Projects.sublist {sl : List DerivedCol} {fields : List Field} {rows rows' : List Row}
    (h : Projects sl fields rows) (hs : ∀ r ∈ rows', r ∈ rows) : Projects sl fields rows' :=
  fun r hr => h r (hs r hr)

theorem projRow_getElem? {sl : List DerivedCol} {fields : List Field} {i : Nat} {d : DerivedCol}
    (hd : sl[i]? = some d) (r : Row) : (projRow sl fields r)[i]? = some (pv fields d r) := by
  unfold projRow
  rw [List.getElem?_map, hd]; rfl

/-! ### one cell -/

theorem itemVal_count_star (fields : List Field) (r : Row) :
    itemVal (.count none) fields r = some (.int 1) := rfl

/-- the projected value of `COUNT(c)` on a row: `1` where the column is not NULL, else `0` -/
theorem itemVal_count_col {c : ColRef} {fields : List Field} {j : Nat} {r : Row} {v : Val}
    (hfc : findColumn c fields = .ok j) (h : itemVal (.count (some c)) fields r = some v) :
    v = .int (if (r[j]?).getD .null != .null then 1 else 0) := by
  rw [itemVal_some_iff] at h
  simp only [projectItem, hfc, bind_ok] at h
  cases hr : r[j]? with
  | none => rw [hr] at h; cases h
  | some x =>
    rw [hr] at h
    cases x <;> simp only [pure_eq_ok, X.ok.injEq] at h <;> subst h <;> rfl

/-- the projected value of `AVG(c)` on a row: the integer in the column -/
theorem itemVal_avg {c : ColRef} {fields : List Field} {j : Nat} {r : Row} {v : Val}
    (hfc : findColumn c fields = .ok j) (h : itemVal (.avg c) fields r = some v) :
    ∃ x, r[j]? = some (.int x) ∧ v = .int x := by
  rw [itemVal_some_iff] at h
  simp only [projectItem, hfc, bind_ok] at h
  cases hr : r[j]? with
  | none => rw [hr] at h; cases h
  | some y =>
    rw [hr] at h
    cases y with
    | int x => simp only [pure_eq_ok, X.ok.injEq] at h; exact ⟨x, rfl, h.symm⟩
    | str s => cases h
    | bool b => cases h
    | null => cases h

theorem foldl_add_const {α : Type} (x : Int) (l : List α) (acc : Int) :
    (l.map fun _ => x).foldl (· + ·) acc = acc + x * l.length := by
  induction l generalizing acc with
  | nil => simp
  | cons a t ih =>
    rw [List.map_cons, List.foldl_cons, ih, List.length_cons]
    rw [Int.natCast_succ, Int.mul_add, Int.mul_one]
    omega

/-- the select list holds no `AVG` -/
def noAvg (sl : List DerivedCol) : Bool :=
  sl.all fun d => match d.item with | .avg _ => false | _ => true

theorem noAvg_item {sl : List DerivedCol} (h : noAvg sl = true) {d : DerivedCol} (hd : d ∈ sl)
    (c : ColRef) : d.item ≠ .avg c := by
  unfold noAvg at h
  rw [List.all_eq_true] at h
  intro e
  have := h d hd
  rw [e] at this
  cases this

/-- the value of a list of values that are all the same -/
def constAll (o : Option (List Val)) : Option Val :=
  match o with
  | some (v :: vs) => if vs.all (· == v) then some v else none
  | _ => none

theorem mapM_some_mem {α β : Type} {f : α → Option β} {l : List α} {bs : List β}
    (h : l.mapM f = some bs) : ∀ a ∈ l, ∃ b ∈ bs, f a = some b := by
  intro a ha
  obtain ⟨b, hb⟩ := mapM_some_forall h a ha
  refine ⟨b, ?_, hb⟩
  rw [mapM_some_eq_filterMap h]
  exact List.mem_filterMap.2 ⟨a, ha, hb⟩

/-- all rows of a non-empty group give the value `v` -/
theorem constAll_iff {f : Row → Option Val} {grp : List Row} {v : Val} :
    constAll (grp.mapM f) = some v ↔ grp ≠ [] ∧ ∀ r ∈ grp, f r = some v := by
  constructor
  · intro h
    cases hm : grp.mapM f with
    | none => rw [hm] at h; cases h
    | some ws =>
      rw [hm] at h
      cases ws with
      | nil => cases h
      | cons w ws =>
        simp only [constAll] at h
        split at h
        · rename_i hall
          cases h
          have hne : grp ≠ [] := by
            intro e; rw [e] at hm
            simp only [List.mapM_nil, Option.pure_def, Option.some.injEq] at hm
            cases hm
          refine ⟨hne, fun r hr => ?_⟩
          obtain ⟨b, hb, hfb⟩ := mapM_some_mem hm r hr
          rcases List.mem_cons.1 hb with rfl | hb
          · exact hfb
          · rw [List.all_eq_true] at hall
            rw [hfb, beq_iff_eq.1 (hall b hb)]
        · cases h
  · rintro ⟨hne, hall⟩
    rw [mapM_eq_some_map (g := fun _ => v) hall]
    cases grp with
    | nil => exact absurd rfl hne
    | cons r0 rest =>
      simp only [List.map_cons, constAll]
      rw [if_pos]
      rw [List.all_eq_true]
      intro b hb
      obtain ⟨_, _, rfl⟩ := List.mem_map.1 hb
      exact beq_self_eq_true _

/-- the aggregate of an element that is neither a COUNT nor an AVG: the one value it has on all
rows of the group -/
theorem aggVal_plain_iff {item : SelItem} (h1 : ∀ c, item ≠ .count c) (h2 : ∀ c, item ≠ .avg c)
    {fields : List Field} {grp : List Row} {v : Val} :
    aggVal item fields grp = some v ↔ grp ≠ [] ∧ ∀ r ∈ grp, itemVal item fields r = some v := by
  have : aggVal item fields grp = constAll (grp.mapM fun r => itemVal item fields r) := by
    cases item with
    | count c => exact absurd rfl (h1 c)
    | avg c => exact absurd rfl (h2 c)
    | star => rfl
    | expr e => rfl
  rw [this]
  exact constAll_iff

/-- **one cell**: on a non-empty group of source rows the executor's cell (computed on the
projected rows of the group) and the specification's aggregate (computed on the source rows) are
defined together and equal - `COUNT(*)`, `COUNT(col)`; an `AVG` or a non-aggregate element when it
has one value on all rows of the group (`hconst`: the reference meaning demands it of a
non-aggregate element, and it is the case in which the cumulative `AVG` of the code is the mean) -/
theorem cell_agree {sl : List DerivedCol} {fields : List Field} {grp : List Row} {k : List Val}
    {i : Nat} {d : DerivedCol} (hd : sl[i]? = some d) (hne : grp ≠ [])
    (hproj : Projects sl fields grp)
    (hres : ∀ c ∈ itemColumns d.item, ∃ j, findColumn c fields = .ok j)
    (hconst : (∀ c, d.item ≠ .count c) → ∀ r ∈ grp, ∀ r' ∈ grp, pv fields d r = pv fields d r') :
    ∃ v, aggCell d.item i ⟨k, grp.map (projRow sl fields)⟩ = .ok v ∧
      aggVal d.item fields grp = some v := by
  have hmem : d ∈ sl := List.mem_of_getElem? hd
  have hcell : ∀ r, (projRow sl fields r)[i]? = some (pv fields d r) := projRow_getElem? hd
  obtain ⟨r0, rest, rfl⟩ : ∃ r0 rest, grp = r0 :: rest := by
    cases grp with
    | nil => exact absurd rfl hne
    | cons a l => exact ⟨a, l, rfl⟩
  have hother : (∀ c, d.item ≠ .count c) → (∀ c, d.item ≠ .avg c) →
      ∃ v, aggCell d.item i ⟨k, (r0 :: rest).map (projRow sl fields)⟩ = .ok v ∧
      aggVal d.item fields (r0 :: rest) = some v := by
    intro hcnt havg
    refine ⟨pv fields d r0, ?_, ?_⟩
    · cases hi : d.item with
      | count c => exact absurd hi (hcnt c)
      | avg c => exact absurd hi (havg c)
      | star => simp only [aggCell, List.map_cons, List.head?_cons, hcell, pure_eq_ok]
      | expr e => simp only [aggCell, List.map_cons, List.head?_cons, hcell, pure_eq_ok]
    · rw [aggVal_plain_iff hcnt havg]
      refine ⟨hne, fun r hr => ?_⟩
      rw [hproj r hr d hmem, hconst hcnt r hr r0 List.mem_cons_self]
  cases hi : d.item with
  | star =>
    rw [← hi]
    exact hother (fun c e => by rw [hi] at e; cases e) (fun c e => by rw [hi] at e; cases e)
  | expr e =>
    rw [← hi]
    exact hother (fun c e' => by rw [hi] at e'; cases e') (fun c e' => by rw [hi] at e'; cases e')
  | avg c =>
    obtain ⟨j, hfc⟩ := hres c (by rw [hi]; exact List.mem_cons_self)
    have hv0 := hproj r0 List.mem_cons_self d hmem
    rw [hi] at hv0
    obtain ⟨x0, _, hx0⟩ := itemVal_avg hfc hv0
    have hall : ∀ r ∈ r0 :: rest, r[j]? = some (.int x0) ∧ pv fields d r = .int x0 := by
      intro r hr
      have hv := hproj r hr d hmem
      rw [hi] at hv
      obtain ⟨x, hrj, hx⟩ := itemVal_avg hfc hv
      have : pv fields d r = pv fields d r0 :=
        hconst (fun c' e => by rw [hi] at e; cases e) r hr r0 List.mem_cons_self
      rw [hx, hx0] at this
      cases this
      exact ⟨hrj, hx⟩
    refine ⟨.int x0, ?_, ?_⟩
    · simp only [aggCell, pure_eq_ok, X.ok.injEq, Val.int.injEq]
      have hxs : ((r0 :: rest).map (projRow sl fields)).map
          (fun pr => match pr[i]? with | some (Val.int i) => i | _ => 0) =
          List.replicate (rest.length + 1) x0 := by
        rw [List.eq_replicate_iff]
        refine ⟨by simp, ?_⟩
        intro b hb
        obtain ⟨pr, hpr, rfl⟩ := List.mem_map.1 hb
        obtain ⟨r, hr, rfl⟩ := List.mem_map.1 hpr
        rw [hcell r, (hall r hr).2]
      exact (congrArg runningAvg hxs).trans (runningAvg_const x0 rest.length)
    · simp only [aggVal, hfc]
      have hm : (r0 :: rest).mapM (fun r => match r[j]? with | some (Val.int x) => some x | _ => none) =
          some ((r0 :: rest).map fun _ => x0) :=
        mapM_eq_some_map (fun r hr => by rw [(hall r hr).1])
      simp only [Option.bind_eq_bind]
      refine Eq.trans (congrArg (Option.bind · _) hm) ?_
      simp only [Option.bind_some, Option.some.injEq, Val.int.injEq]
      rw [foldl_add_const, Int.zero_add]
      exact roundDiv_exact x0 (r0 :: rest).length (by simp)
  | count oc =>
    cases oc with
    | none =>
      refine ⟨.int (r0 :: rest).length, ?_, rfl⟩
      have := count_star_correct i ⟨k, (r0 :: rest).map (projRow sl fields)⟩ (by
        intro pr hpr
        obtain ⟨r, _, rfl⟩ := List.mem_map.1 hpr
        rw [hcell r]
        simp only [pv, hi, itemVal_count_star, Option.getD_some])
      simpa using this
    | some c =>
      obtain ⟨j, hfc⟩ := hres c (by rw [hi]; exact List.mem_cons_self)
      have hval : ∀ r ∈ r0 :: rest,
          pv fields d r = .int (if (r[j]?).getD .null != .null then 1 else 0) := by
        intro r hr
        have := hproj r hr d hmem
        rw [hi] at this
        exact itemVal_count_col hfc this
      refine ⟨.int ((r0 :: rest).filter fun r => (r[j]?).getD .null != .null).length, ?_, ?_⟩
      · have := count_col_correct (some c) i ⟨k, (r0 :: rest).map (projRow sl fields)⟩
          (fun pr => pr[i]? == some (.int 1)) (by
            intro pr hpr
            obtain ⟨r, hr, rfl⟩ := List.mem_map.1 hpr
            rw [hcell r, hval r hr]
            cases ((r[j]?).getD .null != .null) <;> rfl)
        have hf : (r0 :: rest).filter ((fun (pr : Row) => pr[i]? == some (.int 1)) ∘ projRow sl fields) =
            (r0 :: rest).filter (fun r => (r[j]?).getD .null != .null) := by
          apply List.filter_congr
          intro r hr
          simp only [Function.comp, hcell r, hval r hr]
          cases ((r[j]?).getD .null != .null) <;> rfl
        rw [this]
        simp only [List.filter_map, List.length_map, hf]
      · simp only [aggVal, hfc]

/-! ### one result row -/

theorem mapM_map_eq {α β γ : Type} (g : β → Option γ) (h : α → β) (l : List α) :
    (l.map h).mapM g = l.mapM (fun a => g (h a)) := by
  induction l with
  | nil => rfl
  | cons a l ih => rw [List.map_cons, List.mapM_cons, List.mapM_cons, ih]

/-- executor loop and specification comprehension, step by step defined together and equal -/
theorem mapX_mapM_map {α β γ : Type} {f : α → X γ} {g : β → Option γ} {h : α → β} {l : List α}
    (H : ∀ a ∈ l, ∃ c, f a = .ok c ∧ g (h a) = some c) :
    ∃ cs, mapX f l = .ok cs ∧ (l.map h).mapM g = some cs := by
  induction l with
  | nil => exact ⟨[], rfl, rfl⟩
  | cons a l ih =>
    obtain ⟨c, hf, hg⟩ := H a List.mem_cons_self
    obtain ⟨cs, hfs, hgs⟩ := ih (fun a ha => H a (List.mem_cons_of_mem _ ha))
    refine ⟨c :: cs, mapX_cons_ok_iff.2 ⟨c, cs, hf, hfs, rfl⟩, ?_⟩
    rw [List.map_cons]
    exact mapM_cons_some.2 ⟨c, cs, hg, hgs, rfl⟩

theorem mem_zip_range {sl : List DerivedCol} {p : Nat × DerivedCol}
    (h : p ∈ (List.range sl.length).zip sl) : sl[p.1]? = some p.2 := by
  obtain ⟨n, hn, hget⟩ := List.mem_iff_getElem.1 h
  have h2 : ((List.range sl.length).zip sl)[n]? = some p := by
    rw [List.getElem?_eq_getElem hn, hget]
  rw [List.getElem?_zip_eq_some] at h2
  obtain ⟨h3, h4⟩ := h2
  have hn' : n < sl.length := by
    simp only [List.length_zip, List.length_range, Nat.min_self] at hn; exact hn
  rw [List.getElem?_range hn'] at h3
  cases h3
  exact h4

/-- **one result row**: the row the executor builds for a non-empty group and the row of the
specification are defined together and equal -/
theorem row_agree {sl : List DerivedCol} {fields : List Field} {grp : List Row} (k : List Val)
    (hne : grp ≠ []) (hproj : Projects sl fields grp) (hres : ColumnsResolve sl fields)
    (hconst : ∀ d ∈ sl, (∀ c, d.item ≠ .count c) → ∀ r ∈ grp, ∀ r' ∈ grp,
      pv fields d r = pv fields d r') :
    ∃ row, mapX (fun (p : Nat × DerivedCol) => aggCell p.2.item p.1 ⟨k, grp.map (projRow sl fields)⟩)
        ((List.range sl.length).zip sl) = .ok row ∧
      sl.mapM (fun d => aggVal d.item fields grp) = some row := by
  have := mapX_mapM_map (f := fun (p : Nat × DerivedCol) =>
      aggCell p.2.item p.1 ⟨k, grp.map (projRow sl fields)⟩)
    (g := fun d => aggVal d.item fields grp) (h := Prod.snd)
    (l := (List.range sl.length).zip sl) (by
      intro p hp
      have hd := mem_zip_range hp
      have hmem : p.2 ∈ sl := List.mem_of_getElem? hd
      exact cell_agree hd hne hproj (hres p.2 hmem) (hconst p.2 hmem))
  rw [List.map_snd_zip (by simp)] at this
  exact this

/-! ### all groups -/

theorem zip_map_filterMap_key {α : Type} (f : α → List Val) (k : List Val) (l : List α) :
    ((l.zip (l.map f)).filterMap fun (x : α × List Val) => if x.2 == k then some x.1 else none) =
      l.filter (fun a => f a == k) := by
  induction l with
  | nil => rfl
  | cons a t ih =>
    simp only [List.map_cons, List.zip_cons_cons, List.filterMap_cons, List.filter_cons, ih]
    cases f a == k <;> rfl

/-- within a group (rows of equal key) the values an `AVG` averages are all equal: the case in
which the code's cumulative average, rounded after every row, is the rounded mean
(`C07_avg_partial`); vacuous for a select list without `AVG` -/
def AvgConst (sl : List DerivedCol) (fields : List Field) (key : Row → List Val) (src : List Row) : Prop :=
  ∀ d ∈ sl, ∀ c, d.item = .avg c → ∀ r ∈ src, ∀ r' ∈ src,
    key (projRow sl fields r) = key (projRow sl fields r') → pv fields d r = pv fields d r'

theorem AvgConst.of_noAvg {sl : List DerivedCol} (h : noAvg sl = true) (fields : List Field)
    (key : Row → List Val) (src : List Row) : AvgConst sl fields key src :=
  fun _ hd c hc => absurd hc (noAvg_item h hd c)

/-- every select-list element that is not a COUNT has one value on all rows of a group -/
def GroupConst (sl : List DerivedCol) (fields : List Field) (key : Row → List Val) (src : List Row) : Prop :=
  ∀ d ∈ sl, (∀ c, d.item ≠ .count c) → ∀ r ∈ src, ∀ r' ∈ src,
    key (projRow sl fields r) = key (projRow sl fields r') → pv fields d r = pv fields d r'

/-- every select-list element that is neither a COUNT nor an AVG has one value on all rows of a
group: what the reference meaning demands of a grouping query -/
def PlainConst (sl : List DerivedCol) (fields : List Field) (key : Row → List Val) (src : List Row) : Prop :=
  ∀ d ∈ sl, (∀ c, d.item ≠ .count c) → (∀ c, d.item ≠ .avg c) → ∀ r ∈ src, ∀ r' ∈ src,
    key (projRow sl fields r) = key (projRow sl fields r') → pv fields d r = pv fields d r'

theorem GroupConst.avgConst {sl : List DerivedCol} {fields : List Field} {key : Row → List Val}
    {src : List Row} (h : GroupConst sl fields key src) : AvgConst sl fields key src :=
  fun d hd c hc => h d hd (fun c' e => by rw [hc] at e; cases e)

theorem GroupConst.sublist {sl : List DerivedCol} {fields : List Field} {key : Row → List Val}
    {src src' : List Row} (h : GroupConst sl fields key src) (hs : ∀ r ∈ src', r ∈ src) :
    GroupConst sl fields key src' :=
  fun d hd hc r hr r' hr' hk => h d hd hc r (hs r hr) r' (hs r' hr') hk

theorem GroupConst.of_plain_avg {sl : List DerivedCol} {fields : List Field} {key : Row → List Val}
    {src : List Row} (hp : PlainConst sl fields key src) (ha : AvgConst sl fields key src) :
    GroupConst sl fields key src := by
  intro d hd hcnt
  by_cases hav : ∃ c, d.item = .avg c
  · obtain ⟨c, hc⟩ := hav
    exact ha d hd c hc
  · exact hp d hd hcnt (fun c e => hav ⟨c, e⟩)

/-- **all groups**: the rows the executor builds from the groups of the projected rows and the
rows of the specification (one per distinct key of the source rows, in first-occurrence order) are
defined together and equal -/
theorem groups_agree {sl : List DerivedCol} {fields : List Field} {src : List Row}
    (key : Row → List Val) (hproj : Projects sl fields src) (hres : ColumnsResolve sl fields)
    (hconst : GroupConst sl fields key src) :
    ∃ out, mapX (fun g => mapX (fun (p : Nat × DerivedCol) => aggCell p.2.item p.1 g)
          ((List.range sl.length).zip sl)) (groupsOf key (src.map (projRow sl fields))) = .ok out ∧
      (distinctKeys (src.map fun r => key (projRow sl fields r))).mapM (fun k =>
        sl.mapM fun d => aggVal d.item fields
          (src.filter fun r => key (projRow sl fields r) == k)) = some out := by
  have hkeys : distinctKeys (src.map fun r => key (projRow sl fields r)) =
      (groupsOf key (src.map (projRow sl fields))).map (·.key) := by
    rw [groups_keys_first_occurrence, List.map_map]; rfl
  rw [hkeys]
  apply mapX_mapM_map
  intro g hg
  have hrows := groups_rows_eq_filter key _ g hg
  rw [List.filter_map] at hrows
  have hkmem : g.key ∈ (src.map (projRow sl fields)).map key := by
    rw [← List.mem_eraseDups, ← groups_keys_first_occurrence]
    exact List.mem_map.2 ⟨g, hg, rfl⟩
  obtain ⟨pr, hpr, hk⟩ := List.mem_map.1 hkmem
  obtain ⟨r, hr, rfl⟩ := List.mem_map.1 hpr
  have hne : (src.filter fun r => key (projRow sl fields r) == g.key) ≠ [] := by
    intro e
    have : r ∈ src.filter fun r => key (projRow sl fields r) == g.key :=
      List.mem_filter.2 ⟨hr, by rw [hk]; exact beq_self_eq_true _⟩
    rw [e] at this; cases this
  have hg' : g = ⟨g.key, (src.filter fun r => key (projRow sl fields r) == g.key).map
      (projRow sl fields)⟩ := by
    cases g; simp only [Group.mk.injEq, true_and]; exact hrows
  rw [hg']
  refine row_agree g.key hne (hproj.sublist (fun r hr => (List.mem_filter.1 hr).1)) hres ?_
  intro d hd hc r1 hr1 r2 hr2
  obtain ⟨h1, k1⟩ := List.mem_filter.1 hr1
  obtain ⟨h2, k2⟩ := List.mem_filter.1 hr2
  exact hconst d hd hc r1 h1 r2 h2 ((beq_iff_eq.1 k1).trans (beq_iff_eq.1 k2).symm)

end Mkdb.Exec.MeaningP
