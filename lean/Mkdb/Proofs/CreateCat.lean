import Mkdb.Proofs.CreateCat3
import Mkdb.Proofs.CreateFlush
import Mkdb.Proofs.CreateFiled
/-!
Refinement at the statement level: `Store.createTable` (`RelationService.CreateTable`) under the
catalog invariant `Cat`.

* `createTable_cat_core`: the body of CREATE TABLE for a name the catalog does not know.  The page
  at the allocation frontier becomes the (empty, dirty) root of the new table; the page table gets
  the row `(name, that offset)` - `insertAppend` - and the header follows its root; `sys_schema`
  gets one row per column with consecutive row ids (`schemaCells`), its catalog row being
  re-pointed (`repoint sysSchema`) whenever its root moves; the catalog invariant holds for the
  table list with `(name, emptyTree off)` appended; `schemaOf` reads the declared columns back.
* `createTable_cat_noflush` (`doFlush = false`), `createTable_cat` (`doFlush = true`: the state of
  `createTable_cat_noflush`, flushed - every dirty bit cleared, the header written).
* `createTable_exists_cat`, `createTable_sysSchema_cat`: a name that is taken is refused.
* `createTable_then_lookup`: afterwards the two catalog lookups find the table and its columns.
* non-vacuity: a one-column table on the concrete catalog `st0` / `cat0` of `RefineStmt`.
-/
set_option autoImplicit false
namespace Mkdb.Store
open Mkdb.Page Mkdb.Tuple Mkdb.Generated Mkdb.Tree

theorem bind_assoc_ok {α β γ} {m : SM α} {f : α → SM β} {g : β → SM γ} {s s' : Store} {b : β}
    (h : (m >>= f) s = .ok b s') : (m >>= fun a => f a >>= g) s = g b s' := by
  obtain ⟨a, s0, e1, e2⟩ := bind_eq_ok h
  rw [bind_ok e1, bind_ok e2]

/-- after the pre-validation checks (existence, column lengths and names, catalog rows) CREATE TABLE runs its body in the store the catalog
lookup left -/
theorem createTable_body_eq (fields : List FieldDef) (name : Bytes) (order : List Nat) (doFlush : Bool)
    (s s1 : Store) (e : relationOffset name s = .err .tableNotExist s1)
    (hfld : checkFieldsFrom [] fields = none)
    (hchk : checkCatalogRows fields name = none) :
    createTable fields name order doFlush s =
      (appendNode newRootLeaf true >>= fun pgOff => insertPageTable pgOff name >>= fun _ =>
        relationOffset sysSchema >>= fun r => fetch r >>= fun _ => insertSchemaRows fields name r >>= fun _ =>
          if doFlush then flushPages order else pure ()) s1 := by
  unfold createTable
  rw [e]
  simp only [hfld, hchk]
  rfl

/-- what the pre-validation establishes about the rows of `sys_schema` -/
theorem schemaRows_ok {fields : List FieldDef} {name : Bytes}
    (hfld : checkFieldsFrom [] fields = none)
    (hchk : checkCatalogRows fields name = none) :
    name.length + 14 ≤ c_maxValueSize ∧
    ∀ fd ∈ fields, -2147483648 ≤ fd.len ∧ fd.len ≤ 2147483647 ∧
      (schemaRowBytes name fd).length ≤ c_maxValueSize := by
  obtain ⟨hname, hrows⟩ := checkCatalogRows_none hchk
  refine ⟨hname, fun fd hfd => ?_⟩
  have hr := List.any_eq_false.mp (checkFieldsFrom_none_len hfld) fd hfd
  simp only [Bool.or_eq_true, decide_eq_true_eq, not_or, Int.not_lt, gt_iff_lt] at hr
  obtain ⟨b, hb, hbl⟩ := hrows fd hfd
  rw [encode_schemaRow name fd (by omega) (by omega)] at hb
  cases hb
  exact ⟨by omega, by omega, hbl⟩

/-- **CREATE TABLE under the catalog invariant, the body.**  `s'` is the state before the final
flush. -/
theorem createTable_cat_core {s : Store} {pt sch : Levels} {tbls : List (Bytes × Levels)} (h : Cat s pt sch tbls)
    (fields : List FieldDef) (name : Bytes) (order : List Nat)
    (hn1 : name ≠ sysPages) (hn2 : name ≠ sysSchema) (hn3 : name ∉ tbls.map (·.1))
    (hfld : checkFieldsFrom [] fields = none)
    (hchk : checkCatalogRows fields name = none)
    (hpd : pt.inner.length + 3 ≤ treeFuel) (hpl : pt.leaves.length + 1 ≤ scanFuel)
    (hsd : sch.inner.length + fields.length + 2 ≤ treeFuel) (hsl : sch.leaves.length + fields.length ≤ scanFuel)
    (hbig : s.hdr.nextFree + 262144 * fields.length + 262144 ≤ 9223372036854775807) :
    ∃ s' pt1 nf1 pt' sch',
      (∀ doFlush, createTable fields name order doFlush s =
        (if doFlush then flushPages order else pure ()) s') ∧
      Cat s' pt' sch' (tbls ++ [(name, emptyTree s.hdr.nextFree)]) ∧
      -- the page table: the new row, then only re-pointings of the `sys_schema` row
      insertAppend pt (s.hdr.lastKey + 1) s.hdr.nextLSN (ptRow name s.hdr.nextFree)
        (s.hdr.nextFree + c_pageSize) = .ok (pt1, nf1) ∧
      PtSame pt1 pt' ∧ s'.hdr.ptRoot = rootOff pt1 ∧
      ptEntries pt' = (ptEntries pt ++ [(name, s.hdr.nextFree)]).map (repoint sysSchema (rootOff sch')) ∧
      -- `sys_schema`: one row per column
      cells sch' = cells sch ++ schemaCells name fields (s.hdr.lastKey + 2) ∧
      schemaOf sch' name = (schemaOf sch name).map (· ++ fields) ∧
      (∀ n, n ≠ name → schemaOf sch' n = schemaOf sch n) ∧
      -- the counters
      s'.hdr.lastKey = s.hdr.lastKey + 1 + fields.length ∧
      (∃ m, m ≤ fields.length ∧ s'.hdr.nextLSN = s.hdr.nextLSN + 1 + fields.length + m) ∧
      nf1 ≤ s'.hdr.nextFree ∧ s'.hdr.nextFree ≤ s.hdr.nextFree + 262144 * fields.length + 262144 := by
  obtain ⟨hname, hrows⟩ := schemaRows_ok hfld hchk
  have hmv : c_maxValueSize = 400 := rfl
  -- the existence check
  obtain ⟨s1, e1, hs1, hc1⟩ := relationOffset_cat_unknown h name hn1 hn2 hn3
  -- the root page and its catalog row
  obtain ⟨s2, pt1, nf1, e2, hins, hc2, hent2, lk2, lsn2, hnf2⟩ :=
    createHead_cat hc1 name hn1 hn2 hn3 hname hpd hpl (by rw [hs1.2]; omega)
  rw [hs1.2] at hins hc2 hent2 lk2 lsn2
  obtain ⟨_, _, g3⟩ := insertAppend_growth hins
  have hle1 : s.hdr.nextFree + c_pageSize ≤ nf1 := insertAppend_nextFree pt pt1 _ _ _ nf1 _ hins
  have hnf1 : nf1 ≤ s.hdr.nextFree + 262144 := by
    have h64 := treeFuel_eq
    rw [pageSize_eq, Nat.mul_add, ← Nat.add_assoc] at g3
    omega
  -- the root of `sys_schema`
  obtain ⟨s3, e3, hs3⟩ := relationOffset_entry hc2 sysSchema (rootOff sch) hc2.esch
  have hc3 := hc2.of_same hs3
  obtain ⟨hHs3, hIs3, _, _, _⟩ := hc3.tree sch Cat.sch_mem
  obtain ⟨n, d, hvn, hon⟩ := root_held s3 sch _ hHs3 hIs3
  obtain ⟨s4, e4, v4, _, _⟩ := fetch_spec s3 (rootOff sch) n d hvn hon
  have hs4 : Same s3 s4 := ⟨v4, fetch_hdr e4⟩
  have hc4 := hc3.of_same hs4
  have hh4 : s4.hdr = s2.hdr := hs4.2.trans hs3.2
  -- the rows of `sys_schema`
  obtain ⟨s', pt', sch', e5, hc5, hcells, lk5, ⟨m, hm, lsn5⟩, nfl5, nfu5, hent5, hsame5, hso1, hso2⟩ :=
    insertSchemaRows_cat name (by omega) fields hc4 hrows hsd hsl (by rw [hh4, hnf2]; omega)
  rw [hh4] at hcells lk5 lsn5 nfl5 nfu5
  refine ⟨s', pt1, nf1, pt', sch', ?_, hc5, hins, hsame5, ?_, by rw [hent5, hent2], ?_, hso1, hso2, ?_,
    ⟨m, hm, by rw [lsn5, lsn2]⟩, by rw [hnf2] at nfl5; exact nfl5, by rw [hnf2] at nfu5; omega⟩
  · intro doFlush
    rw [createTable_body_eq fields name order doFlush s s1 e1 hfld hchk, bind_assoc_ok e2, bind_ok e3,
      bind_ok e4, bind_ok e5]
  · rw [← hc5.root, hsame5.2.1]
  · rw [hcells, lk2]
  · rw [lk5, lk2]

/-- **CREATE TABLE without the final flush, under the catalog invariant.** -/
theorem createTable_cat_noflush {s : Store} {pt sch : Levels} {tbls : List (Bytes × Levels)} (h : Cat s pt sch tbls)
    (fields : List FieldDef) (name : Bytes) (order : List Nat)
    (hn1 : name ≠ sysPages) (hn2 : name ≠ sysSchema) (hn3 : name ∉ tbls.map (·.1))
    (hfld : checkFieldsFrom [] fields = none)
    (hchk : checkCatalogRows fields name = none)
    (hpd : pt.inner.length + 3 ≤ treeFuel) (hpl : pt.leaves.length + 1 ≤ scanFuel)
    (hsd : sch.inner.length + fields.length + 2 ≤ treeFuel) (hsl : sch.leaves.length + fields.length ≤ scanFuel)
    (hbig : s.hdr.nextFree + 262144 * fields.length + 262144 ≤ 9223372036854775807) :
    ∃ s' pt1 nf1 pt' sch',
      createTable fields name order false s = .ok () s' ∧
      Cat s' pt' sch' (tbls ++ [(name, emptyTree s.hdr.nextFree)]) ∧
      insertAppend pt (s.hdr.lastKey + 1) s.hdr.nextLSN (ptRow name s.hdr.nextFree)
        (s.hdr.nextFree + c_pageSize) = .ok (pt1, nf1) ∧
      PtSame pt1 pt' ∧ s'.hdr.ptRoot = rootOff pt1 ∧
      ptEntries pt' = (ptEntries pt ++ [(name, s.hdr.nextFree)]).map (repoint sysSchema (rootOff sch')) ∧
      cells sch' = cells sch ++ schemaCells name fields (s.hdr.lastKey + 2) ∧
      schemaOf sch' name = (schemaOf sch name).map (· ++ fields) ∧
      (∀ n, n ≠ name → schemaOf sch' n = schemaOf sch n) ∧
      s'.hdr.lastKey = s.hdr.lastKey + 1 + fields.length ∧
      (∃ m, m ≤ fields.length ∧ s'.hdr.nextLSN = s.hdr.nextLSN + 1 + fields.length + m) ∧
      nf1 ≤ s'.hdr.nextFree ∧ s'.hdr.nextFree ≤ s.hdr.nextFree + 262144 * fields.length + 262144 := by
  obtain ⟨s', pt1, nf1, pt', sch', hrun, rest⟩ :=
    createTable_cat_core h fields name order hn1 hn2 hn3 hfld hchk hpd hpl hsd hsl hbig
  exact ⟨s', pt1, nf1, pt', sch', hrun false, rest⟩

/-- if `sys_schema` had no rows for the name (and all its rows decode), the schema read back is
exactly the declared column list -/
theorem schemaOf_new {sch sch' : Levels} {name : Bytes} {fields : List FieldDef}
    (h0 : schemaOf sch name = some []) (h1 : schemaOf sch' name = (schemaOf sch name).map (· ++ fields)) :
    schemaOf sch' name = some fields := by
  rw [h1, h0]; rfl

/-- **CREATE TABLE (with its flush) under the catalog invariant.**  `sN`, `ptN`, `schN` are the
state and the catalog trees of `createTable_cat_noflush`; the flush clears every dirty bit and
writes the header. -/
theorem createTable_cat {s : Store} {pt sch : Levels} {tbls : List (Bytes × Levels)} (h : Cat s pt sch tbls)
    (hf : MemFiled s)
    (fields : List FieldDef) (name : Bytes) (order : List Nat)
    (hn1 : name ≠ sysPages) (hn2 : name ≠ sysSchema) (hn3 : name ∉ tbls.map (·.1))
    (hfld : checkFieldsFrom [] fields = none)
    (hchk : checkCatalogRows fields name = none)
    (hpd : pt.inner.length + 3 ≤ treeFuel) (hpl : pt.leaves.length + 1 ≤ scanFuel)
    (hsd : sch.inner.length + fields.length + 2 ≤ treeFuel) (hsl : sch.leaves.length + fields.length ≤ scanFuel)
    (hbig : s.hdr.nextFree + 262144 * fields.length + 262144 ≤ 9223372036854775807) :
    ∃ sN s' pt1 nf1 ptN schN,
      createTable fields name order false s = .ok () sN ∧
      createTable fields name order true s = .ok () s' ∧
      Cat s' (clean ptN) (clean schN)
        ((tbls.map fun e => (e.1, clean e.2)) ++ [(name, clean (emptyTree s.hdr.nextFree))]) ∧
      -- the flush
      s'.hdr = sN.hdr ∧ s'.dhdr = s'.hdr ∧ s'.ghost = sN.ghost ∧ MemFiled s' ∧
      (∀ off, view s' off = (view sN off).map fun x => (x.1, false)) ∧
      (∀ p ∈ s'.mem, p.2.dirty = false) ∧
      (∀ off n, view sN off = some (n, true) → assocGet s'.disk off = some n) ∧
      -- the catalog trees
      Cat sN ptN schN (tbls ++ [(name, emptyTree s.hdr.nextFree)]) ∧
      insertAppend pt (s.hdr.lastKey + 1) s.hdr.nextLSN (ptRow name s.hdr.nextFree)
        (s.hdr.nextFree + c_pageSize) = .ok (pt1, nf1) ∧
      PtSame pt1 ptN ∧ s'.hdr.ptRoot = rootOff pt1 ∧
      ptEntries (clean ptN) =
        (ptEntries pt ++ [(name, s.hdr.nextFree)]).map (repoint sysSchema (rootOff schN)) ∧
      cells (clean schN) = cells sch ++ schemaCells name fields (s.hdr.lastKey + 2) ∧
      schemaOf (clean schN) name = (schemaOf sch name).map (· ++ fields) ∧
      (∀ n, n ≠ name → schemaOf (clean schN) n = schemaOf sch n) ∧
      -- the counters
      s'.hdr.lastKey = s.hdr.lastKey + 1 + fields.length ∧
      (∃ m, m ≤ fields.length ∧ s'.hdr.nextLSN = s.hdr.nextLSN + 1 + fields.length + m) ∧
      nf1 ≤ s'.hdr.nextFree ∧ s'.hdr.nextFree ≤ s.hdr.nextFree + 262144 * fields.length + 262144 := by
  obtain ⟨sN, pt1, nf1, ptN, schN, hrun, hcN, hins, hsame, hroot, hent, hcells, hso1, hso2, lk, lsn, nfl, nfu⟩ :=
    createTable_cat_core h fields name order hn1 hn2 hn3 hfld hchk hpd hpl hsd hsl hbig
  have hfN : MemFiled sN := createTable_memFiled hf (hrun false)
  obtain ⟨s', e, hc', hh, hdh, hg, hf', hv, hnd, hw, _⟩ := flushPages_cat_full order hcN hfN
  have hlist : ((tbls ++ [(name, emptyTree s.hdr.nextFree)]).map fun e => (e.1, clean e.2)) =
      (tbls.map fun e => (e.1, clean e.2)) ++ [(name, clean (emptyTree s.hdr.nextFree))] := by
    rw [List.map_append]; rfl
  rw [hlist] at hc'
  refine ⟨sN, s', pt1, nf1, ptN, schN, hrun false, ?_, hc', hh, by rw [hdh, hh], hg, hf', hv, hnd, hw, hcN, hins,
    hsame, by rw [hh]; exact hroot, by rw [ptEntries_clean]; exact hent, by rw [cells_clean]; exact hcells,
    by rw [schemaOf_clean]; exact hso1, fun n hn => by rw [schemaOf_clean]; exact hso2 n hn,
    by rw [hh]; exact lk, ?_, by rw [hh]; exact nfl, by rw [hh]; exact nfu⟩
  · rw [hrun true]; exact e
  · rw [hh]; exact lsn

/-! ### refusals -/

/-- a name that is a user table is refused with `tableAlreadyExist`; nothing changes but the cache -/
theorem createTable_exists_cat {s : Store} {pt sch : Levels} {tbls : List (Bytes × Levels)} (h : Cat s pt sch tbls)
    (fields : List FieldDef) (name : Bytes) (order : List Nat) (doFlush : Bool)
    (hn : name ∈ tbls.map (·.1)) :
    ∃ s', createTable fields name order doFlush s = .err .tableAlreadyExist s' ∧ Same s s' ∧
      Cat s' pt sch tbls := by
  obtain ⟨e, he, rfl⟩ := List.mem_map.mp hn
  obtain ⟨s', e1, hs, hc⟩ := relationOffset_cat h e.1 e.2 he
  refine ⟨s', ?_, hs, hc⟩
  unfold createTable
  rw [e1]

/-- so is `sys_schema` -/
theorem createTable_sysSchema_cat {s : Store} {pt sch : Levels} {tbls : List (Bytes × Levels)}
    (h : Cat s pt sch tbls) (fields : List FieldDef) (order : List Nat) (doFlush : Bool) :
    ∃ s', createTable fields sysSchema order doFlush s = .err .tableAlreadyExist s' ∧ Same s s' ∧
      Cat s' pt sch tbls := by
  obtain ⟨s', e1, hs⟩ := relationOffset_entry h sysSchema (rootOff sch) h.esch
  refine ⟨s', ?_, hs, h.of_same hs⟩
  unfold createTable
  rw [e1]

/-! ### afterwards the catalog lookups find the table -/

/-- in a catalog that lists `(name, t)` and whose `sys_schema` spells out `fields` for it,
`getRelationFileOffset` and `getRelationSchema` return the root and the columns -/
theorem createTable_then_lookup {s' : Store} {pt' sch' : Levels} {tbls : List (Bytes × Levels)}
    {name : Bytes} {t : Levels} {fields : List FieldDef}
    (hc : Cat s' pt' sch' (tbls ++ [(name, t)])) (hs : schemaOf sch' name = some fields) :
    (∃ s1, relationOffset name s' = .ok (rootOff t) s1 ∧ Same s' s1) ∧
    (∃ s1, relationSchema name s' = .ok fields s1 ∧ Same s' s1) := by
  obtain ⟨s1, e1, h1, _⟩ := relationOffset_cat hc name t
    (List.mem_append_right _ (List.mem_singleton.mpr rfl))
  obtain ⟨s2, e2, h2, _⟩ := relationSchema_cat hc name fields hs
  exact ⟨⟨s1, e1, h1⟩, ⟨s2, e2, h2⟩⟩

/-! ### non-vacuity: CREATE TABLE u (a INT) on the concrete catalog `st0` / `cat0` -/

/-- the new table `"u"` with one column `a INT` -/
def uname : Bytes := [117]
def ufields : List FieldDef := [⟨"a", .int, 0⟩]

theorem st0_memFiled : MemFiled st0 := by
  intro p hp
  simp only [st0, List.mem_cons, List.not_mem_nil, or_false] at hp
  rcases hp with rfl | rfl | rfl <;> rfl

theorem ucheck : checkCatalogRows ufields uname = none := by decide +kernel

theorem sch0_schemaOf (n : Bytes) : schemaOf sch0 n = some [] := rfl

/-- `createTable_cat` applies to the concrete store: the table is created, the catalog invariant
holds before and after the flush, the schema read back is the declared one, the old table still
has none, and the lookups find the new table at the old allocation frontier -/
theorem create_example :
    ∃ sN s' ptN schN,
      createTable ufields uname [] false st0 = .ok () sN ∧
      createTable ufields uname [] true st0 = .ok () s' ∧
      Cat sN ptN schN [(tname, t0), (uname, emptyTree 16384)] ∧
      Cat s' (clean ptN) (clean schN) [(tname, clean t0), (uname, clean (emptyTree 16384))] ∧
      schemaOf (clean schN) uname = some ufields ∧ schemaOf (clean schN) tname = some [] ∧
      s'.hdr.lastKey = 5 ∧ s'.dhdr = s'.hdr ∧ (∀ p ∈ s'.mem, p.2.dirty = false) ∧
      (∃ s1, relationOffset uname s' = .ok 16384 s1 ∧ Same s' s1) ∧
      (∃ s1, relationSchema uname s' = .ok ufields s1 ∧ Same s' s1) := by
  obtain ⟨sN, s', pt1, nf1, ptN, schN, e1, e2, hc', _, hd, _, _, _, hnd, _, hcN, _, _, _, _, _, hso1, hso2, lk, _⟩ :=
    createTable_cat cat0 st0_memFiled ufields uname []
      (by rw [sysPages_eq]; decide) (by rw [sysSchema_eq]; decide) (by decide) (by decide) ucheck
      (by decide) (by decide) (by decide) (by decide) (by decide)
  have hs : schemaOf (clean schN) uname = some ufields := by rw [hso1, sch0_schemaOf]; rfl
  refine ⟨sN, s', ptN, schN, e1, e2, hcN, hc', hs, ?_, lk, hd, hnd,
    createTable_then_lookup (tbls := [(tname, clean t0)]) (t := clean (emptyTree 16384)) hc' hs⟩
  rw [hso2 tname (by decide), sch0_schemaOf]

end Mkdb.Store
