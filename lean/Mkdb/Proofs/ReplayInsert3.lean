import Mkdb.Proofs.ReplayInsert2
/-!
Replay of INSERT log records, part 3: the catalog UPDATE record that follows an INSERT record
when the root moved, and the live statement with the *location* of that catalog row.

* `setVal_setVal`: rewriting the same row twice with the same value is rewriting it once, with the
  later LSN.
* `replay_update_held`: replay of an UPDATE record on a leaf of a held tree is `setVal`.
* `Cat.setVal_pt`: the catalog invariant after a rewrite of a page-table row that keeps the entries.
* `updatePageTable_refines'`, `insert_refines'`: `updatePageTable_refines` / `insert_refines` with
  the page and row the catalog update record names.
-/
set_option autoImplicit false
namespace Mkdb.Store
open Mkdb.Page Mkdb.Tuple Mkdb.Generated Mkdb.Tree Mkdb.Engine

/-! ### `setVal` twice -/

theorem setVal_setVal (t : Levels) (k l1 l2 : Nat) (v : Bytes) :
    setVal (setVal t k l1 v) k l2 v = setVal t k l2 v := by
  unfold setVal
  simp only [List.map_map]
  congr 1
  apply List.map_congr_left
  intro p _
  obtain ⟨l, d⟩ := p
  simp only [Function.comp]
  cases hany : l.cells.any (fun c => c.key == k) with
  | true =>
    have hany' : (l.cells.map (fun c => if c.key == k then { c with val := v } else c)).any
        (fun c => c.key == k) = true := by
      rw [RedoLink.any_key_map l.cells _ (fun c => by split <;> rfl) k]
      exact hany
    simp only [if_true, hany', List.map_map]
    congr 2
    apply List.map_congr_left
    intro c _
    simp only [Function.comp]
    cases hc : (c.key == k) with
    | true => simp only [if_true, hc]
    | false => simp only [Bool.false_eq_true, if_false, hc]
  | false => simp only [Bool.false_eq_true, if_false, hany]

/-! ### an UPDATE record on a leaf of a held tree -/

/-- **Replay of an UPDATE record** naming a leaf of a held tree that holds the cell and is older than
the record: `setVal` on the tree; of the header only `nextLSN` is raised; no other page changes. -/
theorem replay_update_held (s : Store) (t : Levels) (hH : Holds s t) (hI : Inv t s.hdr.nextFree)
    (l : Leaf) (d : Bool) (hm : (l, d) ∈ t.leaves) (key lsn : Nat) (value : Bytes)
    (hany : l.cells.any (fun c => c.key == key) = true) (hv : value.length ≤ c_maxValueSize)
    (hl : l.lsn < lsn) :
    ∃ s', replayOne ⟨c_OpUpdate, lsn, l.off, key, value⟩ s = (s', none, false) ∧
      Holds s' (setVal t key lsn value) ∧
      s'.hdr = { s.hdr with nextLSN := max s.hdr.nextLSN lsn } ∧
      ∀ off, off ≠ l.off → view s' off = view s off := by
  have hvl : view s l.off = some (.leaf l, d) := holds_leaf hH hm
  obtain ⟨mem1, hsv, he⟩ := RedoLink.replayOne_update_eq ⟨c_OpUpdate, lsn, l.off, key, value⟩ s l d rfl
    hvl rfl hv hany
  have hnl : ¬ lsn ≤ l.lsn := by omega
  simp only [hnl, if_false] at he
  have hview : ∀ (h : Header) (m : MNode) (o : Nat), view { s with hdr := h, mem := assocSet mem1 l.off m } o =
      upd (view s) l.off (m.node, m.dirty) o := by
    intro h m o
    rw [RedoLink.view_setMem]
    unfold upd
    split
    · rfl
    · exact hsv o
  refine ⟨_, he, ?_, rfl, ?_⟩
  · rw [setVal_eq]
    apply holds_updLeaves (fun c => { c with val := value }) key lsn s _ t hH hI l d hm hany
    funext o
    rw [hview]
    rfl
  · intro off hoff
    rw [hview, upd_other _ _ _ _ hoff]

/-! ### the catalog after a rewrite of a page-table row that keeps the entries -/

theorem Cat.setVal_pt {s s' : Store} {pt sch : Levels} {tbls : List (Bytes × Levels)} (h : Cat s pt sch tbls)
    (k l : Nat) (v : Bytes) (hent : ptEntries (setVal pt k l v) = ptEntries pt)
    (hdec : ∀ c ∈ live (setVal pt k l v), ptEntry c ≠ none)
    (hH : Holds s' (setVal pt k l v)) (hfr : ∀ off, off ∉ offs pt → view s' off = view s off)
    (hnf : s'.hdr.nextFree = s.hdr.nextFree) (hlk : s.hdr.lastKey ≤ s'.hdr.lastKey)
    (hpr : s'.hdr.ptRoot = s.hdr.ptRoot) : Cat s' (setVal pt k l v) sch tbls := by
  obtain ⟨d1, d2, d3, d4⟩ := h.disj_parts
  have hF : PtLike pt (setVal pt k l v) := .inr ⟨k, l, v, rfl⟩
  obtain ⟨f1, f2, f3, f4, f5, f6⟩ := hF.facts
  refine ⟨?_, ?_, ?_, hdec, ?_, ?_, ?_, ?_, h.tnames, h.tsys, h.tlen⟩
  · intro x hx
    simp only [catTrees, List.mem_cons, List.mem_map] at hx
    rw [hnf]
    rcases hx with rfl | rfl | ⟨e, he, rfl⟩
    · obtain ⟨_, b, c, d, e⟩ := h.tree pt Cat.pt_mem
      exact ⟨hH, f6 _ b, by omega, by omega, fun a ha => Nat.le_trans (e a (f5 ▸ ha)) hlk⟩
    · obtain ⟨a, b, c, d, e⟩ := h.tree x Cat.sch_mem
      refine ⟨fun y hy => ?_, b, c, d, fun a ha => Nat.le_trans (e a ha) hlk⟩
      rw [hfr y.1 (fun hp => d1 y.1 hp (List.mem_map.mpr ⟨y, hy, rfl⟩))]
      exact a y hy
    · obtain ⟨a, b, c, d, e'⟩ := h.tree e.2 (Cat.tb_mem he)
      refine ⟨fun y hy => ?_, b, c, d, fun a ha => Nat.le_trans (e' a ha) hlk⟩
      rw [hfr y.1 (fun hp => d2 e he y.1 hp (List.mem_map.mpr ⟨y, hy, rfl⟩))]
      exact a y hy
  · have := h.disj
    simp only [catTrees, List.map_cons] at this ⊢
    rw [f1]
    exact this
  · rw [f2, hpr]; exact h.root
  · rw [hent]; exact h.names
  · rw [hent]; exact h.esch
  · rw [hent]; exact h.etb
  · rw [hent]; exact h.only

/-! ### the live catalog update, with the row it rewrites -/

/-- `updatePageTable_refines` naming the row `a` (of the leaf `p`) that is rewritten: the log record
carries the offset of `p` and the key of `a`. -/
theorem updatePageTable_refines' (s : Store) (pt : Levels) (name : Bytes) (newRoot old : Nat)
    (hH : Holds s pt) (hI : Inv pt s.hdr.nextFree) (hroot : rootOff pt = s.hdr.ptRoot)
    (hdepth : pt.inner.length + 1 ≤ treeFuel) (hlen : pt.leaves.length ≤ scanFuel)
    (hdec : ∀ c ∈ live pt, ptEntry c ≠ none) (hnd : ((ptEntries pt).map (·.1)).Nodup)
    (he : (name, old) ∈ ptEntries pt) (hnl : name.length + 14 ≤ c_maxValueSize) :
    ∃ s' a p, updatePageTable newRoot name s =
        .ok [⟨c_OpUpdate, s.hdr.nextLSN, p.1.off, a.key, ptRow name newRoot⟩] s' ∧
      a ∈ live pt ∧ ptEntry a = some (name, old) ∧ p ∈ pt.leaves ∧ a ∈ p.1.cells ∧
      Holds s' (setVal pt a.key s.hdr.nextLSN (ptRow name newRoot)) ∧
      s'.hdr.nextFree = s.hdr.nextFree ∧ s'.hdr.lastKey = s.hdr.lastKey ∧ s'.hdr.ptRoot = s.hdr.ptRoot ∧
      s'.hdr.nextLSN = s.hdr.nextLSN + 1 ∧
      (∀ off, off ∉ offs pt → view s' off = view s off) := by
  obtain ⟨s1, cs, e1, hs1, hcs, hleaf⟩ := scan_cat s pt _ hH hI hdepth hlen
  rw [hroot] at e1
  have hlive : ∀ a ∈ cs, a.1 ∈ live pt := fun a ha => by rw [← hcs]; exact List.mem_map.mpr ⟨a, ha, rfl⟩
  have hg : ∀ a ∈ cs, ptFind name a s1 = .ok (ptFindPure name a) s1 := by
    intro a ha
    cases hp : ptEntry a.1 with
    | none => exact absurd hp (hdec a.1 (hlive a ha))
    | some e =>
      obtain ⟨m, hm, _⟩ := decRow_of_ptEntry hp
      exact ptFind_spec name a m s1 hm
  have hff := findFirstM_pure (ptFind name) (ptFindPure name) s1 cs hg
  obtain ⟨c0, hc0, hpc0⟩ := List.mem_filterMap.mp he
  obtain ⟨a0, ha0, ha0c⟩ : ∃ a0 ∈ cs, a0.1 = c0 := by
    rw [← hcs] at hc0
    obtain ⟨a0, ha0, h⟩ := List.mem_map.mp hc0
    exact ⟨a0, ha0, h⟩
  cases hfs : cs.findSome? (ptFindPure name) with
  | none =>
    exfalso
    have := List.findSome?_eq_none_iff.mp hfs a0 ha0
    rw [← ha0c] at hpc0
    obtain ⟨m, hm, hmn⟩ := decRow_of_ptEntry hpc0
    unfold ptFindPure at this
    rw [hm] at this
    simp [hmn] at this
  | some hit =>
    obtain ⟨c, m⟩ := hit
    obtain ⟨a, ha, hga⟩ := List.exists_of_findSome?_eq_some hfs
    have hfound : a = c ∧ decRow pageTableSchema c.1.val = some m ∧ Tuple.get m "table_name" = .str name := by
      unfold ptFindPure at hga
      cases hd : decRow pageTableSchema a.1.val with
      | none => rw [hd] at hga; cases hga
      | some m' =>
        rw [hd] at hga
        simp only at hga
        split at hga
        · rename_i hnm
          simp only [Option.some.injEq, Prod.mk.injEq] at hga
          obtain ⟨rfl, rfl⟩ := hga
          exact ⟨rfl, hd, by simpa using hnm⟩
        · cases hga
    obtain ⟨rfl, hdm, hmn⟩ := hfound
    have hal := hlive a ha
    have hpa' : ∃ o, ptEntry a.1 = some (name, o) := by
      cases hp : ptEntry a.1 with
      | none => exact absurd hp (hdec a.1 hal)
      | some e =>
        obtain ⟨m', hm', hmn'⟩ := decRow_of_ptEntry hp
        rw [hdm] at hm'
        simp only [Option.some.injEq] at hm'
        subst hm'
        rw [hmn] at hmn'
        simp only [Val.str.injEq] at hmn'
        exact ⟨e.2, by rw [hmn']⟩
    obtain ⟨oa, hpa'⟩ := hpa'
    -- it is the row of `name`, so its offset is `old`
    have hpa : ptEntry a.1 = some (name, old) := by
      have := row_unique pt hnd a.1 c0 hal hc0 name oa old hpa' hpc0
      rw [this]; exact hpc0
    have hbuf : encodeRow pageTableSchema (("file_offset", .int newRoot) :: m) s1 = .ok (ptRow name newRoot) s1 := by
      unfold encodeRow
      rw [encode_ptRow _ name newRoot (by rw [get_cons_ne _ _ _ _ (by decide)]; exact hmn) (get_cons_eq _ _ _)]
    obtain ⟨p, hp, hpo, hcp⟩ := hleaf a ha
    have hany : p.1.cells.any (fun x => x.key == a.1.key) = true := by
      rw [List.any_eq_true]; exact ⟨a.1, hcp, by simp⟩
    have hH1 : Holds s1 pt := hs1.holds hH
    have hI1 : Inv pt s1.hdr.nextFree := by rw [hs1.2]; exact hI
    have hvlen : (ptRow name newRoot).length ≤ c_maxValueSize := by rw [ptRow_length]; exact hnl
    obtain ⟨s2, e2, hH2, hh2, hfr2⟩ := updateCellAt_refines s1 pt a.1.key s1.hdr.nextLSN (ptRow name newRoot)
      hH1 hI1 p.1 p.2 hp hany hvlen
    have hrun : updatePageTable newRoot name s = .ok
        [⟨c_OpUpdate, s1.hdr.nextLSN, a.2, a.1.key, ptRow name newRoot⟩]
        { s2 with hdr := { s2.hdr with nextLSN := s2.hdr.nextLSN + 1 } } := by
      rw [updatePageTable_eq, bind_ok (show getS s = .ok s s from rfl), bind_ok e1, bind_ok hff, hfs]
      simp only
      rw [bind_ok hbuf, bind_ok (show getS s1 = .ok s1 s1 from rfl), hpo, bind_ok e2]
      rfl
    rw [hs1.2, hpo] at hrun
    rw [hs1.2] at hH2
    refine ⟨_, a.1, p, hrun, hal, hpa, hp, hcp, fun x hx => hH2 x hx, ?_, ?_, ?_, ?_, ?_⟩
    · show s2.hdr.nextFree = _; rw [hh2, hs1.2]
    · show s2.hdr.lastKey = _; rw [hh2, hs1.2]
    · show s2.hdr.ptRoot = _; rw [hh2, hs1.2]
    · show s2.hdr.nextLSN + 1 = _; rw [hh2, hs1.2]
    · intro off hoff
      show view s2 off = _
      rw [hfr2 off ?_, hs1.1]
      intro h
      apply hoff
      rw [h, offs_eq]
      exact List.mem_append_left _ (List.mem_map.mpr ⟨p, hp, rfl⟩)

/-- **`insert_refines`, naming the catalog row.**  As `insert_refines`; in addition, when the root
moved, the second log record names the leaf `p` of the page table and the key of the row `a` of
`table` in it, and `ptF` is the page table with that row rewritten. -/
theorem insert_refines' (s : Store) (pt sch : Levels) (tbls : List (Bytes × Levels)) (h : Cat s pt sch tbls)
    (table : Bytes) (t : Levels) (ht : (table, t) ∈ tbls) (cols : List String) (vals : List Val)
    (schema : List FieldDef) (buf : Bytes) (hsch : schemaOf sch table = some schema)
    (hcols : (colsOf schema cols).length = vals.length)
    (hnames : checkColumns schema (colsOf schema cols) = none)
    (henc : encodeTuple schema ((colsOf schema cols).zip vals).reverse = .ok buf)
    (hlen : buf.length ≤ c_maxValueSize)
    (t' : Levels) (nf' : Nat)
    (hins : insertAppend t (s.hdr.lastKey + 1) s.hdr.nextLSN buf s.hdr.nextFree = .ok (t', nf'))
    (hd' : t'.inner.length + 2 ≤ treeFuel) (hl' : t'.leaves.length ≤ scanFuel)
    (hbig : (nf' : Int) ≤ 9223372036854775807) :
    ∃ s' ptF logs, insert table cols vals s = .ok logs s' ∧
      Cat s' ptF sch (setTable tbls table t') ∧
      s'.hdr.lastKey = s.hdr.lastKey + 1 ∧ s'.hdr.nextFree = nf' ∧
      ((rootOff t' = rootOff t ∧ ptF = pt ∧ s'.hdr.nextLSN = s.hdr.nextLSN + 1 ∧
          logs = [⟨c_OpInsert, s.hdr.nextLSN, rootOff t, s.hdr.lastKey + 1, buf⟩]) ∨
       (rootOff t' ≠ rootOff t ∧ s'.hdr.nextLSN = s.hdr.nextLSN + 2 ∧
          ∃ a p, a ∈ live pt ∧ ptEntry a = some (table, rootOff t) ∧ p ∈ pt.leaves ∧ a ∈ p.1.cells ∧
            ptF = setVal pt a.key (s.hdr.nextLSN + 1) (ptRow table (rootOff t')) ∧
            logs = [⟨c_OpInsert, s.hdr.nextLSN, rootOff t, s.hdr.lastKey + 1, buf⟩,
                    ⟨c_OpUpdate, s.hdr.nextLSN + 1, p.1.off, a.key, ptRow table (rootOff t')⟩])) := by
  obtain ⟨s1, e1, hs1, hc1⟩ := relationOffset_cat h table t ht
  obtain ⟨hHt1, hIt1, _, _, _⟩ := hc1.tree t (Cat.tb_mem ht)
  obtain ⟨n, d, hvn, hon⟩ := root_held s1 t _ hHt1 hIt1
  obtain ⟨s2, e2, v2, _, _⟩ := fetch_spec s1 (rootOff t) n d hvn hon
  have hs2 : Same s1 s2 := ⟨v2, fetch_hdr e2⟩
  have hc2 := hc1.of_same hs2
  obtain ⟨s3, e3, hs3, hc3⟩ := relationSchema_cat hc2 table schema hsch
  have hs03 : Same s s3 := (hs1.trans hs2).trans hs3
  have e4 : encodeRow schema ((colsOf schema cols).zip vals).reverse s3 = .ok buf s3 := by
    unfold encodeRow; rw [henc]
  obtain ⟨hHt3, hIt3, hdt3, _, hkt3⟩ := hc3.tree t (Cat.tb_mem ht)
  obtain ⟨t'', nf'', s4, hins4, e5, hHt4, hn4, hlk4, hlsn4, hpr4, hfr4⟩ :=
    btInsert_refines s3 t buf hHt3 hIt3 hdt3 hkt3 hlen
  rw [hs03.2] at hins4 e5 hlk4 hlsn4 hpr4
  rw [hins] at hins4
  simp only [Except.ok.injEq, Prod.mk.injEq] at hins4
  obtain ⟨rfl, rfl⟩ := hins4
  have hstart : insert table cols vals s =
      (if rootOff t' != rootOff t then
        updatePageTable (rootOff t') table >>= fun logs =>
          pure ((⟨c_OpInsert, s.hdr.nextLSN, rootOff t, s.hdr.lastKey + 1, buf⟩ : WalRec) :: logs)
       else pure [(⟨c_OpInsert, s.hdr.nextLSN, rootOff t, s.hdr.lastKey + 1, buf⟩ : WalRec)]) s4 := by
    rw [insert_eq, bind_ok e1, bind_ok e2, bind_ok e3]
    have hc : ((colsOf schema cols).length != vals.length) = false := by simp [hcols]
    simp only [hc, Bool.false_eq_true, if_false, hnames]
    rw [bind_ok e4, bind_ok e5]
  have hfr04 : ∀ off, off ∉ offs t' → view s4 off = view s off := fun off ho => by
    rw [hfr4 off ho, hs03.1]
  obtain ⟨d1, d2, d3, d4⟩ := h.disj_parts
  obtain ⟨hHpt, hIpt, hdpt, hlpt, _⟩ := h.tree pt Cat.pt_mem
  have hHpt4 : Holds s4 pt := holds_after_insert hins hfr04 hHpt hIpt (d2 (table, t) ht)
  have hle : s.hdr.nextFree ≤ nf' := insertAppend_nextFree t t' _ _ _ nf' buf hins
  by_cases hmove : rootOff t' = rootOff t
  · have hb : (rootOff t' != rootOff t) = false := by simp [hmove]
    simp only [hb, Bool.false_eq_true, if_false] at hstart
    refine ⟨s4, pt, _, hstart, ?_, hlk4, hn4, .inl ⟨hmove, rfl, hlsn4, rfl⟩⟩
    refine h.rebuild ht hins rfl pt (.inl rfl) ?_ h.dec hn4 hlk4 hpr4 hHt4 hHpt4
      (fun off h1 _ => hfr04 off h1) hd' hl'
    rw [hmove]
    exact (repoint_id table (rootOff t) _ h.names (h.etb (table, t) ht)).symm
  · have hb : (rootOff t' != rootOff t) = true := by simp [hmove]
    simp only [hb, if_true] at hstart
    have hInv' : Inv t' nf' := insertAppend_inv t t' _ _ _ nf' buf (h.tree t (Cat.tb_mem ht)).2.1 hins
    have hroot_lt : rootOff t' < nf' := hInv'.offs.2 _ (rootOff_mem_offs t' nf' hInv')
    obtain ⟨s5, a, p, e6, hal, hpa, hp, hap, hHp5, n5, lk5, pr5, lsn5, hfr5⟩ :=
      updatePageTable_refines' s4 pt table (rootOff t') (rootOff t) hHpt4
        (by rw [hn4]; exact Inv_mono pt _ _ hIpt hle) (by rw [hpr4]; exact h.root) (by omega) hlpt h.dec
        h.names (h.etb (table, t) ht) (h.tlen (table, t) ht)
    rw [hlsn4] at e6 hHp5 lsn5
    obtain ⟨hent5, hdec5⟩ := ptEntries_setVal_row pt _ hIpt h.names a hal table (rootOff t) (rootOff t')
      (s.hdr.nextLSN + 1) hpa (h.tlen (table, t) ht) (by omega)
    have hpt_t' : ∀ o ∈ offs t', o ∉ offs pt := by
      intro o ho hop
      rcases insertAppend_offs_new t t' _ _ _ nf' buf hins o ho with h1 | h1
      · exact d2 (table, t) ht o hop h1
      · have := hIpt.offs.2 o hop; omega
    have hHt5 : Holds s5 t' := by
      intro x hx
      rw [hfr5 x.1 (hpt_t' x.1 (List.mem_map.mpr ⟨x, hx, rfl⟩))]
      exact hHt4 x hx
    refine ⟨s5, setVal pt a.key (s.hdr.nextLSN + 1) (ptRow table (rootOff t')), _, ?_, ?_,
      by rw [lk5, hlk4], by rw [n5, hn4],
      .inr ⟨hmove, by rw [lsn5], a, p, hal, hpa, hp, hap, rfl, rfl⟩⟩
    · rw [hstart, bind_ok e6]
      rfl
    · exact h.rebuild ht hins rfl _ (.inr ⟨_, _, _, rfl⟩) hent5 (hdec5 h.dec) (by rw [n5, hn4])
        (by rw [lk5, hlk4]) (by rw [pr5, hpr4]) hHt5 hHp5
        (fun off h1 h2 => by rw [hfr5 off h2, hfr04 off h1]) hd' hl'

end Mkdb.Store
