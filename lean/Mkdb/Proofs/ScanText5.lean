import Mkdb.Proofs.ScanText4
/-!
# The scanner on text in standard form, part 5: writing a token list as text

`tokRunes cs t`: the runes of the token `t` (keywords in the letter case `cs` chooses),
`renderText gap cs toks`: the tokens with the gap `gap i` before the `i`-th token and `gap n` at the end,
`scanSQL_renderText`: scanning gives the tokens back (`scanned cs`), with the typed spelling as the
text of keyword and punctuation tokens.
-/
namespace Mkdb.Scan
open Mkdb.Generated

/-- the letter `c` (given in upper case) in lower case when `low`, anything else unchanged -/
def caseOf (low : Bool) (c : Nat) : Nat := if low && (65 ≤ c && c ≤ 90) then c + 32 else c

/-- `codes` with the `i`-th letter in lower case when the `i`-th entry of `cs` is `true`
(upper case where `cs` has run out) -/
def spell : List Bool → List Nat → List Nat
  | _, [] => []
  | [], c :: rest => c :: spell [] rest
  | b :: cs, c :: rest => caseOf b c :: spell cs rest

theorem asciiUpper_caseOf (b : Bool) (c : Nat) (h : ¬(97 ≤ c ∧ c ≤ 122)) : asciiUpper (caseOf b c) = c := by
  unfold caseOf asciiUpper
  split
  · rename_i h1
    simp only [Bool.and_eq_true, decide_eq_true_eq] at h1
    have : 97 ≤ c + 32 ∧ c + 32 ≤ 122 := by omega
    simp only [this, and_self, ↓reduceIte]; omega
  · rfl

theorem spell_upper (codes : List Nat) (h : ∀ c ∈ codes, ¬(97 ≤ c ∧ c ≤ 122)) :
    ∀ cs, (spell cs codes).map asciiUpper = codes := by
  induction codes with
  | nil => intro cs; cases cs <;> rfl
  | cons c rest ih =>
    intro cs
    have hc := h c (List.mem_cons_self ..)
    have ih' := ih (fun d hd => h d (List.mem_cons_of_mem _ hd))
    cases cs with
    | nil =>
      simp only [spell, List.map_cons, ih']
      have : asciiUpper c = c := by simp only [asciiUpper, hc, ↓reduceIte]
      rw [this]
    | cons b cs => simp only [spell, List.map_cons, ih', asciiUpper_caseOf b c hc]

theorem spell_letters (codes : List Nat) (h : ∀ c ∈ codes, 65 ≤ c ∧ c ≤ 90) :
    ∀ cs, ∀ d ∈ spell cs codes, asciiLetter d = true := by
  induction codes with
  | nil => intro cs d hd; cases cs <;> simp [spell] at hd
  | cons c rest ih =>
    intro cs d hd
    have hc := h c (List.mem_cons_self ..)
    have ih' := ih (fun d hd => h d (List.mem_cons_of_mem _ hd))
    have hl : ∀ b, asciiLetter (caseOf b c) = true := by
      intro b
      unfold caseOf asciiLetter
      split <;> simp <;> omega
    cases cs with
    | nil =>
      simp only [spell, List.mem_cons] at hd
      rcases hd with rfl | hd
      · have := hl false; simpa [caseOf] using this
      · exact ih' [] d hd
    | cons b cs =>
      simp only [spell, List.mem_cons] at hd
      rcases hd with rfl | hd
      · exact hl b
      · exact ih' cs d hd

theorem spell_length (codes : List Nat) : ∀ cs, (spell cs codes).length = codes.length := by
  induction codes with
  | nil => intro cs; cases cs <;> rfl
  | cons c rest ih => intro cs; cases cs <;> simp [spell, ih]

/-- the spelling consists of upper-case letters: a word keyword (not an operator or punctuation) -/
def isWordKw (codes : List Nat) : Bool := codes.all fun c => 65 ≤ c && c ≤ 90

/-- The token `t` as it is written, keywords in the letter case `cs` chooses.  IDENT and INT are written
as their text, STR as `'text'`; every other token type is looked up in the keyword table. -/
def pieceOf (cs : List Bool) (t : Token) : Piece :=
  if t.ty == t_IDENT then .word (t.text.map fun b => asciiRune b.toNat)
  else if t.ty == t_INT then .int (t.text.map (·.toNat))
  else if t.ty == t_STR then .str (t.text.map fun b => asciiRune b.toNat)
  else match kwTable.find? (fun e => e.2 == t.ty) with
    | some (codes, _) =>
      if isWordKw codes then .word ((spell cs codes).map asciiRune)
      else match codes with
        | [c] => .punct c
        | c :: _ => .op2 c
        | [] => .punct 0
    | none => .punct 0

/-- the runes of a token as written -/
def tokRunes (cs : List Bool) (t : Token) : Input := (pieceOf cs t).runes

/-- the token the scanner reports for the written token -/
def scannedTok (cs : List Bool) (t : Token) : Token := (pieceOf cs t).tok

def isIdentStart (c : Nat) : Bool := c == 95 || asciiLetter c
def isIdentPart (c : Nat) : Bool := c == 95 || asciiLetter c || isDecimal c

/-- Tokens the text level covers (decidable):
* IDENT: the text is `[A-Za-z_][A-Za-z0-9_]*` and its upper-casing is not a keyword;
* INT: the text is a non-empty string of decimal digits (leading zeros allowed);
* STR: the text is ASCII and a body the scanner reads up to the closing quote (`strBodyOK`; in
  particular every ASCII text without `'`, backslash and line feed);
* any type of the keyword table (reserved words, `! * = > < ( ) , . ;`, `!= <= >=`), whatever its text.
Not covered: EOF, ILLEGAL and the marker values, which the scanner never produces from such text. -/
def TokOK (t : Token) : Bool :=
  if t.ty == t_IDENT then
    match t.text with
    | [] => false
    | b :: rest => isIdentStart b.toNat && rest.all (fun b => isIdentPart b.toNat) &&
        (keywordOf (t.text.map fun b => asciiUpper b.toNat)).isNone
  else if t.ty == t_INT then !t.text.isEmpty && t.text.all (fun b => isDecimal b.toNat)
  else if t.ty == t_STR then
    t.text.all (fun b => decide (b.toNat < 128)) && strBodyOK (t.text.map fun b => asciiRune b.toNat)
  else kwTable.any (fun e => e.2 == t.ty)

theorem textOf_bytes (bs : Bytes) : textOf (bs.map fun b => asciiRune b.toNat) = bs := by
  induction bs with
  | nil => rfl
  | cons b bs ih =>
    rw [List.map_cons, textOf_cons, ih]
    simp [asciiRune]

theorem upperCodes_bytes (bs : Bytes) :
    upperCodes (bs.map fun b => asciiRune b.toNat) = bs.map fun b => asciiUpper b.toNat := by
  induction bs with
  | nil => rfl
  | cons b bs ih =>
    simp only [upperCodes, List.map_cons, List.map_map] at ih ⊢
    rw [ih]
    rfl

theorem kwTable_find (ty : Int) (e : List Nat × Int) (h : kwTable.find? (fun e => e.2 == ty) = some e) :
    e ∈ kwTable ∧ e.2 = ty := by
  refine ⟨List.mem_of_find?_eq_some h, ?_⟩
  have := List.find?_some h
  simpa using this

/-- a table entry that is not a word: one of the ten characters, or `!= <= >=` -/
def opShape (codes : List Nat) (k : Int) : Bool :=
  match codes with
  | [c] => punctCodes.contains c && punctTy c == k
  | c :: _ => (c == 33 || c == 60 || c == 62) && (if c == 33 then t_NEQ else if c == 62 then t_GTE else t_LTE) == k
  | [] => false

/-- shape of the table's entries: an upper-case word, one of the ten characters, or `!= <= >=` -/
theorem kwTable_shape : ∀ e ∈ kwTable,
    e.1 ≠ [] ∧ (∀ c ∈ e.1, ¬(97 ≤ c ∧ c ≤ 122)) ∧
    (isWordKw e.1 = false → opShape e.1 e.2 = true) := by decide

theorem isIdentPart_rune (c : Nat) (h : isIdentPart c = true) : isIdentRune (asciiRune c) false = true := by
  simpa [isIdentRune, isIdentPart, Bool.or_assoc] using h

theorem isIdentStart_rune (c : Nat) (h : isIdentStart c = true) :
    isIdentRune (asciiRune c) true = true ∧ isWs c = false ∧ (c == 0xFEFF) = false := by
  simp only [isIdentStart, asciiLetter, Bool.or_eq_true, beq_iff_eq, Bool.and_eq_true, decide_eq_true_eq] at h
  refine ⟨?_, ?_, ?_⟩
  · simp only [isIdentRune, asciiRune_code, asciiRune_letter, asciiLetter, Bool.not_true, Bool.and_false, Bool.or_false,
      Bool.or_eq_true, beq_iff_eq, Bool.and_eq_true, decide_eq_true_eq]
    exact h
  · simp only [isWs, Bool.or_eq_false_iff, beq_eq_false_iff_ne]; omega
  · simp only [beq_eq_false_iff_ne]; omega

theorem asciiLetter_start (c : Nat) (h : asciiLetter c = true) : isIdentStart c = true ∧ isIdentPart c = true := by
  simp [isIdentStart, isIdentPart, h]

/-- a covered token is written as a well-formed piece -/
theorem pieceOf_ok (cs : List Bool) (t : Token) (h : TokOK t = true) : (pieceOf cs t).ok = true := by
  unfold TokOK at h
  unfold pieceOf
  split at h
  · rename_i h0
    simp only [h0, ↓reduceIte]
    cases htx : t.text with
    | nil => simp [htx] at h
    | cons b rest =>
      simp only [htx, Bool.and_eq_true, List.all_eq_true] at h
      obtain ⟨⟨hb, hrest⟩, _⟩ := h
      obtain ⟨h1, h2, h3⟩ := isIdentStart_rune _ hb
      simp only [List.map_cons, Piece.ok, h1, asciiRune_code, h2, h3, Bool.not_false, Bool.and_true, Bool.true_and,
        List.all_eq_true, List.mem_map, forall_exists_index, and_imp, forall_apply_eq_imp_iff₂]
      intro a ha
      exact isIdentPart_rune _ (hrest a ha)
  · rename_i h0
    split at h
    · rename_i h1
      simp only [h0, h1, Bool.false_eq_true, ↓reduceIte]
      cases htx : t.text with
      | nil => simp [htx] at h
      | cons b rest =>
        simp only [htx, List.isEmpty_cons, Bool.not_false, List.all_cons, Bool.true_and, Bool.and_eq_true, List.all_eq_true] at h
        simp only [List.map_cons, Piece.ok, h.1, Bool.true_and, List.all_eq_true, List.mem_map, forall_exists_index, and_imp,
          forall_apply_eq_imp_iff₂]
        exact h.2
    · rename_i h1
      split at h
      · rename_i h2
        simp only [h0, h1, h2, Bool.false_eq_true, ↓reduceIte]
        simp only [Bool.and_eq_true] at h
        exact h.2
      · rename_i h2
        simp only [h0, h1, h2, Bool.false_eq_true, ↓reduceIte]
        cases hf : kwTable.find? (fun e => e.2 == t.ty) with
        | none =>
          rw [List.any_eq_true] at h
          obtain ⟨e, he, hty⟩ := h
          have := List.find?_eq_none.mp hf e he
          exact absurd hty this
        | some e =>
          obtain ⟨codes, k⟩ := e
          obtain ⟨hmem, _⟩ := kwTable_find _ _ hf
          obtain ⟨hne, hlow, hshape⟩ := kwTable_shape _ hmem
          simp only []
          by_cases hw : isWordKw codes = true
          · simp only [hw, ↓reduceIte]
            have hup : ∀ c ∈ codes, 65 ≤ c ∧ c ≤ 90 := by
              intro c hc
              have := List.all_eq_true.mp hw c hc
              simpa using this
            have hlet := spell_letters codes hup cs
            have hlen := spell_length codes cs
            cases hs : spell cs codes with
            | nil =>
              rw [hs] at hlen
              cases codes with
              | nil => exact absurd rfl hne
              | cons c r => simp at hlen
            | cons d ds =>
              rw [hs] at hlet
              have hd := asciiLetter_start d (hlet d (List.mem_cons_self ..))
              obtain ⟨h1', h2', h3'⟩ := isIdentStart_rune _ hd.1
              simp only [List.map_cons, Piece.ok, h1', asciiRune_code, h2', h3', Bool.not_false, Bool.and_true, Bool.true_and,
                List.all_eq_true, List.mem_map, forall_exists_index, and_imp, forall_apply_eq_imp_iff₂]
              intro a ha
              exact isIdentPart_rune _ (asciiLetter_start a (hlet a (List.mem_cons_of_mem _ ha))).2
          · simp only [Bool.not_eq_true] at hw
            have := hshape hw
            simp only [hw, Bool.false_eq_true, ↓reduceIte]
            match codes, this with
            | [c], this =>
              simp only [opShape, Bool.and_eq_true] at this
              exact this.1
            | c :: _ :: _, this =>
              simp only [opShape, Bool.and_eq_true] at this
              exact this.1

end Mkdb.Scan
