import Mkdb.Proofs.NoPanicExec
import Mkdb.Proofs.Select
/-!
C18, typed tables, part 1: **kinds of values, kinded rows, and the FROM clause**.

A column of a stored table holds values of ONE kind (integer, string, boolean) or NULL.  This file
defines that notion for the executor model (`Kind`, `hasKind`, `rowHas ks row`: the row has one value
per entry of `ks`, each NULL or of that kind; `KindedFetch`: every table the executor can read has such
a list of kinds) and carries it through `nestedLoopJoin`: the joined rows are kinded by the
concatenation of the kinds of the sources - the NULL padding of LEFT / RIGHT JOIN has every kind.
-/
set_option autoImplicit false
namespace Mkdb.Exec.TypedP
open Mkdb.Sql Mkdb.Tuple Mkdb.Exec.NoPanicP

/-- the three kinds of non-NULL values -/
inductive Kind where
  | int | str | bool
deriving DecidableEq, Repr

/-- the value is NULL or of the kind -/
def hasKind : Kind → Val → Bool
  | _, .null => true
  | .int, .int _ => true
  | .str, .str _ => true
  | .bool, .bool _ => true
  | _, _ => false

/-- the row has exactly one value per kind of the list, each NULL or of that kind -/
def rowHas : List Kind → List Val → Bool
  | [], [] => true
  | k :: ks, v :: vs => hasKind k v && rowHas ks vs
  | _, _ => false

@[simp] theorem hasKind_null (k : Kind) : hasKind k .null = true := by cases k <;> rfl
@[simp] theorem hasKind_int (i : Int) : hasKind .int (.int i) = true := rfl
@[simp] theorem hasKind_str (s : Bytes) : hasKind .str (.str s) = true := rfl
@[simp] theorem hasKind_bool (b : Bool) : hasKind .bool (.bool b) = true := rfl

theorem rowHas_cons {k : Kind} {ks : List Kind} {v : Val} {vs : List Val} :
    rowHas (k :: ks) (v :: vs) = true ↔ hasKind k v = true ∧ rowHas ks vs = true := by
  simp only [rowHas, Bool.and_eq_true]

theorem rowHas_length : ∀ {ks : List Kind} {r : List Val}, rowHas ks r = true → r.length = ks.length
  | [], [], _ => rfl
  | [], _ :: _, h => by cases h
  | _ :: _, [], h => by cases h
  | _ :: ks, _ :: vs, h => by
    have := rowHas_length (rowHas_cons.mp h).2
    simp only [List.length_cons, this]

theorem rowHas_append {ks2 : List Kind} {r2 : List Val} (h2 : rowHas ks2 r2 = true) :
    ∀ {ks1 : List Kind} {r1 : List Val}, rowHas ks1 r1 = true → rowHas (ks1 ++ ks2) (r1 ++ r2) = true
  | [], [], _ => h2
  | [], _ :: _, h1 => by cases h1
  | _ :: _, [], h1 => by cases h1
  | _ :: ks, _ :: vs, h1 => by
    simp only [List.cons_append]
    exact rowHas_cons.mpr ⟨(rowHas_cons.mp h1).1, rowHas_append h2 (rowHas_cons.mp h1).2⟩

theorem rowHas_nulls : ∀ (ks : List Kind), rowHas ks (List.replicate ks.length .null) = true
  | [] => rfl
  | k :: ks => by
    simp only [List.length_cons, List.replicate_succ]
    exact rowHas_cons.mpr ⟨hasKind_null k, rowHas_nulls ks⟩

/-- the value at a position has the kind at that position -/
theorem rowHas_get : ∀ {ks : List Kind} {r : List Val}, rowHas ks r = true → ∀ (i : Nat) (v : Val),
    r[i]? = some v → hasKind (ks.getD i .int) v = true
  | [], [], _, i, v, hv => by simp at hv
  | [], _ :: _, h, _, _, _ => by cases h
  | _ :: _, [], h, _, _, _ => by cases h
  | k :: ks, x :: vs, h, i, v, hv => by
    cases i with
    | zero =>
      simp only [List.getElem?_cons_zero, Option.some.injEq] at hv
      subst hv
      exact (rowHas_cons.mp h).1
    | succ j =>
      simp only [List.getElem?_cons_succ] at hv
      simp only [List.getD_cons_succ]
      exact rowHas_get (rowHas_cons.mp h).2 j v hv

theorem hasKind_comparable {k : Kind} {a b : Val} (ha : hasKind k a = true) (hb : hasKind k b = true) :
    Comparable a b := by
  cases a with
  | null => exact .inl rfl
  | int x =>
    cases b with
    | null => exact .inr (.inl rfl)
    | int y => exact .inr (.inr (.inl ⟨x, y, rfl, rfl⟩))
    | str y => cases k <;> simp [hasKind] at ha hb
    | bool y => cases k <;> simp [hasKind] at ha hb
  | str x =>
    cases b with
    | null => exact .inr (.inl rfl)
    | int y => cases k <;> simp [hasKind] at ha hb
    | str y => exact .inr (.inr (.inr (.inl ⟨x, y, rfl, rfl⟩)))
    | bool y => cases k <;> simp [hasKind] at ha hb
  | bool x =>
    cases b with
    | null => exact .inr (.inl rfl)
    | int y => cases k <;> simp [hasKind] at ha hb
    | str y => cases k <;> simp [hasKind] at ha hb
    | bool y => exact .inr (.inr (.inr (.inr ⟨x, y, rfl, rfl⟩)))

/-- **two rows kinded by one list are comparable at every position** (a position past the end reads
as NULL) - what `C18_sort_safe` asks of the rows it sorts -/
theorem rowHas_comparable {ks : List Kind} {a b : List Val} (ha : rowHas ks a = true) (hb : rowHas ks b = true)
    (i : Nat) : Comparable ((a[i]?).getD .null) ((b[i]?).getD .null) := by
  cases hai : a[i]? with
  | none => exact .inl rfl
  | some x =>
    cases hbi : b[i]? with
    | none => exact .inr (.inl rfl)
    | some y => exact hasKind_comparable (rowHas_get ha i x hai) (rowHas_get hb i y hbi)

/-! ### the result monad: panics allowed -/

/-- "any panic site": for statements about `.ok` results only -/
abbrev AnyP : String → Prop := fun _ => True

theorem Wp.any {α} (m : X α) : Wp AnyP (fun _ => True) m := by cases m <;> trivial

/-- a no-panic statement and a statement about the `.ok` result, together -/
theorem Wp.and_any {α} {E : String → Prop} {P Q : α → Prop} {m : X α} (h1 : Wp E P m) (h2 : Wp AnyP Q m) :
    Wp E (fun a => P a ∧ Q a) m := by
  cases m with
  | ok a => exact ⟨h1, h2⟩
  | err e => trivial
  | panic s => exact h1

/-! ### the tables the executor reads -/

/-- every table the executor can read has a list of kinds, one per column, that every row meets -/
def KindedFetch (fetch : Bytes → Option Table) : Prop :=
  ∀ n t, fetch n = some t → ∃ ks : List Kind, ks.length = t.cols.length ∧ ∀ r ∈ t.rows, rowHas ks r = true

theorem KindedFetch.wellShaped {fetch : Bytes → Option Table} (h : KindedFetch fetch) : WellShaped fetch := by
  intro n t hn r hr
  obtain ⟨ks, hlen, hrows⟩ := h n t hn
  rw [rowHas_length (hrows r hr), hlen]

/-- rows and header of a stage of the executor: one list of kinds, as long as the header, that every row
meets -/
def Kinded (p : List Row × List Field) : Prop :=
  ∃ ks : List Kind, ks.length = p.2.length ∧ ∀ r ∈ p.1, rowHas ks r = true

/-! ### the join -/

theorem joinMatches_mem (on : Cond) (fields : List Field) (mk : Row → Row) :
    ∀ rs : List Row, Wp AnyP (fun out => ∀ r ∈ out, ∃ x ∈ rs, r = mk x) (joinMatches on fields mk rs)
  | [] => by simp [joinMatches]
  | x :: rest => by
    unfold joinMatches
    dsimp only
    apply Wp.bind (Wp.any _)
    intro v _
    split
    · apply Wp.bind (joinMatches_mem on fields mk rest)
      intro tl htl
      simp only [Wp_pure]
      intro r hr
      split at hr
      · rcases List.mem_cons.mp hr with rfl | h'
        · exact ⟨x, by simp, rfl⟩
        · obtain ⟨y, hy, e⟩ := htl r h'
          exact ⟨y, List.mem_cons_of_mem _ hy, e⟩
      · obtain ⟨y, hy, e⟩ := htl r hr
        exact ⟨y, List.mem_cons_of_mem _ hy, e⟩
    · trivial

/-- every row a join produces is a pair of source rows put together, or the padding of an outer row -/
theorem joinOuter_mem (on : Cond) (fields : List Field) (inner : List Row) (mk : Row → Row → Row)
    (pad : Option (Row → Row)) :
    ∀ outer : List Row, Wp AnyP (fun out => ∀ r ∈ out,
        (∃ o ∈ outer, ∃ i ∈ inner, r = mk o i) ∨ ∃ p, pad = some p ∧ ∃ o ∈ outer, r = p o)
      (joinOuter on fields outer inner mk pad)
  | [] => by simp [joinOuter]
  | o :: rest => by
    unfold joinOuter
    apply Wp.bind (joinMatches_mem on fields (mk o) inner)
    intro ms hms
    apply Wp.bind (joinOuter_mem on fields inner mk pad rest)
    intro tl htl
    simp only [Wp_pure]
    intro r hr
    rcases List.mem_append.mp hr with hr | hr
    · split at hr
      · cases pad with
        | none => simp at hr
        | some p =>
          simp only [List.mem_singleton] at hr
          exact .inr ⟨p, rfl, o, by simp, hr⟩
      · obtain ⟨i, hi, e⟩ := hms r hr
        exact .inl ⟨o, by simp, i, hi, e⟩
    · rcases htl r hr with ⟨o', ho', i, hi, e⟩ | ⟨p, hp, o', ho', e⟩
      · exact .inl ⟨o', List.mem_cons_of_mem _ ho', i, hi, e⟩
      · exact .inr ⟨p, hp, o', List.mem_cons_of_mem _ ho', e⟩

theorem fetchTable_kinded {fetch : Bytes → Option Table} (hk : KindedFetch fetch) (t : TableName) :
    Wp AnyP Kinded (fetchTable fetch t) := by
  unfold fetchTable
  split
  · trivial
  · rename_i tbl heq
    obtain ⟨ks, hlen, hrows⟩ := hk _ _ heq
    exact ⟨ks, by simp only [List.length_map]; exact hlen, hrows⟩

/-- **the FROM clause keeps the columns kinded**: the rows of a join (inner, LEFT, RIGHT, any nesting)
are kinded by the kinds of the left source followed by those of the right one -/
theorem nestedLoopJoin_kinded {fetch : Bytes → Option Table} (hk : KindedFetch fetch) :
    ∀ tr : TableRef, Wp AnyP Kinded (nestedLoopJoin fetch tr)
  | .table t => by unfold nestedLoopJoin; exact fetchTable_kinded hk t
  | .join l jt r on => by
    unfold nestedLoopJoin
    apply Wp.bind (nestedLoopJoin_kinded hk l)
    rintro ⟨lRows, lFields⟩ ⟨lks, hll, hl⟩
    dsimp only at hll hl ⊢
    apply Wp.bind (fetchTable_kinded hk r)
    rintro ⟨rRows, rFields⟩ ⟨rks, hrl, hr⟩
    dsimp only at hrl hr ⊢
    have hlen : (lks ++ rks).length = (lFields ++ rFields).length := by
      simp only [List.length_append, hll, hrl]
    cases jt with
    | inner =>
      dsimp only
      split
      · trivial
      apply Wp.bind (joinOuter_mem _ _ _ _ _ _)
      intro rows hrows
      refine ⟨lks ++ rks, hlen, ?_⟩
      intro x hx
      rcases hrows x hx with ⟨o, ho, i, hi, rfl⟩ | ⟨p, hp, _⟩
      · exact rowHas_append (hr i hi) (hl o ho)
      · cases hp
    | left =>
      dsimp only
      split
      · trivial
      apply Wp.bind (joinOuter_mem _ _ _ _ _ _)
      intro rows hrows
      refine ⟨lks ++ rks, hlen, ?_⟩
      intro x hx
      rcases hrows x hx with ⟨o, ho, i, hi, rfl⟩ | ⟨p, hp, o, ho, rfl⟩
      · exact rowHas_append (hr i hi) (hl o ho)
      · cases hp
        rw [← hrl]
        exact rowHas_append (rowHas_nulls rks) (hl o ho)
    | right =>
      dsimp only
      split
      · trivial
      apply Wp.bind (joinOuter_mem _ _ _ _ _ _)
      intro rows hrows
      refine ⟨lks ++ rks, hlen, ?_⟩
      intro x hx
      rcases hrows x hx with ⟨o, ho, i, hi, rfl⟩ | ⟨p, hp, o, ho, rfl⟩
      · exact rowHas_append (hr o ho) (hl i hi)
      · cases hp
        rw [← hll]
        exact rowHas_append (hr o ho) (rowHas_nulls lks)

end Mkdb.Exec.TypedP
