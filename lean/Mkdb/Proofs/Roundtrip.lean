import Mkdb.Model.Parse
/-! Token-level round trip of the condition sub-language (C10 / C05.precedence). -/
namespace Mkdb.Sql
open Mkdb.Scan Mkdb.Generated

theorem bind_apply {α β} (m : P α) (f : α → P β) (ts : List Token) :
    (m >>= f) ts = match m ts with
      | .ok a rest => f a rest
      | .err e => .err e
      | .panic s => .panic s
      | .fuel => .fuel := rfl

theorem pure_apply {α} (a : α) (ts : List Token) : (Pure.pure a : P α) ts = .ok a ts := rfl

theorem matchTy_hit (tys : List Int) (t : Token) (rest : List Token) (h : tys.contains t.ty = true) :
    matchTy tys (t :: rest) = .ok (some t) rest := by
  simp only [matchTy, h, ↓reduceIte]

theorem matchTy_miss (tys : List Int) (t : Token) (rest : List Token) (h : tys.contains t.ty = false) :
    matchTy tys (t :: rest) = .ok none (t :: rest) := by
  simp only [matchTy, h, Bool.false_eq_true, ↓reduceIte]

/-- The head of `rest` is not one of `tys` (or `rest` is empty). -/
def HeadNot (tys : List Int) (rest : List Token) : Prop :=
  match rest with
  | [] => True
  | t :: _ => tys.contains t.ty = false

theorem matchTy_headNot (tys : List Int) (rest : List Token) (h : HeadNot tys rest) :
    matchTy tys rest = .ok none rest := by
  cases rest with
  | nil => rfl
  | cons t r => exact matchTy_miss tys t r h

theorem curIs_dot_headNot (rest : List Token) (h : HeadNot [t_DOT] rest) :
    curIs [t_DOT] rest = .ok false rest := by
  cases rest with
  | nil => rfl
  | cons t r =>
    simp only [HeadNot] at h
    simp only [curIs, List.headD_cons, h]

/-- Tokens of a value expression.  `litTok` renders literals; its only required property
is that `Token.Val` reads the literal back (`LitOK`). -/
def tokV (litTok : Lit → Token) : VExpr → List Token
  | .lit l => [litTok l]
  | .col c => if c.qual.isEmpty then [⟨t_IDENT, c.name⟩]
              else [⟨t_IDENT, c.qual⟩, ⟨t_DOT, [46]⟩, ⟨t_IDENT, c.name⟩]

/-- `litTok` renders this value expression's literal (if any) so that `Token.Val` reads it back. -/
def GoodV (litTok : Lit → Token) : VExpr → Prop
  | .lit l => literalTys.contains (litTok l).ty = true ∧ tokenVal (litTok l) = .ok l
  | .col _ => True

/-- a comparison operator between two renderable value expressions -/
def GoodPred (litTok : Lit → Token) (p : Pred) : Prop :=
  compOps.contains p.op = true ∧ GoodV litTok p.lhs ∧ GoodV litTok p.rhs

theorem literalTys_eq : literalTys = [2, 3, 4, 5, 6] := by decide

theorem valueExpression_tok (litTok : Lit → Token) (v : VExpr) (hl : GoodV litTok v) (rest : List Token)
    (hrest : HeadNot [t_DOT] rest) :
    valueExpression (tokV litTok v ++ rest) = .ok v rest := by
  cases v with
  | lit l =>
    obtain ⟨h1, h2⟩ := hl
    simp only [tokV, List.cons_append, List.nil_append, valueExpression, bind_apply, matchTy_hit _ _ _ h1, h2, pure_apply]
  | col c =>
    obtain ⟨q, n⟩ := c
    have hIdentNotLit : literalTys.contains t_IDENT = false := by decide
    by_cases hq : q = []
    · subst hq
      have hm0 : matchTy literalTys ((⟨t_IDENT, n⟩ : Token) :: rest) = .ok none (⟨t_IDENT, n⟩ :: rest) :=
        matchTy_miss literalTys ⟨t_IDENT, n⟩ rest hIdentNotLit
      have h1 : matchTy [t_IDENT] ((⟨t_IDENT, n⟩ : Token) :: rest) = .ok (some ⟨t_IDENT, n⟩) rest :=
        matchTy_hit [t_IDENT] ⟨t_IDENT, n⟩ rest rfl
      simp only [tokV, List.isEmpty_nil, ↓reduceIte, List.cons_append, List.nil_append, valueExpression, bind_apply,
        hm0, columnReference, h1, curIs_dot_headNot rest hrest, pure_apply, Bool.false_eq_true]
    · have hq' : q.isEmpty = false := by
        cases q with
        | nil => exact absurd rfl hq
        | cons a t => rfl
      have hm0 : matchTy literalTys ((⟨t_IDENT, q⟩ : Token) :: ⟨t_DOT, [46]⟩ :: ⟨t_IDENT, n⟩ :: rest) =
          .ok none (⟨t_IDENT, q⟩ :: ⟨t_DOT, [46]⟩ :: ⟨t_IDENT, n⟩ :: rest) :=
        matchTy_miss literalTys ⟨t_IDENT, q⟩ _ hIdentNotLit
      have h1 : matchTy [t_IDENT] ((⟨t_IDENT, q⟩ : Token) :: ⟨t_DOT, [46]⟩ :: ⟨t_IDENT, n⟩ :: rest) =
          .ok (some ⟨t_IDENT, q⟩) (⟨t_DOT, [46]⟩ :: ⟨t_IDENT, n⟩ :: rest) :=
        matchTy_hit [t_IDENT] ⟨t_IDENT, q⟩ _ rfl
      have h2 : matchTy [t_IDENT] ((⟨t_IDENT, n⟩ : Token) :: rest) = .ok (some ⟨t_IDENT, n⟩) rest :=
        matchTy_hit [t_IDENT] ⟨t_IDENT, n⟩ rest rfl
      have h3 : curIs [t_DOT] ((⟨t_DOT, [46]⟩ : Token) :: ⟨t_IDENT, n⟩ :: rest) =
          .ok true (⟨t_DOT, [46]⟩ :: ⟨t_IDENT, n⟩ :: rest) := rfl
      simp only [tokV, hq', Bool.false_eq_true, ↓reduceIte, List.cons_append, List.nil_append, valueExpression, bind_apply,
        columnReference, hm0, h1, h3, advance, List.tail_cons, requireMatch, h2, pure_apply]

def tokPred (litTok : Lit → Token) (p : Pred) : List Token :=
  tokV litTok p.lhs ++ [(⟨p.op, []⟩ : Token)] ++ tokV litTok p.rhs

theorem tokV_ne_nil (litTok : Lit → Token) (v : VExpr) : tokV litTok v ≠ [] := by
  cases v with
  | lit l => simp [tokV]
  | col c => simp only [tokV]; split <;> simp

theorem predicate_tok (litTok : Lit → Token) (p : Pred) (hp : GoodPred litTok p)
    (rest : List Token) (hrest : HeadNot [t_DOT] rest) :
    predicate (tokPred litTok p ++ rest) = .ok (.pred p) rest := by
  obtain ⟨hop, hlhs, hrhs⟩ := hp
  have hopNotDot : HeadNot [t_DOT] ((⟨p.op, []⟩ : Token) :: (tokV litTok p.rhs ++ rest)) := by
    simp only [HeadNot]
    have : compOps = [12, 13, 15, 14, 16, 17] := by decide
    rw [this] at hop
    have hd : t_DOT = 34 := by decide
    rw [hd]
    simp only [List.contains_cons, List.contains_nil, Bool.or_false, Bool.or_eq_true, beq_iff_eq] at hop
    simp only [List.contains_cons, List.contains_nil, Bool.or_false, beq_eq_false_iff_ne, ne_eq]
    omega
  simp only [tokPred, List.append_assoc, List.cons_append, List.nil_append, predicate, bind_apply,
    valueExpression_tok litTok p.lhs hlhs _ hopNotDot]
  have hm : matchTy compOps ((⟨p.op, []⟩ : Token) :: (tokV litTok p.rhs ++ rest)) = .ok (some ((⟨p.op, []⟩ : Token))) (tokV litTok p.rhs ++ rest) :=
    matchTy_hit _ _ _ hop
  simp only [hm]
  rw [bind_apply, valueExpression_tok litTok p.rhs hrhs rest hrest]
  simp only [pure_apply]

end Mkdb.Sql

namespace Mkdb.Sql
open Mkdb.Scan Mkdb.Generated

/-- `p1 AND p2 AND …` -/
def tokAnd (litTok : Lit → Token) : Pred → List Pred → List Token
  | p, [] => tokPred litTok p
  | p, q :: rest => tokPred litTok p ++ (⟨t_AND, []⟩ : Token) :: tokAnd litTok q rest

/-- the tree `AndCondition` builds: right-nested `BooleanTerm`s -/
def andTree : Pred → List Pred → Cond
  | p, [] => .pred p
  | p, q :: rest => .and p (andTree q rest)

def ValidOps (litTok : Lit → Token) (p : Pred) (ps : List Pred) : Prop :=
  GoodPred litTok p ∧ ∀ q ∈ ps, GoodPred litTok q

theorem headNot_weaken {a b : List Int} {rest : List Token} (h : HeadNot (a ++ b) rest) :
    HeadNot a rest ∧ HeadNot b rest := by
  cases rest with
  | nil => exact ⟨trivial, trivial⟩
  | cons t r =>
    simp only [HeadNot, List.contains_eq_mem, List.mem_append, decide_eq_false_iff_not, not_or] at h ⊢
    exact h

theorem andCond_succ (f : Nat) (ts : List Token) :
    andCond (f+1) ts = match predicate ts with
      | .ok ret rest => andLoop f ret rest
      | .err e => .err e
      | .panic s => .panic s
      | .fuel => .fuel := by
  simp only [andCond, bind_apply]
  cases predicate ts <;> rfl

theorem andLoop_succ_miss (f : Nat) (ret : Cond) (ts : List Token) (h : HeadNot [t_AND] ts) :
    andLoop (f+1) ret ts = .ok ret ts := by
  simp only [andLoop, bind_apply, matchTy_headNot _ _ h, pure_apply]

theorem andLoop_succ_hit (f : Nat) (p : Pred) (ts : List Token) :
    andLoop (f+1) (.pred p) ((⟨t_AND, []⟩ : Token) :: ts) = match andCond f ts with
      | .ok rhs rest => andLoop f (.and p rhs) rest
      | .err e => .err e
      | .panic s => .panic s
      | .fuel => .fuel := by
  have hmAnd : matchTy [t_AND] ((⟨t_AND, []⟩ : Token) :: ts) = .ok (some ⟨t_AND, []⟩) ts := matchTy_hit _ _ _ rfl
  simp only [andLoop, bind_apply, hmAnd]
  cases andCond f ts <;> rfl

theorem andCond_tok (litTok : Lit → Token) (p : Pred) (ps : List Pred)
    (hops : ValidOps litTok p ps) (rest : List Token) (hrest : HeadNot ([t_DOT] ++ [t_AND]) rest)
    (f : Nat) (hf : 2 * ps.length + 2 ≤ f) :
    andCond f (tokAnd litTok p ps ++ rest) = .ok (andTree p ps) rest := by
  obtain ⟨hdot, hand⟩ := headNot_weaken hrest
  induction ps generalizing p f with
  | nil =>
    obtain ⟨f1, rfl⟩ : ∃ f1, f = f1 + 1 := ⟨f - 1, by omega⟩
    obtain ⟨f2, rfl⟩ : ∃ f2, f1 = f2 + 1 := ⟨f1 - 1, by omega⟩
    rw [andCond_succ]
    simp only [tokAnd, predicate_tok litTok p hops.1 rest hdot, andLoop_succ_miss _ _ _ hand, andTree]
  | cons q ps ih =>
    simp only [List.length_cons] at hf
    obtain ⟨f1, rfl⟩ : ∃ f1, f = f1 + 1 := ⟨f - 1, by omega⟩
    obtain ⟨f2, rfl⟩ : ∃ f2, f1 = f2 + 1 := ⟨f1 - 1, by omega⟩
    obtain ⟨f3, rfl⟩ : ∃ f3, f2 = f3 + 1 := ⟨f2 - 1, by omega⟩
    have hq : ValidOps litTok q ps := ⟨hops.2 q List.mem_cons_self, fun x hx => hops.2 x (List.mem_cons_of_mem _ hx)⟩
    have hnd : HeadNot [t_DOT] ((⟨t_AND, []⟩ : Token) :: (tokAnd litTok q ps ++ rest)) := by
      simp only [HeadNot]; decide
    have hpred := predicate_tok litTok p hops.1 ((⟨t_AND, []⟩ : Token) :: (tokAnd litTok q ps ++ rest)) hnd
    have hrec := ih q hq (f3 + 1) (by omega)
    rw [andCond_succ]
    simp only [tokAnd, List.append_assoc, List.cons_append, hpred]
    rw [andLoop_succ_hit, hrec]
    simp only [andLoop_succ_miss _ _ _ hand, andTree]

end Mkdb.Sql

namespace Mkdb.Sql
open Mkdb.Scan Mkdb.Generated

/-- A parenthesis-free condition: groups of predicates joined by AND, groups joined by OR. -/
abbrev Group := Pred × List Pred

def tokOr (litTok : Lit → Token) : Group → List Group → List Token
  | g, [] => tokAnd litTok g.1 g.2
  | g, h :: rest => tokAnd litTok g.1 g.2 ++ (⟨t_OR, []⟩ : Token) :: tokOr litTok h rest

/-- the tree `OrCondition` builds -/
def orTree : Group → List Group → Cond
  | g, [] => andTree g.1 g.2
  | g, h :: rest => .or (andTree g.1 g.2) (orTree h rest)

/-- fuel that is certainly enough for `orCond` on `tokOr g gs` -/
def fuelOr : Group → List Group → Nat
  | g, [] => 2 * g.2.length + 4
  | g, h :: rest => max (2 * g.2.length + 2) (fuelOr h rest + 1) + 1

theorem orCond_succ (f : Nat) (ts : List Token) :
    orCond (f+1) ts = match andCond f ts with
      | .ok ret rest => orLoop f ret rest
      | .err e => .err e
      | .panic s => .panic s
      | .fuel => .fuel := by
  simp only [orCond, bind_apply]
  cases andCond f ts <;> rfl

theorem orLoop_succ_miss (f : Nat) (ret : Cond) (ts : List Token) (h : HeadNot [t_OR] ts) :
    orLoop (f+1) ret ts = .ok ret ts := by
  simp only [orLoop, bind_apply, matchTy_headNot _ _ h, pure_apply]

theorem orLoop_succ_hit (f : Nat) (ret : Cond) (ts : List Token) :
    orLoop (f+1) ret ((⟨t_OR, []⟩ : Token) :: ts) = match orCond f ts with
      | .ok rhs rest => orLoop f (.or ret rhs) rest
      | .err e => .err e
      | .panic s => .panic s
      | .fuel => .fuel := by
  have hm : matchTy [t_OR] ((⟨t_OR, []⟩ : Token) :: ts) = .ok (some ⟨t_OR, []⟩) ts := matchTy_hit _ _ _ rfl
  simp only [orLoop, bind_apply, hm]
  cases orCond f ts <;> rfl

def ValidGroup (litTok : Lit → Token) (g : Group) : Prop := ValidOps litTok g.1 g.2

theorem orCond_tok (litTok : Lit → Token) (g : Group) (gs : List Group)
    (hops : ValidGroup litTok g ∧ ∀ h ∈ gs, ValidGroup litTok h) (rest : List Token)
    (hrest : HeadNot ([t_DOT] ++ [t_AND]) rest) (hor : HeadNot [t_OR] rest)
    (f : Nat) (hf : fuelOr g gs ≤ f) :
    orCond f (tokOr litTok g gs ++ rest) = .ok (orTree g gs) rest := by
  induction gs generalizing g f with
  | nil =>
    simp only [fuelOr] at hf
    obtain ⟨f1, rfl⟩ : ∃ f1, f = f1 + 1 := ⟨f - 1, by omega⟩
    obtain ⟨f2, rfl⟩ : ∃ f2, f1 = f2 + 1 := ⟨f1 - 1, by omega⟩
    rw [orCond_succ]
    simp only [tokOr, andCond_tok litTok g.1 g.2 hops.1 rest hrest (f2 + 1) (by omega),
      orLoop_succ_miss _ _ _ hor, orTree]
  | cons h gs ih =>
    simp only [fuelOr] at hf
    obtain ⟨f1, rfl⟩ : ∃ f1, f = f1 + 1 := ⟨f - 1, by omega⟩
    obtain ⟨f2, rfl⟩ : ∃ f2, f1 = f2 + 1 := ⟨f1 - 1, by omega⟩
    have hh : ValidGroup litTok h ∧ ∀ x ∈ gs, ValidGroup litTok x :=
      ⟨hops.2 h List.mem_cons_self, fun x hx => hops.2 x (List.mem_cons_of_mem _ hx)⟩
    have hnd : HeadNot ([t_DOT] ++ [t_AND]) ((⟨t_OR, []⟩ : Token) :: (tokOr litTok h gs ++ rest)) := by
      simp only [HeadNot]; decide
    have hand := andCond_tok litTok g.1 g.2 hops.1 ((⟨t_OR, []⟩ : Token) :: (tokOr litTok h gs ++ rest)) hnd
      (f2 + 1) (by omega)
    have hrec := ih h hh f2 (by omega)
    have hf2 : ∃ f3, f2 = f3 + 1 := ⟨f2 - 1, by
      have : 1 ≤ fuelOr h gs := by cases gs <;> simp [fuelOr] <;> omega
      omega⟩
    obtain ⟨f3, rfl⟩ := hf2
    rw [orCond_succ]
    simp only [tokOr, List.append_assoc, List.cons_append, hand]
    rw [orLoop_succ_hit, hrec]
    simp only [orLoop_succ_miss _ _ _ hor, orTree]

end Mkdb.Sql

namespace Mkdb.Sql
open Mkdb.Scan Mkdb.Generated

/-- `c1 , c2 , … , cn` (unqualified columns) -/
def tokCols : List Bytes → List Token
  | [] => []
  | [n] => [⟨t_IDENT, n⟩]
  | n :: m :: rest => ⟨t_IDENT, n⟩ :: ⟨t_COMMA, []⟩ :: tokCols (m :: rest)

theorem columnReference_ident (n : Bytes) (rest : List Token) (h : HeadNot [t_DOT] rest) :
    columnReference ((⟨t_IDENT, n⟩ : Token) :: rest) = .ok (some ⟨[], n⟩) rest := by
  have h1 : matchTy [t_IDENT] ((⟨t_IDENT, n⟩ : Token) :: rest) = .ok (some ⟨t_IDENT, n⟩) rest :=
    matchTy_hit [t_IDENT] ⟨t_IDENT, n⟩ rest rfl
  simp only [columnReference, bind_apply, h1, curIs_dot_headNot rest h, pure_apply, Bool.false_eq_true, ↓reduceIte]

theorem columnReference_none (rest : List Token) (h : HeadNot [t_IDENT] rest) :
    columnReference rest = .ok none rest := by
  simp only [columnReference, bind_apply, matchTy_headNot _ _ h, pure_apply]

theorem groupByLoop_cols (names : List Bytes) (hne : names ≠ []) (rest : List Token)
    (hrest : HeadNot ([t_IDENT] ++ ([t_COMMA] ++ [t_DOT])) rest) (b : Bool) (f : Nat)
    (hf : names.length + 1 ≤ f) :
    groupByLoop f b (tokCols names ++ rest) = .ok (names.map fun n => ⟨[], n⟩) rest := by
  obtain ⟨hid, hcd⟩ := headNot_weaken hrest
  obtain ⟨hcomma, hdot⟩ := headNot_weaken hcd
  induction names generalizing b f with
  | nil => exact absurd rfl hne
  | cons n t ih =>
    obtain ⟨f1, rfl⟩ : ∃ f1, f = f1 + 1 := ⟨f - 1, by simp at hf; omega⟩
    cases t with
    | nil =>
      obtain ⟨f2, rfl⟩ : ∃ f2, f1 = f2 + 1 := ⟨f1 - 1, by simp at hf; omega⟩
      simp only [tokCols, List.cons_append, List.nil_append, groupByLoop, bind_apply,
        columnReference_ident n rest hdot, commaFollows, matchTy_headNot _ _ hcomma, pure_apply,
        columnReference_none rest hid, Bool.false_eq_true, ↓reduceIte, List.map_cons, List.map_nil]
    | cons m t' =>
      have hnd : HeadNot [t_DOT] ((⟨t_COMMA, []⟩ : Token) :: (tokCols (m :: t') ++ rest)) := by
        simp only [HeadNot]; decide
      have hmc : matchTy [t_COMMA] ((⟨t_COMMA, []⟩ : Token) :: (tokCols (m :: t') ++ rest)) =
          .ok (some ⟨t_COMMA, []⟩) (tokCols (m :: t') ++ rest) := matchTy_hit _ _ _ rfl
      have hrec := ih (by simp) true f1 (by simp at hf ⊢; omega)
      simp only [tokCols, List.cons_append, groupByLoop, bind_apply,
        columnReference_ident n _ hnd, commaFollows, hmc, pure_apply, hrec, List.map_cons]

end Mkdb.Sql
