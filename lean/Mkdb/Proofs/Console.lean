import Mkdb.Model.Console
/-!
Proofs about the console line editor model (`Mkdb.Model.Console`) for C20:
the statement splitter on well-formed input, and the session-level correspondence between
what `run` submits and the top-level split of everything typed.
-/
namespace Mkdb.Console

/-! ## Definitions -/

/-- the quote state after scanning `l` starting in quote state `q` -/
def qrun (q : Q) (l : List Nat) : Q := l.foldl (fun q r => (qstep q r).1) q

/-- no step of the scan of `l` from quote state `q` reports `ends = true` -/
def noEnd : Q → List Nat → Bool
  | _, [] => true
  | q, r :: rest => !(qstep q r).2 && noEnd (qstep q r).1 rest

/-- A statement as the user means it: a body with balanced quotes and no ';' outside quotes,
then ';'; it does not start with a blank. -/
def WFStmt (s : List Nat) : Prop :=
  ∃ body, s = body ++ [59] ∧ noEnd .top body = true ∧ qrun .top body = .top ∧
    (∀ c, s.head? = some c → isSpace c = false)

/-- a run of blanks -/
def Blank (w : List Nat) : Prop := ∀ c ∈ w, isSpace c = true

/-! ## Blanks -/

theorem isSpace_ne {c : Nat} (h : isSpace c = true) :
    c ≠ 39 ∧ c ≠ 34 ∧ c ≠ 96 ∧ c ≠ 59 ∧ c ≠ 92 := by
  refine ⟨?_, ?_, ?_, ?_, ?_⟩ <;> (intro e; subst e; revert h; decide)

theorem qstep_top_space {c : Nat} (h : isSpace c = true) : qstep .top c = (.top, false) := by
  obtain ⟨h1, h2, h3, h4, _⟩ := isSpace_ne h
  simp [qstep, h1, h2, h3, h4]

theorem Blank.nil : Blank [] := by intro c hc; cases hc

theorem Blank.cons {c : Nat} {w : List Nat} (hc : isSpace c = true) (hw : Blank w) :
    Blank (c :: w) := by
  intro x hx
  cases hx with
  | head => exact hc
  | tail _ h => exact hw x h

theorem Blank.tail {c : Nat} {w : List Nat} (h : Blank (c :: w)) : Blank w :=
  fun x hx => h x (List.mem_cons_of_mem _ hx)

theorem Blank.append {a b : List Nat} (ha : Blank a) (hb : Blank b) : Blank (a ++ b) := by
  intro x hx
  rcases List.mem_append.mp hx with h | h
  · exact ha x h
  · exact hb x h

theorem Blank.reverse {a : List Nat} (ha : Blank a) : Blank a.reverse :=
  fun x hx => ha x (List.mem_reverse.mp hx)

theorem Blank.of_reverse {a : List Nat} (ha : Blank a.reverse) : Blank a :=
  fun x hx => ha x (List.mem_reverse.mpr hx)

theorem Blank.left {a b : List Nat} (h : Blank (a ++ b)) : Blank a :=
  fun x hx => h x (List.mem_append.mpr (Or.inl hx))

theorem Blank.right {a b : List Nat} (h : Blank (a ++ b)) : Blank b :=
  fun x hx => h x (List.mem_append.mpr (Or.inr hx))

theorem blank_iff_all (w : List Nat) : w.all isSpace = true ↔ Blank w := by
  simp only [List.all_eq_true, Blank]

/-! ## trim -/

theorem trimLeft_blank_append {w : List Nat} (hw : Blank w) (x : List Nat) :
    trimLeft (w ++ x) = trimLeft x := by
  induction w with
  | nil => rfl
  | cons c w ih =>
    have hc : isSpace c = true := hw c (List.mem_cons_self)
    simp only [List.cons_append, trimLeft, hc, if_true]
    exact ih hw.tail

theorem trimLeft_of_head {x : List Nat} (h : ∀ c, x.head? = some c → isSpace c = false) :
    trimLeft x = x := by
  cases x with
  | nil => rfl
  | cons c rest =>
    have hc : isSpace c = false := h c rfl
    simp [trimLeft, hc]

/-- leading blanks do not survive `trim` -/
theorem trim_blank_append {w : List Nat} (hw : Blank w) (x : List Nat) :
    trim (w ++ x) = trim x := by
  simp only [trim, trimLeft_blank_append hw]

/-- a well-formed statement is what `trim` returns when it is preceded by blanks -/
theorem trim_blank_stmt {w s : List Nat} (hw : Blank w) (hs : WFStmt s) : trim (w ++ s) = s := by
  obtain ⟨body, hbody, _, _, hhead⟩ := hs
  rw [trim_blank_append hw]
  simp only [trim, trimLeft_of_head hhead]
  subst hbody
  have : trimLeft (body ++ [59]).reverse = (body ++ [59]).reverse := by
    apply trimLeft_of_head
    intro c hc
    simp only [List.reverse_append, List.reverse_cons, List.reverse_nil, List.nil_append,
      List.cons_append, List.head?_cons, Option.some.injEq] at hc
    subst hc
    decide
  rw [this, List.reverse_reverse]

/-! ## The splitter automaton -/

theorem feed_eq (s : S) (r : Nat) : feed s r =
    if (qstep s.q r).2 then
      { q := (qstep s.q r).1, piece := [], done := trim (r :: s.piece).reverse :: s.done }
    else { q := (qstep s.q r).1, piece := r :: s.piece, done := s.done } := by
  unfold feed
  rfl

theorem qrun_cons (q : Q) (r : Nat) (l : List Nat) : qrun q (r :: l) = qrun (qstep q r).1 l := rfl

/-- scanning a stretch in which no statement ends only extends the current piece -/
theorem foldl_feed_noEnd : ∀ (body : List Nat) (s : S), noEnd s.q body = true →
    body.foldl feed s = { q := qrun s.q body, piece := body.reverse ++ s.piece, done := s.done }
  | [], s, _ => by cases s; rfl
  | r :: rest, s, h => by
    simp only [noEnd, Bool.and_eq_true, Bool.not_eq_true'] at h
    have hf : feed s r = { q := (qstep s.q r).1, piece := r :: s.piece, done := s.done } := by
      rw [feed_eq, h.1]; rfl
    rw [List.foldl_cons, hf, foldl_feed_noEnd rest _ h.2]
    simp only [qrun_cons, List.reverse_cons, List.append_assoc, List.cons_append, List.nil_append]

theorem noEnd_blank {w : List Nat} (hw : Blank w) : noEnd .top w = true := by
  induction w with
  | nil => rfl
  | cons c w ih =>
    have hc := qstep_top_space (hw c List.mem_cons_self)
    simp only [noEnd, hc, Bool.not_false, Bool.true_and]
    exact ih hw.tail

theorem qrun_blank {w : List Nat} (hw : Blank w) : qrun .top w = .top := by
  induction w with
  | nil => rfl
  | cons c w ih =>
    have hc := qstep_top_space (hw c List.mem_cons_self)
    rw [qrun_cons, hc]
    exact ih hw.tail

/-- blanks at top level are appended to the current piece -/
theorem foldl_feed_blank {w : List Nat} (hw : Blank w) (p : List Nat) (d : List (List Nat)) :
    w.foldl feed { q := .top, piece := p, done := d } =
      { q := .top, piece := w.reverse ++ p, done := d } := by
  rw [foldl_feed_noEnd w _ (noEnd_blank hw)]
  simp only [qrun_blank hw]

/-- a body followed by its top-level ';' finishes one statement -/
theorem foldl_feed_stmt {body : List Nat} (h1 : noEnd .top body = true)
    (h2 : qrun .top body = .top) (p : List Nat) (d : List (List Nat)) :
    (body ++ [59]).foldl feed { q := .top, piece := p, done := d } =
      { q := .top, piece := [], done := trim (p.reverse ++ (body ++ [59])) :: d } := by
  rw [List.foldl_append, foldl_feed_noEnd body _ h1]
  simp only [h2, List.foldl_cons, List.foldl_nil]
  rw [feed_eq]
  have hq : qstep .top 59 = (.top, true) := by decide
  simp only [hq, if_true, List.reverse_cons, List.reverse_append, List.reverse_reverse,
    List.append_assoc]

/-! ## (B) splitting a buffer of well-formed statements -/

theorem getLast?_snd_cons (p : List Nat × List Nat) (rest : List (List Nat × List Nat))
    (w : List Nat) :
    (((p :: rest).getLast?.map (·.2)).getD w) = ((rest.getLast?.map (·.2)).getD p.2) := by
  cases rest with
  | nil => rfl
  | cons r rs =>
    rw [List.getLast?_cons_cons]
    cases h : (r :: rs).getLast? with
    | none => simp at h
    | some x => rfl

theorem foldl_feed_items : ∀ (items : List (List Nat × List Nat)) (w : List Nat)
    (d : List (List Nat)), Blank w → (∀ p ∈ items, WFStmt p.1 ∧ Blank p.2) →
    (items.flatMap (fun p => p.1 ++ p.2)).foldl feed { q := .top, piece := w.reverse, done := d } =
      { q := .top, piece := ((items.getLast?.map (·.2)).getD w).reverse,
        done := (items.map (·.1)).reverse ++ d }
  | [], w, d, _, _ => by simp
  | p :: rest, w, d, hw, hall => by
    have hp := hall p List.mem_cons_self
    obtain ⟨body, hbody, h1, h2, hhead⟩ := hp.1
    have htrim : trim (w ++ p.1) = p.1 := trim_blank_stmt hw hp.1
    rw [List.flatMap_cons, List.foldl_append, List.foldl_append]
    have e1 : p.1.foldl feed { q := .top, piece := w.reverse, done := d } =
        { q := .top, piece := [], done := p.1 :: d } := by
      rw [hbody, foldl_feed_stmt h1 h2, List.reverse_reverse, ← hbody, htrim]
    rw [e1, foldl_feed_blank hp.2, List.append_nil,
      foldl_feed_items rest p.2 (p.1 :: d) hp.2 (fun q hq => hall q (List.mem_cons_of_mem _ hq)),
      getLast?_snd_cons]
    simp only [List.map_cons, List.reverse_cons, List.append_assoc, List.cons_append,
      List.nil_append]

/-- (B) A buffer made of well-formed statements separated by blanks splits into exactly those
statements (a ';' inside quotes does not split), each returned without surrounding blanks;
the rest is the run of blanks after the last statement. -/
theorem split_wf (w0 : List Nat) (items : List (List Nat × List Nat))
    (hw0 : Blank w0) (hitems : ∀ p ∈ items, WFStmt p.1 ∧ Blank p.2) :
    splitStatements (w0 ++ items.flatMap (fun p => p.1 ++ p.2)) =
      (items.map (·.1), (items.getLast?.map (·.2)).getD w0) := by
  unfold splitStatements
  have e0 : w0.foldl feed {} = { q := .top, piece := w0.reverse, done := [] } := by
    have := foldl_feed_blank hw0 [] []
    simpa using this
  simp only [List.foldl_append, e0, foldl_feed_items items w0 [] hw0 hitems,
    List.append_nil, List.reverse_reverse]

/-- the rest reported by `split_wf` is blank -/
theorem blank_last (w0 : List Nat) (items : List (List Nat × List Nat))
    (hw0 : Blank w0) (hitems : ∀ p ∈ items, WFStmt p.1 ∧ Blank p.2) :
    Blank ((items.getLast?.map (·.2)).getD w0) := by
  cases h : items.getLast? with
  | none => exact hw0
  | some p => exact (hitems p (List.mem_of_getLast? h)).2

/-- `SELECT 'a;b';` is one well-formed statement: the quoted ';' does not end it. -/
example : WFStmt [83, 69, 76, 69, 67, 84, 32, 39, 97, 59, 98, 39, 59] :=
  ⟨[83, 69, 76, 69, 67, 84, 32, 39, 97, 59, 98, 39], rfl, by decide, by decide, by
    intro c hc
    simp only [List.head?_cons, Option.some.injEq] at hc
    subst hc
    decide⟩

/-! ## (C) the session: what `run` submits vs. the split of everything typed -/

/-- what was typed, with each Enter read as one space -/
def keyText (keys : List Nat) : List Nat := keys.map (fun k => if k = 13 then 32 else k)

/-- the terminal state after a key sequence -/
def final (t : Term) (ks : List Nat) : Term := ks.foldl (fun t k => (step t k).1) t

/-- the printable keys are none of the keys `handleKey` treats specially -/
theorem printable_ne {k : Nat} (hp : isPrintable k = true) :
    k ≠ keyBackspace ∧ k ≠ keyAltLeft ∧ k ≠ keyAltRight ∧ k ≠ keyLeft ∧ k ≠ keyRight ∧ k ≠ keyHome ∧
    k ≠ keyEnd ∧ k ≠ keyUp ∧ k ≠ keyDown ∧ k ≠ keyDeleteWord ∧ k ≠ keyDeleteLine ∧ k ≠ keyCtrlD ∧
    k ≠ keyCtrlU ∧ k ≠ keyClearScreen := by
  simp only [isPrintable, Bool.and_eq_true, decide_eq_true_eq, Bool.not_eq_true', Bool.and_eq_false_iff,
    decide_eq_false_iff_not, bne_iff_ne, ne_eq, ge_iff_le] at hp
  simp only [keyBackspace, keyAltLeft, keyAltRight, keyLeft, keyRight, keyHome, keyEnd, keyUp, keyDown,
    keyDeleteWord, keyDeleteLine, keyCtrlD, keyCtrlU, keyClearScreen]
  omega

theorem handleKey_enter (t : Term) : handleKey t 13 =
    if (t.line.foldl feed {}).piece.reverse.all isSpace then
      ({ t with line := [], pos := 0 }, some (t.line.foldl feed {}).done.reverse)
    else (addKeyToLine t 32, none) := by
  simp [handleKey, keyEnter, keyBackspace, keyAltLeft, keyAltRight, keyLeft, keyRight, keyHome, keyEnd,
    keyUp, keyDown, keyDeleteWord, keyDeleteLine, keyCtrlD, keyCtrlU, keyClearScreen, splitStatements]

theorem handleKey_print (t : Term) {k : Nat} (hp : isPrintable k = true) (hk : k ≠ 13) :
    handleKey t k = (addKeyToLine t k, none) := by
  obtain ⟨h1, h2, h3, h4, h5, h6, h7, h8, h9, h10, h11, h12, h13, h14⟩ := printable_ne hp
  cases hpa : t.pasteActive <;>
    simp [handleKey, keyEnter, hpa, hp, hk, h1, h2, h3, h4, h5, h6, h7, h8, h9, h10, h11, h12, h13, h14]

theorem addHistory_line (t : Term) (s : List (List Nat)) : (addHistory t s).line = t.line := by
  unfold addHistory
  induction s generalizing t with
  | nil => rfl
  | cons a s ih => rw [List.foldl_cons, ih]

theorem addHistory_pos (t : Term) (s : List (List Nat)) : (addHistory t s).pos = t.pos := by
  unfold addHistory
  induction s generalizing t with
  | nil => rfl
  | cons a s ih => rw [List.foldl_cons, ih]

theorem addHistory_paste (t : Term) (s : List (List Nat)) : (addHistory t s).pasteActive = t.pasteActive := by
  unfold addHistory
  induction s generalizing t with
  | nil => rfl
  | cons a s ih => rw [List.foldl_cons, ih]

theorem step_enter (t : Term) : step t 13 =
    if (t.line.foldl feed {}).piece.reverse.all isSpace then
      (addHistory { t with line := [], pos := 0 } (t.line.foldl feed {}).done.reverse,
        some (t.line.foldl feed {}).done.reverse)
    else (addKeyToLine t 32, none) := by
  rw [step, handleKey_enter]
  by_cases hb : (t.line.foldl feed {}).piece.reverse.all isSpace = true
  · simp only [if_pos hb]
  · simp only [if_neg hb]

theorem step_print (t : Term) {k : Nat} (hp : isPrintable k = true) (hk : k ≠ 13) :
    step t k = (addKeyToLine t k, none) := by
  rw [step, handleKey_print t hp hk]

/-- the cursor is at the end of the line -/
def AtEnd (t : Term) : Prop := t.pos = t.line.length

/-- with the cursor at the end of the line `addKeyToLine` appends, and the cursor stays at the end -/
theorem addKey_atEnd {t : Term} (h : AtEnd t) (k : Nat) :
    (addKeyToLine t k).line = t.line ++ [k] ∧ AtEnd (addKeyToLine t k) := by
  unfold AtEnd at h ⊢
  simp [addKeyToLine, h]

/-- a generic invariant principle for the scan -/
theorem foldl_feed_inv (P : S → Prop) (hstep : ∀ s r, P s → P (feed s r)) :
    ∀ (l : List Nat) (s : S), P s → P (l.foldl feed s)
  | [], _, h => h
  | r :: rest, s, h => foldl_feed_inv P hstep rest (feed s r) (hstep s r h)

/-- a statement can only end at a top-level ';', and the scan stays at top level -/
theorem qstep_end {q : Q} {r : Nat} (h : (qstep q r).2 = true) :
    (qstep q r).1 = .top ∧ r = 59 := by
  cases q with
  | esc q0 => simp [qstep] at h
  | inq q0 =>
    simp only [qstep] at h
    split at h
    · simp at h
    · split at h <;> simp at h
  | top =>
    simp only [qstep] at h ⊢
    split at h
    · simp at h
    · rename_i h1
      split at h
      · rename_i h2
        simp only [h1, h2, if_true]
        exact ⟨rfl, by simpa using h2⟩
      · simp at h

/-- a quote can only be entered on a non-blank -/
theorem qstep_nontop {q : Q} {r : Nat} (h : (qstep q r).1 ≠ .top) :
    q ≠ .top ∨ isSpace r = false := by
  cases q with
  | esc q0 => exact Or.inl Q.noConfusion
  | inq q0 => exact Or.inl Q.noConfusion
  | top =>
    cases hs : isSpace r with
    | false => exact Or.inr rfl
    | true => rw [qstep_top_space hs] at h; exact absurd rfl h

/-- inside a quote the current piece holds a non-blank (the opening quote) -/
theorem feed_quote_inv (s : S) (r : Nat)
    (h : s.q ≠ .top → ∃ c ∈ s.piece, isSpace c = false) :
    (feed s r).q ≠ .top → ∃ c ∈ (feed s r).piece, isSpace c = false := by
  rw [feed_eq]
  cases he : (qstep s.q r).2 with
  | true =>
    intro hne
    exact absurd (qstep_end he).1 hne
  | false =>
    intro hne
    have hne' : (qstep s.q r).1 ≠ .top := hne
    show ∃ c ∈ r :: s.piece, isSpace c = false
    rcases qstep_nontop hne' with hq | hr
    · obtain ⟨c, hc, hcs⟩ := h hq
      exact ⟨c, List.mem_cons_of_mem _ hc, hcs⟩
    · exact ⟨r, List.mem_cons_self, hr⟩

theorem quote_inv (l : List Nat) :
    (l.foldl feed {}).q ≠ .top → ∃ c ∈ (l.foldl feed {}).piece, isSpace c = false :=
  foldl_feed_inv (fun s => s.q ≠ .top → ∃ c ∈ s.piece, isSpace c = false) feed_quote_inv l {}
    (fun h => absurd rfl h)

/-- a buffer whose rest is blank is at top level -/
theorem top_of_blank_piece (l : List Nat) (h : Blank (l.foldl feed {}).piece) :
    (l.foldl feed {}).q = .top := by
  cases hq : (l.foldl feed {}).q with
  | top => rfl
  | inq q0 =>
    obtain ⟨c, hc, hcs⟩ := quote_inv l (by rw [hq]; exact Q.noConfusion)
    rw [h c hc] at hcs; cases hcs
  | esc q0 =>
    obtain ⟨c, hc, hcs⟩ := quote_inv l (by rw [hq]; exact Q.noConfusion)
    rw [h c hc] at hcs; cases hcs

/-- The session invariant. `G` is the scan of everything typed so far (Enter read as a space),
`line` the current buffer, `D` the statements submitted so far (reversed, like `S.done`). -/
def Inv (line : List Nat) (G : S) (D : List (List Nat)) : Prop :=
  G.q = (line.foldl feed {}).q ∧ G.done = (line.foldl feed {}).done ++ D ∧
    ∃ w, Blank w ∧ G.piece = (line.foldl feed {}).piece ++ w

theorem inv_init : Inv [] {} [] := ⟨rfl, rfl, [], Blank.nil, rfl⟩

/-- a key appended to the buffer -/
theorem inv_feed {line : List Nat} {G : S} {D : List (List Nat)} (h : Inv line G D) (r : Nat) :
    Inv (line ++ [r]) (feed G r) D := by
  obtain ⟨hq, hd, w, hw, hp⟩ := h
  unfold Inv
  simp only [List.foldl_append, List.foldl_cons, List.foldl_nil]
  generalize line.foldl feed {} = C at hq hd hp
  rw [feed_eq, feed_eq, hq]
  cases (qstep C.q r).2 with
  | false =>
    refine ⟨rfl, hd, w, hw, ?_⟩
    simp [hp]
  | true =>
    refine ⟨rfl, ?_, [], Blank.nil, rfl⟩
    simp only [if_true, hd, hp, List.cons_append, List.cons.injEq, and_true]
    rw [List.reverse_cons, List.reverse_append, List.append_assoc, trim_blank_append hw.reverse,
      List.reverse_cons]

/-- a submitting Enter: the buffer is cleared, the text gets one more blank -/
theorem inv_submit {line : List Nat} {G : S} {D : List (List Nat)} (h : Inv line G D)
    (hb : Blank (line.foldl feed {}).piece) :
    Inv [] (feed G 32) ((line.foldl feed {}).done ++ D) := by
  obtain ⟨hq, hd, w, hw, hp⟩ := h
  have htop : G.q = .top := by rw [hq]; exact top_of_blank_piece line hb
  have hs : qstep .top 32 = (.top, false) := by decide
  rw [feed_eq, htop, hs]
  refine ⟨rfl, hd, 32 :: G.piece, ?_, rfl⟩
  rw [hp]
  exact Blank.cons (by decide) (hb.append hw)

theorem run_cons_some {t t' : Term} {k : Nat} {s : List (List Nat)} (ks : List Nat)
    (h : step t k = (t', some s)) : run t (k :: ks) = s :: run t' ks := by
  simp only [run, h]

theorem run_cons_none {t t' : Term} {k : Nat} (ks : List Nat)
    (h : step t k = (t', none)) : run t (k :: ks) = run t' ks := by
  simp only [run, h]

theorem final_cons (t : Term) (k : Nat) (ks : List Nat) :
    final t (k :: ks) = final (step t k).1 ks := rfl

/-- the invariant is preserved along any run of valid keys, of any length; the cursor stays at
the end of the line -/
theorem inv_run : ∀ (ks : List Nat) (t : Term) (G : S) (D : List (List Nat)),
    Inv t.line G D → AtEnd t →
    (∀ k ∈ ks, k = 13 ∨ (isPrintable k = true ∧ k ≠ 13)) →
    Inv (final t ks).line ((keyText ks).foldl feed G) ((run t ks).flatten.reverse ++ D) ∧
      AtEnd (final t ks)
  | [], t, G, D, h, he, _ => by simpa [final, keyText, run] using ⟨h, he⟩
  | k :: rest, t, G, D, h, he, hv => by
    have hvr : ∀ k ∈ rest, k = 13 ∨ (isPrintable k = true ∧ k ≠ 13) :=
      fun x hx => hv x (List.mem_cons_of_mem _ hx)
    rcases hv k List.mem_cons_self with hk | ⟨hp, hk⟩
    · subst hk
      have hstep := step_enter t
      have htext : keyText (13 :: rest) = 32 :: keyText rest := rfl
      rw [htext, List.foldl_cons, final_cons]
      by_cases hb : (t.line.foldl feed {}).piece.reverse.all isSpace = true
      · rw [if_pos hb] at hstep
        have hb' : Blank (t.line.foldl feed {}).piece :=
          ((blank_iff_all _).mp hb).of_reverse
        have ih := inv_run rest (addHistory { t with line := [], pos := 0 } (t.line.foldl feed {}).done.reverse)
          (feed G 32) _ (by rw [addHistory_line]; exact inv_submit h hb')
          (by unfold AtEnd; rw [addHistory_line, addHistory_pos]; rfl) hvr
        rw [run_cons_some rest hstep, hstep]
        simpa only [List.flatten_cons, List.reverse_append, List.reverse_reverse,
          List.append_assoc] using ih
      · rw [if_neg hb] at hstep
        have hk32 := addKey_atEnd he 32
        have ih := inv_run rest (addKeyToLine t 32) (feed G 32) D (by rw [hk32.1]; exact inv_feed h 32)
          hk32.2 hvr
        rw [run_cons_none rest hstep, hstep]
        exact ih
    · have hstep := step_print t hp hk
      have htext : keyText (k :: rest) = k :: keyText rest := by
        simp only [keyText, List.map_cons, if_neg hk]
      rw [htext, List.foldl_cons, final_cons]
      have hkk := addKey_atEnd he k
      have ih := inv_run rest (addKeyToLine t k) (feed G k) D (by rw [hkk.1]; exact inv_feed h k)
        hkk.2 hvr
      rw [run_cons_none rest hstep, hstep]
      exact ih

theorem run_append : ∀ (a b : List Nat) (t : Term), run t (a ++ b) = run t a ++ run (final t a) b
  | [], _, _ => rfl
  | k :: a, b, t => by
    rw [List.cons_append, final_cons]
    cases h : step t k with
    | mk t' o =>
      cases o with
      | none => rw [run_cons_none _ h, run_cons_none _ h]; exact run_append a b t'
      | some s =>
        rw [run_cons_some _ h, run_cons_some _ h, List.cons_append]
        exact congrArg _ (run_append a b t')

/-- core of (C), with the last key split off -/
theorem run_eq_split_snoc (ks : List Nat)
    (hvalid : ∀ k ∈ ks ++ [13], k = 13 ∨ (isPrintable k = true ∧ k ≠ 13))
    (hrest : Blank (splitStatements (keyText (ks ++ [13]))).2) :
    (run {} (ks ++ [13])).flatten = (splitStatements (keyText (ks ++ [13]))).1 ∧
      (final {} (ks ++ [13])).line = [] := by
  have hinv := (inv_run ks {} {} [] inv_init rfl
    (fun k hk => hvalid k (List.mem_append.mpr (Or.inl hk)))).1
  have htext : keyText (ks ++ [13]) = keyText ks ++ [32] := by simp [keyText]
  rw [htext] at hrest ⊢
  simp only [splitStatements, List.foldl_append, List.foldl_cons, List.foldl_nil] at hrest ⊢
  obtain ⟨hq, hd, w, hw, hp⟩ := hinv
  rw [List.append_nil] at hd
  -- the final Enter does not end a statement
  have h32 : ∀ q, (qstep q 32).2 = false := by
    intro q
    cases h : (qstep q 32).2 with
    | false => rfl
    | true => exact absurd (qstep_end h).2 (by decide)
  have hf : feed ((keyText ks).foldl feed {}) 32 =
      { q := (qstep ((keyText ks).foldl feed {}).q 32).1,
        piece := 32 :: ((keyText ks).foldl feed {}).piece,
        done := ((keyText ks).foldl feed {}).done } := by
    rw [feed_eq, h32]; rfl
  rw [hf] at hrest ⊢
  simp only at hrest ⊢
  -- so the buffer's rest is blank and the Enter submits
  have hbG : Blank ((keyText ks).foldl feed {}).piece := hrest.of_reverse.tail
  have hbC : Blank ((final {} ks).line.foldl feed {}).piece := by rw [hp] at hbG; exact hbG.left
  have hstep := step_enter (final {} ks)
  rw [if_pos ((blank_iff_all _).mpr hbC.reverse)] at hstep
  constructor
  · rw [run_append, run_cons_some [] hstep, hd]
    simp [run]
  · simp only [final, List.foldl_append, List.foldl_cons, List.foldl_nil]
    show (step (final {} ks) 13).1.line = []
    rw [hstep, addHistory_line]

/-- (C) For a key sequence of printable keys and Enters of any length that ends with Enter,
and whose text (each Enter read as one space) has only blanks after its last top-level ';'
(i.e. the final Enter submits and leaves an empty buffer): the concatenation of all submissions,
in order, is the top-level split of everything typed. -/
theorem run_eq_split (keys : List Nat)
    (hvalid : ∀ k ∈ keys, k = 13 ∨ (isPrintable k = true ∧ k ≠ 13))
    (hlast : keys.getLast? = some 13)
    (hrest : Blank (splitStatements (keys.map (fun k => if k = 13 then 32 else k))).2) :
    (run {} keys).flatten = (splitStatements (keys.map (fun k => if k = 13 then 32 else k))).1 := by
  obtain ⟨ks, rfl⟩ := List.getLast?_eq_some_iff.mp hlast
  exact (run_eq_split_snoc ks hvalid hrest).1

/-- ... and the buffer is empty afterwards -/
theorem run_final_empty (keys : List Nat)
    (hvalid : ∀ k ∈ keys, k = 13 ∨ (isPrintable k = true ∧ k ≠ 13))
    (hlast : keys.getLast? = some 13)
    (hrest : Blank (splitStatements (keys.map (fun k => if k = 13 then 32 else k))).2) :
    (final {} keys).line = [] := by
  obtain ⟨ks, rfl⟩ := List.getLast?_eq_some_iff.mp hlast
  exact (run_eq_split_snoc ks hvalid hrest).2

/-! ## (D) C20: the console hands the engine exactly the typed statements -/

/-- (D) If what was typed (each Enter read as one space) is a sequence of well-formed statements
separated by blanks, the last key is Enter, and the keys are printable-or-Enter (any number of them), then the submissions, concatenated in order, are exactly the typed statements,
once each. -/
theorem submit_exact (keys : List Nat) (w0 : List Nat) (items : List (List Nat × List Nat))
    (hvalid : ∀ k ∈ keys, k = 13 ∨ (isPrintable k = true ∧ k ≠ 13))
    (hlast : keys.getLast? = some 13)
    (hw0 : Blank w0) (hitems : ∀ p ∈ items, WFStmt p.1 ∧ Blank p.2)
    (htext : keys.map (fun k => if k = 13 then 32 else k) =
      w0 ++ items.flatMap (fun p => p.1 ++ p.2)) :
    (run {} keys).flatten = items.map (·.1) := by
  have hs := split_wf w0 items hw0 hitems
  rw [← htext] at hs
  rw [run_eq_split keys hvalid hlast (by rw [hs]; exact blank_last w0 items hw0 hitems), hs]

end Mkdb.Console
