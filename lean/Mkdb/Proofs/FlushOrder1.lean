import Mkdb.Proofs.PageCache
/-!
C16, the flush as the code does it (`flushOrd`, Model/PageCache.lean): `flushPagesLocked` moves every
page it writes to the front of the recency list, in the arbitrary order of a Go map iteration.  Here:
the resulting recency list is a permutation of the one the order-keeping `flush` leaves, with the same
entries; hence the invariant, the logical contents, the data file, residency and dirty bits are those of
`flush`, for every order; and histories with such flushes (`runF`) are the cache-less reference.
-/
namespace Mkdb.PageCache

variable {α : Type}

/-! ### permutations of a recency list with distinct keys -/

theorem keys_clean (l : List (Ent α)) : (l.map clean).map (·.key) = l.map (·.key) :=
  keys_map_of_key (g := clean) (fun _ => rfl) l

theorem clean_clean (e : Ent α) : clean (clean e) = clean e := rfl

theorem clean_of_clean {e : Ent α} (h : e.dirty = false) : clean e = e := by
  cases e
  simp only [clean] at *
  simp [h]

theorem remove_eq_self {l : List (Ent α)} {k : Nat} (h : ∀ e ∈ l, e.key ≠ k) : remove l k = l := by
  unfold remove
  apply List.filter_eq_self.mpr
  intro e he
  simpa using h e he

/-- the entry found under `k` and the rest: the list, up to order -/
theorem perm_cons_remove {l : List (Ent α)} (hnd : (l.map (·.key)).Nodup) {k : Nat} {e : Ent α}
    (h : find? l k = some e) : l.Perm (e :: remove l k) := by
  induction l with
  | nil => simp [find?] at h
  | cons x t ih =>
    simp only [List.map_cons, List.nodup_cons, List.mem_map, not_exists, not_and] at hnd
    rw [find?_cons] at h
    by_cases hx : x.key = k
    · simp only [hx, ↓reduceIte, Option.some.injEq] at h
      subst h
      have ht : remove t k = t := remove_eq_self (fun y hy hyk => hnd.1 y hy (hyk.trans hx.symm))
      have : remove (x :: t) k = t := by
        have hb : (!(x.key == k)) = false := by simp [hx]
        simp only [remove, List.filter_cons, hb, Bool.false_eq_true, ↓reduceIte]
        exact ht
      rw [this]
    · simp only [hx, ↓reduceIte] at h
      have hb : (!(x.key == k)) = true := by simp [hx]
      have : remove (x :: t) k = x :: remove t k := by
        simp only [remove, List.filter_cons, hb, ↓reduceIte]
      rw [this]
      exact ((ih hnd.2 h).cons x).trans (List.Perm.swap e x _)

theorem find?_perm {l1 l2 : List (Ent α)} (hp : l1.Perm l2) (hnd : (l1.map (·.key)).Nodup) (k : Nat) :
    find? l1 k = find? l2 k := by
  have hnd2 : (l2.map (·.key)).Nodup := (hp.map _).nodup_iff.mp hnd
  cases h : find? l1 k with
  | some e =>
    obtain ⟨hm, hk⟩ := find?_some h
    have := find?_of_mem hnd2 (hp.subset hm)
    rw [hk] at this
    exact this.symm
  | none =>
    exact (find?_none_of fun e he => find?_none h e (hp.symm.subset he)).symm

/-- a state that differs only in the order of the recency list: same invariant, same contents -/
theorem inv_of_perm {s s' : St α} (h : Inv s) (hp : s'.items.Perm s.items) (hd : s'.disk = s.disk)
    (hc : s'.cap = s.cap) : Inv s' ∧ ∀ k, view s' k = view s k := by
  obtain ⟨hnd, hlen, hcl⟩ := h
  have hnd' : (s'.items.map (·.key)).Nodup := (hp.map _).nodup_iff.mpr hnd
  refine ⟨⟨hnd', ?_, ?_⟩, ?_⟩
  · rw [hc, hp.length_eq]; exact hlen
  · intro e he
    rw [hd]
    exact hcl e (hp.subset he)
  · intro k
    unfold view
    rw [find?_perm hp hnd' k, hd]

/-! ### one turn of the loop, the loop -/

theorem visit_of_clean {l : List (Ent α)} (h : ∀ e ∈ l, e.dirty = false) (k : Nat) : visit l k = l := by
  unfold visit
  cases hf : find? l k with
  | none => rfl
  | some e =>
    have := h e (find?_some hf).1
    simp [this]

/-- a turn permutes the list and cleans at most one entry -/
theorem visit_perm {l : List (Ent α)} (hnd : (l.map (·.key)).Nodup) (k : Nat) :
    ((visit l k).map clean).Perm (l.map clean) := by
  unfold visit
  cases hf : find? l k with
  | none => exact List.Perm.refl _
  | some e =>
    cases hd : e.dirty with
    | false => simp [hd]
    | true =>
      simp only [hd, ↓reduceIte, List.map_cons, clean_clean]
      exact ((perm_cons_remove hnd hf).map clean).symm

theorem nodup_of_clean_perm {l0 v : List (Ent α)} (hnd : (l0.map (·.key)).Nodup)
    (hp : (v.map clean).Perm (l0.map clean)) : (v.map (·.key)).Nodup := by
  have := (hp.map (·.key)).nodup_iff.mpr (by rw [keys_clean]; exact hnd)
  rwa [keys_clean] at this

theorem foldl_visit_perm {l0 : List (Ent α)} (hnd : (l0.map (·.key)).Nodup) (order : List Nat)
    (v : List (Ent α)) (hp : (v.map clean).Perm (l0.map clean)) :
    ((order.foldl visit v).map clean).Perm (l0.map clean) := by
  induction order generalizing v with
  | nil => exact hp
  | cons k rest ih =>
    simp only [List.foldl_cons]
    exact ih _ ((visit_perm (nodup_of_clean_perm hnd hp) k).trans hp)

theorem foldl_visit_of_clean {l : List (Ent α)} (h : ∀ e ∈ l, e.dirty = false) (order : List Nat) :
    order.foldl visit l = l := by
  induction order with
  | nil => rfl
  | cons k rest ih => simp only [List.foldl_cons, visit_of_clean h k, ih]

theorem map_clean_filter_clean (v : List (Ent α)) :
    (v.filter fun e => !e.dirty).map clean = v.filter fun e => !e.dirty := by
  conv => rhs; rw [← List.map_id (v.filter fun e => !e.dirty)]
  apply List.map_congr_left
  intro e he
  have := (List.mem_filter.mp he).2
  exact clean_of_clean (by simpa using this)

theorem flushOrd_items (s : St α) (order : List Nat) :
    (flushOrd s order).items =
      ((order.foldl visit s.items).filter fun e => e.dirty).map clean ++
        (order.foldl visit s.items).filter fun e => !e.dirty := rfl

theorem flush_items (s : St α) : (flush s).items = s.items.map clean := rfl

/-- the recency list after the flush of the code: that of the order-keeping flush, permuted -/
theorem flushOrd_items_perm (s : St α) (hnd : (s.items.map (·.key)).Nodup) (order : List Nat) :
    (flushOrd s order).items.Perm (flush s).items := by
  rw [flushOrd_items, flush_items, ← map_clean_filter_clean, ← List.map_append]
  exact ((List.filter_append_perm _ _).map clean).trans
    (foldl_visit_perm hnd order s.items (List.Perm.refl _))

theorem flushOrd_disk (s : St α) (order : List Nat) : (flushOrd s order).disk = (flush s).disk := rfl

theorem flushOrd_cap (s : St α) (order : List Nat) : (flushOrd s order).cap = s.cap := rfl

theorem flushOrd_inv (s : St α) (h : Inv s) (order : List Nat) : Inv (flushOrd s order) :=
  (inv_of_perm (flush_inv s h) (flushOrd_items_perm s h.1 order) rfl rfl).1

theorem flushOrd_view (s : St α) (h : Inv s) (order : List Nat) (k : Nat) :
    view (flushOrd s order) k = view s k :=
  ((inv_of_perm (flush_inv s h) (flushOrd_items_perm s h.1 order) rfl rfl).2 k).trans (flush_view s k)

/-- under every key the same entry as after the order-keeping flush: residency, content, dirty bit -/
theorem flushOrd_find? (s : St α) (hnd : (s.items.map (·.key)).Nodup) (order : List Nat) (k : Nat) :
    find? (flushOrd s order).items k = find? (flush s).items k := by
  have hp := flushOrd_items_perm s hnd order
  apply find?_perm hp
  apply (hp.map _).nodup_iff.mpr
  rw [flush_items, keys_clean]
  exact hnd

theorem flushOrd_all_clean (s : St α) (hnd : (s.items.map (·.key)).Nodup) (order : List Nat) :
    ∀ e ∈ (flushOrd s order).items, e.dirty = false := by
  intro e he
  have := (flushOrd_items_perm s hnd order).subset he
  rw [flush_items] at this
  obtain ⟨x, _, rfl⟩ := List.mem_map.mp this
  rfl

theorem flushOrd_keys_perm (s : St α) (hnd : (s.items.map (·.key)).Nodup) (order : List Nat) :
    ((flushOrd s order).items.map (·.key)).Perm (s.items.map (·.key)) := by
  have := (flushOrd_items_perm s hnd order).map (·.key)
  rwa [flush_items, keys_clean] at this

/-- nothing dirty: the loop skips every page and the flush of the code is the order-keeping one -/
theorem flushOrd_of_clean (s : St α) (h : ∀ e ∈ s.items, e.dirty = false) (order : List Nat) :
    flushOrd s order = flush s := by
  have h1 : (s.items.filter fun e => e.dirty) = [] := by
    apply List.filter_eq_nil_iff.mpr
    intro e he
    simp [h e he]
  have h2 : (s.items.filter fun e => !e.dirty) = s.items := by
    apply List.filter_eq_self.mpr
    intro e he
    simp [h e he]
  have h3 : s.items.map clean = s.items := by
    conv => rhs; rw [← List.map_id s.items]
    exact List.map_congr_left fun e he => clean_of_clean (h e he)
  have hi : (flushOrd s order).items = (flush s).items := by
    rw [flushOrd_items, foldl_visit_of_clean h, h1, h2, flush_items, h3]
    rfl
  show ({ s with disk := (flush s).disk, items := (flushOrd s order).items } : St α) = flush s
  rw [hi]
  rfl

/-- after the flush of the code the data file holds the logical contents -/
theorem flushOrd_disk_view (s : St α) (h : Inv s) (order : List Nat) (k : Nat) :
    (flushOrd s order).disk k = view s k := flush_disk s h k

/-! ### histories with the flush of the code -/

theorem refStep_flush (m : Nat → α) : refStep m (.flush : Op α) = (m, none) := rfl

theorem stepF_sim (s : St α) (op : OpF α) (h : Inv s) (s' : St α) (o : Option α)
    (hs : stepF s op = some (s', o)) :
    Inv s' ∧ o = (refStep (view s) op.toOp).2 ∧ view s' = (refStep (view s) op.toOp).1 := by
  cases op with
  | fetch k => exact step_sim s (.fetch k) h s' o hs
  | write k f => exact step_sim s (.write k f) h s' o hs
  | flushOrd order =>
    simp only [stepF, Option.some.injEq, Prod.mk.injEq] at hs
    obtain ⟨rfl, rfl⟩ := hs
    exact ⟨flushOrd_inv s h order, rfl, funext (flushOrd_view s h order)⟩

theorem runF_sim (s : St α) (ops : List (OpF α)) (h : Inv s) (s' : St α) (outs : List (Option α))
    (hr : runF s ops = some (s', outs)) :
    Inv s' ∧ outs = (refRun (view s) (ops.map OpF.toOp)).2 ∧
      ∀ k, view s' k = (refRun (view s) (ops.map OpF.toOp)).1 k := by
  induction ops generalizing s outs with
  | nil =>
    simp only [runF, Option.some.injEq, Prod.mk.injEq] at hr
    obtain ⟨rfl, rfl⟩ := hr
    exact ⟨h, rfl, fun _ => rfl⟩
  | cons op rest ih =>
    simp only [runF] at hr
    cases hs : stepF s op with
    | none => simp [hs] at hr
    | some r =>
      obtain ⟨s1, o⟩ := r
      simp only [hs] at hr
      cases hr1 : runF s1 rest with
      | none => simp [hr1] at hr
      | some r' =>
        obtain ⟨s2, os⟩ := r'
        simp only [hr1, Option.some.injEq, Prod.mk.injEq] at hr
        obtain ⟨rfl, rfl⟩ := hr
        obtain ⟨hinv1, ho, hv1⟩ := stepF_sim s op h s1 o hs
        obtain ⟨hinv2, hos, hv2⟩ := ih s1 hinv1 os hr1
        rw [hv1] at hos hv2
        refine ⟨hinv2, ?_, ?_⟩
        · simp only [List.map_cons, refRun, ho, hos]
        · intro k
          simp only [List.map_cons, refRun, hv2 k]

/-- two caches of any two capacities, the flushes of each taking their own orders: indistinguishable -/
theorem capF_independent (s1 s2 : St α) (ops1 ops2 : List (OpF α)) (hops : ops1.map OpF.toOp = ops2.map OpF.toOp)
    (h1 : Inv s1) (h2 : Inv s2) (hv : ∀ k, view s1 k = view s2 k) (s1' s2' : St α) (o1 o2 : List (Option α))
    (r1 : runF s1 ops1 = some (s1', o1)) (r2 : runF s2 ops2 = some (s2', o2)) :
    o1 = o2 ∧ ∀ k, view s1' k = view s2' k := by
  obtain ⟨_, ho1, hv1⟩ := runF_sim s1 ops1 h1 s1' o1 r1
  obtain ⟨_, ho2, hv2⟩ := runF_sim s2 ops2 h2 s2' o2 r2
  have : view s1 = view s2 := funext hv
  rw [this, hops] at ho1 hv1
  exact ⟨ho1.trans ho2.symm, fun k => (hv1 k).trans (hv2 k).symm⟩

/-- a history refuses only at a fetch or a write, and there exactly as `fetch` does -/
theorem stepF_none_iff (s : St α) (op : OpF α) :
    stepF s op = none ↔ ∃ k, (op = .fetch k ∨ ∃ f, op = .write k f) ∧
      find? s.items k = none ∧ s.items.length = s.cap ∧ ∀ e ∈ s.items, e.dirty = true := by
  cases op with
  | fetch k =>
    simp only [stepF, Option.map_eq_none_iff, fetch_none_iff]
    constructor
    · intro h; exact ⟨k, .inl rfl, h⟩
    · rintro ⟨k', h | ⟨f, h⟩, hc⟩
      · cases h; exact hc
      · cases h
  | write k f =>
    simp only [stepF, Option.map_eq_none_iff, write_none_iff]
    constructor
    · intro h; exact ⟨k, .inr ⟨f, rfl⟩, h⟩
    · rintro ⟨k', h | ⟨f', h⟩, hc⟩
      · cases h
      · cases h; exact hc
  | flushOrd order =>
    simp only [stepF, reduceCtorEq, false_iff]
    rintro ⟨k, h | ⟨f, h⟩, _⟩ <;> cases h

/-! ### non-vacuity: two orders, two victims, one content -/

namespace ExampleF

/-- capacity 2, pages 1 and 2 resident and dirty (11 and 21 over the file's 10 and 20) -/
def d0 : St Nat := { cap := 2, items := [⟨1, 11, true⟩, ⟨2, 21, true⟩], disk := fun k => 10 * k }

theorem d0_inv : Inv d0 := by
  refine ⟨by decide, by decide, ?_⟩
  intro e he
  simp only [d0, List.mem_cons, List.not_mem_nil, or_false] at he
  rcases he with rfl | rfl <;> intro h <;> cases h

def ents (s : St Nat) : List (Nat × Nat × Bool) := s.items.map fun e => (e.key, e.val, e.dirty)

/-- the same history with the two iteration orders of the flush -/
def wA : List (OpF Nat) := [.flushOrd [1, 2], .fetch 3, .fetch 1, .fetch 2]
def wB : List (OpF Nat) := [.flushOrd [2, 1], .fetch 3, .fetch 1, .fetch 2]

/-- the page visited last is in front -/
theorem orders_differ : ents (flushOrd d0 [1, 2]) = [(2, 21, false), (1, 11, false)] ∧
    ents (flushOrd d0 [2, 1]) = [(1, 11, false), (2, 21, false)] ∧
    ents (flush d0) = [(1, 11, false), (2, 21, false)] := by decide

/-- the next miss evicts page 1 after the one order and page 2 after the other -/
theorem victims_differ :
    ((fetch (flushOrd d0 [1, 2]) 3).map fun r => (ents r.1, r.2)) = some ([(3, 30, false), (2, 21, false)], 30) ∧
    ((fetch (flushOrd d0 [2, 1]) 3).map fun r => (ents r.1, r.2)) = some ([(3, 30, false), (1, 11, false)], 30) ∧
    (LRU.victim (proj (flushOrd d0 [1, 2]).items)).map (·.key) = some 1 ∧
    (LRU.victim (proj (flushOrd d0 [2, 1]).items)).map (·.key) = some 2 := by decide

def obsF (r : Option (St Nat × List (Option Nat))) : Option (List (Nat × Nat × Bool) × List (Option Nat)) :=
  r.map fun (s, o) => (ents s, o)

/-- both histories run with the same outputs (page 1 is a miss in the one and a hit in the other); after
the first two operations the resident sets differ -/
theorem runs :
    obsF (runF d0 wA) = some ([(2, 21, false), (1, 11, false)], [none, some 30, some 11, some 21]) ∧
    obsF (runF d0 wB) = some ([(2, 21, false), (1, 11, false)], [none, some 30, some 11, some 21]) ∧
    obsF (runF d0 (wA.take 2)) = some ([(3, 30, false), (2, 21, false)], [none, some 30]) ∧
    obsF (runF d0 (wB.take 2)) = some ([(3, 30, false), (1, 11, false)], [none, some 30]) :=
  ⟨by decide, by decide, by decide, by decide⟩

theorem same_ops : wA.map OpF.toOp = wB.map OpF.toOp := rfl

end ExampleF

end Mkdb.PageCache
