import Mkdb.Proofs.Roundtrip
/-!
Token-level round trip of the whole grammar (C10), part 1: the rendering `renderStmt`, the
well-formedness predicate `wfStmt` / `WFStmt`, and the standard literal tokens.

`renderStmt o s` writes the statement `s` as a token list; the options `o` choose every optional
spelling the grammar has.  The theorems of parts 2-5 say that `parseStmt` reads it back.
-/
namespace Mkdb.Sql
open Mkdb.Scan Mkdb.Generated

/-! ## Standard literal tokens -/

/-- the ASCII digit `d` (`d < 10`) -/
def digitByte (d : Nat) : UInt8 := UInt8.ofNat (48 + d)

/-- decimal digits of `n`, most significant first (`fuel` ≥ `n` is always enough) -/
def natDigitsF : Nat → Nat → Bytes
  | 0, n => [digitByte (n % 10)]
  | f+1, n => if n < 10 then [digitByte n] else natDigitsF f (n / 10) ++ [digitByte (n % 10)]

/-- decimal digits of `n` -/
def natDigits (n : Nat) : Bytes := natDigitsF n n

/-- The standard token of a literal: `INT` with the decimal digits (of a non-negative integer),
`STR` with the bytes, `TRUE` / `FALSE`. -/
def stdLitTok : Lit → Token
  | .int i => ⟨t_INT, natDigits i.toNat⟩
  | .str b => ⟨t_STR, b⟩
  | .bool true => ⟨t_TRUE, []⟩
  | .bool false => ⟨t_FALSE, []⟩

/-- the literals `stdLitTok` can write: every string and boolean, the non-negative int64 -/
def stdLit : Lit → Bool
  | .int i => decide (0 ≤ i) && decide (i ≤ 9223372036854775807)
  | _ => true

/-- `o.lit` writes the literal `l` so that `Token.Val` reads it back -/
def GoodLit (lit : Lit → Token) (l : Lit) : Prop :=
  literalTys.contains (lit l).ty = true ∧ tokenVal (lit l) = .ok l

/-! ## Rendering options -/

/-- Every optional spelling of the grammar.  The functions of a position choose per occurrence
(the i-th select item, join, sort key, GROUP BY column). -/
structure ROpts where
  /-- text carried by keyword and punctuation tokens (the parser never reads it: any case) -/
  kw : Int → Bytes := fun _ => []
  /-- the token of a literal -/
  lit : Lit → Token := stdLitTok
  /-- `AS` before the alias of the i-th select item -/
  asKw : Nat → Bool := fun _ => true
  /-- `INNER` before `JOIN` for the i-th join, when it is an inner join -/
  innerKw : Nat → Bool := fun _ => false
  /-- `ASC` behind the i-th sort key, when it is ascending -/
  ascKw : Nat → Bool := fun _ => false
  /-- a comma behind the i-th GROUP BY column (when another column follows) -/
  gbComma : Nat → Bool := fun _ => true
  /-- write `GROUP BY` with no column for an empty GROUP BY list -/
  emptyGroupBy : Bool := false
  /-- `LIMIT` before `OFFSET` (when both are present) -/
  limitFirst : Bool := true
  /-- write `()` for the empty column list of an INSERT -/
  emptyColParens : Bool := false
  /-- `SHOW <ident>` with this spelling of `databases` (used when it lower-cases to `databases`),
  otherwise `SHOW DATABASE` -/
  showIdent : Option Bytes := none

/-- a keyword / punctuation token -/
@[reducible] def K (o : ROpts) (x : Int) : Token := ⟨x, o.kw x⟩
/-- an identifier token -/
@[reducible] def I (b : Bytes) : Token := ⟨t_IDENT, b⟩

/-! ## Rendering -/

def tokCol (o : ROpts) (c : ColRef) : List Token :=
  if c.qual.isEmpty then [I c.name] else [I c.qual, K o t_DOT, I c.name]

def tokVE (o : ROpts) : VExpr → List Token
  | .lit l => [o.lit l]
  | .col c => tokCol o c

def tokPr (o : ROpts) (p : Pred) : List Token :=
  tokVE o p.lhs ++ K o p.op :: tokVE o p.rhs

def tokCond (o : ROpts) : Cond → List Token
  | .val v => tokVE o v
  | .pred p => tokPr o p
  | .and p r => tokPr o p ++ K o t_AND :: tokCond o r
  | .or l r => tokCond o l ++ K o t_OR :: tokCond o r

/-- `x1 , x2 , … , xn`; the position is passed to the element renderer -/
def tokSep {α} (tk : Nat → α → List Token) (comma : Token) : Nat → List α → List Token
  | _, [] => []
  | i, [x] => tk i x
  | i, x :: y :: r => tk i x ++ comma :: tokSep tk comma (i+1) (y :: r)

def tokItem (o : ROpts) : SelItem → List Token
  | .star => [K o t_ASTRSK]
  | .count none => [K o t_COUNT, K o t_LPAREN, K o t_ASTRSK, K o t_RPAREN]
  | .count (some c) => K o t_COUNT :: K o t_LPAREN :: (tokCol o c ++ [K o t_RPAREN])
  | .avg c => K o t_AVG :: K o t_LPAREN :: (tokCol o c ++ [K o t_RPAREN])
  | .expr c => tokCond o c

def tokAlias (o : ROpts) (i : Nat) (a : Bytes) : List Token :=
  if a.isEmpty then [] else if o.asKw i then [K o t_AS, I a] else [I a]

def tokDC (o : ROpts) (i : Nat) (d : DerivedCol) : List Token :=
  tokItem o d.item ++ tokAlias o i d.alias

def tokSelList (o : ROpts) (sl : List DerivedCol) : List Token :=
  if sl = [⟨.star, []⟩] then [K o t_ASTRSK] else tokSep (tokDC o) (K o t_COMMA) 0 sl

def tokTN (t : TableName) : List Token :=
  I t.name :: (match t.alias with | none => [] | some a => [I a])

abbrev JoinSpec := JoinType × TableName × Cond

def TableRef.base : TableRef → TableName
  | .table t => t
  | .join l _ _ _ => l.base

def TableRef.joins : TableRef → List JoinSpec
  | .table _ => []
  | .join l jt r on => l.joins ++ [(jt, r, on)]

def mkJoin (l : TableRef) (j : JoinSpec) : TableRef := .join l j.1 j.2.1 j.2.2

def tokJoinKw (o : ROpts) (i : Nat) : JoinType → List Token
  | .left => [K o t_LEFT, K o t_JOIN]
  | .right => [K o t_RIGHT, K o t_JOIN]
  | .inner => if o.innerKw i then [K o t_INNER, K o t_JOIN] else [K o t_JOIN]

def tokJoins (o : ROpts) : Nat → List JoinSpec → List Token
  | _, [] => []
  | i, j :: js => tokJoinKw o i j.1 ++ tokTN j.2.1 ++ K o t_ON :: tokCond o j.2.2 ++ tokJoins o (i+1) js

def tokFrom (o : ROpts) : Option TableRef → List Token
  | none => []
  | some tr => K o t_FROM :: tokTN tr.base ++ tokJoins o 0 tr.joins

def tokWhere (o : ROpts) : Option Cond → List Token
  | none => []
  | some c => K o t_WHERE :: tokCond o c

/-- GROUP BY columns, each followed by a comma or not as `o.gbComma` says -/
def tokGBCols (o : ROpts) : Nat → List ColRef → List Token
  | _, [] => []
  | _, [c] => tokCol o c
  | i, c :: d :: r => tokCol o c ++ (if o.gbComma i then [K o t_COMMA] else []) ++ tokGBCols o (i+1) (d :: r)

def tokGroupBy (o : ROpts) (gb : List ColRef) : List Token :=
  if gb.isEmpty then (if o.emptyGroupBy then [K o t_GROUP, K o t_BY] else [])
  else K o t_GROUP :: K o t_BY :: tokGBCols o 0 gb

def tokSort (o : ROpts) (i : Nat) (s : SortSpec) : List Token :=
  tokCol o s.key ++ (if s.desc then [K o t_DESC] else if o.ascKw i then [K o t_ASC] else [])

def tokOrderBy (o : ROpts) (ob : List SortSpec) : List Token :=
  if ob.isEmpty then [] else K o t_ORDER :: K o t_BY :: tokSep (tokSort o) (K o t_COMMA) 0 ob

def tokLimit (o : ROpts) (l : LimitOffset) : List Token :=
  let lim := if l.limitActive then [K o t_LIMIT, o.lit (.int l.limit)] else []
  let off := if l.offsetActive then [K o t_OFFSET, o.lit (.int l.offset)] else []
  if o.limitFirst then lim ++ off else off ++ lim

/-- a SELECT without FROM is its select list and nothing else -/
def tokSelect (o : ROpts) (s : Select) : List Token :=
  match s.from_ with
  | none => tokSelList o s.list
  | some tr => tokSelList o s.list ++ (tokFrom o (some tr) ++ (tokWhere o s.where_ ++ (tokGroupBy o s.groupBy ++
      (tokOrderBy o s.orderBy ++ tokLimit o s.lim))))

def tokColType (o : ROpts) : ColType → List Token
  | .int => [K o t_T_INT]
  | .bigint => [K o t_T_BIGINT]
  | .varchar n => [K o t_T_VARCHAR, K o t_LPAREN, o.lit (.int n), K o t_RPAREN]
  | .boolean => [K o t_T_BOOL]

/-- a comma separated list whose elements start with a guard token (`guardedLoop`) -/
def tokColDef (o : ROpts) (_ : Nat) (c : ColDef) : List Token := I c.name :: tokColType o c.ty

def tokInsCol (_ : Nat) (c : Bytes) : List Token := [I c]

def tokLitItem (o : ROpts) (_ : Nat) (l : Lit) : List Token := [o.lit l]

def tokRow (o : ROpts) (_ : Nat) (r : List Lit) : List Token :=
  K o t_LPAREN :: (tokSep (tokLitItem o) (K o t_COMMA) 0 r ++ [K o t_RPAREN])

def tokSet (o : ROpts) (_ : Nat) (a : Bytes × VExpr) : List Token :=
  I a.1 :: K o t_EQ :: tokVE o a.2

def tokInsCols (o : ROpts) (cols : List Bytes) : List Token :=
  if cols.isEmpty then (if o.emptyColParens then [K o t_LPAREN, K o t_RPAREN] else [])
  else K o t_LPAREN :: (tokSep tokInsCol (K o t_COMMA) 0 cols ++ [K o t_RPAREN])

def databasesBytes : Bytes := [100, 97, 116, 97, 98, 97, 115, 101, 115]

def tokShow (o : ROpts) : List Token :=
  match o.showIdent with
  | some b => if asciiLower b = databasesBytes then [I b] else [K o t_DATABASE]
  | none => [K o t_DATABASE]

/-- **The rendering**: the statement as a token list, optional spellings chosen by `o`. -/
def renderStmt (o : ROpts) : Stmt → List Token
  | .createDatabase n => [K o t_CREATE, K o t_DATABASE, I n]
  | .createTable n cols =>
    K o t_CREATE :: K o t_TABLE :: ((if n.isEmpty then [] else [I n]) ++
      K o t_LPAREN :: (tokSep (tokColDef o) (K o t_COMMA) 0 cols ++ [K o t_RPAREN]))
  | .select s => K o t_SELECT :: tokSelect o s
  | .insert t cols rows =>
    K o t_INSERT :: K o t_INTO :: I t :: (tokInsCols o cols ++
      K o t_VALUES :: tokSep (tokRow o) (K o t_COMMA) 0 rows)
  | .update t sets w =>
    K o t_UPDATE :: I t :: K o t_SET :: (tokSep (tokSet o) (K o t_COMMA) 0 sets ++ tokWhere o w)
  | .delete t w => K o t_DELETE :: K o t_FROM :: I t :: tokWhere o w
  | .use db => [K o t_USE, I db]
  | .showDatabases => K o t_SHOW :: tokShow o

/-! ## Well-formedness: the statements the grammar can express -/

def wfV (ok : Lit → Bool) : VExpr → Bool
  | .lit l => ok l
  | .col _ => true

def wfPred (ok : Lit → Bool) (p : Pred) : Bool :=
  compOps.contains p.op && wfV ok p.lhs && wfV ok p.rhs

/-- what `AndCondition` can return: `p1 AND p2 AND … AND last`, `last` a comparison or a bare value -/
def wfAnd (ok : Lit → Bool) : Cond → Bool
  | .val v => wfV ok v
  | .pred p => wfPred ok p
  | .and p r => wfPred ok p && wfAnd ok r
  | .or _ _ => false

/-- what `OrCondition` can return: AND-terms joined by OR, nested to the right -/
def wfCond (ok : Lit → Bool) : Cond → Bool
  | .val v => wfV ok v
  | .pred p => wfPred ok p
  | .and p r => wfPred ok p && wfAnd ok r
  | .or l r => wfAnd ok l && wfCond ok r

def wfItem (ok : Lit → Bool) : SelItem → Bool
  | .star => false
  | .count _ => true
  | .avg _ => true
  | .expr c => wfCond ok c

/-- `*` alone, or a non-empty list of set functions and conditions -/
def wfSelList (ok : Lit → Bool) (sl : List DerivedCol) : Bool :=
  decide (sl = [⟨.star, []⟩]) || (!sl.isEmpty && sl.all fun d => wfItem ok d.item)

def wfOptCond (ok : Lit → Bool) : Option Cond → Bool
  | none => true
  | some c => wfCond ok c

/-- a written bound is not negative (the parser refuses a negative one); an absent one is 0 -/
def wfLimit (ok : Lit → Bool) (l : LimitOffset) : Bool :=
  (if l.limitActive then decide (0 ≤ l.limit) && ok (.int l.limit) else decide (l.limit = 0)) &&
  (if l.offsetActive then decide (0 ≤ l.offset) && ok (.int l.offset) else decide (l.offset = 0))

def groupByValid (sl : List DerivedCol) (gb : List ColRef) : Bool :=
  match validateGroupBy sl gb with
  | .ok _ => true
  | .error _ => false

def wfSelect (ok : Lit → Bool) (s : Select) : Bool :=
  wfSelList ok s.list && groupByValid s.list s.groupBy && wfLimit ok s.lim &&
  match s.from_ with
  | none => s.where_.isNone && s.groupBy.isEmpty && s.orderBy.isEmpty &&
      !s.lim.limitActive && !s.lim.offsetActive
  | some tr => (tr.joins.all fun j => wfCond ok j.2.2) && wfOptCond ok s.where_

def wfColType (ok : Lit → Bool) : ColType → Bool
  | .varchar n => ok (.int n)
  | _ => true

/-- Well-formed statements, relative to the set `ok` of literals that can be written. -/
def wfStmt (ok : Lit → Bool) : Stmt → Bool
  | .createDatabase _ => true
  | .createTable _ cols => cols.all fun c => wfColType ok c.ty
  | .select s => wfSelect ok s
  | .insert _ _ rows => rows.all fun r => r.all ok
  | .update _ sets w => (sets.all fun a => wfV ok a.2) && wfOptCond ok w
  | .delete _ w => wfOptCond ok w
  | .use _ => true
  | .showDatabases => true

/-- **Well-formed statement**: what the grammar can express with the standard literal tokens. -/
def WFStmt (s : Stmt) : Prop := wfStmt stdLit s = true

instance (s : Stmt) : Decidable (WFStmt s) := by unfold WFStmt; infer_instance

/-- a SELECT without FROM must end the token list, up to one token (`p.HasNext()`) -/
def needsShortTail : Stmt → Bool
  | .select s => s.from_.isNone
  | _ => false

end Mkdb.Sql
