import Mkdb.Spec.Unchanged
/-!
C14 ("a refused statement changes nothing"), part 1: the read-only framework.

* `SameData` is reflexive and transitive.
* `ReadOnly m`: started in a well-filed store, `m` ends (normally or with an error) in a well-filed
  store with the same data.  `fetch` is read-only (the crux: caching a clean copy of the disk image
  under the offset the page carries changes neither `pageAt` nor `dirtyAt` anywhere), and so is
  everything built from `fetch`, `getS`, `pure`, `throw`, `decodeRow`, `encodeRow` by `bind`,
  `if`, `match` and the fuel recursions of the model.
* `ErrIn P m`: every error `m` can return satisfies `P`   (`NoErr m := ErrIn (fun _ => False) m`).
* `ErrRO m`: every *error* outcome of `m` is read-only (success may change anything).
-/
set_option autoImplicit false
namespace Mkdb.Store
open Mkdb.Page Mkdb.Tuple Mkdb.Generated

/-! ### association lists -/

theorem assocGet_none {β} {l : List (Nat × β)} {k : Nat} (h : assocGet l k = none) :
    ∀ p ∈ l, p.1 ≠ k := by
  unfold assocGet at h
  rw [Option.map_eq_none_iff] at h
  intro p hp
  simpa using List.find?_eq_none.mp h p hp

theorem assocGet_some {β} {l : List (Nat × β)} {k : Nat} {v : β} (h : assocGet l k = some v) :
    (k, v) ∈ l := by
  unfold assocGet at h
  rw [Option.map_eq_some_iff] at h
  obtain ⟨p, hp, rfl⟩ := h
  have h1 := List.mem_of_find?_eq_some hp
  have h2 : p.1 = k := by simpa using List.find?_some hp
  rw [← h2]; exact h1

theorem any_false_of_assocGet_none {β} {l : List (Nat × β)} {k : Nat} (h : assocGet l k = none) :
    l.any (fun p => p.1 == k) = false := by
  rw [List.any_eq_false]
  intro p hp
  simpa using assocGet_none h p hp

theorem assocSet_of_none {β} {l : List (Nat × β)} {k : Nat} (v : β) (h : assocGet l k = none) :
    assocSet l k v = l ++ [(k, v)] := by
  unfold assocSet
  rw [any_false_of_assocGet_none h]; rfl

theorem assocGet_append_single {β} (l : List (Nat × β)) (k k' : Nat) (v : β) :
    assocGet (l ++ [(k, v)]) k' =
      match assocGet l k' with
      | some x => some x
      | none => if k = k' then some v else none := by
  unfold assocGet
  rw [List.find?_append]
  cases h : List.find? (fun p => p.1 == k') l with
  | some x => simp
  | none =>
    by_cases hk : k = k'
    · simp [hk]
    · simp [hk]

/-- overwriting every entry filed under `k` by the value it already has changes nothing -/
theorem assocSet_same {β} {l : List (Nat × β)} {k : Nat} {v : β}
    (hany : l.any (fun p => p.1 == k) = true) (h : ∀ p ∈ l, p.1 = k → p.2 = v) :
    assocSet l k v = l := by
  unfold assocSet
  rw [hany]
  simp only [if_true]
  conv => rhs; rw [← List.map_id l]
  apply List.map_congr_left
  intro p hp
  by_cases hk : p.1 = k
  · have := h p hp hk
    simp only [hk, beq_self_eq_true, if_true, id]
    rw [← hk, ← this]
  · have : (p.1 == k) = false := by simpa using hk
    simp [this]

/-! ### `SameData` is an equivalence-like relation (reflexive, transitive) -/

theorem SameData.refl (s : Store) : SameData s s :=
  ⟨fun _ => rfl, fun _ => rfl, rfl, rfl, rfl, rfl⟩

theorem SameData.trans {s1 s2 s3 : Store} (h12 : SameData s1 s2) (h23 : SameData s2 s3) :
    SameData s1 s3 :=
  ⟨fun off => (h23.page off).trans (h12.page off),
   fun off => (h23.dirty off).trans (h12.dirty off),
   h23.disk.trans h12.disk, h23.dhdr.trans h12.dhdr,
   h23.ptRoot.trans h12.ptRoot, h23.next.trans h12.next⟩

/-- the key / LSN counters and the ghost counter are not data -/
theorem SameData.counters (s : Store) (lk lsn g : Nat) :
    SameData s { s with hdr := { s.hdr with lastKey := lk, nextLSN := lsn }, ghost := g } :=
  ⟨fun _ => rfl, fun _ => rfl, rfl, rfl, rfl, rfl⟩

theorem Filed.counters {s : Store} (h : Filed s) (lk lsn g : Nat) :
    Filed { s with hdr := { s.hdr with lastKey := lk, nextLSN := lsn }, ghost := g } := h

/-! ### the monad, pointwise -/

theorem bind_def {α β} (m : SM α) (f : α → SM β) (s : Store) :
    (m >>= f) s = match m s with
      | .ok a s' => f a s'
      | .err e s' => .err e s'
      | .panic p => .panic p
      | .unmodelled w => .unmodelled w
      | .fuel => .fuel := rfl

theorem bind_ok {α β} {m : SM α} {f : α → SM β} {s s' : Store} {a : α} (h : m s = .ok a s') :
    (m >>= f) s = f a s' := by rw [bind_def, h]

theorem bind_err {α β} {m : SM α} {f : α → SM β} {s s' : Store} {e : SErr} (h : m s = .err e s') :
    (m >>= f) s = .err e s' := by rw [bind_def, h]

/-- an error of `m >>= f` is an error of `m`, or `m` succeeded and it is an error of `f a` -/
theorem bind_eq_err {α β} {m : SM α} {f : α → SM β} {s s' : Store} {e : SErr}
    (h : (m >>= f) s = .err e s') :
    m s = .err e s' ∨ ∃ a s1, m s = .ok a s1 ∧ f a s1 = .err e s' := by
  rw [bind_def] at h
  cases hm : m s with
  | ok a s1 => rw [hm] at h; exact .inr ⟨a, s1, rfl, h⟩
  | err e1 s1 => rw [hm] at h; simp only [SRes.err.injEq] at h; rw [h.1, h.2]; exact .inl rfl
  | panic p => rw [hm] at h; cases h
  | unmodelled w => rw [hm] at h; cases h
  | fuel => rw [hm] at h; cases h

theorem bind_eq_ok {α β} {m : SM α} {f : α → SM β} {s s' : Store} {b : β}
    (h : (m >>= f) s = .ok b s') : ∃ a s1, m s = .ok a s1 ∧ f a s1 = .ok b s' := by
  rw [bind_def] at h
  cases hm : m s with
  | ok a s1 => rw [hm] at h; exact ⟨a, s1, rfl, h⟩
  | err e1 s1 => rw [hm] at h; cases h
  | panic p => rw [hm] at h; cases h
  | unmodelled w => rw [hm] at h; cases h
  | fuel => rw [hm] at h; cases h

/-! ### `ReadOnly` -/

def ReadOnly {α} (m : SM α) : Prop :=
  ∀ s, Filed s →
    match m s with
    | .ok _ s' => Filed s' ∧ SameData s s'
    | .err _ s' => Filed s' ∧ SameData s s'
    | _ => True

theorem ReadOnly.ok {α} {m : SM α} (h : ReadOnly m) {s s' : Store} {a : α} (hf : Filed s)
    (e : m s = .ok a s') : Filed s' ∧ SameData s s' := by
  have := h s hf; rw [e] at this; exact this

theorem ReadOnly.err {α} {m : SM α} (h : ReadOnly m) {s s' : Store} {e : SErr} (hf : Filed s)
    (he : m s = .err e s') : Filed s' ∧ SameData s s' := by
  have := h s hf; rw [he] at this; exact this

theorem ReadOnly.mk {α} {m : SM α}
    (hok : ∀ s a s', Filed s → m s = .ok a s' → Filed s' ∧ SameData s s')
    (herr : ∀ s e s', Filed s → m s = .err e s' → Filed s' ∧ SameData s s') : ReadOnly m := by
  intro s hf
  cases h : m s with
  | ok a s' => exact hok s a s' hf h
  | err e s' => exact herr s e s' hf h
  | panic p => trivial
  | unmodelled w => trivial
  | fuel => trivial

theorem ReadOnly.pure {α} (a : α) : ReadOnly (pure a : SM α) :=
  fun s hf => ⟨hf, SameData.refl s⟩

theorem ReadOnly.throw {α} (e : SErr) : ReadOnly (throw e : SM α) :=
  fun s hf => ⟨hf, SameData.refl s⟩

theorem ReadOnly.getS : ReadOnly getS :=
  fun s hf => ⟨hf, SameData.refl s⟩

theorem ReadOnly.panicS {α} (w : String) : ReadOnly (panicS w : SM α) := fun _ _ => trivial
theorem ReadOnly.unmodelledS {α} (w : String) : ReadOnly (unmodelledS w : SM α) := fun _ _ => trivial
theorem ReadOnly.outOfFuel {α} : ReadOnly (outOfFuel : SM α) := fun _ _ => trivial

theorem ReadOnly.bind {α β} {m : SM α} {f : α → SM β} (hm : ReadOnly m) (hf : ∀ a, ReadOnly (f a)) :
    ReadOnly (m >>= f) := by
  apply ReadOnly.mk
  · intro s b s' hs h
    obtain ⟨a, s1, h1, h2⟩ := bind_eq_ok h
    obtain ⟨f1, d1⟩ := hm.ok hs h1
    obtain ⟨f2, d2⟩ := (hf a).ok f1 h2
    exact ⟨f2, d1.trans d2⟩
  · intro s e s' hs h
    rcases bind_eq_err h with h1 | ⟨a, s1, h1, h2⟩
    · exact hm.err hs h1
    · obtain ⟨f1, d1⟩ := hm.ok hs h1
      obtain ⟨f2, d2⟩ := (hf a).err f1 h2
      exact ⟨f2, d1.trans d2⟩

/-! ### `fetch` is read-only -/

/-- Caching a clean copy of the page the engine already sees at `k`, under `k`
(whether or not something is cached there already): no page, no dirty bit changes; the store stays well filed. -/
theorem cacheClean (s : Store) (k : Nat) (n : Node) (hf : Filed s)
    (hpage : pageAt s k = n) (hoff : nodeOff n = k)
    (h0 : k = 0 → n = zeroPage) :
    Filed { s with mem := s.mem ++ [(k, ⟨n, false⟩)] } ∧
    SameData s { s with mem := s.mem ++ [(k, ⟨n, false⟩)] } := by
  refine ⟨⟨hf.1, ?_⟩, ⟨?_, ?_, rfl, rfl, rfl, rfl⟩⟩
  · intro p hp
    rcases List.mem_append.mp hp with hp | hp
    · exact hf.2 p hp
    · simp only [List.mem_singleton] at hp
      subst hp
      exact ⟨hoff, fun hk => by rw [h0 hk]⟩
  · intro off
    show (match assocGet (s.mem ++ [(k, (⟨n, false⟩ : MNode))]) off with
          | some m => m.node
          | none => (assocGet s.disk off).getD zeroPage) = pageAt s off
    rw [assocGet_append_single]
    cases hm : assocGet s.mem off with
    | some x => simp only [pageAt, hm]
    | none =>
      by_cases hk : k = off
      · subst hk; simp only [if_true]; exact hpage.symm
      · simp only [hk, if_false, pageAt, hm]
  · intro off
    show (match assocGet (s.mem ++ [(k, (⟨n, false⟩ : MNode))]) off with
          | some m => m.dirty
          | none => false) = dirtyAt s off
    rw [assocGet_append_single]
    cases hm : assocGet s.mem off with
    | some x => simp only [dirtyAt, hm]
    | none =>
      by_cases hk : k = off
      · subst hk; simp only [if_true, dirtyAt, hm]
      · simp only [hk, if_false, dirtyAt, hm]

theorem fetch_ok_or (off : Nat) (s : Store) : ∃ n s', fetch off s = .ok n s' := by
  unfold fetch
  cases assocGet s.mem off with
  | some m => exact ⟨_, _, rfl⟩
  | none => exact ⟨_, _, rfl⟩

theorem ReadOnly.fetch (off : Nat) : ReadOnly (fetch off) := by
  intro s hf
  unfold Store.fetch
  cases hm : assocGet s.mem off with
  | some m => exact ⟨hf, SameData.refl s⟩
  | none =>
    simp only
    cases hd : assocGet s.disk off with
    | some n =>
      -- the page is on disk: by `Filed` it carries `off`, and `off ≠ 0`
      have hmem := assocGet_some hd
      obtain ⟨hoff, hne⟩ := hf.1 _ hmem
      simp only at hoff hne
      simp only [Option.getD_some]
      rw [hoff, assocSet_of_none _ hm]
      exact cacheClean s off n hf (by simp only [pageAt, hm, hd, Option.getD_some]) hoff
        (fun h => absurd h hne)
    | none =>
      -- no such page: the zero page, filed under the offset it carries, 0
      simp only [Option.getD_none]
      have hz : nodeOff zeroPage = 0 := rfl
      rw [hz]
      cases h0 : assocGet s.mem 0 with
      | some m0 =>
        have hany : s.mem.any (fun p => p.1 == 0) = true := by
          rw [List.any_eq_true]; exact ⟨_, assocGet_some h0, by simp⟩
        rw [assocSet_same hany (fun p hp hk => (hf.2 p hp).2 hk)]
        exact ⟨hf, SameData.refl s⟩
      | none =>
        rw [assocSet_of_none _ h0]
        have hd0 : assocGet s.disk 0 = none := by
          cases hd0 : assocGet s.disk 0 with
          | none => rfl
          | some x => exact absurd rfl (hf.1 _ (assocGet_some hd0)).2
        exact cacheClean s 0 zeroPage hf (by simp only [pageAt, h0, hd0, Option.getD_none]) rfl
          (fun _ => rfl)

/-! ### the row codec only reads -/

theorem ReadOnly.decodeRow (sch : List FieldDef) (bs : Bytes) : ReadOnly (decodeRow sch bs) := by
  apply ReadOnly.mk <;> intro s x s' hf h <;> unfold Store.decodeRow at h <;> split at h <;>
    cases h <;> exact ⟨hf, SameData.refl _⟩

theorem ReadOnly.encodeRow (sch : List FieldDef) (m : Vals) : ReadOnly (encodeRow sch m) := by
  apply ReadOnly.mk <;> intro s x s' hf h <;> unfold Store.encodeRow at h <;> split at h <;>
    cases h <;> exact ⟨hf, SameData.refl _⟩

/-! ### control structure -/

theorem ReadOnly.ite {α} {c : Prop} [Decidable c] {a b : SM α} (ha : ReadOnly a) (hb : ReadOnly b) :
    ReadOnly (if c then a else b) := by
  split <;> assumption

/-- one structural step of a read-only proof -/
macro "ro_step" : tactic =>
  `(tactic| first
    | exact ReadOnly.pure _
    | exact ReadOnly.throw _
    | exact ReadOnly.getS
    | exact ReadOnly.fetch _
    | exact ReadOnly.decodeRow _ _
    | exact ReadOnly.encodeRow _ _
    | exact ReadOnly.panicS _
    | exact ReadOnly.unmodelledS _
    | exact ReadOnly.outOfFuel
    | assumption
    | refine ReadOnly.bind ?_ (fun _ => ?_)
    | split)

/-! ### the traversals only read -/

theorem ReadOnly.leftmostLeaf (fuel off : Nat) : ReadOnly (leftmostLeaf fuel off) := by
  induction fuel generalizing off with
  | zero => exact ReadOnly.outOfFuel
  | succ fuel ih =>
    unfold Store.leftmostLeaf
    apply ReadOnly.bind (ReadOnly.fetch _)
    intro pg
    split
    · exact ReadOnly.pure _
    · split
      · exact ih _
      · exact ReadOnly.panicS _

theorem ReadOnly.scanLeaves (fuel : Nat) (l : Leaf) : ReadOnly (scanLeaves fuel l) := by
  induction fuel generalizing l with
  | zero => exact ReadOnly.outOfFuel
  | succ fuel ih =>
    unfold Store.scanLeaves
    simp only
    split
    · apply ReadOnly.bind (ReadOnly.fetch _)
      intro nxt
      split
      · exact ReadOnly.bind (ih _) (fun _ => ReadOnly.pure _)
      · split
        · exact ReadOnly.pure _
        · exact ReadOnly.panicS _
    · exact ReadOnly.pure _

theorem ReadOnly.scanRight (root : Nat) : ReadOnly (scanRight root) :=
  ReadOnly.bind (ReadOnly.leftmostLeaf _ _) (fun _ => ReadOnly.scanLeaves _ _)

theorem ReadOnly.findLeaf (fuel off key : Nat) : ReadOnly (findLeaf fuel off key) := by
  induction fuel generalizing off with
  | zero => exact ReadOnly.outOfFuel
  | succ fuel ih =>
    unfold Store.findLeaf
    apply ReadOnly.bind (ReadOnly.fetch _)
    intro pg
    split
    · exact ReadOnly.pure _
    · exact ih _

theorem ReadOnly.findFirstM {α β} {f : α → SM (Option β)} (hf : ∀ a, ReadOnly (f a)) (l : List α) :
    ReadOnly (findFirstM f l) := by
  induction l with
  | nil => exact ReadOnly.pure _
  | cons a rest ih =>
    unfold Store.findFirstM
    apply ReadOnly.bind (hf a)
    intro r
    split
    · exact ReadOnly.pure _
    · exact ih

theorem ReadOnly.mapS {α β} {f : α → SM β} (hf : ∀ a, ReadOnly (f a)) (l : List α) :
    ReadOnly (mapS f l) := by
  induction l with
  | nil => exact ReadOnly.pure _
  | cons a rest ih =>
    unfold Store.mapS
    exact ReadOnly.bind (hf a) (fun _ => ReadOnly.bind ih (fun _ => ReadOnly.pure _))

theorem ReadOnly.relationOffset (name : Bytes) : ReadOnly (relationOffset name) := by
  unfold Store.relationOffset
  apply ReadOnly.bind ReadOnly.getS; intro s
  apply ReadOnly.bind (ReadOnly.scanRight _); intro cells
  apply ReadOnly.bind
  · apply ReadOnly.findFirstM
    intro c
    apply ReadOnly.bind (ReadOnly.decodeRow _ _); intro m
    repeat ro_step
  · intro hit
    repeat ro_step

theorem ReadOnly.relationSchema (name : Bytes) : ReadOnly (relationSchema name) := by
  unfold Store.relationSchema
  apply ReadOnly.bind (ReadOnly.relationOffset _); intro off
  apply ReadOnly.bind (ReadOnly.scanRight _); intro cells
  apply ReadOnly.bind (ReadOnly.mapS (fun _ => ReadOnly.decodeRow _ _) _); intro rows
  apply ReadOnly.mapS
  intro m
  repeat ro_step

theorem ReadOnly.fetchTable (table : Bytes) : ReadOnly (fetchTable table) := by
  unfold Store.fetchTable
  apply ReadOnly.bind (ReadOnly.relationOffset _); intro off
  apply ReadOnly.bind (ReadOnly.relationSchema _); intro schema
  apply ReadOnly.bind (ReadOnly.fetch _); intro _
  apply ReadOnly.bind (ReadOnly.scanRight _); intro cells
  apply ReadOnly.bind
  · apply ReadOnly.mapS
    intro c
    exact ReadOnly.bind (ReadOnly.decodeRow _ _) (fun _ => ReadOnly.pure _)
  · intro rows
    exact ReadOnly.pure _

end Mkdb.Store
