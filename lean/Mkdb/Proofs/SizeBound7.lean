import Mkdb.Proofs.SizeBound5
import Mkdb.Proofs.SizeBound6
/-!
C09 "never exhausts memory", part 7: scanner and parser bounds combined on `parseSQL`, and the
concrete inputs used as non-vacuity / tightness witnesses in `Mkdb/Props/C09.lean`.
-/
namespace Mkdb.Sql
open Mkdb.Scan Mkdb.Generated

theorem textBytes_append (a b : List Token) : textBytes (a ++ b) = textBytes a + textBytes b :=
  wsum_append _ a b

/-- A successful `parseSQL` is a successful scan followed by a successful `parseStmt`. -/
theorem parseSQL_ok (input : Input) (s : Stmt) (h : parseSQL input = .ok s) :
    ∃ ts rest, scanSQL input = .ok ts ∧ parseStmt (ts.length + 2) ts = .ok s rest := by
  unfold parseSQL at h
  cases hs : scanSQL input with
  | fuel => rw [hs] at h; cases h
  | ok ts =>
    rw [hs] at h
    simp only [] at h
    unfold parseTokens at h
    cases hp : parseStmt (ts.length + 2) ts with
    | ok s' rest =>
      rw [hp] at h
      simp only [] at h
      split at h
      · cases h; exact ⟨ts, rest, rfl, hp⟩
      · cases h
    | err e => rw [hp] at h; cases h
    | panic e => rw [hp] at h; cases h
    | fuel => rw [hp] at h; cases h

theorem parseSQL_size (input : Input) (s : Stmt) (h : parseSQL input = .ok s) :
    s.size ≤ 3 * input.length + inBytes input + 11 := by
  obtain ⟨ts, rest, hs, hp⟩ := parseSQL_ok input s h
  obtain ⟨pre, e, hsz⟩ := parseStmt_size _ _ _ _ hp
  have h1 := scanSQL_count input ts hs
  have h2 := scanSQL_text input ts hs
  rw [e, textBytes_append] at h2
  rw [e, List.length_append] at h1
  omega

theorem parseSQL_condDepth (input : Input) (s : Stmt) (h : parseSQL input = .ok s) :
    s.condDepth ≤ input.length := by
  obtain ⟨ts, rest, hs, hp⟩ := parseSQL_ok input s h
  obtain ⟨pre, e, hd⟩ := parseStmt_condDepth _ _ _ _ hp
  have h1 := scanSQL_count input ts hs
  rw [e, List.length_append] at h1
  omega

/-! ## Witness inputs -/

/-- an ASCII rune as `Scanner.next` delivers it: one source byte, the Unicode facts of ASCII -/
def asciiRune (c : Nat) : Rune :=
  ⟨c, [UInt8.ofNat c], (65 ≤ c && c ≤ 90) || (97 ≤ c && c ≤ 122), 48 ≤ c && c ≤ 57,
    if 97 ≤ c && c ≤ 122 then c - 32 else c⟩

def asciiInput (cs : List Nat) : Input := cs.map asciiRune

/-- `SELECT a` -/
def inSelectA : Input := asciiInput [83, 69, 76, 69, 67, 84, 32, 97]
/-- `SELECT a,a,a,a` -/
def inSelectAAAA : Input := asciiInput [83, 69, 76, 69, 67, 84, 32, 97, 44, 97, 44, 97, 44, 97]
/-- `SELECT a OR a OR a` -/
def inSelectOr : Input :=
  asciiInput [83, 69, 76, 69, 67, 84, 32, 97, 32, 79, 82, 32, 97, 32, 79, 82, 32, 97]
/-- `a,b,c` -/
def inCommas : Input := asciiInput [97, 44, 98, 44, 99]
/-- `/*` (a comment that is never closed) -/
def inOpenComment : Input := asciiInput [47, 42]
/-- `/*` as two runes WITHOUT source bytes: not something UTF-8 decoding produces, but an
`Input` of the model -/
def inOpenCommentNoBytes : Input := [⟨47, [], false, false, 47⟩, ⟨42, [], false, false, 42⟩]

/-- the tokens of `SELECT a` -/
def tkSelectA : List Token := [⟨t_SELECT, [83, 69, 76, 69, 67, 84]⟩, ⟨t_IDENT, [97]⟩]
/-- `SELECT a` as tokens whose keyword carries no text (what `3 * tokens + text + 9` charges exactly) -/
def tkSelectA0 : List Token := [⟨t_SELECT, []⟩, ⟨t_IDENT, [97]⟩]
/-- the tokens of `SELECT a OR a OR a` -/
def tkSelectOr : List Token :=
  [⟨t_SELECT, [83, 69, 76, 69, 67, 84]⟩, ⟨t_IDENT, [97]⟩, ⟨t_OR, [79, 82]⟩, ⟨t_IDENT, [97]⟩,
   ⟨t_OR, [79, 82]⟩, ⟨t_IDENT, [97]⟩]

/-- the statement `SELECT a` -/
def stSelectA : Stmt := .select { list := [⟨.expr (.val (.col ⟨[], [97]⟩)), []⟩] }

/-- size of the statement `parseSQL` returns (0 when it returns none) -/
def sizeOfParse (input : Input) : Nat := match parseSQL input with | .ok s => s.size | _ => 0
/-- condition depth of the statement `parseSQL` returns (0 when it returns none) -/
def depthOfParse (input : Input) : Nat := match parseSQL input with | .ok s => s.condDepth | _ => 0

end Mkdb.Sql
