import Mkdb.Proofs.Tree
/-!
The two leaf chains of a well-formed tree, explicitly (C11: "the left-to-right leaf chain equal to the
leaves in tree order and the exact reverse of the right-to-left chain").

`Inv.chain` (`chainFrom`) states the doubly linked condition leaf by leaf.  Here the chains are *walked*:

* `leafAt t off`: the leaf of `t` stored at offset `off`;
* `walkRight get fuel l`: `l`, then the leaf `get` finds at `l.rSib` if `l.hasR`, and so on (`scanRight`'s
  loop); `walkLeft`: the same over `hasL` / `lSib` (`scanLeft`'s loop);
* `walkRight_leaves`: from the first leaf, the walk to the right visits exactly the leaves in tree order;
* `walkLeft_leaves`: from the last leaf, the walk to the left visits exactly the leaves in reverse order.
-/
set_option autoImplicit false
namespace Mkdb.Tree
open Mkdb.Page Mkdb.Generated

/-- the leaf of the tree stored at offset `off` -/
def leafAt (t : Levels) (off : Nat) : Option Leaf := (t.leaves.find? (fun p => p.1.off == off)).map (·.1)

/-- follow the right-sibling links (at most `fuel` leaves) -/
def walkRight (get : Nat → Option Leaf) : Nat → Leaf → List Leaf
  | 0, _ => []
  | fuel+1, l => l :: (if l.hasR then (match get l.rSib with | some r => walkRight get fuel r | none => []) else [])

/-- follow the left-sibling links (at most `fuel` leaves) -/
def walkLeft (get : Nat → Option Leaf) : Nat → Leaf → List Leaf
  | 0, _ => []
  | fuel+1, l => l :: (if l.hasL then (match get l.lSib with | some r => walkLeft get fuel r | none => []) else [])

/-- in a tree without a repeated page, every leaf is the leaf at its offset -/
theorem leafAt_mem (t : Levels) (hnd : (t.leaves.map (·.1.off)).Nodup) (p : Leaf × Bool) (hp : p ∈ t.leaves) :
    leafAt t p.1.off = some p.1 := by
  obtain ⟨i, hi, rfl⟩ := List.mem_iff_getElem.mp hp
  unfold leafAt
  rw [Lookup.find_by_key (fun p : Leaf × Bool => p.1.off) t.leaves hnd i hi]
  rfl

/-! ### to the right -/

theorem walkRight_chain (get : Nat → Option Leaf) : ∀ (rest : List Leaf) (l : Leaf) (prev : Option Nat) (fuel : Nat),
    chainFrom prev (l :: rest) → (∀ m ∈ rest, get m.off = some m) → rest.length < fuel →
    walkRight get fuel l = l :: rest
  | [], l, prev, fuel, hc, _, hf => by
    obtain ⟨_, hr, _⟩ := hc
    cases fuel with
    | zero => omega
    | succ fuel =>
      simp only at hr
      simp only [walkRight, hr, Bool.false_eq_true, if_false]
  | m :: rest, l, prev, fuel, hc, hget, hf => by
    obtain ⟨_, hr, hrest⟩ := hc
    simp only at hr
    cases fuel with
    | zero => omega
    | succ fuel =>
      have ih := walkRight_chain get rest m (some l.off) fuel hrest
        (fun x hx => hget x (List.mem_cons_of_mem _ hx)) (by simp only [List.length_cons] at hf; omega)
      simp only [walkRight, hr.1, hr.2, if_true, hget m List.mem_cons_self, ih]

/-! ### to the left -/

/-- the left links of a list of leaves read from right to left -/
def backChain (prev : Option Nat) : List Leaf → Prop
  | [] => True
  | [l] => (match prev with | none => l.hasL = false | some p => l.hasL = true ∧ l.lSib = p)
  | l :: a :: rest => l.hasL = true ∧ l.lSib = a.off ∧ backChain prev (a :: rest)

theorem backChain_snoc (prev : Option Nat) (l : Leaf)
    (hl : match prev with | none => l.hasL = false | some p => l.hasL = true ∧ l.lSib = p) :
    ∀ (R : List Leaf), backChain (some l.off) R → backChain prev (R ++ [l])
  | [], _ => hl
  | [_], h => ⟨h.1, h.2, hl⟩
  | _ :: a :: rest, h => ⟨h.1, h.2.1, backChain_snoc prev l hl (a :: rest) h.2.2⟩

theorem backChain_of_chain : ∀ (ls : List Leaf) (prev : Option Nat), chainFrom prev ls → backChain prev ls.reverse
  | [], _, _ => trivial
  | l :: rest, prev, h => by
    rw [List.reverse_cons]
    exact backChain_snoc prev l h.1 rest.reverse (backChain_of_chain rest (some l.off) h.2.2)

theorem walkLeft_chain (get : Nat → Option Leaf) : ∀ (rest : List Leaf) (l : Leaf) (fuel : Nat),
    backChain none (l :: rest) → (∀ m ∈ rest, get m.off = some m) → rest.length < fuel →
    walkLeft get fuel l = l :: rest
  | [], l, fuel, hc, _, hf => by
    cases fuel with
    | zero => omega
    | succ fuel =>
      have hc' : l.hasL = false := hc
      simp only [walkLeft, hc', Bool.false_eq_true, if_false]
  | m :: rest, l, fuel, hc, hget, hf => by
    obtain ⟨h1, h2, hrest⟩ := hc
    cases fuel with
    | zero => omega
    | succ fuel =>
      have ih := walkLeft_chain get rest m fuel hrest
        (fun x hx => hget x (List.mem_cons_of_mem _ hx)) (by simp only [List.length_cons] at hf; omega)
      simp only [walkLeft, h1, h2, if_true, hget m List.mem_cons_self, ih]

/-! ### on a well-formed tree -/

/-- **The left-to-right chain**: from the first leaf of a well-formed tree, following `hasR` / `rSib` and
reading each sibling from the tree's own pages visits exactly the leaves in tree order. -/
theorem walkRight_leaves (t : Levels) (nf : Nat) (hinv : Inv t nf) (first : Leaf × Bool)
    (hfirst : t.leaves.head? = some first) (extra : Nat) :
    walkRight (leafAt t) (t.leaves.length + extra) first.1 = t.leaves.map (·.1) := by
  obtain ⟨hnd, _⟩ := Lookup.offs_split t nf hinv.offs
  have hch := hinv.chain
  unfold ChainOK at hch
  cases hl : t.leaves with
  | nil => rw [hl] at hfirst; cases hfirst
  | cons p rest =>
    rw [hl] at hfirst hch
    simp only [List.head?_cons, Option.some.injEq] at hfirst
    subst hfirst
    simp only [List.map_cons] at hch ⊢
    apply walkRight_chain (leafAt t) _ _ none _ hch
    · intro m hm
      obtain ⟨q, hq, rfl⟩ := List.mem_map.mp hm
      exact leafAt_mem t hnd q (by rw [hl]; exact List.mem_cons_of_mem _ hq)
    · simp only [List.length_map, List.length_cons]; omega

/-- **The right-to-left chain**: from the last leaf, following `hasL` / `lSib` visits exactly the leaves
in reverse tree order. -/
theorem walkLeft_leaves (t : Levels) (nf : Nat) (hinv : Inv t nf) (last : Leaf × Bool)
    (hlast : t.leaves.getLast? = some last) (extra : Nat) :
    walkLeft (leafAt t) (t.leaves.length + extra) last.1 = (t.leaves.map (·.1)).reverse := by
  obtain ⟨hnd, _⟩ := Lookup.offs_split t nf hinv.offs
  have hch := backChain_of_chain _ _ hinv.chain
  obtain ⟨pre, hpre⟩ := List.getLast?_eq_some_iff.mp hlast
  have hrev : (t.leaves.map (·.1)).reverse = last.1 :: (pre.map (·.1)).reverse := by
    rw [hpre]; simp
  rw [hrev] at hch ⊢
  apply walkLeft_chain (leafAt t) _ _ _ hch
  · intro m hm
    rw [List.mem_reverse] at hm
    obtain ⟨q, hq, rfl⟩ := List.mem_map.mp hm
    exact leafAt_mem t hnd q (by rw [hpre]; exact List.mem_append_left _ hq)
  · rw [hpre]; simp only [List.length_reverse, List.length_map, List.length_append, List.length_singleton]; omega

end Mkdb.Tree
