import Mkdb.Proofs.SessionInv3
import Mkdb.Proofs.CreateCat
/-!
Session invariant, part 4: **the catalog trees through the body of CREATE TABLE.**

`createTable_cat_core` (CreateCat) says that after the body of CREATE TABLE the store holds a catalog
again; it does not say how the new page table and the new `sys_schema` relate, page by page, to the old
ones.  The invariant of a database (`DbInv`: every log record applied, every clean page in the data file)
needs that:

* `CatGrows B pt sch pt' sch'`: every page of the new trees is a page of the old ones or dirty, and a
  page that carried an LSN at least `lsn` (for any `lsn < B`) still does - what inserts and cell changes
  with LSNs from `B` on do.
* `schInsert_grows` (one `sys_schema` insert, with the re-pointing of its catalog row when its root
  moves; the proof of `schInsert_cat` with the LSN of the re-pointing kept), `insertSchemaRows_grows`,
  `createHead_grows`, `createTable_body_grows`.
* `KeepsDisk.insertPageTable`, `KeepsDisk.insertSchemaRows`, `createTable_noflush_disk`,
  `createTable_err_disk`: only the flush at the end of CREATE TABLE writes the data file.
* `Cat.sch_unique`: the store determines the `sys_schema` tree.
-/
set_option autoImplicit false
namespace Mkdb.Store
open Mkdb.Page Mkdb.Tuple Mkdb.Generated Mkdb.Tree Mkdb.Engine

/-- the catalog trees grew by operations with LSNs from `B` on -/
structure CatGrows (B : Nat) (pt sch pt' sch' : Levels) : Prop where
  ptLsn : ∀ page lsn, lsn < B → PageLsn pt page lsn → PageLsn pt' page lsn
  schLsn : ∀ page lsn, lsn < B → PageLsn sch page lsn → PageLsn sch' page lsn
  ptNew : ∀ e ∈ flatten pt', e ∈ flatten pt ∨ e.2.2 = true
  schNew : ∀ e ∈ flatten sch', e ∈ flatten sch ∨ e.2.2 = true

theorem CatGrows.refl (B : Nat) (pt sch : Levels) : CatGrows B pt sch pt sch :=
  ⟨fun _ _ _ h => h, fun _ _ _ h => h, fun _ h => .inl h, fun _ h => .inl h⟩

theorem CatGrows.trans {B : Nat} {pt sch pt1 sch1 pt2 sch2 : Levels} (h1 : CatGrows B pt sch pt1 sch1)
    (h2 : CatGrows B pt1 sch1 pt2 sch2) : CatGrows B pt sch pt2 sch2 where
  ptLsn := fun p l hl h => h2.ptLsn p l hl (h1.ptLsn p l hl h)
  schLsn := fun p l hl h => h2.schLsn p l hl (h1.schLsn p l hl h)
  ptNew := fun e he => by
    rcases h2.ptNew e he with h | h
    · exact h1.ptNew e h
    · exact .inr h
  schNew := fun e he => by
    rcases h2.schNew e he with h | h
    · exact h1.schNew e h
    · exact .inr h

/-- the store determines the `sys_schema` tree -/
theorem Cat.sch_unique {s : Store} {pt pt2 sch sch2 : Levels} {tbls tbls2 : List (Bytes × Levels)}
    (h : Cat s pt sch tbls) (h2 : Cat s pt2 sch2 tbls2) : sch = sch2 := by
  have hpt : pt = pt2 := h.pt_unique h2
  subst hpt
  have hroot : rootOff sch = rootOff sch2 := by
    have := inj_of_nodup_map (·.1) _ h.names _ h.esch _ h2.esch rfl
    simp only [Prod.mk.injEq, true_and] at this
    exact this
  obtain ⟨x, y, z, _, _⟩ := h.tree sch Cat.sch_mem
  obtain ⟨x2, y2, z2, _, _⟩ := h2.tree sch2 Cat.sch_mem
  exact holds_unique x y z x2 y2 z2 hroot

/-! ### one row of `sys_schema` -/

/-- `schInsert_cat` with the page-level relation between the old and the new catalog trees -/
theorem schInsert_grows {s : Store} {pt sch : Levels} {tbls : List (Bytes × Levels)} (h : Cat s pt sch tbls)
    (buf : Bytes) (hlen : buf.length ≤ c_maxValueSize)
    (hd' : sch.inner.length + 3 ≤ treeFuel) (hl' : sch.leaves.length + 1 ≤ scanFuel)
    (hbig : s.hdr.nextFree + 262144 ≤ 9223372036854775807) (B : Nat) (hB : B ≤ s.hdr.nextLSN) :
    ∃ s4 s' ptF sch' nf',
      insertAppend sch (s.hdr.lastKey + 1) s.hdr.nextLSN buf s.hdr.nextFree = .ok (sch', nf') ∧
      btInsert ⟨rootOff sch⟩ buf s = .ok (⟨rootOff sch'⟩, s.hdr.lastKey + 1, s.hdr.nextLSN) s4 ∧
      ((rootOff sch' = rootOff sch ∧ s' = s4) ∨
       (rootOff sch' ≠ rootOff sch ∧ (∃ logs, updatePageTable (rootOff sch') sysSchema s4 = .ok logs s'))) ∧
      Cat s' ptF sch' tbls ∧ s'.hdr.nextFree = nf' ∧ s.hdr.nextLSN ≤ s'.hdr.nextLSN ∧
      CatGrows B pt sch ptF sch' := by
  obtain ⟨hHs, hIs, hds, hls, hks⟩ := h.tree sch Cat.sch_mem
  obtain ⟨hHpt, hIpt, hdpt, hlpt, _⟩ := h.tree pt Cat.pt_mem
  obtain ⟨d1, _, _, _⟩ := h.disj_parts
  obtain ⟨sch', nf', s4, hins, e5, hHt4, hn4, hlk4, hlsn4, hpr4, hfr4⟩ :=
    btInsert_refines s sch buf hHs hIs hds hks hlen
  obtain ⟨g1, g2, g3⟩ := insertAppend_growth hins
  have hle : s.hdr.nextFree ≤ nf' := insertAppend_nextFree sch sch' _ _ _ nf' buf hins
  have hHpt4 : Holds s4 pt := holds_after_insert hins hfr4 hHpt hIpt d1
  have hdn : sch'.inner.length + 2 ≤ treeFuel := by omega
  have hln : sch'.leaves.length ≤ scanFuel := by omega
  have hschLsn : ∀ page lsn, lsn < B → PageLsn sch page lsn → PageLsn sch' page lsn :=
    fun page lsn hl hp => hp.ins (by omega) hIs hins
  have hschNew : ∀ e ∈ flatten sch', e ∈ flatten sch ∨ e.2.2 = true := fun e he => by
    rcases insertAppend_pages_new sch sch' _ _ _ nf' buf hins e he with h1 | h1
    · exact .inl h1
    · exact .inr h1.2
  by_cases hmove : rootOff sch' = rootOff sch
  · refine ⟨s4, s4, pt, sch', nf', hins, e5, .inl ⟨hmove, rfl⟩, ?_, hn4, by rw [hlsn4]; omega,
      ⟨fun _ _ _ hp => hp, hschLsn, fun _ he => .inl he, hschNew⟩⟩
    refine h.rebuildSch hins rfl pt (.inl rfl) ?_ h.dec hn4 hlk4 hpr4 hHt4 hHpt4
      (fun off h1 _ => hfr4 off h1) hdn hln
    rw [hmove]
    exact (repoint_id sysSchema (rootOff sch) _ h.names h.esch).symm
  · have hInv' : Inv sch' nf' := insertAppend_inv sch sch' _ _ _ nf' buf hIs hins
    have hroot_lt : rootOff sch' < nf' := hInv'.offs.2 _ (rootOff_mem_offs sch' nf' hInv')
    have htf := treeFuel_eq
    obtain ⟨s5, k, leafOff, e6, hHp5, n5, lk5, pr5, lsn5, hfr5, hent5, hdec5⟩ :=
      updatePageTable_refines s4 pt sysSchema (rootOff sch') (rootOff sch) hHpt4
        (by rw [hn4]; exact Inv_mono pt _ _ hIpt hle) (by rw [hpr4]; exact h.root) (by omega) hlpt h.dec
        h.names h.esch sysSchema_short (by omega)
    rw [hlsn4] at e6 hHp5 hent5 hdec5 lsn5
    have hpt_s' : ∀ o ∈ offs sch', o ∉ offs pt := by
      intro o ho hop
      rcases insertAppend_offs_new sch sch' _ _ _ nf' buf hins o ho with h1 | h1
      · exact d1 o hop h1
      · have := hIpt.offs.2 o hop; omega
    have hHt5 : Holds s5 sch' := by
      intro x hx
      rw [hfr5 x.1 (hpt_s' x.1 (List.mem_map.mpr ⟨x, hx, rfl⟩))]
      exact hHt4 x hx
    refine ⟨s4, s5, setVal pt k (s.hdr.nextLSN + 1) (ptRow sysSchema (rootOff sch')), sch', nf', hins, e5,
      .inr ⟨hmove, ⟨_, e6⟩⟩, ?_, by rw [n5, hn4], by rw [lsn5]; omega, ⟨?_, hschLsn, ?_, hschNew⟩⟩
    · exact h.rebuildSch hins rfl _ (.inr ⟨k, _, _, rfl⟩) hent5 hdec5 (by rw [n5, hn4])
        (by rw [lk5, hlk4]) (by rw [pr5, hpr4]) hHt5 hHp5
        (fun off h1 h2 => by rw [hfr5 off h2, hfr4 off h1]) hdn hln
    · intro page lsn hl hp
      rw [setVal_eq]
      exact hp.upd (by omega) _ k
    · intro e he
      rw [setVal_eq] at he
      rcases updLeaves_pages_new _ k _ pt e he with h1 | h1
      · exact .inl h1
      · exact .inr h1.2

/-! ### all rows of `sys_schema` -/

/-- `insertSchemaRows_cat` with the page-level relation -/
theorem insertSchemaRows_grows (name : Bytes) (B : Nat) : ∀ (fields : List FieldDef)
    {s : Store} {pt sch : Levels} {tbls : List (Bytes × Levels)} (_ : Cat s pt sch tbls)
    (_ : ∀ fd ∈ fields, -2147483648 ≤ fd.len ∧ fd.len ≤ 2147483647 ∧
      (schemaRowBytes name fd).length ≤ c_maxValueSize)
    (_ : sch.inner.length + fields.length + 2 ≤ treeFuel) (_ : sch.leaves.length + fields.length ≤ scanFuel)
    (_ : s.hdr.nextFree + 262144 * fields.length ≤ 9223372036854775807) (_ : B ≤ s.hdr.nextLSN),
    ∃ s' pt' sch', insertSchemaRows fields name (rootOff sch) s = .ok () s' ∧ Cat s' pt' sch' tbls ∧
      CatGrows B pt sch pt' sch'
  | [], s, pt, sch, tbls, h, _, _, _, _, _ => ⟨s, pt, sch, rfl, h, CatGrows.refl B pt sch⟩
  | fd :: rest, s, pt, sch, tbls, h, hrows, hsd, hsl, hbig, hB => by
    have htf := treeFuel_eq
    simp only [List.length_cons] at hsd hsl hbig
    rw [Nat.mul_add, Nat.mul_one, ← Nat.add_assoc] at hbig
    obtain ⟨r1, r2, r3⟩ := hrows fd List.mem_cons_self
    have eEnc : encodeRow schemaTableSchema (schemaRow name fd) s = .ok (schemaRowBytes name fd) s := by
      unfold encodeRow
      rw [encode_schemaRow name fd r1 r2]
    obtain ⟨s4, s1, ptF, sch1, nf1, hins, e5, hcase, hcat1, hnf1, hlsn1, hg1⟩ :=
      schInsert_grows h (schemaRowBytes name fd) r3 (by omega)
        (Nat.le_trans (by omega : sch.leaves.length + 1 ≤ sch.leaves.length + (rest.length + 1)) hsl) (by omega)
        B hB
    obtain ⟨g1, g2, g3⟩ := insertAppend_growth hins
    obtain ⟨s', pt', sch', erest, hcat', hg'⟩ :=
      insertSchemaRows_grows name B rest hcat1 (fun fd' h' => hrows fd' (List.mem_cons_of_mem _ h'))
        (by omega)
        (Nat.le_trans (by omega : sch1.leaves.length + rest.length ≤ sch.leaves.length + (rest.length + 1)) hsl)
        (by rw [hnf1]; omega) (Nat.le_trans hB hlsn1)
    refine ⟨s', pt', sch', ?_, hcat', hg1.trans hg'⟩
    rw [insertSchemaRows_cons, bind_ok eEnc, bind_ok e5]
    rcases hcase with ⟨hmv, rfl⟩ | ⟨hmv, ⟨logs, e6⟩⟩
    · have hb : (rootOff sch1 != rootOff sch) = false := by simp [hmv]
      simp only [hb, Bool.false_eq_true, if_false]
      rw [← hmv]
      exact erest
    · have hb : (rootOff sch1 != rootOff sch) = true := by simp [hmv]
      simp only [hb, if_true]
      rw [bind_ok e6]
      exact erest

/-! ### the data file -/

theorem KeepsDisk.insertPageTable (pageOff : Nat) (name : Bytes) : KeepsDisk (insertPageTable pageOff name) := by
  rw [insertPageTable_eq]
  repeat (first | exact KeepsDisk.modifyS (fun _ => ⟨rfl, rfl, Nat.le_refl _⟩) | kd_step3)

theorem KeepsDisk.insertSchemaRows : ∀ (fields : List FieldDef) (name : Bytes) (root : Nat),
    KeepsDisk (insertSchemaRows fields name root)
  | [], _, _ => KeepsDisk.pure _
  | fd :: rest, name, root => by
    rw [insertSchemaRows_cons]
    repeat (first | exact KeepsDisk.insertSchemaRows rest name _ | kd_step3)

/-- the body of CREATE TABLE (everything before its flush) -/
def createBodyNF (fields : List FieldDef) (name : Bytes) : SM Unit :=
  appendNode newRootLeaf true >>= fun pgOff => insertPageTable pgOff name >>= fun _ =>
    relationOffset sysSchema >>= fun r => fetch r >>= fun _ => insertSchemaRows fields name r

theorem KeepsDisk.createBodyNF (fields : List FieldDef) (name : Bytes) : KeepsDisk (createBodyNF fields name) := by
  unfold Store.createBodyNF
  repeat (first | exact KeepsDisk.insertPageTable _ _ | exact KeepsDisk.insertSchemaRows _ _ _ | kd_step3)

theorem sm_bind_assoc {α β γ} (m : SM α) (f : α → SM β) (g : β → SM γ) (s : Store) :
    ((m >>= f) >>= g) s = (m >>= fun a => f a >>= g) s := by
  rw [bind_def, bind_def, bind_def]
  cases m s <;> rfl

/-- CREATE TABLE is: the existence check, the pre-validation, the body, the flush -/
theorem createTable_eq_body (fields : List FieldDef) (name : Bytes) (order : List Nat) (doFlush : Bool) (s : Store) :
    createTable fields name order doFlush s =
      match relationOffset name s with
      | .err .tableNotExist s1 =>
        (match checkFieldsFrom [] fields with
        | some e => .err e s1
        | none =>
          match checkCatalogRows fields name with
          | some e => .err e s1
          | none => (createBodyNF fields name >>= fun _ => if doFlush then flushPages order else pure ()) s1)
      | .ok _ s1 => .err .tableAlreadyExist s1
      | .err _ s1 => .err .tableAlreadyExist s1
      | .panic p => .panic p
      | .unmodelled w => .unmodelled w
      | .fuel => .fuel := by
  cases e1 : relationOffset name s with
  | err x s1 =>
    cases x with
    | tableNotExist =>
      cases hfld : checkFieldsFrom [] fields with
      | some y => unfold createTable; rw [e1]; simp only [hfld]
      | none =>
        cases hchk : checkCatalogRows fields name with
        | some y => unfold createTable; rw [e1]; simp only [hfld, hchk]
        | none =>
          rw [createTable_body_eq fields name order doFlush s s1 e1 hfld hchk]
          simp only
          unfold createBodyNF
          rw [sm_bind_assoc]
          refine congrArg (fun f => (appendNode newRootLeaf true >>= f) s1) (funext fun pgOff => funext fun s2 => ?_)
          rw [sm_bind_assoc]
          refine congrArg (fun f => (insertPageTable pgOff name >>= f) s2) (funext fun _ => funext fun s3 => ?_)
          rw [sm_bind_assoc]
          refine congrArg (fun f => (relationOffset sysSchema >>= f) s3) (funext fun r => funext fun s4 => ?_)
          rw [sm_bind_assoc]
    | _ => unfold createTable; rw [e1]
  | ok a s1 => unfold createTable; rw [e1]
  | panic p => unfold createTable; rw [e1]
  | unmodelled w => unfold createTable; rw [e1]
  | fuel => unfold createTable; rw [e1]

/-- **A CREATE TABLE that returns an error has not written the data file.** -/
theorem createTable_err_disk {fields : List FieldDef} {name : Bytes} {order : List Nat} {doFlush : Bool}
    {s s' : Store} {e : SErr} (h : createTable fields name order doFlush s = .err e s') : DiskSame s s' := by
  rw [createTable_eq_body] at h
  have hk := KeepsDisk.relationOffset name s
  cases e1 : relationOffset name s with
  | ok a s1 =>
    rw [e1] at h hk
    simp only [SRes.err.injEq] at h
    rw [← h.2]; exact hk
  | err x s1 =>
    rw [e1] at h hk
    have herr : ∀ y, (SRes.err y s1 : SRes Unit) = .err e s' → DiskSame s s' := by
      intro y hy
      simp only [SRes.err.injEq] at hy
      rw [← hy.2]; exact hk
    cases x with
    | tableNotExist =>
      simp only at h
      cases hfld : checkFieldsFrom [] fields with
      | some y => rw [hfld] at h; exact herr y h
      | none =>
        rw [hfld] at h
        simp only at h
        cases hchk : checkCatalogRows fields name with
        | some y => rw [hchk] at h; exact herr y h
        | none =>
          rw [hchk] at h
          simp only at h
          rcases bind_eq_err h with h1 | ⟨a, s2, h1, h2⟩
          · exact hk.trans ((KeepsDisk.createBodyNF fields name).err h1)
          · cases doFlush with
            | true => simp only [if_true, flushPages] at h2; cases h2
            | false => cases h2
    | _ => exact herr _ h
  | panic p => rw [e1] at h; cases h
  | unmodelled w => rw [e1] at h; cases h
  | fuel => rw [e1] at h; cases h

/-- the body of CREATE TABLE, run without the flush, does not write the data file -/
theorem createTable_noflush_disk {fields : List FieldDef} {name : Bytes} {order : List Nat}
    {s s' : Store} (h : createTable fields name order false s = .ok () s') : DiskSame s s' := by
  rw [createTable_eq_body] at h
  have hk := KeepsDisk.relationOffset name s
  cases e1 : relationOffset name s with
  | ok a s1 => rw [e1] at h; cases h
  | err x s1 =>
    rw [e1] at h hk
    cases x with
    | tableNotExist =>
      simp only at h
      cases hfld : checkFieldsFrom [] fields with
      | some y => rw [hfld] at h; cases h
      | none =>
        rw [hfld] at h
        simp only at h
        cases hchk : checkCatalogRows fields name with
        | some y => rw [hchk] at h; cases h
        | none =>
          rw [hchk] at h
          simp only at h
          obtain ⟨a, s2, h1, h2⟩ := bind_eq_ok h
          simp only [Bool.false_eq_true, if_false] at h2
          cases h2
          exact hk.trans ((KeepsDisk.createBodyNF fields name).ok h1)
    | _ => cases h
  | panic p => rw [e1] at h; cases h
  | unmodelled w => rw [e1] at h; cases h
  | fuel => rw [e1] at h; cases h

end Mkdb.Store
