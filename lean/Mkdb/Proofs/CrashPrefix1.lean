import Mkdb.Proofs.ReplayMixed
/-!
Crash while a statement appends its records to the log, part 1 (storage level): the log of one
`Store.insert`, cut after its first record.

`Store.insert` logs ONE record (the INSERT record) when the root page of the table stays where it is,
and TWO records (the INSERT record, then the UPDATE record of the table's row in the page table) when
the insert moved the root.  A cut between the two is the only cut of a log that does not fall on the
boundary between two row statements.

* `replay_insert_logs_cut`: `replay_insert_logs_gen` again, with one more conclusion for the case in
  which the root moved: replaying the FIRST record alone already yields a store with the new tree for
  the table and a page table that names the new root (redo of an INSERT record repoints the page
  table itself); the page table the whole log produces differs from it only in the LSN stamp of one
  leaf (`ptF = setVal ptM key lsn v` with the same entries).
-/
set_option autoImplicit false
namespace Mkdb.Store
open Mkdb.Page Mkdb.Tuple Mkdb.Generated Mkdb.Tree Mkdb.Engine

/-- **Replay of the log of one INSERT statement, and of its first record alone.** Hypotheses of
`replay_insert_logs_gen`.  In addition to its conclusions: when the root moved (two records), the
first record alone replays without error to a store `r1` that satisfies the catalog description with
the SAME table list as the live post-state (the row is completely in the tree, the page table names
the new root) and a page table `ptM` of which the final one is a restamp:
`ptF = setVal ptM key lsn v`, `ptEntries ptM = ptEntries ptF`. -/
theorem replay_insert_logs_cut (s r : Store) (pt sch : Levels) (tbls : List (Bytes × Levels))
    (h : Cat s pt sch tbls) (hr : Cat r pt sch tbls) (hself : PtSelf pt)
    (hrnf : r.hdr.nextFree = s.hdr.nextFree) (hrlk : r.hdr.lastKey = s.hdr.lastKey)
    (hrlsn : r.hdr.nextLSN ≤ s.hdr.nextLSN)
    (table : Bytes) (t : Levels) (ht : (table, t) ∈ tbls) (cols : List String) (vals : List Val)
    (schema : List FieldDef) (buf : Bytes) (hsch : schemaOf sch table = some schema)
    (hcols : (colsOf schema cols).length = vals.length)
    (hnames : checkColumns schema (colsOf schema cols) = none)
    (henc : encodeTuple schema ((colsOf schema cols).zip vals).reverse = .ok buf)
    (hlen : buf.length ≤ c_maxValueSize)
    (t' : Levels) (nf' : Nat)
    (hins : insertAppend t (s.hdr.lastKey + 1) s.hdr.nextLSN buf s.hdr.nextFree = .ok (t', nf'))
    (hd' : t'.inner.length + 2 ≤ treeFuel) (hl' : t'.leaves.length ≤ scanFuel)
    (hbig : (nf' : Int) ≤ 9223372036854775807)
    (hlsn : rootLSN t < s.hdr.nextLSN) (hpos : 0 < rootOff t) :
    ∃ s' ptF logs r', insert table cols vals s = .ok logs s' ∧
      Cat s' ptF sch (setTable tbls table t') ∧
      replayAll logs r = (r', none, false) ∧
      Cat r' ptF sch (setTable tbls table t') ∧ PtSelf ptF ∧
      s'.hdr.nextFree = nf' ∧ r'.hdr.nextFree = nf' ∧
      s'.hdr.lastKey = s.hdr.lastKey + 1 ∧ r'.hdr.lastKey = s.hdr.lastKey + 1 ∧
      r'.hdr.nextLSN + 1 = s'.hdr.nextLSN ∧
      ((rootOff t' = rootOff t ∧ s'.hdr.nextLSN = s.hdr.nextLSN + 1 ∧ logs.length = 1) ∨
       (rootOff t' ≠ rootOff t ∧ s'.hdr.nextLSN = s.hdr.nextLSN + 2 ∧ logs.length = 2 ∧
         ∃ r1 ptM key lsn v, replayAll (logs.take 1) r = (r1, none, false) ∧
           Cat r1 ptM sch (setTable tbls table t') ∧
           ptF = setVal ptM key lsn v ∧ ptEntries ptM = ptEntries ptF ∧
           r1.hdr.nextFree = nf' ∧ r1.hdr.lastKey = s.hdr.lastKey + 1 ∧
           r1.hdr.nextLSN = s.hdr.nextLSN)) := by
  obtain ⟨s', ptF, logs, erun, hc', hlk', hnf', hcase⟩ := insert_refines' s pt sch tbls h table t ht cols vals
    schema buf hsch hcols hnames henc hlen t' nf' hins hd' hl' hbig
  have hinsr : insertAppend t (s.hdr.lastKey + 1) s.hdr.nextLSN buf r.hdr.nextFree = .ok (t', nf') := by
    rw [hrnf]; exact hins
  obtain ⟨r1, ptF1, hrun1, hc1, hself1, hnf1, hlk1, hlsn1, hpr1, hent1, hcase1, _⟩ :=
    replay_insert_record r pt sch tbls hr hself table t ht (s.hdr.lastKey + 1) s.hdr.nextLSN buf hlsn hpos
      t' nf' hinsr hd' hl' hbig
  have hlk1' : r1.hdr.lastKey = s.hdr.lastKey + 1 := by rw [hlk1, hrlk]; omega
  have hlsn1' : r1.hdr.nextLSN = s.hdr.nextLSN := by rw [hlsn1]; omega
  rcases hcase with ⟨hmove, rfl, hlsn', rfl⟩ | ⟨hmove, hlsn', a, p, hal, hpa, hp, hap, rfl, rfl⟩
  · -- the root did not move: one record
    rcases hcase1 with ⟨_, rfl⟩ | ⟨hm, _⟩
    · refine ⟨s', ptF1, _, r1, erun, hc', ?_, hc1, hself1, hnf', hnf1, hlk', hlk1', by omega,
        .inl ⟨hmove, hlsn', rfl⟩⟩
      rw [replayAll_cons_ok' hrun1]; rfl
    · exact absurd hmove hm
  · -- the root moved: the INSERT record, then the catalog UPDATE record
    rcases hcase1 with ⟨hm, _⟩ | ⟨_, a1, p1, hal1, hpa1, _, _, rfl⟩
    · exact absurd hm hmove
    · have haa : a1 = a := row_unique pt h.names a1 a hal1 hal table _ _ hpa1 hpa
      subst haa
      obtain ⟨hH1, hI1, _, _, _⟩ := hc1.tree _ Cat.pt_mem
      have hany : p.1.cells.any (fun c => c.key == a1.key) = true :=
        List.any_eq_true.mpr ⟨a1, hap, by simp⟩
      have hm2 := mem_setVal_leaf pt p hp a1.key s.hdr.nextLSN (ptRow table (rootOff t')) hany
      have hany2 : (p.1.cells.map (fun c => if c.key == a1.key then
          { c with val := ptRow table (rootOff t') } else c)).any (fun c => c.key == a1.key) = true := by
        rw [RedoLink.any_key_map p.1.cells _ (fun c => by split <;> rfl) a1.key]
        exact hany
      have hvlen : (ptRow table (rootOff t')).length ≤ c_maxValueSize := by
        rw [ptRow_length]; exact h.tlen (table, t) ht
      obtain ⟨r2, hrun2, hH2, hh2, hfr2⟩ := replay_update_held r1 _ hH1 hI1 _ true hm2 a1.key
        (s.hdr.nextLSN + 1) (ptRow table (rootOff t')) hany2 hvlen (Nat.lt_succ_self _)
      have hss := setVal_setVal pt a1.key s.hdr.nextLSN (s.hdr.nextLSN + 1) (ptRow table (rootOff t'))
      obtain ⟨_, hIpt, _, _, _⟩ := h.tree pt Cat.pt_mem
      have hInv' : Inv t' nf' := insertAppend_inv t t' _ _ _ nf' buf (h.tree t (Cat.tb_mem ht)).2.1 hins
      have hroot_lt : rootOff t' < nf' := hInv'.offs.2 _ (rootOff_mem_offs t' nf' hInv')
      obtain ⟨hentF, hdecF⟩ := ptEntries_setVal_row pt _ hIpt h.names a1 hal table (rootOff t) (rootOff t')
        (s.hdr.nextLSN + 1) hpa (h.tlen (table, t) ht) (by omega)
      have hpoff : p.1.off ∈ offs pt := by
        rw [offs_eq]
        exact List.mem_append_left _ (List.mem_map.mpr ⟨p, hp, rfl⟩)
      have hc2 := hc1.setVal_pt (s' := r2) a1.key (s.hdr.nextLSN + 1) (ptRow table (rootOff t'))
        (by rw [hss, hentF, hent1]) (by rw [hss]; exact hdecF h.dec) hH2
        (fun off ho => hfr2 off (fun he => ho (by rw [offs_setVal, he]; exact hpoff)))
        (by rw [hh2]) (by rw [hh2]; exact Nat.le_refl _) (by rw [hh2])
      rw [hss] at hc2
      have hne : table ≠ sysPages := fun he => h.tsys.1 (he ▸ List.mem_map.mpr ⟨(table, t), ht, rfl⟩)
      have hF : PtLike pt (setVal pt a1.key (s.hdr.nextLSN + 1) (ptRow table (rootOff t'))) :=
        .inr ⟨_, _, _, rfl⟩
      refine ⟨s', _, _, r2, erun, hc', ?_, hc2, hself.repoint hentF hne hF.facts.1, hnf',
        by rw [hh2]; exact hnf1, hlk', by rw [hh2]; exact hlk1', ?_, .inr ⟨hmove, hlsn', rfl, ?_⟩⟩
      · rw [replayAll_cons_ok' hrun1, replayAll_cons_ok' hrun2]; rfl
      · rw [hh2, hlsn']
        show max r1.hdr.nextLSN (s.hdr.nextLSN + 1) + 1 = _
        rw [hlsn1']; omega
      · refine ⟨r1, _, a1.key, s.hdr.nextLSN + 1, ptRow table (rootOff t'), ?_, hc1, hss.symm, ?_, hnf1, hlk1',
          hlsn1'⟩
        · show replayAll [_] r = _
          rw [replayAll_cons_ok' hrun1]; rfl
        · rw [hentF, hent1]

end Mkdb.Store
