import Mkdb.Proofs.FlushReload2
/-!
Flushes and reloads of one tree on the page heap, part 3: **they change nothing logical.**

On the levels model a flush and a reload clear dirty bits (`applyF`); the tree operations do not look at
dirty bits.  So the tree after a history with flushes and reloads is, up to dirty bits, the tree after the
same history *without* them:

* `bubble_clean`, `insertAppend_clean`, `updLeaves_clean`, `applyH_clean`: an operation on the cleaned
  tree gives, up to dirty bits, what it gives on the tree itself (same refusals, same pages, same frontier);
* `stripF`: the tree operations of a history, flushes and reloads dropped;
* **`runF_erase`**: `clean (runF st ops).1 = clean (runH st (stripF ops)).1`, same allocation frontier.
-/
set_option autoImplicit false
namespace Mkdb.Store
open Mkdb.Page Mkdb.Tuple Mkdb.Generated Mkdb.Tree

theorem setLast_map {α β} (f : α → β) (l : List α) (a : α) : (setLast l a).map f = setLast (l.map f) (f a) := by
  simp [setLast, List.map_dropLast]

theorem cleanLvl_idem (l : List (Internal × Bool)) : cleanLvl (cleanLvl l) = cleanLvl l := by
  simp [cleanLvl, List.map_map]

theorem bubble_clean (lsn : Nat) : ∀ (lvls : List (List (Internal × Bool))) (sep l nc nf : Nat),
    (bubble lsn (lvls.map cleanLvl) sep l nc nf).1.map cleanLvl = (bubble lsn lvls sep l nc nf).1.map cleanLvl ∧
    (bubble lsn (lvls.map cleanLvl) sep l nc nf).2 = (bubble lsn lvls sep l nc nf).2 := by
  intro lvls
  induction lvls with
  | nil => intro sep l nc nf; exact ⟨rfl, rfl⟩
  | cons lvl rest ih =>
    intro sep l nc nf
    rcases eq_nil_or_snoc lvl with rfl | ⟨pre, ⟨p, d⟩, rfl⟩
    · simp [cleanLvl, bubble_cons_nil]
    · have hc : cleanLvl (pre ++ [(p, d)]) = cleanLvl pre ++ [(p, false)] := by simp [cleanLvl]
      rw [List.map_cons, hc, bubble_cons_snoc, bubble_cons_snoc]
      by_cases hlt : (intApp p sep nc lsn).cells.length < c_maxInternalNodeCells
      · rw [if_pos hlt, if_pos hlt]
        refine ⟨?_, rfl⟩
        simp [cleanLvl, List.map_map]
      · rw [if_neg hlt, if_neg hlt]
        obtain ⟨ih1, ih2⟩ := ih (midCell (intApp p sep nc lsn)).key p.off nf (nf + c_pageSize)
        refine ⟨?_, ih2⟩
        simp only [List.map_cons, ih1]
        congr 1
        simp [cleanLvl, List.map_map]


/-- the result of an insert with the dirty bits of the tree cleared -/
def cleanR : Except InsErr (Levels × Nat) → Except InsErr (Levels × Nat)
  | .ok r => .ok (clean r.1, r.2)
  | .error e => .error e

theorem clean_mk (lv : List (Leaf × Bool)) (inn : List (List (Internal × Bool))) :
    clean { leaves := lv, inner := inn } = { leaves := lv.map (fun p => (p.1, false)), inner := inn.map cleanLvl } := rfl

theorem insertAppend_clean (t : Levels) (k lsn : Nat) (v : Bytes) (nf : Nat) :
    cleanR (insertAppend (clean t) k lsn v nf) = cleanR (insertAppend t k lsn v nf) := by
  unfold insertAppend
  rw [cells_clean, clean_leaves, List.getLast?_map]
  cases hl : t.leaves.getLast? with
  | none => rfl
  | some ld =>
    obtain ⟨last, d⟩ := ld
    simp only [Option.map_some]
    by_cases h1 : (cells t).any (fun c => c.key == k) = true
    · simp only [h1, if_true]
    · simp only [h1]
      by_cases h2 : v.length > c_maxValueSize
      · simp only [h2, if_true]
      · simp only [h2]
        by_cases h3 : ((last.cells.getLast?.map (·.key)).getD 0 ≥ k && !last.cells.isEmpty) = true
        · simp only [h3, if_true]
        · simp only [h3]
          simp only [Bool.false_eq_true, if_false]
          have hmm : ∀ l : List (Leaf × Bool), (l.map (fun p => (p.1, false))).map (fun p => (p.1, false)) =
              l.map (fun p => (p.1, false)) := by
            intro l; rw [List.map_map]; rfl
          have hinn : (t.inner.map cleanLvl).map cleanLvl = t.inner.map cleanLvl := by
            rw [List.map_map]
            apply List.map_congr_left
            intro l _
            exact cleanLvl_idem l
          by_cases h4 : (last.cells ++ [(⟨k, false, v⟩ : LeafCell)]).length < c_maxLeafNodeCells
          · simp only [h4, if_true, cleanR, clean_mk, setLast_map, clean_inner', hmm, hinn]
          · simp only [h4, if_false, cleanR, clean_mk, setLast_map, clean_inner', hmm, List.map_append, List.map_cons,
              List.map_nil]
            obtain ⟨b1, b2⟩ := bubble_clean lsn t.inner
              ((Option.map (fun x => x.key)
                (List.drop ((last.cells ++ [(⟨k, false, v⟩ : LeafCell)]).length / 2)
                  (last.cells ++ [(⟨k, false, v⟩ : LeafCell)])).head?).getD 0)
              last.off nf (nf + c_pageSize)
            rw [b1, b2]


theorem updLeaf_fst (f : LeafCell → LeafCell) (key lsn : Nat) (p : Leaf × Bool) :
    (updLeaf f key lsn (p.1, false)).1 = (updLeaf f key lsn p).1 := by
  unfold updLeaf
  split <;> rfl

theorem updLeaves_clean (f : LeafCell → LeafCell) (key lsn : Nat) (t : Levels) :
    clean (updLeaves f key lsn (clean t)) = clean (updLeaves f key lsn t) := by
  unfold updLeaves
  simp only [clean_mk, clean_leaves, clean_inner', List.map_map, Levels.mk.injEq]
  refine ⟨?_, ?_⟩
  · apply List.map_congr_left
    intro p _
    simp only [Function.comp, updLeaf_fst]
  · apply List.map_congr_left
    intro l _
    exact cleanLvl_idem l

/-- an operation on the cleaned tree gives, up to dirty bits, what it gives on the tree -/
theorem applyH_clean (t : Levels) (nf : Nat) (o : HOp) :
    clean (applyH (clean t, nf) o).1 = clean (applyH (t, nf) o).1 ∧
    (applyH (clean t, nf) o).2 = (applyH (t, nf) o).2 := by
  cases o with
  | ins k lsn v =>
    have h := insertAppend_clean t k lsn v nf
    simp only [applyH]
    cases h1 : insertAppend (clean t) k lsn v nf with
    | ok r1 =>
      cases h2 : insertAppend t k lsn v nf with
      | ok r2 =>
        rw [h1, h2] at h
        simp only [cleanR, Except.ok.injEq, Prod.mk.injEq] at h
        exact h
      | error e2 => rw [h1, h2] at h; cases h
    | error e1 =>
      cases h2 : insertAppend t k lsn v nf with
      | ok r2 => rw [h1, h2] at h; cases h
      | error e2 => exact ⟨clean_clean t, rfl⟩
  | upd k lsn v =>
    simp only [applyH, setVal_eq]
    exact ⟨updLeaves_clean _ k lsn t, trivial⟩
  | del k lsn =>
    simp only [applyH, setDeleted_eq]
    exact ⟨updLeaves_clean _ k lsn t, trivial⟩

/-- trees that agree up to dirty bits agree up to dirty bits after an operation -/
theorem applyH_clean_congr {t u : Levels} (h : clean t = clean u) (nf : Nat) (o : HOp) :
    clean (applyH (t, nf) o).1 = clean (applyH (u, nf) o).1 ∧ (applyH (t, nf) o).2 = (applyH (u, nf) o).2 := by
  obtain ⟨a1, a2⟩ := applyH_clean t nf o
  obtain ⟨b1, b2⟩ := applyH_clean u nf o
  rw [h] at a1 a2
  exact ⟨a1.symm.trans b1, a2.symm.trans b2⟩

/-- the tree operations of a history, flushes and reloads dropped -/
def stripF (ops : List FROp) : List HOp :=
  ops.filterMap fun op => match op with | .op o => some o | _ => none

/-- **Flushes and reloads change nothing logical**: the tree after a history with flushes and reloads is,
up to dirty bits, the tree after the same history without them, and the allocation frontier is the same. -/
theorem runF_erase (ops : List FROp) : ∀ (st st' : Levels × Nat), clean st.1 = clean st'.1 → st.2 = st'.2 →
    clean (runF st ops).1 = clean (runH st' (stripF ops)).1 ∧ (runF st ops).2 = (runH st' (stripF ops)).2 := by
  induction ops with
  | nil => intro st st' h1 h2; exact ⟨h1, h2⟩
  | cons op rest ih =>
    intro st st' h1 h2
    cases op with
    | op o =>
      have hc := applyH_clean_congr h1 st.2 o
      have e1 : applyH st o = applyH (st.1, st.2) o := rfl
      have e2 : applyH st' o = applyH (st'.1, st.2) o := by rw [h2]
      exact ih (applyH st o) (applyH st' o) (by rw [e1, e2]; exact hc.1) (by rw [e1, e2]; exact hc.2)
    | flush order => exact ih (clean st.1, st.2) st' (by rw [clean_clean]; exact h1) h2
    | reload => exact ih (clean st.1, st.2) st' (by rw [clean_clean]; exact h1) h2

end Mkdb.Store
