import Mkdb.Proofs.SpecRefine2
/-!
End-to-end refinement, part 3: a refused INSERT.

* `insert_refused_abs`: a row the spec's `rowOf` refuses (wrong arity, a value that does not encode, a
  row over the size limit) is refused by the model's `Store.insert`; the abstraction is unchanged
  (an oversized row burns a row id and an LSN - `btInsert` advances the counters - nothing else).
* `evalInsert_refused_spec`: the first row is refused, or the table is unknown: the statement fails,
  the abstraction and the log are unchanged.
* `evalInsert_kth_refused_spec`: a later row is refused: the statement fails, the log is unchanged,
  and the rows before it STAY applied: the store abstracts to `sdb` with those rows appended (the
  known finding of the code; the spec says `none` = nothing changes).
-/
set_option autoImplicit false
namespace Mkdb.Store
open Mkdb.Page Mkdb.Tuple Mkdb.Generated Mkdb.Tree

/-! ### the encoder's errors -/

theorem validate_err (fd : FieldDef) (v : Val) (e : TErr) (h : validate fd v = .error e) :
    e = .typeMismatch ∨ e = .intOutOfRange := by
  unfold validate at h
  split at h
  · split at h
    · simp only [Except.error.injEq] at h; exact .inr h.symm
    · cases h
  · cases h
  · cases h
  · cases h
  · simp only [Except.error.injEq] at h; exact .inl h.symm

theorem encField_err (fd : FieldDef) (v : Val) (e : TErr) (h : encField fd v = .error e) :
    e = .typeMismatch ∨ e = .intOutOfRange := by
  unfold encField at h
  split at h
  · cases h
  · split at h
    · rename_i e' he'
      simp only [Except.error.injEq] at h
      subst h
      exact validate_err _ _ _ he'
    · split at h
      · cases h
      · cases h
      · cases h
      · cases h
      · simp only [Except.error.injEq] at h; exact .inl h.symm

theorem encodeTuple_err (sch : List FieldDef) (m : Vals) (e : TErr) (h : encodeTuple sch m = .error e) :
    e = .typeMismatch ∨ e = .intOutOfRange := by
  induction sch with
  | nil => cases h
  | cons fd t ih =>
    simp only [encodeTuple] at h
    split at h
    · rename_i e' he'
      simp only [Except.error.injEq] at h
      subst h
      exact encField_err _ _ _ he'
    · split at h
      · rename_i e' he'
        simp only [Except.error.injEq] at h
        subst h
        exact ih he'
      · cases h

/-! ### the levels insert refuses an oversized row -/

theorem insertAppend_tooLarge (t : Levels) (nf key lsn : Nat) (value : Bytes) (hI : Inv t nf)
    (hk : ∀ a ∈ keys t, a < key) (hv : value.length > c_maxValueSize) :
    insertAppend t key lsn value nf = .error .rowTooLarge := by
  have hne : t.leaves ≠ [] := by
    intro h
    have := linked_below_ne t.inner _ hI.link
    rw [h] at this
    exact this rfl
  obtain ⟨lpre, ⟨last, d⟩, hpre⟩ : ∃ lpre x, t.leaves = lpre ++ [x] := by
    rcases eq_nil_or_snoc t.leaves with h | h
    · exact absurd h hne
    · exact h
  have hlast : t.leaves.getLast? = some (last, d) := by rw [hpre]; exact List.getLast?_concat
  have hany : (cells t).any (fun c => c.key == key) = false := by
    rw [List.any_eq_false]
    intro c hc hck
    have := hk c.key (List.mem_map.mpr ⟨c, hc, rfl⟩)
    simp only [beq_iff_eq] at hck
    omega
  unfold insertAppend
  simp only [hlast, hany, Bool.false_eq_true, if_false, hv, if_true]

/-! ### `Store.insert` up to the row -/

theorem insert_prefix {s : Store} {pt sch : Levels} {tbls : List (Bytes × Levels)} (h : Cat s pt sch tbls)
    (table : Bytes) (t : Levels) (ht : (table, t) ∈ tbls) (schema : List FieldDef)
    (hsch : schemaOf sch table = some schema) (cols : List String) (vals : List Val) :
    ∃ s3, Same s s3 ∧ Cat s3 pt sch tbls ∧
      insert table cols vals s =
        (if (colsOf schema cols).length != vals.length then throw .colCountMismatch else
          match checkColumns schema (colsOf schema cols) with
          | some e => throw e
          | none =>
          encodeRow schema ((colsOf schema cols).zip vals).reverse >>= fun buf =>
          btInsert ⟨rootOff t⟩ buf >>= fun r =>
            if r.1.root != rootOff t then
              updatePageTable r.1.root table >>= fun logs =>
                pure ((⟨c_OpInsert, r.2.2, rootOff t, r.2.1, buf⟩ : WalRec) :: logs)
            else pure [(⟨c_OpInsert, r.2.2, rootOff t, r.2.1, buf⟩ : WalRec)]) s3 := by
  obtain ⟨s1, e1, hs1, hc1⟩ := relationOffset_cat h table t ht
  obtain ⟨n, s2, e2, hs2, hc2⟩ := fetch_root_cat hc1 ht
  obtain ⟨s3, e3, hs3, hc3⟩ := relationSchema_cat hc2 table schema hsch
  refine ⟨s3, (hs1.trans hs2).trans hs3, hc3, ?_⟩
  rw [insert_eq, bind_ok e1, bind_ok e2, bind_ok e3]
  rfl

/-- the errors with which `Store.insert` refuses a row -/
def RowRefusal (e : SErr) : Prop :=
  e = .colCountMismatch ∨ e = .typeMismatch ∨ e = .intOutOfRange ∨ e = .rowTooLarge ∨
    e = .fieldNotFound ∨ e = .fieldAmbiguous

theorem RowRefusal.of_checkColumns {schema : List FieldDef} {cs : List String} {e : SErr}
    (h : checkColumns schema cs = some e) : RowRefusal e := by
  rcases checkColumns_some h with rfl | rfl
  · exact .inr (.inr (.inr (.inr (.inl rfl))))
  · exact .inr (.inr (.inr (.inr (.inr rfl))))

/-- a row whose arity is right but whose column list fails `checkColumns` is refused with the error of
the check, before the row is looked at; nothing the engine can see changes -/
theorem insert_names_refused_cat {s : Store} {pt sch : Levels} {tbls : List (Bytes × Levels)}
    (h : Cat s pt sch tbls) (table : Bytes) (t : Levels) (ht : (table, t) ∈ tbls) (schema : List FieldDef)
    (hsch : schemaOf sch table = some schema) (cols : List String) (vals : List Val) (e : SErr)
    (hlen : (colsOf schema cols).length = vals.length)
    (hcc : checkColumns schema (colsOf schema cols) = some e) :
    ∃ s', insert table cols vals s = .err e s' ∧ Same s s' ∧ Cat s' pt sch tbls := by
  obtain ⟨s3, hs3, hc3, hrun⟩ := insert_prefix h table t ht schema hsch cols vals
  refine ⟨s3, ?_, hs3, hc3⟩
  have hb : ((colsOf schema cols).length != vals.length) = false := by simp [hlen]
  rw [hrun]
  simp only [hb, Bool.false_eq_true, if_false, hcc]
  rfl

/-- **A row the spec refuses is refused by the model, and the abstraction is unchanged.**  Nothing the
engine can see changes; the allocation frontier and the page-table root stay; the row-id counter
does not go back (an oversized row burns one id). -/
theorem insert_refused_abs {s : Store} {pt sch : Levels} {tbls : List (Bytes × Levels)} {sdb : Spec.SDB}
    (h : Abs s pt sch tbls sdb) (table : Bytes) (t : Levels) (ht : (table, t) ∈ tbls)
    (schema : List FieldDef) (hsch : schemaOf sch table = some schema)
    (cols : List Bytes) (vals : List Val)
    (hrow : Spec.rowOf (absTable table schema t) cols vals = none) :
    ∃ e s', insert table (cols.map Engine.bytesToName) vals s = .err e s' ∧ RowRefusal e ∧
      Abs s' pt sch tbls sdb ∧ view s' = view s ∧ s'.hdr.nextFree = s.hdr.nextFree ∧
      s.hdr.lastKey ≤ s'.hdr.lastKey := by
  obtain ⟨s3, hs3, hc3, hrun⟩ := insert_prefix h.cat table t ht schema hsch (cols.map Engine.bytesToName) vals
  have hcases := (specRowOf_none_iff (absTable table schema t) cols vals).mp hrow
  change (colsOf schema (cols.map Engine.bytesToName)).length ≠ vals.length ∨
    (∃ e, encodeTuple schema ((colsOf schema (cols.map Engine.bytesToName)).zip vals).reverse = .error e) ∨
    ∃ buf, encodeTuple schema ((colsOf schema (cols.map Engine.bytesToName)).zip vals).reverse = .ok buf ∧
      buf.length > c_maxValueSize at hcases
  by_cases hlen : (colsOf schema (cols.map Engine.bytesToName)).length = vals.length
  · have hb : ((colsOf schema (cols.map Engine.bytesToName)).length != vals.length) = false := by simp [hlen]
    cases hcc : checkColumns schema (colsOf schema (cols.map Engine.bytesToName)) with
    | some ec =>
      -- a column list naming an unknown column, or one column twice
      obtain ⟨s', he, hs', hc'⟩ := insert_names_refused_cat h.cat table t ht schema hsch _ vals ec hlen hcc
      exact ⟨ec, s', he, RowRefusal.of_checkColumns hcc, ⟨hc', h.tabs⟩, hs'.1, by rw [hs'.2],
        by rw [hs'.2]; exact Nat.le_refl _⟩
    | none =>
    rcases hcases with hne | ⟨err, henc⟩ | ⟨buf, henc, hsz⟩
    · exact absurd hlen hne
    · -- a value that does not encode
      have he : encodeRow schema ((colsOf schema (cols.map Engine.bytesToName)).zip vals).reverse s3 =
          .err (serrOf err) s3 := by
        unfold encodeRow
        rw [henc]
        cases err <;> rfl
      refine ⟨serrOf err, s3, ?_, ?_, ⟨hc3, h.tabs⟩, hs3.1, by rw [hs3.2], by rw [hs3.2]; exact Nat.le_refl _⟩
      · rw [hrun]
        simp only [hb, Bool.false_eq_true, if_false, hcc]
        rw [bind_err he]
      · rcases encodeTuple_err _ _ _ henc with rfl | rfl
        · exact .inr (.inl rfl)
        · exact .inr (.inr (.inl rfl))
    · -- a row over the size limit: `btInsert` refuses it and advances the counters
      obtain ⟨hHt3, hIt3, hdt3, _, hkt3⟩ := hc3.tree t (Cat.tb_mem ht)
      have he : encodeRow schema ((colsOf schema (cols.map Engine.bytesToName)).zip vals).reverse s3 =
          .ok buf s3 := by
        unfold encodeRow; rw [henc]
      have hta := insertAppend_tooLarge t s3.hdr.nextFree (s3.hdr.lastKey + 1) s3.hdr.nextLSN buf hIt3
        (fun a ha => Nat.lt_succ_of_le (hkt3 a ha)) hsz
      obtain ⟨s4, e4, hH4, hn4, hv4⟩ := insertKeyHeap_refines_rowTooLarge s3 t _ _ buf hHt3 hIt3 (by omega) hta
      have hik := insertKey_eq_insertKeyHeap s3 t _ _ buf hHt3 hIt3 hdt3 (.inr (.inr hta))
      rw [e4] at hik
      obtain ⟨k1, k2, k3⟩ := hrest_eq ((Keeps.insertKeyHeap _ _ _ _).err e4)
      have hbt : btInsert ⟨rootOff t⟩ buf s3 = .err .rowTooLarge (bumpCounters s4) := by
        unfold btInsert
        simp only [hik]
        rfl
      have hview : view (bumpCounters s4) = view s3 := funext fun off => hv4 off
      refine ⟨.rowTooLarge, bumpCounters s4, ?_, .inr (.inr (.inr (.inl rfl))), ⟨?_, h.tabs⟩, ?_, ?_, ?_⟩
      · rw [hrun]
        simp only [hb, Bool.false_eq_true, if_false, hcc]
        rw [bind_ok he, bind_err hbt]
      · exact hc3.of_view hview hn4 k2 (by show s3.hdr.lastKey ≤ s4.hdr.lastKey + 1; omega)
      · rw [hview, hs3.1]
      · show s4.hdr.nextFree = _
        rw [hn4, hs3.2]
      · show s.hdr.lastKey ≤ s4.hdr.lastKey + 1
        rw [k1, hs3.2]; omega
  · -- wrong arity
    have hb : ((colsOf schema (cols.map Engine.bytesToName)).length != vals.length) = true := by simpa using hlen
    refine ⟨.colCountMismatch, s3, ?_, .inl rfl, ⟨hc3, h.tabs⟩, hs3.1, by rw [hs3.2], by rw [hs3.2]; exact Nat.le_refl _⟩
    rw [hrun]
    simp only [hb, if_true]
    rfl

/-- **A column list the spec refuses** (a name that is not a column of the table, or a name used
twice) **is refused by the model, and the abstraction is unchanged**: with `colCountMismatch` when the
number of values is wrong too, else with the error of `checkColumns`. -/
theorem insert_badNames_abs {s : Store} {pt sch : Levels} {tbls : List (Bytes × Levels)} {sdb : Spec.SDB}
    (h : Abs s pt sch tbls sdb) (table : Bytes) (t : Levels) (ht : (table, t) ∈ tbls)
    (schema : List FieldDef) (hsch : schemaOf sch table = some schema)
    (cols : List Bytes) (vals : List Val)
    (hnames : Spec.namesOK (absTable table schema t) (cols.map Spec.nameStr) = false) :
    ∃ e s', insert table (cols.map Engine.bytesToName) vals s = .err e s' ∧
      (e = .colCountMismatch ∨ e = .fieldNotFound ∨ e = .fieldAmbiguous) ∧
      Abs s' pt sch tbls sdb ∧ Same s s' := by
  have hne : (cols.map Engine.bytesToName).isEmpty = false := by
    cases cols with
    | nil => simp [Spec.namesOK] at hnames
    | cons c rest => rfl
  have hcols : colsOf schema (cols.map Engine.bytesToName) = cols.map Spec.nameStr := by
    unfold colsOf
    rw [hne]
    rfl
  obtain ⟨ec, hcc, hkind⟩ := not_namesOK_checkColumns hnames
  change checkColumns schema (cols.map Spec.nameStr) = some ec at hcc
  by_cases hlen : (colsOf schema (cols.map Engine.bytesToName)).length = vals.length
  · obtain ⟨s', he, hs', hc'⟩ := insert_names_refused_cat h.cat table t ht schema hsch _ vals ec hlen
      (by rw [hcols]; exact hcc)
    exact ⟨ec, s', he, .inr hkind, ⟨hc', h.tabs⟩, hs'⟩
  · obtain ⟨s3, hs3, hc3, hrun⟩ := insert_prefix h.cat table t ht schema hsch (cols.map Engine.bytesToName) vals
    have hb : ((colsOf schema (cols.map Engine.bytesToName)).length != vals.length) = true := by simpa using hlen
    refine ⟨.colCountMismatch, s3, ?_, .inl rfl, ⟨hc3, h.tabs⟩, hs3⟩
    rw [hrun]
    simp only [hb, if_true]
    rfl

/-! ### the statement -/

theorem mapM_none_of_mem {α β} (f : α → Option β) : ∀ (l : List α), (∃ a ∈ l, f a = none) → l.mapM f = none
  | [], h => by obtain ⟨a, ha, _⟩ := h; cases ha
  | x :: rest, h => by
    rw [List.mapM_cons]
    cases hx : f x with
    | none => rfl
    | some b =>
      have : ∃ a ∈ rest, f a = none := by
        obtain ⟨a, ha, hfa⟩ := h
        rcases List.mem_cons.mp ha with rfl | ha
        · rw [hx] at hfa; cases hfa
        · exact ⟨a, ha, hfa⟩
      rw [mapM_none_of_mem f rest this]
      rfl

theorem evalInsert_go_err (db : Engine.DB) (table : Bytes) (cols : List Bytes)
    (r : List Val) (rest : List (List Val)) (s s' : Store) (batch : List WalRec) (n : Nat) (e : SErr)
    (h : insert table (cols.map Engine.bytesToName) r s = .err e s') :
    Engine.evalInsert.go db table cols s batch n (r :: rest) = .err (.store e) { db with store := s' } := by
  simp only [Engine.evalInsert.go, h]

/-- the spec refuses a statement with a row `rowOf` refuses -/
theorem specInsert_none_of_bad_row (sdb : Spec.SDB) (table : Bytes) (cols : List Bytes) (rows : List (List Val))
    (st : Spec.STable) (hfind : Spec.findTable sdb table = some st)
    (hbad : ∃ r ∈ rows, Spec.rowOf st cols r = none) : Spec.specInsert sdb table cols rows = none := by
  unfold Spec.specInsert
  rw [hfind]
  simp only [Option.bind_eq_bind, Option.bind_some]
  split
  · rfl
  · rw [mapM_none_of_mem _ rows hbad]
    rfl

/-- the spec refuses a statement (with at least one row) whose column list names an unknown column or
one column twice -/
theorem specInsert_none_of_bad_names (sdb : Spec.SDB) (table : Bytes) (cols : List Bytes)
    (r : List Val) (rest : List (List Val))
    (st : Spec.STable) (hfind : Spec.findTable sdb table = some st)
    (hbad : Spec.namesOK st (cols.map Spec.nameStr) = false) :
    Spec.specInsert sdb table cols (r :: rest) = none := by
  unfold Spec.specInsert
  rw [hfind]
  simp only [Option.bind_eq_bind, Option.bind_some, hbad, List.isEmpty_cons]
  rfl

/-- **INSERT, first row refused** (C14 at the level of the spec).  The spec refuses the statement
because the table is unknown, because `rowOf` refuses the FIRST row, or because the column list names a
column the table does not have or one column twice: the model's `evalInsert` fails with the store's
error, the log is untouched and the store abstracts to the same spec database. -/
theorem evalInsert_refused_spec (db : Engine.DB) (pt sch : Levels) (tbls : List (Bytes × Levels))
    (sdb : Spec.SDB) (h : Abs db.store pt sch tbls sdb) (table : Bytes) (cols : List Bytes)
    (r : List Val) (rest : List (List Val))
    (hbad : (Spec.findTable sdb table = none ∧ table ≠ sysPages ∧ table ≠ sysSchema) ∨
      ∃ st, Spec.findTable sdb table = some st ∧
        (Spec.rowOf st cols r = none ∨ Spec.namesOK st (cols.map Spec.nameStr) = false)) :
    Spec.specInsert sdb table cols (r :: rest) = none ∧
    ∃ e db', Engine.evalInsert db table cols (r :: rest) = .err (.store e) db' ∧
      (e = .tableNotExist ∨ RowRefusal e) ∧ db'.wal = db.wal ∧ Abs db'.store pt sch tbls sdb := by
  rcases hbad with ⟨hnone, h1, h2⟩ | ⟨st, hfind, hrow⟩
  · have hn : table ∉ tbls.map (·.1) := by
      intro hm
      obtain ⟨e, he, hen⟩ := List.mem_map.mp hm
      obtain ⟨schema, _, _, hf⟩ := h.tabs.find h.cat.tnames (table := table) (t := e.2) (by rw [← hen]; exact he)
      rw [hf] at hnone
      cases hnone
    obtain ⟨s', e, hs, hc⟩ := insert_unknown_table db.store pt sch tbls h.cat table (cols.map Engine.bytesToName) r
      h1 h2 hn
    refine ⟨?_, .tableNotExist, { db with store := s' }, ?_, .inl rfl, rfl, ⟨hc, h.tabs⟩⟩
    · unfold Spec.specInsert
      rw [hnone]
      rfl
    · exact evalInsert_go_err db table cols r rest db.store s' [] 0 _ e
  · obtain ⟨t, ht⟩ := h.tabs.find_some hfind
    obtain ⟨schema, hsch, _, hf⟩ := h.tabs.find h.cat.tnames ht
    rw [hfind] at hf
    simp only [Option.some.injEq] at hf
    subst hf
    rcases hrow with hrow | hnames
    · obtain ⟨e, s', he, hre, habs, _⟩ := insert_refused_abs h table t ht schema hsch cols r hrow
      refine ⟨specInsert_none_of_bad_row sdb table cols _ _ hfind ⟨r, List.mem_cons_self, hrow⟩,
        e, { db with store := s' }, ?_, .inr hre, rfl, habs⟩
      exact evalInsert_go_err db table cols r rest db.store s' [] 0 _ he
    · obtain ⟨e, s', he, hre, habs, _⟩ := insert_badNames_abs h table t ht schema hsch cols r hnames
      refine ⟨specInsert_none_of_bad_names sdb table cols r rest _ hfind hnames,
        e, { db with store := s' }, ?_, .inr ?_, rfl, habs⟩
      · exact evalInsert_go_err db table cols r rest db.store s' [] 0 _ he
      · rcases hre with rfl | rfl | rfl
        · exact .inl rfl
        · exact .inr (.inr (.inr (.inr (.inl rfl))))
        · exact .inr (.inr (.inr (.inr (.inr rfl))))

/-- **INSERT, a later row refused** (the known finding).  The rows `good` are accepted by the spec's
`rowOf`, the next row `bad` is not: the spec refuses the whole statement (nothing changes), but the
model's `evalInsert` fails only AFTER having applied the rows `good` to the store: the log is
untouched, the store abstracts to `sdb` WITH the rows of `good` appended to the table.  (The column
list is one the spec accepts, `hnames`: a bad column list is refused at the first row, before
anything is applied - `evalInsert_refused_spec`.) -/
theorem evalInsert_kth_refused_spec (db : Engine.DB) (pt sch : Levels) (tbls : List (Bytes × Levels))
    (sdb : Spec.SDB) (h : Abs db.store pt sch tbls sdb)
    (table : Bytes) (t : Levels) (ht : (table, t) ∈ tbls)
    (schema : List FieldDef) (hsch : schemaOf sch table = some schema)
    (cols : List Bytes) (good : List (List Val)) (bad : List Val) (rest : List (List Val))
    (goodRows : List (List Val)) (hvalid : ∀ r ∈ good, ∀ v ∈ r, ValidVal v)
    (hgood : good.mapM (Spec.rowOf (absTable table schema t) cols) = some goodRows)
    (hbad : Spec.rowOf (absTable table schema t) cols bad = none)
    (hnames : Spec.namesOK (absTable table schema t) (cols.map Spec.nameStr) = true)
    (hrun : InsRunOK schema (cols.map Engine.bytesToName) t db.store.hdr.lastKey db.store.hdr.nextLSN
      db.store.hdr.nextFree good) :
    Spec.specInsert sdb table cols (good ++ bad :: rest) = none ∧
    ∃ e db' ptF t', Engine.evalInsert db table cols (good ++ bad :: rest) = .err (.store e) db' ∧
      RowRefusal e ∧ db'.wal = db.wal ∧
      Abs db'.store ptF sch (setTable tbls table t')
        (sdb.map (updRows table (fun r => r ++ idRows db.store.hdr.lastKey goodRows))) := by
  obtain ⟨schema', hsch', _, hfind⟩ := h.tabs.find h.cat.tnames ht
  rw [hsch] at hsch'
  simp only [Option.some.injEq] at hsch'
  subst hsch'
  refine ⟨specInsert_none_of_bad_row sdb table cols _ _ hfind ⟨bad, by simp, hbad⟩, ?_⟩
  obtain ⟨s1, ptF, t', logs, ego, _, habs, _⟩ := evalInsert_go_spec db table cols sch schema hsch (bad :: rest)
    good goodRows db.store pt tbls t sdb [] 0 h ht hvalid hgood
    (.inr (checkColumns_of_namesOK (absTable table schema t) cols (h.tabs.names_nodup ht hsch) hnames)) hrun
  obtain ⟨e, s', he, hre, habs', _⟩ := insert_refused_abs habs table t' (mem_setTable_self t' ht) schema hsch
    cols bad hbad
  refine ⟨e, { db with store := s' }, ptF, t', ?_, hre, rfl, habs'⟩
  unfold Engine.evalInsert
  rw [ego]
  exact evalInsert_go_err db table cols bad rest s1 s' _ _ e he

end Mkdb.Store
