import Mkdb.Proofs.SpecRefineB2
import Mkdb.Proofs.CreateCat
/-!
End-to-end refinement, part B3: CREATE TABLE against the spec.

* `colField_eq`: the spec's `colField` is the model's `colTypeToField`.
* `NoStale sch tbls`: `sys_schema` has no rows for names that are not tables (the two catalog tables
  aside).  `Abs` does not imply it (it says nothing about rows of `sys_schema` under unknown names), and
  without it a new table would inherit stale columns (`createTable_cat`: the schema read back is the old
  rows for that name ++ the declared columns).  All statements preserve it
  (`NoStale.setTable` for DML, `evalCreateTable_refines_specV` for CREATE TABLE).
* `evalCreateTable_refines_specV`: a CREATE TABLE the spec accepts, with the catalog rows fitting
  (`checkCatalogRows … = none`, which the spec does not know), no `VARCHAR(n)` with `n < -2^31` (which
  the spec does not refuse) and the room conditions of `createTable_cat`.
* `evalCreateTable_refused_specV`: the refusals the spec shares with the model: the name exists (a user
  table, `sys_schema`, `sys_pages` when the page table lists itself) → `tableAlreadyExist`; a
  `VARCHAR(n)` with `n > 2^31-1` → `intOutOfRange`; nothing changes.
* `evalCreateTable_catalog_refused`: what the spec does not know: catalog rows that do not fit, or a
  `VARCHAR(n)` with `n < -2^31`, are refused by the model, nothing changes.
-/
set_option autoImplicit false
namespace Mkdb.Store
open Mkdb.Page Mkdb.Tuple Mkdb.Generated Mkdb.Tree

theorem colField_eq (c : Sql.ColDef) : Spec.colField c = Engine.colTypeToField c := by
  unfold Spec.colField Engine.colTypeToField
  cases c.ty <;> rfl

theorem colFields_eq (cols : List Sql.ColDef) : cols.map Spec.colField = cols.map Engine.colTypeToField :=
  List.map_congr_left fun c _ => colField_eq c

/-- `sys_schema` has no rows for a name that is neither a user table nor a catalog table -/
def NoStale (sch : Levels) (tbls : List (Bytes × Levels)) : Prop :=
  ∀ n, n ∉ tbls.map (·.1) → n ≠ sysPages → n ≠ sysSchema → schemaOf sch n = some []

theorem NoStale.setTable {sch : Levels} {tbls : List (Bytes × Levels)} (h : NoStale sch tbls) (table : Bytes)
    (t' : Levels) : NoStale sch (setTable tbls table t') := by
  intro n hn
  rw [setTable_names] at hn
  exact h n hn

/-! ### the abstraction of the table list after CREATE TABLE -/

theorem AbsTables.append {sch : Levels} {l1 l2 : List (Bytes × Levels)} {d1 d2 : Spec.SDB}
    (h1 : AbsTables sch l1 d1) (h2 : AbsTables sch l2 d2) : AbsTables sch (l1 ++ l2) (d1 ++ d2) := by
  induction h1 with
  | nil => exact h2
  | cons hx _ ih => exact .cons hx ih

/-- flushed trees under a `sys_schema` that spells the same columns for every table -/
theorem AbsTables.clean_sch {sch sch' : Levels} {tbls : List (Bytes × Levels)} {sdb : Spec.SDB}
    (h : AbsTables sch tbls sdb) (hs : ∀ n ∈ tbls.map (·.1), schemaOf sch' n = schemaOf sch n) :
    AbsTables sch' (tbls.map fun e => (e.1, clean e.2)) sdb := by
  induction h with
  | nil => exact .nil
  | @cons e st tbls' sdb' hx _ ih =>
    refine .cons ?_ (ih (fun n hn => hs n (by simp only [List.map_cons, List.mem_cons]; exact .inr hn)))
    obtain ⟨schema, h1, hnd, h2, h3⟩ := hx
    refine ⟨schema, ?_, hnd, ?_, ?_⟩
    · show schemaOf sch' e.1 = some schema
      rw [hs e.1 (by simp), h1]
    · intro c hc
      simp only [live_clean] at hc
      exact h2 c hc
    · rw [h3]
      simp only [absTable, live_clean]

/-! ### CREATE TABLE the spec accepts -/

/-- what the spec's `specCreate … = some _` says -/
theorem specCreate_some {sdb sdb' : Spec.SDB} {name : Bytes} {cols : List Sql.ColDef}
    (h : Spec.specCreate sdb name cols = some sdb') :
    Spec.findTable sdb name = none ∧ name ≠ sysPages ∧ name ≠ sysSchema ∧
    (∀ c ∈ cols, ∀ n, c.ty = .varchar n → n ≤ 2147483647) ∧
    (cols.map fun c => Spec.nameStr c.name).Nodup ∧
    sdb' = sdb ++ [⟨name, cols.map Spec.colField, []⟩] := by
  unfold Spec.specCreate at h
  split at h
  · cases h
  · rename_i h1
    split at h
    · cases h
    · rename_i h2
      split at h
      · cases h
      · rename_i h3
        simp only [Option.some.injEq] at h
        simp only [Bool.or_eq_true, beq_iff_eq, not_or, Option.isSome_iff_ne_none, ne_eq, Classical.not_not] at h1
        refine ⟨h1.1.1, h1.1.2, h1.2, ?_, ?_, h.symm⟩
        · intro c hc n hty
          apply Classical.byContradiction
          intro hgt
          apply h2
          rw [List.any_eq_true]
          exact ⟨c, hc, by simp only [hty, decide_eq_true_eq]; omega⟩
        · apply (eraseDups_length_eq_iff _).mp
          have : (cols.map fun c => Spec.nameStr c.name).eraseDups.length = cols.length := by
            simpa using h3
          rw [this, List.length_map]

/-- a repeated column name makes the spec refuse -/
theorem specCreate_none_of_dup {sdb : Spec.SDB} {name : Bytes} {cols : List Sql.ColDef}
    (hdup : ¬ (cols.map fun c => Spec.nameStr c.name).Nodup) : Spec.specCreate sdb name cols = none := by
  cases h : Spec.specCreate sdb name cols with
  | none => rfl
  | some sdb' => exact absurd (specCreate_some h).2.2.2.2.1 hdup

/-- the column lengths the model checks -/
theorem colLens_ok (cols : List Sql.ColDef) (hhi : ∀ c ∈ cols, ∀ n, c.ty = .varchar n → n ≤ 2147483647)
    (hlo : ∀ c ∈ cols, ∀ n, c.ty = .varchar n → -2147483648 ≤ n) :
    (cols.map Engine.colTypeToField).any (fun fd => fd.len > 2147483647 || fd.len < -2147483648) = false := by
  rw [List.any_eq_false]
  intro fd hfd
  obtain ⟨c, hc, rfl⟩ := List.mem_map.mp hfd
  unfold Engine.colTypeToField
  cases hty : c.ty with
  | varchar n =>
    have h1 := hhi c hc n hty
    have h2 := hlo c hc n hty
    simp only [Bool.or_eq_true, decide_eq_true_eq, not_or]
    omega
  | int => simp
  | bigint => simp
  | boolean => simp

theorem colNames_eq (cols : List Sql.ColDef) :
    (cols.map Engine.colTypeToField).map (·.name) = cols.map fun c => Spec.nameStr c.name := by
  rw [List.map_map]
  apply List.map_congr_left
  intro c _
  simp only [Function.comp, Engine.colTypeToField]
  cases c.ty <;> rfl

/-- the per-column checks of the model: lengths inside `int32`, no column name twice -/
theorem colFields_ok (cols : List Sql.ColDef) (hhi : ∀ c ∈ cols, ∀ n, c.ty = .varchar n → n ≤ 2147483647)
    (hlo : ∀ c ∈ cols, ∀ n, c.ty = .varchar n → -2147483648 ≤ n)
    (hnd : (cols.map fun c => Spec.nameStr c.name).Nodup) :
    checkFieldsFrom [] (cols.map Engine.colTypeToField) = none := by
  rw [checkFields_none_iff, colNames_eq]
  refine ⟨?_, hnd⟩
  intro fd hfd
  have := List.any_eq_false.mp (colLens_ok cols hhi hlo) fd hfd
  simp only [Bool.or_eq_true, decide_eq_true_eq, not_or] at this
  omega

/-- a repeated column name makes the model's per-column checks object (with `fieldAmbiguous`, or with
`intOutOfRange` when an earlier column has a length outside `int32`) -/
theorem colFields_dup (cols : List Sql.ColDef) (hdup : ¬ (cols.map fun c => Spec.nameStr c.name).Nodup) :
    ∃ e, checkFieldsFrom [] (cols.map Engine.colTypeToField) = some e ∧
      (e = .intOutOfRange ∨ e = .fieldAmbiguous) := by
  cases h : checkFieldsFrom [] (cols.map Engine.colTypeToField) with
  | some e => exact ⟨e, rfl, checkFieldsFrom_some h⟩
  | none =>
    have := ((checkFields_none_iff _).mp h).2
    rw [colNames_eq] at this
    exact absurd this hdup

theorem findTable_none_notin {sch : Levels} {tbls : List (Bytes × Levels)} {sdb : Spec.SDB}
    (h : AbsTables sch tbls sdb) (hnd : (tbls.map (·.1)).Nodup) {name : Bytes}
    (hf : Spec.findTable sdb name = none) : name ∉ tbls.map (·.1) := by
  intro hm
  obtain ⟨e, he, hen⟩ := List.mem_map.mp hm
  obtain ⟨schema, _, _, hf'⟩ := h.find hnd (table := name) (t := e.2) (by rw [← hen]; exact he)
  rw [hf'] at hf
  cases hf

theorem valsOf_append (a b : Spec.SDB) : valsOf (a ++ b) = valsOf a ++ valsOf b := by
  unfold valsOf; rw [List.map_append]

/-- **CREATE TABLE refines the spec.**  If the store abstracts (modulo row ids) to `sdb`, `sys_schema`
has no stale rows, every cached page is filed under its own offset, the spec accepts the statement,
(so no column name is used twice), the catalog rows fit (`checkCatalogRows`), no `VARCHAR` length is
below `-2^31`, and the room
conditions of `createTable_cat` hold, then `evalCreateTable` (with its flush) succeeds, the log is
untouched, and the flushed store abstracts to `sdb'` = `sdb` with the new empty table appended; the
new catalog has no stale rows either, and the cache is clean. -/
theorem evalCreateTable_refines_specV (db : Engine.DB) (pt sch : Levels) (tbls : List (Bytes × Levels))
    (sdb sdb' : Spec.SDB) (h : AbsV db.store pt sch tbls sdb) (hns : NoStale sch tbls)
    (hmf : MemFiled db.store) (name : Bytes) (cols : List Sql.ColDef) (order : List Nat)
    (hspec : Spec.specCreate sdb name cols = some sdb')
    (hlo : ∀ c ∈ cols, ∀ n, c.ty = .varchar n → -2147483648 ≤ n)
    (hchk : checkCatalogRows (cols.map Engine.colTypeToField) name = none)
    (hpd : pt.inner.length + 3 ≤ treeFuel) (hpl : pt.leaves.length + 1 ≤ scanFuel)
    (hsd : sch.inner.length + cols.length + 2 ≤ treeFuel) (hsl : sch.leaves.length + cols.length ≤ scanFuel)
    (hbig : db.store.hdr.nextFree + 262144 * cols.length + 262144 ≤ 9223372036854775807) :
    ∃ db' pt' sch',
      Engine.evalCreateTable db name cols order true = .ok () db' ∧ db'.wal = db.wal ∧
      AbsV db'.store pt' sch'
        ((tbls.map fun e => (e.1, clean e.2)) ++ [(name, clean (emptyTree db.store.hdr.nextFree))]) sdb' ∧
      NoStale sch'
        ((tbls.map fun e => (e.1, clean e.2)) ++ [(name, clean (emptyTree db.store.hdr.nextFree))]) ∧
      MemFiled db'.store ∧ db'.store.dhdr = db'.store.hdr ∧ (∀ p ∈ db'.store.mem, p.2.dirty = false) ∧
      db'.store.hdr.lastKey = db.store.hdr.lastKey + 1 + cols.length := by
  obtain ⟨sdb0, habs, hv⟩ := h
  obtain ⟨hfind, hn1, hn2, hhi, hndc, rfl⟩ := specCreate_some hspec
  have hfind0 : Spec.findTable sdb0 name = none := (findTable_none_congr hv name).mpr hfind
  have hn3 : name ∉ tbls.map (·.1) := findTable_none_notin habs.tabs habs.cat.tnames hfind0
  have hlenr := colFields_ok cols hhi hlo hndc
  obtain ⟨sN, s', pt1, nf1, ptN, schN, _, e2, hc', _, hd, _, hf', _, hnd, _, _, _, _, _, _, _, hso1, hso2, lk, _⟩ :=
    createTable_cat habs.cat hmf (cols.map Engine.colTypeToField) name order hn1 hn2 hn3 hlenr hchk hpd hpl
      (by rw [List.length_map]; exact hsd) (by rw [List.length_map]; exact hsl)
      (by rw [List.length_map]; exact hbig)
  have hsnew : schemaOf (clean schN) name = some (cols.map Engine.colTypeToField) := by
    rw [hso1, hns name hn3 hn1 hn2]; rfl
  refine ⟨{ db with store := s' }, clean ptN, clean schN, ?_, rfl, ⟨sdb0 ++ [⟨name, cols.map Engine.colTypeToField, []⟩],
    ⟨hc', ?_⟩, ?_⟩, ?_, hf', hd, hnd, by rw [lk, List.length_map]⟩
  · simp only [Engine.evalCreateTable, Engine.liftS, e2]
  · apply AbsTables.append
    · apply habs.tabs.clean_sch
      intro n hn
      exact hso2 n (fun heq => hn3 (heq ▸ hn))
    · exact .cons ⟨cols.map Engine.colTypeToField, hsnew, ((checkFields_none_iff _).mp hlenr).2,
        (by intro c hc; cases hc), rfl⟩ .nil
  · rw [valsOf_append, valsOf_append, hv, colFields_eq]
  · intro n hn h1 h2
    have hne : n ≠ name := by
      intro heq
      apply hn
      rw [heq, List.map_append]
      exact List.mem_append_right _ (by simp)
    rw [hso2 n hne]
    apply hns n ?_ h1 h2
    intro hm
    apply hn
    rw [List.map_append, List.map_map]
    exact List.mem_append_left _ hm

/-! ### refusals -/

/-- why spec and model both refuse a CREATE TABLE -/
inductive CreateRefusal (sdb : Spec.SDB) (pt : Levels) (name : Bytes) (cols : List Sql.ColDef) : Prop
  | exists_ : (Spec.findTable sdb name).isSome → CreateRefusal sdb pt name cols
  | sysSchema : name = sysSchema → CreateRefusal sdb pt name cols
  | sysPages (off : Nat) : name = sysPages → (sysPages, off) ∈ ptEntries pt → CreateRefusal sdb pt name cols
  | tooLong (c : Sql.ColDef) (n : Int) : Spec.findTable sdb name = none → name ≠ sysPages → name ≠ sysSchema →
      c ∈ cols → c.ty = .varchar n → n > 2147483647 → CreateRefusal sdb pt name cols
  | dupColumn : Spec.findTable sdb name = none → name ≠ sysPages → name ≠ sysSchema →
      ¬ (cols.map fun c => Spec.nameStr c.name).Nodup → CreateRefusal sdb pt name cols

theorem createTable_of_offset_ok (fields : List FieldDef) (name : Bytes) (order : List Nat) (doFlush : Bool)
    (s s1 : Store) (off : Nat) (h : relationOffset name s = .ok off s1) :
    createTable fields name order doFlush s = .err .tableAlreadyExist s1 := by
  unfold createTable
  rw [h]

/-- **CREATE TABLE refused.**  The spec refuses (`specCreate … = none`) because the name is taken, a
`VARCHAR` length exceeds `2^31-1`, or a column name is used twice: the model refuses with
`tableAlreadyExist` resp. `intOutOfRange` / `fieldAmbiguous` (the per-column checks run column by
column: whichever of an over-long length and a repeated name comes first); pages and header are as
before, the log is untouched, the abstraction is the same. -/
theorem evalCreateTable_refused_specV (db : Engine.DB) (pt sch : Levels) (tbls : List (Bytes × Levels))
    (sdb : Spec.SDB) (h : AbsV db.store pt sch tbls sdb) (name : Bytes) (cols : List Sql.ColDef)
    (order : List Nat) (doFlush : Bool) (hbad : CreateRefusal sdb pt name cols) :
    Spec.specCreate sdb name cols = none ∧
    ∃ e db', Engine.evalCreateTable db name cols order doFlush = .err (.store e) db' ∧
      (e = .tableAlreadyExist ∨ e = .intOutOfRange ∨ e = .fieldAmbiguous) ∧ db'.wal = db.wal ∧
      Same db.store db'.store ∧ AbsV db'.store pt sch tbls sdb := by
  obtain ⟨sdb0, habs, hv⟩ := h
  cases hbad with
  | exists_ hsome =>
    constructor
    · unfold Spec.specCreate
      simp only [hsome, Bool.true_or, if_true]
    · have hn : name ∈ tbls.map (·.1) := by
        apply Classical.byContradiction
        intro hn
        have h0 := habs.tabs.find_none hn
        have := (findTable_none_congr hv name).mp h0
        rw [this] at hsome
        cases hsome
      obtain ⟨s', e, hs, hc⟩ := createTable_exists_cat habs.cat (cols.map Engine.colTypeToField) name order doFlush hn
      refine ⟨_, { db with store := s' }, ?_, .inl rfl, rfl, hs, ⟨sdb0, ⟨hc, habs.tabs⟩, hv⟩⟩
      simp only [Engine.evalCreateTable, Engine.liftS, e]
  | sysSchema hname =>
    subst hname
    constructor
    · unfold Spec.specCreate
      have : (sysSchema == "sys_schema".toUTF8.toList) = true := by simp [sysSchema]
      simp only [this, Bool.or_true, if_true]
    · obtain ⟨s', e, hs, hc⟩ := createTable_sysSchema_cat habs.cat (cols.map Engine.colTypeToField) order doFlush
      refine ⟨_, { db with store := s' }, ?_, .inl rfl, rfl, hs, ⟨sdb0, ⟨hc, habs.tabs⟩, hv⟩⟩
      simp only [Engine.evalCreateTable, Engine.liftS, e]
  | sysPages off hname hent =>
    subst hname
    constructor
    · unfold Spec.specCreate
      have : (sysPages == "sys_pages".toUTF8.toList) = true := by simp [sysPages]
      simp only [this, Bool.or_true, Bool.true_or, if_true]
    · obtain ⟨s', e1, hs⟩ := relationOffset_entry habs.cat sysPages off hent
      have e := createTable_of_offset_ok (cols.map Engine.colTypeToField) sysPages order doFlush _ _ _ e1
      refine ⟨_, { db with store := s' }, ?_, .inl rfl, rfl, hs, ⟨sdb0, ⟨habs.cat.of_same hs, habs.tabs⟩, hv⟩⟩
      simp only [Engine.evalCreateTable, Engine.liftS, e]
  | tooLong c n hfind hn1 hn2 hc hty hgt =>
    constructor
    · unfold Spec.specCreate
      have h1 : ((Spec.findTable sdb name).isSome || name == "sys_pages".toUTF8.toList ||
          name == "sys_schema".toUTF8.toList) = false := by
        have a : (name == "sys_pages".toUTF8.toList) = false := by
          simpa [sysPages] using hn1
        have b : (name == "sys_schema".toUTF8.toList) = false := by
          simpa [sysSchema] using hn2
        simp only [hfind, Option.isSome_none, a, b, Bool.or_self]
      simp only [h1, Bool.false_eq_true, if_false]
      split
      · rfl
      · rename_i hany
        exfalso
        apply hany
        rw [List.any_eq_true]
        exact ⟨c, hc, by simp only [hty, decide_eq_true_eq]; exact hgt⟩
    · have hfind0 : Spec.findTable sdb0 name = none := (findTable_none_congr hv name).mpr hfind
      have hn3 : name ∉ tbls.map (·.1) := findTable_none_notin habs.tabs habs.cat.tnames hfind0
      obtain ⟨s', e1, hs, hc'⟩ := relationOffset_cat_unknown habs.cat name hn1 hn2 hn3
      have hany : (cols.map Engine.colTypeToField).any
          (fun fd => fd.len > 2147483647 || fd.len < -2147483648) = true := by
        rw [List.any_eq_true]
        refine ⟨Engine.colTypeToField c, List.mem_map.mpr ⟨c, hc, rfl⟩, ?_⟩
        unfold Engine.colTypeToField
        simp only [hty, Bool.or_eq_true, decide_eq_true_eq]
        exact .inl hgt
      obtain ⟨ec, hfld⟩ := checkFieldsFrom_of_len (seen := []) hany
      have e : createTable (cols.map Engine.colTypeToField) name order doFlush db.store = .err ec s' := by
        unfold createTable
        rw [e1]
        simp only [hfld]
      refine ⟨_, { db with store := s' }, ?_, .inr (checkFieldsFrom_some hfld), rfl, hs,
        ⟨sdb0, ⟨hc', habs.tabs⟩, hv⟩⟩
      simp only [Engine.evalCreateTable, Engine.liftS, e]
  | dupColumn hfind hn1 hn2 hdup =>
    refine ⟨specCreate_none_of_dup hdup, ?_⟩
    have hfind0 : Spec.findTable sdb0 name = none := (findTable_none_congr hv name).mpr hfind
    have hn3 : name ∉ tbls.map (·.1) := findTable_none_notin habs.tabs habs.cat.tnames hfind0
    obtain ⟨s', e1, hs, hc'⟩ := relationOffset_cat_unknown habs.cat name hn1 hn2 hn3
    obtain ⟨ec, hfld, hkind⟩ := colFields_dup cols hdup
    have e : createTable (cols.map Engine.colTypeToField) name order doFlush db.store = .err ec s' := by
      unfold createTable
      rw [e1]
      simp only [hfld]
    refine ⟨_, { db with store := s' }, ?_, .inr hkind, rfl, hs, ⟨sdb0, ⟨hc', habs.tabs⟩, hv⟩⟩
    simp only [Engine.evalCreateTable, Engine.liftS, e]

/-- **What the spec does not know.**  For a fresh name, catalog rows that do not encode or do not fit
a page cell (`checkCatalogRows … = some e`: a table or column name that is too long), or a column
length outside `int32` (or whatever else the per-column checks object to), make the model refuse;
nothing changes.  (The spec's `specCreate` accepts such a statement unless a `VARCHAR` length exceeds
`2^31-1` or a column name is used twice.) -/
theorem evalCreateTable_catalog_refused (db : Engine.DB) (pt sch : Levels) (tbls : List (Bytes × Levels))
    (sdb : Spec.SDB) (h : AbsV db.store pt sch tbls sdb) (name : Bytes) (cols : List Sql.ColDef)
    (order : List Nat) (doFlush : Bool)
    (hfind : Spec.findTable sdb name = none) (hn1 : name ≠ sysPages) (hn2 : name ≠ sysSchema)
    (hbad : (cols.map Engine.colTypeToField).any (fun fd => fd.len > 2147483647 || fd.len < -2147483648) = true ∨
      (∃ e, checkFieldsFrom [] (cols.map Engine.colTypeToField) = some e) ∨
      ∃ e, checkCatalogRows (cols.map Engine.colTypeToField) name = some e) :
    ∃ e db', Engine.evalCreateTable db name cols order doFlush = .err (.store e) db' ∧
      db'.wal = db.wal ∧ Same db.store db'.store ∧ AbsV db'.store pt sch tbls sdb := by
  obtain ⟨sdb0, habs, hv⟩ := h
  have hfind0 : Spec.findTable sdb0 name = none := (findTable_none_congr hv name).mpr hfind
  have hn3 : name ∉ tbls.map (·.1) := findTable_none_notin habs.tabs habs.cat.tnames hfind0
  obtain ⟨s', e1, hs, hc'⟩ := relationOffset_cat_unknown habs.cat name hn1 hn2 hn3
  cases hfld : checkFieldsFrom [] (cols.map Engine.colTypeToField) with
  | some ec =>
    have e : createTable (cols.map Engine.colTypeToField) name order doFlush db.store = .err ec s' := by
      unfold createTable
      rw [e1]
      simp only [hfld]
    refine ⟨ec, { db with store := s' }, ?_, rfl, hs, ⟨sdb0, ⟨hc', habs.tabs⟩, hv⟩⟩
    simp only [Engine.evalCreateTable, Engine.liftS, e]
  | none =>
    rcases hbad with hb | ⟨x, hx⟩ | ⟨x, hx⟩
    · rw [checkFieldsFrom_none_len hfld] at hb
      cases hb
    · rw [hfld] at hx
      cases hx
    · have e : createTable (cols.map Engine.colTypeToField) name order doFlush db.store = .err x s' := by
        unfold createTable
        rw [e1]
        simp only [hfld, hx]
      refine ⟨x, { db with store := s' }, ?_, rfl, hs, ⟨sdb0, ⟨hc', habs.tabs⟩, hv⟩⟩
      simp only [Engine.evalCreateTable, Engine.liftS, e]

end Mkdb.Store
