import Mkdb.Model.Exec
import Mkdb.Spec.Query
/-!
Proofs about the join part of the executor model (`joinMatches`, `joinOuter`,
`nestedLoopJoin`) and about column resolution (`lookupFieldIdx`, `lookupColIdxByID`,
`fetchTable`).
-/
namespace Mkdb.Exec.JoinP
open Mkdb.Sql Mkdb.Tuple

/-! ### the result monad -/

@[simp] theorem bind_ok {α β : Type} (a : α) (f : α → X β) : (X.ok a >>= f) = f a := rfl
@[simp] theorem bind_err {α β : Type} (e : EErr) (f : α → X β) : (X.err e >>= f) = X.err e := rfl
@[simp] theorem bind_panic {α β : Type} (s : String) (f : α → X β) :
    (X.panic s >>= f) = X.panic s := rfl
@[simp] theorem pure_eq_ok {α : Type} (a : α) : (pure a : X α) = X.ok a := rfl

/-! ### 1. the inner loop -/

theorem joinMatches_ok (on : Cond) (fields : List Field) (mk : Row → Row) (truth : Row → Bool)
    (inner : List Row)
    (h : ∀ r ∈ inner, evaluate on fields (mk r) = .ok (.bool (truth (mk r)))) :
    joinMatches on fields mk inner = .ok ((inner.map mk).filter truth) := by
  induction inner with
  | nil => rfl
  | cons r rest ih =>
    have h1 := h r List.mem_cons_self
    have h2 := ih (fun r hr => h r (List.mem_cons_of_mem _ hr))
    simp only [joinMatches, h1, h2, bind_ok, pure_eq_ok, List.map_cons, List.filter_cons]

/-! ### 2./3. the outer loop -/

/-- The general equation of `joinOuter` (any row constructor, with or without padding). -/
theorem joinOuter_ok (on : Cond) (fields : List Field) (outer inner : List Row)
    (mk : Row → Row → Row) (pad : Option (Row → Row)) (truth : Row → Bool)
    (h : ∀ o ∈ outer, ∀ i ∈ inner, evaluate on fields (mk o i) = .ok (.bool (truth (mk o i)))) :
    joinOuter on fields outer inner mk pad = .ok (outer.flatMap fun o =>
      let ms := (inner.map (mk o)).filter truth
      if ms.isEmpty then (match pad with | some p => [p o] | none => []) else ms) := by
  induction outer with
  | nil => rfl
  | cons o rest ih =>
    have h1 := joinMatches_ok on fields (mk o) truth inner (h o List.mem_cons_self)
    have h2 := ih (fun o' ho' => h o' (List.mem_cons_of_mem _ ho'))
    simp only [joinOuter, h1, h2, bind_ok, pure_eq_ok, List.flatMap_cons]
    rfl

theorem ite_isEmpty_nil {α : Type} (ms : List α) : (if ms.isEmpty then [] else ms) = ms := by
  cases ms <;> rfl

/-- INNER JOIN is the relational definition, in the order of the nested loops. -/
theorem inner_join_eq (on : Cond) (fields : List Field) (L R : List Row) (truth : Row → Bool)
    (h : ∀ l ∈ L, ∀ r ∈ R, evaluate on fields (l ++ r) = .ok (.bool (truth (l ++ r)))) :
    joinOuter on fields L R (fun l r => l ++ r) none =
      .ok (L.flatMap fun l => (R.map fun r => l ++ r).filter truth) := by
  rw [joinOuter_ok on fields L R _ none truth h]
  simp only [ite_isEmpty_nil]

theorem inner_join_mem (on : Cond) (fields : List Field) (L R : List Row) (truth : Row → Bool)
    (h : ∀ l ∈ L, ∀ r ∈ R, evaluate on fields (l ++ r) = .ok (.bool (truth (l ++ r)))) :
    ∃ rows, joinOuter on fields L R (fun l r => l ++ r) none = .ok rows ∧
      ∀ row, row ∈ rows ↔ ∃ l ∈ L, ∃ r ∈ R, row = l ++ r ∧ truth (l ++ r) = true := by
  refine ⟨_, inner_join_eq on fields L R truth h, fun row => ?_⟩
  simp only [List.mem_flatMap, List.mem_filter, List.mem_map]
  constructor
  · rintro ⟨l, hl, ⟨r, hr, rfl⟩, ht⟩
    exact ⟨l, hl, r, hr, rfl, ht⟩
  · rintro ⟨l, hl, r, hr, rfl, ht⟩
    exact ⟨l, hl, ⟨r, hr, rfl⟩, ht⟩

/-- the result rows are the images of the matching pairs, pair by pair (with multiplicity) -/
theorem inner_rows_eq_pairs (L R : List Row) (truth : Row → Bool) :
    (L.flatMap fun l => (R.map fun r => l ++ r).filter truth) =
      ((L.flatMap fun l => R.map fun r => (l, r)).filter fun p => truth (p.1 ++ p.2)).map
        fun p => p.1 ++ p.2 := by
  simp only [List.filter_flatMap, List.map_flatMap, List.filter_map, List.map_map]
  rfl

theorem inner_join_count (on : Cond) (fields : List Field) (L R : List Row) (truth : Row → Bool)
    (h : ∀ l ∈ L, ∀ r ∈ R, evaluate on fields (l ++ r) = .ok (.bool (truth (l ++ r)))) :
    ∃ rows, joinOuter on fields L R (fun l r => l ++ r) none = .ok rows ∧
      rows = ((L.flatMap fun l => R.map fun r => (l, r)).filter
                fun p => truth (p.1 ++ p.2)).map (fun p => p.1 ++ p.2) ∧
      rows.length = ((L.flatMap fun l => R.map fun r => (l, r)).filter
                fun p => truth (p.1 ++ p.2)).length ∧
      ∀ row, rows.count row = (((L.flatMap fun l => R.map fun r => (l, r)).filter
                fun p => truth (p.1 ++ p.2)).filter fun p => p.1 ++ p.2 == row).length := by
  refine ⟨_, inner_join_eq on fields L R truth h, inner_rows_eq_pairs L R truth, ?_, ?_⟩
  · rw [inner_rows_eq_pairs, List.length_map]
  · intro row
    rw [inner_rows_eq_pairs, List.count_eq_countP, List.countP_map, List.countP_eq_length_filter]
    rfl

/-- LEFT JOIN: every matching pair once; a left row without a match exactly once, padded. -/
theorem left_join_eq (on : Cond) (fields : List Field) (L R : List Row) (truth : Row → Bool)
    (n : Nat)
    (h : ∀ l ∈ L, ∀ r ∈ R, evaluate on fields (l ++ r) = .ok (.bool (truth (l ++ r)))) :
    joinOuter on fields L R (fun l r => l ++ r) (some fun l => l ++ List.replicate n .null) =
      .ok (L.flatMap fun l =>
        let ms := (R.map fun r => l ++ r).filter truth
        if ms.isEmpty then [l ++ List.replicate n .null] else ms) :=
  joinOuter_ok on fields L R _ _ truth h

/-- RIGHT JOIN: the loops are swapped (right rows outside); every matching pair once; a right
row without a match exactly once, padded on the left. -/
theorem right_join_eq (on : Cond) (fields : List Field) (L R : List Row) (truth : Row → Bool)
    (n : Nat)
    (h : ∀ l ∈ L, ∀ r ∈ R, evaluate on fields (l ++ r) = .ok (.bool (truth (l ++ r)))) :
    joinOuter on fields R L (fun r l => l ++ r) (some fun r => List.replicate n .null ++ r) =
      .ok (R.flatMap fun r =>
        let ms := (L.map fun l => l ++ r).filter truth
        if ms.isEmpty then [List.replicate n .null ++ r] else ms) :=
  joinOuter_ok on fields R L _ _ truth (fun r hr l hl => h l hl r hr)

/-! ### 5. column resolution -/

/-- An unqualified column name carried by two different positions is rejected. -/
theorem lookupFieldIdx_ambiguous (fields : List Field) (n : Bytes) (i j : Nat) (hij : i ≠ j)
    (hi : fields[i]?.map (·.column) = some n) (hj : fields[j]?.map (·.column) = some n) :
    lookupFieldIdx fields n = .err .fieldAmbiguous := by
  have mem : ∀ k, fields[k]?.map (·.column) = some n →
      k ∈ (List.range fields.length).filter (fun i => (fields[i]?.map (·.column)) == some n) := by
    intro k hk
    have hlt : k < fields.length := by
      cases h : fields[k]? with
      | none => simp [h] at hk
      | some f => exact (List.getElem?_eq_some_iff.mp h).1
    refine List.mem_filter.mpr ⟨List.mem_range.mpr hlt, ?_⟩
    rw [hk]; exact beq_self_eq_true _
  have mi := mem i hi
  have mj := mem j hj
  unfold lookupFieldIdx
  generalize (List.range fields.length).filter
    (fun i => (fields[i]?.map (·.column)) == some n) = F at mi mj
  match F, mi, mj with
  | [], mi, _ => cases mi
  | [k], mi, mj =>
    simp only [List.mem_singleton] at mi mj
    exact absurd (mi.trans mj.symm) hij
  | _ :: _ :: _, _, _ => rfl

/-- version with explicit fields at the two positions -/
theorem lookupFieldIdx_ambiguous' (fields : List Field) (n : Bytes) (i j : Nat) (hij : i ≠ j)
    (t₁ t₂ : Bytes) (hi : fields[i]? = some ⟨t₁, n⟩) (hj : fields[j]? = some ⟨t₂, n⟩) :
    lookupFieldIdx fields n = .err .fieldAmbiguous :=
  lookupFieldIdx_ambiguous fields n i j hij (by rw [hi]; rfl) (by rw [hj]; rfl)

/-- A qualified reference resolves to the first field with that table id and name. -/
theorem lookupColIdxByID_first (fields : List Field) (tid n : Bytes) (i : Nat)
    (h : lookupColIdxByID fields tid n = .ok i) :
    fields[i]? = some ⟨tid, n⟩ ∧ ∀ k, k < i → fields[k]? ≠ some ⟨tid, n⟩ := by
  unfold lookupColIdxByID at h
  split at h
  · rename_i i' hf
    cases h
    rw [List.find?_range_eq_some] at hf
    refine ⟨by simpa using hf.1, fun k hk => ?_⟩
    have := hf.2.2 k hk
    simpa using this
  · cases h

/-- and it is an error (never another column) when no field carries that id and name -/
theorem lookupColIdxByID_none (fields : List Field) (tid n : Bytes)
    (h : ⟨tid, n⟩ ∉ fields) : lookupColIdxByID fields tid n = .err .fieldNotFound := by
  unfold lookupColIdxByID
  split
  · rename_i i hf
    rw [List.find?_range_eq_some] at hf
    exact absurd (List.mem_of_getElem? (by simpa using hf.1)) h
  · rfl

/-- The fields of a fetched table carry the alias as table id when there is one, else the
table name. -/
theorem fetchTable_alias (fetch : Bytes → Option Table) (t : TableName) (rows : List Row)
    (fields : List Field) (h : fetchTable fetch t = .ok (rows, fields)) :
    ∃ tbl, fetch t.name = some tbl ∧ rows = tbl.rows ∧
      fields = tbl.cols.map (fun c => ⟨(t.alias.getD t.name), c⟩) ∧
      (∀ a, t.alias = some a → ∀ f ∈ fields, f.tableId = a) ∧
      (t.alias = none → ∀ f ∈ fields, f.tableId = t.name) := by
  unfold fetchTable at h
  split at h
  · cases h
  · rename_i tbl hf
    cases h
    refine ⟨tbl, hf, rfl, ?_, ?_, ?_⟩
    · cases t.alias <;> rfl
    · intro a ha f hm
      simp only [ha, List.mem_map] at hm
      obtain ⟨c, _, rfl⟩ := hm
      rfl
    · intro ha f hm
      simp only [ha, List.mem_map] at hm
      obtain ⟨c, _, rfl⟩ := hm
      rfl

theorem fetchTable_none (fetch : Bytes → Option Table) (t : TableName)
    (h : fetch t.name = none) : fetchTable fetch t = .err .tableNotExist := by
  unfold fetchTable; rw [h]

/-! ### 4. one join step, and the relational definition up to permutation -/

/-- matching pairs, left-major (the relational inner join) -/
def relInner (truth : Row → Bool) (L R : List Row) : List Row :=
  L.flatMap fun l => (R.map fun r => l ++ r).filter truth

/-- the result of a LEFT join as the nested loops produce it -/
def loopLeft (truth : Row → Bool) (n : Nat) (L R : List Row) : List Row :=
  L.flatMap fun l =>
    let ms := (R.map fun r => l ++ r).filter truth
    if ms.isEmpty then [l ++ List.replicate n .null] else ms

/-- the result of a RIGHT join as the nested loops produce it (right rows outside) -/
def loopRight (truth : Row → Bool) (n : Nat) (L R : List Row) : List Row :=
  R.flatMap fun r =>
    let ms := (L.map fun l => l ++ r).filter truth
    if ms.isEmpty then [List.replicate n .null ++ r] else ms

/-- the rows one join step of the nested loops produces, by join type -/
def loopJoin (jt : JoinType) (truth : Row → Bool) (nl nr : Nat) (L R : List Row) : List Row :=
  match jt with
  | .inner => relInner truth L R
  | .left => loopLeft truth nr L R
  | .right => loopRight truth nl L R

/-- the executor's test for a table id used twice: the id of the right table (read off its first
field; all its fields carry the same one) is looked up among the fields gathered so far -/
def headClash (lFields rFields : List Field) : Bool :=
  match rFields.head? with
  | some f0 => lFields.any (·.tableId == f0.tableId)
  | none => false

/-- the relational definition's test: some field of the right table carries a table id already
present on the left -/
def anyClash (lFields rFields : List Field) : Bool :=
  rFields.any fun g => lFields.any (·.tableId == g.tableId)

/-- the join step of `nestedLoopJoin`, unfolded once: the test, then the loops -/
theorem nestedLoopJoin_join_unfold (fetch : Bytes → Option Table) (l : TableRef) (jt : JoinType)
    (r : TableName) (on : Cond) (lRows rRows : List Row) (lFields rFields : List Field)
    (hl : nestedLoopJoin fetch l = .ok (lRows, lFields))
    (hr : fetchTable fetch r = .ok (rRows, rFields)) :
    nestedLoopJoin fetch (.join l jt r on) =
      if headClash lFields rFields = true then X.err .fieldAmbiguous
      else (do
        let rows ← match jt with
          | .inner => joinOuter on (lFields ++ rFields) lRows rRows (fun lr rr => lr ++ rr) none
          | .left => joinOuter on (lFields ++ rFields) lRows rRows (fun lr rr => lr ++ rr) (some fun lr => lr ++ List.replicate rFields.length .null)
          | .right => joinOuter on (lFields ++ rFields) rRows lRows (fun rr lr => lr ++ rr) (some fun rr => List.replicate lFields.length .null ++ rr)
        pure (rows, lFields ++ rFields)) := by
  simp only [nestedLoopJoin, hl, hr, bind_ok]
  rfl

/-- a clash seen on the head field is a clash seen on some field -/
theorem anyClash_of_headClash {lFields rFields : List Field}
    (h : headClash lFields rFields = true) : anyClash lFields rFields = true := by
  unfold headClash at h
  unfold anyClash
  cases rFields with
  | nil => cases h
  | cons g rest => simp only [List.head?_cons] at h; simp only [List.any_cons, h, Bool.true_or]

/-- all fields of one table carry one table id: a clash on any field is a clash on the head -/
theorem headClash_of_anyClash {lFields rFields : List Field}
    (hid : ∀ g ∈ rFields, ∀ g' ∈ rFields, g.tableId = g'.tableId)
    (h : anyClash lFields rFields = true) : headClash lFields rFields = true := by
  unfold anyClash at h
  obtain ⟨g, hg, hc⟩ := List.any_eq_true.mp h
  unfold headClash
  cases rFields with
  | nil => cases hg
  | cons g0 rest =>
    simp only [List.head?_cons]
    rw [hid g0 List.mem_cons_self g hg]
    exact hc

/-- the fields of a fetched table all carry the same table id -/
theorem fetchTable_one_id {fetch : Bytes → Option Table} {t : TableName} {rows : List Row}
    {fields : List Field} (h : fetchTable fetch t = .ok (rows, fields)) :
    ∀ g ∈ fields, g.tableId = t.alias.getD t.name := by
  obtain ⟨tbl, _, _, hf, _, _⟩ := fetchTable_alias fetch t rows fields h
  intro g hg
  rw [hf] at hg
  obtain ⟨c, _, rfl⟩ := List.mem_map.mp hg
  rfl

/-- on a fetched table the executor's test and the relational definition's test agree -/
theorem headClash_eq_anyClash {fetch : Bytes → Option Table} {t : TableName} {rows : List Row}
    {rFields : List Field} (h : fetchTable fetch t = .ok (rows, rFields)) (lFields : List Field) :
    headClash lFields rFields = anyClash lFields rFields := by
  rw [Bool.eq_iff_iff]
  exact ⟨anyClash_of_headClash, headClash_of_anyClash fun g hg g' hg' =>
    (fetchTable_one_id h g hg).trans (fetchTable_one_id h g' hg').symm⟩

/-- One step of `nestedLoopJoin`: the result for `l JOIN r ON on` in terms of the result for
`l`, the fetched table `r` (whose table id is not yet in use: `hd`) and the equations of items 2
and 3. -/
theorem nestedLoopJoin_join (fetch : Bytes → Option Table) (l : TableRef) (jt : JoinType)
    (r : TableName) (on : Cond) (lRows rRows : List Row) (lFields rFields : List Field)
    (truth : Row → Bool)
    (hl : nestedLoopJoin fetch l = .ok (lRows, lFields))
    (hr : fetchTable fetch r = .ok (rRows, rFields))
    (hd : anyClash lFields rFields = false)
    (h : ∀ a ∈ lRows, ∀ b ∈ rRows,
      evaluate on (lFields ++ rFields) (a ++ b) = .ok (.bool (truth (a ++ b)))) :
    nestedLoopJoin fetch (.join l jt r on) =
      .ok (loopJoin jt truth lFields.length rFields.length lRows rRows, lFields ++ rFields) := by
  have hh : headClash lFields rFields = false := by
    cases hc : headClash lFields rFields with
    | false => rfl
    | true => rw [anyClash_of_headClash hc] at hd; cases hd
  rw [nestedLoopJoin_join_unfold fetch l jt r on lRows rRows lFields rFields hl hr, hh]
  cases jt with
  | inner =>
    simp only [Bool.false_eq_true, if_false, bind_ok, pure_eq_ok,
      inner_join_eq on _ lRows rRows truth h]
    rfl
  | left =>
    simp only [Bool.false_eq_true, if_false, bind_ok, pure_eq_ok,
      left_join_eq on _ lRows rRows truth rFields.length h]
    rfl
  | right =>
    simp only [Bool.false_eq_true, if_false, bind_ok, pure_eq_ok,
      right_join_eq on _ lRows rRows truth lFields.length h]
    rfl

/-! #### permutation lemmas (core has no `Perm.flatMap_left`) -/

theorem flatMap_perm_congr {α β : Type} {f g : α → List β} (l : List α)
    (h : ∀ a ∈ l, (f a).Perm (g a)) : (l.flatMap f).Perm (l.flatMap g) := by
  induction l with
  | nil => exact .refl _
  | cons a t ih =>
    simp only [List.flatMap_cons]
    exact (h a List.mem_cons_self).append (ih fun a ha => h a (List.mem_cons_of_mem _ ha))

theorem flatMap_cons_perm {α β : Type} (g : α → β) (h : α → List β) (R : List α) :
    (R.flatMap fun b => g b :: h b).Perm (R.map g ++ R.flatMap h) := by
  induction R with
  | nil => exact .refl _
  | cons b R ih =>
    simp only [List.flatMap_cons, List.map_cons, List.cons_append]
    refine (List.perm_cons _).mpr ?_
    refine ((List.Perm.append_left (h b) ih)).trans ?_
    rw [← List.append_assoc, ← List.append_assoc]
    exact List.Perm.append_right _ List.perm_append_comm

theorem flatMap_map_swap {α β γ : Type} (f : α → β → γ) (L : List α) (R : List β) :
    (L.flatMap fun a => R.map (f a)).Perm (R.flatMap fun b => L.map fun a => f a b) := by
  induction L with
  | nil => simp
  | cons a t ih =>
    simp only [List.flatMap_cons, List.map_cons]
    exact ((List.Perm.append_left _ ih)).trans (flatMap_cons_perm (f a) _ R).symm

/-- the matching pairs enumerated right-major are a permutation of the left-major ones -/
theorem relInner_swap (truth : Row → Bool) (L R : List Row) :
    (R.flatMap fun r => (L.map fun l => l ++ r).filter truth).Perm (relInner truth L R) := by
  unfold relInner
  rw [← List.filter_flatMap, ← List.filter_flatMap]
  exact (flatMap_map_swap (fun (l r : Row) => l ++ r) L R).symm.filter _

/-- outer-join loop = matches, then the unmatched outer rows padded (up to permutation) -/
theorem outer_perm {α β : Type} (M : α → List β) (pad : α → β) (q : α → Bool) (L : List α)
    (hq : ∀ a ∈ L, q a = (M a).isEmpty) :
    (L.flatMap fun a => if (M a).isEmpty then [pad a] else M a).Perm
      (L.flatMap M ++ (L.filter q).map pad) := by
  induction L with
  | nil => exact .refl _
  | cons a t ih =>
    have ih' := ih fun a ha => hq a (List.mem_cons_of_mem _ ha)
    have hqa := hq a List.mem_cons_self
    simp only [List.flatMap_cons, List.filter_cons, hqa]
    cases hM : M a with
    | nil =>
      simp only [List.isEmpty_nil, if_true, List.nil_append, List.map_cons, List.singleton_append]
      exact ((List.perm_cons _).mpr ih').trans List.perm_middle.symm
    | cons b bs =>
      simp only [List.isEmpty_cons, Bool.false_eq_true, if_false, List.append_assoc]
      exact List.Perm.append_left _ ih'

/-- the relational LEFT join: matching pairs, then each unmatched left row once, padded -/
def relLeft (truth : Row → Bool) (n : Nat) (L R : List Row) : List Row :=
  relInner truth L R ++
    (L.filter fun a => !(R.any fun b => truth (a ++ b))).map fun a => a ++ List.replicate n .null

/-- the relational RIGHT join: matching pairs, then each unmatched right row once, padded -/
def relRight (truth : Row → Bool) (n : Nat) (L R : List Row) : List Row :=
  relInner truth L R ++
    (R.filter fun b => !(L.any fun a => truth (a ++ b))).map fun b => List.replicate n .null ++ b

theorem isEmpty_filter_map {α β : Type} (p : β → Bool) (f : α → β) (l : List α) :
    ((l.map f).filter p).isEmpty = !(l.any fun a => p (f a)) := by
  induction l with
  | nil => rfl
  | cons a t ih =>
    simp only [List.map_cons, List.filter_cons, List.any_cons]
    cases p (f a) <;> simp [ih]

theorem loopLeft_perm (truth : Row → Bool) (n : Nat) (L R : List Row) :
    (loopLeft truth n L R).Perm (relLeft truth n L R) :=
  outer_perm (fun l => (R.map fun r => l ++ r).filter truth) _ _ L
    (fun a _ => (isEmpty_filter_map truth (fun r => a ++ r) R).symm)

theorem loopRight_perm (truth : Row → Bool) (n : Nat) (L R : List Row) :
    (loopRight truth n L R).Perm (relRight truth n L R) :=
  (outer_perm (fun r => (L.map fun l => l ++ r).filter truth) _ _ R
    (fun b _ => (isEmpty_filter_map truth (fun l => l ++ b) L).symm)).trans
    (List.Perm.append_right _ (relInner_swap truth L R))

theorem relInner_perm_left (truth : Row → Bool) {L L' : List Row} (R : List Row)
    (p : L.Perm L') : (relInner truth L R).Perm (relInner truth L' R) :=
  p.flatMap_right _

theorem relLeft_perm_left (truth : Row → Bool) (n : Nat) {L L' : List Row} (R : List Row)
    (p : L.Perm L') : (relLeft truth n L R).Perm (relLeft truth n L' R) :=
  (relInner_perm_left truth R p).append ((p.filter _).map _)

theorem relRight_perm_left (truth : Row → Bool) (n : Nat) {L L' : List Row} (R : List Row)
    (p : L.Perm L') : (relRight truth n L R).Perm (relRight truth n L' R) := by
  unfold relRight
  have : (fun b => !(L.any fun a => truth (a ++ b))) = (fun b => !(L'.any fun a => truth (a ++ b))) := by
    funext b; rw [p.any_eq]
  rw [this]
  exact List.Perm.append_right _ (relInner_perm_left truth R p)

/-- the relational definition of one join step, by join type -/
def relJoin (jt : JoinType) (truth : Row → Bool) (nl nr : Nat) (L R : List Row) : List Row :=
  match jt with
  | .inner => relInner truth L R
  | .left => relLeft truth nr L R
  | .right => relRight truth nl L R

/-- the loops' result is a permutation of the relational definition, also when the left input
is only known up to permutation -/
theorem join_step_perm (truth : Row → Bool) (jt : JoinType) (nl nr : Nat) {L L' : List Row}
    (R : List Row) (p : L.Perm L') :
    (loopJoin jt truth nl nr L R).Perm (relJoin jt truth nl nr L' R) := by
  cases jt with
  | inner => exact relInner_perm_left truth R p
  | left => exact (loopLeft_perm truth nr L R).trans (relLeft_perm_left truth nr R p)
  | right => exact (loopRight_perm truth nl L R).trans (relRight_perm_left truth nl R p)

/-! #### the spec side -/

open Mkdb.Spec in
theorem holds_eq_some {c : Cond} {fields : List Field} {row : Row} {b : Bool}
    (h : holds c fields row = some b) : evaluate c fields row = .ok (.bool b) := by
  unfold holds at h
  split at h
  · cases h; assumption
  · cases h

/-- the total truth function read off the evaluator -/
def truthOf (on : Cond) (fields : List Field) (row : Row) : Bool :=
  Spec.holds on fields row == some true

theorem mapM_some_eq_map {α β : Type} {f : α → Option β} {g : α → β} {l : List α}
    {r : List β} (h : l.mapM f = some r) (hg : ∀ a ∈ l, ∀ b, f a = some b → b = g a) :
    r = l.map g ∧ ∀ a ∈ l, f a = some (g a) := by
  induction l generalizing r with
  | nil => simp at h; subst h; exact ⟨rfl, fun _ h => nomatch h⟩
  | cons a t ih =>
    rw [List.mapM_cons] at h
    cases hb : f a with
    | none => simp [hb] at h
    | some b =>
      cases hbs : t.mapM f with
      | none => simp [hb, hbs] at h
      | some bs =>
        simp [hb, hbs] at h
        obtain ⟨e, hall⟩ := ih hbs (fun a ha => hg a (List.mem_cons_of_mem _ ha))
        have hba := hg a List.mem_cons_self b hb
        subst hba
        refine ⟨by rw [← h, e]; rfl, fun a' ha' => ?_⟩
        rcases List.mem_cons.mp ha' with rfl | hm
        · exact hb
        · exact hall a' hm

theorem zip_map_filterMap {α : Type} (g : α → Bool) (l : List α) :
    ((l.zip (l.map g)).filterMap fun (x : α × Bool) => if x.2 = true then some x.1 else none) =
      l.filter g := by
  induction l with
  | nil => rfl
  | cons a t ih =>
    simp only [List.map_cons, List.zip_cons_cons, List.filterMap_cons, List.filter_cons]
    cases g a <;> simp [ih]

theorem fetchTable_of_fieldsOf {fetch : Bytes → Option Table} {t : TableName}
    {p : List Row × List Field} (h : Spec.fieldsOf fetch t = some p) :
    fetchTable fetch t = .ok p := by
  unfold Spec.fieldsOf at h
  unfold fetchTable
  split at h
  · cases h
  · rename_i tbl hf
    cases h
    rw [hf]
    rfl

theorem matched_any_left (tr : Row → Bool) (L R : List Row) (a : Row) (ha : a ∈ L) :
    (((L.flatMap fun a => R.map fun b => (a, b)).filter fun x => tr (x.1 ++ x.2)).any
      fun p => p.1 == a && true) = R.any fun b => tr (a ++ b) := by
  rw [Bool.eq_iff_iff]
  simp only [List.any_eq_true, List.mem_filter, List.mem_flatMap, List.mem_map, Bool.and_true,
    beq_iff_eq]
  constructor
  · rintro ⟨⟨a', b⟩, ⟨⟨a'', _, b', hb', heq⟩, ht⟩, rfl⟩
    cases heq
    exact ⟨b, hb', ht⟩
  · rintro ⟨b, hb, ht⟩
    exact ⟨(a, b), ⟨⟨a, ha, b, hb, rfl⟩, ht⟩, rfl⟩

theorem matched_any_right (tr : Row → Bool) (L R : List Row) (b : Row) (hb : b ∈ R) :
    (((L.flatMap fun a => R.map fun b => (a, b)).filter fun x => tr (x.1 ++ x.2)).any
      fun p => p.2 == b && true) = L.any fun a => tr (a ++ b) := by
  rw [Bool.eq_iff_iff]
  simp only [List.any_eq_true, List.mem_filter, List.mem_flatMap, List.mem_map, Bool.and_true,
    beq_iff_eq]
  constructor
  · rintro ⟨⟨a', b'⟩, ⟨⟨a'', ha'', b'', _, heq⟩, ht⟩, rfl⟩
    cases heq
    exact ⟨a', ha'', ht⟩
  · rintro ⟨a, ha, ht⟩
    exact ⟨(a, b), ⟨⟨a, ha, b, hb, rfl⟩, ht⟩, rfl⟩

/-- what a successful `Spec.fromRows` on a join says, with the fact that the table id of the right
table is not in use on the left -/
theorem fromRows_join_some' {fetch : Bytes → Option Table} {l : TableRef} {jt : JoinType}
    {r : TableName} {on : Cond} {rowsS : List Row} {fieldsS : List Field}
    (h : Spec.fromRows fetch (.join l jt r on) = some (rowsS, fieldsS)) :
    ∃ L lf R rf, Spec.fromRows fetch l = some (L, lf) ∧ Spec.fieldsOf fetch r = some (R, rf) ∧
      fieldsS = lf ++ rf ∧ anyClash lf rf = false ∧
      (∀ a ∈ L, ∀ b ∈ R, evaluate on (lf ++ rf) (a ++ b) =
        .ok (.bool (truthOf on (lf ++ rf) (a ++ b)))) ∧
      rowsS = relJoin jt (truthOf on (lf ++ rf)) lf.length rf.length L R := by
  unfold Spec.fromRows at h
  cases hL : Spec.fromRows fetch l with
  | none => simp [hL] at h
  | some p =>
    obtain ⟨L, lf⟩ := p
    cases hR : Spec.fieldsOf fetch r with
    | none => simp [hL, hR] at h
    | some q =>
      obtain ⟨R, rf⟩ := q
      simp only [hL, hR, Option.bind_eq_bind, Option.bind_some] at h
      cases hc : anyClash lf rf with
      | true => unfold anyClash at hc; simp [hc] at h
      | false =>
      have hc' := hc
      unfold anyClash at hc'
      simp only [hc', Bool.false_eq_true, if_false] at h
      cases hT : (L.flatMap fun a => R.map fun b => (a, b)).mapM
          (fun (x : Row × Row) => Spec.holds on (lf ++ rf) (x.1 ++ x.2)) with
      | none => simp [hT] at h
      | some tl =>
        simp only [hT, Option.bind_some] at h
        obtain ⟨htl, hall⟩ := mapM_some_eq_map
          (g := fun (x : Row × Row) => truthOf on (lf ++ rf) (x.1 ++ x.2)) hT
          (by intro a _ b hb; simp [truthOf, hb])
        subst htl
        have hev : ∀ a ∈ L, ∀ b ∈ R, evaluate on (lf ++ rf) (a ++ b) =
            .ok (.bool (truthOf on (lf ++ rf) (a ++ b))) := by
          intro a ha b hb
          exact holds_eq_some (hall (a, b)
            (List.mem_flatMap.mpr ⟨a, ha, List.mem_map.mpr ⟨b, hb, rfl⟩⟩))
        refine ⟨L, lf, R, rf, rfl, rfl, ?_, hc, hev, ?_⟩
        · cases h; rfl
        · rw [zip_map_filterMap] at h
          cases h
          cases jt with
          | inner =>
            simp only [relJoin, relInner, List.append_nil]
            exact (inner_rows_eq_pairs L R _).symm
          | left =>
            simp only [relJoin, relLeft, relInner]
            rw [inner_rows_eq_pairs]
            congr 2
            exact List.filter_congr fun a ha => by rw [matched_any_left _ L R a ha]
          | right =>
            simp only [relJoin, relRight, relInner]
            rw [inner_rows_eq_pairs]
            congr 2
            exact List.filter_congr fun b hb => by rw [matched_any_right _ L R b hb]

/-- what a successful `Spec.fromRows` on a join says -/
theorem fromRows_join_some {fetch : Bytes → Option Table} {l : TableRef} {jt : JoinType}
    {r : TableName} {on : Cond} {rowsS : List Row} {fieldsS : List Field}
    (h : Spec.fromRows fetch (.join l jt r on) = some (rowsS, fieldsS)) :
    ∃ L lf R rf, Spec.fromRows fetch l = some (L, lf) ∧ Spec.fieldsOf fetch r = some (R, rf) ∧
      fieldsS = lf ++ rf ∧
      (∀ a ∈ L, ∀ b ∈ R, evaluate on (lf ++ rf) (a ++ b) =
        .ok (.bool (truthOf on (lf ++ rf) (a ++ b)))) ∧
      rowsS = relJoin jt (truthOf on (lf ++ rf)) lf.length rf.length L R := by
  obtain ⟨L, lf, R, rf, hL, hR, hf, _, hev, hrows⟩ := fromRows_join_some' h
  exact ⟨L, lf, R, rf, hL, hR, hf, hev, hrows⟩

/-- The executor's FROM clause is the relational definition, as a multiset: whenever the spec
is defined, the nested loops succeed with the same header and a permutation of the rows. -/
theorem nestedLoopJoin_perm_fromRows (fetch : Bytes → Option Table) (tr : TableRef)
    (rowsS : List Row) (fieldsS : List Field)
    (h : Spec.fromRows fetch tr = some (rowsS, fieldsS)) :
    ∃ rowsM fieldsM, nestedLoopJoin fetch tr = .ok (rowsM, fieldsM) ∧ fieldsM = fieldsS ∧
      rowsM.Perm rowsS := by
  induction tr generalizing rowsS fieldsS with
  | table t =>
    exact ⟨rowsS, fieldsS, fetchTable_of_fieldsOf (by simpa [Spec.fromRows] using h), rfl, .refl _⟩
  | join l jt r on ih =>
    obtain ⟨L, lf, R, rf, hL, hR, rfl, hd, hev, rfl⟩ := fromRows_join_some' h
    obtain ⟨lM, lfM, hlM, hf, hp⟩ := ih L lf hL
    rw [hf] at hlM
    have hstep := nestedLoopJoin_join fetch l jt r on lM R lf rf (truthOf on (lf ++ rf)) hlM
      (fetchTable_of_fieldsOf hR) hd
      (fun a ha b hb => hev a (hp.mem_iff.mp ha) b hb)
    exact ⟨_, _, hstep, rfl, join_step_perm _ jt _ _ R hp⟩

/-- INNER joins only (chains of any length): the rows are *equal* to the relational
definition, in the same order. -/
def allInner : TableRef → Bool
  | .table _ => true
  | .join l jt _ _ => jt == .inner && allInner l

theorem nestedLoopJoin_eq_fromRows_inner (fetch : Bytes → Option Table) (tr : TableRef)
    (hin : allInner tr = true) (rowsS : List Row) (fieldsS : List Field)
    (h : Spec.fromRows fetch tr = some (rowsS, fieldsS)) :
    nestedLoopJoin fetch tr = .ok (rowsS, fieldsS) := by
  induction tr generalizing rowsS fieldsS with
  | table t => exact fetchTable_of_fieldsOf (by simpa [Spec.fromRows] using h)
  | join l jt r on ih =>
    simp only [allInner, Bool.and_eq_true, beq_iff_eq] at hin
    obtain ⟨rfl, hl⟩ := hin
    obtain ⟨L, lf, R, rf, hL, hR, rfl, hd, hev, rfl⟩ := fromRows_join_some' h
    exact nestedLoopJoin_join fetch l .inner r on L R lf rf (truthOf on (lf ++ rf))
      (ih hl L lf hL) (fetchTable_of_fieldsOf hR) hd hev

/-! ### concrete instances

`t(id, x)` has two rows with key 1 and one with key 3; `u(id, y)` has two rows with key 1 and
one with key 2: duplicate join keys on both sides, an unmatched left row and an unmatched right
row.  The ON condition is `t.id = u.id`; the truth function is written independently of the
evaluator (position 0 equals position 2). -/
namespace Example

deriving instance DecidableEq for X

def bt : Bytes := [116]       -- "t"
def bu : Bytes := [117]       -- "u"
def bid : Bytes := [105, 100] -- "id"
def bx : Bytes := [120]       -- "x"
def by_ : Bytes := [121]      -- "y"

def Lx : List Row := [[.int 1, .str [97]], [.int 1, .str [98]], [.int 3, .str [99]]]
def Rx : List Row := [[.int 1, .str [112]], [.int 1, .str [113]], [.int 2, .str [122]]]
def flds : List Field := [⟨bt, bid⟩, ⟨bt, bx⟩, ⟨bu, bid⟩, ⟨bu, by_⟩]
def onC : Cond := .pred ⟨.col ⟨bt, bid⟩, Generated.t_EQ, .col ⟨bu, bid⟩⟩
def truthX (row : Row) : Bool := row[0]? == row[2]?

theorem hX : ∀ l ∈ Lx, ∀ r ∈ Rx, evaluate onC flds (l ++ r) = .ok (.bool (truthX (l ++ r))) := by
  decide

/-- item 1: the right rows matching the first left row -/
example : joinMatches onC flds (fun r => [.int 1, .str [97]] ++ r) Rx =
    .ok [[.int 1, .str [97], .int 1, .str [112]], [.int 1, .str [97], .int 1, .str [113]]] :=
  joinMatches_ok onC flds _ truthX Rx (hX _ (by decide))

/-- item 2: four matching pairs, in nested-loop order; neither unmatched row appears -/
example : joinOuter onC flds Lx Rx (fun l r => l ++ r) none =
    .ok [[.int 1, .str [97], .int 1, .str [112]], [.int 1, .str [97], .int 1, .str [113]],
         [.int 1, .str [98], .int 1, .str [112]], [.int 1, .str [98], .int 1, .str [113]]] :=
  inner_join_eq onC flds Lx Rx truthX hX

example : ((Lx.flatMap fun l => Rx.map fun r => (l, r)).filter
    fun p => truthX (p.1 ++ p.2)).length = 4 := by decide

/-- item 3, LEFT: the four pairs and the unmatched left row (key 3) once, NULL-padded -/
example : joinOuter onC flds Lx Rx (fun l r => l ++ r)
      (some fun l => l ++ List.replicate 2 .null) =
    .ok [[.int 1, .str [97], .int 1, .str [112]], [.int 1, .str [97], .int 1, .str [113]],
         [.int 1, .str [98], .int 1, .str [112]], [.int 1, .str [98], .int 1, .str [113]],
         [.int 3, .str [99], .null, .null]] :=
  left_join_eq onC flds Lx Rx truthX 2 hX

/-- item 3, RIGHT: right-major order; the unmatched right row (key 2) once, NULL-padded -/
example : joinOuter onC flds Rx Lx (fun r l => l ++ r)
      (some fun r => List.replicate 2 .null ++ r) =
    .ok [[.int 1, .str [97], .int 1, .str [112]], [.int 1, .str [98], .int 1, .str [112]],
         [.int 1, .str [97], .int 1, .str [113]], [.int 1, .str [98], .int 1, .str [113]],
         [.null, .null, .int 2, .str [122]]] :=
  right_join_eq onC flds Lx Rx truthX 2 hX

/-! item 4: `FROM t RIGHT JOIN u ON t.id = u.id LEFT JOIN t w ON u.id = w.id` -/

def fetchX (n : Bytes) : Option Table :=
  if n = bt then some ⟨[bid, bx], Lx⟩ else if n = bu then some ⟨[bid, by_], Rx⟩ else none

def bw : Bytes := [119]       -- "w"

def trX : TableRef :=
  .join (.join (.table ⟨bt, none⟩) .right ⟨bu, none⟩ onC) .left ⟨bt, some bw⟩
    (.pred ⟨.col ⟨bu, bid⟩, Generated.t_EQ, .col ⟨bw, bid⟩⟩)

def specRowsX : List Row :=
  [[.int 1, .str [97], .int 1, .str [112], .int 1, .str [97]],
   [.int 1, .str [97], .int 1, .str [112], .int 1, .str [98]],
   [.int 1, .str [97], .int 1, .str [113], .int 1, .str [97]],
   [.int 1, .str [97], .int 1, .str [113], .int 1, .str [98]],
   [.int 1, .str [98], .int 1, .str [112], .int 1, .str [97]],
   [.int 1, .str [98], .int 1, .str [112], .int 1, .str [98]],
   [.int 1, .str [98], .int 1, .str [113], .int 1, .str [97]],
   [.int 1, .str [98], .int 1, .str [113], .int 1, .str [98]],
   [.null, .null, .int 2, .str [122], .null, .null]]

def specFieldsX : List Field :=
  [⟨bt, bid⟩, ⟨bt, bx⟩, ⟨bu, bid⟩, ⟨bu, by_⟩, ⟨bw, bid⟩, ⟨bw, bx⟩]

theorem specX : Spec.fromRows fetchX trX = some (specRowsX, specFieldsX) := by decide

example : ∃ rowsM fieldsM, nestedLoopJoin fetchX trX = .ok (rowsM, fieldsM) ∧
    fieldsM = specFieldsX ∧ rowsM.Perm specRowsX :=
  nestedLoopJoin_perm_fromRows fetchX trX _ _ specX

/-- the executor's order differs from the spec's (right-major after the RIGHT JOIN): a genuine
permutation -/
example : nestedLoopJoin fetchX trX = .ok (
   [[.int 1, .str [97], .int 1, .str [112], .int 1, .str [97]],
    [.int 1, .str [97], .int 1, .str [112], .int 1, .str [98]],
    [.int 1, .str [98], .int 1, .str [112], .int 1, .str [97]],
    [.int 1, .str [98], .int 1, .str [112], .int 1, .str [98]],
    [.int 1, .str [97], .int 1, .str [113], .int 1, .str [97]],
    [.int 1, .str [97], .int 1, .str [113], .int 1, .str [98]],
    [.int 1, .str [98], .int 1, .str [113], .int 1, .str [97]],
    [.int 1, .str [98], .int 1, .str [113], .int 1, .str [98]],
    [.null, .null, .int 2, .str [122], .null, .null]], specFieldsX) := by decide

/-- item 4, INNER chain: equality with the relational definition -/
def trI : TableRef :=
  .join (.join (.table ⟨bt, none⟩) .inner ⟨bu, none⟩ onC) .inner ⟨bt, some bw⟩
    (.pred ⟨.col ⟨bu, bid⟩, Generated.t_EQ, .col ⟨bw, bid⟩⟩)

example : nestedLoopJoin fetchX trI = .ok (specRowsX.take 8, specFieldsX) :=
  nestedLoopJoin_eq_fromRows_inner fetchX trI (by decide) _ _ (by decide)

/-- item 5: `id` exists on both sides: rejected; qualified: first position with that id -/
example : lookupFieldIdx flds bid = .err .fieldAmbiguous :=
  lookupFieldIdx_ambiguous' flds bid 0 2 (by decide) bt bu rfl rfl

example : lookupColIdxByID flds bu bid = .ok 2 := by decide

example : flds[2]? = some ⟨bu, bid⟩ ∧ ∀ k, k < 2 → flds[k]? ≠ some ⟨bu, bid⟩ :=
  lookupColIdxByID_first flds bu bid 2 (by decide)

example : fetchTable fetchX ⟨bt, some bw⟩ = .ok (Lx, [⟨bw, bid⟩, ⟨bw, bx⟩]) := by decide

example : ∀ f ∈ [(⟨bw, bid⟩ : Field), ⟨bw, bx⟩], f.tableId = bw := by
  obtain ⟨_, _, _, _, h, _⟩ :=
    fetchTable_alias fetchX ⟨bt, some bw⟩ Lx [⟨bw, bid⟩, ⟨bw, bx⟩] (by decide)
  exact h bw rfl

end Example

end Mkdb.Exec.JoinP

section Axioms
open Mkdb.Exec Mkdb.Exec.JoinP
#print axioms joinMatches_ok
#print axioms joinOuter_ok
#print axioms inner_join_eq
#print axioms inner_join_mem
#print axioms inner_join_count
#print axioms left_join_eq
#print axioms right_join_eq
#print axioms nestedLoopJoin_join_unfold
#print axioms headClash_eq_anyClash
#print axioms nestedLoopJoin_join
#print axioms fromRows_join_some'
#print axioms nestedLoopJoin_perm_fromRows
#print axioms nestedLoopJoin_eq_fromRows_inner
#print axioms loopLeft_perm
#print axioms loopRight_perm
#print axioms lookupFieldIdx_ambiguous
#print axioms lookupFieldIdx_ambiguous'
#print axioms lookupColIdxByID_first
#print axioms lookupColIdxByID_none
#print axioms fetchTable_alias
#print axioms Example.hX
#print axioms Example.specX
end Axioms
