import Mkdb.Proofs.RefineInsert4
/-!
Refinement of the heap insert by the levels insert, part 5: the state between two levels of the
recursion (`After`), and one level of the unwinding (`stepSome`, `stepNone`).
-/
set_option autoImplicit false
namespace Mkdb.Store
open Mkdb.Page Mkdb.Generated Mkdb.Tree

/-- a separator on its way up: `(sep, left child, new right child)` -/
abbrev Pend := Option (Nat × Nat × Nat)

/-- what `insertAppend` still does to the levels `hi` once the pending separator is known -/
def finish (lsn : Nat) (hi : List (List (Internal × Bool))) (nf : Nat) : Pend → List (List (Internal × Bool)) × Nat
  | none => (hi, nf)
  | some (sep, l, nc) => bubble lsn hi sep l nc nf

/-- the levels `hi` as they are in the heap when the level below has returned: the pending
separator is already in the last node of the first of these levels, which has not been split yet -/
def applyPend (lsn : Nat) (hi : List (List (Internal × Bool))) : Pend → List (List (Internal × Bool))
  | none => hi
  | some (sep, _, nc) =>
    match hi with
    | [] => []
    | lvl :: rest =>
      match lvl.getLast? with
      | some (p, _) => setLast lvl (intApp p sep nc lsn, true) :: rest
      | none => lvl :: rest

theorem applyPend_snoc (lsn : Nat) (ppre : List (Internal × Bool)) (p : Internal) (dp : Bool) (rest)
    (sep l nc : Nat) :
    applyPend lsn ((ppre ++ [(p, dp)]) :: rest) (some (sep, l, nc)) =
      (ppre ++ [(intApp p sep nc lsn, true)]) :: rest := by
  simp only [applyPend, List.getLast?_concat, setLast_append]

/-- The heap after the call for level `k-1` (the leaf level for `k = 0`) has returned: the leaves
and the first `k` levels are final, the remaining levels `hi` hold a pending separator. -/
def After (lsn : Nat) (v0 : View) (t' : Levels) (nf' : Nat) (k : Nat) (hi : List (List (Internal × Bool)))
    (s' : Store) : Prop :=
  ∃ leaves' low pend, low.length = k ∧
    t' = ⟨leaves', low ++ (finish lsn hi s'.hdr.nextFree pend).1⟩ ∧
    nf' = (finish lsn hi s'.hdr.nextFree pend).2 ∧
    Rep (view s') s'.hdr.nextFree v0 ⟨leaves', low ++ applyPend lsn hi pend⟩

/-- the heap when the insert is complete -/
def Final (v0 : View) (t' : Levels) (nf' : Nat) (r : Nat) (s' : Store) : Prop :=
  r = rootOff t' ∧ Rep (view s') nf' v0 t' ∧ s'.hdr.nextFree = nf'

theorem intApp_off (p : Internal) (sep nc lsn : Nat) : (intApp p sep nc lsn).off = p.off := rfl
theorem intL_off (p : Internal) : (intL p).off = p.off := rfl
theorem intR_off (p : Internal) (lsn nf : Nat) : (intR p lsn nf).off = nf := rfl

/-- one level of the unwinding, below the root -/
theorem stepSome (lsn : Nat) (v0 : View) (t' : Levels) (nf' k : Nat) (ppre : List (Internal × Bool))
    (p : Internal) (dp : Bool) (qpre : List (Internal × Bool)) (q : Internal) (dq : Bool) (rest)
    (s2 : Store) (root : Nat) (hcap : p.cells.length < c_maxInternalNodeCells)
    (hA : After lsn v0 t' nf' k ((ppre ++ [(p, dp)]) :: (qpre ++ [(q, dq)]) :: rest) s2) :
    ∃ s3, afterChild (some q.off) p.off lsn root s2 = .ok root s3 ∧
      After lsn v0 t' nf' (k + 1) ((qpre ++ [(q, dq)]) :: rest) s3 := by
  obtain ⟨leaves', low, pend, hk, ht', hnf', hrep⟩ := hA
  have hps := pageSize_pos
  cases pend with
  | none =>
    simp only [finish, applyPend] at ht' hnf' hrep
    have hat := Rep.atInt hrep
    obtain ⟨s3, e3, v3, n3⟩ := afterChild_nosplit s2 (some q.off) p.off lsn root p dp hat.1 rfl hcap
    refine ⟨s3, e3, leaves', low ++ [ppre ++ [(p, dp)]], none, by simp [hk], ?_, ?_, ?_⟩
    · simp only [finish, List.append_assoc, List.singleton_append]; exact ht'
    · simp only [finish, n3]; exact hnf'
    · rw [v3, n3]
      simp only [applyPend, List.append_assoc, List.singleton_append]; exact hrep
  | some pd =>
    obtain ⟨sep, l, nc⟩ := pd
    rw [applyPend_snoc] at hrep
    simp only [finish] at ht' hnf'
    rw [bubble_cons_snoc] at ht' hnf'
    have hat := Rep.atInt hrep
    rw [intApp_off] at hat
    by_cases hsmall : (intApp p sep nc lsn).cells.length < c_maxInternalNodeCells
    · rw [if_pos hsmall] at ht' hnf'
      obtain ⟨s3, e3, v3, n3⟩ := afterChild_nosplit s2 (some q.off) p.off lsn root _ true hat.1 rfl hsmall
      refine ⟨s3, e3, leaves', low ++ [ppre ++ [(intApp p sep nc lsn, true)]], none, by simp [hk], ?_, ?_, ?_⟩
      · simp only [finish, List.append_assoc, List.singleton_append]; exact ht'
      · simp only [finish, n3]; exact hnf'
      · rw [v3, n3]
        simp only [applyPend, List.append_assoc, List.singleton_append]; exact hrep
    · rw [if_neg hsmall] at ht' hnf'
      have hrep' : Rep (view s2) s2.hdr.nextFree v0
          ⟨leaves', (low ++ [ppre ++ [(intApp p sep nc lsn, true)]]) ++ (qpre ++ [(q, dq)]) :: rest⟩ := by
        simp only [List.append_assoc, List.singleton_append]; exact hrep
      have hq := Rep.atInt hrep'
      have hne : p.off ≠ q.off := Rep.int_ne_int (c := intApp p sep nc lsn) hrep
      obtain ⟨s3, e3, v3, n3⟩ := afterChild_split_some s2 q.off p.off lsn root (intApp p sep nc lsn) q true dq
        hat.1 rfl hsmall hq.1 rfl (by omega) hne (by omega)
      refine ⟨s3, e3, leaves',
        low ++ [ppre ++ [(intL (intApp p sep nc lsn), true), (intR (intApp p sep nc lsn) lsn s2.hdr.nextFree, true)]],
        some ((midCell (intApp p sep nc lsn)).key, p.off, s2.hdr.nextFree), by simp [hk], ?_, ?_, ?_⟩
      · simp only [finish, List.append_assoc, List.singleton_append, n3]; exact ht'
      · simp only [finish, n3]; exact hnf'
      · rw [v3, n3, applyPend_snoc]
        have r1 := Rep.setInt (c' := intL (intApp p sep nc lsn)) (d' := true) hrep rfl
        have r2 := Rep.addInt (r := intR (intApp p sep nc lsn) lsn s2.hdr.nextFree) (d := true) r1 rfl
          (Nat.lt_add_of_pos_right hps)
        have r2' : Rep (upd (upd (view s2) p.off (.internal (intL (intApp p sep nc lsn)), true)) s2.hdr.nextFree
            (.internal (intR (intApp p sep nc lsn) lsn s2.hdr.nextFree), true)) (s2.hdr.nextFree + c_pageSize) v0
            ⟨leaves', (low ++ [ppre ++ [(intL (intApp p sep nc lsn), true),
              (intR (intApp p sep nc lsn) lsn s2.hdr.nextFree, true)]]) ++ (qpre ++ [(q, dq)]) :: rest⟩ := by
          simp only [List.append_assoc, List.cons_append, List.nil_append] at r2 ⊢
          exact r2
        have r3 := Rep.setInt (c' := intApp q (midCell (intApp p sep nc lsn)).key s2.hdr.nextFree lsn)
          (d' := true) r2' rfl
        exact r3

theorem head_snoc_off (ppre : List (Internal × Bool)) (p p' : Internal) (d d' : Bool) (h : p'.off = p.off) :
    ((ppre ++ [(p', d')]).head?.map (·.1.off)).getD 0 = ((ppre ++ [(p, d)]).head?.map (·.1.off)).getD 0 := by
  cases ppre with
  | nil => simp [h]
  | cons x xs => simp

/-- the last level of the unwinding: the root -/
theorem stepNone (lsn : Nat) (v0 : View) (t' : Levels) (nf' k : Nat) (ppre : List (Internal × Bool))
    (p : Internal) (dp : Bool) (s2 : Store) (root : Nat) (hcap : p.cells.length < c_maxInternalNodeCells)
    (hroot : root = ((ppre ++ [(p, dp)]).head?.map (·.1.off)).getD 0)
    (hA : After lsn v0 t' nf' k [ppre ++ [(p, dp)]] s2) :
    ∃ s3 r, afterChild none p.off lsn root s2 = .ok r s3 ∧ Final v0 t' nf' r s3 := by
  obtain ⟨leaves', low, pend, hk, ht', hnf', hrep⟩ := hA
  have hps := pageSize_pos
  cases pend with
  | none =>
    simp only [finish, applyPend] at ht' hnf' hrep
    have hat := Rep.atInt hrep
    obtain ⟨s3, e3, v3, n3⟩ := afterChild_nosplit s2 none p.off lsn root p dp hat.1 rfl hcap
    refine ⟨s3, root, e3, ?_, ?_, ?_⟩
    · rw [ht', rootOff_snoc, hroot]
    · rw [v3, hnf', ht']; exact hrep
    · rw [n3, hnf']
  | some pd =>
    obtain ⟨sep, l, nc⟩ := pd
    rw [applyPend_snoc] at hrep
    simp only [finish] at ht' hnf'
    rw [bubble_cons_snoc] at ht' hnf'
    have hat := Rep.atInt hrep
    rw [intApp_off] at hat
    by_cases hsmall : (intApp p sep nc lsn).cells.length < c_maxInternalNodeCells
    · rw [if_pos hsmall] at ht' hnf'
      obtain ⟨s3, e3, v3, n3⟩ := afterChild_nosplit s2 none p.off lsn root _ true hat.1 rfl hsmall
      refine ⟨s3, root, e3, ?_, ?_, ?_⟩
      · rw [ht', rootOff_snoc, hroot]
        exact (head_snoc_off ppre p (intApp p sep nc lsn) dp true rfl).symm
      · rw [v3, hnf', ht']; exact hrep
      · rw [n3, hnf']
    · rw [if_neg hsmall, bubble_nil] at ht' hnf'
      obtain ⟨s3, e3, v3, n3⟩ := afterChild_split_none s2 p.off lsn root (intApp p sep nc lsn) true
        hat.1 rfl hsmall (by omega)
      refine ⟨s3, _, e3, ?_, ?_, ?_⟩
      · rw [ht']
        have : low ++ [ppre ++ [(intL (intApp p sep nc lsn), true), (intR (intApp p sep nc lsn) lsn s2.hdr.nextFree, true)],
            [(⟨s2.hdr.nextFree + c_pageSize, lsn, s2.hdr.nextFree,
              [⟨(midCell (intApp p sep nc lsn)).key, p.off⟩]⟩, true)]] =
            (low ++ [ppre ++ [(intL (intApp p sep nc lsn), true),
              (intR (intApp p sep nc lsn) lsn s2.hdr.nextFree, true)]]) ++
            [[(⟨s2.hdr.nextFree + c_pageSize, lsn, s2.hdr.nextFree,
              [⟨(midCell (intApp p sep nc lsn)).key, p.off⟩]⟩, true)]] := by simp
        simp only at this ⊢
        rw [this, rootOff_snoc]
        rfl
      · rw [v3, hnf', ht']
        have r1 := Rep.setInt (c' := intL (intApp p sep nc lsn)) (d' := true) hrep rfl
        have r2 := Rep.addInt (r := intR (intApp p sep nc lsn) lsn s2.hdr.nextFree) (d := true) r1 rfl
          (Nat.lt_add_of_pos_right hps)
        have r3 := Rep.addRoot (r := ⟨s2.hdr.nextFree + c_pageSize, lsn, s2.hdr.nextFree,
              [⟨(midCell (intApp p sep nc lsn)).key, p.off⟩]⟩) (d := true) r2 rfl
          (Nat.lt_add_of_pos_right (n := s2.hdr.nextFree + c_pageSize) hps)
        simp only [List.append_assoc, List.cons_append, List.nil_append] at r3 ⊢
        exact r3
      · rw [n3, hnf']

end Mkdb.Store
