import Mkdb.Proofs.SizeBound4
/-!
C09 "never exhausts memory", part 5: the nesting depth of the condition trees the parser builds
is at most the number of tokens consumed (weight 1 per token).  Same plan as the size pass.
-/
namespace Mkdb.Sql
open Mkdb.Scan Mkdb.Generated

theorem SzD.columnReference {n : Nat} :
    Sz tokOne columnReference n (fun o m => oval (fun _ => 1) o + n ≤ m) := by
  unfold Sql.columnReference
  sz

macro_rules | `(tactic| sz_known) => `(tactic| with_reducible exact SzD.columnReference)

theorem SzD.valueExpression {n : Nat} : Sz tokOne valueExpression n (fun _ m => n + 1 ≤ m) := by
  unfold Sql.valueExpression
  sz

macro_rules | `(tactic| sz_known) => `(tactic| with_reducible exact SzD.valueExpression)

theorem SzD.predicate {n : Nat} : Sz tokOne predicate n (fun c m => c.depth + n ≤ m) := by
  unfold Sql.predicate
  sz

macro_rules | `(tactic| sz_known) => `(tactic| with_reducible exact SzD.predicate)

theorem SzD.commaFollows {n : Nat} : Sz tokOne commaFollows n (fun _ m => n ≤ m) := by
  unfold Sql.commaFollows
  sz

macro_rules | `(tactic| sz_known) => `(tactic| with_reducible exact SzD.commaFollows)

theorem SzD.andBoth (f : Nat) : ∀ n,
    Sz tokOne (andCond f) n (fun c m => c.depth + n ≤ m) ∧
    ∀ ret, Sz tokOne (andLoop f ret) n (fun c m => c.depth + n ≤ m + ret.depth) := by
  induction f with
  | zero => intro n; exact ⟨by unfold andCond; sz, by intro ret; unfold andLoop; sz⟩
  | succ f ih =>
    intro n
    have h1 : ∀ k, Sz tokOne (andCond f) k (fun c m => c.depth + k ≤ m) := fun k => (ih k).1
    have h2 : ∀ ret k, Sz tokOne (andLoop f ret) k (fun c m => c.depth + k ≤ m + ret.depth) :=
      fun ret k => (ih k).2 ret
    refine ⟨?_, ?_⟩
    · unfold andCond; sz
    · intro ret; unfold andLoop; sz

theorem SzD.andCond {f n : Nat} : Sz tokOne (andCond f) n (fun c m => c.depth + n ≤ m) :=
  (SzD.andBoth f n).1

theorem SzD.orBoth (f : Nat) : ∀ n,
    Sz tokOne (orCond f) n (fun c m => c.depth + n ≤ m) ∧
    ∀ ret, Sz tokOne (orLoop f ret) n (fun c m => c.depth + n ≤ m + ret.depth) := by
  induction f with
  | zero => intro n; exact ⟨by unfold orCond; sz, by intro ret; unfold orLoop; sz⟩
  | succ f ih =>
    intro n
    have h0 : ∀ k, Sz tokOne (Sql.andCond f) k (fun c m => c.depth + k ≤ m) := fun k => SzD.andCond
    have h1 : ∀ k, Sz tokOne (orCond f) k (fun c m => c.depth + k ≤ m) := fun k => (ih k).1
    have h2 : ∀ ret k, Sz tokOne (orLoop f ret) k (fun c m => c.depth + k ≤ m + ret.depth) :=
      fun ret k => (ih k).2 ret
    refine ⟨?_, ?_⟩
    · unfold orCond; sz
    · intro ret; unfold orLoop; sz

/-- **The depth of a condition is at most the number of tokens it was parsed from.** -/
theorem SzD.orCond {f n : Nat} : Sz tokOne (orCond f) n (fun c m => c.depth + n ≤ m) :=
  (SzD.orBoth f n).1

macro_rules | `(tactic| sz_known) => `(tactic| with_reducible exact SzD.orCond)

theorem SzD.sepLoop {tw : Token → Nat} {α} {μ : α → Nat} {body : P (α × Bool)} (f : Nat) : ∀ n,
    (∀ j, Sz tw body j (fun x m => μ x.1 + j ≤ m)) →
    Sz tw (Sql.sepLoop f body) n (fun l m => lmax μ l + n ≤ m) := by
  induction f with
  | zero => intro n _; unfold Sql.sepLoop; exact Sz.outOfFuel
  | succ f ih =>
    intro n hb
    unfold Sql.sepLoop
    apply Sz.bind (hb n)
    intro x k hk
    obtain ⟨a, cont⟩ := x
    cases cont with
    | false =>
      simp only [Bool.false_eq_true, ↓reduceIte] at hk ⊢
      exact Sz.pure (by simp only [lmax]; omega)
    | true =>
      simp only [↓reduceIte] at hk ⊢
      apply Sz.bind (ih k hb)
      intro l k2 hk2
      exact Sz.pure (by simp only [lmax]; omega)

theorem SzD.guardedLoop {tw : Token → Nat} {α} {μ : α → Nat} {tys : List Int}
    {body : Token → P (α × Bool)} (f : Nat) : ∀ n,
    (∀ t j, Sz tw (body t) j (fun x m => μ x.1 + j ≤ m)) →
    Sz tw (Sql.guardedLoop f tys body) n (fun l m => lmax μ l + n ≤ m) := by
  induction f with
  | zero => intro n _; unfold Sql.guardedLoop; exact Sz.outOfFuel
  | succ f ih =>
    intro n hb
    unfold Sql.guardedLoop
    apply Sz.bind Sz.matchTy
    intro o k hk
    cases o with
    | none => exact Sz.pure (by simp only [lmax, optW_none] at *; omega)
    | some t =>
      apply Sz.bind (hb t k)
      intro x k2 hk2
      obtain ⟨a, cont⟩ := x
      cases cont with
      | false =>
        simp only [Bool.false_eq_true, ↓reduceIte]
        exact Sz.pure (by simp only [lmax] at *; omega)
      | true =>
        simp only [↓reduceIte]
        apply Sz.bind (ih k2 hb)
        intro l k3 hk3
        exact Sz.pure (by simp only [lmax] at *; omega)

/-- a loop whose elements carry no condition only moves forward -/
theorem SzD.guardedLoop0 {α} {tys : List Int} {body : Token → P (α × Bool)} (f n : Nat)
    (hb : ∀ t j, Sz tokOne (body t) j (fun _ m => j ≤ m)) :
    Sz tokOne (Sql.guardedLoop f tys body) n (fun _ m => n ≤ m) :=
  Sz.mono (SzD.guardedLoop (μ := fun _ => 0) f n (fun t j => Sz.mono (hb t j) (by intro _ _ h; omega)))
    (by intro _ _ h; omega)

theorem SzD.sepLoop0 {α} {body : P (α × Bool)} (f n : Nat)
    (hb : ∀ j, Sz tokOne body j (fun _ m => j ≤ m)) :
    Sz tokOne (Sql.sepLoop f body) n (fun _ m => n ≤ m) :=
  Sz.mono (SzD.sepLoop (μ := fun _ => 0) f n (fun j => Sz.mono (hb j) (by intro _ _ h; omega)))
    (by intro _ _ h; omega)

theorem SzD.setFunction {n : Nat} :
    Sz tokOne setFunction n (fun o m => oval SelItem.depth o + n ≤ m) := by
  unfold Sql.setFunction
  sz

macro_rules | `(tactic| sz_known) => `(tactic| with_reducible exact SzD.setFunction)

theorem SzD.derivedColumn {f n : Nat} :
    Sz tokOne (derivedColumn f) n (fun i m => i.depth + n ≤ m) := by
  unfold Sql.derivedColumn
  sz

macro_rules | `(tactic| sz_known) => `(tactic| with_reducible exact SzD.derivedColumn)

theorem SzD.selectList {f n : Nat} :
    Sz tokOne (selectList f) n (fun l m => lmax DerivedCol.depth l + n ≤ m) := by
  have hloop : ∀ (body : P (DerivedCol × Bool)) n,
      (∀ j, Sz tokOne body j (fun x m => DerivedCol.depth x.1 + j ≤ m)) →
      Sz tokOne (Sql.sepLoop f body) n (fun l m => lmax DerivedCol.depth l + n ≤ m) :=
    fun body n h => SzD.sepLoop f n h
  unfold Sql.selectList
  sz

theorem SzD.tableName {n : Nat} : Sz tokOne tableName n (fun _ m => n ≤ m) := by
  unfold Sql.tableName
  sz

macro_rules | `(tactic| sz_known) => `(tactic| with_reducible exact SzD.tableName)

theorem SzD.joinLoop (f : Nat) : ∀ n lhs,
    Sz tokOne (joinLoop f lhs) n (fun t m => t.depth + n ≤ m + lhs.depth) := by
  induction f with
  | zero => intro n lhs; unfold Sql.joinLoop; sz
  | succ f ih =>
    intro n lhs
    have ih' : ∀ lhs k, Sz tokOne (Sql.joinLoop f lhs) k (fun t m => t.depth + k ≤ m + lhs.depth) :=
      fun lhs k => ih k lhs
    unfold Sql.joinLoop
    sz

theorem SzD.fromClause {f n : Nat} :
    Sz tokOne (fromClause f) n (fun o m => oval TableRef.depth o + n ≤ m) := by
  have := fun lhs k => SzD.joinLoop f k lhs
  unfold Sql.fromClause
  sz

theorem SzD.whereClause {f n : Nat} :
    Sz tokOne (whereClause f) n (fun o m => oval Cond.depth o + n ≤ m) := by
  unfold Sql.whereClause
  sz

theorem SzD.groupByLoop (f : Nat) : ∀ n b, Sz tokOne (groupByLoop f b) n (fun _ m => n ≤ m) := by
  induction f with
  | zero => intro n b; unfold Sql.groupByLoop; sz
  | succ f ih =>
    intro n b
    have ih' : ∀ b k, Sz tokOne (Sql.groupByLoop f b) k (fun _ m => k ≤ m) := fun b k => ih k b
    unfold Sql.groupByLoop
    sz

theorem SzD.groupByClause {f n : Nat} : Sz tokOne (groupByClause f) n (fun _ m => n ≤ m) := by
  have := fun b k => SzD.groupByLoop f k b
  unfold Sql.groupByClause
  sz

theorem SzD.sortSpecList {f n : Nat} : Sz tokOne (sortSpecList f) n (fun _ m => n ≤ m) := by
  have hloop : ∀ (body : P (SortSpec × Bool)) n, (∀ j, Sz tokOne body j (fun _ m => j ≤ m)) →
      Sz tokOne (Sql.sepLoop f body) n (fun _ m => n ≤ m) := fun body n h => SzD.sepLoop0 f n h
  unfold Sql.sortSpecList
  sz

theorem SzD.limitLoop (f : Nat) : ∀ n lc, Sz tokOne (limitLoop f lc) n (fun _ m => n ≤ m) := by
  induction f with
  | zero => intro n lc; unfold Sql.limitLoop; sz
  | succ f ih =>
    intro n lc
    have ih' : ∀ lc k, Sz tokOne (Sql.limitLoop f lc) k (fun _ m => k ≤ m) := fun lc k => ih k lc
    unfold Sql.limitLoop
    sz

theorem SzD.limitOffsetClause {f n : Nat} :
    Sz tokOne (limitOffsetClause f) n (fun _ m => n ≤ m) := by
  have := fun lc k => SzD.limitLoop f k lc
  unfold Sql.limitOffsetClause
  sz

macro_rules | `(tactic| sz_known) => `(tactic| first
  | with_reducible exact SzD.selectList | with_reducible exact SzD.fromClause
  | with_reducible exact SzD.whereClause | with_reducible exact SzD.groupByClause
  | with_reducible exact SzD.sortSpecList | with_reducible exact SzD.limitOffsetClause)

theorem SzD.parseSelect {f n : Nat} :
    Sz tokOne (parseSelect f) n (fun s m => s.depth + n ≤ m) := by
  unfold Sql.parseSelect
  sz

theorem SzD.tableElements {f n : Nat} : Sz tokOne (tableElements f) n (fun _ m => n ≤ m) := by
  have hloop : ∀ (body : Token → P (ColDef × Bool)) tys n,
      (∀ t j, Sz tokOne (body t) j (fun _ m => j ≤ m)) →
      Sz tokOne (Sql.guardedLoop f tys body) n (fun _ m => n ≤ m) :=
    fun body tys n h => SzD.guardedLoop0 f n h
  unfold Sql.tableElements
  sz

macro_rules | `(tactic| sz_known) => `(tactic| with_reducible exact SzD.tableElements)

theorem SzD.parseCreate {f n : Nat} :
    Sz tokOne (parseCreate f) n (fun s m => s.condDepth + n ≤ m) := by
  unfold Sql.parseCreate
  sz

theorem SzD.parseInsert {f n : Nat} :
    Sz tokOne (parseInsert f) n (fun s m => s.condDepth + n ≤ m) := by
  have hloop : ∀ {α} (body : Token → P (α × Bool)) tys n,
      (∀ t j, Sz tokOne (body t) j (fun _ m => j ≤ m)) →
      Sz tokOne (Sql.guardedLoop f tys body) n (fun _ m => n ≤ m) :=
    fun body tys n h => SzD.guardedLoop0 f n h
  unfold Sql.parseInsert
  sz

theorem SzD.parseUpdate {f n : Nat} :
    Sz tokOne (parseUpdate f) n (fun s m => s.condDepth + n ≤ m) := by
  have hloop : ∀ {α} (body : Token → P (α × Bool)) tys n,
      (∀ t j, Sz tokOne (body t) j (fun _ m => j ≤ m)) →
      Sz tokOne (Sql.guardedLoop f tys body) n (fun _ m => n ≤ m) :=
    fun body tys n h => SzD.guardedLoop0 f n h
  unfold Sql.parseUpdate
  sz

theorem SzD.parseDelete {f n : Nat} :
    Sz tokOne (parseDelete f) n (fun s m => s.condDepth + n ≤ m) := by
  unfold Sql.parseDelete
  sz

theorem SzD.parseShow {n : Nat} : Sz tokOne parseShow n (fun s m => s.condDepth + n ≤ m) := by
  unfold Sql.parseShow
  sz

theorem SzD.parseStmt {f n : Nat} :
    Sz tokOne (parseStmt f) n (fun s m => s.condDepth + n ≤ m) := by
  have := @SzD.parseCreate
  have := @SzD.parseSelect
  have := @SzD.parseInsert
  have := @SzD.parseUpdate
  have := @SzD.parseDelete
  have := @SzD.parseShow
  unfold Sql.parseStmt
  sz

theorem parseStmt_condDepth (f : Nat) (ts : List Token) (s : Stmt) (rest : List Token)
    (h : parseStmt f ts = .ok s rest) :
    ∃ pre, ts = pre ++ rest ∧ s.condDepth ≤ pre.length := by
  obtain ⟨pre, e, q⟩ := (SzD.parseStmt (f := f) (n := 0)) ts s rest h
  refine ⟨pre, e, ?_⟩
  rw [wsum_tokOne] at q
  omega

theorem orCond_depth (f : Nat) (ts : List Token) (c : Cond) (rest : List Token)
    (h : orCond f ts = .ok c rest) :
    ∃ pre, ts = pre ++ rest ∧ c.depth ≤ pre.length := by
  obtain ⟨pre, e, q⟩ := (SzD.orCond (f := f) (n := 0)) ts c rest h
  refine ⟨pre, e, ?_⟩
  rw [wsum_tokOne] at q
  omega

end Mkdb.Sql
