import Mkdb.Proofs.ReplayInsert4
/-!
Redo of logged INSERT statements: **replaying the log of a statement on the state before it yields
the state after it.**

* `replay_insert_record` (in `ReplayInsert2`): one INSERT record.
* `replay_insert_logs_gen`, `replay_insert_logs`: the whole log of one `RelationService.Insert`
  (the INSERT record, and the catalog UPDATE record when the root moved), replayed on a store that
  satisfies the same catalog description as the store the statement ran on: the replay ends in a
  store satisfying the *same* catalog description (`Cat … ptF sch tbls'`, same page table, same
  trees, page for page) as the live post-state, with the same allocation frontier and row-id
  counter; the LSN counter is the live one minus one (recovery adds the final bump itself).
* `replay_skips_applied`, `replay_tolerates_present` (in `ReplayInsert2`), `replay_clean_gen`,
  `replay_clean`: records that are already applied change nothing but the LSN counter and - an INSERT
  record with a key beyond it - the row-id counter.
* `replay_history`: a list of statements run live, their logs concatenated and replayed on the
  store they started from.
* non-vacuity on the concrete store `st0` of `RefineStmt`.
-/
set_option autoImplicit false
namespace Mkdb.Store
open Mkdb.Page Mkdb.Tuple Mkdb.Generated Mkdb.Tree Mkdb.Engine

/-! ### `replayAll` -/

theorem replayAll_cons_ok' {r : WalRec} {rest : List WalRec} {s s' : Store}
    (h : replayOne r s = (s', none, false)) : replayAll (r :: rest) s = replayAll rest s' := by
  rw [replayAll, h]

theorem replayAll_append {l1 l2 : List WalRec} {s s' : Store}
    (h : replayAll l1 s = (s', none, false)) : replayAll (l1 ++ l2) s = replayAll l2 s' := by
  induction l1 generalizing s with
  | nil =>
    simp only [replayAll, Prod.mk.injEq, and_true] at h
    subst h
    rfl
  | cons r rest ih =>
    rw [List.cons_append]
    rw [replayAll] at h ⊢
    -- the first record must have gone through
    rcases hr : replayOne r s with ⟨s1, msg, ab⟩
    rw [hr] at h
    cases msg with
    | some m => simp only [Prod.mk.injEq] at h; exact absurd h.2.1 (by simp)
    | none =>
      cases ab with
      | true => simp only [Prod.mk.injEq] at h; exact absurd h.2.2 (by simp)
      | false =>
        simp only at h ⊢
        exact ih h

/-! ### the leaf of the page table after its row was rewritten -/

theorem mem_setVal_leaf (pt : Levels) (p : Leaf × Bool) (hp : p ∈ pt.leaves) (k lsn : Nat) (v : Bytes)
    (hany : p.1.cells.any (fun c => c.key == k) = true) :
    (({ p.1 with cells := p.1.cells.map (fun c => if c.key == k then { c with val := v } else c),
                 lsn := lsn } : Leaf), true) ∈ (setVal pt k lsn v).leaves := by
  unfold setVal
  refine List.mem_map.mpr ⟨p, hp, ?_⟩
  obtain ⟨l, d⟩ := p
  simp only at hany ⊢
  simp only [hany, if_true]

/-! ### the log of one statement -/

/-- **Replay of the log of one INSERT statement.**  `s` is the store the statement runs on, `r` the
store the log is replayed on; both satisfy the catalog description `Cat · pt sch tbls` (so they show
the same trees), agree on the allocation frontier and the row-id counter, and `r`'s LSN counter is
not ahead of `s`'s (`r = s` is the case "redo on the state before the statement").  Under the
hypotheses of `insert_refines`, with the root page of the table older than the LSN counter and not
at offset 0: the statement succeeds, and replaying its log on `r` succeeds and ends in a store
satisfying the same catalog description as the live post-state; frontier and row-id counter agree,
the replayed LSN counter is one short of the live one. -/
theorem replay_insert_logs_gen (s r : Store) (pt sch : Levels) (tbls : List (Bytes × Levels))
    (h : Cat s pt sch tbls) (hr : Cat r pt sch tbls) (hself : PtSelf pt)
    (hrnf : r.hdr.nextFree = s.hdr.nextFree) (hrlk : r.hdr.lastKey = s.hdr.lastKey)
    (hrlsn : r.hdr.nextLSN ≤ s.hdr.nextLSN)
    (table : Bytes) (t : Levels) (ht : (table, t) ∈ tbls) (cols : List String) (vals : List Val)
    (schema : List FieldDef) (buf : Bytes) (hsch : schemaOf sch table = some schema)
    (hcols : (colsOf schema cols).length = vals.length)
    (hnames : checkColumns schema (colsOf schema cols) = none)
    (henc : encodeTuple schema ((colsOf schema cols).zip vals).reverse = .ok buf)
    (hlen : buf.length ≤ c_maxValueSize)
    (t' : Levels) (nf' : Nat)
    (hins : insertAppend t (s.hdr.lastKey + 1) s.hdr.nextLSN buf s.hdr.nextFree = .ok (t', nf'))
    (hd' : t'.inner.length + 2 ≤ treeFuel) (hl' : t'.leaves.length ≤ scanFuel)
    (hbig : (nf' : Int) ≤ 9223372036854775807)
    (hlsn : rootLSN t < s.hdr.nextLSN) (hpos : 0 < rootOff t) :
    ∃ s' ptF logs r', insert table cols vals s = .ok logs s' ∧
      Cat s' ptF sch (setTable tbls table t') ∧
      replayAll logs r = (r', none, false) ∧
      Cat r' ptF sch (setTable tbls table t') ∧ PtSelf ptF ∧
      ptEntries ptF = (ptEntries pt).map (repoint table (rootOff t')) ∧
      s'.hdr.nextFree = nf' ∧ r'.hdr.nextFree = nf' ∧
      s'.hdr.lastKey = s.hdr.lastKey + 1 ∧ r'.hdr.lastKey = s.hdr.lastKey + 1 ∧
      r'.hdr.nextLSN + 1 = s'.hdr.nextLSN ∧
      ((rootOff t' = rootOff t ∧ s'.hdr.nextLSN = s.hdr.nextLSN + 1 ∧ logs.length = 1) ∨
       (rootOff t' ≠ rootOff t ∧ s'.hdr.nextLSN = s.hdr.nextLSN + 2 ∧ logs.length = 2)) := by
  obtain ⟨s', ptF, logs, erun, hc', hlk', hnf', hcase⟩ := insert_refines' s pt sch tbls h table t ht cols vals
    schema buf hsch hcols hnames henc hlen t' nf' hins hd' hl' hbig
  have hinsr : insertAppend t (s.hdr.lastKey + 1) s.hdr.nextLSN buf r.hdr.nextFree = .ok (t', nf') := by
    rw [hrnf]; exact hins
  obtain ⟨r1, ptF1, hrun1, hc1, hself1, hnf1, hlk1, hlsn1, hpr1, hent1, hcase1, _⟩ :=
    replay_insert_record r pt sch tbls hr hself table t ht (s.hdr.lastKey + 1) s.hdr.nextLSN buf hlsn hpos
      t' nf' hinsr hd' hl' hbig
  have hlk1' : r1.hdr.lastKey = s.hdr.lastKey + 1 := by rw [hlk1, hrlk]; omega
  have hlsn1' : r1.hdr.nextLSN = s.hdr.nextLSN := by rw [hlsn1]; omega
  rcases hcase with ⟨hmove, rfl, hlsn', rfl⟩ | ⟨hmove, hlsn', a, p, hal, hpa, hp, hap, rfl, rfl⟩
  · -- the root did not move: one record
    rcases hcase1 with ⟨_, rfl⟩ | ⟨hm, _⟩
    · refine ⟨s', ptF1, _, r1, erun, hc', ?_, hc1, hself1, hent1, hnf', hnf1, hlk', hlk1', by omega,
        .inl ⟨hmove, hlsn', rfl⟩⟩
      rw [replayAll_cons_ok' hrun1]; rfl
    · exact absurd hmove hm
  · -- the root moved: the INSERT record, then the catalog UPDATE record
    rcases hcase1 with ⟨hm, _⟩ | ⟨_, a1, p1, hal1, hpa1, _, _, rfl⟩
    · exact absurd hm hmove
    · have haa : a1 = a := row_unique pt h.names a1 a hal1 hal table _ _ hpa1 hpa
      subst haa
      -- the page table after the first record, and its leaf holding the row
      obtain ⟨hH1, hI1, _, _, _⟩ := hc1.tree _ Cat.pt_mem
      have hany : p.1.cells.any (fun c => c.key == a1.key) = true :=
        List.any_eq_true.mpr ⟨a1, hap, by simp⟩
      have hm2 := mem_setVal_leaf pt p hp a1.key s.hdr.nextLSN (ptRow table (rootOff t')) hany
      have hany2 : (p.1.cells.map (fun c => if c.key == a1.key then
          { c with val := ptRow table (rootOff t') } else c)).any (fun c => c.key == a1.key) = true := by
        rw [RedoLink.any_key_map p.1.cells _ (fun c => by split <;> rfl) a1.key]
        exact hany
      have hvlen : (ptRow table (rootOff t')).length ≤ c_maxValueSize := by
        rw [ptRow_length]; exact h.tlen (table, t) ht
      obtain ⟨r2, hrun2, hH2, hh2, hfr2⟩ := replay_update_held r1 _ hH1 hI1 _ true hm2 a1.key
        (s.hdr.nextLSN + 1) (ptRow table (rootOff t')) hany2 hvlen (Nat.lt_succ_self _)
      have hss := setVal_setVal pt a1.key s.hdr.nextLSN (s.hdr.nextLSN + 1) (ptRow table (rootOff t'))
      obtain ⟨_, hIpt, _, _, _⟩ := h.tree pt Cat.pt_mem
      have hInv' : Inv t' nf' := insertAppend_inv t t' _ _ _ nf' buf (h.tree t (Cat.tb_mem ht)).2.1 hins
      have hroot_lt : rootOff t' < nf' := hInv'.offs.2 _ (rootOff_mem_offs t' nf' hInv')
      obtain ⟨hentF, hdecF⟩ := ptEntries_setVal_row pt _ hIpt h.names a1 hal table (rootOff t) (rootOff t')
        (s.hdr.nextLSN + 1) hpa (h.tlen (table, t) ht) (by omega)
      have hpoff : p.1.off ∈ offs pt := by
        rw [offs_eq]
        exact List.mem_append_left _ (List.mem_map.mpr ⟨p, hp, rfl⟩)
      have hc2 := hc1.setVal_pt (s' := r2) a1.key (s.hdr.nextLSN + 1) (ptRow table (rootOff t'))
        (by rw [hss, hentF, hent1]) (by rw [hss]; exact hdecF h.dec) hH2
        (fun off ho => hfr2 off (fun he => ho (by rw [offs_setVal, he]; exact hpoff)))
        (by rw [hh2]) (by rw [hh2]; exact Nat.le_refl _) (by rw [hh2])
      rw [hss] at hc2
      have hne : table ≠ sysPages := fun he => h.tsys.1 (he ▸ List.mem_map.mpr ⟨(table, t), ht, rfl⟩)
      have hF : PtLike pt (setVal pt a1.key (s.hdr.nextLSN + 1) (ptRow table (rootOff t'))) :=
        .inr ⟨_, _, _, rfl⟩
      refine ⟨s', _, _, r2, erun, hc', ?_, hc2, hself.repoint hentF hne hF.facts.1, hentF, hnf',
        by rw [hh2]; exact hnf1, hlk', by rw [hh2]; exact hlk1', ?_, .inr ⟨hmove, hlsn', rfl⟩⟩
      · rw [replayAll_cons_ok' hrun1, replayAll_cons_ok' hrun2]; rfl
      · rw [hh2, hlsn']
        show max r1.hdr.nextLSN (s.hdr.nextLSN + 1) + 1 = _
        rw [hlsn1']; omega

/-- **Redo of the log of one INSERT statement on the state before it yields the state after it.**
The special case `r = s` of `replay_insert_logs_gen`: the log `logs` of the statement, replayed on
the pre-state `s`, ends in a store `r'` that satisfies the same catalog description as the live
post-state `s'` - same page table `ptF`, same tables `setTable tbls table t'`, page for page - with
the same allocation frontier and row-id counter; `r'.nextLSN + 1 = s'.nextLSN` (recovery bumps the
LSN counter once more when the replay is over). -/
theorem replay_insert_logs (s : Store) (pt sch : Levels) (tbls : List (Bytes × Levels))
    (h : Cat s pt sch tbls) (hself : PtSelf pt)
    (table : Bytes) (t : Levels) (ht : (table, t) ∈ tbls) (cols : List String) (vals : List Val)
    (schema : List FieldDef) (buf : Bytes) (hsch : schemaOf sch table = some schema)
    (hcols : (colsOf schema cols).length = vals.length)
    (hnames : checkColumns schema (colsOf schema cols) = none)
    (henc : encodeTuple schema ((colsOf schema cols).zip vals).reverse = .ok buf)
    (hlen : buf.length ≤ c_maxValueSize)
    (t' : Levels) (nf' : Nat)
    (hins : insertAppend t (s.hdr.lastKey + 1) s.hdr.nextLSN buf s.hdr.nextFree = .ok (t', nf'))
    (hd' : t'.inner.length + 2 ≤ treeFuel) (hl' : t'.leaves.length ≤ scanFuel)
    (hbig : (nf' : Int) ≤ 9223372036854775807)
    (hlsn : rootLSN t < s.hdr.nextLSN) (hpos : 0 < rootOff t) :
    ∃ s' ptF logs r', insert table cols vals s = .ok logs s' ∧
      Cat s' ptF sch (setTable tbls table t') ∧
      replayAll logs s = (r', none, false) ∧
      Cat r' ptF sch (setTable tbls table t') ∧ PtSelf ptF ∧
      ptEntries ptF = (ptEntries pt).map (repoint table (rootOff t')) ∧
      s'.hdr.nextFree = nf' ∧ r'.hdr.nextFree = nf' ∧
      s'.hdr.lastKey = s.hdr.lastKey + 1 ∧ r'.hdr.lastKey = s.hdr.lastKey + 1 ∧
      r'.hdr.nextLSN + 1 = s'.hdr.nextLSN ∧
      ((rootOff t' = rootOff t ∧ s'.hdr.nextLSN = s.hdr.nextLSN + 1 ∧ logs.length = 1) ∨
       (rootOff t' ≠ rootOff t ∧ s'.hdr.nextLSN = s.hdr.nextLSN + 2 ∧ logs.length = 2)) :=
  replay_insert_logs_gen s s pt sch tbls h h hself rfl rfl (Nat.le_refl _) table t ht cols vals schema buf
    hsch hcols hnames henc hlen t' nf' hins hd' hl' hbig hlsn hpos

/-- two stores satisfying the same catalog description show the same page at every offset of
every tree of the catalog -/
theorem Cat.same_pages {s r : Store} {pt sch : Levels} {tbls : List (Bytes × Levels)}
    (h : Cat s pt sch tbls) (hr : Cat r pt sch tbls) :
    ∀ x ∈ catTrees pt sch tbls, ∀ o ∈ offs x, view r o = view s o := by
  intro x hx o ho
  obtain ⟨e, he, rfl⟩ := List.mem_map.mp ho
  rw [(h.tree x hx).1 e he, (hr.tree x hx).1 e he]

/-! ### a log that is already applied -/

/-- a record recovery has nothing to do for: its page already carries its LSN (any kind of record),
or it is the INSERT of a key that is already in the tree of its table -/
def Applied (tbls : List (Bytes × Levels)) (s : Store) (r : WalRec) : Prop :=
  (∃ n d, view s r.page = some (n, d) ∧ nodeOff n = r.page ∧ r.lsn ≤ nodeLSN n) ∨
  (r.op = c_OpInsert ∧ ∃ table t, (table, t) ∈ tbls ∧ r.page = rootOff t ∧ r.cell ∈ keys t)

/-- the row-id counter after the replay of a log: raised to the key of every INSERT record in it -/
def maxKey (log : List WalRec) (m : Nat) : Nat :=
  log.foldl (fun m r => if r.op == c_OpInsert then max m r.cell else m) m

theorem maxKey_of_le (log : List WalRec) (m : Nat) (h : ∀ r ∈ log, r.op = c_OpInsert → r.cell ≤ m) :
    maxKey log m = m := by
  induction log with
  | nil => rfl
  | cons r rest ih =>
    have hr : (if r.op == c_OpInsert then max m r.cell else m) = m := by
      split
      · rename_i hb
        exact Nat.max_eq_left (h r List.mem_cons_self (by simpa using hb))
      · rfl
    unfold maxKey at ih ⊢
    rw [List.foldl_cons, hr]
    exact ih (fun r' hr' => h r' (List.mem_cons_of_mem _ hr'))

/-- **Recovery of a fully flushed database changes no table** (general form): a log all of whose
records are already applied (skipped by LSN, or INSERTs of keys already present) is replayed without
error and without any visible change; of the header only the two counters move: `nextLSN` to the
largest LSN seen, and the row-id counter to the largest key of an INSERT record seen - also of a
skipped one (the pages of a torn flush may be ahead of the header). -/
theorem replay_clean_gen (log : List WalRec) (s : Store) (pt sch : Levels) (tbls : List (Bytes × Levels))
    (h : Cat s pt sch tbls) (hall : ∀ r ∈ log, Applied tbls s r) :
    ∃ s', replayAll log s = (s', none, false) ∧ view s' = view s ∧ Cat s' pt sch tbls ∧
      s'.hdr = { s.hdr with nextLSN := log.foldl (fun m r => max m r.lsn) s.hdr.nextLSN,
                            lastKey := maxKey log s.hdr.lastKey } := by
  induction log generalizing s with
  | nil => exact ⟨s, rfl, rfl, h, rfl⟩
  | cons r rest ih =>
    have hstep : ∃ s1, replayOne r s = (s1, none, false) ∧ view s1 = view s ∧ Cat s1 pt sch tbls ∧
        s1.hdr = { s.hdr with nextLSN := max s.hdr.nextLSN r.lsn,
                              lastKey := if r.op == c_OpInsert then max s.hdr.lastKey r.cell else s.hdr.lastKey } := by
      rcases hall r List.mem_cons_self with ⟨n, d, hv, ho, hl⟩ | ⟨hop, table, t, ht, hpg, hk⟩
      · obtain ⟨s1, e, v, hh, hc⟩ := replay_skips_applied r s n d hv ho hl
        exact ⟨s1, e, v, hc _ _ _ h, hh⟩
      · obtain ⟨s1, e, v, hh, hc⟩ := replay_tolerates_present s pt sch tbls h table t ht r.cell r.lsn r.val hk
        have hr : r = ⟨c_OpInsert, r.lsn, rootOff t, r.cell, r.val⟩ := by
          cases r; simp only at hop hpg; subst hop hpg; rfl
        rw [← hr] at e
        refine ⟨s1, e, v, hc, ?_⟩
        have hop1 : (r.op == c_OpInsert) = true := by rw [hop]; decide
        rw [hh]
        simp only [hop1, if_true]
    obtain ⟨s1, e1, v1, hc1, hh1⟩ := hstep
    have hall1 : ∀ r' ∈ rest, Applied tbls s1 r' := by
      intro r' hr'
      have := hall r' (List.mem_cons_of_mem _ hr')
      unfold Applied at this ⊢
      rw [v1]
      exact this
    obtain ⟨s', e', v', hc', hh'⟩ := ih s1 hc1 hall1
    refine ⟨s', by rw [replayAll_cons_ok' e1]; exact e', v'.trans v1, hc', ?_⟩
    rw [hh', hh1]
    simp only [maxKey, List.foldl_cons]

/-- **Recovery of a fully flushed database changes no table**: a log all of whose records are
already applied (skipped by LSN, or INSERTs of keys already present) and none of whose INSERT records
carries a key beyond the row-id counter (every logged key was handed out by the counter, and a
complete flush wrote the counter) is replayed without error and without any visible change; of the
header only `nextLSN` moves, to the largest LSN seen. -/
theorem replay_clean (log : List WalRec) (s : Store) (pt sch : Levels) (tbls : List (Bytes × Levels))
    (h : Cat s pt sch tbls) (hall : ∀ r ∈ log, Applied tbls s r)
    (hkeys : ∀ r ∈ log, r.op = c_OpInsert → r.cell ≤ s.hdr.lastKey) :
    ∃ s', replayAll log s = (s', none, false) ∧ view s' = view s ∧ Cat s' pt sch tbls ∧
      s'.hdr = { s.hdr with nextLSN := log.foldl (fun m r => max m r.lsn) s.hdr.nextLSN } := by
  obtain ⟨s', e, v, c, hh⟩ := replay_clean_gen log s pt sch tbls h hall
  refine ⟨s', e, v, c, ?_⟩
  rw [hh, maxKey_of_le log _ hkeys]

/-! ### a history of statements -/

/-- an INSERT statement -/
structure Stmt where
  table : Bytes
  cols  : List String
  vals  : List Val

/-- A run of INSERT statements, live, from the store `s` with user tables `tbls` to the store `s'`
with user tables `tbls'`, producing the log `logs`; every statement satisfies the side conditions
of `insert_refines` (its table exists, the row encodes and fits, the levels insert succeeds within
the fuels). -/
inductive LiveRun (sch : Levels) : Store → List (Bytes × Levels) → List Stmt → Store →
    List (Bytes × Levels) → List WalRec → Prop
  | nil (s : Store) (tbls : List (Bytes × Levels)) : LiveRun sch s tbls [] s tbls []
  | cons {s s1 s2 : Store} {tbls tbls2 : List (Bytes × Levels)} {st : Stmt} {rest : List Stmt}
      {logs logs2 : List WalRec} (t : Levels) (schema : List FieldDef) (buf : Bytes) (t' : Levels) (nf' : Nat)
      (ht : (st.table, t) ∈ tbls) (hsch : schemaOf sch st.table = some schema)
      (hcols : (colsOf schema st.cols).length = st.vals.length)
      (hnames : checkColumns schema (colsOf schema st.cols) = none)
      (henc : encodeTuple schema ((colsOf schema st.cols).zip st.vals).reverse = .ok buf)
      (hlen : buf.length ≤ c_maxValueSize)
      (hins : insertAppend t (s.hdr.lastKey + 1) s.hdr.nextLSN buf s.hdr.nextFree = .ok (t', nf'))
      (hd' : t'.inner.length + 2 ≤ treeFuel) (hl' : t'.leaves.length ≤ scanFuel)
      (hbig : (nf' : Int) ≤ 9223372036854775807)
      (hrun : insert st.table st.cols st.vals s = .ok logs s1)
      (hrest : LiveRun sch s1 (setTable tbls st.table t') rest s2 tbls2 logs2) :
      LiveRun sch s tbls (st :: rest) s2 tbls2 (logs ++ logs2)

/-- side conditions on the store a history starts from, which every statement keeps true: the root
pages of the user tables are older than the LSN counter; no page lies at offset 0 (the file header) -/
structure Fresh (s : Store) (tbls : List (Bytes × Levels)) : Prop where
  lsn : ∀ e ∈ tbls, rootLSN e.2 < s.hdr.nextLSN
  nf  : 0 < s.hdr.nextFree
  pos : ∀ e ∈ tbls, ∀ o ∈ offs e.2, 0 < o

theorem Fresh.step {s s' : Store} {tbls : List (Bytes × Levels)} (hf : Fresh s tbls)
    {table : Bytes} {t t' : Levels} {key nf' : Nat} {buf : Bytes} (ht : (table, t) ∈ tbls)
    (hI : Inv t s.hdr.nextFree)
    (hins : insertAppend t key s.hdr.nextLSN buf s.hdr.nextFree = .ok (t', nf'))
    (hlsn : s.hdr.nextLSN < s'.hdr.nextLSN) (hnf : s'.hdr.nextFree = nf') :
    Fresh s' (setTable tbls table t') := by
  have hle : s.hdr.nextFree ≤ nf' := insertAppend_nextFree t t' _ _ _ nf' buf hins
  refine ⟨?_, by have := hf.nf; omega, ?_⟩
  · intro e he
    rcases mem_setTable he with ⟨rfl, _⟩ | ⟨he, _⟩
    · rcases insertAppend_rootLSN t t' _ _ _ nf' buf hI hins with h | h
      · simp only; omega
      · have := hf.lsn _ ht
        simp only at this ⊢; omega
    · have := hf.lsn e he; omega
  · intro e he
    rcases mem_setTable he with ⟨rfl, _⟩ | ⟨he, _⟩
    · exact insertAppend_offs_pos t t' _ _ _ nf' buf hins hf.nf (hf.pos _ ht)
    · exact hf.pos e he

/-- **Crash with nothing flushed since the checkpoint.**  A list of INSERT statements is run live
from `s0`; the concatenation of their logs is replayed on a store `r0` satisfying the same catalog
description as `s0` (e.g. `s0` itself).  The replay succeeds and ends in a store satisfying the same
catalog description as the live final store: the same page table and the same trees for all tables,
page for page; allocation frontier and row-id counter agree; the LSN counter is not ahead. -/
theorem replay_history_gen (sch : Levels) {s0 sN : Store} {tbls tblsN : List (Bytes × Levels)}
    {stmts : List Stmt} {logs : List WalRec} (run : LiveRun sch s0 tbls stmts sN tblsN logs) :
    ∀ (pt : Levels) (r0 : Store), Cat s0 pt sch tbls → Cat r0 pt sch tbls → PtSelf pt → Fresh s0 tbls →
      r0.hdr.nextFree = s0.hdr.nextFree → r0.hdr.lastKey = s0.hdr.lastKey →
      r0.hdr.nextLSN ≤ s0.hdr.nextLSN →
      ∃ ptN rN, replayAll logs r0 = (rN, none, false) ∧
        Cat sN ptN sch tblsN ∧ Cat rN ptN sch tblsN ∧ PtSelf ptN ∧ Fresh sN tblsN ∧
        rN.hdr.nextFree = sN.hdr.nextFree ∧ rN.hdr.lastKey = sN.hdr.lastKey ∧
        rN.hdr.nextLSN ≤ sN.hdr.nextLSN := by
  induction run with
  | nil s tbls =>
    intro pt r0 h hr hself hf e1 e2 e3
    exact ⟨pt, r0, rfl, h, hr, hself, hf, e1, e2, e3⟩
  | @cons s s1 s2 tbls tbls2 st rest logs logs2 t schema buf t' nf' ht hsch hcols hnames henc hlen hins hd' hl' hbig
      hrun _ ih =>
    intro pt r0 h hr hself hf e1 e2 e3
    obtain ⟨_, hIt, _, _, _⟩ := h.tree t (Cat.tb_mem ht)
    obtain ⟨s', ptF, logs', r', erun, hc', hrep, hcr', hselfF, _, hnf', hnfr, hlk', hlkr, hl, hcase⟩ :=
      replay_insert_logs_gen s r0 pt sch tbls h hr hself e1 e2 e3 st.table t ht st.cols st.vals schema buf
        hsch hcols hnames henc hlen t' nf' hins hd' hl' hbig (hf.lsn _ ht)
        (hf.pos _ ht _ (rootOff_mem_offs t _ hIt))
    rw [hrun] at erun
    simp only [SRes.ok.injEq] at erun
    obtain ⟨rfl, rfl⟩ := erun
    have hf' : Fresh s1 (setTable tbls st.table t') :=
      hf.step ht hIt hins (by rcases hcase with ⟨_, h2, _⟩ | ⟨_, h2, _⟩ <;> omega) hnf'
    obtain ⟨ptN, rN, e, c1, c2, c3, c4, c5, c6, c7⟩ := ih ptF r' hc' hcr' hselfF hf' (by rw [hnfr, hnf'])
      (by rw [hlkr, hlk']) (by omega)
    exact ⟨ptN, rN, by rw [replayAll_append hrep]; exact e, c1, c2, c3, c4, c5, c6, c7⟩

/-- the case `r0 = s0` of `replay_history_gen`, with what it means for the pages: after replaying
the logs of the whole run on the store the run started from, every page of every tree of the
catalog (page table, `sys_schema`, all user tables) is seen exactly as in the live final store. -/
theorem replay_history (sch : Levels) {s0 sN : Store} {tbls tblsN : List (Bytes × Levels)}
    {stmts : List Stmt} {logs : List WalRec} (run : LiveRun sch s0 tbls stmts sN tblsN logs)
    (pt : Levels) (h : Cat s0 pt sch tbls) (hself : PtSelf pt) (hf : Fresh s0 tbls) :
    ∃ ptN rN, replayAll logs s0 = (rN, none, false) ∧
      Cat sN ptN sch tblsN ∧ Cat rN ptN sch tblsN ∧
      (∀ x ∈ catTrees ptN sch tblsN, ∀ o ∈ offs x, view rN o = view sN o) ∧
      rN.hdr.nextFree = sN.hdr.nextFree ∧ rN.hdr.lastKey = sN.hdr.lastKey ∧
      rN.hdr.ptRoot = sN.hdr.ptRoot ∧ rN.hdr.nextLSN ≤ sN.hdr.nextLSN := by
  obtain ⟨ptN, rN, e, c1, c2, _, _, c4, c5, c6⟩ :=
    replay_history_gen sch run pt s0 h h hself hf rfl rfl (Nat.le_refl _)
  exact ⟨ptN, rN, e, c1, c2, c1.same_pages c2, c4, c5, by rw [← c1.root, ← c2.root], c6⟩

/-! ### non-vacuity: the concrete store `st0` -/

theorem pt0_self : PtSelf pt0 := by
  intro off hm
  rw [pt0_entries] at hm
  simp only [List.mem_cons, Prod.mk.injEq, List.not_mem_nil, or_false] at hm
  rcases hm with ⟨_, rfl⟩ | ⟨h1, _⟩ | ⟨h1, _⟩
  · decide
  · rw [sysPages_eq, sysSchema_eq] at h1; exact absurd h1 (by decide)
  · rw [sysPages_eq] at h1; exact absurd h1 (by decide)

/-- the tree of table `"t"` after the insert of the empty row -/
def rt1 : Levels := ⟨[(⟨12288, 7, false, false, 0, 0, [⟨4, false, []⟩]⟩, true)], []⟩

/-- one insert into the table `"t"` of `st0`, then its log replayed on `st0`: the replay succeeds
and the replayed store satisfies the same catalog description as the live one, with the new row -/
theorem replay_st0 : ∃ s' ptF logs r', insert tname [] [] st0 = .ok logs s' ∧
    Cat s' ptF sch0 [(tname, rt1)] ∧
    replayAll logs st0 = (r', none, false) ∧ Cat r' ptF sch0 [(tname, rt1)] ∧
    live rt1 = [⟨4, false, []⟩] ∧ r'.hdr.lastKey = 4 ∧ r'.hdr.nextFree = 16384 ∧ r'.hdr.nextLSN = 7 := by
  obtain ⟨s', ptF, logs, r', e, hc, hrep, hcr, _, _, _, hnf, _, hlk, hl, hcase⟩ :=
    replay_insert_logs st0 pt0 sch0 [(tname, t0)] cat0 pt0_self tname t0 (by simp)
      [] [] [] [] (by decide) (by decide) rfl rfl (by decide) rt1 16384 rfl (by decide) (by decide)
      (by decide) (by decide) (by decide)
  have hst : setTable [(tname, t0)] tname rt1 = [(tname, rt1)] := by simp [setTable]
  rw [hst] at hc hcr
  refine ⟨s', ptF, logs, r', e, hc, hrep, hcr, rfl, hlk, hnf, ?_⟩
  rcases hcase with ⟨_, h2, _⟩ | ⟨h1, _⟩
  · rw [h2] at hl
    have : st0.hdr.nextLSN = 7 := rfl
    omega
  · exact absurd rfl h1

/-! ### non-vacuity with a root move: the only leaf of the table is one cell short of full -/

def leaf8 : Leaf := ⟨12288, 5, false, false, 0, 0,
  [⟨4, false, []⟩, ⟨5, false, []⟩, ⟨6, false, []⟩, ⟨7, false, []⟩,
   ⟨8, false, []⟩, ⟨9, false, []⟩, ⟨10, false, []⟩, ⟨11, false, []⟩]⟩
def t8 : Levels := ⟨[(leaf8, true)], []⟩
def st8 : Store :=
  { hdr := { lastKey := 11, ptRoot := 4096, nextFree := 16384, nextLSN := 20 },
    mem := [(4096, ⟨.leaf ptLeaf, true⟩), (8192, ⟨.leaf ⟨8192, 0, false, false, 0, 0, []⟩, true⟩),
            (12288, ⟨.leaf leaf8, true⟩)] }

/-- the tree after the ninth row: the leaf split, a new root at 20480 -/
def t9 : Levels :=
  ⟨[(⟨12288, 20, false, true, 0, 16384,
       [⟨4, false, []⟩, ⟨5, false, []⟩, ⟨6, false, []⟩, ⟨7, false, []⟩]⟩, true),
    (⟨16384, 20, true, false, 12288, 0,
       [⟨8, false, []⟩, ⟨9, false, []⟩, ⟨10, false, []⟩, ⟨11, false, []⟩, ⟨12, false, []⟩]⟩, true)],
   [[(⟨20480, 20, 16384, [⟨8, 12288⟩]⟩, true)]]⟩

theorem t8_inv : Inv t8 16384 := by
  refine ⟨?_, ?_, ?_, ?_, ?_, ?_, ?_⟩
  · refine ⟨?_, ?_⟩
    · intro p hp; simp [t8] at hp; subst hp; simp [leaf8, c_maxLeafNodeCells]
    · intro lvl hl; simp [t8] at hl
  · simp [KeysAsc, keys, cells, t8, leaf8]
  · intro h2; simp [t8] at h2
  · simp [ChainOK, chainFrom, t8, leaf8]
  · simp [LinkOK, linked, t8]
  · simp [SepsOK, sepsAll, t8]
  · simp [OffsOK, offs, flatten, t8, leaf8]

theorem cat8 : Cat st8 pt0 sch0 [(tname, t8)] := by
  refine ⟨?_, ?_, rfl, cat0.dec, cat0.names, cat0.esch, ?_, ?_, cat0.tnames, cat0.tsys, ?_⟩
  · intro x hx
    simp only [catTrees, List.map_cons, List.map_nil, List.mem_cons, List.not_mem_nil, or_false] at hx
    rcases hx with rfl | rfl | rfl
    · refine ⟨?_, pt0_inv, by decide, by decide, ?_⟩
      · intro e he; simp [flatten, pt0] at he; subst he; rfl
      · intro a ha; simp [keys, cells, pt0, ptLeaf] at ha; rcases ha with rfl | rfl | rfl <;> decide
    · refine ⟨?_, emptyTree_inv _ _ (by decide), by decide, by decide, ?_⟩
      · intro e he; simp [flatten, sch0, emptyTree] at he; subst he; rfl
      · intro a ha; simp [keys, cells, sch0, emptyTree] at ha
    · refine ⟨?_, t8_inv, by decide, by decide, ?_⟩
      · intro e he; simp [flatten, t8] at he; subst he; rfl
      · intro a ha
        simp [keys, cells, t8, leaf8] at ha
        show a ≤ 11
        omega
  · simp [catTrees, offs, flatten, pt0, sch0, t8, emptyTree, ptLeaf, leaf8]
  · intro e he; simp at he; subst he; rw [pt0_entries]; simp [t8, rootOff, leaf8]
  · intro e he; rw [pt0_entries] at he; simp at he
    rcases he with rfl | rfl | rfl <;> simp
  · intro e he; simp at he; subst he; decide

/-- one insert into the table of `st8` (the root moves: two log records), then its log replayed on
`st8`: the replay succeeds, the replayed store satisfies the same catalog description as the live
one - the split tree `t9`, the catalog row of the table naming the new root 20480 -/
theorem replay_st8 : ∃ s' ptF logs r', insert tname [] [] st8 = .ok logs s' ∧
    Cat s' ptF sch0 [(tname, t9)] ∧ logs.length = 2 ∧
    replayAll logs st8 = (r', none, false) ∧ Cat r' ptF sch0 [(tname, t9)] ∧
    (tname, 20480) ∈ ptEntries ptF ∧
    r'.hdr.lastKey = 12 ∧ r'.hdr.nextFree = 24576 ∧ r'.hdr.nextLSN = 21 ∧ s'.hdr.nextLSN = 22 := by
  obtain ⟨s', ptF, logs, r', e, hc, hrep, hcr, _, _, _, hnf, _, hlk, hl, hcase⟩ :=
    replay_insert_logs st8 pt0 sch0 [(tname, t8)] cat8 pt0_self tname t8 (by simp)
      [] [] [] [] (by decide) (by decide) rfl rfl (by decide) t9 24576 rfl (by decide) (by decide)
      (by decide) (by decide) (by decide)
  have hst : setTable [(tname, t8)] tname t9 = [(tname, t9)] := by simp [setTable]
  rw [hst] at hc hcr
  have h20 : st8.hdr.nextLSN = 20 := rfl
  rcases hcase with ⟨h1, _⟩ | ⟨_, h2, h3⟩
  · exact absurd h1 (by decide)
  · exact ⟨s', ptF, logs, r', e, hc, h3, hrep, hcr, hcr.etb (tname, t9) (by simp), hlk, hnf, by omega, by omega⟩

/-! ### non-vacuity of the history theorem: two inserts from `st0` -/

/-- the tree of table `"t"` after two inserts of the empty row -/
def t2 : Levels := ⟨[(⟨12288, 8, false, false, 0, 0, [⟨4, false, []⟩, ⟨5, false, []⟩]⟩, true)], []⟩

theorem fresh_st0 : Fresh st0 [(tname, t0)] :=
  ⟨by intro e he; simp at he; subst he; decide, by decide, by intro e he; simp at he; subst he; decide⟩

/-- two statements run live from `st0` form a `LiveRun`; replaying their logs on `st0` reproduces
the final tables -/
theorem history_st0 : ∃ sN ptN rN logs,
    LiveRun sch0 st0 [(tname, t0)] [⟨tname, [], []⟩, ⟨tname, [], []⟩] sN [(tname, t2)] logs ∧
    replayAll logs st0 = (rN, none, false) ∧
    Cat sN ptN sch0 [(tname, t2)] ∧ Cat rN ptN sch0 [(tname, t2)] ∧
    rN.hdr.lastKey = sN.hdr.lastKey ∧ sN.hdr.lastKey = 5 := by
  obtain ⟨s1, ptF1, logs1, e1, hc1, hk1, hn1, hcase1⟩ := insert_refines st0 pt0 sch0 [(tname, t0)] cat0 tname t0
    (by simp) [] [] [] [] (by decide) (by decide) rfl rfl (by decide) rt1 16384 rfl (by decide) (by decide)
    (by decide)
  have hst1 : setTable [(tname, t0)] tname rt1 = [(tname, rt1)] := by simp [setTable]
  have hst2 : setTable [(tname, rt1)] tname t2 = [(tname, t2)] := by simp [setTable]
  have hl1 : s1.hdr.nextLSN = 8 := by
    rcases hcase1 with ⟨_, _, h, _⟩ | ⟨h, _⟩
    · exact h
    · exact absurd rfl h
  rw [hst1] at hc1
  have hins2 : insertAppend rt1 (s1.hdr.lastKey + 1) s1.hdr.nextLSN [] s1.hdr.nextFree = .ok (t2, 16384) := by
    rw [hk1, hl1, hn1]; rfl
  obtain ⟨s2, ptF2, logs2, e2, hc2, hk2, hn2, _⟩ := insert_refines s1 ptF1 sch0 [(tname, rt1)] hc1 tname rt1
    (by simp) [] [] [] [] (by decide) (by decide) rfl rfl (by decide) t2 16384 hins2 (by decide) (by decide)
    (by decide)
  have run2 : LiveRun sch0 s1 [(tname, rt1)] [⟨tname, [], []⟩] s2 [(tname, t2)] (logs2 ++ []) :=
    LiveRun.cons (st := ⟨tname, [], []⟩) rt1 [] [] t2 16384 (by simp) (by decide) (by decide) rfl rfl (by decide)
      hins2 (by decide) (by decide) (by decide) e2 (by rw [hst2]; exact LiveRun.nil _ _)
  have run : LiveRun sch0 st0 [(tname, t0)] [⟨tname, [], []⟩, ⟨tname, [], []⟩] s2 [(tname, t2)]
      (logs1 ++ (logs2 ++ [])) :=
    LiveRun.cons (st := ⟨tname, [], []⟩) t0 [] [] rt1 16384 (by simp) (by decide) (by decide) rfl rfl (by decide)
      rfl (by decide) (by decide) (by decide) e1 (by rw [hst1]; exact run2)
  obtain ⟨ptN, rN, e, c1, c2, _, _, c5, _⟩ := replay_history sch0 run pt0 cat0 pt0_self fresh_st0
  exact ⟨s2, ptN, rN, _, run, e, c1, c2, c5, by rw [hk2, hk1]; rfl⟩

end Mkdb.Store
