import Mkdb.Proofs.CrashPrefix7
/-!
Crash while a statement appends its records to the log, part 8: **the recovered table is one of the
states `Spec.rowPrefixStates` lists** (the candidates the crash-image judge of the harness accepts),
and every other table is as before the statement.

* `findTable_updRows_self`, `findTable_updRows_other`.
* `deleteFirst_vals`, `delete_state_in_rowPrefixStates`.
* `totalAssign`, `rewriteFirst_vals_total`, `update_state_in_rowPrefixStates`.
* `insert_state_in_rowPrefixStates`.
-/
set_option autoImplicit false
namespace Mkdb.Store
open Mkdb.Page Mkdb.Tuple Mkdb.Generated Mkdb.Tree

/-! ### the table of the statement, and the others -/

theorem updRows_name (table : Bytes) (F : List Spec.SRow → List Spec.SRow) (x : Spec.STable) :
    (updRows table F x).name = x.name := by
  unfold updRows
  split <;> rfl

theorem findTable_updRows_self (table : Bytes) (F : List Spec.SRow → List Spec.SRow) :
    ∀ (sdb : Spec.SDB) (st : Spec.STable), Spec.findTable sdb table = some st →
      Spec.findTable (sdb.map (updRows table F)) table = some { st with rows := F st.rows }
  | [], _, h => by simp [Spec.findTable] at h
  | x :: l, st, h => by
    unfold Spec.findTable at h ⊢
    rw [List.map_cons, List.find?_cons, updRows_name]
    rw [List.find?_cons] at h
    by_cases hb : (x.name == table) = true
    · simp only [hb] at h ⊢
      cases h
      simp only [updRows, hb, if_true]
    · simp only [hb] at h ⊢
      exact findTable_updRows_self table F l st h

theorem findTable_updRows_other (table : Bytes) (F : List Spec.SRow → List Spec.SRow) (n : Bytes)
    (hn : n ≠ table) : ∀ (sdb : Spec.SDB),
      Spec.findTable (sdb.map (updRows table F)) n = Spec.findTable sdb n
  | [] => rfl
  | x :: l => by
    unfold Spec.findTable
    rw [List.map_cons, List.find?_cons, List.find?_cons, updRows_name]
    by_cases hb : (x.name == n) = true
    · simp only [hb]
      have hne : (x.name == table) = false := by
        apply beq_false_of_ne
        intro he
        exact hn ((beq_iff_eq.mp hb).symm.trans he)
      simp only [updRows, hne, Bool.false_eq_true, if_false]
    · simp only [hb]
      exact findTable_updRows_other table F n hn l

/-! ### DELETE -/

theorem deleteFirst_vals : ∀ (l : List (Spec.SRow × Bool)) (n : Nat),
    (deleteFirst n l).map (·.vals) = Spec.rowPrefixStates.goDel l n
  | [], n => by simp [deleteFirst, Spec.rowPrefixStates.goDel]
  | (r, s) :: rest, n => by
    simp only [deleteFirst, Spec.rowPrefixStates.goDel]
    split
    · exact deleteFirst_vals rest (n - 1)
    · simp only [List.map_cons, deleteFirst_vals rest n]

/-- the table with the first `j` selected rows removed is one of the states `Spec.rowPrefixStates`
lists for the DELETE -/
theorem delete_state_in_rowPrefixStates (sdb : Spec.SDB) (table : Bytes) (w : Option Sql.Cond)
    (st : Spec.STable) (sel : List Bool) (hfind : Spec.findTable sdb table = some st)
    (hsel : Spec.selects st w = some sel) (j : Nat) (hj : j ≤ (sel.filter id).length) :
    (table, (deleteFirst j (st.rows.zip sel)).map (·.vals)) ∈ Spec.rowPrefixStates sdb (.delete table w) := by
  rw [deleteFirst_vals]
  simp only [Spec.rowPrefixStates, hfind, hsel]
  exact List.mem_map.mpr ⟨j, List.mem_range.mpr (by omega), rfl⟩

/-! ### UPDATE -/

/-- the `assign` of `Spec.rowPrefixStates` (the rewritten values, without the size / type check) -/
def totalAssign (cols : List FieldDef) (sets : List (Bytes × Sql.VExpr)) (vals : List Val) : List Val :=
  let m : Vals := (sets.map fun p => (Spec.nameStr p.1, match p.2 with | .lit l => Spec.litVal l | .col _ => Val.null)).reverse ++
    (cols.map (·.name)).zip vals
  cols.map fun fd => get m fd.name

theorem specAssign_total {cols : List FieldDef} {sets : List (Bytes × Sql.VExpr)} {v x : List Val}
    (h : specAssign cols sets v = some x) : x = totalAssign cols sets v := by
  unfold specAssign at h
  simp only at h
  split at h
  · cases h
  · split at h
    · cases h
    · cases h
      rfl

theorem rewriteFirst_vals_total (cols : List FieldDef) (sets : List (Bytes × Sql.VExpr)) :
    ∀ (l : List (Spec.SRow × Bool)) (n : Nat),
      (∀ p ∈ l, p.2 = true → specAssign cols sets p.1.vals ≠ none) →
      (rewriteFirst cols sets n l).map (·.vals) = Spec.rowPrefixStates.go (totalAssign cols sets) l n
  | [], n, _ => by simp [rewriteFirst, Spec.rowPrefixStates.go]
  | (r, s) :: rest, n, h => by
    have hrest : ∀ p ∈ rest, p.2 = true → specAssign cols sets p.1.vals ≠ none :=
      fun p hp => h p (List.mem_cons_of_mem _ hp)
    simp only [rewriteFirst, Spec.rowPrefixStates.go]
    split
    · rename_i hc
      have hs : s = true := by
        cases s
        · simp at hc
        · rfl
      obtain ⟨x, hx⟩ := Option.ne_none_iff_exists'.mp (h (r, s) List.mem_cons_self hs)
      simp only at hx
      simp only [List.map_cons, hx, Option.getD_some, specAssign_total hx,
        rewriteFirst_vals_total cols sets rest (n - 1) hrest]
    · simp only [List.map_cons, rewriteFirst_vals_total cols sets rest n hrest]

/-- an accepted UPDATE can rewrite every selected row -/
theorem specUpdate_selected_ok {sdb sdb' : Spec.SDB} {table : Bytes} {sets : List (Bytes × Sql.VExpr)}
    {w : Option Sql.Cond} (hspec : Spec.specUpdate sdb table sets w = some sdb')
    {st : Spec.STable} {sel : List Bool} (hfind : Spec.findTable sdb table = some st)
    (hsel : Spec.selects st w = some sel) :
    ∀ p ∈ st.rows.zip sel, p.2 = true → specAssign st.cols sets p.1.vals ≠ none := by
  rw [specUpdate_eq, hfind] at hspec
  simp only [Option.bind_some] at hspec
  split at hspec
  · cases hspec
  · split at hspec
    · cases hspec
    rw [hsel] at hspec
    simp only [Option.bind_some] at hspec
    cases hrows : (st.rows.zip sel).mapM (specUpdRow st.cols sets) with
    | none => rw [hrows] at hspec; cases hspec
    | some rows' =>
      clear hspec
      generalize st.rows.zip sel = l at hrows
      induction l generalizing rows' with
      | nil => intro p hp; cases hp
      | cons q l ih =>
        obtain ⟨b, bs, hb, hbs, _⟩ := (mapM_cons_some _ _ _ _).mp hrows
        intro p hp hp2
        rcases List.mem_cons.mp hp with rfl | hp
        · unfold specUpdRow at hb
          rw [hp2] at hb
          simp only [if_true] at hb
          intro hno
          rw [hno] at hb
          cases hb
        · exact ih bs hbs p hp hp2

/-- the table with the first `j` selected rows rewritten is one of the states `Spec.rowPrefixStates`
lists for the (accepted) UPDATE -/
theorem update_state_in_rowPrefixStates (sdb sdb' : Spec.SDB) (table : Bytes)
    (sets : List (Bytes × Sql.VExpr)) (w : Option Sql.Cond)
    (hspec : Spec.specUpdate sdb table sets w = some sdb')
    (st : Spec.STable) (sel : List Bool) (hfind : Spec.findTable sdb table = some st)
    (hsel : Spec.selects st w = some sel) (j : Nat) (hj : j ≤ (sel.filter id).length) :
    (table, (rewriteFirst st.cols sets j (st.rows.zip sel)).map (·.vals)) ∈
      Spec.rowPrefixStates sdb (.update table sets w) := by
  rw [rewriteFirst_vals_total st.cols sets _ j (specUpdate_selected_ok hspec hfind hsel)]
  simp only [Spec.rowPrefixStates, hfind, hsel]
  exact List.mem_map.mpr ⟨j, List.mem_range.mpr (by omega), rfl⟩

/-! ### INSERT -/

theorem mapM_some_filterMap {α β} (f : α → Option β) : ∀ (l : List α) (ys : List β),
    l.mapM f = some ys → (l.map f).filterMap id = ys
  | [], ys, h => by
    rw [mapM_nil_some] at h
    subst h
    rfl
  | a :: l, ys, h => by
    obtain ⟨b, bs, hb, hbs, rfl⟩ := (mapM_cons_some f a l ys).mp h
    simp only [List.map_cons, List.filterMap_cons, hb, id, mapM_some_filterMap f l bs hbs]

/-- the table after the INSERT of the first `j` rows is one of the states `Spec.rowPrefixStates` lists
for the (accepted) INSERT -/
theorem insert_state_in_rowPrefixStates (sdb sdb' sdbJ : Spec.SDB) (table : Bytes) (cols : List Bytes)
    (rows : List (List Sql.Lit))
    (hspec : Spec.specInsert sdb table cols (rows.map fun r => r.map Spec.litVal) = some sdb')
    (j : Nat)
    (hspecJ : Spec.specInsert sdb table cols ((rows.map fun r => r.map Spec.litVal).take j) = some sdbJ) :
    ∃ stJ, Spec.findTable sdbJ table = some stJ ∧
      (table, stJ.rows.map (·.vals)) ∈ Spec.rowPrefixStates sdb (.insert table cols rows) ∧
      ∀ n, n ≠ table → Spec.findTable sdbJ n = Spec.findTable sdb n := by
  unfold Spec.specInsert at hspec hspecJ
  cases hfind : Spec.findTable sdb table with
  | none => rw [hfind] at hspec; cases hspec
  | some st =>
    rw [hfind] at hspec hspecJ
    simp only [Option.bind_eq_bind, Option.bind_some] at hspec hspecJ
    split at hspec
    · cases hspec
    split at hspecJ
    · cases hspecJ
    cases hm : (rows.map fun r => r.map Spec.litVal).mapM (Spec.rowOf st cols) with
    | none => rw [hm] at hspec; cases hspec
    | some newRows =>
      rw [mapM_take _ _ newRows j hm] at hspecJ
      simp only [Option.bind_some, Option.pure_def, Option.some.injEq] at hspecJ
      have hJ : sdbJ = sdb.map (updRows table fun rs => rs ++ (newRows.take j).map fun v => ⟨none, v⟩) :=
        hspecJ.symm
      subst hJ
      refine ⟨_, findTable_updRows_self table _ sdb st hfind, ?_, fun n hn => findTable_updRows_other table _ n hn sdb⟩
      simp only [Spec.rowPrefixStates, hfind]
      have hvals : ((rows.map fun r => Spec.rowOf st cols (r.map Spec.litVal)).filterMap id) = newRows := by
        have := mapM_some_filterMap _ _ _ hm
        rw [List.map_map] at this
        exact this
      rw [hvals]
      refine List.mem_map.mpr ⟨min j newRows.length, List.mem_range.mpr (by omega), ?_⟩
      simp only [List.map_append, List.map_map]
      congr 2
      have : ((fun (r : Spec.SRow) => r.vals) ∘ fun v => (⟨none, v⟩ : Spec.SRow)) = id := rfl
      rw [this, List.map_id, List.take_eq_take_iff]
      omega

end Mkdb.Store
