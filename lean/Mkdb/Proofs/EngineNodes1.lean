import Mkdb.Proofs.Tree
import Mkdb.Proofs.Page
/-!
The nodes the engine can produce are nodes the page codec round-trips (C12, the quantifier
"every tree node the engine can produce"), part 1: the **field-range invariant** of the levels model.

`Inv` (Mkdb/Spec/TreeInv.lean) bounds the number of cells of every node, but says nothing about the
*sizes of the fields*: value lengths, the widths of keys, LSNs, offsets, sibling and child pointers.
`FieldsOK P L K t` says: every page offset, sibling pointer, child pointer of `t` is below `P`, every
LSN below `L`, every key (row id or separator) below `K`, every cell value at most `maxValueSize` bytes.

* `emptyTree_fields`: the tree CREATE TABLE starts from.
* `bubble_fields`, `insertAppend_fields`: an insert - leaf split, separator propagation, internal
  splits, root growth - keeps it, provided the key and the LSN are in range and the allocation
  frontier *after* the insert is at most `P`.  The value size needs no hypothesis: `insertAppend`
  refuses an oversized value (`rowTooLarge`).
* `updLeaves_fields`, `setVal_fields`, `setDeleted_fields`: the page-local cell changes keep it
  (`setVal` does not look at the value size - `updateCellAt` refuses an oversized value before the page
  is touched - so the value size is a hypothesis there).
* `FieldsOK.wf`: with the capacity clause of `Inv`, every page of `flatten t` satisfies `Page.WF`.
-/
set_option autoImplicit false
namespace Mkdb.Tree
open Mkdb.Page Mkdb.Generated Mkdb.Bin

/-- a leaf cell whose key is below `K` and whose value fits a cell -/
def LeafCellOK (K : Nat) (c : LeafCell) : Prop := c.key < K ∧ c.val.length ≤ c_maxValueSize

/-- the fields of a leaf are in range -/
def LeafOK (P L K : Nat) (l : Leaf) : Prop :=
  l.off < P ∧ l.lsn < L ∧ l.lSib < P ∧ l.rSib < P ∧ ∀ c ∈ l.cells, LeafCellOK K c

/-- the fields of an internal node are in range -/
def IntOK (P L K : Nat) (n : Internal) : Prop :=
  n.off < P ∧ n.lsn < L ∧ n.right < P ∧ ∀ c ∈ n.cells, c.key < K ∧ c.child < P

def InnerOK (P L K : Nat) (lvls : List (List (Internal × Bool))) : Prop :=
  ∀ lvl ∈ lvls, ∀ p ∈ lvl, IntOK P L K p.1

/-- **The field-range invariant**: pointers below `P`, LSNs below `L`, keys below `K`, values within
`maxValueSize`. -/
structure FieldsOK (P L K : Nat) (t : Levels) : Prop where
  leaves : ∀ p ∈ t.leaves, LeafOK P L K p.1
  inner  : InnerOK P L K t.inner

theorem emptyTree_fields (P L K off : Nat) (hoff : off < P) (hL : 0 < L) : FieldsOK P L K (emptyTree off) := by
  refine ⟨?_, ?_⟩
  · intro p hp
    simp only [emptyTree, List.mem_singleton] at hp
    subst hp
    refine ⟨hoff, hL, by show 0 < P; omega, by show 0 < P; omega, ?_⟩
    intro c hc
    cases hc
  · intro lvl hl
    simp only [emptyTree] at hl
    cases hl

/-! ### `bubble` -/

theorem midCell_ok {P K : Nat} (hP : 0 < P) (hK : 0 < K) (p1 : Internal)
    (h : ∀ c ∈ p1.cells, c.key < K ∧ c.child < P) : (midCell p1).key < K ∧ (midCell p1).child < P := by
  unfold midCell
  cases hc : p1.cells[p1.cells.length / 2]? with
  | none => exact ⟨hK, hP⟩
  | some c => exact h c (List.mem_of_getElem? hc)

theorem intApp_ok {P L K : Nat} {p : Internal} {sep nc lsn : Nat} (hp : IntOK P L K p) (hsep : sep < K)
    (hnc : nc < P) (hl : lsn < L) : IntOK P L K (intApp p sep nc lsn) := by
  obtain ⟨h1, _, h3, h4⟩ := hp
  refine ⟨h1, hl, hnc, ?_⟩
  intro c hc
  simp only [intApp, List.mem_append, List.mem_singleton] at hc
  rcases hc with hc | rfl
  · exact h4 c hc
  · exact ⟨hsep, h3⟩

theorem intL_ok {P L K : Nat} (hP : 0 < P) (hK : 0 < K) {p1 : Internal} (hp : IntOK P L K p1) :
    IntOK P L K (intL p1) := by
  obtain ⟨h1, h2, _, h4⟩ := hp
  exact ⟨h1, h2, (midCell_ok hP hK p1 h4).2, fun c hc => h4 c (List.mem_of_mem_take hc)⟩

theorem intR_ok {P L K : Nat} {p1 : Internal} {lsn nf : Nat} (hp : IntOK P L K p1) (hl : lsn < L)
    (hnf : nf < P) : IntOK P L K (intR p1 lsn nf) := by
  obtain ⟨_, _, h3, h4⟩ := hp
  exact ⟨hnf, hl, h3, fun c hc => h4 c (List.mem_of_mem_drop hc)⟩

/-- separator propagation keeps the fields in range, when the frontier it ends with is at most `P` -/
theorem bubble_fields {P L K : Nat} (hP : 0 < P) (hK : 0 < K) (lsn : Nat) (hl : lsn < L)
    (lvls : List (List (Internal × Bool))) :
    ∀ (sep l nc nf : Nat), sep < K → l < P → nc < P → (bubble lsn lvls sep l nc nf).2 ≤ P →
      InnerOK P L K lvls → InnerOK P L K (bubble lsn lvls sep l nc nf).1 := by
  have hps : 0 < c_pageSize := by decide
  induction lvls with
  | nil =>
    intro sep l nc nf hsep hlo hnc hfin _
    rw [bubble_nil] at hfin ⊢
    intro lvl hlvl p hp
    simp only [List.mem_singleton] at hlvl
    subst hlvl
    simp only [List.mem_singleton] at hp
    subst hp
    refine ⟨by show nf < P; simp only at hfin; omega, hl, hnc, ?_⟩
    intro c hc
    simp only [List.mem_singleton] at hc
    subst hc
    exact ⟨hsep, hlo⟩
  | cons lvl rest ih =>
    intro sep l nc nf hsep hlo hnc hfin h
    rcases eq_nil_or_snoc lvl with rfl | ⟨pre, ⟨p, d⟩, rfl⟩
    · rw [bubble_cons_nil]
      intro lvl hlvl
      cases hlvl
    · have hp : IntOK P L K p := h _ List.mem_cons_self (p, d) (by simp)
      have hpre : ∀ q ∈ pre, IntOK P L K q.1 := fun q hq => h _ List.mem_cons_self q (by simp [hq])
      have hrest : InnerOK P L K rest := fun lvl hl => h lvl (List.mem_cons_of_mem _ hl)
      have hp1 := intApp_ok hp hsep hnc hl
      rw [bubble_cons_snoc] at hfin ⊢
      split
      · intro lvl hlvl q hq
        rcases List.mem_cons.mp hlvl with rfl | hl'
        · rcases List.mem_append.mp hq with hq | hq
          · exact hpre q hq
          · simp only [List.mem_singleton] at hq
            subst hq
            exact hp1
        · exact hrest lvl hl' q hq
      · rename_i hlt
        rw [if_neg hlt] at hfin
        simp only at hfin
        have hmono := (bubble_offs hps lsn rest (midCell (intApp p sep nc lsn)).key p.off nf (nf + c_pageSize)).1
        have hnf : nf < P := by omega
        intro lvl hlvl q hq
        rcases List.mem_cons.mp hlvl with rfl | hl'
        · rcases List.mem_append.mp hq with hq | hq
          · exact hpre q hq
          · simp only [List.mem_cons, List.not_mem_nil, or_false] at hq
            rcases hq with rfl | rfl
            · exact intL_ok hP hK hp1
            · exact intR_ok hp1 hl hnf
        · exact ih _ _ _ _ (midCell_ok hP hK _ hp1.2.2.2).1 hp.1 hnf hfin hrest lvl hl' q hq

/-! ### `insertAppend` -/

theorem leafApp_ok {P L K : Nat} {last : Leaf} {k lsn : Nat} {v : Bytes} (h : LeafOK P L K last) (hk : k < K)
    (hl : lsn < L) (hv : v.length ≤ c_maxValueSize) : LeafOK P L K (leafApp last k lsn v) := by
  obtain ⟨h1, _, h3, h4, h5⟩ := h
  refine ⟨h1, hl, h3, h4, ?_⟩
  intro c hc
  simp only [leafApp, List.mem_append, List.mem_singleton] at hc
  rcases hc with hc | rfl
  · exact h5 c hc
  · exact ⟨hk, hv⟩

/-- **An insert keeps every field in range**: key and LSN in range, the frontier after the insert at
most `P`.  (The value size is checked by `insertAppend` itself.) -/
theorem insertAppend_fields {P L K : Nat} (hK : 0 < K) (t t' : Levels) (k lsn nf nf' : Nat) (v : Bytes)
    (hk : k < K) (hl : lsn < L) (hnf : nf' ≤ P) (hf : FieldsOK P L K t)
    (h : insertAppend t k lsn v nf = .ok (t', nf')) : FieldsOK P L K t' := by
  have hps : 0 < c_pageSize := by decide
  obtain ⟨pre, last, d, hpre, _, hv, hcase⟩ := insertAppend_inv_cases h
  have hlast : LeafOK P L K last := hf.leaves (last, d) (by rw [hpre]; simp)
  have hpreok : ∀ q ∈ pre, LeafOK P L K q.1 := fun q hq => hf.leaves q (by rw [hpre]; simp [hq])
  have hP : 0 < P := by have := hlast.1; omega
  have hl1 := leafApp_ok hlast hk hl hv
  rcases hcase with ⟨_, rfl, _⟩ | ⟨_, rfl, rfl⟩
  · refine ⟨?_, hf.inner⟩
    intro q hq
    rcases List.mem_append.mp hq with hq | hq
    · exact hpreok q hq
    · simp only [List.mem_singleton] at hq
      subst hq
      exact hl1
  · have hmono := (bubble_offs hps lsn t.inner
      (((leafR (leafApp last k lsn v) lsn nf).cells.head?.map (·.key)).getD 0) last.off nf (nf + c_pageSize)).1
    have hnfP : nf < P := by omega
    obtain ⟨a1, a2, a3, a4, a5⟩ := hl1
    have hR : LeafOK P L K (leafR (leafApp last k lsn v) lsn nf) :=
      ⟨hnfP, hl, a1, hP, fun c hc => a5 c (List.mem_of_mem_drop hc)⟩
    refine ⟨?_, ?_⟩
    · intro q hq
      rcases List.mem_append.mp hq with hq | hq
      · exact hpreok q hq
      · simp only [List.mem_cons, List.not_mem_nil, or_false] at hq
        rcases hq with rfl | rfl
        · exact ⟨a1, a2, a3, hnfP, fun c hc => a5 c (List.mem_of_mem_take hc)⟩
        · exact hR
    · apply bubble_fields hP hK lsn hl t.inner _ _ _ _ ?_ hlast.1 hnfP hnf hf.inner
      cases hh : (leafR (leafApp last k lsn v) lsn nf).cells.head? with
      | none => exact hK
      | some c => exact (hR.2.2.2.2 c (List.mem_of_mem_head? hh)).1

/-! ### the page-local cell changes -/

theorem updLeaves_fields {P L K : Nat} (f : LeafCell → LeafCell) (hf : ∀ c, LeafCellOK K c → LeafCellOK K (f c))
    (key lsn : Nat) (hl : lsn < L) (t : Levels) (h : FieldsOK P L K t) :
    FieldsOK P L K (updLeaves f key lsn t) := by
  refine ⟨?_, h.inner⟩
  intro q hq
  obtain ⟨q0, hq0, rfl⟩ := List.mem_map.mp hq
  obtain ⟨a1, a2, a3, a4, a5⟩ := h.leaves q0 hq0
  unfold updLeaf
  split
  · refine ⟨a1, hl, a3, a4, ?_⟩
    intro c hc
    obtain ⟨c0, hc0, rfl⟩ := List.mem_map.mp hc
    unfold updCell
    split
    · exact hf c0 (a5 c0 hc0)
    · exact a5 c0 hc0
  · exact ⟨a1, a2, a3, a4, a5⟩

theorem setVal_fields {P L K : Nat} (t : Levels) (key lsn : Nat) (v : Bytes) (hl : lsn < L)
    (hv : v.length ≤ c_maxValueSize) (h : FieldsOK P L K t) : FieldsOK P L K (setVal t key lsn v) := by
  rw [setVal_eq]
  exact updLeaves_fields (fun c => { c with val := v }) (fun c hc => ⟨hc.1, hv⟩) key lsn hl t h

theorem setDeleted_fields {P L K : Nat} (t : Levels) (key lsn : Nat) (hl : lsn < L)
    (h : FieldsOK P L K t) : FieldsOK P L K (setDeleted t key lsn) := by
  rw [setDeleted_eq]
  exact updLeaves_fields (fun c => { c with deleted := true }) (fun c hc => ⟨hc.1, hc.2⟩) key lsn hl t h

/-- the invariant only gets weaker when the pointer bound grows -/
theorem FieldsOK.mono {P P' L K : Nat} {t : Levels} (h : FieldsOK P L K t) (hPP : P ≤ P') : FieldsOK P' L K t := by
  refine ⟨?_, ?_⟩
  · intro p hp
    obtain ⟨a1, a2, a3, a4, a5⟩ := h.leaves p hp
    exact ⟨by omega, a2, by omega, by omega, a5⟩
  · intro lvl hl p hp
    obtain ⟨a1, a2, a3, a4⟩ := h.inner lvl hl p hp
    exact ⟨by omega, a2, by omega, fun c hc => ⟨(a4 c hc).1, by have := (a4 c hc).2; omega⟩⟩

/-! ### from the two invariants to `Page.WF` -/

/-- **Every page of a tree with in-range fields and within capacity is well formed for the codec.** -/
theorem FieldsOK.wf {t : Levels} (h : FieldsOK (2 ^ 64) (2 ^ 64) (2 ^ 32) t) (hcap : CapOK t) :
    ∀ e ∈ flatten t, WF e.2.1 := by
  intro e he
  unfold flatten at he
  rcases List.mem_append.mp he with he | he
  · obtain ⟨p, hp, rfl⟩ := List.mem_map.mp he
    obtain ⟨a1, a2, a3, a4, a5⟩ := h.leaves p hp
    exact ⟨a1, a2, a3, a4, Nat.le_of_lt (hcap.1 p hp), fun c hc => a5 c hc⟩
  · obtain ⟨lvl, hl, he⟩ := List.mem_flatMap.mp he
    obtain ⟨p, hp, rfl⟩ := List.mem_map.mp he
    obtain ⟨a1, a2, a3, a4⟩ := h.inner lvl hl p hp
    exact ⟨a1, a2, a3, Nat.le_of_lt (hcap.2 lvl hl p hp).2, fun c hc => a4 c hc⟩

end Mkdb.Tree
