import Mkdb.Proofs.Roundtrip
import Mkdb.Proofs.Fuel
/-!
The parser model reads the `text` of a token only when its type is IDENT, INT or STR
(a logical-relation argument over the productions of `Mkdb/Model/Parse.lean`): two token lists
that agree on every type, and on the text of the IDENT/INT/STR tokens, parse to the same outcome.
-/
namespace Mkdb.Sql
open Mkdb.Scan Mkdb.Generated

/-- token types whose text the parser reads -/
def textual (ty : Int) : Bool := ty == t_IDENT || ty == t_INT || ty == t_STR

/-- same type; same text when the type is IDENT, INT or STR -/
def TokSim (t t' : Token) : Prop := t.ty = t'.ty ∧ (textual t.ty = true → t.text = t'.text)

/-- token lists of the same length, related token by token by `TokSim` -/
inductive ToksSim : List Token → List Token → Prop
  | nil : ToksSim [] []
  | cons {a b : Token} {l l' : List Token} (h : TokSim a b) (t : ToksSim l l') : ToksSim (a :: l) (b :: l')

/-- `TokSim` in destructured form (what `obtain` can use directly) -/
inductive TS : Token → Token → Prop
  | mk (ty : Int) (x x' : Bytes) (h : textual ty = true → x = x') : TS ⟨ty, x⟩ ⟨ty, x'⟩

theorem TokSim.ts {t t' : Token} (h : TokSim t t') : TS t t' := by
  obtain ⟨ty, x⟩ := t
  obtain ⟨ty', x'⟩ := t'
  obtain ⟨h1, h2⟩ := h
  simp only at h1 h2
  subst h1
  exact .mk ty x x' h2

theorem TokSim.refl (t : Token) : TokSim t t := ⟨rfl, fun _ => rfl⟩

/-- the two tokens have the same `Token.Val()` -/
def ValSim (t t' : Token) : Prop := tokenVal t = tokenVal t'

/-- both absent, or both present and related -/
inductive OptRel (tr : Token → Token → Prop) : Option Token → Option Token → Prop
  | none : OptRel tr none none
  | some {t t' : Token} (h : tr t t') : OptRel tr (some t) (some t')

/-- related results: same kind of result, related values, related remaining tokens -/
def RSim {α} (vr : α → α → Prop) : R α → R α → Prop
  | .ok a r, .ok a' r' => vr a a' ∧ ToksSim r r'
  | .err e, .err e' => e = e'
  | .panic s, .panic s' => s = s'
  | .fuel, .fuel => True
  | _, _ => False

/-- related actions: related token lists give related results -/
def Sim {α} (vr : α → α → Prop) (p q : P α) : Prop :=
  ∀ ts ts', ToksSim ts ts' → RSim vr (p ts) (q ts')

theorem Sim.pure {α} {vr : α → α → Prop} {a a' : α} (h : vr a a') :
    Sim vr (Pure.pure a : P α) (Pure.pure a') := fun _ _ hts => ⟨h, hts⟩

theorem Sim.fail {α} {vr : α → α → Prop} {e : PErr} : Sim vr (fail e : P α) (fail e) :=
  fun _ _ _ => rfl

theorem Sim.panic {α} {vr : α → α → Prop} {s : String} : Sim vr (panic s : P α) (panic s) :=
  fun _ _ _ => rfl

theorem Sim.outOfFuel {α} {vr : α → α → Prop} : Sim vr (outOfFuel : P α) outOfFuel :=
  fun _ _ _ => trivial

theorem Sim.mono {α} {vr vr' : α → α → Prop} {p q : P α} (hp : Sim vr p q)
    (h : ∀ a a', vr a a' → vr' a a') : Sim vr' p q := by
  intro ts ts' hts
  have := hp ts ts' hts
  revert this
  cases p ts <;> cases q ts' <;> simp only [RSim, imp_self, and_imp]
  intro h1 h2
  exact ⟨h _ _ h1, h2⟩

theorem Sim.bind {α β} {vr : α → α → Prop} {vr' : β → β → Prop} {m m' : P α} {f f' : α → P β}
    (hm : Sim vr m m') (hf : ∀ a a', vr a a' → Sim vr' (f a) (f' a')) :
    Sim vr' (m >>= f) (m' >>= f') := by
  intro ts ts' hts
  have := hm ts ts' hts
  rw [bind_apply, bind_apply]
  revert this
  cases m ts <;> cases m' ts' <;> simp only [RSim, imp_self, and_imp, false_imp_iff]
  intro h1 h2
  exact hf _ _ h1 _ _ h2

theorem Sim.ite {α} {vr : α → α → Prop} {c : Prop} [Decidable c] {p q p' q' : P α}
    (hp : c → Sim vr p p') (hq : ¬c → Sim vr q q') :
    Sim vr (if c then p else q) (if c then p' else q') := by
  split
  · exact hp ‹_›
  · exact hq ‹_›

theorem eofToken_sim : TokSim eofToken eofToken := TokSim.refl _

theorem forall₂_length {ts ts' : List Token} (h : ToksSim ts ts') :
    ts.length = ts'.length := by
  induction h with
  | nil => rfl
  | cons _ _ ih => simp only [List.length_cons, ih]

theorem headD_sim {ts ts' : List Token} (h : ToksSim ts ts') :
    TokSim (ts.headD eofToken) (ts'.headD eofToken) := by
  cases h with
  | nil => exact eofToken_sim
  | cons h _ => exact h

theorem Sim.curTok : Sim TS curTok curTok := fun _ _ hts => ⟨(headD_sim hts).ts, hts⟩

theorem Sim.advance : Sim Eq advance advance := by
  intro ts ts' hts
  refine ⟨rfl, ?_⟩
  cases hts with
  | nil => exact .nil
  | cons _ h => exact h

theorem Sim.hasNext : Sim Eq hasNext hasNext := by
  intro ts ts' hts
  refine ⟨?_, hts⟩
  rw [forall₂_length hts]

theorem Sim.curIs {tys : List Int} : Sim Eq (curIs tys) (curIs tys) := by
  intro ts ts' hts
  refine ⟨?_, hts⟩
  rw [(headD_sim hts).1]

/-- `matchTy`: both miss, or both hit with related tokens of one of the types -/
theorem Sim.matchTy {tys : List Int} :
    Sim (OptRel fun t t' => TokSim t t' ∧ tys.contains t.ty = true) (matchTy tys) (matchTy tys) := by
  intro ts ts' hts
  cases hts with
  | nil => exact ⟨.none, .nil⟩
  | @cons t t' r r' h hr =>
    by_cases hc : tys.contains t.ty = true
    · rw [matchTy_hit _ _ _ hc, matchTy_hit _ _ _ (h.1 ▸ hc)]
      exact ⟨.some ⟨h, hc⟩, hr⟩
    · have hc' : tys.contains t.ty = false := by simpa using hc
      rw [matchTy_miss _ _ _ hc', matchTy_miss _ _ _ (h.1 ▸ hc')]
      exact ⟨.none, .cons h hr⟩

theorem OptRel.mono {tr tr' : Token → Token → Prop} (h : ∀ t t', tr t t' → tr' t t')
    (o o' : Option Token) (ho : OptRel tr o o') : OptRel tr' o o' := by
  cases ho with
  | none => exact .none
  | some h3 => exact .some (h _ _ h3)

/-- a keyword match: the tokens have the same type -/
theorem Sim.matchKw {tys : List Int} : Sim (OptRel TS) (Sql.matchTy tys) (Sql.matchTy tys) :=
  Sim.matchTy.mono (OptRel.mono fun _ _ h => h.1.ts)

theorem textual_eq {t t' : Token} (h : TokSim t t') (ht : textual t.ty = true) : t = t' := by
  obtain ⟨ty, x⟩ := t
  obtain ⟨ty', x'⟩ := t'
  obtain ⟨h1, h2⟩ := h
  simp only at h1 h2 ht
  rw [h1, h2 ht]

/-- a match on types that are all textual returns equal tokens -/
theorem Sim.matchTextual {tys : List Int} (h : ∀ ty, tys.contains ty = true → textual ty = true) :
    Sim (OptRel Eq) (Sql.matchTy tys) (Sql.matchTy tys) :=
  Sim.matchTy.mono (OptRel.mono fun _ _ ht => textual_eq ht.1 (h _ ht.2))

theorem OptRel.eq {o o' : Option Token} (h : OptRel Eq o o') : o = o' := by
  cases h with
  | none => rfl
  | some h3 => rw [h3]

theorem textual_ident : ∀ ty, [t_IDENT].contains ty = true → textual ty = true := by
  intro ty h
  simp only [List.contains_cons, List.contains_nil, Bool.or_false, beq_iff_eq] at h
  subst h; rfl

theorem textual_int : ∀ ty, [t_INT].contains ty = true → textual ty = true := by
  intro ty h
  simp only [List.contains_cons, List.contains_nil, Bool.or_false, beq_iff_eq] at h
  subst h; rfl

theorem Sim.matchIdent' : Sim (OptRel Eq) (Sql.matchTy [t_IDENT]) (Sql.matchTy [t_IDENT]) :=
  Sim.matchTextual textual_ident

theorem Sim.matchIdent : Sim Eq (Sql.matchTy [t_IDENT]) (Sql.matchTy [t_IDENT]) :=
  Sim.matchIdent'.mono fun _ _ => OptRel.eq

theorem Sim.matchInt : Sim Eq (Sql.matchTy [t_INT]) (Sql.matchTy [t_INT]) :=
  (Sim.matchTextual textual_int).mono fun _ _ => OptRel.eq

/-- `Token.Val()` reads the text only of an INT or STR token -/
theorem tokenVal_sim {t t' : Token} (h : TokSim t t') : tokenVal t = tokenVal t' := by
  obtain ⟨ty, x, x', hx⟩ := h.ts
  unfold tokenVal
  simp only
  by_cases h1 : (ty == t_STR) = true
  · have : x = x' := hx (by simp only [textual, h1, Bool.or_true])
    rw [this]
  · by_cases h2 : (ty == t_INT) = true
    · have : x = x' := hx (by simp only [textual, h2, Bool.or_true, Bool.true_or])
      rw [this]
    · simp only [h1, h2, Bool.false_eq_true, ↓reduceIte]

theorem Sim.matchLit : Sim (OptRel ValSim) (Sql.matchTy literalTys) (Sql.matchTy literalTys) :=
  Sim.matchTy.mono (OptRel.mono fun _ _ h => tokenVal_sim h.1)

/-! ### The decomposition tactic -/

set_option hygiene false in
/-- use a hypothesis relating two tokens -/
macro "sim_tok " h:ident : tactic => `(tactic| first
  | subst $h:ident
  | (rcases $h:ident with ⟨_, _, _, _⟩; (try dsimp only))
  | ((try dsimp only); rw [show tokenVal _ = tokenVal _ from $h]; clear $h))

set_option hygiene false in
/-- use a hypothesis relating two bound values -/
macro "sim_hyp " h:ident : tactic => `(tactic| first
  | subst $h:ident
  | (rcases $h:ident with _ | hsimt__ <;> (try dsimp only) <;> (try sim_tok hsimt__))
  | sim_tok $h:ident
  | clear $h:ident)

/-- prove `Sim ?vr p p'` for a known action (extended below by `macro_rules`) -/
syntax "sim_known" : tactic
macro_rules | `(tactic| sim_known) => `(tactic| first
  | with_reducible exact Sim.matchIdent | with_reducible exact Sim.matchInt
  | with_reducible exact Sim.matchLit | with_reducible exact Sim.matchKw
  | with_reducible exact Sim.curIs | with_reducible exact Sim.curTok
  | with_reducible exact Sim.advance | with_reducible exact Sim.hasNext
  | with_reducible assumption
  | with_reducible apply_assumption (exfalso := false))

set_option hygiene false in
macro "sim_step" : tactic => `(tactic| first
  | with_reducible exact Sim.fail
  | with_reducible exact Sim.panic
  | with_reducible exact Sim.outOfFuel
  | ((with_reducible apply Sim.pure); rfl)
  | sim_known
  | ((with_reducible apply Sim.bind); (case hm => sim_known); intro _ _ hsim__; sim_hyp hsim__)
  | rw [P.bind_assoc]
  | rw [P.pure_bind]
  | rw [P.fail_bind]
  | ((with_reducible apply Sim.ite) <;> (intro hsimc__; clear hsimc__))
  | split)

/-- decompose a goal `Sim vr (do …) (do …)` along binds, matches and ifs -/
macro "sim" : tactic => `(tactic| repeat' sim_step)

theorem Sim.requireIdent : Sim Eq (requireMatch [t_IDENT]) (requireMatch [t_IDENT]) := by
  unfold requireMatch
  sim

/-- a required keyword: the token itself is never used -/
theorem Sim.requireKw {tys : List Int} : Sim (fun _ _ => True) (requireMatch tys) (requireMatch tys) := by
  unfold requireMatch
  apply Sim.bind Sim.matchKw
  intro o o' h
  cases h with
  | none => exact Sim.fail
  | some _ => exact Sim.pure trivial

macro_rules | `(tactic| sim_known) => `(tactic| first
  | with_reducible exact Sim.requireIdent | with_reducible exact Sim.requireKw)

theorem Sim.requireInt : Sim Eq Sql.requireInt Sql.requireInt := by
  unfold Sql.requireInt requireMatch
  sim

macro_rules | `(tactic| sim_known) => `(tactic| with_reducible exact Sim.requireInt)

theorem Sim.columnReference : Sim Eq Sql.columnReference Sql.columnReference := by
  unfold Sql.columnReference
  sim

macro_rules | `(tactic| sim_known) => `(tactic| with_reducible exact Sim.columnReference)

theorem Sim.valueExpression : Sim Eq Sql.valueExpression Sql.valueExpression := by
  unfold Sql.valueExpression
  sim

macro_rules | `(tactic| sim_known) => `(tactic| with_reducible exact Sim.valueExpression)

theorem Sim.predicate : Sim Eq Sql.predicate Sql.predicate := by
  unfold Sql.predicate
  sim

macro_rules | `(tactic| sim_known) => `(tactic| with_reducible exact Sim.predicate)

theorem Sim.commaFollows : Sim Eq Sql.commaFollows Sql.commaFollows := by
  unfold Sql.commaFollows
  sim

macro_rules | `(tactic| sim_known) => `(tactic| with_reducible exact Sim.commaFollows)

theorem Sim.andBoth (f : Nat) :
    Sim Eq (andCond f) (andCond f) ∧ ∀ ret, Sim Eq (andLoop f ret) (andLoop f ret) := by
  induction f with
  | zero => exact ⟨by unfold andCond; sim, by intro ret; unfold andLoop; sim⟩
  | succ f ih =>
    have h1 := ih.1
    have h2 := ih.2
    refine ⟨?_, ?_⟩
    · unfold andCond; sim
    · intro ret; unfold andLoop; sim

theorem Sim.andCond (f : Nat) : Sim Eq (Sql.andCond f) (Sql.andCond f) := (Sim.andBoth f).1

macro_rules | `(tactic| sim_known) => `(tactic| with_reducible exact Sim.andCond _)

theorem Sim.orBoth (f : Nat) :
    Sim Eq (orCond f) (orCond f) ∧ ∀ ret, Sim Eq (orLoop f ret) (orLoop f ret) := by
  induction f with
  | zero => exact ⟨by unfold orCond; sim, by intro ret; unfold orLoop; sim⟩
  | succ f ih =>
    have h1 := ih.1
    have h2 := ih.2
    refine ⟨?_, ?_⟩
    · unfold orCond; sim
    · intro ret; unfold orLoop; sim

theorem Sim.orCond (f : Nat) : Sim Eq (Sql.orCond f) (Sql.orCond f) := (Sim.orBoth f).1

macro_rules | `(tactic| sim_known) => `(tactic| with_reducible exact Sim.orCond _)

theorem Sim.sepLoop {α} {body body' : P (α × Bool)} (hb : Sim Eq body body') (f : Nat) :
    Sim Eq (Sql.sepLoop f body) (Sql.sepLoop f body') := by
  induction f with
  | zero => unfold Sql.sepLoop; sim
  | succ f ih => unfold Sql.sepLoop; sim

theorem Sim.guardedLoop {α} {tr : Token → Token → Prop} {tys : List Int}
    {body body' : Token → P (α × Bool)}
    (hm : Sim (OptRel tr) (Sql.matchTy tys) (Sql.matchTy tys))
    (hb : ∀ t t', tr t t' → Sim Eq (body t) (body' t')) (f : Nat) :
    Sim Eq (Sql.guardedLoop f tys body) (Sql.guardedLoop f tys body') := by
  induction f with
  | zero => unfold Sql.guardedLoop; sim
  | succ f ih =>
    unfold Sql.guardedLoop
    apply Sim.bind hm
    intro o o' h
    cases h with
    | none => exact Sim.pure rfl
    | @some t t' ht =>
      have := hb t t' ht
      dsimp only
      sim

set_option hygiene false in
macro_rules | `(tactic| sim_known) => `(tactic| first
  | ((with_reducible apply Sim.sepLoop); sim)
  | ((with_reducible apply Sim.guardedLoop);
      (case hm => first
        | with_reducible exact Sim.matchIdent' | with_reducible exact Sim.matchLit
        | with_reducible exact Sim.matchKw);
      intro _ _ hsimt__; sim_tok hsimt__; sim))

theorem Sim.setFunction : Sim Eq Sql.setFunction Sql.setFunction := by
  unfold Sql.setFunction
  sim

macro_rules | `(tactic| sim_known) => `(tactic| with_reducible exact Sim.setFunction)

theorem Sim.derivedColumn (f : Nat) : Sim Eq (Sql.derivedColumn f) (Sql.derivedColumn f) := by
  unfold Sql.derivedColumn
  sim

macro_rules | `(tactic| sim_known) => `(tactic| with_reducible exact Sim.derivedColumn _)

theorem Sim.selectList (f : Nat) : Sim Eq (Sql.selectList f) (Sql.selectList f) := by
  unfold Sql.selectList
  sim

theorem Sim.tableName : Sim Eq Sql.tableName Sql.tableName := by
  unfold Sql.tableName
  sim

macro_rules | `(tactic| sim_known) => `(tactic| with_reducible exact Sim.tableName)

theorem Sim.joinLoop (f : Nat) : ∀ lhs, Sim Eq (Sql.joinLoop f lhs) (Sql.joinLoop f lhs) := by
  induction f with
  | zero => intro lhs; unfold Sql.joinLoop; sim
  | succ f ih => intro lhs; unfold Sql.joinLoop; sim

theorem Sim.fromClause (f : Nat) : Sim Eq (Sql.fromClause f) (Sql.fromClause f) := by
  have := Sim.joinLoop f
  unfold Sql.fromClause
  sim

theorem Sim.whereClause (f : Nat) : Sim Eq (Sql.whereClause f) (Sql.whereClause f) := by
  unfold Sql.whereClause
  sim

theorem Sim.groupByLoop (f : Nat) : ∀ b, Sim Eq (Sql.groupByLoop f b) (Sql.groupByLoop f b) := by
  induction f with
  | zero => intro b; unfold Sql.groupByLoop; sim
  | succ f ih => intro b; unfold Sql.groupByLoop; sim

theorem Sim.groupByClause (f : Nat) : Sim Eq (Sql.groupByClause f) (Sql.groupByClause f) := by
  have := Sim.groupByLoop f
  unfold Sql.groupByClause
  sim

theorem Sim.sortSpecList (f : Nat) : Sim Eq (Sql.sortSpecList f) (Sql.sortSpecList f) := by
  unfold Sql.sortSpecList
  sim

theorem Sim.limitLoop (f : Nat) : ∀ lc, Sim Eq (Sql.limitLoop f lc) (Sql.limitLoop f lc) := by
  induction f with
  | zero => intro lc; unfold Sql.limitLoop; sim
  | succ f ih => intro lc; unfold Sql.limitLoop; sim

theorem Sim.limitOffsetClause (f : Nat) :
    Sim Eq (Sql.limitOffsetClause f) (Sql.limitOffsetClause f) := by
  have := Sim.limitLoop f
  unfold Sql.limitOffsetClause
  sim

macro_rules | `(tactic| sim_known) => `(tactic| first
  | with_reducible exact Sim.selectList _ | with_reducible exact Sim.fromClause _
  | with_reducible exact Sim.whereClause _ | with_reducible exact Sim.groupByClause _
  | with_reducible exact Sim.sortSpecList _ | with_reducible exact Sim.limitOffsetClause _)

theorem Sim.parseSelect (f : Nat) : Sim Eq (Sql.parseSelect f) (Sql.parseSelect f) := by
  unfold Sql.parseSelect
  sim

theorem Sim.tableElements (f : Nat) : Sim Eq (Sql.tableElements f) (Sql.tableElements f) := by
  unfold Sql.tableElements
  sim

theorem Sim.parseCreate (f : Nat) : Sim Eq (Sql.parseCreate f) (Sql.parseCreate f) := by
  have := Sim.tableElements f
  unfold Sql.parseCreate
  sim

theorem Sim.parseInsert (f : Nat) : Sim Eq (Sql.parseInsert f) (Sql.parseInsert f) := by
  unfold Sql.parseInsert
  sim

theorem Sim.parseUpdate (f : Nat) : Sim Eq (Sql.parseUpdate f) (Sql.parseUpdate f) := by
  unfold Sql.parseUpdate
  sim

theorem Sim.parseDelete (f : Nat) : Sim Eq (Sql.parseDelete f) (Sql.parseDelete f) := by
  unfold Sql.parseDelete
  sim

/-- `SHOW`: the text of the current token is read only when it is an IDENT -/
theorem Sim.parseShow : Sim Eq Sql.parseShow Sql.parseShow := by
  unfold Sql.parseShow
  apply Sim.bind Sim.curTok
  intro cur cur' h
  obtain ⟨ty, x, x', hx⟩ := h
  dsimp only
  apply Sim.bind Sim.advance
  intro _ _ _
  apply Sim.ite <;> intro _
  · exact Sim.pure rfl
  · by_cases hi : (ty == t_IDENT) = true
    · have : x = x' := hx (by simp only [textual, hi, Bool.true_or])
      subst this
      sim
    · simp only [hi, Bool.false_and]
      sim

theorem Sim.parseStmt (f : Nat) : Sim Eq (Sql.parseStmt f) (Sql.parseStmt f) := by
  have := Sim.parseCreate f
  have := Sim.parseSelect f
  have := Sim.parseInsert f
  have := Sim.parseUpdate f
  have := Sim.parseDelete f
  have := Sim.parseShow
  unfold Sql.parseStmt
  sim

/-- The parser reads the text of IDENT, INT and STR tokens only: on two token lists with the same
types, and the same texts at the tokens of these three types, `parseStmt` gives the same
statement / error / panic / out-of-fuel result, and the remaining token lists are again related. -/
theorem parseStmt_textSim (f : Nat) (ts ts' : List Token) (h : ToksSim ts ts') :
    RSim Eq (parseStmt f ts) (parseStmt f ts') :=
  Sim.parseStmt f ts ts' h

theorem dropSemis_sim {ts ts' : List Token} (h : ToksSim ts ts') :
    ToksSim (dropSemis ts) (dropSemis ts') := by
  induction h with
  | nil => exact .nil
  | @cons t t' r r' h hr ih =>
    unfold dropSemis
    rw [← h.1]
    split
    · exact ih
    · exact .cons h hr

theorem atEnd_sim {ts ts' : List Token} (h : ToksSim ts ts') : atEnd ts = atEnd ts' := by
  unfold atEnd
  rw [(headD_sim (dropSemis_sim h)).1]

/-- `Parser.Parse` does not depend on the text of any token other than IDENT, INT, STR tokens. -/
theorem parseTokens_textSim (ts ts' : List Token) (h : ToksSim ts ts') :
    parseTokens ts = parseTokens ts' := by
  unfold parseTokens
  have hs := parseStmt_textSim (ts.length + 2) ts ts' h
  rw [← forall₂_length h]
  revert hs
  cases parseStmt (ts.length + 2) ts <;> cases parseStmt (ts.length + 2) ts' <;>
    simp only [RSim, false_imp_iff, imp_self]
  · intro ⟨h1, h2⟩
    rw [h1, atEnd_sim h2]
  · intro h1; rw [h1]
  · intro h1; rw [h1]

/-- `select x from T where y = true;` with the keywords spelled in two ways -/
example :
    parseTokens [⟨t_SELECT, "select".toUTF8.toList⟩, ⟨t_IDENT, [120]⟩, ⟨t_FROM, "from".toUTF8.toList⟩,
        ⟨t_IDENT, [84]⟩, ⟨t_WHERE, "where".toUTF8.toList⟩, ⟨t_IDENT, [121]⟩, ⟨t_EQ, [61]⟩,
        ⟨t_TRUE, "true".toUTF8.toList⟩, ⟨t_SEMICOLON, [59]⟩, ⟨t_EOF, []⟩] =
      parseTokens [⟨t_SELECT, "SELECT".toUTF8.toList⟩, ⟨t_IDENT, [120]⟩, ⟨t_FROM, "From".toUTF8.toList⟩,
        ⟨t_IDENT, [84]⟩, ⟨t_WHERE, []⟩, ⟨t_IDENT, [121]⟩, ⟨t_EQ, []⟩,
        ⟨t_TRUE, "TRUE".toUTF8.toList⟩, ⟨t_SEMICOLON, []⟩, ⟨t_EOF, [1, 2, 3]⟩] :=
  parseTokens_textSim _ _ (by
    repeat' (first | exact .nil | apply ToksSim.cons)
    all_goals exact ⟨rfl, by decide⟩)

/-- (the statement of the example above is parsed successfully, so the equality is not one of errors) -/
example :
    (match parseTokens [⟨t_SELECT, "SELECT".toUTF8.toList⟩, ⟨t_IDENT, [120]⟩, ⟨t_FROM, "From".toUTF8.toList⟩,
        ⟨t_IDENT, [84]⟩, ⟨t_WHERE, []⟩, ⟨t_IDENT, [121]⟩, ⟨t_EQ, []⟩,
        ⟨t_TRUE, "TRUE".toUTF8.toList⟩, ⟨t_SEMICOLON, []⟩, ⟨t_EOF, [1, 2, 3]⟩] with
      | .ok (.select _) => true
      | _ => false) = true := by decide

/-- the text of an IDENT token does matter (the hypothesis of the theorem cannot drop `textual`) -/
example : parseTokens [⟨t_USE, []⟩, ⟨t_IDENT, [97]⟩, ⟨t_EOF, []⟩] ≠
    parseTokens [⟨t_USE, []⟩, ⟨t_IDENT, [98]⟩, ⟨t_EOF, []⟩] := by
  have h1 : parseTokens [⟨t_USE, []⟩, ⟨t_IDENT, [97]⟩, ⟨t_EOF, []⟩] = .ok (.use [97]) := rfl
  have h2 : parseTokens [⟨t_USE, []⟩, ⟨t_IDENT, [98]⟩, ⟨t_EOF, []⟩] = .ok (.use [98]) := rfl
  rw [h1, h2]
  intro h
  injection h with h
  injection h with h
  exact absurd h (by decide)

end Mkdb.Sql
