import Mkdb.Proofs.Unchanged1
/-!
C14, part 2: errors of the write paths.

* `ErrIn P m`: every error `m` can return satisfies `P` (`NoErr` = none at all).
* `ErrRO m`: every error outcome of `m` leaves a well-filed store with the same data.
* the tree insert (`insertLeaf`, `insertInternal`, `insertKeyHeap`, `insertKey`, `btInsert`) is `ErrRO`:
  an error can only arise before the first `putNode`.
* `insert`: a refused row changes nothing (`insert_err_cases`, `insert_err`).
-/
set_option autoImplicit false
namespace Mkdb.Store
open Mkdb.Page Mkdb.Tuple Mkdb.Generated

/-! ### which errors can come out -/

def ErrIn {α} (P : SErr → Prop) (m : SM α) : Prop := ∀ s e s', m s = .err e s' → P e

abbrev NoErr {α} (m : SM α) : Prop := ErrIn (fun _ => False) m

theorem ErrIn.mono {α} {P Q : SErr → Prop} {m : SM α} (h : ErrIn P m) (hpq : ∀ e, P e → Q e) :
    ErrIn Q m := fun s e s' he => hpq e (h s e s' he)

theorem NoErr.errIn {α} {P : SErr → Prop} {m : SM α} (h : NoErr m) : ErrIn P m :=
  h.mono (fun _ hf => hf.elim)

theorem ErrIn.bind {α β} {P : SErr → Prop} {m : SM α} {f : α → SM β} (hm : ErrIn P m)
    (hf : ∀ a, ErrIn P (f a)) : ErrIn P (m >>= f) := by
  intro s e s' h
  rcases bind_eq_err h with h1 | ⟨a, s1, _, h2⟩
  · exact hm _ _ _ h1
  · exact hf a _ _ _ h2

theorem ErrIn.pure {α} {P : SErr → Prop} (a : α) : ErrIn P (pure a : SM α) := by
  intro s e s' h; cases h

theorem ErrIn.throw {α} {P : SErr → Prop} {e : SErr} (h : P e) : ErrIn P (throw e : SM α) := by
  intro s e' s' h'; cases h'; exact h

theorem ErrIn.getS {P : SErr → Prop} : ErrIn P getS := by
  intro s e s' h; cases h

theorem ErrIn.modifyS {P : SErr → Prop} (f : Store → Store) : ErrIn P (modifyS f) := by
  intro s e s' h; cases h

theorem ErrIn.panicS {α} {P : SErr → Prop} (w : String) : ErrIn P (panicS w : SM α) := by
  intro s e s' h; cases h

theorem ErrIn.unmodelledS {α} {P : SErr → Prop} (w : String) : ErrIn P (unmodelledS w : SM α) := by
  intro s e s' h; cases h

theorem ErrIn.outOfFuel {α} {P : SErr → Prop} : ErrIn P (outOfFuel : SM α) := by
  intro s e s' h; cases h

theorem ErrIn.fetch {P : SErr → Prop} (off : Nat) : ErrIn P (fetch off) := by
  intro s e s' h
  obtain ⟨n, s1, h1⟩ := fetch_ok_or off s
  rw [h1] at h; cases h

theorem ErrIn.putNode {P : SErr → Prop} (n : Node) (d : Option Bool) : ErrIn P (putNode n d) := by
  intro s e s' h; cases h

theorem ErrIn.appendNode {P : SErr → Prop} (n : Node) (d : Bool) : ErrIn P (appendNode n d) := by
  intro s e s' h; cases h

theorem ErrIn.markDirty {P : SErr → Prop} (off lsn : Nat) : ErrIn P (markDirty off lsn) := by
  intro s e s' h
  unfold Store.markDirty at h
  split at h <;> cases h

theorem ErrIn.decodeRow {P : SErr → Prop} (hP : P .decode) (sch : List FieldDef) (bs : Bytes) :
    ErrIn P (decodeRow sch bs) := by
  intro s e s' h
  unfold Store.decodeRow at h
  split at h <;> cases h
  exact hP

theorem ErrIn.encodeRow {P : SErr → Prop} (h1 : P .typeMismatch) (h2 : P .intOutOfRange)
    (h3 : P .decode) (sch : List FieldDef) (m : Vals) : ErrIn P (encodeRow sch m) := by
  intro s e s' h
  unfold Store.encodeRow at h
  split at h <;> cases h <;> assumption

/-- one structural step of an `ErrIn` proof -/
macro "ei_step" : tactic =>
  `(tactic| first
    | exact ErrIn.pure _
    | exact ErrIn.getS
    | exact ErrIn.fetch _
    | exact ErrIn.putNode _ _
    | exact ErrIn.appendNode _ _
    | exact ErrIn.markDirty _ _
    | exact ErrIn.modifyS _
    | exact ErrIn.panicS _
    | exact ErrIn.unmodelledS _
    | exact ErrIn.outOfFuel
    | assumption
    | refine ErrIn.bind ?_ (fun _ => ?_)
    | split)

/-! ### errors that change nothing -/

def ErrRO {α} (m : SM α) : Prop :=
  ∀ s e s', Filed s → m s = .err e s' → Filed s' ∧ SameData s s'

theorem ReadOnly.errRO {α} {m : SM α} (h : ReadOnly m) : ErrRO m :=
  fun _ _ _ hf he => h.err hf he

theorem NoErr.errRO {α} {m : SM α} (h : NoErr m) : ErrRO m :=
  fun s e s' _ he => (h s e s' he).elim

/-- a read-only prefix, then anything whose errors change nothing -/
theorem ErrRO.bind_ro {α β} {m : SM α} {f : α → SM β} (hm : ReadOnly m) (hf : ∀ a, ErrRO (f a)) :
    ErrRO (m >>= f) := by
  intro s e s' hs h
  rcases bind_eq_err h with h1 | ⟨a, s1, h1, h2⟩
  · exact hm.err hs h1
  · obtain ⟨f1, d1⟩ := hm.ok hs h1
    obtain ⟨f2, d2⟩ := hf a _ _ _ f1 h2
    exact ⟨f2, d1.trans d2⟩

/-- errors of `m` change nothing, and nothing after `m` can fail -/
theorem ErrRO.bind_noErr {α β} {m : SM α} {f : α → SM β} (hm : ErrRO m) (hf : ∀ a, NoErr (f a)) :
    ErrRO (m >>= f) := by
  intro s e s' hs h
  rcases bind_eq_err h with h1 | ⟨a, s1, _, h2⟩
  · exact hm _ _ _ hs h1
  · exact (hf a _ _ _ h2).elim

theorem ErrRO.ite {α} {c : Prop} [Decidable c] {a b : SM α} (ha : ErrRO a) (hb : ErrRO b) :
    ErrRO (if c then a else b) := by
  split <;> assumption

/-! ### the tree insert -/

/-- everything `insertLeaf` does from its first page write on cannot return an error -/
theorem insertLeaf_errRO (parent : Option Nat) (cur : Leaf) (key lsn : Nat) (value : Bytes)
    (root : RootOff) : ErrRO (insertLeaf parent cur key lsn value root) := by
  unfold insertLeaf
  split
  split
  · exact (ReadOnly.throw _).errRO
  · split
    · exact (ReadOnly.throw _).errRO
    · split
      · exact (ReadOnly.unmodelledS _).errRO
      · apply NoErr.errRO
        repeat ei_step

/-- an error of `insertInternal` is the duplicate-key refusal at this level or an error handed up
unchanged from the child level; after the child level has succeeded nothing can fail -/
theorem insertInternal_errRO (fuel : Nat) (parent : Option Nat) (cur : Internal) (key lsn : Nat)
    (value : Bytes) (root : RootOff) : ErrRO (insertInternal fuel parent cur key lsn value root) := by
  induction fuel generalizing parent cur root with
  | zero => exact (ReadOnly.outOfFuel).errRO
  | succ fuel ih =>
    unfold insertInternal
    split
    split
    · exact (ReadOnly.throw _).errRO
    · apply ErrRO.bind_ro (ReadOnly.fetch _)
      intro child
      conv => arg 1; zeta
      split
      · apply ErrRO.bind_noErr (insertLeaf_errRO _ _ _ _ _ _)
        intro root1
        repeat ei_step
      · apply ErrRO.bind_noErr (ih _ _ _)
        intro root1
        repeat ei_step

theorem insertKeyHeap_errRO (bt : BT) (key lsn : Nat) (value : Bytes) :
    ErrRO (insertKeyHeap bt key lsn value) := by
  unfold insertKeyHeap
  apply ErrRO.bind_ro (ReadOnly.fetch _)
  intro pg
  split
  · exact ErrRO.bind_noErr (insertLeaf_errRO _ _ _ _ _ _) (fun _ => ErrIn.pure _)
  · exact ErrRO.bind_noErr (insertInternal_errRO _ _ _ _ _ _ _) (fun _ => ErrIn.pure _)

/-- B. Failure of the tree insert changes nothing. -/
theorem insertKey_err (bt : BT) (key lsn : Nat) (value : Bytes) (s : Store) (e : SErr) (s' : Store)
    (hf : Filed s) (h : insertKey bt key lsn value s = .err e s') : Filed s' ∧ SameData s s' := by
  unfold insertKey at h
  simp only at h
  split at h
  · exact insertKeyHeap_errRO bt key lsn value s e s' hf h
  · split at h
    · cases h
    · rename_i e1 s1 heq
      cases h
      obtain ⟨f1, d1⟩ := insertKeyHeap_errRO bt key lsn value s e s1 hf heq
      exact ⟨f1, d1.trans ⟨fun _ => rfl, fun _ => rfl, rfl, rfl, rfl, rfl⟩⟩
    · rename_i hne1 hne2
      exact (hne2 e s' h).elim

theorem insertKey_errRO (bt : BT) (key lsn : Nat) (value : Bytes) :
    ErrRO (insertKey bt key lsn value) :=
  fun s e s' hf h => insertKey_err bt key lsn value s e s' hf h

/-- `BTree.insert` that fails: only the key and LSN counters (and the ghost counter) moved. -/
theorem btInsert_err (bt : BT) (value : Bytes) (s : Store) (e : SErr) (s' : Store)
    (hf : Filed s) (h : btInsert bt value s = .err e s') : Filed s' ∧ SameData s s' := by
  unfold btInsert at h
  simp only at h
  split at h <;> try cases h
  rename_i e1 s1 heq
  obtain ⟨f1, d1⟩ := insertKey_err bt _ _ value s e s1 hf heq
  exact ⟨f1, d1.trans ⟨fun _ => rfl, fun _ => rfl, rfl, rfl, rfl, rfl⟩⟩

theorem btInsert_errRO (bt : BT) (value : Bytes) : ErrRO (btInsert bt value) :=
  fun s e s' hf h => btInsert_err bt value s e s' hf h

/-! ### `insert`: what a refused row leaves behind -/

/-- The exact shape of an error of `insert`.  Either nothing changed, or every validation passed,
the row went into the tree (`btInsert` succeeded from a store `s0` holding the same data as `s`),
the root of the table moved, and it was the re-pointing of the catalog entry that failed. -/
theorem insert_err_cases (table : Bytes) (cols : List String) (vals : List Val) (s : Store)
    (e : SErr) (s' : Store) (hf : Filed s) (h : insert table cols vals s = .err e s') :
    (Filed s' ∧ SameData s s') ∨
    ∃ off buf bt id lsn s0 s1, Filed s0 ∧ SameData s s0 ∧
      btInsert ⟨off⟩ buf s0 = .ok (bt, id, lsn) s1 ∧ bt.root ≠ off ∧
      updatePageTable bt.root table s1 = .err e s' := by
  unfold insert at h
  rcases bind_eq_err h with h1 | ⟨off, s1, h1, h⟩
  · exact .inl ((ReadOnly.relationOffset _).err hf h1)
  obtain ⟨f1, d1⟩ := (ReadOnly.relationOffset _).ok hf h1
  rcases bind_eq_err h with h2 | ⟨_, s2, h2, h⟩
  · exact absurd h2 (by intro h2; exact ErrIn.fetch (P := fun _ => False) off _ _ _ h2)
  obtain ⟨f2, d2⟩ := (ReadOnly.fetch _).ok f1 h2
  rcases bind_eq_err h with h3 | ⟨schema, s3, h3, h⟩
  · obtain ⟨f3, d3⟩ := (ReadOnly.relationSchema _).err f2 h3
    exact .inl ⟨f3, (d1.trans d2).trans d3⟩
  obtain ⟨f3, d3⟩ := (ReadOnly.relationSchema _).ok f2 h3
  have d13 := (d1.trans d2).trans d3
  simp only at h
  generalize (if cols.isEmpty = true then List.map (fun x => x.name) schema else cols) = cols' at h
  split at h
  · cases h; exact .inl ⟨f3, d13⟩
  cases hcc : checkColumns schema cols' with
  | some ec => rw [hcc] at h; cases h; exact .inl ⟨f3, d13⟩
  | none =>
  rw [hcc] at h
  simp only at h
  rcases bind_eq_err h with h4 | ⟨buf, s4, h4, h⟩
  · obtain ⟨f4, d4⟩ := (ReadOnly.encodeRow _ _).err f3 h4
    exact .inl ⟨f4, d13.trans d4⟩
  obtain ⟨f4, d4⟩ := (ReadOnly.encodeRow _ _).ok f3 h4
  have d14 := d13.trans d4
  rcases bind_eq_err h with h5 | ⟨⟨bt, id, lsn⟩, s5, h5, h⟩
  · obtain ⟨f5, d5⟩ := btInsert_err _ _ _ _ _ f4 h5
    exact .inl ⟨f5, d14.trans d5⟩
  simp only at h
  split at h
  · rename_i hroot
    rcases bind_eq_err h with h6 | ⟨logs, s6, _, h⟩
    · exact .inr ⟨off, buf, bt, id, lsn, s4, s5, f4, d14, h5, by simpa using hroot, h6⟩
    · cases h
  · cases h

/-! ### the errors of `updatePageTable` -/

def OkPost {α} (Q : α → Prop) (m : SM α) : Prop := ∀ s a s', m s = .ok a s' → Q a

theorem ErrIn.bind_post {α β} {P : SErr → Prop} {Q : α → Prop} {m : SM α} {f : α → SM β}
    (hq : OkPost Q m) (hm : ErrIn P m) (hf : ∀ a, Q a → ErrIn P (f a)) : ErrIn P (m >>= f) := by
  intro s e s' h
  rcases bind_eq_err h with h1 | ⟨a, s1, h1, h2⟩
  · exact hm _ _ _ h1
  · exact hf a (hq _ _ _ h1) _ _ _ h2

theorem OkPost.findFirstM {α β} {f : α → SM (Option β)} {Q : β → Prop}
    (hf : ∀ a, OkPost (fun r => ∀ b, r = some b → Q b) (f a)) (l : List α) :
    OkPost (fun r => ∀ b, r = some b → Q b) (findFirstM f l) := by
  induction l with
  | nil => intro s a s' h b hb; cases h; cases hb
  | cons a rest ih =>
    intro s r s' h
    unfold Store.findFirstM at h
    obtain ⟨r1, s1, h1, h2⟩ := bind_eq_ok h
    cases r1 with
    | some b1 =>
      cases h2
      exact hf a _ _ _ h1
    | none => exact ih _ _ _ h2

theorem ErrIn.findFirstM {α β} {P : SErr → Prop} {f : α → SM (Option β)}
    (hf : ∀ a, ErrIn P (f a)) (l : List α) : ErrIn P (findFirstM f l) := by
  induction l with
  | nil => exact ErrIn.pure _
  | cons a rest ih =>
    unfold Store.findFirstM
    refine ErrIn.bind (hf a) (fun r => ?_)
    split
    · exact ErrIn.pure _
    · exact ih

theorem ErrIn.leftmostLeaf {P : SErr → Prop} (fuel off : Nat) : ErrIn P (leftmostLeaf fuel off) := by
  induction fuel generalizing off with
  | zero => exact ErrIn.outOfFuel
  | succ fuel ih =>
    unfold Store.leftmostLeaf
    refine ErrIn.bind (ErrIn.fetch _) (fun pg => ?_)
    split
    · exact ErrIn.pure _
    · split
      · exact ih _
      · exact ErrIn.panicS _

theorem ErrIn.scanLeaves {P : SErr → Prop} (fuel : Nat) (l : Leaf) : ErrIn P (scanLeaves fuel l) := by
  induction fuel generalizing l with
  | zero => exact ErrIn.outOfFuel
  | succ fuel ih =>
    unfold Store.scanLeaves
    simp only
    split
    · refine ErrIn.bind (ErrIn.fetch _) (fun nxt => ?_)
      split
      · exact ErrIn.bind (ih _) (fun _ => ErrIn.pure _)
      · split
        · exact ErrIn.pure _
        · exact ErrIn.panicS _
    · exact ErrIn.pure _

/-- a scan cannot fail -/
theorem ErrIn.scanRight {P : SErr → Prop} (root : Nat) : ErrIn P (scanRight root) :=
  ErrIn.bind (ErrIn.leftmostLeaf _ _) (fun _ => ErrIn.scanLeaves _ _)

theorem ErrIn.updateCellAt {P : SErr → Prop} (h1 : P .rowTooLarge) (h2 : P .cellNotFound)
    (off key : Nat) (value : Bytes) (lsn : Nat) : ErrIn P (updateCellAt off key value lsn) := by
  unfold Store.updateCellAt
  split
  · exact ErrIn.throw h1
  · refine ErrIn.bind (ErrIn.fetch _) (fun pg => ?_)
    split
    · exact ErrIn.panicS _
    · split
      · exact ErrIn.throw h2
      · repeat ei_step

/-- the re-encoded catalog row always encodes: the name is the string that was just compared,
the offset is a `bigint` (no range check) -/
theorem encode_pageTableRow (m : Vals) (name : Bytes) (newRoot : Nat)
    (h : (get m "table_name" == Val.str name) = true) :
    ∃ b, encodeTuple pageTableSchema (("file_offset", Val.int newRoot) :: m) = .ok b := by
  have h' : get m "table_name" = Val.str name := by simpa using h
  have g1 : get (("file_offset", Val.int newRoot) :: m) "table_name" = Val.str name := by
    rw [← h']; simp [Tuple.get]
  have g2 : get (("file_offset", Val.int newRoot) :: m) "file_offset" = Val.int newRoot := by
    simp [Tuple.get]
  simp only [pageTableSchema, encodeTuple, g1, g2, encField, validate]
  exact ⟨_, rfl⟩

/-- `updatePageTable` can only fail with one of these four errors -/
def CatalogErr (e : SErr) : Prop :=
  e = .pageTableEntryMissing ∨ e = .decode ∨ e = .rowTooLarge ∨ e = .cellNotFound

theorem updatePageTable_errIn (newRoot : Nat) (name : Bytes) :
    ErrIn CatalogErr (updatePageTable newRoot name) := by
  unfold Store.updatePageTable
  refine ErrIn.bind ErrIn.getS (fun s => ?_)
  refine ErrIn.bind (ErrIn.scanRight _) (fun cells => ?_)
  refine ErrIn.bind_post (Q := fun r => ∀ b, r = some b →
      (get b.2 "table_name" == Val.str name) = true) ?_ ?_ ?_
  · apply OkPost.findFirstM
    intro c s r s' h b hb
    obtain ⟨m, s1, _, h2⟩ := bind_eq_ok h
    split at h2
    · rename_i hc; cases h2; cases hb; exact hc
    · cases h2; cases hb
  · apply ErrIn.findFirstM
    intro c
    refine ErrIn.bind (ErrIn.decodeRow (.inr (.inl rfl)) _ _) (fun m => ?_)
    split <;> exact ErrIn.pure _
  · intro hit hq
    split
    · exact ErrIn.throw (.inl rfl)
    · rename_i c m
      have hc := hq _ rfl
      obtain ⟨b, hb⟩ := encode_pageTableRow m name newRoot hc
      refine ErrIn.bind ?_ (fun buf => ?_)
      · intro s e s' h
        unfold Store.encodeRow at h
        rw [hb] at h
        cases h
      · refine ErrIn.bind ErrIn.getS (fun s => ?_)
        refine ErrIn.bind (ErrIn.updateCellAt (.inr (.inr (.inl rfl))) (.inr (.inr (.inr rfl))) _ _ _ _)
          (fun _ => ?_)
        repeat ei_step

/-- C. A refused INSERT row - unknown table, column-count mismatch, unknown or repeated column name,
type mismatch, out-of-range integer, duplicate key - leaves every page, every dirty bit, the data file, the header on disk and
the location fields of the header as they were. -/
theorem insert_err (table : Bytes) (cols : List String) (vals : List Val) (s : Store)
    (e : SErr) (s' : Store) (hf : Filed s) (h : insert table cols vals s = .err e s')
    (he : e = .tableNotExist ∨ e = .colCountMismatch ∨ e = .typeMismatch ∨ e = .intOutOfRange ∨
          e = .keyExists ∨ e = .fieldNotFound ∨ e = .fieldAmbiguous) :
    Filed s' ∧ SameData s s' := by
  rcases insert_err_cases table cols vals s e s' hf h with h1 | ⟨off, buf, bt, id, lsn, s0, s1, _, _, _, _, h6⟩
  · exact h1
  · have hc := updatePageTable_errIn _ _ _ _ _ h6
    unfold CatalogErr at hc
    rcases he with rfl | rfl | rfl | rfl | rfl | rfl | rfl <;> rcases hc with hc | hc | hc | hc <;> cases hc

/-! ### `insert` in two phases -/

/-- The phase of `insert` up to and including the tree insert: look the table and its schema up,
build and encode the row, `btInsert`.  Every refusal of a row (unknown table, column count,
type mismatch, integer out of range, oversized row, duplicate key) is an error of this phase. -/
def insertApply (table : Bytes) (cols : List String) (vals : List Val) :
    SM (Nat × Bytes × BT × Nat × Nat) := do
  let off ← relationOffset table
  let _ ← fetch off
  let schema ← relationSchema table
  let cols := if cols.isEmpty then schema.map (·.name) else cols
  if cols.length != vals.length then throw .colCountMismatch else
  match checkColumns schema cols with
  | some e => throw e
  | none =>
  let m : Vals := (cols.zip vals).reverse
  let buf ← encodeRow schema m
  let (bt, id, lsn) ← btInsert ⟨off⟩ buf
  pure (off, buf, bt, id, lsn)

/-- the rest of `insert`: the log record, and the catalog entry when the root moved -/
def insertFinish (table : Bytes) : Nat × Bytes × BT × Nat × Nat → SM (List WalRec)
  | (off, buf, bt, id, lsn) =>
    let rec1 : WalRec := ⟨c_OpInsert, lsn, off, id, buf⟩
    if bt.root != off then do
      let logs ← updatePageTable bt.root table
      pure (rec1 :: logs)
    else pure [rec1]

theorem bind_assoc' {α β γ} (m : SM α) (f : α → SM β) (g : β → SM γ) :
    (m >>= f) >>= g = m >>= fun a => f a >>= g := by
  funext s
  simp only [bind_def]
  cases m s <;> rfl

theorem throw_bind {α β} (e : SErr) (f : α → SM β) : (throw e : SM α) >>= f = throw e := rfl

theorem pure_bind' {α β} (a : α) (f : α → SM β) : (pure a : SM α) >>= f = f a := rfl

theorem ite_bind {α β} (c : Prop) [Decidable c] (a b : SM α) (f : α → SM β) :
    (if c then a else b) >>= f = if c then a >>= f else b >>= f := by
  split <;> rfl

theorem optErr_bind {α β} (o : Option SErr) (b : SM α) (f : α → SM β) :
    (match o with | some e => throw e | none => b) >>= f =
      match o with | some e => throw e | none => b >>= f := by
  cases o <;> rfl

theorem insert_eq_apply_finish (table : Bytes) (cols : List String) (vals : List Val) :
    insert table cols vals = insertApply table cols vals >>= insertFinish table := by
  unfold insert insertApply
  simp only [bind_assoc', ite_bind, throw_bind, optErr_bind, pure_bind', insertFinish]
  rfl

theorem insertApply_errRO (table : Bytes) (cols : List String) (vals : List Val) :
    ErrRO (insertApply table cols vals) := by
  unfold insertApply
  refine ErrRO.bind_ro (ReadOnly.relationOffset _) (fun off => ?_)
  refine ErrRO.bind_ro (ReadOnly.fetch _) (fun _ => ?_)
  refine ErrRO.bind_ro (ReadOnly.relationSchema _) (fun schema => ?_)
  conv => arg 1; zeta
  refine ErrRO.ite ?_ ?_
  · exact (ReadOnly.throw _).errRO
  · split
    · exact (ReadOnly.throw _).errRO
    · refine ErrRO.bind_ro (ReadOnly.encodeRow _ _) (fun buf => ?_)
      exact ErrRO.bind_noErr (btInsert_errRO _ _) (fun _ => ErrIn.pure _)

/-- C (unconditional form). Whatever makes the validation-and-tree-insert phase of `insert` fail,
`insert` fails with the same error in the same store, and that store holds the same data. -/
theorem insert_err_before_apply (table : Bytes) (cols : List String) (vals : List Val) (s : Store)
    (e : SErr) (s' : Store) (hf : Filed s) (h : insertApply table cols vals s = .err e s') :
    insert table cols vals s = .err e s' ∧ Filed s' ∧ SameData s s' := by
  refine ⟨?_, insertApply_errRO table cols vals s e s' hf h⟩
  rw [insert_eq_apply_finish]
  exact bind_err h

/-- the only other way `insert` can fail: the row is in, the root moved, the catalog update failed -/
theorem insert_err_after_apply (table : Bytes) (cols : List String) (vals : List Val) (s : Store)
    (e : SErr) (s' : Store) (h : insert table cols vals s = .err e s') :
    insertApply table cols vals s = .err e s' ∨
    ∃ off buf bt id lsn s1, insertApply table cols vals s = .ok (off, buf, bt, id, lsn) s1 ∧
      bt.root ≠ off ∧ updatePageTable bt.root table s1 = .err e s' ∧ CatalogErr e := by
  rw [insert_eq_apply_finish] at h
  rcases bind_eq_err h with h1 | ⟨⟨off, buf, bt, id, lsn⟩, s1, h1, h2⟩
  · exact .inl h1
  · refine .inr ⟨off, buf, bt, id, lsn, s1, h1, ?_⟩
    unfold insertFinish at h2
    simp only at h2
    split at h2
    · rename_i hroot
      rcases bind_eq_err h2 with h3 | ⟨logs, s2, _, h3⟩
      · exact ⟨by simpa using hroot, h3, updatePageTable_errIn _ _ _ _ _ h3⟩
      · cases h3
    · cases h2

end Mkdb.Store
