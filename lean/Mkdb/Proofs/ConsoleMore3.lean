import Mkdb.Proofs.ConsoleMore2
/-!
Console model, ^K, ^D and ^W: with the cursor at the end of the line ^K and ^D change nothing; ^W after a word
typed behind a blank erases exactly that word.
-/
namespace Mkdb.Console

/-! ## ^K and ^D -/

theorem step_deleteLine (t : Term) (hpa : t.pasteActive = false) :
    step t keyDeleteLine = ({ t with line := t.line.take t.pos }, none) := by
  simp [step, handleKey, hpa, keyEnter, keyBackspace, keyAltLeft, keyAltRight, keyLeft, keyRight, keyHome, keyEnd,
    keyUp, keyDown, keyDeleteWord, keyDeleteLine]

theorem step_ctrlD (t : Term) (hpa : t.pasteActive = false) :
    step t keyCtrlD =
      (if t.pos < t.line.length then eraseNPreviousChars { t with pos := t.pos + 1 } 1 else t, none) := by
  simp [step, handleKey, hpa, keyEnter, keyBackspace, keyAltLeft, keyAltRight, keyLeft, keyRight, keyHome, keyEnd,
    keyUp, keyDown, keyDeleteWord, keyDeleteLine, keyCtrlD]

/-- ^K with nothing behind the cursor: nothing changes -/
theorem step_deleteLine_atEnd (t : Term) (hpa : t.pasteActive = false) (hend : t.line.length ≤ t.pos) :
    step t keyDeleteLine = (t, none) := by
  rw [step_deleteLine t hpa, List.take_of_length_le hend]

/-- ^D with nothing behind the cursor: nothing changes -/
theorem step_ctrlD_atEnd (t : Term) (hpa : t.pasteActive = false) (hend : t.line.length ≤ t.pos) :
    step t keyCtrlD = (t, none) := by
  rw [step_ctrlD t hpa, if_neg (by omega)]

/-- any number of ^K and ^D with the cursor at the end: nothing handed over, the same state -/
theorem endNoise_id : ∀ (ks : List Nat) (t : Term), t.pasteActive = false → t.line.length ≤ t.pos →
    (∀ k ∈ ks, k = keyDeleteLine ∨ k = keyCtrlD) → run t ks = [] ∧ final t ks = t
  | [], _, _, _, _ => ⟨rfl, rfl⟩
  | k :: ks, t, hpa, hend, h => by
    have hs : step t k = (t, none) := by
      rcases h k List.mem_cons_self with e | e <;> subst e
      · exact step_deleteLine_atEnd t hpa hend
      · exact step_ctrlD_atEnd t hpa hend
    obtain ⟨r, f⟩ := endNoise_id ks t hpa hend (fun x hx => h x (List.mem_cons_of_mem _ hx))
    exact ⟨by rw [run_cons_none _ hs]; exact r, by rw [final_cons, hs]; exact f⟩

theorem final_valid_atEnd : ∀ (keys : List Nat) (t : Term), AtEnd t →
    (∀ k ∈ keys, k = 13 ∨ (isPrintable k = true ∧ k ≠ 13)) → AtEnd (final t keys)
  | [], _, h, _ => h
  | k :: keys, t, h, hv => by
    rw [final_cons]
    exact final_valid_atEnd keys _ (step_valid_atEnd t h (hv k List.mem_cons_self))
      (fun x hx => hv x (List.mem_cons_of_mem _ hx))

/-- ^K and ^D pressed after typed text (cursor at the end) change no submission of what is typed afterwards -/
theorem run_endNoise (a ks b : List Nat) (t : Term) (hpa : t.pasteActive = false) (hend : AtEnd t)
    (ha : ∀ k ∈ a, k = 13 ∨ (isPrintable k = true ∧ k ≠ 13))
    (hks : ∀ k ∈ ks, k = keyDeleteLine ∨ k = keyCtrlD) :
    run t (a ++ ks ++ b) = run t (a ++ b) ∧ final t (a ++ ks ++ b) = final t (a ++ b) := by
  have hpa' : (final t a).pasteActive = false := by rw [final_valid_paste a t ha]; exact hpa
  have hend' : AtEnd (final t a) := final_valid_atEnd a t hend ha
  obtain ⟨r, f⟩ := endNoise_id ks (final t a) hpa' (by unfold AtEnd at hend'; omega) hks
  constructor
  · rw [List.append_assoc, run_append, run_append ks, r, f, List.nil_append, ← run_append]
  · rw [List.append_assoc, final_append, final_append ks, f, ← final_append]

/-! ## ^W -/

theorem step_deleteWord (t : Term) (hpa : t.pasteActive = false) :
    step t keyDeleteWord = (eraseNPreviousChars t (countToLeftWord t), none) := by
  simp [step, handleKey, hpa, keyEnter, keyBackspace, keyAltLeft, keyAltRight, keyLeft, keyRight, keyHome, keyEnd,
    keyUp, keyDown, keyDeleteWord]

theorem getD_append_add (a w : List Nat) (j : Nat) : (a ++ w).getD (a.length + j) 0 = w.getD j 0 := by
  rw [List.getD_eq_getElem?_getD, List.getD_eq_getElem?_getD, List.getElem?_append_right (by omega)]
  congr 2
  omega

/-- the second loop of `countToLeftWord` from inside a word that follows a blank not at index 0: it stops
behind the blank -/
theorem wordStartLeft_word (pre w : List Nat) (hpre : pre ≠ []) (hw : ∀ c ∈ w, c ≠ 32) :
    ∀ j, j ≤ w.length → wordStartLeft (pre ++ [32] ++ w) (pre.length + j) = pre.length + 1
  | 0, _ => by
    obtain ⟨p, hp⟩ : ∃ p, pre.length = p + 1 := by
      cases pre with
      | nil => exact absurd rfl hpre
      | cons x xs => exact ⟨xs.length, rfl⟩
    have hg : (pre ++ [32] ++ w).getD (p + 1) 0 = 32 := by
      rw [← hp, List.append_assoc, show pre.length = pre.length + 0 from rfl, getD_append_add]
      rfl
    rw [Nat.add_zero, hp]
    simp only [wordStartLeft, hg, beq_self_eq_true, if_true]
  | j + 1, hj => by
    have hg : (pre ++ [32] ++ w).getD (pre.length + j + 1) 0 ≠ 32 := by
      have e : pre.length + j + 1 = (pre ++ [32]).length + j := by simp; omega
      rw [e, getD_append_add, List.getD_eq_getElem?_getD, List.getElem?_eq_getElem (by omega)]
      exact hw _ (List.getElem_mem _)
    have e : pre.length + (j + 1) = (pre.length + j) + 1 := by omega
    rw [e]
    simp only [wordStartLeft]
    rw [if_neg (by simpa using hg)]
    exact wordStartLeft_word pre w hpre hw j (by omega)

theorem skipSpacesLeft_nonblank (line : List Nat) (p : Nat) (h : line.getD p 0 ≠ 32) :
    skipSpacesLeft line p = p := by
  cases p with
  | zero => rfl
  | succ p => simp only [skipSpacesLeft]; rw [if_pos (by simpa using h)]

/-- with the cursor at the end of `pre ␣ w` (`pre` not empty, `w` a non-empty word without blanks)
`countToLeftWord` is the length of `w` -/
theorem countToLeftWord_word (t : Term) (pre w : List Nat) (hpre : pre ≠ []) (hw : ∀ c ∈ w, c ≠ 32)
    (hne : w ≠ []) (hl : t.line = pre ++ [32] ++ w) (hp : t.pos = t.line.length) :
    countToLeftWord t = w.length := by
  obtain ⟨n, hn⟩ : ∃ n, w.length = n + 1 := by
    cases w with
    | nil => exact absurd rfl hne
    | cons x xs => exact ⟨xs.length, rfl⟩
  have hlen : t.line.length = pre.length + 1 + w.length := by
    rw [hl]; simp only [List.length_append, List.length_cons, List.length_nil]
  have hpos : t.pos - 1 = pre.length + (n + 1) := by omega
  have hg : (pre ++ [32] ++ w).getD (pre.length + (n + 1)) 0 ≠ 32 := by
    have e : pre.length + (n + 1) = (pre ++ [32]).length + n := by
      simp only [List.length_append, List.length_cons, List.length_nil]; omega
    rw [e, getD_append_add, List.getD_eq_getElem?_getD, List.getElem?_eq_getElem (by omega)]
    exact hw _ (List.getElem_mem _)
  unfold countToLeftWord
  rw [if_neg (by simp; omega), hpos, hl, skipSpacesLeft_nonblank _ _ hg,
    wordStartLeft_word pre w hpre hw (n + 1) (by omega)]
  omega

/-- a word typed behind a blank (not the first key of the line), then ^W: the state before the word -/
theorem word_then_deleteWord (t : Term) (pre w : List Nat) (hpa : t.pasteActive = false) (hend : AtEnd t)
    (hl : t.line = pre ++ [32]) (hpre : pre ≠ []) (hne : w ≠ [])
    (hw : ∀ c ∈ w, isPrintable c = true ∧ c ≠ 32) :
    run t (w ++ [keyDeleteWord]) = [] ∧ final t (w ++ [keyDeleteWord]) = t := by
  obtain ⟨r, f⟩ := type_printables w t (posOK_of_atEnd hend) (fun c hc => (hw c hc).1)
  unfold AtEnd at hend
  have f' : final t w = { t with line := pre ++ [32] ++ w, pos := t.pos + w.length } := by
    rw [f, hend, List.take_length, List.drop_length, List.append_nil, hl]
  have hpa' : (final t w).pasteActive = false := by rw [f']; exact hpa
  have hcount : countToLeftWord (final t w) = w.length :=
    countToLeftWord_word _ pre w hpre (fun c hc => (hw c hc).2) hne (by rw [f'])
      (by rw [f']; simp only [hend, hl, List.length_append])
  have hs := step_deleteWord (final t w) hpa'
  rw [hcount] at hs
  refine ⟨by rw [run_append, r, run_cons_none _ hs]; rfl, ?_⟩
  rw [final_append, final_cons, hs, final_nil, f']
  cases t with
  | mk line pos pa hist hi hp =>
    simp only at hend hl ⊢
    subst hl
    subst hend
    simp only [eraseNPreviousChars, Nat.min_eq_left (Nat.le_add_left _ _), Nat.add_sub_cancel]
    have : (pre ++ [32] ++ w).take (pre ++ [32]).length = pre ++ [32] := List.take_left' rfl
    rw [this]
    have : (pre ++ [32] ++ w).drop ((pre ++ [32]).length + w.length) = [] :=
      List.drop_eq_nil_of_le (by simp only [List.length_append]; omega)
    rw [this, List.append_nil]

end Mkdb.Console
