import Mkdb.Model.Session
/-!
# The base case, part 0: the store `CREATE DATABASE` produces, computed

`Store.createDB` is the model of `storage.CreateDB`; the session (`Session.exec … (.createDatabase n)`)
runs `createDB [] {}` and installs `{ store := reopen st, wal := [] }`.  Here that store is computed:
`createDB_eq` (an explicit value `newStore`, checked by kernel evaluation of the model), and `newDB` is
the database a fresh `CREATE DATABASE` leaves (`exec_createDatabase_newDB`).  Only the model is
imported, so that this file can be used beside any of the proof developments.
-/
set_option autoImplicit false
namespace Mkdb.Store
open Mkdb.Page Mkdb.Tuple Mkdb.Generated

/-- `Store` has no `DecidableEq`: all its fields, compared -/
def storeFieldsEq (a b : Store) : Bool :=
  a.hdr == b.hdr && a.mem == b.mem && a.disk == b.disk && a.dhdr == b.dhdr && a.ghost == b.ghost

theorem eq_of_storeFieldsEq {a b : Store} (h : storeFieldsEq a b = true) : a = b := by
  cases a; cases b
  simp only [storeFieldsEq, Bool.and_eq_true, beq_iff_eq] at h
  obtain ⟨⟨⟨⟨h1, h2⟩, h3⟩, h4⟩, h5⟩ := h
  simp only [h1, h2, h3, h4, h5]

/-- a storage operation succeeded with this store -/
def okWith (r : SRes Unit) (s : Store) : Bool :=
  match r with
  | .ok _ s' => storeFieldsEq s' s
  | _ => false

theorem eq_of_okWith {r : SRes Unit} {s : Store} (h : okWith r s = true) : r = .ok () s := by
  unfold okWith at h
  split at h
  · rw [eq_of_storeFieldsEq h]
  · cases h

/-! ### the store -/

/-- the page table of a new database: the rows of `sys_pages` (root 4096) and `sys_schema` (root 8192) -/
def ptLeafNew : Leaf := ⟨4096, 1, false, false, 0, 0,
  [⟨1, false, [0, 9, 0, 0, 0, 115, 121, 115, 95, 112, 97, 103, 101, 115, 0, 0, 16, 0, 0, 0, 0, 0, 0]⟩,
   ⟨2, false, [0, 10, 0, 0, 0, 115, 121, 115, 95, 115, 99, 104, 101, 109, 97, 0, 0, 32, 0, 0, 0, 0, 0, 0]⟩]⟩

/-- `sys_schema` of a new database: the two columns of `sys_pages`, the four columns of `sys_schema` -/
def schLeafNew : Leaf := ⟨8192, 7, false, false, 0, 0,
  [⟨3, false, [0, 9, 0, 0, 0, 115, 121, 115, 95, 112, 97, 103, 101, 115, 0, 10, 0, 0, 0, 116, 97, 98, 108, 101,
      95, 110, 97, 109, 101, 0, 1, 0, 0, 0, 0, 255, 0, 0, 0]⟩,
   ⟨4, false, [0, 9, 0, 0, 0, 115, 121, 115, 95, 112, 97, 103, 101, 115, 0, 11, 0, 0, 0, 102, 105, 108, 101, 95,
      111, 102, 102, 115, 101, 116, 0, 3, 0, 0, 0, 0, 0, 0, 0, 0]⟩,
   ⟨5, false, [0, 10, 0, 0, 0, 115, 121, 115, 95, 115, 99, 104, 101, 109, 97, 0, 10, 0, 0, 0, 116, 97, 98, 108,
      101, 95, 110, 97, 109, 101, 0, 1, 0, 0, 0, 0, 255, 0, 0, 0]⟩,
   ⟨6, false, [0, 10, 0, 0, 0, 115, 121, 115, 95, 115, 99, 104, 101, 109, 97, 0, 10, 0, 0, 0, 102, 105, 101, 108,
      100, 95, 110, 97, 109, 101, 0, 1, 0, 0, 0, 0, 255, 0, 0, 0]⟩,
   ⟨7, false, [0, 10, 0, 0, 0, 115, 121, 115, 95, 115, 99, 104, 101, 109, 97, 0, 10, 0, 0, 0, 102, 105, 101, 108,
      100, 95, 116, 121, 112, 101, 0, 0, 0, 0, 0, 0, 0, 0, 0, 0]⟩,
   ⟨8, false, [0, 10, 0, 0, 0, 115, 121, 115, 95, 115, 99, 104, 101, 109, 97, 0, 12, 0, 0, 0, 102, 105, 101, 108,
      100, 95, 108, 101, 110, 103, 116, 104, 0, 0, 0, 0, 0, 0, 255, 0, 0, 0]⟩]⟩

/-- the header of a new database: eight row ids and eight LSNs are used, two pages are allocated -/
def hdrNew : Header := { lastKey := 8, ptRoot := 4096, nextFree := 12288, nextLSN := 8 }

/-- **The store `CreateDB` leaves**: both catalog pages cached clean and in the data file, the header
in the data file. -/
def newStore : Store :=
  { hdr := hdrNew,
    mem := [(4096, ⟨.leaf ptLeafNew, false⟩), (8192, ⟨.leaf schLeafNew, false⟩)],
    disk := [(4096, .leaf ptLeafNew), (8192, .leaf schLeafNew)],
    dhdr := hdrNew, ghost := 0 }

/-- **`CreateDB` computed.**  `createDB` with the write order `[]` (pages in cache order), from the
empty store, succeeds with the store `newStore` (kernel evaluation of the model, B-tree inserts, catalog
scans, row codec and flush included; the levels model agreed with every insert: `ghost = 0`). -/
theorem createDB_eq : createDB [] {} = .ok () newStore := eq_of_okWith (by decide +kernel)

/-- the write order of the flush does not matter for the pages and the header, only for the order in
which the two pages are listed: the other order -/
theorem createDB_eq_rev : createDB [8192, 4096] {} =
    .ok () { newStore with disk := [(8192, .leaf schLeafNew), (4096, .leaf ptLeafNew)] } :=
  eq_of_okWith (by decide +kernel)

/-- **The database a fresh `CREATE DATABASE` leaves** (`Session.exec`: the data file re-opened, an
empty log). -/
def newDB : Engine.DB := { store := reopen newStore, wal := [] }

theorem newDB_store : newDB.store =
    { hdr := hdrNew, mem := [], disk := [(4096, .leaf ptLeafNew), (8192, .leaf schLeafNew)], dhdr := hdrNew,
      ghost := 0 } := rfl

/-- the session installs exactly `newDB` -/
theorem exec_createDatabase_newDB (s : Session.Sess) (name : Bytes) (s' : Session.Sess)
    (h : Session.exec s (.createDatabase name) = (s', Session.Out.ok)) :
    s' = Session.setDB s (Session.canon name) newDB := by
  unfold Session.exec at h
  simp only [createDB_eq] at h
  split at h
  · cases h
  · split at h
    · cases h
    · split at h
      · cases h
      · simp only [Prod.mk.injEq, and_true] at h
        exact h.symm

end Mkdb.Store
