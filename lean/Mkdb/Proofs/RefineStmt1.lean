import Mkdb.Proofs.RefineHistory
/-!
Refinement at the statement level, part 1: reading the catalog.

* `Same s s'`: the engine sees the same pages and the header is the same (only the cache grew).
* `scan_cat`: `scanRight` on a held tree, with the header untouched.
* `ptEntry`, `schemaOf`: what the rows of `sys_pages` / `sys_schema` say, as pure functions.
* `relationOffset_of_entries`, `relationSchema_of`: the two catalog lookups against them.
-/
set_option autoImplicit false
namespace Mkdb.Store
open Mkdb.Page Mkdb.Tuple Mkdb.Generated Mkdb.Tree

/-- nothing the engine can see has changed, nor the header -/
def Same (s s' : Store) : Prop := view s' = view s ∧ s'.hdr = s.hdr

theorem Same.refl (s : Store) : Same s s := ⟨rfl, rfl⟩
theorem Same.trans {s1 s2 s3 : Store} (h12 : Same s1 s2) (h23 : Same s2 s3) : Same s1 s3 :=
  ⟨h23.1.trans h12.1, h23.2.trans h12.2⟩
theorem Same.holds {s s' : Store} (h : Same s s') {t : Levels} (hH : Holds s t) : Holds s' t :=
  fun e he => by rw [h.1]; exact hH e he

/-! ### the read paths leave the header alone -/

theorem leftmostLeaf_hdr : ∀ (fuel off : Nat) (s s' : Store) (l : Leaf),
    leftmostLeaf fuel off s = .ok l s' → s'.hdr = s.hdr
  | 0, _, _, _, _, h => by cases h
  | fuel+1, off, s, s', l, h => by
    rw [leftmostLeaf] at h
    obtain ⟨pg, s1, e1, e2⟩ := bind_eq_ok h
    cases pg with
    | leaf l0 =>
      simp only [pure, Pure.pure, SRes.ok.injEq] at e2
      rw [← e2.2]; exact fetch_hdr e1
    | internal n =>
      simp only at e2
      cases hc : n.cells.head? with
      | none => rw [hc] at e2; cases e2
      | some c =>
        rw [hc] at e2
        exact (leftmostLeaf_hdr fuel _ s1 s' l e2).trans (fetch_hdr e1)

theorem scanLeaves_hdr : ∀ (fuel : Nat) (l : Leaf) (s s' : Store) (r : List (LeafCell × Nat)),
    scanLeaves fuel l s = .ok r s' → s'.hdr = s.hdr
  | 0, _, _, _, _, h => by cases h
  | fuel+1, l, s, s', r, h => by
    rw [scanLeaves] at h
    split at h
    · obtain ⟨nxt, s1, e1, e2⟩ := bind_eq_ok h
      cases nxt with
      | leaf r0 =>
        simp only at e2
        obtain ⟨rest, s2, e3, e4⟩ := bind_eq_ok e2
        simp only [pure, Pure.pure, SRes.ok.injEq] at e4
        rw [← e4.2]
        exact (scanLeaves_hdr fuel r0 s1 s2 rest e3).trans (fetch_hdr e1)
      | internal n =>
        simp only at e2
        split at e2
        · simp only [pure, Pure.pure, SRes.ok.injEq] at e2
          rw [← e2.2]; exact fetch_hdr e1
        · cases e2
    · simp only [pure, Pure.pure, SRes.ok.injEq] at h
      rw [← h.2]

theorem scanRight_hdr (root : Nat) (s s' : Store) (r : List (LeafCell × Nat))
    (h : scanRight root s = .ok r s') : s'.hdr = s.hdr := by
  unfold scanRight at h
  obtain ⟨l, s1, e1, e2⟩ := bind_eq_ok h
  exact (scanLeaves_hdr _ _ _ _ _ e2).trans (leftmostLeaf_hdr _ _ _ _ _ e1)

/-- the scan of a held tree: the live cells in order, each with the offset of a leaf holding it -/
theorem scan_cat (s : Store) (t : Levels) (nf : Nat) (hH : Holds s t) (hI : Inv t nf)
    (hdepth : t.inner.length + 1 ≤ treeFuel) (hlen : t.leaves.length ≤ scanFuel) :
    ∃ s' cs, scanRight (rootOff t) s = .ok cs s' ∧ Same s s' ∧ cs.map (·.1) = live t ∧
      ∀ x ∈ cs, ∃ p ∈ t.leaves, x.2 = p.1.off ∧ x.1 ∈ p.1.cells := by
  obtain ⟨s', e, hsv⟩ := Mkdb.Refine.scanRight_refines_strong s t nf hH hI hdepth hlen
  refine ⟨s', _, e, ⟨funext hsv, scanRight_hdr _ _ _ _ e⟩, Mkdb.Refine.map_fst_liveAt _, ?_⟩
  intro x hx
  obtain ⟨p, hp, hxp⟩ := List.mem_flatMap.mp hx
  obtain ⟨c, hc, rfl⟩ := List.mem_map.mp hxp
  exact ⟨p, hp, rfl, (List.mem_filter.mp hc).1⟩

/-! ### loops whose body does not touch the state -/

theorem findFirstM_pure {α β} (f : α → SM (Option β)) (g : α → Option β) (s : Store) :
    ∀ (l : List α), (∀ a ∈ l, f a s = .ok (g a) s) → findFirstM f l s = .ok (l.findSome? g) s
  | [], _ => rfl
  | a :: rest, h => by
    rw [findFirstM, bind_ok (h a List.mem_cons_self)]
    cases hg : g a with
    | some b => simp [hg]; rfl
    | none =>
      simp only [List.findSome?_cons, hg]
      exact findFirstM_pure f g s rest (fun x hx => h x (List.mem_cons_of_mem _ hx))

/-- all results, if every one is there -/
def mapO {α β} (g : α → Option β) : List α → Option (List β)
  | [] => some []
  | a :: l =>
    match g a, mapO g l with
    | some b, some bs => some (b :: bs)
    | _, _ => none

theorem mapS_pure {α β} (f : α → SM β) (g : α → Option β) (s : Store) :
    ∀ (l : List α) (bs : List β), (∀ a ∈ l, ∀ b, g a = some b → f a s = .ok b s) → mapO g l = some bs →
      mapS f l s = .ok bs s
  | [], bs, _, h => by simp only [mapO, Option.some.injEq] at h; subst h; rfl
  | a :: rest, bs, hf, h => by
    simp only [mapO] at h
    cases hg : g a with
    | none => rw [hg] at h; cases h
    | some b =>
      cases hr : mapO g rest with
      | none => rw [hg, hr] at h; cases h
      | some tl =>
        rw [hg, hr] at h
        simp only [Option.some.injEq] at h
        subst h
        rw [mapS, bind_ok (hf a List.mem_cons_self b hg),
          bind_ok (mapS_pure f g s rest tl (fun x hx => hf x (List.mem_cons_of_mem _ hx)) hr)]
        rfl

/-! ### `sys_pages` -/

/-- what a row of the page table says: table name and root offset -/
def ptEntry (c : LeafCell) : Option (Bytes × Nat) :=
  match decodeTuple pageTableSchema c.val [] with
  | .ok m =>
    match get m "table_name", get m "file_offset" with
    | .str n, .int i => some (n, i.toNat)
    | _, _ => none
  | .error _ => none

/-- the loop body of `getRelationFileOffset` -/
def ptLookup (name : Bytes) (c : LeafCell × Nat) : SM (Option Nat) := do
  let m ← decodeRow pageTableSchema c.1.val
  if get m "table_name" == .str name then
    match get m "file_offset" with
    | .int i => pure (some i.toNat)
    | _ => panicS "getRelationFileOffset: file_offset.(int64)"
  else pure none

theorem relationOffset_eq (name : Bytes) :
    relationOffset name = (getS >>= fun s => scanRight s.hdr.ptRoot >>= fun cells =>
      findFirstM (ptLookup name) cells >>= fun hit =>
        match hit with
        | some off => pure off
        | none => throw .tableNotExist) := rfl

theorem ptEntry_inv {c : LeafCell} {n : Bytes} {off : Nat} (h : ptEntry c = some (n, off)) :
    ∃ m i, decodeTuple pageTableSchema c.val [] = .ok m ∧ get m "table_name" = .str n ∧
      get m "file_offset" = .int i ∧ off = i.toNat := by
  unfold ptEntry at h
  split at h
  · rename_i m hm
    split at h
    · rename_i n' i h1 h2
      simp only [Option.some.injEq, Prod.mk.injEq] at h
      exact ⟨m, i, hm, by rw [h1, h.1], h2, h.2.symm⟩
    · cases h
  · cases h

theorem val_str_beq (a b : Bytes) : (Val.str a == Val.str b) = decide (a = b) := by
  by_cases h : a = b
  · subst h; simp
  · simp [h]

theorem ptLookup_spec (name : Bytes) (c : LeafCell × Nat) (n : Bytes) (off : Nat) (s : Store)
    (h : ptEntry c.1 = some (n, off)) :
    ptLookup name c s = .ok (if n = name then some off else none) s := by
  obtain ⟨m, i, hm, h1, h2, rfl⟩ := ptEntry_inv h
  unfold ptLookup
  have hd : decodeRow pageTableSchema c.1.val s = .ok m s := by unfold decodeRow; rw [hm]
  rw [bind_ok hd, h1, h2, val_str_beq]
  by_cases hn : n = name
  · simp [hn]; rfl
  · simp [hn]; rfl

theorem findSome_filterMap {α β γ} (f : α → Option β) (g : β → Option γ) : ∀ (l : List α),
    (l.filterMap f).findSome? g = l.findSome? (fun a => match f a with | some b => g b | none => none)
  | [] => rfl
  | a :: rest => by
    cases hf : f a with
    | none => simp only [List.filterMap_cons, hf, List.findSome?_cons]; exact findSome_filterMap f g rest
    | some b =>
      simp only [List.filterMap_cons, hf, List.findSome?_cons]
      cases g b with
      | some c => rfl
      | none => exact findSome_filterMap f g rest

/-- looking a name up in a list of catalog entries with distinct names -/
theorem findSome_entries (name : Bytes) : ∀ (l : List (Bytes × Nat)), (l.map (·.1)).Nodup →
    (∀ off, (name, off) ∈ l → l.findSome? (fun e => if e.1 = name then some e.2 else none) = some off) ∧
    (name ∉ l.map (·.1) → l.findSome? (fun e => if e.1 = name then some e.2 else none) = none)
  | [], _ => ⟨fun _ h => (by cases h), fun _ => rfl⟩
  | e :: rest, hnd => by
    simp only [List.map_cons, List.nodup_cons] at hnd
    obtain ⟨ih1, ih2⟩ := findSome_entries name rest hnd.2
    refine ⟨?_, ?_⟩
    · intro off hm
      by_cases he : e.1 = name
      · simp only [List.findSome?_cons, he, if_true]
        rcases List.mem_cons.mp hm with h | h
        · rw [← h]
        · exfalso
          apply hnd.1
          rw [he]
          exact List.mem_map.mpr ⟨(name, off), h, rfl⟩
      · simp only [List.findSome?_cons, he, if_false]
        rcases List.mem_cons.mp hm with h | h
        · exfalso; apply he; rw [← h]
        · exact ih1 off h
    · intro hn
      simp only [List.map_cons, List.mem_cons, not_or] at hn
      have he : ¬ e.1 = name := fun h => hn.1 h.symm
      simp only [List.findSome?_cons, he, if_false]
      exact ih2 hn.2

/-- `getRelationFileOffset` against the entries of a held page table all of whose rows decode -/
theorem relationOffset_of_entries (s : Store) (pt : Levels) (nf : Nat) (name : Bytes)
    (hH : Holds s pt) (hI : Inv pt nf) (hroot : rootOff pt = s.hdr.ptRoot)
    (hdepth : pt.inner.length + 1 ≤ treeFuel) (hlen : pt.leaves.length ≤ scanFuel)
    (hdec : ∀ c ∈ live pt, ptEntry c ≠ none)
    (hnd : (((live pt).filterMap ptEntry).map (·.1)).Nodup) :
    (∀ off, (name, off) ∈ (live pt).filterMap ptEntry →
      ∃ s', relationOffset name s = .ok off s' ∧ Same s s') ∧
    (name ∉ ((live pt).filterMap ptEntry).map (·.1) →
      ∃ s', relationOffset name s = .err .tableNotExist s' ∧ Same s s') := by
  obtain ⟨s1, cs, e1, hs1, hcs, _⟩ := scan_cat s pt nf hH hI hdepth hlen
  rw [hroot] at e1
  have hg : ∀ a ∈ cs, ptLookup name a s1 =
      .ok ((fun a : LeafCell × Nat => match ptEntry a.1 with
        | some e => if e.1 = name then some e.2 else none
        | none => none) a) s1 := by
    intro a ha
    have hal : a.1 ∈ live pt := by rw [← hcs]; exact List.mem_map.mpr ⟨a, ha, rfl⟩
    cases hp : ptEntry a.1 with
    | none => exact absurd hp (hdec a.1 hal)
    | some e => rw [ptLookup_spec name a e.1 e.2 s1 hp]; simp only [hp]
  have hff := findFirstM_pure (ptLookup name) _ s1 cs hg
  have hfs : cs.findSome? (fun a : LeafCell × Nat => match ptEntry a.1 with
        | some e => if e.1 = name then some e.2 else none
        | none => none) =
      ((live pt).filterMap ptEntry).findSome? (fun e => if e.1 = name then some e.2 else none) := by
    rw [← hcs, findSome_filterMap, List.findSome?_map]
    congr 1
    funext a
    simp only [Function.comp]
    cases ptEntry a.1 <;> rfl
  rw [hfs] at hff
  obtain ⟨f1, f2⟩ := findSome_entries name _ hnd
  refine ⟨?_, ?_⟩
  · intro off hm
    refine ⟨s1, ?_, hs1⟩
    rw [relationOffset_eq, bind_ok (show getS s = .ok s s from rfl), bind_ok e1, bind_ok hff, f1 off hm]
    rfl
  · intro hn
    refine ⟨s1, ?_, hs1⟩
    rw [relationOffset_eq, bind_ok (show getS s = .ok s s from rfl), bind_ok e1, bind_ok hff, f2 hn]
    rfl

end Mkdb.Store
