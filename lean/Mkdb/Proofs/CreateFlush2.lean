import Mkdb.Proofs.CreateDefs
/-!
CREATE TABLE, the flush, part 2: `flushPages` on a store whose cache is well filed (`MemFiled`).
Every page is seen afterwards as before with its dirty bit cleared, nothing in the cache is dirty,
the header on disk is the header in memory, and every page that was dirty is on disk.

The cache may hold several entries under one key (`assocGet` sees the first, `assocSet` rewrites
all of them); nothing here assumes keys to be distinct.
-/
set_option autoImplicit false
namespace Mkdb.Store
open Mkdb.Page Mkdb.Tuple Mkdb.Generated Mkdb.Tree

/-- one page write of the flush -/
def flushStep (s : Store) (off : Nat) : Store :=
  match assocGet s.mem off with
  | some m => { s with disk := assocSet s.disk (nodeOff m.node) m.node, mem := assocSet s.mem off ⟨m.node, false⟩ }
  | none => s

/-- the offsets the flush writes, in order -/
def flushOrd (order : List Nat) (s : Store) : List Nat :=
  (order.filter fun o => ((s.mem.filter fun p => p.2.dirty).map (·.1)).contains o) ++
    (((s.mem.filter fun p => p.2.dirty).map (·.1)).filter fun o => !order.contains o)

theorem flushPages_eq (order : List Nat) (s : Store) :
    flushPages order s =
      .ok () { (flushOrd order s).foldl flushStep s with dhdr := ((flushOrd order s).foldl flushStep s).hdr } := rfl

/-- clear the dirty bit -/
def clr (x : Node × Bool) : Node × Bool := (x.1, false)

theorem assocSet_of_some {β} {l : List (Nat × β)} {k : Nat} {v : β} (v' : β) (h : assocGet l k = some v) :
    assocSet l k v' = l.map (fun p => if p.1 == k then (k, v') else p) := by
  unfold assocSet
  have : l.any (fun p => p.1 == k) = true := by
    rw [List.any_eq_true]; exact ⟨_, assocGet_some h, by simp⟩
  rw [this]; rfl

/-! ### one step -/

theorem flushStep_hdr (s : Store) (a : Nat) : (flushStep s a).hdr = s.hdr := by
  unfold flushStep; split <;> rfl
theorem flushStep_dhdr (s : Store) (a : Nat) : (flushStep s a).dhdr = s.dhdr := by
  unfold flushStep; split <;> rfl
theorem flushStep_ghost (s : Store) (a : Nat) : (flushStep s a).ghost = s.ghost := by
  unfold flushStep; split <;> rfl

theorem flushStep_mem_get (s : Store) (a o : Nat) :
    assocGet (flushStep s a).mem o =
      if o = a then (assocGet s.mem a).map (fun m => (⟨m.node, false⟩ : MNode)) else assocGet s.mem o := by
  unfold flushStep
  cases hm : assocGet s.mem a with
  | none =>
    by_cases ho : o = a
    · simp only [ho, if_true, hm, Option.map_none]
    · simp only [ho, if_false]
  | some m =>
    simp only [assocGet_assocSet]
    by_cases ho : o = a
    · simp only [ho, if_true, Option.map_some]
    · simp only [ho, if_false]

theorem flushStep_disk_get (s : Store) (hf : MemFiled s) (a o : Nat) :
    assocGet (flushStep s a).disk o =
      if o = a then (match assocGet s.mem a with | some m => some m.node | none => assocGet s.disk a)
      else assocGet s.disk o := by
  unfold flushStep
  cases hm : assocGet s.mem a with
  | none =>
    by_cases ho : o = a
    · simp only [ho, if_true]
    · simp only [ho, if_false]
  | some m =>
    have hoff : nodeOff m.node = a := hf _ (assocGet_some hm)
    simp only [assocGet_assocSet, hoff]

theorem flushStep_view (s : Store) (hf : MemFiled s) (a o : Nat) :
    view (flushStep s a) o = if o = a then (view s a).map clr else view s o := by
  unfold view
  rw [flushStep_mem_get, flushStep_disk_get s hf]
  by_cases ho : o = a
  · simp only [ho, if_true]
    cases hm : assocGet s.mem a with
    | some m => rfl
    | none =>
      simp only [Option.map_none, Option.map_map]
      cases assocGet s.disk a <;> rfl
  · simp only [ho, if_false]

theorem flushStep_filed (s : Store) (hf : MemFiled s) (a : Nat) : MemFiled (flushStep s a) := by
  unfold flushStep
  cases hm : assocGet s.mem a with
  | none => exact hf
  | some m =>
    have hoff : nodeOff m.node = a := hf _ (assocGet_some hm)
    intro p hp
    simp only [assocSet_of_some _ hm, List.mem_map] at hp
    obtain ⟨q, hq, rfl⟩ := hp
    by_cases hk : (q.1 == a) = true
    · simp only [hk, if_true]; exact hoff
    · simp only [hk]; exact hf q hq

/-- a cache entry that is dirty after a step was there before, under another key -/
theorem flushStep_dirty (s : Store) (a : Nat) (p : Nat × MNode) (hp : p ∈ (flushStep s a).mem)
    (hd : p.2.dirty = true) : p ∈ s.mem ∧ p.1 ≠ a := by
  unfold flushStep at hp
  cases hm : assocGet s.mem a with
  | none =>
    rw [hm] at hp
    exact ⟨hp, assocGet_none hm p hp⟩
  | some m =>
    rw [hm] at hp
    simp only [assocSet_of_some _ hm, List.mem_map] at hp
    obtain ⟨q, hq, rfl⟩ := hp
    by_cases hk : (q.1 == a) = true
    · simp only [hk, if_true] at hd
      cases hd
    · simp only [hk] at hd ⊢
      exact ⟨hq, by simpa using hk⟩

/-! ### the fold -/

theorem flushFold_hdr : ∀ (l : List Nat) (s : Store), (l.foldl flushStep s).hdr = s.hdr
  | [], _ => rfl
  | a :: l, s => by rw [List.foldl_cons, flushFold_hdr l, flushStep_hdr]
theorem flushFold_dhdr : ∀ (l : List Nat) (s : Store), (l.foldl flushStep s).dhdr = s.dhdr
  | [], _ => rfl
  | a :: l, s => by rw [List.foldl_cons, flushFold_dhdr l, flushStep_dhdr]
theorem flushFold_ghost : ∀ (l : List Nat) (s : Store), (l.foldl flushStep s).ghost = s.ghost
  | [], _ => rfl
  | a :: l, s => by rw [List.foldl_cons, flushFold_ghost l, flushStep_ghost]

theorem flushFold_filed : ∀ (l : List Nat) (s : Store), MemFiled s → MemFiled (l.foldl flushStep s)
  | [], _, h => h
  | a :: l, s, h => by rw [List.foldl_cons]; exact flushFold_filed l _ (flushStep_filed s h a)

theorem clr_clr (x : Option (Node × Bool)) : (x.map clr).map clr = x.map clr := by
  cases x <;> rfl

theorem flushFold_view : ∀ (l : List Nat) (s : Store), MemFiled s → ∀ o,
    view (l.foldl flushStep s) o = if o ∈ l then (view s o).map clr else view s o
  | [], _, _, _ => by simp only [List.foldl_nil, List.not_mem_nil, if_false]
  | a :: l, s, h, o => by
    rw [List.foldl_cons, flushFold_view l _ (flushStep_filed s h a) o, flushStep_view s h]
    by_cases ho : o = a
    · subst ho
      simp only [if_true, List.mem_cons, true_or, clr_clr, ite_self]
    · simp only [ho, if_false, List.mem_cons, false_or]

theorem flushFold_dirty : ∀ (l : List Nat) (s : Store) (p : Nat × MNode), p ∈ (l.foldl flushStep s).mem →
    p.2.dirty = true → p ∈ s.mem ∧ p.1 ∉ l
  | [], _, _, hp, _ => ⟨hp, List.not_mem_nil⟩
  | a :: l, s, p, hp, hd => by
    rw [List.foldl_cons] at hp
    obtain ⟨h1, h2⟩ := flushFold_dirty l _ p hp hd
    obtain ⟨h3, h4⟩ := flushStep_dirty s a p h1 hd
    refine ⟨h3, ?_⟩
    simp only [List.mem_cons, not_or]
    exact ⟨h4, h2⟩

/-- every key with a dirty cache entry is written -/
theorem mem_flushOrd (order : List Nat) (s : Store) (p : Nat × MNode) (hp : p ∈ s.mem)
    (hd : p.2.dirty = true) : p.1 ∈ flushOrd order s := by
  have hdo : p.1 ∈ (s.mem.filter fun p => p.2.dirty).map (·.1) :=
    List.mem_map.mpr ⟨p, List.mem_filter.mpr ⟨hp, hd⟩, rfl⟩
  unfold flushOrd
  rw [List.mem_append, List.mem_filter, List.mem_filter]
  by_cases ho : p.1 ∈ order
  · exact .inl ⟨ho, by simpa using hdo⟩
  · exact .inr ⟨hdo, by simpa using ho⟩

/-- a page seen dirty is dirty in the cache -/
theorem view_dirty {s : Store} {o : Nat} {n : Node} (h : view s o = some (n, true)) :
    ∃ m, assocGet s.mem o = some m ∧ m.node = n ∧ m.dirty = true := by
  unfold view at h
  cases hm : assocGet s.mem o with
  | some m =>
    rw [hm] at h
    simp only [Option.some.injEq, Prod.mk.injEq] at h
    exact ⟨m, rfl, h.1, h.2⟩
  | none =>
    rw [hm] at h
    simp only [Option.map_eq_some_iff, Prod.mk.injEq] at h
    obtain ⟨_, _, _, h'⟩ := h
    cases h'

/-! ### the flush -/

theorem flushPages_spec (order : List Nat) (s : Store) (hf : MemFiled s) :
    ∃ s', flushPages order s = .ok () s' ∧ s'.hdr = s.hdr ∧ s'.dhdr = s.hdr ∧ s'.ghost = s.ghost ∧ MemFiled s' ∧
      (∀ off, view s' off = (view s off).map fun x => (x.1, false)) ∧
      (∀ p ∈ s'.mem, p.2.dirty = false) := by
  refine ⟨_, flushPages_eq order s, flushFold_hdr _ s, flushFold_hdr _ s, flushFold_ghost _ s,
    flushFold_filed _ s hf, ?_, ?_⟩
  · intro off
    show view ((flushOrd order s).foldl flushStep s) off = (view s off).map clr
    rw [flushFold_view _ s hf]
    split
    · rfl
    · rename_i hno
      cases hv : view s off with
      | none => rfl
      | some x =>
        obtain ⟨n, d⟩ := x
        cases d with
        | false => rfl
        | true =>
          obtain ⟨m, hm, _, hd⟩ := view_dirty hv
          exact absurd (mem_flushOrd order s (off, m) (assocGet_some hm) hd) hno
  · intro p hp
    cases hd : p.2.dirty with
    | false => rfl
    | true =>
      obtain ⟨h1, h2⟩ := flushFold_dirty _ s p hp hd
      exact absurd (mem_flushOrd order s p h1 hd) h2

/-! ### what is on disk afterwards -/

theorem flushFold_disk : ∀ (l : List Nat) (s : Store), MemFiled s → ∀ o,
    assocGet (l.foldl flushStep s).disk o =
      if o ∈ l then (match assocGet s.mem o with | some m => some m.node | none => assocGet s.disk o)
      else assocGet s.disk o
  | [], _, _, _ => by simp only [List.foldl_nil, List.not_mem_nil, if_false]
  | a :: l, s, h, o => by
    rw [List.foldl_cons, flushFold_disk l _ (flushStep_filed s h a) o, flushStep_mem_get,
      flushStep_disk_get s h]
    by_cases ho : o = a
    · subst ho
      simp only [if_true, List.mem_cons, true_or]
      cases hm : assocGet s.mem o with
      | some m => simp only [Option.map_some, ite_self]
      | none => simp only [Option.map_none, ite_self]
    · simp only [ho, if_false, List.mem_cons, false_or]

/-- every page that was seen dirty is on disk after the flush; the disk image of a page that was
not cached is untouched -/
theorem flushPages_disk (order : List Nat) (s : Store) (hf : MemFiled s) :
    ∃ s', flushPages order s = .ok () s' ∧
      (∀ off n, view s off = some (n, true) → assocGet s'.disk off = some n) ∧
      (∀ off, assocGet s.mem off = none → assocGet s'.disk off = assocGet s.disk off) := by
  refine ⟨_, flushPages_eq order s, ?_, ?_⟩
  · intro off n hv
    obtain ⟨m, hm, hn, hd⟩ := view_dirty hv
    show assocGet ((flushOrd order s).foldl flushStep s).disk off = some n
    rw [flushFold_disk _ s hf, if_pos (mem_flushOrd order s (off, m) (assocGet_some hm) hd), hm]
    simp only [hn]
  · intro off hm
    show assocGet ((flushOrd order s).foldl flushStep s).disk off = assocGet s.disk off
    rw [flushFold_disk _ s hf, hm]
    simp only [ite_self]

end Mkdb.Store
