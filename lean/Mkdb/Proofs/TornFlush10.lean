import Mkdb.Proofs.TornFlush9
/-!
Torn flush without page allocation, part 10: **`Engine.recover` on the data file a torn flush leaves.**

* `Ckpt.torn_image`: from a checkpointed database, after a run of statements that allocated no page, the
  data file `tornFlush dbN.store order j` - the first `j` page writes of the flush done, the header not
  - holds the frozen catalog and, at every leaf offset, either the live page (written) or the page of the
  checkpoint (not written).
* **`Ckpt.torn_flush_round`**: `Engine.recover` on that data file with the complete log succeeds, and its
  result is a checkpointed database (`Ckpt`) for the plain database of all acknowledged statements - the
  same catalog description as after a crash in which nothing had been flushed.
-/
set_option autoImplicit false
namespace Mkdb.Store
open Mkdb.Page Mkdb.Tuple Mkdb.Generated Mkdb.Tree Mkdb.Engine

theorem reopen_tornFlush (s : Store) (order : List Nat) (j : Nat) :
    reopen (tornFlush s order j) = tornFlush s order j := rfl

theorem clean_sameNodes {t t' : Levels} (h : SameNodes t t') : clean t' = clean t := by
  unfold clean
  have hl : t'.leaves.map (fun p => (p.1, false)) = t.leaves.map (fun p => (p.1, false)) := by
    have := congrArg (List.map (fun l : Leaf => (l, false))) h.2
    simp only [List.map_map] at this
    exact this
  rw [hl, h.1]

theorem cleanT_fillT_sameC {cA cB : Pages} {D0 : List (Bytes × Levels)} (h : ∀ o, (cB o).1 = (cA o).1) :
    cleanT (fillT cB D0) = cleanT (fillT cA D0) := by
  unfold cleanT fillT
  simp only [List.map_map]
  apply List.map_congr_left
  intro e _
  simp only [Function.comp]
  rw [clean_sameNodes (sameNodes_fill (t := e.2) fun o _ => h o)]

/-- **A flush torn between two page writes, no page allocated since the checkpoint: recovery succeeds
and restores every acknowledged statement.**  `h`: the database `db` is checkpointed (everything
flushed, the log applied); `run`: any INSERT / UPDATE / DELETE statements the plain model accepts take it
to `dbN`; `hnf`: they allocated no page (no leaf split, no root move).  Then the flush (timer, shutdown)
writes the pages in the order `order` and the process dies before the `j`-th page write - for every
`order` and every `j`, also `j ≥ order.length`: all pages written, the header not.  `Engine.recover` on
that data file and the complete log succeeds; the log is kept; the result is a checkpointed database
for the plain database `sdbN` of ALL acknowledged statements, with the catalog description of the live
final store (cleaned) - exactly as after a crash with nothing flushed; the allocation frontier and the
catalog root are the live ones, the row-id counter is not behind the live one (nor behind any logged
INSERT: `Ckpt.keys`), the LSN counter is beyond every logged LSN. -/
theorem Ckpt.torn_flush_round {sch : Levels} {db dbN : Engine.DB} {sdb sdbN : Spec.SDB} {stmts : List EStmt}
    {pt : Levels} {tbls : List (Bytes × Levels)} (h : Ckpt sch db sdb pt tbls)
    (run : SpecRun sch db sdb stmts dbN sdbN) (hnf : dbN.store.hdr.nextFree = db.store.hdr.nextFree)
    (order : List Nat) (j : Nat) (o1 o2 : List Nat) :
    ∃ db' tblsL, Engine.recover { store := tornFlush dbN.store order j, wal := dbN.wal } o1 o2 = .ok db' ∧
      db'.wal = dbN.wal ∧ AbsV dbN.store pt sch tblsL sdbN ∧ Ckpt sch db' sdbN (clean pt) (cleanT tblsL) ∧
      db'.store.hdr.nextFree = dbN.store.hdr.nextFree ∧ dbN.store.hdr.lastKey ≤ db'.store.hdr.lastKey ∧
      db'.store.hdr.ptRoot = dbN.store.hdr.ptRoot ∧ dbN.store.hdr.nextLSN ≤ db'.store.hdr.nextLSN := by
  obtain ⟨_, hcs, _⟩ := h.disk.clean_eq
  obtain ⟨ptN, tblsN, stmtsM, logs, hrun, hw, hAN, _, hfN, hmfN, hlogN, _, hnext, _, hd1, hd2, _⟩ := h.run_facts run
  obtain ⟨sdb0, habs0, hv0⟩ := h.abs
  obtain ⟨sdbF, habsF, hvF⟩ := hAN
  obtain ⟨c, H, hc0, hN, hcatN, _, hlk, _⟩ := live_run_hist sch hrun pt habs0.cat h.fresh hnf
  have ept : ptN = pt := habsF.cat.pt_unique hcatN
  subst ept
  -- how much of the history each page of the torn file has seen
  obtain ⟨k, hkdef⟩ : ∃ k : Nat → Nat, ∀ o, k o =
      if o ∈ order.take j ∧ (assocGet dbN.store.mem o).isSome = true then logs.length else 0 := ⟨_, fun _ => rfl⟩
  have hk : ∀ o, k o ≤ logs.length := by
    intro o; rw [hkdef]; split
    · exact Nat.le_refl _
    · exact Nat.zero_le _
  have hmemN : ∀ {e0 : Bytes × Levels}, e0 ∈ tbls → (e0.1, fill (c logs.length) e0.2) ∈ tblsN := by
    intro e0 he0; rw [hN]; exact mem_fillT he0
  have hmem0 : ∀ {e0 : Bytes × Levels}, e0 ∈ tbls → (e0.1, fill (c 0) e0.2) ∈ tbls := by
    intro e0 he0
    have := mem_fillT (c := c 0) he0
    rw [hc0] at this
    exact this
  -- the torn data file holds the frozen catalog and the mixed leaf pages
  have hdisk : OnDisk (tornFlush dbN.store order j) ptN sch (fillT (img c k) tbls) := by
    intro x hx e he
    rcases mem_catTrees.mp hx with rfl | rfl | ⟨e1, he1, rfl⟩
    · obtain ⟨h1, h2⟩ := h.disk x Cat.pt_mem e he
      exact ⟨torn_disk_same hmfN ((hcatN.tree x Cat.pt_mem).1 e he) (by rw [hd1]; exact h1), h2⟩
    · obtain ⟨h1, h2⟩ := h.disk x Cat.sch_mem e he
      exact ⟨torn_disk_same hmfN ((hcatN.tree x Cat.sch_mem).1 e he) (by rw [hd1]; exact h1), h2⟩
    · obtain ⟨e0, he0, rfl⟩ := mem_fillT_inv he1
      have hH0 := h.disk _ (Cat.tb_mem (hmem0 he0))
      have hHN := (hcatN.tree _ (Cat.tb_mem (hmemN he0))).1
      rcases mem_flatten.mp he with ⟨p, hp, rfl⟩ | ⟨lvl, hlv, p, hp, rfl⟩
      · obtain ⟨o, ho, rfl⟩ := mem_fill_leaves hp
        refine ⟨?_, rfl⟩
        show assocGet _ (c (k o) o).1.off = some (Node.leaf (c (k o) o).1)
        rw [H.step_off (hk o) he0 ho]
        by_cases hW : o ∈ order.take j ∧ (assocGet dbN.store.mem o).isSome = true
        · have hko : k o = logs.length := by rw [hkdef, if_pos hW]
          rw [hko]
          have hv := holds_leaf hHN (fill_leaf_mem (c := c logs.length) ho)
          rw [H.step_off (Nat.le_refl _) he0 ho] at hv
          exact torn_disk_live hmfN hv hW
        · have hko : k o = 0 := by rw [hkdef, if_neg hW]
          rw [hko, torn_disk_unwritten hmfN hW, hd1]
          have hm : ((c 0 o).1.off, Node.leaf (c 0 o).1, (c 0 o).2) ∈ flatten (fill (c 0) e0.2) := by
            rw [mem_flatten]
            exact .inl ⟨c 0 o, fill_leaf_mem ho, rfl⟩
          have := (hH0 _ hm).1
          simp only at this
          rw [H.step_off (Nat.zero_le _) he0 ho] at this
          exact this
      · have hm0 : (p.1.off, Node.internal p.1, p.2) ∈ flatten (fill (c 0) e0.2) := by
          rw [mem_flatten]; exact .inr ⟨lvl, hlv, p, hp, rfl⟩
        have hmN : (p.1.off, Node.internal p.1, p.2) ∈ flatten (fill (c logs.length) e0.2) := by
          rw [mem_flatten]; exact .inr ⟨lvl, hlv, p, hp, rfl⟩
        obtain ⟨h1, h2⟩ := hH0 _ hm0
        exact ⟨torn_disk_same hmfN (hHN _ hmN) (by rw [hd1]; exact h1), h2⟩
  have hhT : (tornFlush dbN.store order j).hdr = db.store.hdr := by
    show dbN.store.dhdr = _
    rw [hd2, h.dhdr]
  -- the replay of the whole log
  obtain ⟨rN, ρ, eall, hcN, hnN, hcl, hdk, _, hmfR, hlsnR, hkeysR, hmonoR, hlsn0⟩ :=
    torn_image_replay H h.self k hk db.wal (by rw [hc0]; exact h.log) (tornFlush dbN.store order j) rfl hdisk
      (by rw [hhT]) (by rw [hhT]; exact habs0.cat.root)
      (by
        rcases hlk with e | ⟨r, hr, hop, hcell⟩
        · left; rw [hhT, e]; exact Nat.le_refl _
        · exact .inr ⟨r, List.mem_append_right _ hr, hop, hcell⟩)
  rw [← hw] at eall hlsnR hkeysR
  -- the description of the replayed store: the live pages, other dirty bits
  have hsameC : ∀ o, ((c logs.length o).1, ρ o).1 = (c logs.length o).1 := fun _ => rfl
  have hsame : SameT tblsN (fillT (fun o => ((c logs.length o).1, ρ o)) tbls) := by
    rw [hN]; exact sameT_fillT hsameC
  have hsame' : SameT (fillT (fun o => ((c logs.length o).1, ρ o)) tbls) tblsN := by
    rw [hN]; exact sameT_fillT (cA := fun o => ((c logs.length o).1, ρ o)) (cB := c logs.length) (fun _ => rfl)
  have htabs : AbsTables sch (fillT (fun o => ((c logs.length o).1, ρ o)) tbls) sdbF :=
    AbsTables.sameC (by rw [← hN]; exact habsF.tabs) (H.filed _ (Nat.le_refl _)) hsameC
  have hnx : dbN.store.hdr.nextLSN ≤ rN.hdr.nextLSN + 1 := by
    rcases hnext with h1 | ⟨r, hr, h1⟩
    · rw [h1, ← hhT]; omega
    · have := hlsnR r (by rw [hw]; exact List.mem_append_right _ hr); omega
  have hsy : Synced { rN with hdr := { rN.hdr with nextLSN := rN.hdr.nextLSN + 1 } } ptN sch
      (fillT (fun o => ((c logs.length o).1, ρ o)) tbls) := by
    intro x hx e he hd
    show assocGet rN.disk e.1 = _
    rw [hdk]
    rcases mem_catTrees.mp hx with rfl | rfl | ⟨e1, he1, rfl⟩
    · exact (hdisk x Cat.pt_mem e he).1
    · exact (hdisk x Cat.sch_mem e he).1
    · obtain ⟨e0, he0, rfl⟩ := mem_fillT_inv he1
      have hI := hdisk _ (Cat.tb_mem (mem_fillT (c := img c k) he0))
      rcases mem_flatten.mp he with ⟨p, hp, rfl⟩ | ⟨lvl, hlv, p, hp, rfl⟩
      · obtain ⟨o, ho, rfl⟩ := mem_fill_leaves hp
        simp only at hd ⊢
        rw [hcl o hd]
        have hm : ((c (k o) o).1.off, Node.leaf (c (k o) o).1, false) ∈ flatten (fill (img c k) e0.2) := by
          rw [mem_flatten]
          exact .inl ⟨img c k o, fill_leaf_mem ho, rfl⟩
        exact (hI _ hm).1
      · have hm : (p.1.off, Node.internal p.1, p.2) ∈ flatten (fill (img c k) e0.2) := by
          rw [mem_flatten]; exact .inr ⟨lvl, hlv, p, hp, rfl⟩
        exact (hI _ hm).1
  -- the cache right before recovery's flush: the final LSN bump
  have hcB : Cat { rN with hdr := { rN.hdr with nextLSN := rN.hdr.nextLSN + 1 } } ptN sch
      (fillT (fun o => ((c logs.length o).1, ρ o)) tbls) := hcN.raise rfl rfl rfl (Nat.le_refl _)
  have hmB : MemFiled { rN with hdr := { rN.hdr with nextLSN := rN.hdr.nextLSN + 1 } } := hmfR.of_mem_eq rfl
  -- the two flushes
  obtain ⟨s1, ef1, hh1, _⟩ := flushPages_spec o1 _ hmB
  have hk1 := ckpt_of_flushed (wal := dbN.wal) hcs ⟨sdbF, ⟨hcB, htabs⟩, hvF⟩ h.self
    ((hfN.sameNodes hsame).of_hdr hnx (by show _ ≤ rN.hdr.nextFree; rw [hnN, hnf]; exact Nat.le_refl _)) hmB
    (fun r hr => (hlogN r hr).sameNodes hsame')
    (fun r hr => by show r.lsn < rN.hdr.nextLSN + 1; have := hlsnR r hr; omega)
    (fun r hr hop => hkeysR r hr hop) hsy ef1
  obtain ⟨s2, ef2, hh2, _⟩ := flushPages_spec o2 s1 hk1.filed
  have hk2 := hk1.flush_again ef2
  rw [cleanT_fillT_sameC (cA := c logs.length) hsameC, ← hN] at hk2
  have eall' : replayAll dbN.wal (reopen (tornFlush dbN.store order j)) = (rN, none, false) := eall
  refine ⟨{ store := s2, wal := dbN.wal }, tblsN, ?_, rfl, ⟨sdbF, habsF, hvF⟩, hk2, ?_, ?_, ?_, ?_⟩
  · unfold Engine.recover
    simp only [eall', ef1, ef2]
  · show s2.hdr.nextFree = _; rw [hh2, hh1]; show rN.hdr.nextFree = _; rw [hnN, hnf]
  · show _ ≤ s2.hdr.lastKey; rw [hh2, hh1]; show _ ≤ rN.hdr.lastKey
    rcases hlk with e | ⟨r, hr, hop, hcell⟩
    · rw [e, ← hhT]; exact hmonoR
    · rw [← hcell]; exact hkeysR r (by rw [hw]; exact List.mem_append_right _ hr) hop
  · show s2.hdr.ptRoot = _; rw [hh2, hh1]; show rN.hdr.ptRoot = _
    rw [← hcN.root, ← hcatN.root]
  · show _ ≤ s2.hdr.nextLSN; rw [hh2, hh1]; exact hnx

end Mkdb.Store
