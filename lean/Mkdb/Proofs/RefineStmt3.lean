import Mkdb.Proofs.RefineStmt2
/-!
Refinement at the statement level, part 3: the B-tree insert touches no header field but the
allocation frontier (`Keeps`), and `btInsert` against `insertAppend` with the key and LSN counters.
-/
set_option autoImplicit false
namespace Mkdb.Store
open Mkdb.Page Mkdb.Tuple Mkdb.Generated Mkdb.Tree

/-- the header fields a B-tree operation has no business with -/
def hrest (s : Store) : Nat × Nat × Nat := (s.hdr.lastKey, s.hdr.ptRoot, s.hdr.nextLSN)

/-- `m` leaves the row-id counter, the page-table root and the LSN counter alone -/
def Keeps {α} (m : SM α) : Prop :=
  ∀ s, match m s with
    | .ok _ s' => hrest s' = hrest s
    | .err _ s' => hrest s' = hrest s
    | _ => True

theorem Keeps.ok {α} {m : SM α} (h : Keeps m) {s s' : Store} {a : α} (e : m s = .ok a s') :
    hrest s' = hrest s := by have := h s; rw [e] at this; exact this

theorem Keeps.err {α} {m : SM α} (h : Keeps m) {s s' : Store} {x : SErr} (e : m s = .err x s') :
    hrest s' = hrest s := by have := h s; rw [e] at this; exact this

theorem Keeps.pure {α} (a : α) : Keeps (pure a : SM α) := fun _ => rfl
theorem Keeps.throw {α} (e : SErr) : Keeps (throw e : SM α) := fun _ => rfl
theorem Keeps.panicS {α} (w : String) : Keeps (panicS w : SM α) := fun _ => trivial
theorem Keeps.unmodelledS {α} (w : String) : Keeps (unmodelledS w : SM α) := fun _ => trivial
theorem Keeps.outOfFuel {α} : Keeps (outOfFuel : SM α) := fun _ => trivial

theorem Keeps.bind {α β} {m : SM α} {f : α → SM β} (hm : Keeps m) (hf : ∀ a, Keeps (f a)) :
    Keeps (m >>= f) := by
  intro s
  rw [bind_def]
  cases e : m s with
  | ok a s1 =>
    have h1 := hm.ok e
    have h2 := hf a s1
    simp only
    cases e2 : f a s1 with
    | ok b s2 => rw [e2] at h2; exact h2.trans h1
    | err x s2 => rw [e2] at h2; exact h2.trans h1
    | panic p => trivial
    | unmodelled w => trivial
    | fuel => trivial
  | err x s1 => exact hm.err e
  | panic p => trivial
  | unmodelled w => trivial
  | fuel => trivial

theorem Keeps.fetch (off : Nat) : Keeps (fetch off) := by
  intro s
  unfold Store.fetch
  cases assocGet s.mem off <;> rfl

theorem Keeps.putNode (n : Node) (d : Option Bool) : Keeps (putNode n d) := fun _ => rfl

theorem Keeps.markDirty (off lsn : Nat) : Keeps (markDirty off lsn) := by
  intro s
  unfold Store.markDirty
  cases assocGet s.mem off
  · trivial
  · rfl

theorem Keeps.appendNode (n : Node) (d : Bool) : Keeps (appendNode n d) := fun _ => rfl

theorem Keeps.ite {α} {c : Prop} [Decidable c] {a b : SM α} (ha : Keeps a) (hb : Keeps b) :
    Keeps (if c then a else b) := by
  split
  · exact ha
  · exact hb

theorem Keeps.leafSplitUp (parent : Option Nat) (curOff newOff newKey lsn root : Nat) :
    Keeps (leafSplitUp parent curOff newOff newKey lsn root) := by
  unfold Store.leafSplitUp
  cases parent with
  | none =>
    exact (Keeps.appendNode _ _).bind fun _ => (Keeps.markDirty _ _).bind fun _ =>
      (Keeps.markDirty _ _).bind fun _ => (Keeps.markDirty _ _).bind fun _ => Keeps.pure _
  | some pOff =>
    refine (Keeps.fetch _).bind fun p => ?_
    cases p with
    | leaf l => exact Keeps.panicS _
    | internal pn =>
      simp only
      cases pn.cells.getLast? with
      | none => exact Keeps.panicS _
      | some last =>
        simp only
        exact Keeps.ite ((Keeps.putNode _ _).bind fun _ => (Keeps.markDirty _ _).bind fun _ =>
          (Keeps.markDirty _ _).bind fun _ => (Keeps.markDirty _ _).bind fun _ => Keeps.pure _)
          (Keeps.unmodelledS _)

theorem Keeps.leafSplit (parent : Option Nat) (cur1 : Leaf) (lsn root : Nat) :
    Keeps (leafSplit parent cur1 lsn root) := by
  unfold Store.leafSplit
  exact (Keeps.appendNode _ _).bind fun _ => (Keeps.putNode _ _).bind fun _ =>
    (Keeps.putNode _ _).bind fun _ => Keeps.leafSplitUp _ _ _ _ _ _

theorem Keeps.insertLeaf (parent : Option Nat) (cur : Leaf) (key lsn : Nat) (value : Bytes) (root : Nat) :
    Keeps (insertLeaf parent cur key lsn value root) := by
  rw [insertLeaf_eq]
  exact Keeps.ite (Keeps.throw _) (Keeps.ite (Keeps.throw _) (Keeps.ite (Keeps.unmodelledS _)
    (Keeps.ite (Keeps.unmodelledS _)
    ((Keeps.putNode _ _).bind fun _ => Keeps.ite (Keeps.pure _) (Keeps.leafSplit _ _ _ _)))))

theorem Keeps.intSplitUp (parent : Option Nat) (curOff newOff midKey lsn root1 : Nat) :
    Keeps (intSplitUp parent curOff newOff midKey lsn root1) := by
  unfold Store.intSplitUp
  cases parent with
  | none =>
    exact (Keeps.appendNode _ _).bind fun _ => (Keeps.markDirty _ _).bind fun _ =>
      (Keeps.markDirty _ _).bind fun _ => Keeps.pure _
  | some pOff =>
    refine (Keeps.fetch _).bind fun p => ?_
    cases p with
    | leaf l => exact Keeps.panicS _
    | internal pn =>
      exact (Keeps.putNode _ _).bind fun _ => (Keeps.markDirty _ _).bind fun _ =>
        (Keeps.markDirty _ _).bind fun _ => Keeps.pure _

theorem Keeps.afterChild (parent : Option Nat) (curOff lsn root1 : Nat) :
    Keeps (afterChild parent curOff lsn root1) := by
  unfold Store.afterChild
  refine (Keeps.fetch _).bind fun me => ?_
  cases me with
  | leaf l => exact Keeps.panicS _
  | internal c1 =>
    exact Keeps.ite (Keeps.pure _) ((Keeps.appendNode _ _).bind fun _ => (Keeps.putNode _ _).bind fun _ =>
      Keeps.intSplitUp _ _ _ _ _ _)

theorem Keeps.insertInternal : ∀ (fuel : Nat) (parent : Option Nat) (cur : Internal) (key lsn : Nat)
    (value : Bytes) (root : Nat), Keeps (insertInternal fuel parent cur key lsn value root)
  | 0, _, _, _, _, _, _ => Keeps.outOfFuel
  | fuel+1, parent, cur, key, lsn, value, root => by
    rw [insertInternal_eq]
    refine Keeps.ite (Keeps.throw _) ((Keeps.fetch _).bind fun child => ?_)
    cases child with
    | leaf l => exact (Keeps.insertLeaf _ _ _ _ _ _).bind fun _ => Keeps.afterChild _ _ _ _
    | internal i =>
      exact (Keeps.insertInternal fuel _ _ _ _ _ _).bind fun _ => Keeps.afterChild _ _ _ _

theorem Keeps.insertKeyHeap (bt : BT) (key lsn : Nat) (value : Bytes) :
    Keeps (Store.insertKeyHeap bt key lsn value) := by
  have hkh : Store.insertKeyHeap bt key lsn value =
      (Store.fetch bt.root >>= fun pg =>
        match pg with
        | .leaf l => Store.insertLeaf none l key lsn value bt.root >>= fun r => Pure.pure (⟨r⟩ : BT)
        | .internal i => Store.insertInternal treeFuel none i key lsn value bt.root >>= fun r => Pure.pure (⟨r⟩ : BT)) := rfl
  rw [hkh]
  refine (Keeps.fetch _).bind fun pg => ?_
  cases pg with
  | leaf l => exact (Keeps.insertLeaf _ _ _ _ _ _).bind fun _ => Keeps.pure _
  | internal i => exact (Keeps.insertInternal _ _ _ _ _ _ _).bind fun _ => Keeps.pure _

/-! ### `btInsert` -/

/-- a key above every key of the tree, with a value that fits, is accepted by the levels insert -/
theorem insertAppend_fresh (t : Levels) (nf key lsn : Nat) (value : Bytes) (hI : Inv t nf)
    (hk : ∀ a ∈ keys t, a < key) (hv : value.length ≤ c_maxValueSize) :
    ∃ r, insertAppend t key lsn value nf = .ok r := by
  have hne : t.leaves ≠ [] := by
    intro h
    have := linked_below_ne t.inner _ hI.link
    rw [h] at this
    exact this rfl
  obtain ⟨lpre, ⟨last, d⟩, hpre⟩ : ∃ lpre x, t.leaves = lpre ++ [x] := by
    rcases eq_nil_or_snoc t.leaves with h | h
    · exact absurd h hne
    · exact h
  have hlast : t.leaves.getLast? = some (last, d) := by rw [hpre]; exact List.getLast?_concat
  have hany : (cells t).any (fun c => c.key == key) = false := by
    rw [List.any_eq_false]
    intro c hc hck
    have := hk c.key (List.mem_map.mpr ⟨c, hc, rfl⟩)
    simp only [beq_iff_eq] at hck
    omega
  have hnot : ((last.cells.getLast?.map (·.key)).getD 0 ≥ key && !last.cells.isEmpty) = false := by
    rcases eq_nil_or_snoc last.cells with h | ⟨cs, c, h⟩
    · simp [h]
    · have hc : c ∈ cells t := List.mem_flatMap.mpr ⟨(last, d), by simp [hpre], by simp [h]⟩
      have := hk c.key (List.mem_map.mpr ⟨c, hc, rfl⟩)
      simp only [h, List.getLast?_concat, Option.map_some, Option.getD_some, ge_iff_le, Bool.and_eq_false_imp,
        decide_eq_true_eq]
      intro hle
      omega
  unfold insertAppend
  simp only [hlast, hany, Bool.false_eq_true, if_false, gt_iff_lt, Nat.not_lt.mpr hv, hnot]
  split <;> exact ⟨_, rfl⟩

theorem hrest_eq {s s' : Store} (h : hrest s' = hrest s) :
    s'.hdr.lastKey = s.hdr.lastKey ∧ s'.hdr.ptRoot = s.hdr.ptRoot ∧ s'.hdr.nextLSN = s.hdr.nextLSN := by
  unfold hrest at h
  simp only [Prod.mk.injEq] at h
  exact h

/-- the counters after an insert attempt -/
def bumpCounters (s : Store) : Store :=
  { s with hdr := { s.hdr with lastKey := s.hdr.lastKey + 1, nextLSN := s.hdr.nextLSN + 1 } }

/-- `BTree.insert` with the next row id on a held tree all of whose keys have been issued: the
levels insert succeeds and the heap follows it; the counters advance -/
theorem btInsert_refines (s : Store) (t : Levels) (buf : Bytes) (hH : Holds s t) (hI : Inv t s.hdr.nextFree)
    (hd : t.inner.length + 2 ≤ treeFuel) (hk : ∀ a ∈ keys t, a ≤ s.hdr.lastKey)
    (hv : buf.length ≤ c_maxValueSize) :
    ∃ t' nf' s', insertAppend t (s.hdr.lastKey + 1) s.hdr.nextLSN buf s.hdr.nextFree = .ok (t', nf') ∧
      btInsert ⟨rootOff t⟩ buf s = .ok (⟨rootOff t'⟩, s.hdr.lastKey + 1, s.hdr.nextLSN) s' ∧
      Holds s' t' ∧ s'.hdr.nextFree = nf' ∧ s'.hdr.lastKey = s.hdr.lastKey + 1 ∧
      s'.hdr.nextLSN = s.hdr.nextLSN + 1 ∧ s'.hdr.ptRoot = s.hdr.ptRoot ∧
      ∀ off, off ∉ offs t' → view s' off = view s off := by
  obtain ⟨⟨t', nf'⟩, hins⟩ := insertAppend_fresh t s.hdr.nextFree (s.hdr.lastKey + 1) s.hdr.nextLSN buf hI
    (fun a ha => Nat.lt_succ_of_le (hk a ha)) hv
  obtain ⟨s1, e1, hH1, hn1, hfr⟩ := insertKeyHeap_refines s t _ _ buf hH hI (by omega) t' nf' hins
  obtain ⟨k1, k2, k3⟩ := hrest_eq ((Keeps.insertKeyHeap _ _ _ _).ok e1)
  refine ⟨t', nf', bumpCounters s1, hins, ?_, ?_, ?_⟩
  · have hik := insertKey_eq_insertKeyHeap s t _ _ buf hH hI hd (.inl ⟨_, hins⟩)
    rw [e1] at hik
    unfold btInsert
    simp only [hik]
    rfl
  · exact fun e he => hH1 e he
  · exact ⟨hn1, by show s1.hdr.lastKey + 1 = _; rw [k1], by show s1.hdr.nextLSN + 1 = _; rw [k3], k2, hfr⟩

end Mkdb.Store
