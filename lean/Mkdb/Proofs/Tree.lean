import Mkdb.Proofs.Tree1
import Mkdb.Proofs.Tree2
import Mkdb.Proofs.Tree3
import Mkdb.Proofs.Tree4
import Mkdb.Proofs.Tree5
/-!
The levels model of the B+ tree: summary and non-vacuity.

* `Tree1`: `cells_insertAppend`, `emptyTree_inv`, inversion lemmas for `insertAppend` / `bubble`
* `Tree2`: `bubble` clause by clause (`bubble_cap`, `bubble_link`, `bubble_seps`, `bubble_offs`)
* `Tree3`: `insertAppend_inv` (assembled from one lemma per clause), `insertAppend_nextFree`
* `Tree4`: `cells_setVal`, `cells_setDeleted`, `setVal_inv`, `setDeleted_inv`, `live_setDeleted`
* `Tree5`: `lookup_finds`
-/
namespace Mkdb.Tree
open Mkdb.Page Mkdb.Generated

/-- insert the keys in order, starting from `(t, nf)` -/
def insertMany (ks : List Nat) (t : Levels) (nf : Nat) : Except InsErr (Levels × Nat) :=
  ks.foldlM (fun (s : Levels × Nat) k => insertAppend s.1 k 0 [] s.2) (t, nf)

/-- the invariant survives any successful run of appends -/
theorem insertMany_inv (ks : List Nat) : ∀ (t t' : Levels) (nf nf' : Nat), Inv t nf →
    insertMany ks t nf = .ok (t', nf') → Inv t' nf' ∧ nf ≤ nf' ∧
      cells t' = cells t ++ ks.map (fun k => ⟨k, false, []⟩) := by
  induction ks with
  | nil =>
    intro t t' nf nf' hinv h
    simp only [insertMany, List.foldlM_nil, pure, Except.pure, Except.ok.injEq, Prod.mk.injEq] at h
    obtain ⟨rfl, rfl⟩ := h
    exact ⟨hinv, Nat.le_refl _, by simp⟩
  | cons k ks ih =>
    intro t t' nf nf' hinv h
    simp only [insertMany, List.foldlM_cons, bind, Except.bind] at h
    split at h
    · cases h
    · rename_i s hs
      obtain ⟨t1, nf1⟩ := s
      have h1 := insertAppend_inv t t1 k 0 nf nf1 [] hinv hs
      have h2 := insertAppend_nextFree t t1 k 0 nf nf1 [] hs
      have h3 := cells_insertAppend t t1 k 0 nf nf1 [] hs
      obtain ⟨i1, i2, i3⟩ := ih t1 t' nf1 nf' h1 h
      exact ⟨i1, by omega, by rw [i3, h3]; simp⟩

/-- Non-vacuity 1: a concrete tree with two leaves under one internal node satisfies `Inv`. -/
def sampleTree : Levels :=
  { leaves := [(⟨4096, 0, false, true, 0, 8192, [⟨1, false, []⟩, ⟨2, false, []⟩]⟩, false),
               (⟨8192, 0, true, false, 4096, 0, [⟨3, false, []⟩, ⟨4, true, []⟩]⟩, false)],
    inner := [[(⟨12288, 0, 8192, [⟨3, 4096⟩]⟩, false)]] }

example : Inv sampleTree 16384 := by
  refine ⟨?_, ?_, ?_, ?_, ?_, ?_, ?_⟩
  · unfold CapOK sampleTree; decide
  · unfold KeysAsc keys cells sampleTree; decide
  · unfold LeavesNonempty sampleTree; decide
  · simp [ChainOK, chainFrom, sampleTree]
  · simp [LinkOK, linked, childOffs, sampleTree]
  · simp [SepsOK, sepsAll, sepsOK, sampleTree]
  · unfold OffsOK offs flatten sampleTree; decide

/-- Non-vacuity 2: inserting the keys 1..20 into the empty tree succeeds, yields 20 cells in
key order, and forces leaf splits and a root (3 leaves of 4 cells and one of 8 under one internal node). -/
example : (insertMany (List.range' 1 20) (emptyTree 4096) 8192).toOption.map
    (fun r => ((cells r.1).map (·.key), r.1.leaves.map (·.1.cells.length), r.1.inner.map (·.length), r.2)) =
    some (List.range' 1 20, [4, 4, 4, 8], [1], 8192 + 4 * 4096) := by decide

/-- …and the resulting tree (4 leaves, one internal level) satisfies the invariant — by the
theorems, not by evaluation. -/
example : ∃ t nf, insertMany (List.range' 1 20) (emptyTree 4096) 8192 = .ok (t, nf) ∧ Inv t nf ∧
    t.leaves.length = 4 ∧ t.inner.length = 1 ∧ (cells t).length = 20 := by
  have hs : (insertMany (List.range' 1 20) (emptyTree 4096) 8192).toOption.map
      (fun r => (r.1.leaves.length, r.1.inner.length)) = some (4, 1) := by decide
  cases h : insertMany (List.range' 1 20) (emptyTree 4096) 8192 with
  | error e => rw [h] at hs; simp [Except.toOption] at hs
  | ok r =>
    obtain ⟨t, nf⟩ := r
    rw [h] at hs
    simp only [Except.toOption, Option.map_some, Option.some.injEq, Prod.mk.injEq] at hs
    obtain ⟨i1, _, i3⟩ := insertMany_inv _ _ _ _ _ (emptyTree_inv 4096 8192 (by decide)) h
    exact ⟨t, nf, rfl, i1, hs.1, hs.2, by rw [i3]; simp [cells, emptyTree]⟩

end Mkdb.Tree
