import Mkdb.Proofs.SessionInv6
/-!
Session invariant, part 7: **restart**, and histories.

* `restart_sessAbs`: for a session that satisfies the invariant, `Session.restart` - close (flush) the
  selected database, run start-up recovery on every database, re-open - succeeds: no recovery fails; the
  session after it has the same database names, no selection, and abstracts to THE SAME plain databases
  `w`: every database holds the same tables with the same rows, and (the invariant holds again) accepts
  statements as before.
* `SessOK s sts`: the side conditions `StmtSide` along a history.
-/
set_option autoImplicit false
namespace Mkdb.Session
open Mkdb.Engine Mkdb.Store Mkdb.Sql Mkdb.Tree

/-- start-up recovery of a list of closed databases: none fails, each comes back closed for the same
plain database -/
theorem restart_go_ok (w : String → Spec.SDB) : ∀ (l : List (String × DB)),
    (∀ p ∈ l, ∃ pt sch tbls, DbFlushed p.2 (w p.1) pt sch tbls) →
    ∃ l', restart.go l = some l' ∧ l'.map (·.1) = l.map (·.1) ∧
      ∀ p ∈ l', ∃ pt sch tbls, DbFlushed p.2 (w p.1) pt sch tbls
  | [], _ => ⟨[], rfl, rfl, fun _ h => by cases h⟩
  | (n, db) :: rest, h => by
    obtain ⟨pt, sch, tbls, hk⟩ := h (n, db) List.mem_cons_self
    obtain ⟨db', e, _, hk'⟩ := hk.recover [] []
    obtain ⟨l', e2, hn, hl⟩ := restart_go_ok w rest (fun p hp => h p (List.mem_cons_of_mem _ hp))
    refine ⟨(n, { db' with store := reopen db'.store }) :: l', ?_, ?_, ?_⟩
    · simp only [restart.go, e, e2, Option.map_some]
    · simp only [List.map_cons, hn]
    · intro p hp
      rcases List.mem_cons.mp hp with rfl | hp
      · exact ⟨pt, sch, tbls, hk'.reopen⟩
      · exact hl p hp

/-- the session with the selected database closed (the first step of `restart`) -/
def closeCur (s : Sess) : Sess :=
  match s.cur with
  | some c => (match getDB s c with
    | some db => (match flush db [] with | .ok _ db' => setDB s c db' | _ => s)
    | none => s)
  | none => s

theorem restart_eq (s : Sess) :
    restart s = (restart.go (closeCur s).dbs).map fun dbs => { dbs := dbs, cur := none } := rfl

/-- closing the selected database: same names, every database closed for the same plain database -/
theorem closeCur_closed {s : Sess} {w : String → Spec.SDB} (h : SessAbs s w) :
    names (closeCur s) = names s ∧
      ∀ p ∈ (closeCur s).dbs, ∃ pt sch tbls, DbFlushed p.2 (w p.1) pt sch tbls := by
  unfold closeCur
  cases hc : s.cur with
  | none =>
    refine ⟨rfl, fun p hp => ?_⟩
    obtain ⟨pt, sch, tbls, _, h2⟩ := h.dbs p hp
    exact ⟨pt, sch, tbls, h2 (by rw [hc]; simp)⟩
  | some c =>
    cases hg : getDB s c with
    | none =>
      have := h.cur c hc
      rw [hg] at this
      cases this
    | some db =>
      obtain ⟨pt, sch, tbls, hi, _⟩ := h.dbs (c, db) (getDB_mem hg)
      obtain ⟨db1, e, _, hk⟩ := hi.flush []
      simp only at e hk
      simp only [hg, e]
      refine ⟨by rw [names_setDB, hg]; rfl, fun p hp => ?_⟩
      rcases mem_setDB hp with rfl | ⟨hp', hne⟩
      · exact ⟨_, _, _, hk⟩
      · obtain ⟨pt0, sch0, tbls0, _, h2⟩ := h.dbs p hp'
        exact ⟨pt0, sch0, tbls0, h2 (by rw [hc]; exact fun heq => hne (Option.some.inj heq).symm)⟩

/-- **Restart preserves every database.** -/
theorem restart_sessAbs {s : Sess} {w : String → Spec.SDB} (h : SessAbs s w) :
    ∃ s', restart s = some s' ∧ SessAbs s' w ∧ names s' = names s ∧ s'.cur = none ∧
      ∀ p ∈ s'.dbs, ∃ pt sch tbls, DbFlushed p.2 (w p.1) pt sch tbls := by
  obtain ⟨hnames, hall⟩ := closeCur_closed h
  obtain ⟨l', e, hn, hl⟩ := restart_go_ok w (closeCur s).dbs hall
  refine ⟨{ dbs := l', cur := none }, ?_, ⟨?_, (fun _ hc => by cases hc), ?_⟩, ?_, rfl, hl⟩
  · rw [restart_eq, e]; rfl
  · intro p hp
    obtain ⟨pt, sch, tbls, hk⟩ := hl p hp
    exact ⟨pt, sch, tbls, hk.inv, fun _ => hk⟩
  · show (l'.map (·.1)).Nodup
    rw [hn]
    show (names (closeCur s)).Nodup
    rw [hnames]; exact h.nodup
  · show l'.map (·.1) = names s
    rw [hn]; exact hnames

/-- the side conditions of the statement-level theorems along a history -/
def SessOK : Sess → List Sql.Stmt → Prop
  | _, [] => True
  | s, st :: rest => StmtSide s st ∧ SessOK (exec s st).1 rest

end Mkdb.Session
