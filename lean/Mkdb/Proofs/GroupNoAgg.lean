import Mkdb.Proofs.NoPanicExec
/-!
C07: GROUP BY without an aggregate in the select list (`SELECT a FROM t GROUP BY a`).

`aggregateRows` takes the grouping path whenever there is a GROUP BY, whether or not the select
list holds an aggregate.  Without aggregates every cell of an output row is read from the first
row of its group, so the output is: the first input row of every distinct grouping key, in order
of first occurrence (`aggregateRows_group_no_aggr_eq`, `aggregateRows_group_no_aggr`).
-/
namespace Mkdb.Exec.GroupNoAggP
open Mkdb.Sql Mkdb.Exec.AggP Mkdb.Exec.NoPanicP

/-- the grouping key of a projected row: its values at the GROUP BY positions (a missing value
counts as NULL), exactly the expression `aggregateRows` groups by -/
def groupKey (idxs : List Nat) (r : Row) : List Val := idxs.map fun i => (r[i]?).getD .null

theorem mapX_eq_ok_map {α β} {f : α → X β} (g : α → β) :
    ∀ l : List α, (∀ a ∈ l, f a = .ok (g a)) → mapX f l = .ok (l.map g)
  | [], _ => rfl
  | a :: rest, h => by
    unfold mapX
    rw [h a (List.mem_cons_self ..),
      mapX_eq_ok_map g rest (fun a' ha' => h a' (List.mem_cons_of_mem _ ha'))]
    rfl

theorem mapX_ok_of_forall {α β} {f : α → X β} :
    ∀ l : List α, (∀ a ∈ l, ∃ b, f a = .ok b) → ∃ bs, mapX f l = .ok bs
  | [], _ => ⟨[], rfl⟩
  | a :: rest, h => by
    obtain ⟨b, hb⟩ := h a (List.mem_cons_self ..)
    obtain ⟨bs, hbs⟩ := mapX_ok_of_forall rest (fun a' ha' => h a' (List.mem_cons_of_mem _ ha'))
    refine ⟨b :: bs, ?_⟩
    unfold mapX
    rw [hb, hbs]
    rfl

/-- every GROUP BY reference designates a select-list column: the positions resolve -/
theorem groupIdxs_ok {sl : List DerivedCol} {groupBy : List ColRef}
    (hres : ∀ g ∈ groupBy, ∃ i, groupIdx sl g = some i) : ∃ idxs, groupIdxs sl groupBy = .ok idxs := by
  unfold groupIdxs
  apply mapX_ok_of_forall
  intro g hg
  obtain ⟨i, hi⟩ := hres g hg
  exact ⟨i, by rw [hi]; rfl⟩

theorem range_map_getD {r : Row} {n : Nat} (h : r.length = n) :
    (List.range n).map (fun i => (r[i]?).getD .null) = r := by
  apply List.ext_getElem?
  intro i
  by_cases hi : i < n
  · rw [List.getElem?_map, List.getElem?_range hi, Option.map_some,
      List.getElem?_eq_getElem (by omega), Option.getD_some]
  · rw [List.getElem?_eq_none (by simp; omega), List.getElem?_eq_none (by omega)]

/-- a cell of a non-aggregate item is the value of the first row of the group -/
theorem aggCell_no_aggr {d : DerivedCol} {i : Nat} {g : Group} {r : Row}
    (hd : hasAggr [d] = false)
    (hr : g.rows.head? = some r) (hi : i < r.length) :
    aggCell d.item i g = .ok ((r[i]?).getD .null) := by
  have hget : r[i]? = some r[i] := List.getElem?_eq_getElem hi
  unfold aggCell
  split
  · rename_i e; simp [hasAggr, e] at hd
  · rename_i e; simp [hasAggr, e] at hd
  · rw [hr]
    simp only [hget, Option.getD_some]
    rfl

/-- without aggregates the output row of a group is its first row -/
theorem aggRow_no_aggr {sl : List DerivedCol} (hagg : hasAggr sl = false) {g : Group} {r : Row}
    (hr : g.rows.head? = some r) (hlen : r.length = sl.length) :
    mapX (fun (p : Nat × DerivedCol) => aggCell p.2.item p.1 g) ((List.range sl.length).zip sl)
      = .ok r := by
  rw [mapX_eq_ok_map (fun p => (r[p.1]?).getD .null)]
  · have hmm : ((List.range sl.length).zip sl).map (fun p => (r[p.1]?).getD Tuple.Val.null)
        = (((List.range sl.length).zip sl).map Prod.fst).map (fun i => (r[i]?).getD .null) := by
      rw [List.map_map]; rfl
    rw [hmm, List.map_fst_zip (by simp), range_map_getD hlen]
  · rintro ⟨i, d⟩ hp
    have hi : i < sl.length := List.mem_range.mp (List.of_mem_zip hp).1
    have hd := (List.any_eq_false.mp hagg) d (List.of_mem_zip hp).2
    have hd' : hasAggr [d] = false := by
      simp only [hasAggr, List.any_cons, List.any_nil, Bool.or_false]
      exact Bool.eq_false_iff.mpr hd
    exact aggCell_no_aggr hd' hr (by omega)

/-- the positions `aggregateRows` resolves the GROUP BY references to are select-list positions -/
theorem groupIdxs_lt {sl : List DerivedCol} {groupBy : List ColRef} {idxs : List Nat}
    (h : groupIdxs sl groupBy = .ok idxs) : ∀ i ∈ idxs, i < sl.length := by
  intro i hi
  have hw := mapX_wp (E := NoP) (fun (_ : ColRef) (i : Nat) => i < sl.length)
    (fun g => match groupIdx sl g with | some i => pure i | none => X.err .groupByNotSelected) groupBy
    (by
      intro g _
      split
      · rename_i j hj
        unfold groupIdx at hj
        exact List.mem_range.1 (List.mem_of_find?_eq_some hj)
      · trivial)
  obtain ⟨_, _, hlt⟩ := (hw.of_ok h).2 i hi
  exact hlt

/-- after a select list that starts with `*` (rows not projected) and holds no aggregate, the loop
touches no cell: the output row of a group is its first row too -/
theorem aggStarRow_no_aggr (g : Group) : ∀ (l : List (Nat × DerivedCol)) (out : Row),
    (∀ p ∈ l, hasAggr [p.2] = false) → aggStarRow g l out = .ok out
  | [], _, _ => rfl
  | (i, d) :: rest, out, h => by
    have hd := h (i, d) (List.mem_cons_self ..)
    unfold aggStarRow
    split
    · rename_i e; simp [hasAggr, e] at hd
    · rename_i e; simp [hasAggr, e] at hd
    · exact aggStarRow_no_aggr g rest out (fun p hp => h p (List.mem_cons_of_mem _ hp))

/-- **the result, as a function of the input**: the first row of every group -/
theorem aggregateRows_group_no_aggr_eq {sl : List DerivedCol} {groupBy : List ColRef}
    {rows : List Row} {idxs : List Nat} (hagg : hasAggr sl = false) (hne : groupBy ≠ [])
    (hidx : groupIdxs sl groupBy = .ok idxs) (hlen : ∀ r ∈ rows, r.length = sl.length) :
    aggregateRows sl groupBy rows =
      .ok ((groupsOf (groupKey idxs) rows).map fun g => g.rows.headD []) := by
  have hgb : groupBy.isEmpty = false := by
    cases groupBy with
    | nil => exact absurd rfl hne
    | cons _ _ => rfl
  unfold aggregateRows
  simp only [hgb, Bool.and_false, Bool.false_and, Bool.false_eq_true, if_false]
  have hbind : ∀ (m : X (List Nat)) (f : List Nat → X (List Row)),
      m = .ok idxs → (m >>= f) = f idxs := by
    intro m f h; rw [h]; rfl
  refine (hbind _ _ hidx).trans ?_
  split
  · -- `*, …` without an aggregate: the rows are not projected, the group key stays within them
    unfold aggregateStar
    have hany : (rows.any fun r => idxs.any fun i => decide (r.length ≤ i)) = false := by
      rw [List.any_eq_false]
      intro r hr
      rw [Bool.not_eq_true, List.any_eq_false]
      intro i hi
      have := groupIdxs_lt hidx i hi
      rw [hlen r hr]
      simp only [decide_eq_true_eq]
      omega
    rw [hany]
    simp only [Bool.false_eq_true, if_false]
    show mapX _ (groupsOf (groupKey idxs) rows) = _
    apply mapX_eq_ok_map
    intro g _
    apply aggStarRow_no_aggr
    intro p hp
    have hd := (List.any_eq_false.mp hagg) p.2 (List.of_mem_zip hp).2
    simp only [hasAggr, List.any_cons, List.any_nil, Bool.or_false]
    exact Bool.eq_false_iff.mpr hd
  show mapX _ (groupsOf (groupKey idxs) rows) = _
  apply mapX_eq_ok_map
  intro g hg
  obtain ⟨hmem, hnil⟩ := groups_rows_mem (groupKey idxs) rows g hg
  cases hrows : g.rows with
  | nil => exact absurd hrows hnil
  | cons r rest =>
    have hr : g.rows.head? = some r := by rw [hrows]; rfl
    have hrm : r ∈ rows := hmem r (by rw [hrows]; exact List.mem_cons_self ..)
    rw [aggRow_no_aggr hagg hr (hlen r hrm)]
    rfl

/-- **C07, GROUP BY without an aggregate** (`SELECT a FROM t GROUP BY a`): the result has exactly
one row per distinct grouping key of the input: (1) the keys of the output rows are pairwise
distinct, (2) the output keys are exactly the input keys, (3) every output row is an input row -
the first one with its key; and (4) the output rows come in order of first occurrence of their
key. -/
theorem aggregateRows_group_no_aggr (sl : List DerivedCol) (groupBy : List ColRef)
    (rows : List Row) (hagg : hasAggr sl = false) (hne : groupBy ≠ [])
    (hres : ∀ g ∈ groupBy, ∃ i, groupIdx sl g = some i)
    (hlen : ∀ r ∈ rows, r.length = sl.length) :
    ∃ idxs out, groupIdxs sl groupBy = .ok idxs ∧ aggregateRows sl groupBy rows = .ok out ∧
      (out.map (groupKey idxs)).Nodup ∧
      ((∀ r ∈ rows, ∃ o ∈ out, groupKey idxs o = groupKey idxs r) ∧
       (∀ o ∈ out, ∃ r ∈ rows, groupKey idxs r = groupKey idxs o)) ∧
      (∀ o ∈ out, o ∈ rows ∧
        rows.find? (fun r => groupKey idxs r == groupKey idxs o) = some o) ∧
      out.map (groupKey idxs) = (rows.map (groupKey idxs)).eraseDups := by
  obtain ⟨idxs, hidx⟩ := groupIdxs_ok hres
  refine ⟨idxs, _, hidx, aggregateRows_group_no_aggr_eq hagg hne hidx hlen, ?_⟩
  -- the first row of a group: an input row, with the key of the group, the first such
  have hfirst : ∀ g ∈ groupsOf (groupKey idxs) rows,
      g.rows.headD [] ∈ rows ∧ groupKey idxs (g.rows.headD []) = g.key ∧
      rows.find? (fun r => groupKey idxs r == g.key) = some (g.rows.headD []) := by
    intro g hg
    obtain ⟨hmem, hnil⟩ := groups_rows_mem (groupKey idxs) rows g hg
    have hfil := groups_rows_eq_filter (groupKey idxs) rows g hg
    cases hrows : g.rows with
    | nil => exact absurd hrows hnil
    | cons r rest =>
      have hrg : r ∈ g.rows := by rw [hrows]; exact List.mem_cons_self ..
      refine ⟨hmem r hrg, (groups_rows_key (groupKey idxs) rows).1 g hg r hrg, ?_⟩
      rw [← List.head?_filter, ← hfil, hrows]
      rfl
  have hkeys : ((groupsOf (groupKey idxs) rows).map fun g => g.rows.headD []).map (groupKey idxs)
      = (groupsOf (groupKey idxs) rows).map (·.key) := by
    rw [List.map_map]
    exact List.map_congr_left (fun g hg => (hfirst g hg).2.1)
  refine ⟨?_, ⟨?_, ?_⟩, ?_, ?_⟩
  · rw [hkeys]; exact groups_keys_nodup _ _
  · intro r hr
    obtain ⟨g, hg, hk, _⟩ := (groups_rows_key (groupKey idxs) rows).2 r hr
    exact ⟨_, List.mem_map.mpr ⟨g, hg, rfl⟩, by rw [(hfirst g hg).2.1, hk]⟩
  · intro o ho
    obtain ⟨g, hg, rfl⟩ := List.mem_map.mp ho
    exact ⟨_, (hfirst g hg).1, rfl⟩
  · intro o ho
    obtain ⟨g, hg, rfl⟩ := List.mem_map.mp ho
    refine ⟨(hfirst g hg).1, ?_⟩
    rw [(hfirst g hg).2.1]
    exact (hfirst g hg).2.2
  · rw [hkeys]; exact groups_keys_first_occurrence _ _

/-! ### example: `SELECT k FROM t GROUP BY k` on the rows 1, 2, 1 -/

private def exSl : List DerivedCol := [⟨.expr (.val (.col ⟨[], [107]⟩)), []⟩]
private def exGb : List ColRef := [⟨[], [107]⟩]

example : aggregateRows exSl exGb [[.int 1], [.int 2], [.int 1]] = .ok [[.int 1], [.int 2]] := rfl

-- the hypotheses of `aggregateRows_group_no_aggr` hold of it
example : hasAggr exSl = false := rfl
example : exGb ≠ [] := by intro h; cases h
example : ∀ g ∈ exGb, ∃ i, groupIdx exSl g = some i := by
  intro g hg
  simp only [exGb, List.mem_cons, List.not_mem_nil, or_false] at hg
  subst hg
  exact ⟨0, rfl⟩
example : groupIdxs exSl exGb = .ok [0] := rfl

-- before the repair (the early return on `!hasAggr sl` alone) the three rows came back unchanged;
-- two select-list columns, grouped by the second: the first row of each group is kept
example : aggregateRows [⟨.expr (.val (.col ⟨[], [97]⟩)), []⟩, ⟨.expr (.val (.col ⟨[], [107]⟩)), []⟩]
    [⟨[], [107]⟩] [[.int 10, .str [120]], [.int 20, .str [121]], [.int 30, .str [120]]]
    = .ok [[.int 10, .str [120]], [.int 20, .str [121]]] := rfl

end Mkdb.Exec.GroupNoAggP
