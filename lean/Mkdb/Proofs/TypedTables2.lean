import Mkdb.Proofs.TypedTables1
/-!
C18, typed tables, part 2: **every output column of a SELECT holds values of one kind or NULL**.

`itemKind fields ks item` is the kind of the output column of one select-list element over sources kinded
by `ks`: a column keeps the kind of its source column, COUNT / AVG give integers, a literal has its own
kind, a comparison / AND / OR gives a boolean (or an error).  Projection (`projectColumns_kinded`) and
aggregation (`aggregateRows_kinded`: the grouping columns keep their kind, the aggregates are integers,
the single row over an empty input too) produce rows kinded by the `itemKind`s of the select list.
-/
set_option autoImplicit false
namespace Mkdb.Exec.TypedP
open Mkdb.Sql Mkdb.Tuple Mkdb.Exec.NoPanicP Mkdb.Exec.AggP

def litKind : Lit → Kind
  | .int _ => .int
  | .str _ => .str
  | .bool _ => .bool

/-- the kind of what `evaluate` returns: the literal's own kind, else a boolean (a bare column is
refused by `evaluate`) -/
def condKind : Cond → Kind
  | .val (.lit l) => litKind l
  | _ => .bool

/-- the kind of the output column of one select-list element, over sources kinded by `ks` -/
def itemKind (fields : List Field) (ks : List Kind) : SelItem → Kind
  | .star => .int
  | .avg _ => .int
  | .count _ => .int
  | .expr (.val (.col c)) => (match findColumn c fields with | .ok i => ks.getD i .int | _ => .int)
  | .expr c => condKind c

theorem hasKind_litVal (l : Lit) : hasKind (litKind l) (litVal l) = true := by cases l <;> rfl

/-- what `evaluate` returns has the kind `condKind` -/
theorem evaluate_kind (fields : List Field) (row : Row) :
    ∀ c : Cond, Wp AnyP (fun v => hasKind (condKind c) v = true) (evaluate c fields row)
  | .val (.lit l) => by unfold evaluate; exact hasKind_litVal l
  | .val (.col _) => by unfold evaluate; trivial
  | .pred p => by
    unfold evaluate
    exact Wp.bind (Wp.any _) (fun _ _ => rfl)
  | .and p r => by
    unfold evaluate
    apply Wp.bind (Wp.any _)
    intro lhs _
    apply Wp.bind (Wp.any _)
    intro rhs _
    split
    · rfl
    · trivial
  | .or l r => by
    unfold evaluate
    apply Wp.bind (Wp.any _)
    intro lhs _
    apply Wp.bind (Wp.any _)
    intro rhs _
    split
    · rfl
    · trivial

theorem itemKind_expr (fields : List Field) (ks : List Kind) (c : Cond) (h : ∀ cr, c ≠ .val (.col cr)) :
    itemKind fields ks (.expr c) = condKind c := by
  cases c with
  | val v =>
    cases v with
    | lit l => rfl
    | col cr => exact absurd rfl (h cr)
  | pred p => rfl
  | and p r => rfl
  | or l r => rfl

/-- **one projected value has the kind of its output column** -/
theorem projectItem_kind (item : SelItem) {fields : List Field} {ks : List Kind} {row : Row}
    (h : rowHas ks row = true) :
    Wp AnyP (fun v => hasKind (itemKind fields ks item) v = true) (projectItem item fields row) := by
  unfold projectItem
  split
  · trivial
  · apply Wp.bind (Wp.any _)
    intro idx _
    split
    · rfl
    · trivial
    · trivial
  · rfl
  · apply Wp.bind (Wp.any _)
    intro idx _
    split
    · rfl
    · rfl
    · trivial
  · rename_i c
    cases hfc : findColumn c fields with
    | err e => trivial
    | panic s => trivial
    | ok idx =>
      simp only [bind_ok]
      split
      · rename_i x hx
        simp only [Wp_pure, itemKind, hfc]
        exact rowHas_get h idx x hx
      · trivial
  · rename_i c hc
    rw [itemKind_expr fields ks c (fun cr e => hc cr (by rw [e]))]
    exact evaluate_kind fields row c

/-- `mapX` position by position: the results are kinded by the kinds of the elements -/
theorem mapX_rowHas {α} (f : α → X Val) (K : α → Kind) :
    ∀ l : List α, (∀ a ∈ l, Wp AnyP (fun v => hasKind (K a) v = true) (f a)) →
      Wp AnyP (fun bs => rowHas (l.map K) bs = true) (mapX f l)
  | [], _ => by simp [mapX, rowHas]
  | a :: rest, h => by
    unfold mapX
    apply Wp.bind (h a (by simp))
    intro b hb
    apply Wp.bind (mapX_rowHas f K rest (fun a' ha' => h a' (List.mem_cons_of_mem _ ha')))
    intro tl htl
    simp only [Wp_pure, List.map_cons]
    exact rowHas_cons.mpr ⟨hb, htl⟩

/-- the kinds of the output columns of a select list -/
def outKinds (sl : List DerivedCol) (fields : List Field) (ks : List Kind) : List Kind :=
  if isStar sl then ks else sl.map fun d => itemKind fields ks d.item

/-- **projection keeps the columns kinded**: `SELECT *` by the kinds of the sources, a select list by
the `itemKind`s of its elements -/
theorem projectColumns_kinded (sl : List DerivedCol) (fields : List Field) (ks : List Kind) (rows : List Row)
    (h : ∀ r ∈ rows, rowHas ks r = true) :
    Wp AnyP (fun p => ∀ r ∈ p.1, rowHas (outKinds sl fields ks) r = true) (projectColumns sl fields rows) := by
  unfold projectColumns
  split
  · trivial
  unfold outKinds
  split
  · exact h
  · apply Wp.bind (Wp.any _)
    intro _ _
    apply Wp.bind (mapX_wp (fun _ (r' : Row) => rowHas (sl.map fun d => itemKind fields ks d.item) r' = true) _ rows ?_)
    · intro rows' hrows'
      apply Wp.bind (Wp.any _)
      intro hdr _
      simp only [Wp_pure]
      intro r hr
      obtain ⟨_, _, hk⟩ := hrows'.2 r hr
      exact hk
    · intro row hrow
      exact mapX_rowHas _ (fun d => itemKind fields ks d.item) sl (fun d _ => projectItem_kind d.item (h row hrow))

/-! ### aggregation -/

theorem zip_range_mem {α} {sl : List α} {i : Nat} {d : α} (h : (i, d) ∈ (List.range sl.length).zip sl) :
    sl[i]? = some d := by
  obtain ⟨j, hj⟩ := List.mem_iff_getElem?.mp h
  rw [List.getElem?_zip_eq_some] at hj
  obtain ⟨h1, h2⟩ := hj
  have hlt : j < (List.range sl.length).length := by
    apply Classical.byContradiction
    intro hn
    have := List.getElem?_eq_none_iff.mpr (Nat.le_of_not_lt hn)
    rw [this] at h1
    cases h1
  rw [List.getElem?_eq_getElem hlt, List.getElem_range] at h1
  simp only [Option.some.injEq] at h1
  subst h1
  exact h2

theorem zip_range_map_snd {α β} (sl : List α) (K : α → β) :
    ((List.range sl.length).zip sl).map (fun p => K p.2) = sl.map K := by
  have : ((List.range sl.length).zip sl).map (fun p => K p.2) = (((List.range sl.length).zip sl).map Prod.snd).map K := by
    rw [List.map_map]; rfl
  rw [this, List.map_snd_zip (by simp)]

/-- one cell of an aggregated row has the kind of its output column -/
theorem aggCell_kind (K : DerivedCol → Kind) (sl : List DerivedCol)
    (hagg : ∀ d ∈ sl, (∃ c, d.item = .count c) ∨ (∃ c, d.item = .avg c) → K d = .int)
    {i : Nat} {d : DerivedCol} (hd : sl[i]? = some d) {g : Group}
    (hrows : ∀ r ∈ g.rows, rowHas (sl.map K) r = true) :
    Wp AnyP (fun v => hasKind (K d) v = true) (aggCell d.item i g) := by
  have hmem : d ∈ sl := List.mem_of_getElem? hd
  unfold aggCell
  split
  · rename_i c hc
    rw [hagg d hmem (.inl ⟨c, hc⟩)]
    rfl
  · rename_i c hc
    rw [hagg d hmem (.inr ⟨c, hc⟩)]
    rfl
  · split
    · rename_i r hr
      split
      · rename_i v hv
        have := rowHas_get (hrows r (List.mem_of_mem_head? hr)) i v hv
        have hk : (sl.map K).getD i .int = K d := by
          simp only [List.getD_eq_getElem?_getD, List.getElem?_map, hd, Option.map_some, Option.getD_some]
        rw [hk] at this
        exact this
      · trivial
    · trivial

/-- **aggregation keeps the columns kinded**: for a family of kinds `K` of the select-list elements under
which the projected rows are kinded, with COUNT / AVG integer and an expression other than a column of
the kind `condKind`, the aggregated rows - the input itself, one row per group (the aggregates are
integers, every other column is read from the first row of the group), or the single row over an empty
input - are kinded by `K` again (for a select list that does not start with `*`: the rows are projected) -/
theorem aggregateRows_kinded (K : DerivedCol → Kind) (sl : List DerivedCol) (groupBy : List ColRef)
    (rows : List Row) (hs : isStar sl = false)
    (hagg : ∀ d ∈ sl, (∃ c, d.item = .count c) ∨ (∃ c, d.item = .avg c) → K d = .int)
    (hexpr : ∀ d ∈ sl, ∀ c, d.item = .expr c → (∀ cr, c ≠ .val (.col cr)) → K d = condKind c)
    (hrows : ∀ r ∈ rows, rowHas (sl.map K) r = true) :
    Wp AnyP (fun out => ∀ r ∈ out, rowHas (sl.map K) r = true) (aggregateRows sl groupBy rows) := by
  unfold aggregateRows
  split
  · exact hrows
  · split
    · apply Wp.bind (mapX_rowHas _ K sl ?_)
      · intro r hr
        simp only [Wp_pure, List.mem_singleton]
        intro r' hr'
        subst hr'
        exact hr
      · intro d hd
        split
        · rename_i c hc
          rw [hagg d hd (.inl ⟨c, hc⟩)]
          rfl
        · rename_i c hc
          rw [hagg d hd (.inr ⟨c, hc⟩)]
          rfl
        · rename_i c hc
          by_cases hcol : ∃ cr, c = .val (.col cr)
          · obtain ⟨cr, rfl⟩ := hcol
            unfold evaluate
            trivial
          · rw [hexpr d hd c hc (fun cr e => hcol ⟨cr, e⟩)]
            exact evaluate_kind [] [] c
        · trivial
    · apply Wp.bind (Wp.any _)
      intro idxs _
      rw [if_neg (by rw [hs]; exact Bool.false_ne_true)]
      refine (mapX_wp (fun _ (r' : Row) => rowHas (sl.map K) r' = true) _ _ ?_).mono
        (fun out hout r hr => by obtain ⟨_, _, hk⟩ := hout.2 r hr; exact hk) (fun _ e => e)
      intro g hg
      have hg' := groups_rows_mem (fun r => idxs.map fun i => (r[i]?).getD .null) rows g hg
      have := mapX_rowHas (fun (p : Nat × DerivedCol) => aggCell p.2.item p.1 g) (fun p => K p.2)
        ((List.range sl.length).zip sl) ?_
      · rw [zip_range_map_snd sl K] at this
        exact this
      · rintro ⟨i, d⟩ hp
        exact aggCell_kind K sl hagg (zip_range_mem hp) (fun r hr => hrows r (hg'.1 r hr))

/-- a select list that is just `*`: the rows come back as they are (or the GROUP BY is refused) -/
theorem aggregateRows_star (a : Bytes) (groupBy : List ColRef) (rows : List Row) :
    Wp AnyP (fun out => out = rows) (aggregateRows [⟨.star, a⟩] groupBy rows) := by
  cases groupBy with
  | nil => rfl
  | cons g rest => trivial

theorem itemKind_agg (fields : List Field) (ks : List Kind) (sl : List DerivedCol) :
    ∀ d ∈ sl, (∃ c, d.item = .count c) ∨ (∃ c, d.item = .avg c) → itemKind fields ks d.item = .int := by
  intro d _ h
  rcases h with ⟨c, hc⟩ | ⟨c, hc⟩ <;> rw [hc] <;> rfl

theorem itemKind_cond (fields : List Field) (ks : List Kind) (sl : List DerivedCol) :
    ∀ d ∈ sl, ∀ c, d.item = .expr c → (∀ cr, c ≠ .val (.col cr)) → itemKind fields ks d.item = condKind c := by
  intro d _ c hc hne
  rw [hc]
  exact itemKind_expr fields ks c hne

end Mkdb.Exec.TypedP
