import Mkdb.Proofs.RefineStmt1
/-!
Refinement at the statement level, part 2: `sys_schema`, the catalog invariant `Cat`, and the two
catalog lookups under it (`relationOffset_cat`, `relationSchema_cat`).
-/
set_option autoImplicit false
namespace Mkdb.Store
open Mkdb.Page Mkdb.Tuple Mkdb.Generated Mkdb.Tree

/-! ### `sys_schema` -/

def sysPages : Bytes := "sys_pages".toUTF8.toList
def sysSchema : Bytes := "sys_schema".toUTF8.toList

def decRow (sch : List FieldDef) (bs : Bytes) : Option Vals :=
  match decodeTuple sch bs [] with
  | .ok m => some m
  | .error _ => none

/-- the column definition a row of `sys_schema` holds -/
def fieldOf (m : Vals) : Option FieldDef :=
  match get m "field_name", get m "field_length", get m "field_type" with
  | .str n, .int len, .int ty => if !knownTypeCode ty then none else some ⟨nameOfBytes n, typeOfCode ty, len⟩
  | _, _, _ => none

/-- the column definitions of table `name` as the live rows of `sys_schema` give them (`none` if a
row does not decode, or a row of the table lacks a field) -/
def schemaOf (sch : Levels) (name : Bytes) : Option (List FieldDef) :=
  match mapO (fun c : LeafCell => decRow schemaTableSchema c.val) (live sch) with
  | none => none
  | some rows => mapO fieldOf (rows.filter fun m => get m "table_name" == .str name)

/-- the second loop body of `getRelationSchema` -/
def schemaField (m : Vals) : SM FieldDef :=
  match get m "field_name", get m "field_length", get m "field_type" with
  | .str n, .int len, .int ty =>
    if !knownTypeCode ty then unmodelledS "getRelationSchema: field type the engine does not know"
    else pure (⟨nameOfBytes n, typeOfCode ty, len⟩ : FieldDef)
  | _, _, _ => panicS "getRelationSchema: type assertion"

theorem relationSchema_eq (name : Bytes) :
    relationSchema name = (relationOffset sysSchema >>= fun off => scanRight off >>= fun cells =>
      mapS (fun (c : LeafCell × Nat) => decodeRow schemaTableSchema c.1.val) cells >>= fun rows =>
        mapS schemaField (rows.filter fun m => get m "table_name" == .str name)) := rfl

theorem mapO_map {α β γ} (g : β → Option γ) (h : α → β) : ∀ (l : List α),
    mapO g (l.map h) = mapO (fun a => g (h a)) l
  | [] => rfl
  | a :: rest => by simp only [List.map_cons, mapO, mapO_map g h rest]

theorem schemaField_spec (m : Vals) (fd : FieldDef) (s : Store) (h : fieldOf m = some fd) :
    schemaField m s = .ok fd s := by
  unfold fieldOf at h
  unfold schemaField
  split at h
  · rename_i n len ty h1 h2 h3
    rw [h1, h2, h3]
    simp only
    split at h
    · cases h
    · rename_i hk
      simp only [Option.some.injEq] at h
      rw [if_neg hk, ← h]
      rfl
  · cases h

theorem decodeRow_spec (sch : List FieldDef) (bs : Bytes) (m : Vals) (s : Store) (h : decRow sch bs = some m) :
    decodeRow sch bs s = .ok m s := by
  unfold decRow at h
  unfold decodeRow
  split at h
  · rename_i m' hm
    simp only [Option.some.injEq] at h
    rw [hm, h]
  · cases h

/-- `getRelationSchema` against `schemaOf`, given that the catalog lookup of `sys_schema` works -/
theorem relationSchema_of (s : Store) (sch : Levels) (nf : Nat) (name : Bytes) (fds : List FieldDef)
    (hoff : ∃ s1, relationOffset sysSchema s = .ok (rootOff sch) s1 ∧ Same s s1)
    (hH : Holds s sch) (hI : Inv sch nf)
    (hdepth : sch.inner.length + 1 ≤ treeFuel) (hlen : sch.leaves.length ≤ scanFuel)
    (hsch : schemaOf sch name = some fds) :
    ∃ s', relationSchema name s = .ok fds s' ∧ Same s s' := by
  obtain ⟨s1, e1, hs1⟩ := hoff
  obtain ⟨s2, cs, e2, hs2, hcs, _⟩ := scan_cat s1 sch nf (hs1.holds hH) hI hdepth hlen
  unfold schemaOf at hsch
  cases hrows : mapO (fun c : LeafCell => decRow schemaTableSchema c.val) (live sch) with
  | none => rw [hrows] at hsch; cases hsch
  | some rows =>
    rw [hrows] at hsch
    simp only at hsch
    have hrows' : mapO (fun (c : LeafCell × Nat) => decRow schemaTableSchema c.1.val) cs = some rows := by
      rw [← hcs, mapO_map] at hrows
      exact hrows
    have e3 := mapS_pure (fun (c : LeafCell × Nat) => decodeRow schemaTableSchema c.1.val)
      (fun c => decRow schemaTableSchema c.1.val) s2 cs rows
      (fun a _ b hb => decodeRow_spec _ _ _ _ hb) hrows'
    have e4 := mapS_pure schemaField fieldOf s2 _ fds (fun a _ b hb => schemaField_spec _ _ _ hb) hsch
    refine ⟨s2, ?_, hs1.trans hs2⟩
    rw [relationSchema_eq, bind_ok e1, bind_ok e2, bind_ok e3]
    exact e4

/-! ### the catalog invariant -/

/-- all trees of the data file -/
def catTrees (pt sch : Levels) (tbls : List (Bytes × Levels)) : List Levels := pt :: sch :: tbls.map (·.2)

/-- the catalog entries the live rows of the page table spell out -/
def ptEntries (pt : Levels) : List (Bytes × Nat) := (live pt).filterMap ptEntry

/-- The store holds a catalog: the page table `pt`, `sys_schema` `sch` and the user tables `tbls`
(by name). -/
structure Cat (s : Store) (pt sch : Levels) (tbls : List (Bytes × Levels)) : Prop where
  /-- every tree is held, well formed below the frontier, within the fuels, its keys already issued -/
  tree : ∀ x ∈ catTrees pt sch tbls, Holds s x ∧ Inv x s.hdr.nextFree ∧ x.inner.length + 2 ≤ treeFuel ∧
    x.leaves.length ≤ scanFuel ∧ ∀ a ∈ keys x, a ≤ s.hdr.lastKey
  /-- no page belongs to two trees -/
  disj : ((catTrees pt sch tbls).map offs).Pairwise (fun a b => ∀ o ∈ a, o ∉ b)
  /-- the header locates the page table -/
  root : rootOff pt = s.hdr.ptRoot
  /-- every live row of the page table decodes to a name and an offset; names occur once -/
  dec : ∀ c ∈ live pt, ptEntry c ≠ none
  names : ((ptEntries pt).map (·.1)).Nodup
  /-- the entries are: `sys_schema`, the user tables (and possibly `sys_pages` itself) -/
  esch : (sysSchema, rootOff sch) ∈ ptEntries pt
  etb : ∀ e ∈ tbls, (e.1, rootOff e.2) ∈ ptEntries pt
  only : ∀ e ∈ ptEntries pt, e.1 = sysPages ∨ e.1 = sysSchema ∨ e.1 ∈ tbls.map (·.1)
  /-- user tables have distinct names, short enough for their catalog row to be rewritten -/
  tnames : (tbls.map (·.1)).Nodup
  tsys : sysPages ∉ tbls.map (·.1) ∧ sysSchema ∉ tbls.map (·.1)
  tlen : ∀ e ∈ tbls, e.1.length + 14 ≤ c_maxValueSize

theorem Cat.of_same {s s' : Store} {pt sch : Levels} {tbls : List (Bytes × Levels)}
    (h : Cat s pt sch tbls) (hs : Same s s') : Cat s' pt sch tbls where
  tree := fun x hx => by
    obtain ⟨a, b, c, d, e⟩ := h.tree x hx
    rw [hs.2]
    exact ⟨hs.holds a, b, c, d, e⟩
  disj := h.disj
  root := by rw [hs.2]; exact h.root
  dec := h.dec
  names := h.names
  esch := h.esch
  etb := h.etb
  only := h.only
  tnames := h.tnames
  tsys := h.tsys
  tlen := h.tlen

theorem Cat.pt_mem {pt sch : Levels} {tbls : List (Bytes × Levels)} : pt ∈ catTrees pt sch tbls := by
  simp [catTrees]
theorem Cat.sch_mem {pt sch : Levels} {tbls : List (Bytes × Levels)} : sch ∈ catTrees pt sch tbls := by
  simp [catTrees]
theorem Cat.tb_mem {pt sch : Levels} {tbls : List (Bytes × Levels)} {e : Bytes × Levels} (he : e ∈ tbls) :
    e.2 ∈ catTrees pt sch tbls := by
  simp only [catTrees, List.mem_cons, List.mem_map]
  exact .inr (.inr ⟨e, he, rfl⟩)

/-- a catalog lookup by an entry of the page table -/
theorem relationOffset_entry {s : Store} {pt sch : Levels} {tbls : List (Bytes × Levels)}
    (h : Cat s pt sch tbls) (name : Bytes) (off : Nat) (he : (name, off) ∈ ptEntries pt) :
    ∃ s', relationOffset name s = .ok off s' ∧ Same s s' := by
  obtain ⟨hH, hI, hd, hl, _⟩ := h.tree pt Cat.pt_mem
  exact (relationOffset_of_entries s pt _ name hH hI h.root (by omega) hl h.dec h.names).1 off he

/-- **(a)** `getRelationFileOffset` of a user table returns the root of its tree; nothing changes
but the cache. -/
theorem relationOffset_cat {s : Store} {pt sch : Levels} {tbls : List (Bytes × Levels)}
    (h : Cat s pt sch tbls) (name : Bytes) (t : Levels) (ht : (name, t) ∈ tbls) :
    ∃ s', relationOffset name s = .ok (rootOff t) s' ∧ Same s s' ∧ Cat s' pt sch tbls := by
  obtain ⟨s', e, hs⟩ := relationOffset_entry h name (rootOff t) (h.etb (name, t) ht)
  exact ⟨s', e, hs, h.of_same hs⟩

/-- **(a)** …and a name the catalog does not know is refused with `tableNotExist`. -/
theorem relationOffset_cat_unknown {s : Store} {pt sch : Levels} {tbls : List (Bytes × Levels)}
    (h : Cat s pt sch tbls) (name : Bytes) (h1 : name ≠ sysPages) (h2 : name ≠ sysSchema)
    (h3 : name ∉ tbls.map (·.1)) :
    ∃ s', relationOffset name s = .err .tableNotExist s' ∧ Same s s' ∧ Cat s' pt sch tbls := by
  obtain ⟨hH, hI, hd, hl, _⟩ := h.tree pt Cat.pt_mem
  have hn : name ∉ (ptEntries pt).map (·.1) := by
    intro hm
    obtain ⟨e, he, hen⟩ := List.mem_map.mp hm
    rcases h.only e he with h' | h' | h'
    · exact h1 (hen ▸ h')
    · exact h2 (hen ▸ h')
    · exact h3 (hen ▸ h')
  obtain ⟨s', e, hs⟩ := (relationOffset_of_entries s pt _ name hH hI h.root (by omega) hl h.dec h.names).2 hn
  exact ⟨s', e, hs, h.of_same hs⟩

/-- **(b)** `getRelationSchema` returns the column list the rows of `sys_schema` spell out. -/
theorem relationSchema_cat {s : Store} {pt sch : Levels} {tbls : List (Bytes × Levels)}
    (h : Cat s pt sch tbls) (name : Bytes) (fds : List FieldDef) (hsch : schemaOf sch name = some fds) :
    ∃ s', relationSchema name s = .ok fds s' ∧ Same s s' ∧ Cat s' pt sch tbls := by
  obtain ⟨hH, hI, hd, hl, _⟩ := h.tree sch Cat.sch_mem
  obtain ⟨s', e, hs⟩ := relationSchema_of s sch _ name fds (relationOffset_entry h sysSchema _ h.esch)
    hH hI (by omega) hl hsch
  exact ⟨s', e, hs, h.of_same hs⟩

end Mkdb.Store
