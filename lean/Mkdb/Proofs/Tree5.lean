import Mkdb.Spec.TreeInv
namespace Mkdb.Tree
open Mkdb.Page Mkdb.Generated
/-!
Point lookup is complete on a tree satisfying the shape invariant: `lookup_finds` -- every cell of
the tree is found by `lookup` under its own key.  Helper lemmas live in `Mkdb.Tree.Lookup`:
`routeChild_spec` (one node), `level_route` (one level), `route_levels` (all levels, bottom-up
induction with a generalised bottom row), `find_by_key` (`find?` under `Nodup` keys).
-/
namespace Lookup

theorem sep_key (cs : List ICell) (los : List Nat)
    (hlen : cs.length + 1 ≤ los.length)
    (hsep : (los.take (cs.length + 1)).tail = cs.map (·.key))
    (j : Nat) (hj : j < cs.length) : cs[j].key = los[j+1] := by
  have h := congrArg (fun l => l[j]?) hsep
  simp only [List.getElem?_tail, List.getElem?_take, List.getElem?_map] at h
  grind

theorem routeChild_spec (p : Internal) (key : Nat) (los : List Nat) (i : Nat)
    (hlen : p.cells.length + 1 ≤ los.length)
    (hsep : (los.take (p.cells.length + 1)).tail = p.cells.map (·.key))
    (hpw : los.Pairwise (· < ·))
    (hi : i ≤ p.cells.length)
    (hlo : ∀ lo, los[i]? = some lo → lo ≤ key)
    (hhi : ∀ hi, los[i+1]? = some hi → key < hi) :
    (p.cells.map (·.child) ++ [p.right])[i]? = some (routeChild p key) := by
  have hk := sep_key p.cells los hlen hsep
  rw [List.pairwise_iff_getElem] at hpw
  have hlo' : los[i] ≤ key := hlo _ (by simp)
  unfold routeChild
  by_cases hin : i < p.cells.length
  · have hf : p.cells.find? (fun c => key < c.key) = some p.cells[i] := by
      rw [List.find?_eq_some_iff_getElem]
      refine ⟨?_, i, hin, rfl, ?_⟩
      · have := hhi los[i+1] (by simp)
        grind
      · intro j hj
        have := hk j (by omega)
        have : los[j+1] ≤ los[i] := by
          by_cases h : j + 1 = i
          · subst h; exact Nat.le_refl _
          · exact Nat.le_of_lt (hpw (j+1) i (by omega) (by omega) (by omega))
        grind
    rw [hf]
    simp [List.getElem?_append_left, hin]
  · have hin : i = p.cells.length := by omega
    have hf : p.cells.find? (fun c => key < c.key) = none := by
      rw [List.find?_eq_none]
      intro c hc
      obtain ⟨j, hj, rfl⟩ := List.mem_iff_getElem.mp hc
      have := hk j hj
      have : los[j+1] ≤ los[i] := by
          by_cases h : j + 1 = i
          · subst h; exact Nat.le_refl _
          · exact Nat.le_of_lt (hpw (j+1) i (by omega) (by omega) (by omega))
      grind
    rw [hf]
    subst hin
    simp

theorem levelLos_length : ∀ (lvl : List (Internal × Bool)) (los : List Nat),
    (levelLos los lvl).length = lvl.length
  | [], _ => rfl
  | p :: ps, los => by simp [levelLos, levelLos_length ps]

theorem sepsOK_length : ∀ (lvl : List (Internal × Bool)) (los : List Nat),
    sepsOK los lvl → los.length = (childOffs lvl).length
  | [], los, h => by simp [sepsOK] at h; simp [h, childOffs]
  | p :: ps, los, h => by
    obtain ⟨h1, _, h3⟩ := h
    have := sepsOK_length ps _ h3
    simp only [childOffs, List.flatMap_cons, List.length_append, List.length_map,
      List.length_cons, List.length_nil, List.length_drop] at this ⊢
    omega

theorem levelLos_sublist : ∀ (lvl : List (Internal × Bool)) (los : List Nat),
    sepsOK los lvl → (levelLos los lvl).Sublist los
  | [], los, _ => by simp [levelLos]
  | p :: ps, los, h => by
    obtain ⟨h1, _, h3⟩ := h
    have ih := levelLos_sublist ps _ h3
    match los, h1 with
    | l0 :: los', _ =>
      simp only [levelLos, List.headD_cons, List.drop_succ_cons] at ih ⊢
      exact List.Sublist.cons_cons _ (ih.trans (List.drop_sublist _ _))

theorem level_route (key : Nat) : ∀ (lvl : List (Internal × Bool)) (los : List Nat) (i : Nat),
    sepsOK los lvl → los.Pairwise (· < ·) → i < los.length →
    (∀ lo, los[i]? = some lo → lo ≤ key) → (∀ hi, los[i+1]? = some hi → key < hi) →
    ∃ a, ∃ h : a < lvl.length, (childOffs lvl)[i]? = some (routeChild lvl[a].1 key) ∧
      (∀ lo, (levelLos los lvl)[a]? = some lo → lo ≤ key) ∧
      (∀ hi, (levelLos los lvl)[a+1]? = some hi → key < hi)
  | [], los, i, h, _, hi, _, _ => by simp [sepsOK] at h; simp [h] at hi
  | p :: ps, los, i, h, hpw, hi, hlo, hhi => by
    obtain ⟨h1, h2, h3⟩ := h
    have hco : childOffs (p :: ps) = (p.1.cells.map (·.child) ++ [p.1.right]) ++ childOffs ps := by
      simp [childOffs]
    have hpw' := (List.pairwise_iff_getElem.mp hpw)
    by_cases hin : i ≤ p.1.cells.length
    · refine ⟨0, by simp, ?_, ?_, ?_⟩
      · rw [hco, List.getElem?_append_left (by simp; omega)]
        exact routeChild_spec p.1 key los i h1 h2 hpw hin hlo hhi
      · intro lo hl
        have h0 : los[0] ≤ los[i] := by
          by_cases h : i = 0
          · subst h; exact Nat.le_refl _
          · exact Nat.le_of_lt (hpw' 0 i (by omega) hi (by omega))
        have := hlo los[i] (by simp)
        have hd : los.headD 0 = los[0] := by
          rw [List.headD_eq_head?_getD, List.head?_eq_getElem?, List.getElem?_eq_getElem (by omega), Option.getD_some]
        simp only [levelLos, List.getElem?_cons_zero, Option.some.injEq] at hl
        omega
      · intro hi' hl
        match ps, h3 with
        | [], _ => simp [levelLos] at hl
        | q :: qs, h3 =>
          obtain ⟨h4, _, _⟩ := h3
          simp only [List.length_drop] at h4
          have hn1 : los[p.1.cells.length + 1] = hi' := by
            simp only [levelLos, List.getElem?_cons_succ, List.getElem?_cons_zero,
              Option.some.injEq, List.headD_eq_head?_getD, List.head?_drop] at hl
            rw [List.getElem?_eq_getElem (by omega), Option.getD_some] at hl; exact hl
          have := hhi los[i+1] (by simp)
          have : los[i+1] ≤ los[p.1.cells.length + 1] := by
            by_cases h : i = p.1.cells.length
            · subst h; exact Nat.le_refl _
            · exact Nat.le_of_lt (hpw' (i+1) _ (by omega) (by omega) (by omega))
          omega
    · obtain ⟨a, ha, e1, e2, e3⟩ := level_route key ps (los.drop (p.1.cells.length + 1))
        (i - (p.1.cells.length + 1)) h3 (hpw.drop) (by simp; omega)
        (by intro lo hl; apply hlo; rw [List.getElem?_drop] at hl; rw [← hl]; congr 1; omega)
        (by intro lo hl; apply hhi; rw [List.getElem?_drop] at hl; rw [← hl]; congr 1; omega)
      refine ⟨a + 1, by simp; omega, ?_, ?_, ?_⟩
      · rw [hco, List.getElem?_append_right (by simp; omega)]
        simp only [List.length_append, List.length_map, List.length_cons, List.length_nil,
          List.getElem_cons_succ]
        exact e1
      · simpa [levelLos] using e2
      · simpa [levelLos] using e3

/-- one routing step (the body of the fold in `routeOff`) -/
def step (key : Nat) (off : Nat) (lvl : List (Internal × Bool)) : Nat :=
  match lvl.find? (fun p => p.1.off == off) with
  | some p => routeChild p.1 key
  | none => off

/-- the root offset of a stack of levels over a bottom row of offsets -/
def rootOf : List Nat → List (List (Internal × Bool)) → Nat
  | below, [] => below.head?.getD 0
  | _, lvl :: rest => rootOf (lvl.map (·.1.off)) rest

theorem rootOf_eq : ∀ (lvls : List (List (Internal × Bool))) (below : List Nat),
    (match lvls.getLast? with
      | some lvl => (lvl.head?.map (·.1.off)).getD 0
      | none => below.head?.getD 0) = rootOf below lvls
  | [], below => rfl
  | [lvl], below => by simp [rootOf, List.head?_map]
  | lvl :: l2 :: rest, below => by
    have := rootOf_eq (l2 :: rest) (lvl.map (·.1.off))
    rw [rootOf, ← this, List.getLast?_cons_cons]
    cases h : (l2 :: rest).getLast? with
    | none => simp at h
    | some x => rfl

theorem rootOff_eq (t : Levels) : rootOff t = rootOf (t.leaves.map (·.1.off)) t.inner := by
  unfold rootOff
  rw [← rootOf_eq t.inner (t.leaves.map (·.1.off)), List.head?_map]
  rfl

theorem routeOff_eq (t : Levels) (key : Nat) :
    routeOff t key = t.inner.foldr (fun lvl off => step key off lvl) (rootOff t) := by
  unfold routeOff
  rw [List.foldl_reverse]
  rfl

theorem find_by_key {α : Type} (f : α → Nat) (l : List α) (hnd : (l.map f).Nodup)
    (a : Nat) (h : a < l.length) : l.find? (fun p => f p == f l[a]) = some l[a] := by
  rw [List.find?_eq_some_iff_getElem]
  refine ⟨by simp, a, h, rfl, ?_⟩
  intro j hj
  have := (List.pairwise_iff_getElem.mp hnd) j a (by simp; omega) (by simp; omega) hj
  simpa using this

theorem route_levels (key : Nat) : ∀ (lvls : List (List (Internal × Bool))) (below los : List Nat) (i : Nat),
    linked below lvls → sepsAll los lvls → los.length = below.length → los.Pairwise (· < ·) →
    (∀ lvl ∈ lvls, (lvl.map (·.1.off)).Nodup) → i < los.length →
    (∀ lo, los[i]? = some lo → lo ≤ key) → (∀ hi, los[i+1]? = some hi → key < hi) →
    below[i]? = some (lvls.foldr (fun lvl off => step key off lvl) (rootOf below lvls))
  | [], below, los, i, hl, _, hlen, _, _, hi, _, _ => by
    simp only [linked] at hl
    have : i = 0 := by omega
    subst this
    simp [rootOf, List.head?_eq_getElem?]
    rw [List.getElem?_eq_getElem (by omega)]; rfl
  | lvl :: rest, below, los, i, hl, hs, hlen, hpw, hnd, hi, hlo, hhi => by
    obtain ⟨hl1, hl2⟩ := hl
    obtain ⟨hs1, hs2⟩ := hs
    obtain ⟨a, ha, e1, e2, e3⟩ := level_route key lvl los i hs1 hpw hi hlo hhi
    have ih := route_levels key rest (lvl.map (·.1.off)) (levelLos los lvl) a hl2 hs2
      (by simp [levelLos_length]) (hpw.sublist (levelLos_sublist lvl los hs1))
      (fun l hl => hnd l (List.mem_cons_of_mem _ hl)) (by simp [levelLos_length, ha]) e2 e3
    rw [List.getElem?_map, List.getElem?_eq_getElem ha] at ih
    simp only [Option.map_some, Option.some.injEq] at ih
    rw [← hl1, e1, List.foldr_cons, rootOf, ← ih]
    unfold step
    rw [find_by_key (fun p : Internal × Bool => p.1.off) lvl (hnd lvl (List.mem_cons_self)) a ha]

/-- lowest key of a leaf, as used by `SepsOK` -/
def headKey (p : Leaf × Bool) : Nat := (p.1.cells.head?.map (·.key)).getD 0

theorem headKey_spec (p : Leaf × Bool) (hne : p.1.cells ≠ [])
    (hpw : p.1.cells.Pairwise (fun a b => a.key < b.key)) :
    ∃ h ∈ p.1.cells, headKey p = h.key ∧ ∀ c ∈ p.1.cells, h.key ≤ c.key := by
  unfold headKey
  match hc : p.1.cells, hne with
  | h :: tl, _ =>
    rw [hc] at hpw
    refine ⟨h, by simp, by simp, ?_⟩
    intro c hcm
    rcases List.mem_cons.mp hcm with rfl | hm
    · exact Nat.le_refl _
    · exact Nat.le_of_lt (List.rel_of_pairwise_cons hpw hm)

theorem keysAsc_split (t : Levels) (h : KeysAsc t) :
    (∀ p ∈ t.leaves, p.1.cells.Pairwise (fun a b => a.key < b.key)) ∧
    t.leaves.Pairwise (fun p q => ∀ x ∈ p.1.cells, ∀ y ∈ q.1.cells, x.key < y.key) := by
  unfold KeysAsc keys cells at h
  rw [List.pairwise_map, List.pairwise_flatMap] at h
  exact h

theorem offs_split (t : Levels) (nf : Nat) (h : OffsOK t nf) :
    (t.leaves.map (·.1.off)).Nodup ∧ ∀ lvl ∈ t.inner, (lvl.map (·.1.off)).Nodup := by
  have h := h.1
  unfold offs flatten at h
  simp only [List.map_append, List.map_map, List.map_flatMap] at h
  unfold List.Nodup at h
  rw [List.pairwise_append, List.pairwise_flatMap] at h
  exact ⟨h.1, fun lvl hl => h.2.1.1 lvl hl⟩

end Lookup
open Lookup

theorem lookup_finds (t : Levels) (nf : Nat) (hinv : Inv t nf) (c : LeafCell) (hc : c ∈ cells t) :
    lookup t c.key = some c := by
  obtain ⟨hin, hcross⟩ := keysAsc_split t hinv.asc
  obtain ⟨hndl, hndi⟩ := offs_split t nf hinv.offs
  unfold cells at hc
  obtain ⟨p, hp, hcp⟩ := List.mem_flatMap.mp hc
  obtain ⟨i, hi, rfl⟩ := List.mem_iff_getElem.mp hp
  have hcross' := List.pairwise_iff_getElem.mp hcross
  have hne : ∀ j (hj : j < t.leaves.length), (j ≠ i) → t.leaves[j].1.cells ≠ [] := by
    intro j hj hji
    exact hinv.ne (by omega) _ (List.getElem_mem hj)
  have hnei : t.leaves[i].1.cells ≠ [] := List.ne_nil_of_mem hcp
  have hne' : ∀ j (hj : j < t.leaves.length), t.leaves[j].1.cells ≠ [] := by
    intro j hj
    by_cases hji : j = i
    · subst hji; exact hnei
    · exact hne j hj hji
  have hspec := fun j (hj : j < t.leaves.length) =>
    headKey_spec t.leaves[j] (hne' j hj) (hin _ (List.getElem_mem hj))
  have hlink : linked (t.leaves.map (·.1.off)) t.inner := hinv.link
  have hseps : sepsAll (t.leaves.map headKey) t.inner := hinv.seps
  have hroute := route_levels c.key t.inner (t.leaves.map (·.1.off)) (t.leaves.map headKey) i
    hlink hseps (by simp) ?_ hndi (by simpa using hi) ?_ ?_
  · rw [← rootOff_eq, ← routeOff_eq, List.getElem?_map, List.getElem?_eq_getElem hi] at hroute
    simp only [Option.map_some, Option.some.injEq] at hroute
    unfold lookup
    rw [← hroute, find_by_key (fun p : Leaf × Bool => p.1.off) t.leaves hndl i hi]
    simp only
    obtain ⟨k, hk, rfl⟩ := List.mem_iff_getElem.mp hcp
    have hnd : (t.leaves[i].1.cells.map (·.key)).Nodup := by
      have := hin _ (List.getElem_mem hi)
      unfold List.Nodup
      rw [List.pairwise_map]
      exact this.imp (fun h => Nat.ne_of_lt h)
    exact find_by_key (fun c : LeafCell => c.key) _ hnd k hk
  · rw [List.pairwise_iff_getElem]
    intro a b ha hb hab
    simp only [List.length_map] at ha hb
    simp only [List.getElem_map]
    obtain ⟨x, hx, ex, _⟩ := hspec a ha
    obtain ⟨y, hy, ey, _⟩ := hspec b hb
    rw [ex, ey]
    exact hcross' a b ha hb hab x hx y hy
  · intro lo hl
    rw [List.getElem?_map, List.getElem?_eq_getElem hi] at hl
    simp only [Option.map_some, Option.some.injEq] at hl
    obtain ⟨x, hx, ex, hmin⟩ := hspec i hi
    rw [← hl, ex]
    exact hmin c hcp
  · intro hi' hl
    by_cases hi1 : i + 1 < t.leaves.length
    · rw [List.getElem?_map, List.getElem?_eq_getElem hi1] at hl
      simp only [Option.map_some, Option.some.injEq] at hl
      obtain ⟨y, hy, ey, _⟩ := hspec (i+1) hi1
      rw [← hl, ey]
      exact hcross' i (i+1) hi hi1 (by omega) c hcp y hy
    · rw [List.getElem?_eq_none (by simp; omega)] at hl
      cases hl

/-- sanity: a concrete two-leaf tree under one internal node -/
example :
    lookup { leaves := [(⟨4096, 0, false, true, 0, 8192, [⟨1, false, []⟩, ⟨2, false, []⟩]⟩, false),
                        (⟨8192, 0, true, false, 4096, 0, [⟨3, false, []⟩, ⟨4, true, []⟩]⟩, false)],
             inner := [[(⟨12288, 0, 8192, [⟨3, 4096⟩]⟩, false)]] } 4
      = some ⟨4, true, []⟩ := by decide

end Mkdb.Tree
