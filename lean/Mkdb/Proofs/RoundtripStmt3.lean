import Mkdb.Proofs.RoundtripStmt2
/-!
Token-level round trip (C10), part 3: the generic comma-list lemmas for `sepLoop` and
`guardedLoop` (every element comes back, in order), the select list, table names, join chains
and the FROM clause.
-/
namespace Mkdb.Sql
open Mkdb.Scan Mkdb.Generated

/-! ## Comma separated lists -/

/-- the element `x`, and whether a comma follows (the end of every loop body) -/
def withComma {α} (x : α) (r : List Token) : R (α × Bool) :=
  match commaFollows r with
  | .ok b r' => .ok (x, b) r'
  | .err e => .err e
  | .panic s => .panic s
  | .fuel => .fuel

theorem withComma_comma {α} (x : α) (t : Token) (r : List Token) (h : t.ty = t_COMMA) :
    withComma x (t :: r) = .ok (x, true) r := by
  simp only [withComma, commaFollows_comma t r h]

theorem withComma_headNot {α} (x : α) (r : List Token) (h : HeadNot [t_COMMA] r) :
    withComma x r = .ok (x, false) r := by
  simp only [withComma, commaFollows_headNot r h]

theorem length_le_tokSep {α} (tk : Nat → α → List Token) (comma : Token)
    (hpos : ∀ j x, 1 ≤ (tk j x).length) (xs : List α) : ∀ i, xs.length ≤ (tokSep tk comma i xs).length := by
  induction xs with
  | nil => intro i; simp
  | cons x t ih =>
    intro i
    cases t with
    | nil => have := hpos i x; simpa [tokSep] using this
    | cons y r =>
      have := ih (i+1)
      have := hpos i x
      simp only [tokSep, List.length_append, List.length_cons] at *
      omega

theorem headNot_tokSep_cons {α} (tk : Nat → α → List Token) (comma : Token) (i : Nat) (x : α) (t : List α)
    (rest : List Token) {tys : List Int} (h : ∀ r, HeadNot tys (tk i x ++ r)) :
    HeadNot tys (tokSep tk comma i (x :: t) ++ rest) := by
  cases t with
  | nil => exact h rest
  | cons y r => simp only [tokSep, List.append_assoc]; exact h _

/-- **`sepLoop` lists are not cut**: a non-empty comma separated list whose elements the body
reads back is returned whole - every element, in order. -/
theorem sepLoop_tok {α} (body : P (α × Bool)) (tk : Nat → α → List Token) (comma : Token)
    (hc : comma.ty = t_COMMA) (bad : List Int) (hbad : bad.contains t_COMMA = false)
    (rest : List Token) (hrest : HeadNot (t_COMMA :: bad) rest) (N : Nat) (xs : List α) :
    (∀ j x r', x ∈ xs → (tk j x).length ≤ N → HeadNot bad r' → body (tk j x ++ r') = withComma x r') →
    xs ≠ [] → ∀ i f, xs.length ≤ f → (tokSep tk comma i xs).length ≤ N →
    sepLoop f body (tokSep tk comma i xs ++ rest) = .ok xs rest := by
  have hr1 : HeadNot [t_COMMA] rest := headNot_sub hrest (by simp)
  have hr2 : HeadNot bad rest := by
    cases rest with
    | nil => trivial
    | cons t r =>
      simp only [HeadNot, List.contains_cons, Bool.or_eq_false_iff] at hrest
      exact hrest.2
  induction xs with
  | nil => intro _ h; exact absurd rfl h
  | cons x t ih =>
    intro hbody _ i f hf hN
    obtain ⟨f1, rfl⟩ : ∃ f1, f = f1 + 1 := ⟨f - 1, by simp at hf; omega⟩
    cases t with
    | nil =>
      simp only [tokSep] at hN ⊢
      simp only [sepLoop, bind_apply, hbody i x rest List.mem_cons_self hN hr2,
        withComma_headNot x rest hr1, Bool.false_eq_true, ↓reduceIte, pure_apply]
    | cons y r =>
      simp only [tokSep, List.length_append, List.length_cons] at hN
      have hcm : HeadNot bad (comma :: (tokSep tk comma (i+1) (y :: r) ++ rest)) := by
        simp only [HeadNot, hc]; exact hbad
      have hrec := ih (fun j x' r' hx' => hbody j x' r' (List.mem_cons_of_mem _ hx')) (by simp)
        (i+1) f1 (by simp at hf ⊢; omega) (by omega)
      simp only [tokSep, List.append_assoc, List.cons_append, sepLoop, bind_apply,
        hbody i x _ List.mem_cons_self (by omega) hcm, withComma_comma x comma _ hc, ↓reduceIte, hrec, pure_apply]

/-- **`guardedLoop` lists are not cut**: a (possibly empty) comma separated list whose elements
start with a guard token is returned whole. -/
theorem guardedLoop_tok {α} (tys : List Int) (body : Token → P (α × Bool)) (tk : Nat → α → List Token)
    (comma : Token) (hc : comma.ty = t_COMMA) (bad : List Int) (hbad : bad.contains t_COMMA = false)
    (rest : List Token) (hrest : HeadNot (t_COMMA :: bad) rest) (N : Nat) (xs : List α) :
    (∀ j x r', x ∈ xs → (tk j x).length ≤ N → HeadNot bad r' →
      ∃ g tl, tk j x = g :: tl ∧ tys.contains g.ty = true ∧ body g (tl ++ r') = withComma x r') →
    (xs = [] → HeadNot tys rest) → ∀ i f, xs.length + 1 ≤ f → (tokSep tk comma i xs).length ≤ N →
    guardedLoop f tys body (tokSep tk comma i xs ++ rest) = .ok xs rest := by
  have hr1 : HeadNot [t_COMMA] rest := headNot_sub hrest (by simp)
  have hr2 : HeadNot bad rest := by
    cases rest with
    | nil => trivial
    | cons t r =>
      simp only [HeadNot, List.contains_cons, Bool.or_eq_false_iff] at hrest
      exact hrest.2
  induction xs with
  | nil =>
    intro _ hnil i f hf _
    obtain ⟨f1, rfl⟩ : ∃ f1, f = f1 + 1 := ⟨f - 1, by omega⟩
    simp only [tokSep, List.nil_append, guardedLoop, bind_apply, matchTy_headNot _ _ (hnil rfl), pure_apply]
  | cons x t ih =>
    intro hbody _ i f hf hN
    obtain ⟨f1, rfl⟩ : ∃ f1, f = f1 + 1 := ⟨f - 1, by omega⟩
    cases t with
    | nil =>
      simp only [tokSep] at hN ⊢
      obtain ⟨g, tl, he, hg, hb⟩ := hbody i x rest List.mem_cons_self hN hr2
      simp only [he, List.cons_append, guardedLoop, bind_apply, matchTy_cons, hg, ↓reduceIte, hb,
        withComma_headNot x rest hr1, Bool.false_eq_true, pure_apply]
    | cons y r =>
      simp only [tokSep, List.length_append, List.length_cons] at hN
      have hcm : HeadNot bad (comma :: (tokSep tk comma (i+1) (y :: r) ++ rest)) := by
        simp only [HeadNot, hc]; exact hbad
      have hrec := ih (fun j x' r' hx' => hbody j x' r' (List.mem_cons_of_mem _ hx')) (by simp)
        (i+1) f1 (by simp at hf ⊢; omega) (by omega)
      obtain ⟨g, tl, he, hg, hb⟩ := hbody i x _ List.mem_cons_self (by omega) hcm
      simp only [tokSep, he, List.append_assoc, List.cons_append, guardedLoop, bind_apply, matchTy_cons, hg,
        ↓reduceIte, hb, withComma_comma x comma _ hc, hrec, pure_apply]

/-! ## Select list -/

theorem tokItem_length (o : ROpts) (it : SelItem) : 1 ≤ (tokItem o it).length := by
  cases it with
  | star => simp [tokItem]
  | count c => cases c <;> simp [tokItem]
  | avg c => simp [tokItem]
  | expr c => exact tokCond_length o c

/-- the first token of a select item is COUNT, AVG, an identifier or a literal -/
theorem headNot_tokItem (o : ROpts) (ok : Lit → Bool) (hlit : ∀ l, ok l = true → GoodLit o.lit l)
    (it : SelItem) (hw : wfItem ok it = true) (rest : List Token) {tys : List Int}
    (h : firstBad tys = true) (h1 : tys.contains t_COUNT = false) (h2 : tys.contains t_AVG = false) :
    HeadNot tys (tokItem o it ++ rest) := by
  cases it with
  | star => simp [wfItem] at hw
  | count c => cases c <;> exact h1
  | avg c => exact h2
  | expr c => exact headNot_tokCond o ok hlit c hw rest h

theorem derivedColumn_tok (o : ROpts) (ok : Lit → Bool) (hlit : ∀ l, ok l = true → GoodLit o.lit l)
    (it : SelItem) (hw : wfItem ok it = true) (rest : List Token) (hr : HeadNot condBad rest)
    (f : Nat) (hf : (tokItem o it).length + 2 ≤ f) :
    derivedColumn f (tokItem o it ++ rest) = .ok it rest := by
  cases it with
  | star => simp [wfItem] at hw
  | count c =>
    cases c with
    | none => pexec [tokItem, derivedColumn, setFunction, columnReference]
    | some c =>
      have hd : HeadNot [t_DOT] (K o t_RPAREN :: rest) := headNot_cons rfl
      pexec [tokItem, derivedColumn, setFunction, columnReference_tok o c _ hd]
  | avg c =>
    have hd : HeadNot [t_DOT] (K o t_RPAREN :: rest) := headNot_cons rfl
    pexec [tokItem, derivedColumn, setFunction, columnReference_tok o c _ hd]
  | expr c =>
    have h1 : HeadNot [t_COUNT] (tokCond o c ++ rest) := headNot_tokCond o ok hlit c hw rest (by decide)
    have h2 : HeadNot [t_AVG] (tokCond o c ++ rest) := headNot_tokCond o ok hlit c hw rest (by decide)
    pexec [tokItem, derivedColumn, setFunction, matchTy_headNot _ _ h1, matchTy_headNot _ _ h2,
      orCond_tokCond o ok hlit c hw rest hr f hf]

/-- the body of the loop of `SelectList` -/
def selBody (f : Nat) : P (DerivedCol × Bool) := do
      let item ← derivedColumn f
      match ← matchTy [t_AS] with
      | some _ =>
        if !(← curIs [t_IDENT]) then
          let _ ← requireMatch [t_IDENT]   -- fails: the error is returned
          pure ()
      | none => pure ()
      let alias ← matchTy [t_IDENT]
      let dc : DerivedCol := ⟨item, match alias with | some a => a.text | none => []⟩
      pure (dc, ← commaFollows)

theorem selectList_eq (f : Nat) : selectList f = (do
    match ← matchTy [t_ASTRSK] with
    | some _ => pure [⟨.star, []⟩]
    | none => sepLoop f (selBody f)) := rfl

/-- what may not follow a select item: what may not follow a condition, AS, an identifier -/
def itemBad : List Int := [t_DOT, t_EQ, t_NEQ, t_LT, t_GT, t_LTE, t_GTE, t_AND, t_OR, t_AS, t_IDENT]

theorem selBody_tok (o : ROpts) (ok : Lit → Bool) (hlit : ∀ l, ok l = true → GoodLit o.lit l)
    (d : DerivedCol) (hw : wfItem ok d.item = true) (j : Nat) (r' : List Token) (hr : HeadNot itemBad r')
    (f : Nat) (hf : (tokDC o j d).length + 2 ≤ f) :
    selBody f (tokDC o j d ++ r') = withComma d r' := by
  obtain ⟨it, a⟩ := d
  simp only [tokDC, List.length_append] at hf
  have hfi : (tokItem o it).length + 2 ≤ f := by omega
  have hAs : HeadNot [t_AS] r' := headNot_sub hr (by decide)
  have hId : HeadNot [t_IDENT] r' := headNot_sub hr (by decide)
  cases a with
  | nil =>
    have hdc := derivedColumn_tok o ok hlit it hw r' (headNot_sub hr (by decide)) f hfi
    simp only [tokDC, tokAlias, List.isEmpty_nil, ↓reduceIte, List.append_nil, selBody, bind_apply, hdc,
      matchTy_headNot _ _ hAs, matchTy_headNot _ _ hId, pure_apply, withComma]
    cases commaFollows r' <;> rfl
  | cons b t =>
    by_cases hk : o.asKw j = true
    · have hdc := derivedColumn_tok o ok hlit it hw (K o t_AS :: I (b :: t) :: r') (headNot_cons rfl) f hfi
      pexec [tokDC, tokAlias, List.isEmpty_cons, hk, selBody, hdc, withComma]
      cases commaFollows r' <;> rfl
    · have hdc := derivedColumn_tok o ok hlit it hw (I (b :: t) :: r') (headNot_cons rfl) f hfi
      pexec [tokDC, tokAlias, List.isEmpty_cons, hk, selBody, hdc, withComma]
      cases commaFollows r' <;> rfl

/-- what may not follow a select list -/
def selBad : List Int := [t_COMMA, t_DOT, t_EQ, t_NEQ, t_LT, t_GT, t_LTE, t_GTE, t_AND, t_OR, t_AS, t_IDENT]

/-- **`SelectList` round trip**: `*`, or every item of the list with its alias. -/
theorem selectList_tok (o : ROpts) (ok : Lit → Bool) (hlit : ∀ l, ok l = true → GoodLit o.lit l)
    (sl : List DerivedCol) (hw : wfSelList ok sl = true) (rest : List Token) (hr : HeadNot selBad rest)
    (f : Nat) (hf : (tokSelList o sl).length + 2 ≤ f) :
    selectList f (tokSelList o sl ++ rest) = .ok sl rest := by
  by_cases hs : sl = [⟨.star, []⟩]
  · subst hs
    pexec [tokSelList, selectList_eq]
  · simp only [wfSelList, hs, decide_false, Bool.false_or, Bool.and_eq_true, Bool.not_eq_eq_eq_not,
      Bool.not_true, List.all_eq_true] at hw
    obtain ⟨hne, hall⟩ := hw
    simp only [tokSelList, hs, ↓reduceIte] at hf ⊢
    cases sl with
    | nil => simp at hne
    | cons d t =>
      have hh : HeadNot [t_ASTRSK] (tokSep (tokDC o) (K o t_COMMA) 0 (d :: t) ++ rest) := by
        apply headNot_tokSep_cons
        intro r
        simp only [tokDC, List.append_assoc]
        exact headNot_tokItem o ok hlit d.item (hall d List.mem_cons_self) _ (by decide) (by decide) (by decide)
      have hpos : ∀ j (x : DerivedCol), 1 ≤ (tokDC o j x).length := by
        intro j x
        have := tokItem_length o x.item
        simp only [tokDC, List.length_append]; omega
      have hlen := length_le_tokSep (tokDC o) (K o t_COMMA) hpos (d :: t) 0
      have hloop := sepLoop_tok (selBody f) (tokDC o) (K o t_COMMA) rfl itemBad (by decide) rest hr (f - 2)
        (d :: t) (fun j x r' hx hN hb => selBody_tok o ok hlit x (hall x hx) j r' hb f (by omega))
        (by simp) 0 f (by omega) (by omega)
      simp only [selectList_eq, bind_apply, matchTy_headNot _ _ hh, hloop]

/-! ## Table names, joins, FROM -/

theorem tableName_tok (t : TableName) (rest : List Token) (h : HeadNot [t_IDENT] rest) :
    tableName (tokTN t ++ rest) = .ok t rest := by
  obtain ⟨n, a⟩ := t
  cases a with
  | none => pexec [tokTN, tableName, matchTy_headNot _ _ h, Option.map_none]
  | some a => pexec [tokTN, tableName, Option.map_some]

theorem tokTN_length (t : TableName) : 1 ≤ (tokTN t).length := by
  simp [tokTN]

theorem curIs_headNot (tys : List Int) (rest : List Token) (h : HeadNot tys rest)
    (hE : tys.contains t_EOF = false) : curIs tys rest = .ok false rest := by
  cases rest with
  | nil => simp only [curIs, List.headD_nil, eofToken, hE]
  | cons t r =>
    simp only [HeadNot] at h
    simp only [curIs, List.headD_cons, h]

theorem headNot_tokJoins (o : ROpts) (i : Nat) (js : List JoinSpec) {tys : List Int}
    (h : tys.all (fun x => ![t_JOIN, t_LEFT, t_RIGHT, t_INNER].contains x) = true) :
    HeadNot tys (tokJoins o i js) := by
  have hc : ∀ x, [t_JOIN, t_LEFT, t_RIGHT, t_INNER].contains x = true → tys.contains x = false :=
    fun x hx => contains_disjoint hx h
  cases js with
  | nil => trivial
  | cons j js =>
    obtain ⟨jt, tn, on⟩ := j
    cases jt with
    | left => exact hc t_LEFT rfl
    | right => exact hc t_RIGHT rfl
    | inner =>
      simp only [tokJoins, tokJoinKw]
      split
      · exact hc t_INNER rfl
      · exact hc t_JOIN rfl

/-- what may not follow a join chain -/
def joinBad : List Int := [t_DOT, t_EQ, t_NEQ, t_LT, t_GT, t_LTE, t_GTE, t_AND, t_OR, t_JOIN, t_LEFT, t_RIGHT, t_INNER]

theorem tokJoinKw_length (o : ROpts) (i : Nat) (jt : JoinType) : 1 ≤ (tokJoinKw o i jt).length := by
  cases jt <;> simp [tokJoinKw]
  split <;> simp

/-- **join chains round trip**: every join of the chain, with its kind (LEFT / RIGHT / INNER written
or not), table, alias and ON condition, nested to the left as the parser nests them. -/
theorem joinLoop_tok (o : ROpts) (ok : Lit → Bool) (hlit : ∀ l, ok l = true → GoodLit o.lit l)
    (rest : List Token) (hr : HeadNot joinBad rest) (js : List JoinSpec) :
    (js.all fun j => wfCond ok j.2.2) = true → ∀ (lhs : TableRef) (i f : Nat),
    (tokJoins o i js).length + 2 ≤ f →
    joinLoop f lhs (tokJoins o i js ++ rest) = .ok (js.foldl mkJoin lhs) rest := by
  induction js with
  | nil =>
    intro _ lhs i f hf
    obtain ⟨f1, rfl⟩ : ∃ f1, f = f1 + 1 := ⟨f - 1, by omega⟩
    have h : HeadNot [t_JOIN, t_LEFT, t_RIGHT, t_INNER] rest := headNot_sub hr (by decide)
    simp only [tokJoins, List.nil_append, joinLoop, bind_apply, curIs_headNot _ _ h rfl, Bool.false_eq_true,
      ↓reduceIte, pure_apply, List.foldl_nil]
  | cons j js ih =>
    intro hw lhs i f hf
    obtain ⟨jt, tn, on⟩ := j
    simp only [List.all_cons, Bool.and_eq_true] at hw
    have hk := tokJoinKw_length o i jt
    have ht := tokTN_length tn
    have hcl := tokCond_length o on
    simp only [tokJoins, List.length_append, List.length_cons] at hf
    obtain ⟨f1, rfl⟩ : ∃ f1, f = f1 + 1 := ⟨f - 1, by omega⟩
    have hrec := ih hw.2 (.join lhs jt tn on) (i+1) f1 (by omega)
    have hfol : HeadNot condBad (tokJoins o (i+1) js ++ rest) :=
      headNot_append (headNot_tokJoins o (i+1) js (by decide)) (headNot_sub hr (by decide))
    have hon := orCond_tokCond o ok hlit on hw.1 _ hfol f1 (by omega)
    have htn := tableName_tok tn (K o t_ON :: (tokCond o on ++ (tokJoins o (i+1) js ++ rest))) (headNot_cons rfl)
    cases jt with
    | left => pexec [tokJoins, tokJoinKw, joinLoop, htn, hon, hrec, List.foldl_cons, mkJoin]
    | right => pexec [tokJoins, tokJoinKw, joinLoop, htn, hon, hrec, List.foldl_cons, mkJoin]
    | inner =>
      by_cases hk : o.innerKw i = true
      · pexec [tokJoins, tokJoinKw, hk, joinLoop, htn, hon, hrec, List.foldl_cons, mkJoin]
      · pexec [tokJoins, tokJoinKw, hk, joinLoop, htn, hon, hrec, List.foldl_cons, mkJoin]

theorem foldl_mkJoin_joins (tr : TableRef) : tr.joins.foldl mkJoin (.table tr.base) = tr := by
  induction tr with
  | table t => rfl
  | join l jt r on ih =>
    simp only [TableRef.joins, TableRef.base, List.foldl_append, ih, List.foldl_cons, List.foldl_nil, mkJoin]

/-- what may not follow a FROM clause (nor stand in the place of an absent one) -/
def fromBad : List Int :=
  [t_DOT, t_EQ, t_NEQ, t_LT, t_GT, t_LTE, t_GTE, t_AND, t_OR, t_JOIN, t_LEFT, t_RIGHT, t_INNER, t_IDENT, t_FROM]

/-- **FROM clause round trip** -/
theorem fromClause_tok (o : ROpts) (ok : Lit → Bool) (hlit : ∀ l, ok l = true → GoodLit o.lit l)
    (fr : Option TableRef) (hw : ∀ tr, fr = some tr → (tr.joins.all fun j => wfCond ok j.2.2) = true)
    (rest : List Token) (hr : HeadNot fromBad rest) (f : Nat) (hf : (tokFrom o fr).length + 2 ≤ f) :
    fromClause f (tokFrom o fr ++ rest) = .ok fr rest := by
  cases fr with
  | none =>
    have h : HeadNot [t_FROM] rest := headNot_sub hr (by decide)
    simp only [tokFrom, List.nil_append, fromClause, bind_apply, matchTy_headNot _ _ h, pure_apply]
  | some tr =>
    simp only [tokFrom, List.length_cons, List.length_append] at hf
    have hj := joinLoop_tok o ok hlit rest (headNot_sub hr (by decide)) tr.joins (hw tr rfl) (.table tr.base) 0 f (by omega)
    have hfol : HeadNot [t_IDENT] (tokJoins o 0 tr.joins ++ rest) :=
      headNot_append (headNot_tokJoins o 0 tr.joins (by decide)) (headNot_sub hr (by decide))
    have htn := tableName_tok tr.base _ hfol
    pexec [tokFrom, fromClause, htn, hj, foldl_mkJoin_joins]

end Mkdb.Sql
