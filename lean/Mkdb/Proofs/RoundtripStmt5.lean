import Mkdb.Proofs.RoundtripStmt4
/-!
Token-level round trip (C10), part 5: `Select`, CREATE DATABASE / TABLE, INSERT, UPDATE, DELETE,
USE, SHOW, `parseStatement` and `Parser.Parse`.
-/
namespace Mkdb.Sql
open Mkdb.Scan Mkdb.Generated

/-- What may not follow a statement: every token some production would go on reading
(a closing semicolon or the end of the input is none of them). -/
def stmtBad : List Int :=
  [t_COMMA, t_DOT, t_EQ, t_NEQ, t_LT, t_GT, t_LTE, t_GTE, t_AND, t_OR, t_AS, t_IDENT, t_JOIN, t_LEFT, t_RIGHT,
   t_INNER, t_FROM, t_WHERE, t_GROUP, t_ORDER, t_ASC, t_DESC, t_LIMIT, t_OFFSET, t_LPAREN]

theorem hasNext_short (rest : List Token) (h : rest.length ≤ 1) : hasNext rest = .ok false rest := by
  simp only [hasNext]
  congr 1
  simp only [decide_eq_false_iff_not]; omega

theorem groupByValid_ok (sl : List DerivedCol) (gb : List ColRef) (h : groupByValid sl gb = true) :
    validateGroupBy sl gb = .ok () := by
  unfold groupByValid at h
  split at h
  · rename_i u hu; exact hu
  · cases h

/-- **`Select` round trip**: select list, FROM with its join chain, WHERE, GROUP BY, ORDER BY,
LIMIT / OFFSET.  A SELECT without FROM must be followed by at most one token (`p.HasNext()`). -/
theorem parseSelect_tok (o : ROpts) (ok : Lit → Bool) (hlit : ∀ l, ok l = true → GoodLit o.lit l)
    (s : Select) (hw : wfSelect ok s = true) (rest : List Token) (hr : HeadNot stmtBad rest)
    (hshort : s.from_ = none → rest.length ≤ 1)
    (f : Nat) (hf : (tokSelect o s).length + 2 ≤ f) :
    parseSelect f (tokSelect o s ++ rest) = .ok s rest := by
  obtain ⟨sl, fr, w, gb, ob, lim⟩ := s
  simp only [wfSelect, Bool.and_eq_true] at hw
  obtain ⟨⟨⟨hsl, hgv⟩, hlim⟩, hrestw⟩ := hw
  have hv := groupByValid_ok sl gb hgv
  cases fr with
  | none =>
    simp only [Bool.and_eq_true, Option.isNone_iff_eq_none, List.isEmpty_iff, Bool.not_eq_eq_eq_not, Bool.not_true] at hrestw
    obtain ⟨⟨⟨⟨rfl, rfl⟩, rfl⟩, hla⟩, hoa⟩ := hrestw
    obtain ⟨la, oa, l, off⟩ := lim
    simp only at hla hoa
    subst hla; subst hoa
    simp only [wfLimit, Bool.false_eq_true, ↓reduceIte, Bool.and_eq_true, decide_eq_true_eq] at hlim
    obtain ⟨rfl, rfl⟩ := hlim
    simp only [tokSelect] at hf ⊢
    obtain ⟨f1, rfl⟩ : ∃ f1, f = f1 + 1 := ⟨f - 1, by omega⟩
    have h1 := selectList_tok o ok hlit sl hsl rest (headNot_sub hr (by decide)) (f1 + 1) hf
    have h2 : HeadNot [t_FROM] rest := headNot_sub hr (by decide)
    have h3 : HeadNot [t_ORDER] rest := headNot_sub hr (by decide)
    have h4 : HeadNot [t_LIMIT, t_OFFSET] rest := headNot_sub hr (by decide)
    pexec [parseSelect, h1, fromClause, matchTy_headNot _ _ h2, hasNext_short rest (hshort rfl), hv,
      sortSpecList_eq, matchTy_headNot _ _ h3, limitOffsetClause, limitLoop, matchTy_headNot _ _ h4]
  | some tr =>
    simp only [Bool.and_eq_true] at hrestw
    simp only [tokSelect, List.length_append] at hf
    have hsel := selectList_tok o ok hlit sl hsl
      (tokFrom o (some tr) ++ (tokWhere o w ++ (tokGroupBy o gb ++ (tokOrderBy o ob ++ (tokLimit o lim ++ rest)))))
      (headNot_cons rfl) f (by omega)
    have hfrom := fromClause_tok o ok hlit (some tr) (fun tr' h => by cases h; exact hrestw.1)
      (tokWhere o w ++ (tokGroupBy o gb ++ (tokOrderBy o ob ++ (tokLimit o lim ++ rest))))
      (headNot_append (headNot_tokWhere o w rfl) (headNot_append (headNot_tokGroupBy o gb rfl)
        (headNot_append (headNot_tokOrderBy o ob rfl) (headNot_append (headNot_tokLimit o lim rfl rfl)
          (headNot_sub hr (by decide)))))) f (by omega)
    have hwhere := whereClause_tok o ok hlit w hrestw.2
      (tokGroupBy o gb ++ (tokOrderBy o ob ++ (tokLimit o lim ++ rest)))
      (headNot_append (headNot_tokGroupBy o gb rfl)
        (headNot_append (headNot_tokOrderBy o ob rfl) (headNot_append (headNot_tokLimit o lim rfl rfl)
          (headNot_sub hr (by decide))))) f (by omega)
    have hgroup := groupByClause_tok o gb (tokOrderBy o ob ++ (tokLimit o lim ++ rest))
      (headNot_append (headNot_tokOrderBy o ob rfl) (headNot_append (headNot_tokLimit o lim rfl rfl)
          (headNot_sub hr (by decide)))) f (by omega)
    have horder := sortSpecList_tok o ob (tokLimit o lim ++ rest)
      (headNot_append (headNot_tokLimit o lim rfl rfl) (headNot_sub hr (by decide))) f (by omega)
    have hlimit := limitOffsetClause_tok o ok hlit lim hlim rest (headNot_sub hr (by decide)) f (by omega)
    simp only [tokSelect, List.append_assoc, parseSelect, bind_apply, hsel, hfrom, hwhere, hgroup, hv, horder,
      hlimit, pure_apply]

/-! ## CREATE -/

/-- the body of the loop of `TableElements` -/
def colDefBody : Token → P (ColDef × Bool) := fun nameTok => do
    let cur ← curTok
    advance
    let ty ← (do
      if cur.ty == t_T_INT then pure ColType.int
      else if cur.ty == t_T_BIGINT then pure ColType.bigint
      else if cur.ty == t_T_VARCHAR then
        let _ ← requireMatch [t_LPAREN]
        let n ← requireInt
        let _ ← requireMatch [t_RPAREN]
        pure (ColType.varchar n)
      else if cur.ty == t_T_BOOL then pure ColType.boolean
      else fail .syntax)
    pure (⟨nameTok.text, ty⟩, ← commaFollows)

theorem tableElements_eq (f : Nat) : tableElements f = (do
    let _ ← requireMatch [t_LPAREN]
    let cols ← guardedLoop f [t_IDENT] colDefBody
    let _ ← requireMatch [t_RPAREN]
    pure cols) := rfl

theorem colDefBody_tok (o : ROpts) (ok : Lit → Bool) (hlit : ∀ l, ok l = true → GoodLit o.lit l)
    (c : ColDef) (hw : wfColType ok c.ty = true) (r' : List Token) :
    colDefBody (I c.name) (tokColType o c.ty ++ r') = withComma c r' := by
  obtain ⟨n, ty⟩ := c
  cases ty with
  | int => pexec [tokColType, colDefBody, withComma]; cases commaFollows r' <;> rfl
  | bigint => pexec [tokColType, colDefBody, withComma]; cases commaFollows r' <;> rfl
  | boolean => pexec [tokColType, colDefBody, withComma]; cases commaFollows r' <;> rfl
  | varchar k =>
    have hri := requireInt_tok o.lit k (hlit _ hw) (K o t_RPAREN :: r')
    pexec [tokColType, colDefBody, hri, withComma]; cases commaFollows r' <;> rfl

/-- **column definitions are not cut**: every column with its type (INT, BIGINT, VARCHAR(n), BOOLEAN). -/
theorem tableElements_tok (o : ROpts) (ok : Lit → Bool) (hlit : ∀ l, ok l = true → GoodLit o.lit l)
    (cols : List ColDef) (hw : (cols.all fun c => wfColType ok c.ty) = true) (rest : List Token)
    (f : Nat) (hf : (tokSep (tokColDef o) (K o t_COMMA) 0 cols).length + 2 ≤ f) :
    tableElements f (K o t_LPAREN :: (tokSep (tokColDef o) (K o t_COMMA) 0 cols ++ K o t_RPAREN :: rest)) =
      .ok cols rest := by
  have hpos : ∀ j (x : ColDef), 1 ≤ (tokColDef o j x).length := by intro j x; simp [tokColDef]
  have hlen := length_le_tokSep (tokColDef o) (K o t_COMMA) hpos cols 0
  have hloop := guardedLoop_tok [t_IDENT] colDefBody (tokColDef o) (K o t_COMMA) rfl [] rfl
    (K o t_RPAREN :: rest) (headNot_cons rfl) f cols
    (fun j x r' hx _ _ => ⟨I x.name, tokColType o x.ty, rfl, rfl,
      colDefBody_tok o ok hlit x (List.all_eq_true.mp hw x hx) r'⟩)
    (fun _ => headNot_cons rfl) 0 f (by omega) (by omega)
  pexec [tableElements_eq, hloop]

theorem parseCreate_db (o : ROpts) (n : Bytes) (rest : List Token) (f : Nat) :
    parseCreate f (K o t_DATABASE :: I n :: rest) = .ok (.createDatabase n) rest := by
  pexec [parseCreate]

theorem parseCreate_table (o : ROpts) (ok : Lit → Bool) (hlit : ∀ l, ok l = true → GoodLit o.lit l)
    (n : Bytes) (cols : List ColDef) (hw : (cols.all fun c => wfColType ok c.ty) = true) (rest : List Token)
    (f : Nat) (hf : (tokSep (tokColDef o) (K o t_COMMA) 0 cols).length + 2 ≤ f) :
    parseCreate f (K o t_TABLE :: ((if n.isEmpty then [] else [I n]) ++
      K o t_LPAREN :: (tokSep (tokColDef o) (K o t_COMMA) 0 cols ++ [K o t_RPAREN])) ++ rest) =
      .ok (.createTable n cols) rest := by
  have ht := tableElements_tok o ok hlit cols hw rest f hf
  cases n with
  | nil => pexec [parseCreate, List.isEmpty_nil, ht]
  | cons b t => pexec [parseCreate, List.isEmpty_cons, ht]

/-! ## INSERT -/

def insColBody : Token → P (Bytes × Bool) := fun t => do pure (t.text, ← commaFollows)

def valBody : Token → P (Lit × Bool) := fun t => do
      match tokenVal t with
      | .error e => fail e
      | .ok l => pure (l, ← commaFollows)

def rowBody (f : Nat) : Token → P (List Lit × Bool) := fun _ => do
    let vals ← guardedLoop f literalTys valBody
    let _ ← requireMatch [t_RPAREN]
    pure (vals, ← commaFollows)

def insColsP (f : Nat) : P (List Bytes) := do
    match ← matchTy [t_LPAREN] with
    | none => pure []
    | some _ =>
      let cs ← guardedLoop f [t_IDENT] insColBody
      let _ ← requireMatch [t_RPAREN]
      pure cs

theorem parseInsert_eq (f : Nat) : parseInsert f = (do
    let _ ← requireMatch [t_INTO]
    let tbl ← requireMatch [t_IDENT]
    let cols ← insColsP f
    let _ ← requireMatch [t_VALUES]
    let rows ← guardedLoop f [t_LPAREN] (rowBody f)
    pure (.insert tbl.text cols rows)) := rfl

theorem insColsP_tok (o : ROpts) (cols : List Bytes) (rest : List Token) (hr : HeadNot [t_LPAREN] rest)
    (f : Nat) (hf : (tokInsCols o cols).length + 2 ≤ f) :
    insColsP f (tokInsCols o cols ++ rest) = .ok cols rest := by
  have hpos : ∀ j (x : Bytes), 1 ≤ (tokInsCol j x).length := by intro j x; simp [tokInsCol]
  have hlen := length_le_tokSep tokInsCol (K o t_COMMA) hpos cols 0
  have hN : (tokSep tokInsCol (K o t_COMMA) 0 cols).length + 2 ≤ f := by
    cases cols with
    | nil => simp [tokSep]; omega
    | cons c t =>
      simp only [tokInsCols, List.isEmpty_cons, Bool.false_eq_true, ↓reduceIte, List.length_cons,
        List.length_append] at hf
      omega
  have hloop := guardedLoop_tok [t_IDENT] insColBody tokInsCol (K o t_COMMA) rfl [] rfl
    (K o t_RPAREN :: rest) (headNot_cons rfl) f cols
    (fun j x r' _ _ _ => ⟨I x, [], rfl, rfl, by
      simp only [insColBody, bind_apply, pure_apply, List.nil_append, withComma]
      cases commaFollows r' <;> rfl⟩)
    (fun _ => headNot_cons rfl) 0 f (by omega) (by omega)
  cases cols with
  | nil =>
    by_cases hp : o.emptyColParens = true
    · simp only [tokSep, List.nil_append] at hloop
      pexec [tokInsCols, List.isEmpty_nil, hp, insColsP, hloop]
    · simp only [tokInsCols, List.isEmpty_nil, hp, Bool.false_eq_true, ↓reduceIte, List.nil_append, insColsP,
        bind_apply, matchTy_headNot _ _ hr, pure_apply]
  | cons c t => pexec [tokInsCols, List.isEmpty_cons, insColsP, hloop]

theorem valBody_tok (o : ROpts) (l : Lit) (h : GoodLit o.lit l) (r' : List Token) :
    valBody (o.lit l) r' = withComma l r' := by
  simp only [valBody, h.2, bind_apply, pure_apply, withComma]
  cases commaFollows r' <;> rfl

/-- **VALUES rows are not cut**: every value of a row. -/
theorem rowBody_tok (o : ROpts) (ok : Lit → Bool) (hlit : ∀ l, ok l = true → GoodLit o.lit l)
    (row : List Lit) (hw : row.all ok = true) (r' : List Token) (f : Nat) (hf : row.length + 1 ≤ f) (g : Token) :
    rowBody f g (tokSep (tokLitItem o) (K o t_COMMA) 0 row ++ K o t_RPAREN :: r') = withComma row r' := by
  have hloop := guardedLoop_tok literalTys valBody (tokLitItem o) (K o t_COMMA) rfl [] rfl
    (K o t_RPAREN :: r') (headNot_cons rfl) (tokSep (tokLitItem o) (K o t_COMMA) 0 row).length row
    (fun j x r'' hx _ _ => ⟨o.lit x, [], rfl, (hlit x (List.all_eq_true.mp hw x hx)).1,
      valBody_tok o x (hlit x (List.all_eq_true.mp hw x hx)) _⟩)
    (fun _ => headNot_cons rfl) 0 f hf (Nat.le_refl _)
  pexec [rowBody, hloop, withComma]
  cases commaFollows r' <;> rfl

theorem tokRow_length (o : ROpts) (j : Nat) (row : List Lit) : row.length + 2 ≤ (tokRow o j row).length := by
  have hpos : ∀ j (x : Lit), 1 ≤ (tokLitItem o j x).length := by intro j x; simp [tokLitItem]
  have := length_le_tokSep (tokLitItem o) (K o t_COMMA) hpos row 0
  simp only [tokRow, List.length_cons, List.length_append, List.length_nil]; omega

/-- **INSERT round trip**: with or without a column list, any number of VALUES rows. -/
theorem parseInsert_tok (o : ROpts) (ok : Lit → Bool) (hlit : ∀ l, ok l = true → GoodLit o.lit l)
    (t : Bytes) (cols : List Bytes) (rows : List (List Lit)) (hw : (rows.all fun r => r.all ok) = true)
    (rest : List Token) (hr : HeadNot [t_COMMA, t_LPAREN] rest) (f : Nat)
    (hf : (tokInsCols o cols).length + (tokSep (tokRow o) (K o t_COMMA) 0 rows).length + 2 ≤ f) :
    parseInsert f (K o t_INTO :: I t :: (tokInsCols o cols ++
      K o t_VALUES :: tokSep (tokRow o) (K o t_COMMA) 0 rows) ++ rest) = .ok (.insert t cols rows) rest := by
  have hcols := insColsP_tok o cols (K o t_VALUES :: (tokSep (tokRow o) (K o t_COMMA) 0 rows ++ rest))
    (headNot_cons rfl) f (by omega)
  have hpos : ∀ j (x : List Lit), 1 ≤ (tokRow o j x).length := by
    intro j x; have := tokRow_length o j x; omega
  have hlen := length_le_tokSep (tokRow o) (K o t_COMMA) hpos rows 0
  have hloop := guardedLoop_tok [t_LPAREN] (rowBody f) (tokRow o) (K o t_COMMA) rfl [] rfl
    rest (headNot_sub hr (by decide)) (f - 2) rows
    (fun j x r' hx hN _ => ⟨K o t_LPAREN, tokSep (tokLitItem o) (K o t_COMMA) 0 x ++ [K o t_RPAREN], rfl, rfl, by
      have := tokRow_length o j x
      simp only [List.append_assoc, List.cons_append, List.nil_append]
      exact rowBody_tok o ok hlit x (List.all_eq_true.mp hw x hx) r' f (by omega) _⟩)
    (fun _ => headNot_sub hr (by decide)) 0 f (by omega) (by omega)
  pexec [parseInsert_eq, hcols, hloop]

/-! ## UPDATE, DELETE -/

def setBody : Token → P ((Bytes × VExpr) × Bool) := fun col => do
    let _ ← requireMatch [t_EQ]
    let v ← valueExpression
    pure ((col.text, v), ← commaFollows)

theorem parseUpdate_eq (f : Nat) : parseUpdate f = (do
    let tbl ← requireMatch [t_IDENT]
    let _ ← requireMatch [t_SET]
    let sets ← guardedLoop f [t_IDENT] setBody
    let w ← whereClause f
    pure (.update tbl.text sets w)) := rfl

theorem setBody_tok (o : ROpts) (ok : Lit → Bool) (hlit : ∀ l, ok l = true → GoodLit o.lit l)
    (a : Bytes × VExpr) (hw : wfV ok a.2 = true) (r' : List Token) (hr : HeadNot [t_DOT] r') :
    setBody (I a.1) (K o t_EQ :: tokVE o a.2 ++ r') = withComma a r' := by
  obtain ⟨c, v⟩ := a
  pexec [setBody, valueExpression_tok2 o ok hlit v hw r' hr, withComma]
  cases commaFollows r' <;> rfl

/-- **UPDATE round trip**: every SET assignment, and the WHERE clause. -/
theorem parseUpdate_tok (o : ROpts) (ok : Lit → Bool) (hlit : ∀ l, ok l = true → GoodLit o.lit l)
    (t : Bytes) (sets : List (Bytes × VExpr)) (w : Option Cond)
    (hw : ((sets.all fun a => wfV ok a.2) && wfOptCond ok w) = true)
    (rest : List Token) (hr : HeadNot stmtBad rest) (f : Nat)
    (hf : (tokSep (tokSet o) (K o t_COMMA) 0 sets).length + (tokWhere o w).length + 2 ≤ f) :
    parseUpdate f (I t :: K o t_SET :: (tokSep (tokSet o) (K o t_COMMA) 0 sets ++ tokWhere o w) ++ rest) =
      .ok (.update t sets w) rest := by
  simp only [Bool.and_eq_true] at hw
  have hpos : ∀ j (x : Bytes × VExpr), 1 ≤ (tokSet o j x).length := by intro j x; simp [tokSet]
  have hlen := length_le_tokSep (tokSet o) (K o t_COMMA) hpos sets 0
  have hloop := guardedLoop_tok [t_IDENT] setBody (tokSet o) (K o t_COMMA) rfl [t_DOT] rfl
    (tokWhere o w ++ rest) (headNot_append (headNot_tokWhere o w rfl) (headNot_sub hr (by decide))) f sets
    (fun j x r' hx _ hb => ⟨I x.1, K o t_EQ :: tokVE o x.2, rfl, rfl,
      setBody_tok o ok hlit x (List.all_eq_true.mp hw.1 x hx) r' hb⟩)
    (fun _ => headNot_append (headNot_tokWhere o w rfl) (headNot_sub hr (by decide))) 0 f (by omega) (by omega)
  have hwh := whereClause_tok o ok hlit w hw.2 rest (headNot_sub hr (by decide)) f (by omega)
  pexec [parseUpdate_eq, hloop, hwh]

theorem parseDelete_tok (o : ROpts) (ok : Lit → Bool) (hlit : ∀ l, ok l = true → GoodLit o.lit l)
    (t : Bytes) (w : Option Cond) (hw : wfOptCond ok w = true)
    (rest : List Token) (hr : HeadNot stmtBad rest) (f : Nat) (hf : (tokWhere o w).length + 2 ≤ f) :
    parseDelete f (K o t_FROM :: I t :: tokWhere o w ++ rest) = .ok (.delete t w) rest := by
  have hwh := whereClause_tok o ok hlit w hw rest (headNot_sub hr (by decide)) f hf
  pexec [parseDelete, hwh]

/-! ## SHOW -/

theorem databases_eq : "databases".toUTF8.toList = databasesBytes := by with_unfolding_all decide

theorem parseShow_tok (o : ROpts) (rest : List Token) : parseShow (tokShow o ++ rest) = .ok .showDatabases rest := by
  unfold tokShow
  split
  · rename_i b _
    split
    · rename_i hb
      have h1 : (t_IDENT == t_DATABASE) = false := rfl
      have h2 : (t_IDENT == t_IDENT) = true := rfl
      pexec [parseShow, databases_eq, hb, h1, h2, Bool.true_and, beq_self_eq_true]
    · pexec [parseShow]
  · pexec [parseShow]

/-! ## Statements -/

/-- **`parseStatement` round trip**: every well-formed statement, every spelling, is read back, and
exactly its tokens are consumed - provided the next token is none a production would go on
reading (`stmtBad`), that at most one token follows a SELECT without FROM, and `f` is at least
the number of tokens + 2. -/
theorem parseStmt_tok (o : ROpts) (ok : Lit → Bool) (hlit : ∀ l, ok l = true → GoodLit o.lit l)
    (s : Stmt) (hw : wfStmt ok s = true) (rest : List Token) (hr : HeadNot stmtBad rest)
    (hshort : needsShortTail s = true → rest.length ≤ 1)
    (f : Nat) (hf : (renderStmt o s).length + 2 ≤ f) :
    parseStmt f (renderStmt o s ++ rest) = .ok s rest := by
  cases s with
  | createDatabase n => pexec [renderStmt, parseStmt, parseCreate_db]
  | createTable n cols =>
    simp only [renderStmt, List.length_cons, List.length_append] at hf
    have h := parseCreate_table o ok hlit n cols hw rest f (by omega)
    simp only [List.cons_append, List.append_assoc, List.nil_append] at h
    pexec [renderStmt, parseStmt, h]
  | select sel =>
    simp only [renderStmt, List.length_cons] at hf
    have h := parseSelect_tok o ok hlit sel hw rest hr
      (fun hn => hshort (by simp only [needsShortTail, hn, Option.isNone_none])) f (by omega)
    pexec [renderStmt, parseStmt, h]
  | insert t cols rows =>
    simp only [renderStmt, List.length_cons, List.length_append] at hf
    have h := parseInsert_tok o ok hlit t cols rows hw rest (headNot_sub hr (by decide)) f (by omega)
    simp only [List.cons_append, List.append_assoc] at h
    pexec [renderStmt, parseStmt, h]
  | update t sets w =>
    simp only [renderStmt, List.length_cons, List.length_append] at hf
    have h := parseUpdate_tok o ok hlit t sets w hw rest hr f (by omega)
    simp only [List.cons_append, List.append_assoc] at h
    pexec [renderStmt, parseStmt, h]
  | delete t w =>
    simp only [renderStmt, List.length_cons] at hf
    have h := parseDelete_tok o ok hlit t w hw rest hr f (by omega)
    simp only [List.cons_append] at h
    pexec [renderStmt, parseStmt, h]
  | use db => pexec [renderStmt, parseStmt]
  | showDatabases => pexec [renderStmt, parseStmt, parseShow_tok]


end Mkdb.Sql
