import Mkdb.Props.C11
import Mkdb.Proofs.EngineNodes1
/-!
The nodes the engine can produce are nodes the page codec round-trips, part 2: the field-range
invariant through whole histories (`Mkdb.Tree.TOp` / `runOps` of `Mkdb/Props/C11.lean`).

* `OpInRange`: what the Go types and the engine's own checks give for one operation: a row id is a
  `uint32`, an LSN a `uint64`, an updated value was accepted by `updateCell` (at most `maxValueSize`
  bytes; an inserted value needs no hypothesis, `insertAppend` checks it).
* `runOps_nf_mono`: the allocation frontier never goes down.
* `runOps_fields`: the field-range invariant after a history whose *final* frontier is at most `2^64`.
* `runOps_wf`: every page of the tree after such a history satisfies `Page.WF`.
-/
set_option autoImplicit false
namespace Mkdb.Tree
open Mkdb.Page Mkdb.Generated Mkdb.Bin

/-- key, LSN and value size of one operation are what the Go types (`uint32` row id, `uint64` LSN) and
`updateCell`'s size check allow -/
def OpInRange : TOp → Prop
  | .ins k lsn _ => k < 2 ^ 32 ∧ lsn < 2 ^ 64
  | .upd _ lsn v => lsn < 2 ^ 64 ∧ v.length ≤ c_maxValueSize
  | .del _ lsn => lsn < 2 ^ 64

instance decOpInRange : (op : TOp) → Decidable (OpInRange op)
  | .ins k lsn _ => inferInstanceAs (Decidable (k < 2 ^ 32 ∧ lsn < 2 ^ 64))
  | .upd _ lsn v => inferInstanceAs (Decidable (lsn < 2 ^ 64 ∧ v.length ≤ c_maxValueSize))
  | .del _ lsn => inferInstanceAs (Decidable (lsn < 2 ^ 64))

theorem applyOp_nf_mono (s : Levels × Nat) (op : TOp) : s.2 ≤ (applyOp s op).2 := by
  cases op with
  | ins k lsn v =>
    simp only [applyOp]
    split
    · rename_i r hr
      exact insertAppend_nextFree s.1 r.1 k lsn s.2 r.2 v hr
    · exact Nat.le_refl _
  | upd k lsn v => exact Nat.le_refl _
  | del k lsn => exact Nat.le_refl _

theorem runOps_nf_mono (ops : List TOp) : ∀ (s : Levels × Nat), s.2 ≤ (runOps s ops).2 := by
  induction ops with
  | nil => intro s; exact Nat.le_refl _
  | cons op rest ih => intro s; exact Nat.le_trans (applyOp_nf_mono s op) (ih (applyOp s op))

theorem applyOp_fields {P : Nat} (s : Levels × Nat) (op : TOp) (hop : OpInRange op)
    (hnf : (applyOp s op).2 ≤ P) (h : FieldsOK P (2 ^ 64) (2 ^ 32) s.1) :
    FieldsOK P (2 ^ 64) (2 ^ 32) (applyOp s op).1 := by
  cases op with
  | ins k lsn v =>
    simp only [applyOp] at hnf ⊢
    split
    · rename_i r hr
      rw [hr] at hnf
      exact insertAppend_fields (by decide) s.1 r.1 k lsn s.2 r.2 v hop.1 hop.2 hnf h hr
    · exact h
  | upd k lsn v => exact setVal_fields s.1 k lsn v hop.1 hop.2 h
  | del k lsn => exact setDeleted_fields s.1 k lsn hop h

/-- the field-range invariant through a history: the *final* frontier bounds every pointer -/
theorem runOps_fields {P : Nat} (ops : List TOp) : ∀ (s : Levels × Nat), (∀ op ∈ ops, OpInRange op) →
    (runOps s ops).2 ≤ P → FieldsOK P (2 ^ 64) (2 ^ 32) s.1 → FieldsOK P (2 ^ 64) (2 ^ 32) (runOps s ops).1 := by
  induction ops with
  | nil => intro s _ _ h; exact h
  | cons op rest ih =>
    intro s hops hnf h
    have hmono := runOps_nf_mono rest (applyOp s op)
    exact ih (applyOp s op) (fun o ho => hops o (List.mem_cons_of_mem _ ho)) hnf
      (applyOp_fields s op (hops op List.mem_cons_self) (Nat.le_trans hmono hnf) h)

/-- **Every page after a history is well formed for the page codec.** -/
theorem runOps_wf (off nf : Nat) (h : off < nf) (ops : List TOp) (hops : ∀ op ∈ ops, OpInRange op)
    (hnf : (runOps (emptyTree off, nf) ops).2 ≤ 2 ^ 64) :
    ∀ e ∈ flatten (runOps (emptyTree off, nf) ops).1, WF e.2.1 := by
  have hmono := runOps_nf_mono ops (emptyTree off, nf)
  have hf := runOps_fields ops (emptyTree off, nf) hops hnf
    (emptyTree_fields _ _ _ off (by show off < 2 ^ 64; simp only at hmono; omega) (by decide))
  exact hf.wf (C11_every_history off nf h ops).cap

end Mkdb.Tree
