import Mkdb.Proofs.PtSelfFree4
import Mkdb.Proofs.CrashPrefix
/-!
The page table's row about itself, part 5 (W10): **the C03 theorems on the database whose page table has
split.**

`split_page_table_torn_insert`: on `db8` (eight tables; the page table has split and its self-row is
stale, `db8_stale`), the append of the ten records of `INSERT INTO t1 VALUES (1), …, (9)` is cut after
ANY number `k` of them; the surviving records replayed on the store before the statement give a store
that abstracts to a plain database where `t1` holds a row prefix `(1), …, (j)` and every other table is
untouched.  The cut `k = 9` is the one inside the root-moving row: the INSERT record of row 9 is there,
the UPDATE record of the catalog row is not, and `replayOne` itself re-points the catalog row of `t1`
(`repointPageTable`: the first row of the page table whose offset is the old root 12288) - in a page
table that also holds the stale row `(sys_pages, 4096)`.
-/
set_option autoImplicit false
namespace Mkdb.Store
open Mkdb.Page Mkdb.Tuple Mkdb.Generated Mkdb.Tree Mkdb.Engine

def lrows9 : List (List Sql.Lit) :=
  [[.int 1], [.int 2], [.int 3], [.int 4], [.int 5], [.int 6], [.int 7], [.int 8], [.int 9]]

theorem lrows9_vals : (lrows9.map fun r => r.map Spec.litVal) = rows9 := rfl

theorem db8_wal : db8.wal = [] := by decide +kernel

/-- **A torn INSERT into a database whose page table has split**: every cut of the append of the
statement's records recovers to a row-prefix state (`Spec.rowPrefixStates`), every other table untouched,
the row-id counter advanced by exactly the rows applied. -/
theorem split_page_table_torn_insert (k : Nat) : ∃ sch8 pt8 tbls8,
    Ckpt sch8 db8 sdb8 pt8 tbls8 ∧ ¬ PtSelfRoot pt8 ∧
    ∃ rK ptR tblsK sdbK stK j,
      replayAll (db9.wal.take k) db8.store = (rK, none, false) ∧
      AbsV rK ptR sch8 tblsK sdbK ∧
      Spec.findTable sdbK [116, 49] = some stK ∧
      (([116, 49] : Bytes), stK.rows.map (·.vals)) ∈ Spec.rowPrefixStates sdb8 (.insert [116, 49] [] lrows9) ∧
      (∀ n, n ≠ ([116, 49] : Bytes) → Spec.findTable sdbK n = Spec.findTable sdb8 n) ∧
      j ≤ 9 ∧ rK.hdr.lastKey = db8.store.hdr.lastKey + j := by
  obtain ⟨sch8, pt8, tbls8, _, hk, hstale, run, _, _⟩ := split_page_table_crash
  refine ⟨sch8, pt8, tbls8, hk, hstale, ?_⟩
  cases run with
  | @insert _ db1 _ _ sdb1 _ _ n _ _ _ hvalid hspec hrunok heval hrest =>
    cases hrest
    have h := insert_crash_rowPrefixState sch8 (.nil db8 sdb8) db8_wal pt8 tbls8 hk.abs hk.self hk.fresh
      [116, 49] [] lrows9 (by rw [lrows9_vals]; exact hvalid) sdb9 (by rw [lrows9_vals]; exact hspec)
      (by rw [lrows9_vals]; exact hrunok) n db9 (by rw [lrows9_vals]; exact heval) k
    rw [db8_wal, List.nil_append, List.length_nil, List.drop_zero] at h
    exact h

end Mkdb.Store
