import Mkdb.Proofs.SizeBound3
/-!
C09 "never exhausts memory", part 4: the statement productions; `parseStmt` builds an AST of
size at most `3 * tokens + text bytes + 9` of the tokens it consumed.
-/
namespace Mkdb.Sql
open Mkdb.Scan Mkdb.Generated

/-- `p.Cur()` followed by `p.Advance()`: the token looked at is the token consumed, unless the
list is empty (then it is the EOF token and nothing is consumed). -/
theorem Sz.curAdvance {tw : Token → Nat} {β} {g : Token → P β} {n : Nat} {Q : β → Nat → Prop}
    (h1 : ∀ t, Sz tw (g t) (n + tw t) Q) (h0 : Sz tw (g eofToken) n Q) :
    Sz tw (Sql.curTok >>= fun cur => Sql.advance >>= fun _ => g cur) n Q := by
  intro ts b rest h
  cases ts with
  | nil =>
    have e : (Sql.curTok >>= fun cur => Sql.advance >>= fun _ => g cur) [] = g eofToken [] := rfl
    rw [e] at h
    exact h0 [] b rest h
  | cons t ts =>
    have e : (Sql.curTok >>= fun cur => Sql.advance >>= fun _ => g cur) (t :: ts) = g t ts := rfl
    rw [e] at h
    obtain ⟨pre, e1, q⟩ := h1 t ts b rest h
    refine ⟨t :: pre, by rw [e1]; rfl, ?_⟩
    simp only [wsum]
    rw [← Nat.add_assoc]; exact q

theorem Sz.tableElements {f n : Nat} :
    Sz tokCost (tableElements f) n (fun l m => lsz ColDef.size l + n ≤ m) := by
  have hloop : ∀ (body : Token → P (ColDef × Bool)) tys n,
      (∀ t j, Sz tokCost (body t) j (fun x m => 1 + ColDef.size x.1 + j ≤ m + tokCost t)) →
      Sz tokCost (Sql.guardedLoop f tys body) n (fun l m => lsz ColDef.size l + n ≤ m) :=
    fun body tys n h => Sz.guardedLoop f n h
  unfold Sql.tableElements
  sz

macro_rules | `(tactic| sz_known) => `(tactic| with_reducible exact Sz.tableElements)

theorem Sz.parseCreate {f n : Nat} :
    Sz tokCost (parseCreate f) n (fun s m => s.size + n ≤ m + 1) := by
  unfold Sql.parseCreate
  sz

theorem Sz.parseInsert {f n : Nat} :
    Sz tokCost (parseInsert f) n (fun s m => s.size + n ≤ m + 1) := by
  have hcols : ∀ (body : Token → P (Bytes × Bool)) tys n,
      (∀ t j, Sz tokCost (body t) j (fun x m => 1 + bsz x.1 + j ≤ m + tokCost t)) →
      Sz tokCost (Sql.guardedLoop f tys body) n (fun l m => lsz bsz l + n ≤ m) :=
    fun body tys n h => Sz.guardedLoop f n h
  have hvals : ∀ (body : Token → P (Lit × Bool)) tys n,
      (∀ t j, Sz tokCost (body t) j (fun x m => 1 + Lit.size x.1 + j ≤ m + tokCost t)) →
      Sz tokCost (Sql.guardedLoop f tys body) n (fun l m => lsz Lit.size l + n ≤ m) :=
    fun body tys n h => Sz.guardedLoop f n h
  have hrows : ∀ (body : Token → P (List Lit × Bool)) tys n,
      (∀ t j, Sz tokCost (body t) j (fun x m => 1 + lsz Lit.size x.1 + j ≤ m + tokCost t)) →
      Sz tokCost (Sql.guardedLoop f tys body) n (fun l m => lsz (lsz Lit.size) l + n ≤ m) :=
    fun body tys n h => Sz.guardedLoop f n h
  unfold Sql.parseInsert
  sz

theorem Sz.parseUpdate {f n : Nat} :
    Sz tokCost (parseUpdate f) n (fun s m => s.size + n ≤ m + 2) := by
  have hloop : ∀ (body : Token → P ((Bytes × VExpr) × Bool)) tys n,
      (∀ t j, Sz tokCost (body t) j (fun x m => 1 + setSize x.1 + j ≤ m + tokCost t)) →
      Sz tokCost (Sql.guardedLoop f tys body) n (fun l m => lsz setSize l + n ≤ m) :=
    fun body tys n h => Sz.guardedLoop f n h
  unfold Sql.parseUpdate
  sz

theorem Sz.parseDelete {f n : Nat} :
    Sz tokCost (parseDelete f) n (fun s m => s.size + n ≤ m + 2) := by
  unfold Sql.parseDelete
  sz

theorem Sz.parseShow {n : Nat} : Sz tokCost parseShow n (fun s m => s.size + n ≤ m + 1) := by
  unfold Sql.parseShow
  sz

/-- **The AST of a statement is linear in the tokens consumed**: `parseStmt` returns the token
list it did not consume (a suffix), and the size of the statement is at most 3 per consumed
token plus the text bytes of the consumed tokens plus 9. -/
theorem Sz.parseStmt {f n : Nat} :
    Sz tokCost (parseStmt f) n (fun s m => s.size + n ≤ m + 9) := by
  have := @Sz.parseCreate
  have := @Sz.parseSelect
  have := @Sz.parseInsert
  have := @Sz.parseUpdate
  have := @Sz.parseDelete
  have := @Sz.parseShow
  unfold Sql.parseStmt
  apply Sz.curAdvance
  · intro t
    sz
  · exact (Sz.fail : Sz tokCost (Sql.fail .syntax) n _)

theorem parseStmt_size (f : Nat) (ts : List Token) (s : Stmt) (rest : List Token)
    (h : parseStmt f ts = .ok s rest) :
    ∃ pre, ts = pre ++ rest ∧ s.size ≤ 3 * pre.length + textBytes pre + 9 := by
  obtain ⟨pre, e, q⟩ := (Sz.parseStmt (f := f) (n := 0)) ts s rest h
  refine ⟨pre, e, ?_⟩
  rw [wsum_tokCost] at q
  omega

end Mkdb.Sql
