import Mkdb.Proofs.RefineStmtB
import Mkdb.Proofs.CreateCat1
import Mkdb.Spec.Tables
import Mkdb.Model.Engine
/-!
# Column names: unknown and repeated names are refused

The repaired code refuses, before it changes anything, an INSERT / UPDATE that names a column the
table does not have or names one column twice, and a CREATE TABLE that uses one column name twice
(before the repair the value was dropped in silence, resp. the second column shadowed by the first).

* lists without repetition: `eraseDups_length_eq_iff` (`l.eraseDups.length = l.length ↔ l.Nodup`).
* the model's checks, characterised: `checkColumnsFrom_none_iff`, `checkColumns_none_iff`,
  `checkColumns_some` (only `fieldNotFound` / `fieldAmbiguous`), `checkFieldsFrom_none_iff`,
  `checkSetColumns_none_iff`.
* the plain model's check is the model's: `namesOK_iff`, `namesOK_iff_checkColumns`;
  `checkSetColumns_of_namesOK` (SET columns: for names that are valid UTF-8 and a table whose column
  names are distinct), `checkSetColumns_some_of_not_namesOK`, `checkSetColumns_none_checkColumns`.
* `insert_names_err`, `insert_unknown_column`, `insert_names_unchanged` (any store: the refusal, and
  that it changes nothing - `Filed` / `SameData`), `insert_ok_names` (an insert that succeeded named
  only columns of the table, each once).  Under the catalog invariant: `insert_names_refused_cat` in
  `SpecRefine3`, `update_names_refused` in `RefineStmtB2`.
* plain model: `specInsert_names`, `get_zip_named`, `get_zip_unnamed`, `rowOf_named`: a row the plain
  model accepts holds exactly the given values under the given names and NULL elsewhere.
-/
set_option autoImplicit false
namespace Mkdb.Store
open Mkdb.Page Mkdb.Tuple Mkdb.Generated Mkdb.Tree

/-! ### lists without repetition -/

theorem eraseDups_length_le {α} [BEq α] : ∀ (n : Nat) (l : List α), l.length ≤ n →
    l.eraseDups.length ≤ l.length
  | _, [], _ => by simp
  | 0, a :: as, h => by simp at h
  | n+1, a :: as, h => by
    rw [List.eraseDups_cons]
    have h1 := List.length_filter_le (fun b => !b == a) as
    have h2 := eraseDups_length_le n (as.filter fun b => !b == a)
      (by simp only [List.length_cons] at h; omega)
    simp only [List.length_cons]; omega

theorem eraseDups_of_nodup {α} [BEq α] [LawfulBEq α] : ∀ (l : List α), l.Nodup → l.eraseDups = l
  | [], _ => rfl
  | a :: as, h => by
    obtain ⟨ha, has⟩ := List.nodup_cons.mp h
    have hf : as.filter (fun b => !b == a) = as := by
      rw [List.filter_eq_self]
      intro b hb
      have : b ≠ a := fun heq => ha (heq ▸ hb)
      simpa using this
    rw [List.eraseDups_cons, hf, eraseDups_of_nodup as has]

theorem nodup_of_eraseDups_length {α} [BEq α] [LawfulBEq α] : ∀ (n : Nat) (l : List α), l.length ≤ n →
    l.eraseDups.length = l.length → l.Nodup
  | _, [], _, _ => List.nodup_nil
  | 0, a :: as, h, _ => by simp at h
  | n+1, a :: as, h, he => by
    rw [List.eraseDups_cons] at he
    simp only [List.length_cons] at he h
    have h1 := List.length_filter_le (fun b => !b == a) as
    have h2 := eraseDups_length_le n (as.filter fun b => !b == a) (by omega)
    have hfl : (as.filter fun b => !b == a).length = as.length := by omega
    have hall := List.length_filter_eq_length_iff.mp hfl
    have hf : as.filter (fun b => !b == a) = as := List.filter_eq_self.mpr hall
    rw [hf] at he
    refine List.nodup_cons.mpr ⟨?_, nodup_of_eraseDups_length n as (by omega) (by omega)⟩
    intro hmem
    have := hall a hmem
    simp at this

/-- the plain model's "no name twice" is `Nodup` -/
theorem eraseDups_length_eq_iff {α} [BEq α] [LawfulBEq α] (l : List α) :
    l.eraseDups.length = l.length ↔ l.Nodup :=
  ⟨nodup_of_eraseDups_length l.length l (Nat.le_refl _), fun h => by rw [eraseDups_of_nodup l h]⟩

theorem nodup_append_singleton {α} {l : List α} {a : α} : (l ++ [a]).Nodup ↔ l.Nodup ∧ a ∉ l := by
  rw [List.nodup_append]
  constructor
  · intro ⟨h1, _, h3⟩
    exact ⟨h1, fun hm => h3 a hm a (List.mem_singleton.mpr rfl) rfl⟩
  · intro ⟨h1, h2⟩
    refine ⟨h1, List.nodup_cons.mpr ⟨List.not_mem_nil, List.nodup_nil⟩, ?_⟩
    intro x hx y hy
    rw [List.mem_singleton] at hy
    subst hy
    intro heq
    exact h2 (heq ▸ hx)

/-! ### `checkColumns` -/

theorem any_name_iff (schema : List FieldDef) (c : String) :
    (schema.any fun fd => fd.name == c) = true ↔ c ∈ schema.map (·.name) := by
  rw [List.any_eq_true, List.mem_map]
  constructor
  · rintro ⟨fd, hfd, hb⟩; exact ⟨fd, hfd, by simpa using hb⟩
  · rintro ⟨fd, hfd, hb⟩; exact ⟨fd, hfd, by simpa using hb⟩

/-- `checkColumnsFrom` passes exactly when every name is a column, none was seen before, and no
name occurs twice -/
theorem checkColumnsFrom_none_iff (schema : List FieldDef) : ∀ (cs seen : List String),
    checkColumnsFrom schema seen cs = none ↔
      (∀ c ∈ cs, c ∈ schema.map (·.name)) ∧ (∀ c ∈ cs, c ∉ seen) ∧ cs.Nodup
  | [], seen => by simp [checkColumnsFrom]
  | c :: rest, seen => by
    unfold checkColumnsFrom
    by_cases h1 : (schema.any fun fd => fd.name == c) = true
    · have h1' := (any_name_iff schema c).mp h1
      simp only [h1, Bool.not_true, Bool.false_eq_true, if_false]
      by_cases h2 : seen.contains c = true
      · simp only [h2, if_true]
        constructor
        · intro h; cases h
        · intro ⟨_, h, _⟩
          exact absurd (List.contains_iff_mem.mp h2) (h c List.mem_cons_self)
      · simp only [h2, Bool.false_eq_true, if_false]
        have h2' : c ∉ seen := fun hm => h2 (List.contains_iff_mem.mpr hm)
        rw [checkColumnsFrom_none_iff schema rest (seen ++ [c])]
        constructor
        · intro ⟨a1, a2, a3⟩
          refine ⟨?_, ?_, List.nodup_cons.mpr ⟨?_, a3⟩⟩
          · intro x hx
            rcases List.mem_cons.mp hx with rfl | hx
            · exact h1'
            · exact a1 x hx
          · intro x hx
            rcases List.mem_cons.mp hx with rfl | hx
            · exact h2'
            · exact fun hm => a2 x hx (List.mem_append_left _ hm)
          · intro hm
            exact a2 c hm (List.mem_append_right _ (List.mem_singleton.mpr rfl))
        · intro ⟨b1, b2, b3⟩
          obtain ⟨b3a, b3b⟩ := List.nodup_cons.mp b3
          refine ⟨fun x hx => b1 x (List.mem_cons_of_mem _ hx), ?_, b3b⟩
          intro x hx hm
          rcases List.mem_append.mp hm with hm | hm
          · exact b2 x (List.mem_cons_of_mem _ hx) hm
          · rw [List.mem_singleton] at hm
            subst hm
            exact b3a hx
    · have h1' : c ∉ schema.map (·.name) := fun hm => h1 ((any_name_iff schema c).mpr hm)
      simp only [h1, Bool.not_false, if_true]
      constructor
      · intro h; cases h
      · intro ⟨h, _⟩
        exact absurd (h c List.mem_cons_self) h1'

/-- the only errors of the column-name check -/
theorem checkColumnsFrom_some (schema : List FieldDef) : ∀ (cs seen : List String) (e : SErr),
    checkColumnsFrom schema seen cs = some e → e = .fieldNotFound ∨ e = .fieldAmbiguous
  | [], _, _, h => by cases h
  | c :: rest, seen, e, h => by
    unfold checkColumnsFrom at h
    split at h
    · cases h; exact .inl rfl
    · split at h
      · cases h; exact .inr rfl
      · exact checkColumnsFrom_some schema rest _ e h

theorem checkColumns_some {schema : List FieldDef} {cs : List String} {e : SErr}
    (h : checkColumns schema cs = some e) : e = .fieldNotFound ∨ e = .fieldAmbiguous :=
  checkColumnsFrom_some schema cs [] e h

/-- **`checkColumns` passes exactly when every name is a column of the relation and no name occurs
twice.** -/
theorem checkColumns_none_iff (schema : List FieldDef) (cs : List String) :
    checkColumns schema cs = none ↔ (∀ c ∈ cs, c ∈ schema.map (·.name)) ∧ cs.Nodup := by
  unfold checkColumns
  rw [checkColumnsFrom_none_iff]
  simp

/-- a name that is not a column makes the check fail -/
theorem checkColumns_unknown {schema : List FieldDef} {cs : List String} {c : String}
    (hc : c ∈ cs) (hn : c ∉ schema.map (·.name)) : ∃ e, checkColumns schema cs = some e := by
  cases h : checkColumns schema cs with
  | some e => exact ⟨e, rfl⟩
  | none => exact absurd (((checkColumns_none_iff schema cs).mp h).1 c hc) hn

/-- an INSERT without a column list names every column of the relation: the check passes exactly
when the relation has no two columns of one name -/
theorem checkColumns_self (schema : List FieldDef) :
    checkColumns schema (schema.map (·.name)) = none ↔ (schema.map (·.name)).Nodup := by
  rw [checkColumns_none_iff]
  exact ⟨fun h => h.2, fun h => ⟨fun _ hc => hc, h⟩⟩

/-! ### the plain model's `namesOK` -/

theorem namesOK_iff (t : Spec.STable) (names : List String) :
    Spec.namesOK t names = true ↔ (∀ c ∈ names, c ∈ t.cols.map (·.name)) ∧ names.Nodup := by
  unfold Spec.namesOK
  rw [Bool.and_eq_true, List.all_eq_true, beq_iff_eq, eraseDups_length_eq_iff]
  constructor
  · intro ⟨h1, h2⟩
    exact ⟨fun c hc => (any_name_iff t.cols c).mp (h1 c hc), h2⟩
  · intro ⟨h1, h2⟩
    exact ⟨fun c hc => (any_name_iff t.cols c).mpr (h1 c hc), h2⟩

/-- **The plain model's name test is the model's `checkColumns`.** -/
theorem namesOK_iff_checkColumns (t : Spec.STable) (names : List String) :
    Spec.namesOK t names = true ↔ checkColumns t.cols names = none := by
  rw [namesOK_iff, checkColumns_none_iff]

theorem not_namesOK_checkColumns {t : Spec.STable} {names : List String}
    (h : Spec.namesOK t names = false) :
    ∃ e, checkColumns t.cols names = some e ∧ (e = .fieldNotFound ∨ e = .fieldAmbiguous) := by
  cases hc : checkColumns t.cols names with
  | some e => exact ⟨e, rfl, checkColumns_some hc⟩
  | none =>
    rw [(namesOK_iff_checkColumns t names).mpr hc] at h
    cases h

/-! ### CREATE TABLE: `checkFieldsFrom` -/

theorem checkFieldsFrom_none_iff : ∀ (fields : List FieldDef) (seen : List String),
    checkFieldsFrom seen fields = none ↔
      (∀ fd ∈ fields, -2147483648 ≤ fd.len ∧ fd.len ≤ 2147483647) ∧
      (∀ fd ∈ fields, fd.name ∉ seen) ∧ (fields.map (·.name)).Nodup
  | [], seen => by simp [checkFieldsFrom]
  | fd :: rest, seen => by
    unfold checkFieldsFrom
    by_cases h1 : (decide (fd.len > 2147483647) || decide (fd.len < -2147483648)) = true
    · simp only [h1, if_true]
      constructor
      · intro h; cases h
      · intro ⟨h, _⟩
        have := h fd List.mem_cons_self
        simp only [Bool.or_eq_true, decide_eq_true_eq] at h1
        omega
    · simp only [h1, Bool.false_eq_true, if_false]
      have h1' : -2147483648 ≤ fd.len ∧ fd.len ≤ 2147483647 := by
        simp only [Bool.or_eq_true, decide_eq_true_eq, not_or] at h1
        omega
      by_cases h2 : seen.contains fd.name = true
      · simp only [h2, if_true]
        constructor
        · intro h; cases h
        · intro ⟨_, h, _⟩
          exact absurd (List.contains_iff_mem.mp h2) (h fd List.mem_cons_self)
      · simp only [h2, Bool.false_eq_true, if_false]
        have h2' : fd.name ∉ seen := fun hm => h2 (List.contains_iff_mem.mpr hm)
        rw [checkFieldsFrom_none_iff rest (seen ++ [fd.name])]
        simp only [List.map_cons, List.nodup_cons]
        constructor
        · intro ⟨a1, a2, a3⟩
          refine ⟨?_, ?_, ?_, a3⟩
          · intro x hx
            rcases List.mem_cons.mp hx with rfl | hx
            · exact h1'
            · exact a1 x hx
          · intro x hx
            rcases List.mem_cons.mp hx with rfl | hx
            · exact h2'
            · exact fun hm => a2 x hx (List.mem_append_left _ hm)
          · intro hm
            obtain ⟨x, hx, hxn⟩ := List.mem_map.mp hm
            exact a2 x hx (List.mem_append_right _ (List.mem_singleton.mpr hxn))
        · intro ⟨b1, b2, b3a, b3b⟩
          refine ⟨fun x hx => b1 x (List.mem_cons_of_mem _ hx), ?_, b3b⟩
          intro x hx hm
          rcases List.mem_append.mp hm with hm | hm
          · exact b2 x (List.mem_cons_of_mem _ hx) hm
          · rw [List.mem_singleton] at hm
            exact b3a (List.mem_map.mpr ⟨x, hx, hm⟩)

/-- **CREATE TABLE's per-column checks pass exactly when every declared length fits `int32` and no
column name is used twice.** -/
theorem checkFields_none_iff (fields : List FieldDef) :
    checkFieldsFrom [] fields = none ↔
      (∀ fd ∈ fields, -2147483648 ≤ fd.len ∧ fd.len ≤ 2147483647) ∧ (fields.map (·.name)).Nodup := by
  rw [checkFieldsFrom_none_iff]
  simp

/-! ### UPDATE: `checkSetColumns` -/

/-- the only errors of the SET-column check -/
theorem checkSetColumns_some (fields : List Exec.Field) : ∀ (cs seen : List Bytes) (e : SErr),
    Engine.checkSetColumns fields seen cs = some e → e = .fieldNotFound ∨ e = .fieldAmbiguous
  | [], _, _, h => by cases h
  | c :: rest, seen, e, h => by
    unfold Engine.checkSetColumns at h
    simp only at h
    split at h
    · cases h; exact .inl rfl
    · split at h
      · cases h; exact .inr rfl
      · split at h
        · cases h; exact .inr rfl
        · exact checkSetColumns_some fields rest _ e h

/-- the SET-column check passes exactly when every name denotes exactly one field, none was seen
before, and no name occurs twice -/
theorem checkSetColumns_none_iff (fields : List Exec.Field) : ∀ (cs seen : List Bytes),
    Engine.checkSetColumns fields seen cs = none ↔
      (∀ c ∈ cs, (fields.filter fun f => f.column == c).length = 1) ∧ (∀ c ∈ cs, c ∉ seen) ∧ cs.Nodup
  | [], seen => by simp [Engine.checkSetColumns]
  | c :: rest, seen => by
    unfold Engine.checkSetColumns
    simp only
    by_cases h0 : ((fields.filter fun f => f.column == c).length == 0) = true
    · simp only [h0, if_true]
      constructor
      · intro h; cases h
      · intro ⟨h, _⟩
        have := h c List.mem_cons_self
        simp only [beq_iff_eq] at h0
        omega
    · simp only [h0, Bool.false_eq_true, if_false]
      by_cases h1 : (fields.filter fun f => f.column == c).length > 1
      · simp only [h1, if_true]
        constructor
        · intro h; cases h
        · intro ⟨h, _⟩
          have := h c List.mem_cons_self
          omega
      · simp only [h1, if_false]
        have hone : (fields.filter fun f => f.column == c).length = 1 := by
          simp only [beq_iff_eq] at h0
          omega
        by_cases h2 : seen.contains c = true
        · simp only [h2, if_true]
          constructor
          · intro h; cases h
          · intro ⟨_, h, _⟩
            exact absurd (List.contains_iff_mem.mp h2) (h c List.mem_cons_self)
        · simp only [h2, Bool.false_eq_true, if_false]
          have h2' : c ∉ seen := fun hm => h2 (List.contains_iff_mem.mpr hm)
          rw [checkSetColumns_none_iff fields rest (seen ++ [c])]
          constructor
          · intro ⟨a1, a2, a3⟩
            refine ⟨?_, ?_, List.nodup_cons.mpr ⟨?_, a3⟩⟩
            · intro x hx
              rcases List.mem_cons.mp hx with rfl | hx
              · exact hone
              · exact a1 x hx
            · intro x hx
              rcases List.mem_cons.mp hx with rfl | hx
              · exact h2'
              · exact fun hm => a2 x hx (List.mem_append_left _ hm)
            · intro hm
              exact a2 c hm (List.mem_append_right _ (List.mem_singleton.mpr rfl))
          · intro ⟨b1, b2, b3⟩
            obtain ⟨b3a, b3b⟩ := List.nodup_cons.mp b3
            refine ⟨fun x hx => b1 x (List.mem_cons_of_mem _ hx), ?_, b3b⟩
            intro x hx hm
            rcases List.mem_append.mp hm with hm | hm
            · exact b2 x (List.mem_cons_of_mem _ hx) hm
            · rw [List.mem_singleton] at hm
              subst hm
              exact b3a hx

/-- how many columns of a relation carry a given name -/
theorem filter_name_length_one {α β} [BEq β] [LawfulBEq β] (f : α → β) (k : β) : ∀ (l : List α),
    (l.map f).Nodup → k ∈ l.map f → (l.filter fun x => f x == k).length = 1
  | [], _, h => by cases h
  | a :: rest, hnd, hk => by
    simp only [List.map_cons, List.nodup_cons] at hnd
    by_cases ha : f a = k
    · have hb : (f a == k) = true := by simpa using ha
      have hnone : rest.filter (fun x => f x == k) = [] := by
        rw [List.filter_eq_nil_iff]
        intro x hx hxk
        have : f x = k := by simpa using hxk
        exact hnd.1 (ha ▸ this ▸ List.mem_map.mpr ⟨x, hx, rfl⟩)
      simp only [List.filter_cons, hb, if_true, hnone, List.length_cons, List.length_nil]
    · have hb : (f a == k) = false := by simpa using ha
      simp only [List.filter_cons, hb, Bool.false_eq_true, if_false]
      apply filter_name_length_one f k rest hnd.2
      rcases List.mem_cons.mp (by simpa using hk : k ∈ f a :: rest.map f) with h | h
      · exact absurd h.symm ha
      · exact h

/-- the executor fields of a relation whose column is the byte string `c` are the columns whose name
has the UTF-8 encoding `c` -/
theorem filter_fields_length (schema : List FieldDef) (c : Bytes) :
    ((schema.map fun fd => (⟨[], fd.name.toUTF8.toList⟩ : Exec.Field)).filter fun f => f.column == c).length =
      (schema.filter fun fd => fd.name.toUTF8.toList == c).length := by
  rw [List.filter_map, List.length_map]
  rfl

/-- a column whose name encodes to `c` is the column named `nameStr c` -/
theorem name_of_toUTF8 {fd : FieldDef} {c : Bytes} (h : fd.name.toUTF8.toList = c) :
    fd.name = Spec.nameStr c := by
  rw [← h]
  exact (nameOfBytes_toUTF8 fd.name).symm

/-- **The SET columns, plain model ⇒ model.**  For SET names that are valid UTF-8 and a table no two
columns of which have one name: names the plain model accepts pass the model's check. -/
theorem checkSetColumns_of_namesOK (t : Spec.STable) (cs : List Bytes)
    (hnd : (t.cols.map (·.name)).Nodup) (hutf : ∀ c ∈ cs, (Spec.nameStr c).toUTF8.toList = c)
    (h : Spec.namesOK t (cs.map Spec.nameStr) = true) :
    Engine.checkSetColumns (Spec.fieldsOfTable t) [] cs = none := by
  obtain ⟨h1, h2⟩ := (namesOK_iff t _).mp h
  rw [checkSetColumns_none_iff]
  refine ⟨?_, fun _ _ => List.not_mem_nil, ?_⟩
  · intro c hc
    unfold Spec.fieldsOfTable
    rw [filter_fields_length]
    have hcongr : (t.cols.filter fun fd => fd.name.toUTF8.toList == c) =
        t.cols.filter fun fd => fd.name == Spec.nameStr c := by
      apply List.filter_congr
      intro fd _
      by_cases hfd : fd.name.toUTF8.toList = c
      · have h1 : (fd.name.toUTF8.toList == c) = true := by simpa using hfd
        have h2 : (fd.name == Spec.nameStr c) = true := by simpa using name_of_toUTF8 hfd
        rw [h1, h2]
      · have h1 : (fd.name.toUTF8.toList == c) = false := by simpa using hfd
        have h2 : (fd.name == Spec.nameStr c) = false := by
          have : fd.name ≠ Spec.nameStr c := fun heq => hfd (by rw [heq]; exact hutf c hc)
          simpa using this
        rw [h1, h2]
    rw [hcongr]
    exact filter_name_length_one (·.name) (Spec.nameStr c) t.cols hnd
      (h1 _ (List.mem_map.mpr ⟨c, hc, rfl⟩))
  · exact List.Pairwise.of_map Spec.nameStr (fun a b hab heq => hab (by rw [heq])) h2

/-- **The SET columns, model ⇒ plain model** (no hypothesis): SET names that pass the model's check
are columns of the table, each named once. -/
theorem namesOK_of_checkSetColumns (t : Spec.STable) (cs : List Bytes)
    (h : Engine.checkSetColumns (Spec.fieldsOfTable t) [] cs = none) :
    Spec.namesOK t (cs.map Spec.nameStr) = true := by
  obtain ⟨h1, _, h3⟩ := (checkSetColumns_none_iff _ _ _).mp h
  have hfd : ∀ c ∈ cs, ∃ fd ∈ t.cols, fd.name.toUTF8.toList = c := by
    intro c hc
    have := h1 c hc
    unfold Spec.fieldsOfTable at this
    rw [filter_fields_length] at this
    cases hf : t.cols.filter (fun fd => fd.name.toUTF8.toList == c) with
    | nil => rw [hf] at this; cases this
    | cons fd _ =>
      have hm : fd ∈ t.cols.filter (fun fd => fd.name.toUTF8.toList == c) := by
        rw [hf]; exact List.mem_cons_self
      obtain ⟨hm1, hm2⟩ := List.mem_filter.mp hm
      exact ⟨fd, hm1, by simpa using hm2⟩
  have hutf : ∀ c ∈ cs, (Spec.nameStr c).toUTF8.toList = c := by
    intro c hc
    obtain ⟨fd, _, hfdc⟩ := hfd c hc
    rw [← name_of_toUTF8 hfdc]
    exact hfdc
  rw [namesOK_iff]
  constructor
  · intro n hn
    obtain ⟨c, hc, rfl⟩ := List.mem_map.mp hn
    obtain ⟨fd, hfd1, hfd2⟩ := hfd c hc
    exact List.mem_map.mpr ⟨fd, hfd1, name_of_toUTF8 hfd2⟩
  · rw [List.Nodup, List.pairwise_map]
    refine List.Pairwise.imp_of_mem ?_ h3
    intro a b ha hb hab heq
    apply hab
    rw [← hutf a ha, ← hutf b hb, heq]

/-- SET names the plain model refuses are refused by the model's check -/
theorem checkSetColumns_some_of_not_namesOK (t : Spec.STable) (cs : List Bytes)
    (h : Spec.namesOK t (cs.map Spec.nameStr) = false) :
    ∃ e, Engine.checkSetColumns (Spec.fieldsOfTable t) [] cs = some e ∧
      (e = .fieldNotFound ∨ e = .fieldAmbiguous) := by
  cases hc : Engine.checkSetColumns (Spec.fieldsOfTable t) [] cs with
  | some e => exact ⟨e, rfl, checkSetColumns_some _ _ _ _ hc⟩
  | none =>
    rw [namesOK_of_checkSetColumns t cs hc] at h
    cases h

/-- once the SET columns passed the statement's check, the per-row `checkColumns` of
`RelationService.Update` passes too -/
theorem checkSetColumns_none_checkColumns (schema : List FieldDef) (cs : List Bytes)
    (h : Engine.checkSetColumns (schema.map fun fd => (⟨[], fd.name.toUTF8.toList⟩ : Exec.Field)) [] cs = none) :
    checkColumns schema (cs.map Engine.bytesToName) = none :=
  (namesOK_iff_checkColumns ⟨[], schema, []⟩ _).mp (namesOK_of_checkSetColumns ⟨[], schema, []⟩ cs h)

/-! ### `Store.insert` with an unknown or repeated column name (any store) -/

/-- **The refusal, exactly.**  On ANY store: once the catalog lookups of `RelationService.Insert` have
delivered the columns `schema` of the table and the number of values is right, a column list that
fails `checkColumns` makes the insert return that error, in the store the (read-only) lookups left -
before the row is built, encoded or handed to the tree. -/
theorem insert_names_err (table : Bytes) (cols : List String) (vals : List Val) (s s1 s2 s3 : Store)
    (off : Nat) (n : Node) (schema : List FieldDef) (e : SErr)
    (h1 : relationOffset table s = .ok off s1) (h2 : fetch off s1 = .ok n s2)
    (h3 : relationSchema table s2 = .ok schema s3)
    (hlen : (colsOf schema cols).length = vals.length)
    (hcc : checkColumns schema (colsOf schema cols) = some e) :
    insert table cols vals s = .err e s3 := by
  rw [insert_eq, bind_ok h1, bind_ok h2, bind_ok h3]
  have hb : ((colsOf schema cols).length != vals.length) = false := by simp [hlen]
  simp only [hb, Bool.false_eq_true, if_false, hcc]
  rfl

/-- **`insert_unknown_column`.**  On ANY store on which the catalog lookups deliver the columns `schema`
of the table: an INSERT whose (non-empty) column list names something that is not a column of the
table is never `.ok`: it returns `colCountMismatch` (when the number of values is wrong, which is
tested first), or else `fieldNotFound` / `fieldAmbiguous` (`checkColumns`: whichever name in list order
is the first unknown or repeated one), in the store the lookups left; and if the cache was well filed,
it still is and every page, every dirty bit, the data file and the header locations are as before. -/
theorem insert_unknown_column (table : Bytes) (cols : List String) (vals : List Val) (s s1 s2 s3 : Store)
    (off : Nat) (n : Node) (schema : List FieldDef)
    (h1 : relationOffset table s = .ok off s1) (h2 : fetch off s1 = .ok n s2)
    (h3 : relationSchema table s2 = .ok schema s3)
    (c : String) (hc : c ∈ colsOf schema cols) (hn : c ∉ schema.map (·.name)) :
    ∃ e, insert table cols vals s = .err e s3 ∧
      (e = .colCountMismatch ∨ e = .fieldNotFound ∨ e = .fieldAmbiguous) ∧
      ((colsOf schema cols).length = vals.length → checkColumns schema (colsOf schema cols) = some e) ∧
      (Filed s → Filed s3 ∧ SameData s s3) := by
  have hro : Filed s → Filed s3 ∧ SameData s s3 := by
    intro hf
    obtain ⟨f1, d1⟩ := (ReadOnly.relationOffset table).ok hf h1
    obtain ⟨f2, d2⟩ := (ReadOnly.fetch off).ok f1 h2
    obtain ⟨f3, d3⟩ := (ReadOnly.relationSchema table).ok f2 h3
    exact ⟨f3, (d1.trans d2).trans d3⟩
  by_cases hlen : (colsOf schema cols).length = vals.length
  · obtain ⟨e, hcc⟩ := checkColumns_unknown hc hn
    exact ⟨e, insert_names_err table cols vals s s1 s2 s3 off n schema e h1 h2 h3 hlen hcc,
      .inr (checkColumns_some hcc), fun _ => hcc, hro⟩
  · refine ⟨.colCountMismatch, ?_, .inl rfl, fun h => absurd h hlen, hro⟩
    rw [insert_eq, bind_ok h1, bind_ok h2, bind_ok h3]
    have hb : ((colsOf schema cols).length != vals.length) = true := by simpa using hlen
    simp only [hb, if_true]
    rfl

/-- an INSERT refused for its column names - on any well-filed store - leaves every page, every dirty
bit, the data file, the header on disk and the location fields of the header as they were -/
theorem insert_names_unchanged (table : Bytes) (cols : List String) (vals : List Val) (s : Store)
    (e : SErr) (s' : Store) (hf : Filed s) (h : insert table cols vals s = .err e s')
    (he : e = .fieldNotFound ∨ e = .fieldAmbiguous) : Filed s' ∧ SameData s s' :=
  insert_err table cols vals s e s' hf h
    (by
      rcases he with rfl | rfl
      · exact .inr (.inr (.inr (.inr (.inr (.inl rfl)))))
      · exact .inr (.inr (.inr (.inr (.inr (.inr rfl))))))

/-- **No value is dropped in silence: the store.**  On ANY store: an INSERT that succeeded named only
columns of the table, each of them once, and supplied one value per name. -/
theorem insert_ok_names (table : Bytes) (cols : List String) (vals : List Val) (s : Store)
    (logs : List WalRec) (s' : Store) (h : insert table cols vals s = .ok logs s') :
    ∃ off s1 n s2 schema s3, relationOffset table s = .ok off s1 ∧ fetch off s1 = .ok n s2 ∧
      relationSchema table s2 = .ok schema s3 ∧ (colsOf schema cols).length = vals.length ∧
      (∀ c ∈ colsOf schema cols, c ∈ schema.map (·.name)) ∧ (colsOf schema cols).Nodup := by
  rw [insert_eq] at h
  obtain ⟨off, s1, h1, h⟩ := bind_eq_ok h
  obtain ⟨n, s2, h2, h⟩ := bind_eq_ok h
  obtain ⟨schema, s3, h3, h⟩ := bind_eq_ok h
  refine ⟨off, s1, n, s2, schema, s3, h1, h2, h3, ?_⟩
  by_cases hlen : (colsOf schema cols).length = vals.length
  · refine ⟨hlen, ?_⟩
    cases hcc : checkColumns schema (colsOf schema cols) with
    | none => exact (checkColumns_none_iff schema _).mp hcc
    | some e =>
      have hb : ((colsOf schema cols).length != vals.length) = false := by simp [hlen]
      simp only [hb, Bool.false_eq_true, if_false, hcc] at h
      cases h
  · have hb : ((colsOf schema cols).length != vals.length) = true := by simpa using hlen
    simp only [hb, if_true] at h
    cases h

/-! ### the plain model: which value a row holds under which name -/

/-- **`specInsert_names`.**  An INSERT (of at least one row) the plain model accepts names only columns
of the table, each of them once. -/
theorem specInsert_names {sdb sdb' : Spec.SDB} {table : Bytes} {cols : List Bytes}
    {r : List Val} {rest : List (List Val)}
    (h : Spec.specInsert sdb table cols (r :: rest) = some sdb') :
    ∃ tbl, Spec.findTable sdb table = some tbl ∧ Spec.namesOK tbl (cols.map Spec.nameStr) = true := by
  unfold Spec.specInsert at h
  cases hfind : Spec.findTable sdb table with
  | none => rw [hfind] at h; cases h
  | some tbl =>
    refine ⟨tbl, rfl, ?_⟩
    rw [hfind] at h
    simp only [Option.bind_eq_bind, Option.bind_some, List.isEmpty_cons, Bool.not_false, Bool.true_and] at h
    cases hn : Spec.namesOK tbl (cols.map Spec.nameStr) with
    | true => rfl
    | false => rw [hn] at h; simp at h

theorem get_append_found (A B : Vals) (k : String) (h : ∃ p ∈ A, p.1 = k) : get (A ++ B) k = get A k := by
  unfold Tuple.get
  rw [List.find?_append]
  cases hf : A.find? (fun p => p.1 == k) with
  | some x => rfl
  | none =>
    obtain ⟨p, hp, hpk⟩ := h
    have := List.find?_eq_none.mp hf p hp
    simp [hpk] at this

theorem get_append_notfound (A B : Vals) (k : String) (h : ∀ p ∈ A, p.1 ≠ k) : get (A ++ B) k = get B k := by
  unfold Tuple.get
  rw [List.find?_append]
  have : A.find? (fun p => p.1 == k) = none := by
    rw [List.find?_eq_none]
    intro p hp
    simpa using h p hp
  rw [this]
  rfl

/-- a name that is not in the list has no value: NULL -/
theorem get_zip_unnamed (names : List String) (vals : List Val) (k : String) (hk : k ∉ names) :
    get (names.zip vals).reverse k = .null := by
  unfold Tuple.get
  have : (names.zip vals).reverse.find? (fun p => p.1 == k) = none := by
    rw [List.find?_eq_none]
    intro p hp
    rw [List.mem_reverse] at hp
    have := (List.of_mem_zip (a := p.1) (b := p.2) hp).1
    have hne : p.1 ≠ k := fun heq => hk (heq ▸ this)
    simpa using hne
  rw [this]

/-- the `i`-th name of a list without repetition has the `i`-th value -/
theorem get_zip_named : ∀ (names : List String) (vals : List Val), names.Nodup →
    ∀ (i : Nat) (k : String) (v : Val), names[i]? = some k → vals[i]? = some v →
      get (names.zip vals).reverse k = v
  | [], _, _, i, k, v, hk, _ => by simp at hk
  | _ :: _, [], _, i, k, v, _, hv => by simp at hv
  | n :: ns, x :: xs, hnd, i, k, v, hk, hv => by
    obtain ⟨hn, hns⟩ := List.nodup_cons.mp hnd
    rw [List.zip_cons_cons, List.reverse_cons]
    cases i with
    | zero =>
      simp only [List.getElem?_cons_zero, Option.some.injEq] at hk hv
      subst hk hv
      rw [get_append_notfound]
      · exact get_cons_eq [] n x
      · intro p hp heq
        rw [List.mem_reverse] at hp
        exact hn (heq ▸ (List.of_mem_zip (a := p.1) (b := p.2) hp).1)
    | succ i =>
      simp only [List.getElem?_cons_succ] at hk hv
      rw [get_append_found]
      · exact get_zip_named ns xs hns i k v hk hv
      · refine ⟨(k, v), ?_, rfl⟩
        rw [List.mem_reverse]
        obtain ⟨hi1, hk'⟩ := List.getElem?_eq_some_iff.mp hk
        obtain ⟨hi2, hv'⟩ := List.getElem?_eq_some_iff.mp hv
        rw [List.mem_iff_getElem]
        refine ⟨i, by rw [List.length_zip]; omega, ?_⟩
        rw [List.getElem_zip, hk', hv']

/-- the row the plain model builds for an INSERT with a column list -/
theorem rowOf_vals {t : Spec.STable} {cols : List Bytes} {vals row : List Val}
    (h : Spec.rowOf t cols vals = some row) (hne : cols ≠ []) :
    (cols.map Spec.nameStr).length = vals.length ∧
    row = t.cols.map fun fd => get ((cols.map Spec.nameStr).zip vals).reverse fd.name := by
  unfold Spec.rowOf at h
  have he : cols.isEmpty = false := by
    cases cols with
    | nil => exact absurd rfl hne
    | cons _ _ => rfl
  simp only [he, Bool.false_eq_true, if_false] at h
  split at h
  · cases h
  · rename_i hlen
    split at h
    · cases h
    · split at h
      · cases h
      · simp only [Option.some.injEq] at h
        exact ⟨by simpa using hlen, h.symm⟩

/-- **No value is dropped in silence: the plain model.**  A row the plain model accepts for an INSERT
with a column list (all of whose names are columns of the table, each named once - `namesOK`, which
`specInsert` demands) holds, at the position of every column: the `i`-th value if the column is the
`i`-th name of the list, and NULL if the column is not named. -/
theorem rowOf_named (t : Spec.STable) (cols : List Bytes) (vals row : List Val)
    (h : Spec.rowOf t cols vals = some row) (hne : cols ≠ [])
    (hok : Spec.namesOK t (cols.map Spec.nameStr) = true) :
    row.length = t.cols.length ∧
    ∀ (j : Nat) (fd : FieldDef), t.cols[j]? = some fd →
      (∀ (i : Nat) (c : Bytes) (v : Val), cols[i]? = some c → vals[i]? = some v →
        Spec.nameStr c = fd.name → row[j]? = some v) ∧
      (fd.name ∉ cols.map Spec.nameStr → row[j]? = some .null) := by
  obtain ⟨_, hrow⟩ := rowOf_vals h hne
  obtain ⟨_, hnd⟩ := (namesOK_iff t _).mp hok
  subst hrow
  refine ⟨by rw [List.length_map], ?_⟩
  intro j fd hj
  have hrj : (t.cols.map fun fd => get ((cols.map Spec.nameStr).zip vals).reverse fd.name)[j]? =
      some (get ((cols.map Spec.nameStr).zip vals).reverse fd.name) := by
    rw [List.getElem?_map, hj]
    rfl
  constructor
  · intro i c v hc hv hcn
    rw [hrj]
    congr 1
    apply get_zip_named _ _ hnd i fd.name v ?_ hv
    rw [List.getElem?_map, hc, ← hcn]
    rfl
  · intro hnot
    rw [hrj, get_zip_unnamed _ _ _ hnot]

end Mkdb.Store
