import Mkdb.Proofs.Counters2
import Mkdb.Proofs.ReplayCounter
/-!
The header counters, part 3 (W16): **the statements, the flush, and start-up recovery.**

* `ResI`, `evalInsert_counters`: `EvaluateInsert` of `n` rows, every outcome: at most `n` row ids, `2 n`
  LSNs, `66 n` pages; accepted: the log grew by the records, one LSN each (`Logged`); refused: the log is
  the old one - **but the counters keep what the rows tried before the error consumed**.
* `ResUD`, `evalUpdate_counters`, `evalDelete_counters`: UPDATE and DELETE move neither the row-id counter
  nor the allocation frontier; the LSN counter only goes up; accepted: it advanced by exactly the number
  of records appended to the log.
* `evalCreateTable_counters`, `flush_counters`.
* `replayOne_adv`, `replayAll_counters`: the replay of a log raises the row-id counter to at most the
  largest key of an INSERT record (`maxKey`), the LSN counter to at most the largest LSN (`maxLsn`), and
  allocates at most 66 pages per INSERT record (`insCount`) - on every store, with every outcome.
* **`recover_counters`**: start-up recovery (`Engine.recover`: re-open, replay of the whole log, LSN bump,
  flushes), every outcome that returns a database: each counter ends between its value in the data-file
  header and the maximum of that header and the log (+1 for the LSN counter; for the allocation frontier:
  + 66 pages per INSERT record of the log, which a replay on a data file the pages did not reach allocates
  again); the header is written; the log is kept.
-/
set_option autoImplicit false
namespace Mkdb.Store
open Mkdb.Page Mkdb.Tuple Mkdb.Generated Mkdb.Tree Mkdb.Engine

/-! ### INSERT -/

/-- the result of an INSERT statement run from `db` -/
def ResI {α} (db : Engine.DB) (r : Engine.Res α) (dk dl df : Nat) : Prop :=
  match r with
  | .ok _ db' => Adv db.store db'.store dk dl df ∧
      ∃ logs, db'.wal = db.wal ++ logs ∧ Logged db.store db'.store logs
  | .err _ db' => Adv db.store db'.store dk dl df ∧ db'.wal = db.wal
  | _ => True

theorem evalInsert_go_counters (db : Engine.DB) (table : Bytes) (cols : List Bytes) :
    ∀ (rows : List (List Val)) (s : Store) (batch : List WalRec) (n k l f : Nat),
      Adv db.store s k l f → Logged db.store s batch →
      ResI db (Engine.evalInsert.go db table cols s batch n rows)
        (k + rows.length) (l + 2 * rows.length) (f + 270336 * rows.length)
  | [], s, batch, n, k, l, f, ha, hl => ⟨ha, batch, rfl, hl⟩
  | r :: rest, s, batch, n, k, l, f, ha, hl => by
    have hi := GrowsL.insert table (cols.map Engine.bytesToName) r s
    simp only [Engine.evalInsert.go]
    cases e : insert table (cols.map Engine.bytesToName) r s with
    | ok logs s' =>
      rw [e] at hi
      have := evalInsert_go_counters db table cols rest s' (batch ++ logs) (n + 1) (k + 1) (l + 2) (f + 270336)
        (ha.trans hi.1) (hl.append hi.2 ha.k_mono hi.1.k_mono)
      simp only [List.length_cons]
      have e1 : k + 1 + rest.length = k + (rest.length + 1) := by omega
      have e2 : l + 2 + 2 * rest.length = l + 2 * (rest.length + 1) := by omega
      have e3 : f + 270336 + 270336 * rest.length = f + 270336 * (rest.length + 1) := by omega
      rw [e1, e2, e3] at this
      exact this
    | err x s' =>
      rw [e] at hi
      exact ⟨(ha.trans hi).mono (by simp only [List.length_cons]; omega) (by simp only [List.length_cons]; omega)
        (by simp only [List.length_cons]; omega), rfl⟩
    | _ => trivial

/-- **`EvaluateInsert`** of `n` rows, whatever the outcome: at most `n` row ids, `2 n` LSNs, `66 n`
pages. -/
theorem evalInsert_counters (db : Engine.DB) (table : Bytes) (cols : List Bytes) (rows : List (List Val)) :
    ResI db (Engine.evalInsert db table cols rows) rows.length (2 * rows.length) (270336 * rows.length) := by
  have := evalInsert_go_counters db table cols rows db.store [] 0 0 0 0 (Adv.refl _) (Logged.nil (Adv.refl _))
  simp only [Nat.zero_add] at this
  exact this

theorem evalInsert_go_count (db : Engine.DB) (table : Bytes) (cols : List Bytes) {m : Nat} {db' : Engine.DB} :
    ∀ (rows : List (List Val)) (s : Store) (batch : List WalRec) (n : Nat),
      Engine.evalInsert.go db table cols s batch n rows = .ok m db' →
      ∃ logs, db'.wal = db.wal ++ (batch ++ logs) ∧ insCount logs = rows.length
  | [], s, batch, n, h => by
    simp only [Engine.evalInsert.go, Engine.Res.ok.injEq] at h
    exact ⟨[], by rw [← h.2, List.append_nil], rfl⟩
  | r :: rest, s, batch, n, h => by
    simp only [Engine.evalInsert.go] at h
    cases e : insert table (cols.map Engine.bytesToName) r s with
    | ok logs s' =>
      rw [e] at h
      obtain ⟨l2, hw, hc⟩ := evalInsert_go_count db table cols rest s' (batch ++ logs) (n + 1) h
      refine ⟨logs ++ l2, by rw [hw, List.append_assoc], ?_⟩
      rw [insCount_append, insert_ok_count e, hc, List.length_cons]
      omega
    | err x s' => rw [e] at h; cases h
    | panic p => rw [e] at h; cases h
    | unmodelled w => rw [e] at h; cases h
    | fuel => rw [e] at h; cases h

/-- **An accepted INSERT of `n` rows logs exactly `n` INSERT records** (and possibly catalog records). -/
theorem evalInsert_ok_count {db db' : Engine.DB} {table : Bytes} {cols : List Bytes} {rows : List (List Val)}
    {m : Nat} (h : Engine.evalInsert db table cols rows = .ok m db') :
    ∃ logs, db'.wal = db.wal ++ logs ∧ insCount logs = rows.length := by
  obtain ⟨logs, hw, hc⟩ := evalInsert_go_count db table cols rows db.store [] 0 h
  exact ⟨logs, by rw [hw, List.nil_append], hc⟩

/-! ### UPDATE and DELETE -/

/-- the result of an UPDATE / DELETE statement run from `db` -/
def ResUD {α} (db : Engine.DB) (r : Engine.Res α) : Prop :=
  match r with
  | .ok _ db' => AdvL db.store db'.store ∧ ∃ logs, db'.wal = db.wal ++ logs ∧ Logged db.store db'.store logs
  | .err _ db' => AdvL db.store db'.store ∧ db'.wal = db.wal
  | _ => True

theorem Logged.trans_advL {a b c : Store} {l1 l2 : List WalRec} (h1 : Logged a b l1) (h2 : Logged b c l2)
    (hab : AdvL a b) (hbc : AdvL b c) : Logged a c (l1 ++ l2) :=
  h1.append h2 (by rw [hab.k_eq]; exact Nat.le_refl _) (by rw [hbc.k_eq]; exact Nat.le_refl _)

theorem evalDelete_go_counters (db : Engine.DB) (table : Bytes) :
    ∀ (ids : List (Nat × List Val)) (s : Store) (batch : List WalRec) (n : Nat),
      AdvL db.store s → Logged db.store s batch → ResUD db (Engine.evalDelete.go db table s batch n ids)
  | [], s, batch, n, ha, hl => ⟨ha, batch, rfl, hl⟩
  | r :: rest, s, batch, n, ha, hl => by
    have hi := (GrowsL.markDeleted table r.1 s).resU
    simp only [Engine.evalDelete.go]
    cases e : markDeleted table r.1 s with
    | ok logs s' =>
      rw [e] at hi
      exact evalDelete_go_counters db table rest s' (batch ++ logs) (n + 1) (ha.trans hi.1)
        (hl.trans_advL hi.2 ha hi.1)
    | err x s' => rw [e] at hi; exact ⟨ha.trans hi, rfl⟩
    | _ => trivial

theorem evalUpdate_go_counters (db : Engine.DB) (table : Bytes) (cols : List String) (src : List Val) :
    ∀ (ids : List (Nat × List Val)) (s : Store) (batch : List WalRec),
      AdvL db.store s → Logged db.store s batch → ResUD db (Engine.evalUpdate.go db table cols src s batch ids)
  | [], s, batch, ha, hl => ⟨ha, batch, rfl, hl⟩
  | r :: rest, s, batch, ha, hl => by
    have hi := update_counters table r.1 cols src s
    simp only [Engine.evalUpdate.go]
    cases e : update table r.1 cols src s with
    | ok logs s' =>
      rw [e] at hi
      exact evalUpdate_go_counters db table cols src rest s' (batch ++ logs) (ha.trans hi.1)
        (hl.trans_advL hi.2 ha hi.1)
    | err x s' => rw [e] at hi; exact ⟨ha.trans hi, rfl⟩
    | _ => trivial

/-- `fetchForExec`, then a continuation -/
theorem fetchForExec_counters {β} (db : Engine.DB) (table : Bytes)
    (k : List (Nat × List Val) → List Exec.Field → Store → Engine.Res β)
    (hk : ∀ rows fields s, Adv db.store s 0 0 0 → ResUD db (k rows fields s)) :
    ResUD db (Engine.fetchForExec db table k) := by
  have hf := Still.fetchTable table db.store
  simp only [Engine.fetchForExec, Engine.liftS]
  cases e : fetchTable table db.store with
  | ok a s' => rw [e] at hf; exact hk _ _ _ hf
  | err x s' => rw [e] at hf; exact ⟨Adv.advL hf, rfl⟩
  | _ => trivial

/-- **`EvaluateDelete`**, whatever the outcome: no row id, no page; the LSN counter does not go down;
accepted: it advanced by exactly the number of records appended to the log. -/
theorem evalDelete_counters (db : Engine.DB) (table : Bytes) (w : Option Sql.Cond) :
    ResUD db (Engine.evalDelete db table w) := by
  unfold Engine.evalDelete
  refine fetchForExec_counters db table _ fun rows fields s hs => ?_
  cases Engine.filterIds w fields rows with
  | ok sel => exact evalDelete_go_counters db table sel s [] 0 hs.advL (Logged.nil hs)
  | err x => exact ⟨hs.advL, rfl⟩
  | panic p => trivial

/-- **`EvaluateUpdate`**, whatever the outcome: no row id, no page; the LSN counter does not go down;
accepted: it advanced by exactly the number of records appended to the log. -/
theorem evalUpdate_counters (db : Engine.DB) (table : Bytes) (sets : List (Bytes × Sql.VExpr))
    (w : Option Sql.Cond) : ResUD db (Engine.evalUpdate db table sets w) := by
  unfold Engine.evalUpdate
  split
  · exact ⟨AdvL.refl _, rfl⟩
  · refine fetchForExec_counters db table _ fun rows fields s hs => ?_
    cases Engine.checkSetColumns fields [] (sets.map (·.1)) with
    | some ec => exact ⟨hs.advL, rfl⟩
    | none =>
      simp only
      cases Engine.filterIds w fields rows with
      | ok sel => exact evalUpdate_go_counters db table _ _ sel s [] hs.advL (Logged.nil hs)
      | err x => exact ⟨hs.advL, rfl⟩
      | panic p => trivial

/-! ### CREATE TABLE and the flush -/

/-- the result of a CREATE TABLE run from `db`: the log is untouched on every outcome -/
def ResC (db : Engine.DB) (r : Engine.Res Unit) (dk dl df : Nat) : Prop :=
  match r with
  | .ok _ db' => AdvF db.store db'.store dk dl df ∧ db'.wal = db.wal
  | .err _ db' => AdvF db.store db'.store dk dl df ∧ db'.wal = db.wal
  | _ => True

/-- **`EvaluateCreateTable`** of `n` columns, whatever the outcome: at most `n + 1` row ids (the catalog
rows: one in `sys_pages`, one per column in `sys_schema`), `2 n + 1` LSNs, `1 + 66 (n + 1)` pages; no log
record. -/
theorem evalCreateTable_counters (db : Engine.DB) (name : Bytes) (cols : List Sql.ColDef) (order : List Nat)
    (doFlush : Bool) :
    ResC db (Engine.evalCreateTable db name cols order doFlush)
      (cols.length + 1) (2 * cols.length + 1) (4096 + 270336 * (cols.length + 1)) := by
  have h := createTable_counters (cols.map Engine.colTypeToField) name order doFlush db.store
  rw [List.length_map] at h
  simp only [Engine.evalCreateTable, Engine.liftS]
  cases e : createTable (cols.map Engine.colTypeToField) name order doFlush db.store with
  | ok a s' => rw [e] at h; exact ⟨h, rfl⟩
  | err x s' => rw [e] at h; exact ⟨h, rfl⟩
  | _ => trivial

/-- **The flush** (timer or close) always succeeds, moves no counter, writes the header, keeps the log. -/
theorem flush_counters (db : Engine.DB) (order : List Nat) :
    ∃ db', Engine.flush db order = .ok () db' ∧ db'.store.hdr = db.store.hdr ∧
      db'.store.dhdr = db.store.hdr ∧ db'.wal = db.wal := by
  obtain ⟨s', e, h1, h2⟩ := flushPages_hdr order db.store
  exact ⟨{ db with store := s' }, by simp only [Engine.flush, Engine.liftS, e], h1, h2, rfl⟩

/-! ### the replay -/

/-- the largest LSN of a log, if beyond `m` -/
def maxLsn (log : List WalRec) (m : Nat) : Nat := log.foldl (fun m r => max m r.lsn) m

theorem le_maxLsn (log : List WalRec) (m : Nat) : m ≤ maxLsn log m := by
  induction log generalizing m with
  | nil => exact Nat.le_refl _
  | cons r rest ih => exact Nat.le_trans (Nat.le_max_left _ _) (ih _)

theorem le_maxKey (log : List WalRec) (m : Nat) : m ≤ maxKey log m := by
  induction log generalizing m with
  | nil => exact Nat.le_refl _
  | cons r rest ih =>
    show m ≤ maxKey rest (if r.op == c_OpInsert then max m r.cell else m)
    refine Nat.le_trans ?_ (ih _)
    split
    · exact Nat.le_max_left _ _
    · exact Nat.le_refl _

/-- a log all of whose LSNs are at most `B` raises nothing beyond `B` -/
theorem maxLsn_le (log : List WalRec) (m B : Nat) (hm : m ≤ B) (h : ∀ r ∈ log, r.lsn ≤ B) : maxLsn log m ≤ B := by
  induction log generalizing m with
  | nil => exact hm
  | cons r rest ih =>
    exact ih _ (Nat.max_le.mpr ⟨hm, h r List.mem_cons_self⟩) (fun x hx => h x (List.mem_cons_of_mem _ hx))

theorem maxKey_le (log : List WalRec) (m B : Nat) (hm : m ≤ B) (h : ∀ r ∈ log, r.op = c_OpInsert → r.cell ≤ B) :
    maxKey log m ≤ B := by
  induction log generalizing m with
  | nil => exact hm
  | cons r rest ih =>
    show maxKey rest (if r.op == c_OpInsert then max m r.cell else m) ≤ B
    refine ih _ ?_ (fun x hx => h x (List.mem_cons_of_mem _ hx))
    split
    · rename_i hb
      exact Nat.max_le.mpr ⟨hm, h r List.mem_cons_self (by simpa using hb)⟩
    · exact hm

/-- **One record of the replay**, from the store with the raised counters (`raiseRec`), on every path:
the row-id counter and the LSN counter stay where the record raised them; an INSERT record allocates at
most 66 pages, another record none; the data-file header is untouched. -/
theorem replayOne_adv (r : WalRec) (s : Store) :
    Adv (raiseRec s r) (replayOne r s).1 0 0 (if r.op == c_OpInsert then 270336 else 0) := by
  have st : ∀ {a b : Store}, Adv a b 0 0 0 → Adv a b 0 0 (if r.op == c_OpInsert then 270336 else 0) :=
    fun h => h.mono (Nat.le_refl _) (Nat.le_refl _) (Nat.zero_le _)
  have hk : (r.op == c_OpInsert) = true →
      r.cell ≤ (if r.op == c_OpInsert then max s.hdr.lastKey r.cell else s.hdr.lastKey) := by
    intro h; rw [h]; exact Nat.le_max_right _ _
  unfold raiseRec
  unfold Engine.replayOne
  simp only
  generalize (if r.op == c_OpInsert then max s.hdr.lastKey r.cell else s.hdr.lastKey) = k at hk
  -- raising the row-id counter of a store that already has it changes nothing
  have raise : ∀ {a b : Store} {f : Nat}, (r.op == c_OpInsert) = true → a.hdr.lastKey = k → Adv a b 0 0 f →
      Adv a { b with hdr := { b.hdr with lastKey := max b.hdr.lastKey r.cell } } 0 0 f := by
    intro a b f hop ha h
    have hb := h.same_kl.1
    have hc := hk hop
    refine ⟨?_, ?_, h.l_mono, h.l_le, h.f_mono, h.f_le, h.dhdr⟩
    · show _ ≤ max b.hdr.lastKey r.cell; omega
    · show max b.hdr.lastKey r.cell ≤ _; omega
  split
  · rename_i node s1 hfe
    have h1 := (Still.fetch r.page).ok hfe
    split
    · exact st h1
    · split
      · rename_i hop
        split
        · rename_i bt s2 hik
          have h2 : Adv _ s2 0 0 270336 :=
            (h1.trans ((Grows.insertKey _ _ _ _).ok hik)).mono (by omega) (by omega) (by omega)
          have h3 := raise hop rfl h2
          split
          · split
            · rename_i hrp
              exact (h3.trans ((Still.repointPageTable _ _ _).ok hrp)).mono (by omega) (by omega) (by omega)
            · rename_i hrp
              exact (h3.trans ((Still.repointPageTable _ _ _).err hrp)).mono (by omega) (by omega) (by omega)
            · exact h3
            · exact h3
            · exact h3
          · exact h3
        · rename_i s2 hik
          have h2 : Adv _ s2 0 0 270336 :=
            (h1.trans ((Grows.insertKey _ _ _ _).err hik)).mono (by omega) (by omega) (by omega)
          exact raise hop rfl h2
        · rename_i s2 _ hik
          exact (h1.trans ((Grows.insertKey _ _ _ _).err hik)).mono (by omega) (by omega) (by omega)
        · exact h1.mono (by omega) (by omega) (by omega)
        · exact h1.mono (by omega) (by omega) (by omega)
        · exact h1.mono (by omega) (by omega) (by omega)
      · have h1' : ∀ b : Store, b.hdr = s1.hdr → b.dhdr = s1.dhdr → Adv _ b 0 0 0 := fun b hb hd =>
          (h1.trans (Adv.of_hdr hb hd)).mono (by omega) (by omega) (by omega)
        split
        · split
          · split <;> exact h1
          · split
            · exact h1
            · exact h1' _ rfl rfl
        · split
          · split
            · split <;> exact h1
            · split
              · exact h1
              · exact h1' _ rfl rfl
          · exact h1
  · exact st (Adv.refl _)

/-- what a replay of `log` from `s` can have done to the counters when it stops in `s'` -/
structure RAdv (s s' : Store) (log : List WalRec) : Prop where
  k_lo : s.hdr.lastKey ≤ s'.hdr.lastKey
  k_hi : s'.hdr.lastKey ≤ maxKey log s.hdr.lastKey
  l_lo : s.hdr.nextLSN ≤ s'.hdr.nextLSN
  l_hi : s'.hdr.nextLSN ≤ maxLsn log s.hdr.nextLSN
  f_lo : s.hdr.nextFree ≤ s'.hdr.nextFree
  f_hi : s'.hdr.nextFree ≤ s.hdr.nextFree + 270336 * insCount log
  dhdr : s'.dhdr = s.dhdr

/-- one record: the counters after it, exactly -/
theorem replayOne_counters (r : WalRec) (s : Store) :
    (replayOne r s).1.hdr.lastKey = (if r.op == c_OpInsert then max s.hdr.lastKey r.cell else s.hdr.lastKey) ∧
    (replayOne r s).1.hdr.nextLSN = max s.hdr.nextLSN r.lsn ∧
    s.hdr.nextFree ≤ (replayOne r s).1.hdr.nextFree ∧
    (replayOne r s).1.hdr.nextFree ≤ s.hdr.nextFree + 270336 * (if r.op == c_OpInsert then 1 else 0) ∧
    (replayOne r s).1.dhdr = s.dhdr := by
  have h := replayOne_adv r s
  obtain ⟨e1, e2⟩ := h.same_kl
  refine ⟨e1, e2, h.f_mono, ?_, h.dhdr⟩
  have := h.f_le
  have e3 : (raiseRec s r).hdr.nextFree = s.hdr.nextFree := rfl
  rw [e3] at this
  split
  · rename_i hop; rw [hop] at this; exact this
  · rename_i hop
    have hop' : (r.op == c_OpInsert) = false := by simpa using hop
    rw [hop'] at this
    exact this

/-- **The replay of a log, whatever its outcome** (run to its end, silent abort, error): no counter goes
down; the row-id counter ends at most at the largest key of an INSERT record, the LSN counter at most at
the largest LSN, the allocation frontier at most 66 pages per INSERT record further; the data-file header
is untouched. -/
theorem replayAll_counters (log : List WalRec) (s : Store) : RAdv s (replayAll log s).1 log := by
  induction log generalizing s with
  | nil =>
    exact ⟨Nat.le_refl _, Nat.le_refl _, Nat.le_refl _, Nat.le_refl _, Nat.le_refl _, Nat.le_refl _, rfl⟩
  | cons r rest ih =>
    obtain ⟨c1, c2, c3, c4, c5⟩ := replayOne_counters r s
    have k0 : s.hdr.lastKey ≤ (if r.op == c_OpInsert then max s.hdr.lastKey r.cell else s.hdr.lastKey) := by
      split
      · exact Nat.le_max_left _ _
      · exact Nat.le_refl _
    have mk : maxKey (r :: rest) s.hdr.lastKey =
        maxKey rest (if r.op == c_OpInsert then max s.hdr.lastKey r.cell else s.hdr.lastKey) := rfl
    have ml : maxLsn (r :: rest) s.hdr.nextLSN = maxLsn rest (max s.hdr.nextLSN r.lsn) := rfl
    have ic := insCount_cons r rest
    unfold Engine.replayAll
    split
    · rename_i s1 he
      rw [he] at c1 c2 c3 c4 c5
      simp only at c1 c2 c3 c4 c5
      obtain ⟨a1, a2, a3, a4, a5, a6, a7⟩ := ih s1
      rw [c1] at a1 a2
      rw [c2] at a3 a4
      refine ⟨by omega, by rw [mk]; exact a2, Nat.le_trans (Nat.le_max_left _ _) a3, by rw [ml]; exact a4,
        by omega, ?_, a7.trans c5⟩
      rw [ic]
      split at c4 <;> split <;> omega
    · refine ⟨by rw [c1]; exact k0, ?_, by rw [c2]; exact Nat.le_max_left _ _, ?_, c3, ?_, c5⟩
      · rw [c1, mk]; exact le_maxKey _ _
      · rw [c2, ml]; exact le_maxLsn _ _
      · rw [ic]
        split at c4 <;> split <;> omega

/-! ### start-up recovery -/

/-- what start-up recovery of `db` can have done to the counters of the database `db'` it returns: the
reference is the header IN THE DATA FILE (`dhdr`) - the in-memory header died with the crash -/
structure RecAdv (db db' : Engine.DB) : Prop where
  k_lo : db.store.dhdr.lastKey ≤ db'.store.hdr.lastKey
  k_hi : db'.store.hdr.lastKey ≤ maxKey db.wal db.store.dhdr.lastKey
  l_lo : db.store.dhdr.nextLSN ≤ db'.store.hdr.nextLSN
  l_hi : db'.store.hdr.nextLSN ≤ maxLsn db.wal db.store.dhdr.nextLSN + 1
  f_lo : db.store.dhdr.nextFree ≤ db'.store.hdr.nextFree
  f_hi : db'.store.hdr.nextFree ≤ db.store.dhdr.nextFree + 270336 * insCount db.wal
  dhdr : db'.store.dhdr = db'.store.hdr
  wal : db'.wal = db.wal

/-- **Start-up recovery, every outcome that returns a database** (`.ok`, or `.err`: `InitStorage` failed,
the deferred close still flushed): each counter ends between its value in the data-file header and the
maximum of that header and the log - plus one for the LSN counter (the final bump), plus at most 66 pages
per INSERT record of the log for the allocation frontier; the header is written to the data file; the log
is kept. -/
theorem recover_counters (db : Engine.DB) (o1 o2 : List Nat) :
    match Engine.recover db o1 o2 with
    | .ok db' => RecAdv db db'
    | .err _ db' => RecAdv db db'
    | _ => True := by
  have h := replayAll_counters db.wal (reopen db.store)
  have mkR : ∀ (s s' : Store) (d : Nat), (replayAll db.wal (reopen db.store)).1 = s → s'.hdr.lastKey = s.hdr.lastKey →
      s'.hdr.nextFree = s.hdr.nextFree → s'.hdr.nextLSN = s.hdr.nextLSN + d → d ≤ 1 → s'.dhdr = s'.hdr →
      RecAdv db { db with store := s' } := by
    intro s s' d e hk hf hl hd hdh
    rw [e] at h
    obtain ⟨a1, a2, a3, a4, a5, a6, _⟩ := h
    have r1 : (reopen db.store).hdr = db.store.dhdr := rfl
    rw [r1] at a1 a2 a3 a4 a5 a6
    exact ⟨by show _ ≤ s'.hdr.lastKey; omega, by show s'.hdr.lastKey ≤ _; omega,
      by show _ ≤ s'.hdr.nextLSN; omega, by show s'.hdr.nextLSN ≤ _; omega,
      by show _ ≤ s'.hdr.nextFree; omega, by show s'.hdr.nextFree ≤ _; omega, hdh, rfl⟩
  unfold Engine.recover
  simp only
  rcases hra : replayAll db.wal (reopen db.store) with ⟨s, m, b⟩
  have e1 : (replayAll db.wal (reopen db.store)).1 = s := by rw [hra]
  cases m with
  | some msg =>
    simp only
    by_cases c1 : msg.startsWith "panic:" = true
    · rw [if_pos c1]; trivial
    · rw [if_neg c1]
      by_cases c2 : msg.startsWith "unmodelled:" = true
      · rw [if_pos c2]; trivial
      · rw [if_neg c2]
        by_cases c3 : (msg == "hang") = true
        · rw [if_pos c3]; trivial
        · rw [if_neg c3]
          obtain ⟨s', e, hh, hd⟩ := flushPages_hdr o2 s
          rw [e]
          exact mkR s s' 0 e1 (by rw [hh]) (by rw [hh]) (by rw [hh]; rfl) (Nat.zero_le _) (by rw [hd, hh])
  | none =>
    cases b with
    | true =>
      simp only
      obtain ⟨s', e, hh, hd⟩ := flushPages_hdr o2 s
      rw [e]
      exact mkR s s' 0 e1 (by rw [hh]) (by rw [hh]) (by rw [hh]; rfl) (Nat.zero_le _) (by rw [hd, hh])
    | false =>
      simp only
      obtain ⟨s1, e, hh, hd⟩ := flushPages_hdr o1
        { s with hdr := { s.hdr with nextLSN := s.hdr.nextLSN + 1 } }
      rw [e]
      simp only
      obtain ⟨s2, e2, hh2, hd2⟩ := flushPages_hdr o2 s1
      rw [e2]
      exact mkR s s2 1 e1 (by rw [hh2, hh]) (by rw [hh2, hh]) (by rw [hh2, hh]) (Nat.le_refl _) (by rw [hd2, hh2])

end Mkdb.Store
