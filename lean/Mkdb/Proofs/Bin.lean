import Mkdb.Model.Bin
namespace Mkdb.Bin

theorem encLE_length (k n : Nat) : (encLE k n).length = k := by
  induction k generalizing n with
  | zero => rfl
  | succ k ih => simp [encLE, ih]

theorem decLE_encLE (k n : Nat) (rest : Bytes) :
    decLE k (encLE k n ++ rest) = some (n % 256 ^ k, rest) := by
  induction k generalizing n with
  | zero => simp [encLE, decLE, Nat.mod_one]
  | succ k ih =>
    simp only [encLE, List.cons_append, decLE, ih]
    congr 2
    have h1 : (n % 256).toUInt8.toNat = n % 256 := by
      simp [Nat.toUInt8, UInt8.toNat_ofNat']
    rw [h1, Nat.pow_succ', Nat.mod_mul]

end Mkdb.Bin
