import Mkdb.Proofs.ReplayMixed
import Mkdb.Proofs.SpecRefineB4
/-!
`MemFiled` ("every cached page object is filed under the offset it carries") is kept by every
statement evaluator, by every run of statements and by the redo of the log.

`KeepsFiled.findLeaf`, `KeepsFiled.fetchTable`, `KeepsFiled.update`, `KeepsFiled.markDeleted` and the
evaluator lemmas `evalInsert_filed`, `evalDelete_filed`, `evalUpdate_filed` are those of `SpecRefineB4`
(re-declaring them here would clash with that file in any environment that imports both); this file
adds `KeepsFiled.repointPageTable`, the `.ok` forms `evalInsert_memFiled`, `evalDelete_memFiled`,
`evalUpdate_memFiled`, the run lemma `specRun_memFiled` and the redo lemmas `replayOne_memFiled`,
`replayAll_memFiled`.
-/
set_option autoImplicit false
namespace Mkdb.Store
open Mkdb.Page Mkdb.Tuple Mkdb.Generated Mkdb.Tree Mkdb.Engine

/-! ### the catalog re-point of recovery -/

theorem KeepsFiled.repointPageTable (old new lsn : Nat) : KeepsFiled (repointPageTable old new lsn) := by
  rw [repointPageTable_eq]
  refine KeepsFiled.getS.bind fun s => (KeepsFiled.scanRight _).bind fun cells => ?_
  refine KeepsFiled.bind ?_ fun hit => ?_
  · apply KeepsFiled.findFirstM
    intro c
    unfold rpFind
    refine (KeepsFiled.decodeRow _ _).bind fun m => ?_
    exact KeepsFiled.ite (KeepsFiled.pure _) (KeepsFiled.pure _)
  · cases hit with
    | none => exact KeepsFiled.pure _
    | some cm =>
      obtain ⟨c, m⟩ := cm
      exact (KeepsFiled.encodeRow _ _).bind fun buf => KeepsFiled.updateCellAt _ _ _ _

/-! ### the statement evaluators -/

theorem evalInsert_memFiled {db db' : Engine.DB} {table : Bytes} {cols : List Bytes} {rows : List (List Val)}
    {n : Nat} (hf : MemFiled db.store) (h : Engine.evalInsert db table cols rows = .ok n db') :
    MemFiled db'.store :=
  (evalInsert_filed db table cols rows hf).ok h

theorem evalDelete_memFiled {db db' : Engine.DB} {table : Bytes} {w : Option Sql.Cond} {n : Nat}
    (hf : MemFiled db.store) (h : Engine.evalDelete db table w = .ok n db') : MemFiled db'.store :=
  (evalDelete_filed db table w hf).ok h

theorem evalUpdate_memFiled {db db' : Engine.DB} {table : Bytes} {sets : List (Bytes × Sql.VExpr)}
    {w : Option Sql.Cond} (hf : MemFiled db.store) (h : Engine.evalUpdate db table sets w = .ok () db') :
    MemFiled db'.store :=
  (evalUpdate_filed db table sets w hf).ok h

/-- every run of statements keeps the cache filed -/
theorem specRun_memFiled {sch : Levels} {db db' : Engine.DB} {sdb sdb' : Spec.SDB} {stmts : List EStmt}
    (run : SpecRun sch db sdb stmts db' sdb') (hf : MemFiled db.store) : MemFiled db'.store := by
  induction run with
  | nil db sdb => exact hf
  | insert table cols rows hvalid hspec hrunok heval hrest ih => exact ih (evalInsert_memFiled hf heval)
  | delete table w hspec heval hrest ih => exact ih (evalDelete_memFiled hf heval)
  | update table sets w hvalid hspec heval hrest ih => exact ih (evalUpdate_memFiled hf heval)

/-! ### the redo of the log -/

/-- one record of the redo keeps the cache filed (every branch of `replayOne`) -/
theorem replayOne_memFiled (r : WalRec) (s : Store) (hf : MemFiled s) : MemFiled (replayOne r s).1 := by
  have hf0 : MemFiled (raiseRec s r) := hf.of_mem_eq rfl
  unfold raiseRec at hf0
  unfold Engine.replayOne
  simp only
  split
  · rename_i node s1 hfe
    have h1 : MemFiled s1 := (KeepsFiled.fetch r.page).ok hf0 hfe
    split
    · exact h1
    · split
      · split
        · rename_i bt s2 hik
          have h2 : MemFiled s2 := (KeepsFiled.insertKey _ _ _ _).ok h1 hik
          have h3 : MemFiled { s2 with hdr := { s2.hdr with lastKey := max s2.hdr.lastKey r.cell } } :=
            h2.of_mem_eq rfl
          split
          · split
            · rename_i hrp; exact (KeepsFiled.repointPageTable _ _ _).ok h3 hrp
            · rename_i hrp; exact (KeepsFiled.repointPageTable _ _ _).err h3 hrp
            · exact h3
            · exact h3
            · exact h3
          · exact h3
        · rename_i s2 hik
          exact ((KeepsFiled.insertKey _ _ _ _).err h1 hik).of_mem_eq rfl
        · rename_i s2 _ hik
          exact (KeepsFiled.insertKey _ _ _ _).err h1 hik
        · exact h1
        · exact h1
        · exact h1
      · split
        · split
          · split
            · exact h1
            · exact h1
          · rename_i l
            split
            · exact h1
            · refine h1.set (v := ⟨_, true⟩) ?_ rfl
              rfl
        · split
          · split
            · split
              · exact h1
              · exact h1
            · split
              · exact h1
              · refine h1.set (v := ⟨_, true⟩) ?_ rfl
                rfl
          · exact h1
  · exact hf0
/-- the redo of a log keeps the cache filed -/
theorem replayAll_memFiled (log : List WalRec) (s : Store) (hf : MemFiled s) :
    MemFiled (replayAll log s).1 := by
  induction log generalizing s with
  | nil => exact hf
  | cons r rest ih =>
    have h1 := replayOne_memFiled r s hf
    unfold Engine.replayAll
    split
    · rename_i s' he
      rw [he] at h1
      exact ih s' h1
    · exact h1

end Mkdb.Store
