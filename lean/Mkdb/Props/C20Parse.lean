import Mkdb.Props.C20
import Mkdb.Props.C10Text
import Mkdb.Proofs.TypedStmt5
/-!
# C20 and C10 composed — from keystrokes at the console to the parsed statement

Property theorems only.  C20 (`Props/C20.lean`) says which texts the console submits; C10
(`Props/C10Text.lean`) says to which statement a text parses.  In the program they meet in
`runTerminal` (cmd/console/main.go): every text the console submits is handed to
`engine.Session.ExecQuery`, which parses it.  Here the two models are joined.

**The two alphabets.**  The console model works on key codes (`Nat`), the scanner model on `Rune`s.  A
submission is a list of key codes; the engine receives it as a Go string and the scanner decodes the string
into runes.  For an ASCII key `c` that rune is `asciiRune c`; `runesOfKeys` maps a submission to the runes
the scanner reads, `keysOfRunes` a text to the keys that type it.  **The composition is for ASCII text** -
what `renderText` writes.  (Names and literals outside ASCII are covered by each property separately:
`C20_submit` for any code points, `C10_scan_roundtrip_pieces` for any runes.)

Vocabulary (definitions in `Proofs/TypedStmt*.lean`): `Typed` - one statement as it is typed: the statement,
the optional spellings `opts`, the keyword cases, the gap before each token, the blanks `after` the `;`;
`Typed.text` its SQL text (`renderText`, one closing `;`), `Typed.keys` the text as key codes; `Typed.OK`
the hypotheses of `C10_text_roundtrip` plus: every gap consists of BLANKS only (`blankGap`: a line break
typed at the console is the Enter key, which the console turns into one blank - so at any gap the user
types blanks and/or Enters, and in the text handed to the engine every Enter has become a blank; comments
are not typed here: the console does not understand them, see the last examples), no gap before the first
token or behind the `;`; `Neutral l` - the keys `l`, read by the console's quote automaton from outside
quotes, end no statement and end outside quotes.
-/
namespace Mkdb.Console
open Mkdb.Scan Mkdb.Generated Mkdb.Sql

/-- **C20∘C10.quote_tracking_agrees**: the console and the scanner agree on where a string literal ends,
for every literal the text level of C10 accepts.  If the scanner (`scanString`, with all its escape
handling: `\'`, `\\`, octal, `\x`, `\u`, `\U`, invalid escapes) reads `'body'` up to the quote written
behind `body` (`strBodyOK`, the condition in `TokOK` / `TextOK` for string literals), then the console's
`splitStatements`, reading the same characters as keys, is inside the literal up to that same quote and
outside behind it, and ends no statement on the way - whatever `;`, blanks, `"`, backquotes or backslash
sequences the body contains.  (No `TextOK` literal on which the two disagree exists.) -/
theorem C20_quote_tracking_agrees (body : Input) (h : strBodyOK body = true) :
    Neutral (39 :: keysOfRunes body ++ [39]) :=
  neutral_str body h

/-- the same in terms of a string literal of a statement: the bytes `b` of a literal `TextOK` accepts -/
theorem C20_quote_tracking_agrees_lit (b : Bytes) (h : litTextOK (.str b) = true) :
    Neutral (39 :: b.map (·.toNat) ++ [39]) := by
  have e2 : (t_STR == t_IDENT) = false := by decide
  have e3 : (t_STR == t_INT) = false := by decide
  simp only [litTextOK, TokOK, e2, e3, Bool.false_eq_true, ↓reduceIte, beq_self_eq_true, Bool.and_eq_true] at h
  have := neutral_str _ h.2
  have e : keysOfRunes (b.map fun b => asciiRune b.toNat) = b.map (·.toNat) := by
    simp only [keysOfRunes, List.map_map]; rfl
  rwa [e] at this

example : litTextOK (.str [97, 59, 32, 34, 96, 92, 39, 59, 92, 92]) = true ∧
    Neutral (39 :: [97, 59, 32, 34, 96, 92, 39, 59, 92, 92] ++ [39]) :=
  ⟨by decide, C20_quote_tracking_agrees_lit [97, 59, 32, 34, 96, 92, 39, 59, 92, 92] (by decide)⟩

/-- **C20∘C10.typed_text_wellformed**: the text of a typed statement is a statement text in the sense of
`C20_submit` (`Console.WFStmt`): its quotes are balanced for the console, the only `;` outside quotes is
its last character, it does not begin with a blank.  Rests on: no token of a rendered well-formed
statement is a `;` (`noSemi_renderStmt`), and `C20_quote_tracking_agrees` for its literals. -/
theorem C20_typed_text_wellformed (t : Typed) (h : t.OK) : Console.WFStmt t.keys := typed_wf t h

/-- **C20∘C10.bridge**: the runes the scanner decodes from the submitted key codes of a typed statement are
exactly its SQL text (`renderText` writes ASCII runes only, and `runesOfKeys` is the decoding of ASCII). -/
theorem C20_typed_keys_are_text (t : Typed) (h : t.OK) : runesOfKeys t.keys = t.text := typed_runes t h

/-- **C20∘C10.typed_statement_is_parsed** - FROM KEYSTROKES TO THE PARSED STATEMENT.  Take any list of
statements `ts`, each a statement the grammar can express (`Sql.WFStmt`) whose names and strings can be
written in plain SQL text (`TextOK`), each written with any optional spellings, any keyword case, gaps of
blanks between the tokens (`layoutOK`: tokens may touch where the scanner separates them anyway) and closed
by exactly one `;` (`Typed.OK`).  Type them at the console in any of the ways `C20_submit` allows: `keys`
is any sequence of printable keys and Enters that ends with Enter and whose text, each Enter read as the
one blank the console makes of it, is: blanks `w0`, then the statements' texts in order, each followed by
blanks `after` - so several statements per line, one statement over many lines, any blank of a gap typed
as Enter.  Then (1) the console submits exactly the `n` texts, once each, in order, and (2) the engine's
parser (`parseSQL`, on the runes of each submission) yields exactly the statements that were typed, in
order: the i-th submission parses to the i-th statement.
Hypotheses and what they exclude: `hvalid` - only printable keys and Enter are typed (a control character
inside a literal, e.g. a tab, which `TextOK` accepts, has no key); `Typed.OK` - `TextOK` / `WFStmt` as in
`C10_text_roundtrip`; gaps of blanks only, so NO COMMENTS (the console does not understand them: a quote or
`;` inside a comment derails it, examples below) and no tabs between tokens (no key); one closing `;`.
A line break typed INSIDE a string literal reaches the engine as a blank (C20's known behaviour): the
statement parsed then is the one whose literal has a blank there (second example below). -/
theorem C20_typed_statement_is_parsed (keys : List Nat) (w0 : List Nat) (ts : List Typed)
    (hvalid : ∀ k ∈ keys, k = 13 ∨ (isPrintable k = true ∧ k ≠ 13))
    (hlast : keys.getLast? = some 13)
    (hw0 : Blank w0) (hts : ∀ t ∈ ts, t.OK)
    (htext : keys.map (fun k => if k = 13 then 32 else k) = w0 ++ ts.flatMap (fun t => t.keys ++ t.after)) :
    (run {} keys).flatten = ts.map (·.keys) ∧
    (run {} keys).flatten.map (fun sub => parseSQL (runesOfKeys sub)) = ts.map (fun t => Outcome.ok t.stmt) :=
  typed_session keys w0 ts hvalid hlast hw0 hts htext

/-- **C20∘C10, in the words of both properties**: for any sequence of statements each terminated by a
semicolon and entered with arbitrary line breaks, several per line or one across many lines, the console
hands the engine exactly those statements, once each and in order (there are exactly `n` submissions, the
i-th is the text of the i-th statement with every string literal intact), and writing each statement as SQL
text - with any keyword case, blanks and line breaks, optional keywords present or absent - and parsing
the text the console submitted yields the same statement.  Same hypotheses as
`C20_typed_statement_is_parsed`. -/
theorem C20_console_to_engine (keys : List Nat) (w0 : List Nat) (ts : List Typed)
    (hvalid : ∀ k ∈ keys, k = 13 ∨ (isPrintable k = true ∧ k ≠ 13))
    (hlast : keys.getLast? = some 13)
    (hw0 : Blank w0) (hts : ∀ t ∈ ts, t.OK)
    (htext : keys.map (fun k => if k = 13 then 32 else k) = w0 ++ ts.flatMap (fun t => t.keys ++ t.after)) :
    (run {} keys).flatten.length = ts.length ∧
    ∀ i (hi : i < ts.length), ∃ sub, (run {} keys).flatten[i]? = some sub ∧
      runesOfKeys sub = ts[i].text ∧ parseSQL (runesOfKeys sub) = .ok ts[i].stmt := by
  obtain ⟨hsub, _⟩ := typed_session keys w0 ts hvalid hlast hw0 hts htext
  refine ⟨by rw [hsub, List.length_map], ?_⟩
  intro i hi
  have hok := hts ts[i] (List.getElem_mem hi)
  refine ⟨ts[i].keys, ?_, typed_runes _ hok, typed_parse _ hok⟩
  rw [hsub, List.getElem?_map, List.getElem?_eq_getElem hi]
  rfl

/-- **C20∘C10, one statement over several lines** (`n = 1`): a statement typed with Enters at any of its
gaps is submitted once, by the Enter behind its `;`, and parses to the statement. -/
theorem C20_typed_single (keys : List Nat) (w0 : List Nat) (t : Typed)
    (hvalid : ∀ k ∈ keys, k = 13 ∨ (isPrintable k = true ∧ k ≠ 13))
    (hlast : keys.getLast? = some 13) (hw0 : Blank w0) (ht : t.OK)
    (htext : keys.map (fun k => if k = 13 then 32 else k) = w0 ++ (t.keys ++ t.after)) :
    (run {} keys).flatten = [t.keys] ∧ parseSQL (runesOfKeys t.keys) = .ok t.stmt := by
  have := typed_session keys w0 [t] hvalid hlast hw0 (by simpa using ht) (by simpa using htext)
  exact ⟨by simpa using this.1, typed_parse t ht⟩

/-! ## Non-vacuity: a concrete entry of two statements

    ␣insert INTO t VALUES ('a; b'); select a⏎
    ␣from t⏎
    where a = 1;⏎

The INSERT has a `;` and a blank inside its string literal; the SELECT stands behind it on the same
line and goes on over two more lines. -/
section Examples
open TypedEx

/-- the texts of the two statements -/
example : exIns.keys = strCodes "insert INTO t VALUES ('a; b');" ∧
    exSel.keys = strCodes "select a  from t where a = 1;" := ⟨by decide +kernel, by decide +kernel⟩

/-- computed through the console model: nothing is submitted by the first two Enters, the third submits
both statements, the literal intact ... -/
example : run {} exKeys = [[strCodes "insert INTO t VALUES ('a; b');", strCodes "select a  from t where a = 1;"]] := by
  decide +kernel

/-- ... and computed through the scanner and parser models: each submission parses to its statement -/
example :
    (match parseSQL (runesOfKeys (strCodes "insert INTO t VALUES ('a; b');")) with
      | .ok s => s == .insert [116] [] [[.str [97, 59, 32, 98]]] | _ => false) = true ∧
    (match parseSQL (runesOfKeys (strCodes "select a  from t where a = 1;")) with
      | .ok s => s == exSel.stmt | _ => false) = true := by
  refine ⟨?_, ?_⟩ <;> decide +kernel

/-- the same by instantiating the theorem -/
example : (run {} exKeys).flatten = [exIns.keys, exSel.keys] ∧
    (run {} exKeys).flatten.map (fun sub => parseSQL (runesOfKeys sub)) = [.ok exIns.stmt, .ok exSel.stmt] :=
  C20_typed_statement_is_parsed exKeys [32] [exIns, exSel] exKeys_valid (by decide)
    ((blank_iff_all _).mp (by decide))
    (by intro t ht; simp only [List.mem_cons, List.not_mem_nil, or_false] at ht
        rcases ht with rfl | rfl
        · exact exIns_ok
        · exact exSel_ok)
    exKeys_text

example : (run {} exKeys).flatten.length = 2 :=
  (C20_console_to_engine exKeys [32] [exIns, exSel] exKeys_valid (by decide) ((blank_iff_all _).mp (by decide))
    (by intro t ht; simp only [List.mem_cons, List.not_mem_nil, or_false] at ht
        rcases ht with rfl | rfl
        · exact exIns_ok
        · exact exSel_ok) exKeys_text).1

/-- the blank inside the literal typed as Enter (`'a;⏎b'`): the same two submissions - the engine gets
the literal with a blank where the line was broken -/
example : (run {} exKeysBreakInLiteral).flatten = [exIns.keys, exSel.keys] ∧
    (run {} exKeysBreakInLiteral).flatten.map (fun sub => parseSQL (runesOfKeys sub)) = [.ok exIns.stmt, .ok exSel.stmt] :=
  C20_typed_statement_is_parsed exKeysBreakInLiteral [32] [exIns, exSel] exKeysBreakInLiteral_valid (by decide)
    ((blank_iff_all _).mp (by decide))
    (by intro t ht; simp only [List.mem_cons, List.not_mem_nil, or_false] at ht
        rcases ht with rfl | rfl
        · exact exIns_ok
        · exact exSel_ok)
    exKeysBreakInLiteral_text

/-- one statement over three lines (`n = 1`) -/
example : (run {} (strCodes "select a" ++ [13, 32] ++ strCodes "from t" ++ [13] ++ strCodes "where a = 1;" ++ [13])).flatten =
      [exSel.keys] ∧ parseSQL (runesOfKeys exSel.keys) = .ok exSel.stmt :=
  C20_typed_single _ [] exSel (by decide) (by decide) Blank.nil exSel_ok (by decide +kernel)

/-- the hypotheses hold of the two statements -/
example : exIns.OK ∧ exSel.OK := ⟨exIns_ok, exSel_ok⟩

/-! ### What the hypothesis "gaps of blanks only" excludes: comments (known finding of C20)

The scanner skips comments, the console does not know them.  `select /* it's */ a from t;` is a statement
for the engine, but the console sees a quote open in the comment and never submits; with a `;` in the
comment it submits two fragments, neither of which is the statement. -/

example : run {} (strCodes "select /* it's */ a from t;" ++ [13]) = [] ∧
    (match parseSQL (runesOfKeys (strCodes "select /* it's */ a from t;")) with | .ok _ => true | _ => false) = true :=
  ⟨by decide +kernel, by decide +kernel⟩

example : run {} (strCodes "select /* ; */ a from t;" ++ [13]) = [[strCodes "select /* ;", strCodes "*/ a from t;"]] ∧
    (match parseSQL (runesOfKeys (strCodes "select /* ; */ a from t;")) with | .ok _ => true | _ => false) = true :=
  ⟨by decide +kernel, by decide +kernel⟩

end Examples

end Mkdb.Console
