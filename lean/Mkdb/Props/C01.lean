import Mkdb.Spec.Tables
import Mkdb.Spec.Shape
import Mkdb.Model.Engine
namespace Mkdb.Store
end Mkdb.Store
