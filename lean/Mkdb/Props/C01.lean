import Mkdb.Props.C11
import Mkdb.Proofs.Forest
import Mkdb.Proofs.RefineScan
import Mkdb.Proofs.RefineHistory
import Mkdb.Proofs.RefineStmt
import Mkdb.Proofs.RefineStmtB
import Mkdb.Proofs.CreateCat
import Mkdb.Proofs.SpecRefine
import Mkdb.Proofs.SpecRefineB
import Mkdb.Proofs.SpecHistory
import Mkdb.Proofs.ColumnNames
import Mkdb.Model.Session
import Mkdb.Proofs.BaseCase1
/-!
# C01 — table contents always equal what the statement history implies

Property theorems only, about the levels model `Mkdb.Tree` (see C11 for how it is tied to the
code).  The "plain in-memory model" of one table is a list of rows in insertion order, each with
its row id, tombstone flag and value (`specStep`); the theorems say that what a scan of the tree
sees is that list, whatever page splits happened on the way: nothing lost, duplicated,
resurrected, and row ids strictly increasing.  Quantifier: every history of any length.
Several tables sharing one file, and the catalog, are `Mkdb.Tree.Forest` (C01_forest_* below).

Not covered by a theorem (partial): the row codec inside the cells is C08; that a statement is the
sequence of tree operations assumed here (row ids from the shared counter, one operation per
selected row, catalog rows for CREATE TABLE) is the heap model `Mkdb.Store` / `Mkdb.Engine`,
compared with the implementation statement by statement, page by page.
-/
namespace Mkdb.Tree
open Mkdb.Page Mkdb.Generated

/-- the plain model of one table: rows in insertion order -/
def specStep (rows : List LeafCell) (op : TOp) (accepted : Bool) : List LeafCell :=
  match op with
  | .ins k _ v => if accepted then rows ++ [⟨k, false, v⟩] else rows
  | .upd k _ v => rows.map fun c => if c.key == k then { c with val := v } else c
  | .del k _ => rows.map fun c => if c.key == k then { c with deleted := true } else c

/-- did the tree accept the operation (an insert can be refused: duplicate key, oversized row) -/
def accepted (s : Levels × Nat) : TOp → Bool
  | .ins k lsn v => match insertAppend s.1 k lsn v s.2 with | .ok _ => true | .error _ => false
  | _ => true

/-- **C01.step**: one operation changes what a scan sees exactly as it changes the plain list. -/
theorem C01_step (s : Levels × Nat) (op : TOp) :
    cells (applyOp s op).1 = specStep (cells s.1) op (accepted s op) := by
  cases op with
  | ins k lsn v =>
    cases hr : insertAppend s.1 k lsn v s.2 with
    | ok r =>
      simp only [applyOp, accepted, specStep, hr]
      simpa using cells_insertAppend s.1 r.1 k lsn s.2 r.2 v hr
    | error e => simp [applyOp, accepted, specStep, hr]
  | upd k lsn v => exact cells_setVal s.1 k lsn v
  | del k lsn => exact cells_setDeleted s.1 k lsn

/-- the plain model run over a history, given which inserts were accepted -/
def specRun (s : Levels × Nat) (rows : List LeafCell) : List TOp → List LeafCell
  | [] => rows
  | op :: rest => specRun (applyOp s op) (specStep rows op (accepted s op)) rest

/-- **C01.history**: after any history the scan order view of the tree is the plain list the history
implies - no row lost, duplicated or reordered by any pattern of page splits. -/
theorem C01_history (s : Levels × Nat) (ops : List TOp) :
    cells (runOps s ops).1 = specRun s (cells s.1) ops := by
  induction ops generalizing s with
  | nil => rfl
  | cons op rest ih =>
    simp only [runOps, List.foldl_cons, specRun]
    have := ih (applyOp s op)
    simp only [runOps] at this
    rw [this, C01_step]

/-- **C01.ids_strictly_increasing**: the row ids a scan returns are strictly increasing, hence unique. -/
theorem C01_ids_strictly_increasing (off nf : Nat) (h : off < nf) (ops : List TOp) :
    (keys (runOps (emptyTree off, nf) ops).1).Pairwise (· < ·) :=
  (C11_every_history off nf h ops).asc

/-- **C01.select_sees_live_rows**: what `scanRight` hands to SELECT is the plain list without the
tombstoned rows. -/
theorem C01_select_sees_live_rows (s : Levels × Nat) (ops : List TOp) :
    live (runOps s ops).1 = (specRun s (cells s.1) ops).filter (fun c => !c.deleted) := by
  unfold live; rw [C01_history]

theorem specStep_deleted_stays (rows : List LeafCell) (op : TOp) (a : Bool) (k : Nat)
    (hnew : ∀ key lsn v, op = .ins key lsn v → a = true → key ≠ k)
    (h : ∀ c ∈ rows, c.key = k → c.deleted = true) :
    ∀ c ∈ specStep rows op a, c.key = k → c.deleted = true := by
  intro c hc hk
  cases op with
  | ins key lsn v =>
    simp only [specStep] at hc
    split at hc
    · rename_i ha
      rcases List.mem_append.mp hc with hc | hc
      · exact h c hc hk
      · simp only [List.mem_singleton] at hc
        subst hc
        exact absurd hk (hnew key lsn v rfl ha)
    · exact h c hc hk
  | upd key lsn v =>
    simp only [specStep, List.mem_map] at hc
    obtain ⟨c0, hc0, rfl⟩ := hc
    by_cases hkey : (c0.key == key) = true
    · simp only [hkey, if_true] at hk ⊢
      exact h c0 hc0 hk
    · simp only [hkey] at hk ⊢
      exact h c0 hc0 hk
  | del key lsn =>
    simp only [specStep, List.mem_map] at hc
    obtain ⟨c0, hc0, rfl⟩ := hc
    split
    · rfl
    · rename_i hkey; simp only [hkey] at hk; exact h c0 hc0 hk

/-- an accepted insert carries a key that is not in the tree -/
theorem accepted_key_fresh (s : Levels × Nat) (nf : Nat) (hinv : Inv s.1 nf) (hs : s.2 = nf) (key lsn : Nat) (v : Bytes)
    (ha : accepted s (.ins key lsn v) = true) : ∀ c ∈ cells s.1, c.key ≠ key := by
  simp only [accepted] at ha
  split at ha
  · rename_i r hr
    have hinv' := insertAppend_inv s.1 r.1 key lsn s.2 r.2 v (hs ▸ hinv) hr
    have hc := cells_insertAppend s.1 r.1 key lsn s.2 r.2 v hr
    have hasc := hinv'.asc
    unfold KeysAsc keys at hasc
    rw [hc, List.map_append, List.pairwise_append] at hasc
    intro c hcm heq
    have := hasc.2.2 c.key (List.mem_map_of_mem hcm) key (by simp)
    omega
  · cases ha

/-- **C01.no_resurrection**: a deleted row stays deleted through every later operation - no later
insert, value change, split or deletion brings it back. -/
theorem C01_no_resurrection (s : Levels × Nat) (hinv : Inv s.1 s.2) (k : Nat)
    (h : ∀ c ∈ cells s.1, c.key = k → c.deleted = true) (hk : ∃ c ∈ cells s.1, c.key = k) (ops : List TOp) :
    ∀ c ∈ cells (runOps s ops).1, c.key = k → c.deleted = true := by
  induction ops generalizing s with
  | nil => exact h
  | cons op rest ih =>
    simp only [runOps, List.foldl_cons]
    have hstep : cells (applyOp s op).1 = specStep (cells s.1) op (accepted s op) := C01_step s op
    obtain ⟨c0, hc0, hc0k⟩ := hk
    have hnew : ∀ key lsn v, op = .ins key lsn v → accepted s op = true → key ≠ k := by
      intro key lsn v hop ha heq
      subst hop
      exact accepted_key_fresh s s.2 hinv rfl key lsn v ha c0 hc0 (hc0k.trans heq.symm)
    have h' : ∀ c ∈ cells (applyOp s op).1, c.key = k → c.deleted = true := by
      rw [hstep]; exact specStep_deleted_stays _ op _ k hnew h
    have hk' : ∃ c ∈ cells (applyOp s op).1, c.key = k := by
      rw [hstep]
      cases op with
      | ins key lsn v =>
        simp only [specStep]
        split
        · exact ⟨c0, List.mem_append_left _ hc0, hc0k⟩
        · exact ⟨c0, hc0, hc0k⟩
      | upd key lsn v =>
        refine ⟨_, List.mem_map_of_mem hc0, ?_⟩
        split <;> simpa using hc0k
      | del key lsn =>
        refine ⟨_, List.mem_map_of_mem hc0, ?_⟩
        split <;> simpa using hc0k
    have := ih (applyOp s op) (applyOp_inv s op hinv) h' hk'
    simpa [runOps] using this

/-- **C01.forest_isolated**: with several tables (and the catalog) sharing one file and one allocation
frontier, an operation on one tree leaves the cells of every other tree exactly as they were - no
row leaks into another table. -/
theorem C01_forest_isolated (f : Forest) (op : FOp) (j : Nat) (hj : j ≠ target op) :
    (f.step op).trees[j]?.map cells = f.trees[j]?.map cells := Forest.step_cells_other f op j hj

/-- **C01.forest_target**: …and changes the target tree's cells exactly as the plain model says. -/
theorem C01_forest_target (f : Forest) (op : FOp) (t : Levels) (ht : f.trees[target op]? = some t) :
    ∃ t', (f.step op).trees[target op]? = some t' ∧ cells t' = cellsAfter f.nextFree t op :=
  Forest.step_cells f op t ht

/-- **C01.forest_no_page_shared**: after any history over any number of trees, every tree is well formed
below the shared frontier and no page belongs to two trees - "however the rows happen to be laid out
over pages". -/
theorem C01_forest_no_page_shared (f : Forest) (ops : List FOp) (hf : f.Inv) : (f.run ops).Inv :=
  Forest.run_inv f ops hf

/-- non-vacuity: insert 12 rows (one leaf split and a root), delete row 3, change row 5, insert one more -/
example :
    let ops : List TOp := (List.range' 1 12).map (fun k => TOp.ins k k [k.toUInt8]) ++ [.del 3 20, .upd 5 21 [9], .ins 13 22 []]
    (live (runOps (emptyTree 4096, 8192) ops).1).map (fun c => (c.key, c.val)) =
      [(1, [1]), (2, [2]), (4, [4]), (5, [9]), (6, [6]), (7, [7]), (8, [8]), (9, [9]), (10, [10]), (11, [11]), (12, [12]), (13, [])] := by
  decide

end Mkdb.Tree

namespace Mkdb.Refine
open Mkdb.Store Mkdb.Tree Mkdb.Page

/-- **C01.heap_scan_is_live** (the levels theorems reach the heap model): whenever the page heap of a
store holds a well-formed tree `t` - every page of `t` is what the engine sees at its offset - the
heap model's `scanRight` from `t`'s root (what SELECT, UPDATE and DELETE read a table with) returns
exactly `live t`, the plain list without tombstones, never panics and never runs out of fuel, and
leaves the heap holding `t`.  For trees of any depth up to the fuel bound (64 levels). -/
theorem C01_heap_scan_is_live (s : Store) (t : Levels) (nf : Nat) (hH : Holds s t) (hI : Inv t nf)
    (hF : Filed s) (hdepth : t.inner.length + 1 ≤ treeFuel) (hlen : t.leaves.length ≤ scanFuel) :
    ∃ res s', scanRight (rootOff t) s = .ok res s' ∧ res.map (·.1) = live t ∧ Holds s' t :=
  scanRight_live s t nf hH hI hF hdepth hlen

/-- non-vacuity: the sample tree laid out on disk -/
example : Holds sampleStore sampleTree ∧ Filed sampleStore := ⟨sample_holds, sample_filed⟩

end Mkdb.Refine

namespace Mkdb.Store
open Mkdb.Tree Mkdb.Page

/-- **C01.heap_history** (the levels theorems carried to whole histories on the heap model): for every
store whose page heap holds a well-formed tree `t` and every history of inserts, value changes and
deletions (side conditions `RunOK`: inserts arrive in ascending key order or are refused, updated
values fit a page cell, a row is deleted once, the tree stays within the 64-level fuel), running
the history with the heap model's own code - `insertKeyHeap`, `findLeaf` + `updateCellAt`, the
tombstone change of `MarkDeleted` - ends in a store whose heap holds exactly the tree the levels
model computes, well formed, with the same allocation frontier... -/
theorem C01_heap_history (ops : List HOp) (s : Store) (t : Levels)
    (hH : Holds s t) (hI : Inv t s.hdr.nextFree) (hok : RunOK (t, s.hdr.nextFree) ops) :
    ∃ s' root', heapRun (rootOff t) ops s = .ok root' s' ∧
      root' = rootOff (runH (t, s.hdr.nextFree) ops).1 ∧
      Holds s' (runH (t, s.hdr.nextFree) ops).1 ∧
      Inv (runH (t, s.hdr.nextFree) ops).1 s'.hdr.nextFree ∧
      s'.hdr.nextFree = (runH (t, s.hdr.nextFree) ops).2 :=
  heapRun_refines ops s t hH hI hok

/-- **C01.heap_history_scan**: ...and the scan SELECT reads the table with then returns exactly the live
cells of that tree - by `C01_history` the plain list the history implies, without the tombstoned rows. -/
theorem C01_heap_history_scan (ops : List HOp) (s : Store) (t : Levels)
    (hH : Holds s t) (hI : Inv t s.hdr.nextFree) (hok : RunOK (t, s.hdr.nextFree) ops)
    (hdepth : (runH (t, s.hdr.nextFree) ops).1.inner.length + 1 ≤ treeFuel)
    (hlen : (runH (t, s.hdr.nextFree) ops).1.leaves.length ≤ scanFuel) :
    ∃ s' root' res s'', heapRun (rootOff t) ops s = .ok root' s' ∧
      scanRight root' s' = .ok res s'' ∧
      res.map (·.1) = live (runH (t, s.hdr.nextFree) ops).1 ∧
      Holds s'' (runH (t, s.hdr.nextFree) ops).1 :=
  heapRun_scan ops s t hH hI hok hdepth hlen

end Mkdb.Store

namespace Mkdb.Store
open Mkdb.Tree Mkdb.Page Mkdb.Tuple Mkdb.Generated

/-- **C01.statement_insert** (statement level, with the catalog): under the catalog invariant `Cat` - the
page heap holds the page table, `sys_schema` and every user table as well-formed, pairwise disjoint
trees; the live rows of the page table name exactly these tables with their current roots; every
row id in the file is at most the row-id counter - `RelationService.Insert` on a known table with a
column list that names only columns of the table, each once (`hnames`; anything else is refused,
`C01_unknown_column_refused`), and a row that encodes: finds the table through the catalog, gives the row the next row id and the next
LSN, appends it to that table's tree (whatever splits that takes), leaves every other table and the
schema catalog untouched, re-points the table's page-table row exactly when its root moved, logs
the insert record and, then, the catalog record - and the catalog invariant holds again, so the
theorem applies to the next statement. -/
theorem C01_statement_insert (s : Store) (pt sch : Levels) (tbls : List (Bytes × Levels)) (h : Cat s pt sch tbls)
    (table : Bytes) (t : Levels) (ht : (table, t) ∈ tbls) (cols : List String) (vals : List Val)
    (schema : List FieldDef) (buf : Bytes) (hsch : schemaOf sch table = some schema)
    (hcols : (colsOf schema cols).length = vals.length)
    (hnames : checkColumns schema (colsOf schema cols) = none)
    (henc : encodeTuple schema ((colsOf schema cols).zip vals).reverse = .ok buf)
    (hlen : buf.length ≤ c_maxValueSize)
    (t' : Levels) (nf' : Nat)
    (hins : insertAppend t (s.hdr.lastKey + 1) s.hdr.nextLSN buf s.hdr.nextFree = .ok (t', nf'))
    (hd' : t'.inner.length + 2 ≤ treeFuel) (hl' : t'.leaves.length ≤ scanFuel)
    (hbig : (nf' : Int) ≤ 9223372036854775807) :
    ∃ s' ptF logs, insert table cols vals s = .ok logs s' ∧
      Cat s' ptF sch (setTable tbls table t') ∧
      s'.hdr.lastKey = s.hdr.lastKey + 1 ∧ s'.hdr.nextFree = nf' ∧
      ((rootOff t' = rootOff t ∧ ptF = pt ∧ s'.hdr.nextLSN = s.hdr.nextLSN + 1 ∧
          logs = [⟨c_OpInsert, s.hdr.nextLSN, rootOff t, s.hdr.lastKey + 1, buf⟩]) ∨
       (rootOff t' ≠ rootOff t ∧ s'.hdr.nextLSN = s.hdr.nextLSN + 2 ∧
          ∃ k leafOff, ptF = setVal pt k (s.hdr.nextLSN + 1) (ptRow table (rootOff t')) ∧
            logs = [⟨c_OpInsert, s.hdr.nextLSN, rootOff t, s.hdr.lastKey + 1, buf⟩,
                    ⟨c_OpUpdate, s.hdr.nextLSN + 1, leafOff, k, ptRow table (rootOff t')⟩])) :=
  insert_refines s pt sch tbls h table t ht cols vals schema buf hsch hcols hnames henc hlen t' nf' hins hd' hl' hbig

/-- **C01.statement_insert_row_appended**: ...and the table then reads as before plus the new row. -/
theorem C01_statement_insert_row_appended (t t' : Levels) (key lsn nf nf' : Nat) (buf : Bytes)
    (h : insertAppend t key lsn buf nf = .ok (t', nf')) : live t' = live t ++ [⟨key, false, buf⟩] :=
  insert_live t t' key lsn nf nf' buf h

/-- **C01.statement_unknown_table**: an INSERT into a table the catalog does not know is refused and
changes nothing the engine can see. -/
theorem C01_statement_unknown_table (s : Store) (pt sch : Levels) (tbls : List (Bytes × Levels)) (h : Cat s pt sch tbls)
    (table : Bytes) (cols : List String) (vals : List Val)
    (h1 : table ≠ sysPages) (h2 : table ≠ sysSchema) (h3 : table ∉ tbls.map (·.1)) :
    ∃ s', insert table cols vals s = .err .tableNotExist s' ∧ Same s s' ∧ Cat s' pt sch tbls :=
  insert_unknown_table s pt sch tbls h table cols vals h1 h2 h3

end Mkdb.Store

namespace Mkdb.Store
open Mkdb.Tree Mkdb.Page Mkdb.Tuple Mkdb.Generated

/-- **C01.statement_select**: under the catalog invariant, `RelationService.Fetch` on a known table -
what SELECT reads - returns, for every live cell of the table's tree in scan order, its row id and
its decoded values, and the table's declared columns; it changes nothing the engine can see. -/
theorem C01_statement_select {s : Store} {pt sch : Levels} {tbls : List (Bytes × Levels)} (h : Cat s pt sch tbls)
    (table : Bytes) (t : Levels) (ht : (table, t) ∈ tbls) (schema : List FieldDef)
    (hsch : schemaOf sch table = some schema)
    (hdec : ∀ c ∈ live t, ∃ m, decodeTuple schema c.val [] = .ok m) :
    ∃ s', fetchTable table s = .ok (rowsOf schema (live t), schema) s' ∧ Same s s' ∧ Cat s' pt sch tbls :=
  fetchTable_cat h table t ht schema hsch hdec

/-- **C01.statement_delete**: `RelationService.MarkDeleted` of a live row id finds the row through the
catalog and the tree, sets its tombstone, logs one DELETE record with the next LSN, touches no other
page and no other table; afterwards the table reads as before without that row
(`markDeleted_live`); a row id that is absent or already deleted is refused and nothing changes
(`markDeleted_cat_absent`). -/
theorem C01_statement_delete {s : Store} {pt sch : Levels} {tbls : List (Bytes × Levels)} (h : Cat s pt sch tbls)
    (table : Bytes) (t : Levels) (ht : (table, t) ∈ tbls) (rowId : Nat) (c : LeafCell)
    (hc : c ∈ live t) (hk : c.key = rowId) :
    ∃ s' l d, (l, d) ∈ t.leaves ∧ c ∈ l.cells ∧
      markDeleted table rowId s = .ok [⟨c_OpDelete, s.hdr.nextLSN, l.off, rowId, []⟩] s' ∧
      Cat s' pt sch (setTable tbls table (setDeleted t rowId s.hdr.nextLSN)) ∧
      s'.hdr.nextLSN = s.hdr.nextLSN + 1 ∧ s'.hdr.lastKey = s.hdr.lastKey ∧
      s'.hdr.ptRoot = s.hdr.ptRoot ∧ s'.hdr.nextFree = s.hdr.nextFree ∧
      ∀ off, off ≠ l.off → view s' off = view s off :=
  markDeleted_cat h table t ht rowId c hc hk

/-- **C01.statement_update**: `RelationService.Update` of a live row id whose new tuple encodes and
fits replaces exactly that row's value, logs one UPDATE record, and touches nothing else; with no
such live row it is a no-op (`update_cat_absent`); a column list naming an unknown column or one column
twice is refused before the scan with nothing changed (`update_names_refused`; `hnames` excludes it
here); a row that does not decode, encode or fit is refused with nothing changed
(`update_cat_undecodable`, `update_cat_encode_error`, `update_cat_too_large`). -/
theorem C01_statement_update {s : Store} {pt sch : Levels} {tbls : List (Bytes × Levels)} (h : Cat s pt sch tbls)
    (table : Bytes) (t : Levels) (ht : (table, t) ∈ tbls) (schema : List FieldDef)
    (hsch : schemaOf sch table = some schema) (rowId : Nat) (cols : List String) (src : List Val)
    (hnames : checkColumns schema cols = none)
    (c : LeafCell) (hc : c ∈ live t) (hk : c.key = rowId) (m : Vals) (buf : Bytes)
    (hdec : decodeTuple schema c.val [] = .ok m)
    (henc : encodeTuple schema ((cols.zip src).reverse ++ m) = .ok buf)
    (hlen : buf.length ≤ c_maxValueSize) :
    ∃ s' l d, (l, d) ∈ t.leaves ∧ c ∈ l.cells ∧
      update table rowId cols src s = .ok [⟨c_OpUpdate, s.hdr.nextLSN, l.off, rowId, buf⟩] s' ∧
      Cat s' pt sch (setTable tbls table (setVal t rowId s.hdr.nextLSN buf)) ∧
      s'.hdr.nextLSN = s.hdr.nextLSN + 1 ∧ s'.hdr.lastKey = s.hdr.lastKey ∧
      s'.hdr.ptRoot = s.hdr.ptRoot ∧ s'.hdr.nextFree = s.hdr.nextFree ∧
      ∀ off, off ≠ l.off → view s' off = view s off :=
  update_cat h table t ht schema hsch rowId cols src hnames c hc hk m buf hdec henc hlen

end Mkdb.Store

namespace Mkdb.Store
open Mkdb.Tree Mkdb.Page Mkdb.Tuple Mkdb.Generated

/-- **C01.statement_create_table**: under the catalog invariant (and a well-filed cache), CREATE TABLE of
a new name whose column lengths fit `int32`, whose column names are distinct (`hfld`) and whose catalog
rows fit - with the flush that ends it - succeeds; afterwards the catalog
invariant holds for the old tables (unchanged but for cleared dirty bits) plus the new, empty table
rooted at the page that was the allocation frontier; the page table has exactly one more entry
(and its `sys_schema` entry follows that tree's root); `sys_schema` has one more row per declared
column, in order, and reads back the declared columns for the new table and the same columns as
before for every other table; the header on disk equals the header in memory and no page is dirty. -/
theorem C01_statement_create_table {s : Store} {pt sch : Levels} {tbls : List (Bytes × Levels)}
    (h : Cat s pt sch tbls) (hf : MemFiled s)
    (fields : List FieldDef) (name : Bytes) (order : List Nat)
    (hn1 : name ≠ sysPages) (hn2 : name ≠ sysSchema) (hn3 : name ∉ tbls.map (·.1))
    (hfld : checkFieldsFrom [] fields = none)
    (hchk : checkCatalogRows fields name = none)
    (hpd : pt.inner.length + 3 ≤ treeFuel) (hpl : pt.leaves.length + 1 ≤ scanFuel)
    (hsd : sch.inner.length + fields.length + 2 ≤ treeFuel) (hsl : sch.leaves.length + fields.length ≤ scanFuel)
    (hbig : s.hdr.nextFree + 262144 * fields.length + 262144 ≤ 9223372036854775807) :
    ∃ s' ptN schN,
      createTable fields name order true s = .ok () s' ∧
      Cat s' (clean ptN) (clean schN)
        ((tbls.map fun e => (e.1, clean e.2)) ++ [(name, clean (emptyTree s.hdr.nextFree))]) ∧
      s'.dhdr = s'.hdr ∧ (∀ p ∈ s'.mem, p.2.dirty = false) ∧
      ptEntries (clean ptN) =
        (ptEntries pt ++ [(name, s.hdr.nextFree)]).map (repoint sysSchema (rootOff schN)) ∧
      cells (clean schN) = cells sch ++ schemaCells name fields (s.hdr.lastKey + 2) ∧
      schemaOf (clean schN) name = (schemaOf sch name).map (· ++ fields) ∧
      (∀ n, n ≠ name → schemaOf (clean schN) n = schemaOf sch n) ∧
      s'.hdr.lastKey = s.hdr.lastKey + 1 + fields.length := by
  obtain ⟨_, s', _, _, ptN, schN, _, e, hc, _, hd, _, _, _, hnd, _, _, _, _, _, hent, hcells, hs1, hs2, hlk, _⟩ :=
    createTable_cat h hf fields name order hn1 hn2 hn3 hfld hchk hpd hpl hsd hsl hbig
  exact ⟨s', ptN, schN, e, hc, hd, hnd, hent, hcells, hs1, hs2, hlk⟩

/-- **C01.statement_create_existing**: CREATE TABLE of a name the catalog knows is refused and changes
nothing the engine can see. -/
theorem C01_statement_create_existing {s : Store} {pt sch : Levels} {tbls : List (Bytes × Levels)}
    (h : Cat s pt sch tbls) (fields : List FieldDef) (name : Bytes) (order : List Nat) (doFlush : Bool)
    (hn : name ∈ tbls.map (·.1)) :
    ∃ s', createTable fields name order doFlush s = .err .tableAlreadyExist s' ∧ Same s s' ∧ Cat s' pt sch tbls :=
  createTable_exists_cat h fields name order doFlush hn

end Mkdb.Store

namespace Mkdb.Store
open Mkdb.Tree Mkdb.Page Mkdb.Tuple Mkdb.Generated

/-! ### The end-to-end refinement: the engine's statements refine the plain in-memory model

`AbsV db.store pt sch tbls sdb`: the store satisfies the catalog invariant and, table by table in
creation order, its declared columns and the decoded live rows of its tree are the columns and rows
of the plain database `sdb` (`Mkdb.Spec.SDB`, the very specification the judge evaluates on the
implementation's outputs).  The three theorems say that whenever the plain model accepts a
statement, the engine's evaluator (statement loop, catalog lookups, WHERE evaluation, row codec,
B+ tree, log batch) succeeds and lands in a store that abstracts to the plain model's result. -/

/-- **C01.insert_refines_plain_model** -/
theorem C01_insert_refines_plain_model (db : Engine.DB) (pt sch : Levels) (tbls : List (Bytes × Levels))
    (sdb sdb' : Spec.SDB) (h : AbsV db.store pt sch tbls sdb)
    (table : Bytes) (t : Levels) (ht : (table, t) ∈ tbls)
    (schema : List FieldDef) (hsch : schemaOf sch table = some schema)
    (cols : List Bytes) (rows : List (List Val)) (hvalid : ∀ r ∈ rows, ∀ v ∈ r, ValidVal v)
    (hspec : Spec.specInsert sdb table cols rows = some sdb')
    (hrun : InsRunOK schema (cols.map Engine.bytesToName) t db.store.hdr.lastKey db.store.hdr.nextLSN
      db.store.hdr.nextFree rows) :
    ∃ db' ptF t' logs,
      Engine.evalInsert db table cols rows = .ok rows.length db' ∧
      db'.wal = db.wal ++ logs ∧
      InsApplies table (cols.map Engine.bytesToName) rows db.store logs db'.store ∧
      AbsV db'.store ptF sch (setTable tbls table t') sdb' ∧
      db'.store.hdr.lastKey = db.store.hdr.lastKey + rows.length :=
  evalInsert_refines_specV db pt sch tbls sdb sdb' h table t ht schema hsch cols rows hvalid hspec hrun

/-- **C01.delete_refines_plain_model**: no side condition at all beyond the abstraction. -/
theorem C01_delete_refines_plain_model (db : Engine.DB) (pt sch : Levels) (tbls : List (Bytes × Levels))
    (sdb sdb' : Spec.SDB) (h : AbsV db.store pt sch tbls sdb) (table : Bytes) (w : Option Sql.Cond)
    (hspec : Spec.specDelete sdb table w = some sdb') :
    ∃ n db' t' logs,
      Engine.evalDelete db table w = .ok n db' ∧ db'.wal = db.wal ++ logs ∧ logs.length = n ∧
      AbsV db'.store pt sch (setTable tbls table t') sdb' ∧
      db'.store.hdr.lastKey = db.store.hdr.lastKey ∧
      (∀ st sel, Spec.findTable sdb table = some st → Spec.selects st w = some sel →
        n = (sel.filter id).length) :=
  evalDelete_refines_specV db pt sch tbls sdb sdb' h table w hspec

/-- **C01.update_refines_plain_model** (`hutf`: the SET column names are valid UTF-8 - the engine's check
of the SET columns compares the names as byte strings, the plain model as decoded strings; they differ
only for a name that is not valid UTF-8 on a table with a column named by the empty string) -/
theorem C01_update_refines_plain_model (db : Engine.DB) (pt sch : Levels) (tbls : List (Bytes × Levels))
    (sdb sdb' : Spec.SDB) (h : AbsV db.store pt sch tbls sdb) (table : Bytes)
    (sets : List (Bytes × Sql.VExpr)) (w : Option Sql.Cond)
    (hvalid : ∀ p ∈ sets, ∀ l, p.2 = .lit l → ValidVal (Engine.litToVal l))
    (hutf : ∀ p ∈ sets, (Spec.nameStr p.1).toUTF8.toList = p.1)
    (hspec : Spec.specUpdate sdb table sets w = some sdb') :
    ∃ db' t' logs,
      Engine.evalUpdate db table sets w = .ok () db' ∧ db'.wal = db.wal ++ logs ∧
      AbsV db'.store pt sch (setTable tbls table t') sdb' ∧
      db'.store.hdr.lastKey = db.store.hdr.lastKey :=
  evalUpdate_refines_specV db pt sch tbls sdb sdb' h table sets w hvalid hutf hspec

end Mkdb.Store

namespace Mkdb.Store
open Mkdb.Tree Mkdb.Page Mkdb.Tuple Mkdb.Generated

/-- **C01.every_statement_refines_plain_model** (end to end, one theorem over parsed statements):
`Rel` ties the engine model to the plain in-memory model - the store abstracts table by table to the
plain database (`AbsV`), `sys_schema` holds no rows under names without a table (`NoStale`), the page
cache agrees with the file where it is clean (`MemFiled`).  Whenever the plain model accepts a
statement - CREATE TABLE, multi-row INSERT, UPDATE, DELETE with any WHERE; every other statement kind
changes no database - the engine model succeeds and `Rel` holds again with the plain model's result.
`StmtRoom` is the side condition a Go program meets: literals that fit their Go types, 64-level fuel,
offsets below 2^63, CREATE TABLE catalog rows within the cell size (otherwise refused, C14), SET column
names that are valid UTF-8.  (`AbsV` includes that no table has two columns of one name - what the
repaired CREATE TABLE guarantees and every statement keeps.) -/
theorem C01_every_statement_refines_plain_model (db : Engine.DB) (order : List Nat) (pt sch : Levels)
    (tbls : List (Bytes × Levels)) (sdb sdb' : Spec.SDB) (h : Rel db pt sch tbls sdb) (st : Sql.Stmt)
    (hroom : StmtRoom db pt sch tbls st) (hspec : Spec.specStmt sdb st = some sdb') :
    ∃ db' pt' sch' tbls', evalStmt db order st = .ok () db' ∧ Rel db' pt' sch' tbls' sdb' :=
  evalStmt_refines_spec db order pt sch tbls sdb sdb' h st hroom hspec

/-- **C01.create_table_refines_plain_model**: CREATE TABLE the plain model accepts - the new catalog is
the old tables (clean) plus an empty tree at the old allocation frontier, the row-id counter advanced
by one per catalog row, no dirty page left, header on disk equal to the one in memory. -/
theorem C01_create_table_refines_plain_model (db : Engine.DB) (pt sch : Levels) (tbls : List (Bytes × Levels))
    (sdb sdb' : Spec.SDB) (h : AbsV db.store pt sch tbls sdb) (hns : NoStale sch tbls) (hmf : MemFiled db.store)
    (name : Bytes) (cols : List Sql.ColDef) (order : List Nat)
    (hspec : Spec.specCreate sdb name cols = some sdb')
    (hlo : ∀ c ∈ cols, ∀ k, c.ty = .varchar k → -2147483648 ≤ k)
    (hchk : checkCatalogRows (cols.map Engine.colTypeToField) name = none)
    (hpd : pt.inner.length + 3 ≤ treeFuel) (hpl : pt.leaves.length + 1 ≤ scanFuel)
    (hsd : sch.inner.length + cols.length + 2 ≤ treeFuel) (hsl : sch.leaves.length + cols.length ≤ scanFuel)
    (hbig : db.store.hdr.nextFree + 262144 * cols.length + 262144 ≤ 9223372036854775807) :
    ∃ db' pt' sch',
      Engine.evalCreateTable db name cols order true = .ok () db' ∧ db'.wal = db.wal ∧
      AbsV db'.store pt' sch'
        ((tbls.map fun e => (e.1, clean e.2)) ++ [(name, clean (emptyTree db.store.hdr.nextFree))]) sdb' ∧
      NoStale sch'
        ((tbls.map fun e => (e.1, clean e.2)) ++ [(name, clean (emptyTree db.store.hdr.nextFree))]) ∧
      MemFiled db'.store ∧ db'.store.dhdr = db'.store.hdr ∧ (∀ p ∈ db'.store.mem, p.2.dirty = false) ∧
      db'.store.hdr.lastKey = db.store.hdr.lastKey + 1 + cols.length :=
  evalCreateTable_refines_specV db pt sch tbls sdb sdb' h hns hmf name cols order hspec hlo hchk hpd hpl hsd hsl hbig

/-- the statement dispatcher of the theorems above is the one of the session model (`Session.exec`,
compared with `Session.ExecQuery` by the sess harness): on the four kinds it runs `evalStmt` on the
selected database -/
theorem C01_session_runs_evalStmt (s : Session.Sess) (st : Sql.Stmt)
    (hk : (∃ n c, st = .createTable n c) ∨ (∃ t c r, st = .insert t c r) ∨ (∃ t a w, st = .update t a w) ∨
      (∃ t w, st = .delete t w)) :
    Session.exec s st = Session.onCurrent s fun db => evalStmt db [] st := by
  have hv : ∀ {α} (f : Engine.DB → Engine.Res α),
      Session.onCurrent s f = Session.onCurrent s fun db => voidRes (f db) := by
    intro α f
    unfold Session.onCurrent
    split
    · rfl
    · split
      · rfl
      · rename_i db _
        cases hf : f db <;> simp [voidRes, hf]
  rcases hk with ⟨n, c, rfl⟩ | ⟨t, c, r, rfl⟩ | ⟨t, a, w, rfl⟩ | ⟨t, w, rfl⟩
  · rfl
  · exact hv _
  · rfl
  · exact hv _

end Mkdb.Store

namespace Mkdb.Store
open Mkdb.Tree Mkdb.Page Mkdb.Tuple Mkdb.Generated

/-- **C01.every_history_refines_plain_model** (the property itself, at the level of parsed
statements, for histories of any length): start from related states; run any list of statements
each of which the plain model either accepts (with the room a Go program has, `StmtRoom`) or refuses
before a change (`StmtRefusal`), going on after every error value.  The engine model never crashes and
ends related to `specHist`, the plain database the acknowledged statements of the history imply
(a refused statement contributes nothing).  Excluded by `HistOK`, and stated exactly in
C14_insert_kth_row_plain_model / C14_update_kth_row_plain_model: a multi-row statement refused at a
later row (the known finding of C14), after which the plain database of the judge and the store
differ by the applied prefix. -/
theorem C01_every_history_refines_plain_model (order : List Nat) (sts : List Sql.Stmt)
    (db : Engine.DB) (pt sch : Levels) (tbls : List (Bytes × Levels)) (sdb : Spec.SDB)
    (h : Rel db pt sch tbls sdb) (hok : HistOK order sts db sdb) :
    ∃ db' pt' sch' tbls', runHist order db sts = some db' ∧ Rel db' pt' sch' tbls' (specHist sdb sts) :=
  runHist_refines_spec order sts db pt sch tbls sdb h hok

/-- the side conditions are met by every history of DELETE statements on user tables, whatever their
WHERE clauses (non-vacuity of `HistOK` beyond single examples; `hist_example` mixes in a refused
CREATE TABLE on a concrete store) -/
theorem C01_delete_histories_meet_side_conditions (order : List Nat) (sts : List Sql.Stmt)
    (h : ∀ st ∈ sts, ∃ t w, st = .delete t w ∧ t ≠ sysPages ∧ t ≠ sysSchema)
    (db : Engine.DB) (sdb : Spec.SDB) : HistOK order sts db sdb :=
  histOK_deletes order sts h db sdb

end Mkdb.Store

namespace Mkdb.Store
open Mkdb.Tree Mkdb.Page Mkdb.Tuple Mkdb.Generated

/-! ### No value is dropped in silence: column names (the repaired defect)

Before the repair an INSERT / UPDATE naming a column the table does not have (or one column twice)
went through with the value dropped, and CREATE TABLE accepted two columns of one name. -/

/-- **C01.unknown_column_refused** (heap model, ANY store): once the catalog lookups of
`RelationService.Insert` have delivered the columns `schema` of the table, an INSERT whose column list
names something that is not a column of the table is never accepted: it returns `colCountMismatch`
(wrong number of values; tested first) or `fieldNotFound` / `fieldAmbiguous` (exactly what
`checkColumns` says), in the store the read-only lookups left - and a well-filed cache stays well
filed with every page, dirty bit, the data file and the header locations as they were. -/
theorem C01_unknown_column_refused (table : Bytes) (cols : List String) (vals : List Val) (s s1 s2 s3 : Store)
    (off : Nat) (n : Node) (schema : List FieldDef)
    (h1 : relationOffset table s = .ok off s1) (h2 : fetch off s1 = .ok n s2)
    (h3 : relationSchema table s2 = .ok schema s3)
    (c : String) (hc : c ∈ colsOf schema cols) (hn : c ∉ schema.map (·.name)) :
    ∃ e, insert table cols vals s = .err e s3 ∧
      (e = .colCountMismatch ∨ e = .fieldNotFound ∨ e = .fieldAmbiguous) ∧
      ((colsOf schema cols).length = vals.length → checkColumns schema (colsOf schema cols) = some e) ∧
      (Filed s → Filed s3 ∧ SameData s s3) :=
  insert_unknown_column table cols vals s s1 s2 s3 off n schema h1 h2 h3 c hc hn

/-- **C01.accepted_insert_names_columns** (heap model, ANY store): an `RelationService.Insert` that
succeeded named only columns of the table, each of them once, with one value per name. -/
theorem C01_accepted_insert_names_columns (table : Bytes) (cols : List String) (vals : List Val) (s : Store)
    (logs : List WalRec) (s' : Store) (h : insert table cols vals s = .ok logs s') :
    ∃ off s1 n s2 schema s3, relationOffset table s = .ok off s1 ∧ fetch off s1 = .ok n s2 ∧
      relationSchema table s2 = .ok schema s3 ∧ (colsOf schema cols).length = vals.length ∧
      (∀ c ∈ colsOf schema cols, c ∈ schema.map (·.name)) ∧ (colsOf schema cols).Nodup :=
  insert_ok_names table cols vals s logs s' h

/-- **C01.checkColumns_exact**: the check passes exactly when every name is a column of the relation and
no name occurs twice; its only errors are `fieldNotFound` and `fieldAmbiguous`. -/
theorem C01_checkColumns_exact (schema : List FieldDef) (cs : List String) :
    (checkColumns schema cs = none ↔ (∀ c ∈ cs, c ∈ schema.map (·.name)) ∧ cs.Nodup) ∧
    ∀ e, checkColumns schema cs = some e → e = .fieldNotFound ∨ e = .fieldAmbiguous :=
  ⟨checkColumns_none_iff schema cs, fun _ h => checkColumns_some h⟩

/-- **C01.plain_model_names**: an INSERT (of at least one row) the plain model accepts names only
columns of the table, each of them once. -/
theorem C01_plain_model_names {sdb sdb' : Spec.SDB} {table : Bytes} {cols : List Bytes}
    {r : List Val} {rest : List (List Val)}
    (h : Spec.specInsert sdb table cols (r :: rest) = some sdb') :
    ∃ tbl, Spec.findTable sdb table = some tbl ∧ Spec.namesOK tbl (cols.map Spec.nameStr) = true :=
  specInsert_names h

/-- **C01.row_holds_named_values**: a row the plain model accepts for an INSERT with a column list holds,
at the position of every column of the table, the `i`-th value when the column is the `i`-th name of
the list and NULL when the column is not named: every given value is in the row, under its name. -/
theorem C01_row_holds_named_values (t : Spec.STable) (cols : List Bytes) (vals row : List Val)
    (h : Spec.rowOf t cols vals = some row) (hne : cols ≠ [])
    (hok : Spec.namesOK t (cols.map Spec.nameStr) = true) :
    row.length = t.cols.length ∧
    ∀ (j : Nat) (fd : FieldDef), t.cols[j]? = some fd →
      (∀ (i : Nat) (c : Bytes) (v : Val), cols[i]? = some c → vals[i]? = some v →
        Spec.nameStr c = fd.name → row[j]? = some v) ∧
      (fd.name ∉ cols.map Spec.nameStr → row[j]? = some .null) :=
  rowOf_named t cols vals row h hne hok

/-- **C01.plain_model_check_is_engine_check**: the plain model's test of a column list is the engine
model's `checkColumns` on the table's columns. -/
theorem C01_plain_model_check_is_engine_check (t : Spec.STable) (names : List String) :
    Spec.namesOK t names = true ↔ checkColumns t.cols names = none :=
  namesOK_iff_checkColumns t names

/-- **C01.unknown_column_example** (non-vacuity, and the regression witness of the repaired defect): on
the concrete store with the table `t (a INT)`, `INSERT INTO t (b) VALUES (1)` is refused by the plain
model and by the engine model (`fieldNotFound`); pages, header and log are as before, and the store
still abstracts to the same plain database. -/
theorem C01_unknown_column_example :
    Spec.specInsert sdbA0 tname [[98]] [[.int 1]] = none ∧
    ∃ db', Engine.evalInsert dbA tname [[98]] [[.int 1]] = .err (.store .fieldNotFound) db' ∧
      db'.wal = dbA.wal ∧ Same dbA.store db'.store ∧ Abs db'.store pt0 sch1 [(tname, t0)] sdbA0 :=
  unknown_column_example

/-- **C01.names_refusals_example**: `UPDATE t SET b = 1` and `CREATE TABLE u (b VARCHAR(10), b VARCHAR(10))`
on the same store: refused by both, log untouched, same catalog and plain database. -/
theorem C01_names_refusals_example :
    (Spec.specStmt sdbA0 (.update tname [([98], .lit (.int 1))] none) = none ∧
      ∃ e db', evalStmt dbA [] (.update tname [([98], .lit (.int 1))] none) = .err e db' ∧ db'.wal = dbA.wal ∧
        Rel db' pt0 sch1 [(tname, t0)] sdbA0) ∧
    (Spec.specStmt sdbA0 (.createTable uname (bcols ++ bcols)) = none ∧
      ∃ e db', evalStmt dbA [] (.createTable uname (bcols ++ bcols)) = .err e db' ∧ db'.wal = dbA.wal ∧
        Rel db' pt0 sch1 [(tname, t0)] sdbA0) :=
  names_refusals_example

end Mkdb.Store

namespace Mkdb.Store
open Mkdb.Tree Mkdb.Page Mkdb.Tuple Mkdb.Generated

/-- **C01.create_database_establishes_the_invariants** (the base case of every induction above).
`storage.CreateDB` as modelled (`createDB`, write order `[]`, from nothing) returns the store
`newStore` - computed by kernel evaluation of the model: the page table at 4096 with the rows of
`sys_pages` and `sys_schema`, `sys_schema` at 8192 with the six rows that describe the two catalog
tables, row ids and LSNs 1-8 used, both pages and the header in the data file; the levels model agreed
with every insert.  The session installs `newDB` = that data file re-opened, with an empty log.  Of
`newDB`, with the catalog description `ptNew`, `schNew` (the two one-leaf trees), NO user tables and
the EMPTY plain database, every invariant of the development holds: the catalog invariant `Cat`, the
abstraction `Abs` / `AbsV`, `NoStale`, `MemFiled`, hence `Rel` (what every statement preserves);
`PtSelf`, `FreshM`, and the checkpoint invariant `Ckpt` (what flushes, crashes and recoveries
preserve).  None of the hand-written stores of the examples (`emptyCatalog`, `st0`, `st1`) is this
store (`Proofs/BaseCase`, `BaseCase3`). -/
theorem C01_create_database_establishes_the_invariants :
    createDB [] {} = .ok () newStore ∧ newDB = { store := reopen newStore, wal := [] } ∧
    (∀ (s s' : Session.Sess) (name : Bytes), Session.exec s (.createDatabase name) = (s', Session.Out.ok) →
      s' = Session.setDB s (Session.canon name) newDB) ∧
    Cat newDB.store ptNew schNew [] ∧ Abs newDB.store ptNew schNew [] [] ∧ AbsV newDB.store ptNew schNew [] [] ∧
    NoStale schNew [] ∧ MemFiled newDB.store ∧ Rel newDB ptNew schNew [] [] ∧
    PtSelf ptNew ∧ FreshM newDB.store [] ∧ Ckpt schNew newDB [] ptNew [] :=
  ⟨createDB_eq, rfl, fun s s' name h => exec_createDatabase_newDB s name s' h, cat_newDB, abs_newDB, absV_newDB,
    noStale_new, memFiled_newDB, rel_newDB, ptNew_self, freshM_newDB, ckpt_newDB⟩

/-- **C01.catalog_describes_itself**: in the new database the page table names itself and `sys_schema`,
and the column lists `sys_schema` spells for `sys_pages` and for `sys_schema` are the schemas the
catalog lookups decode their rows with; this description of the store is the only one. -/
theorem C01_catalog_describes_itself :
    ptEntries ptNew = [(sysPages, 4096), (sysSchema, 8192)] ∧
    schemaOf schNew sysPages = some pageTableSchema ∧ schemaOf schNew sysSchema = some schemaTableSchema ∧
    ∀ pt sch tbls sdb, Rel newDB pt sch tbls sdb → pt = ptNew ∧ sch = schNew ∧ tbls = [] ∧ sdb = [] :=
  ⟨ptNew_entries, schNew_describes_catalog.1, schNew_describes_catalog.2, fun _ _ _ _ h => rel_newDB_unique h⟩

/-- **C01.every_history_from_create_database**: `C01_every_history_refines_plain_model` with its
hypothesis discharged at the real starting point.  From the database `CREATE DATABASE` leaves and the
empty plain database, through any list of statements each of which the plain model accepts (with
room) or refuses before a change, for any page write order of the flushes, the engine model never
crashes and ends related to the plain database the history implies. -/
theorem C01_every_history_from_create_database (order : List Nat) (sts : List Sql.Stmt)
    (hok : HistOK order sts newDB []) :
    ∃ db' pt' sch' tbls', runHist order newDB sts = some db' ∧ Rel db' pt' sch' tbls' (specHist [] sts) :=
  from_create_database_history_order order sts hok

/-- **C01.create_table_after_create_database** (non-vacuity of the above): `CREATE TABLE t (a INT)` on
the new database is accepted by the plain model and by the engine model; the relation holds afterwards
for the plain database with the one empty table `t (a INT)`; and the one-statement history meets
`HistOK`. -/
theorem C01_create_table_after_create_database :
    (Spec.specStmt [] (.createTable tname acols) = some [⟨tname, [⟨"a", .int, 0⟩], []⟩] ∧
      ∃ db' pt' sch' tbls', evalStmt newDB [] (.createTable tname acols) = .ok () db' ∧
        Rel db' pt' sch' tbls' [⟨tname, [⟨"a", .int, 0⟩], []⟩]) ∧
    HistOK [] [.createTable tname acols] newDB [] :=
  ⟨create_table_on_newDB, histOK_create_t⟩

end Mkdb.Store
