import Mkdb.Proofs.Tuple
import Mkdb.Proofs.ColumnNames
import Mkdb.Proofs.SessionInv10
/-!
# C08 — stored values read back exactly; invalid values are refused (row codec part)

Property theorems only.  Quantifier: every schema with distinct column names (any mix and
order of the four types), every assignment of values (any int64, any byte string, both
booleans, NULL / absent).  The statement-level and page-level parts (size limit, literals,
read-back through flush / eviction / restart) are in C01, C09 and C12.
-/
namespace Mkdb.Tuple
open Mkdb.Bin

/-- **C08.tuple_roundtrip**: whatever `Tuple.Encode` accepts, `Tuple.Decode` returns
bit-for-bit, column by column; NULL/absent columns come back absent. -/
theorem C08_tuple_roundtrip (sch : List FieldDef) (vals : Vals)
    (hvals : ∀ k, ValidVal (get vals k)) (hnd : (sch.map (·.name)).Nodup) (bs : Bytes)
    (h : encodeTuple sch vals = .ok bs) :
    ∃ m, decodeTuple sch bs [] = .ok m ∧ ∀ fd ∈ sch, get m fd.name = get vals fd.name := by
  obtain ⟨m, h1, h2, _⟩ := decode_encode_aux sch vals hvals hnd bs [] [] (by intros; rfl) h
  exact ⟨m, by simpa using h1, h2⟩

/-- **C08.accept_iff**: a row is accepted exactly when every column is NULL/absent or holds
a value of the column's type, INT columns within 32 bits. -/
theorem C08_accept_iff (sch : List FieldDef) (vals : Vals) :
    (∃ bs, encodeTuple sch vals = .ok bs) ↔
      ∀ fd ∈ sch, get vals fd.name = .null ∨ validate fd (get vals fd.name) = .ok () := by
  induction sch with
  | nil => simp [encodeTuple]
  | cons fd t ih =>
    simp only [encodeTuple, List.mem_cons, forall_eq_or_imp]
    rw [← ih, ← encField_ok_iff]
    constructor
    · rintro ⟨bs, h⟩
      cases hb : encField fd (get vals fd.name) with
      | error e => simp [hb] at h
      | ok b =>
        simp only [hb] at h
        cases ht : encodeTuple t vals with
        | error e => simp [ht] at h
        | ok bt => exact ⟨⟨b, rfl⟩, ⟨bt, rfl⟩⟩
    · rintro ⟨⟨b, hb⟩, ⟨bt, ht⟩⟩
      exact ⟨b ++ bt, by simp [hb, ht]⟩

/-- **C08.refuse_kind**: a non-NULL value of the wrong kind is `ErrTypeMismatch`, an INT
outside 32 bits is `ErrIntOutOfRange`; never silently truncated. -/
theorem C08_refuse_kind (fd : FieldDef) (v : Val) :
    (validate fd v = .error .intOutOfRange ↔
      ∃ i, v = .int i ∧ fd.ty = .int ∧ (i > 2147483647 ∨ i < -2147483648)) ∧
    (validate fd v = .error .typeMismatch ↔
      ¬ ((fd.ty = .int ∧ ∃ i, v = .int i) ∨ (fd.ty = .bigint ∧ ∃ i, v = .int i) ∨
         (fd.ty = .varchar ∧ ∃ s, v = .str s) ∨ (fd.ty = .boolean ∧ ∃ b, v = .bool b))) := by
  cases hty : fd.ty <;> cases v <;> simp [validate, hty] <;> (try split) <;> simp_all <;> omega

/-! Non-vacuity -/
example : ∃ bs, encodeTuple [⟨"a", .int, 0⟩, ⟨"b", .varchar, 255⟩, ⟨"c", .boolean, 0⟩, ⟨"d", .bigint, 0⟩]
    [("a", .int (-2147483648)), ("b", .str [0xff, 0]), ("d", .int 9223372036854775807)] = .ok bs := by
  exact ⟨_, rfl⟩

/-- **C08.distinct_names_hold_for_every_table**: the hypothesis `hnd` of `C08_tuple_roundtrip` (distinct
column names) is not an assumption about users: CREATE TABLE passes its per-column checks only if the
column names are distinct (repair 2046ccc; before it `CREATE TABLE t (a int, a int)` was accepted and
`INSERT ... VALUES (1, 2)` read back as (2, 2) - the excluded point of that hypothesis was a defect). -/
theorem C08_distinct_names_hold_for_every_table (fields : List FieldDef)
    (h : Mkdb.Store.checkFieldsFrom [] fields = none) : (fields.map (·.name)).Nodup :=
  ((Mkdb.Store.checkFields_none_iff fields).mp h).2

end Mkdb.Tuple

namespace Mkdb.Store
open Mkdb.Page Mkdb.Tuple Mkdb.Generated Mkdb.Tree

/-! ### End to end: parsed statements, the page store, flush, eviction, restart

`DbInv db sdb pt sch tbls` (Proofs/SessionInv3) is the invariant every statement of a session keeps
(`C18_every_statement_keeps_the_database_invariant`; it holds of the database `CREATE DATABASE` leaves):
the store abstracts to the plain in-memory database `sdb`.  `Reads db t cols vals` (Proofs/SessionInv8):
`RelationService.Fetch` of the table `t` - the source of every SELECT; what the executor does with the
rows is C05-C07 - returns the columns `cols` and rows holding exactly the values `vals`, in order.
`ReadsDurably` (Proofs/SessionInv10): that is so now; after `Engine.flush` (every dirty page written to the
data file); after the cache is dropped and the pages are read from the data file again (`reopen`:
evicted and reloaded); after start-up recovery `Engine.recover` of the closed database (restart), with
any page write orders, and the re-open that follows it.  Values are `Val`s - an integer, a byte string,
a boolean, NULL -, so equality of values is equality bit for bit. -/

/-- **C08.accepted_value_is_read_back** (the first sentence of C08, end to end over parsed statements).
On a database that satisfies the invariant, let the plain model accept `INSERT INTO t (cols) VALUES rows`
(`StmtRoom`: literals that fit their Go types, 64-level fuel, offsets below 2^63).  Then the engine model
accepts it; the invariant holds again for the plain model's result; the table `t` of the plain
database gets one new row per VALUES row, in order, and the `k`-th new row holds exactly the `k`-th
VALUES row: without a column list the given values in column order; with a column list, at the position
of every column the `i`-th given value if the column is the `i`-th name of the list, and NULL if the
column is not named; and a reader (`Fetch`) sees the old rows followed by exactly these new rows - now,
after the page has been written to disk, after it has been evicted and reloaded, and after restart. -/
theorem C08_accepted_value_is_read_back (db : Engine.DB) (sdb : Spec.SDB) (pt sch : Levels)
    (tbls : List (Bytes × Levels)) (h : DbInv db sdb pt sch tbls) (t : Bytes) (cols : List Bytes)
    (rows : List (List Sql.Lit)) (hroom : StmtRoom db pt sch tbls (.insert t cols rows))
    (sdb' : Spec.SDB) (hspec : Spec.specStmt sdb (.insert t cols rows) = some sdb') :
    ∃ db' pt' sch' tbls' tb newRows,
      evalStmt db [] (.insert t cols rows) = .ok () db' ∧ DbInv db' sdb' pt' sch' tbls' ∧
      Spec.findTable sdb t = some tb ∧
      (rows.map fun r => r.map Engine.litToVal).mapM (Spec.rowOf tb cols) = some newRows ∧
      (∀ (k : Nat) (vals row : List Val), (rows.map fun r => r.map Engine.litToVal)[k]? = some vals →
          newRows[k]? = some row →
        (cols = [] → row = vals) ∧
        (cols ≠ [] → row.length = tb.cols.length ∧
          ∀ (j : Nat) (fd : FieldDef), tb.cols[j]? = some fd →
            (∀ (i : Nat) (c : Bytes) (v : Val), cols[i]? = some c → vals[i]? = some v →
              Spec.nameStr c = fd.name → row[j]? = some v) ∧
            (fd.name ∉ cols.map Spec.nameStr → row[j]? = some Val.null))) ∧
      ReadsDurably db' t tb.cols (tb.rows.map (·.vals) ++ newRows) :=
  accepted_insert_read_back db sdb pt sch tbls h t cols rows hroom sdb' hspec

/-- non-vacuity: `INSERT INTO t VALUES (5), (6)` on the database `CREATE DATABASE; CREATE TABLE t (a INT)`
produces (computed by the model) meets every hypothesis -/
example : DbInv tableDB sdbA0 ptT schT [(tname, tT)] ∧
    StmtRoom tableDB ptT schT [(tname, tT)] (.insert tname [] [[.int 5], [.int 6]]) ∧
    Spec.specStmt sdbA0 (.insert tname [] [[.int 5], [.int 6]]) = some sdbA1 :=
  ⟨dbFlushed_tableDB.inv, room_insert56, rfl⟩

/-- **C08.accepted_statement_is_read_back** (INSERT, UPDATE, DELETE, CREATE TABLE alike): whenever the
plain model accepts a statement (`StmtRoom` as in `C01_every_statement_refines_plain_model`), the engine
model accepts it, the invariant holds for the plain model's result `sdb'`, and every table of `sdb'` -
for an UPDATE: the table with the SET values written into the selected rows, which is what `specUpdate`
computes - is read back with its declared columns and exactly its rows, now and after flush, eviction and
restart. -/
theorem C08_accepted_statement_is_read_back (db : Engine.DB) (sdb : Spec.SDB) (pt sch : Levels)
    (tbls : List (Bytes × Levels)) (h : DbInv db sdb pt sch tbls) (st : Sql.Stmt)
    (hroom : StmtRoom db pt sch tbls st) (sdb' : Spec.SDB) (hspec : Spec.specStmt sdb st = some sdb') :
    ∃ db' pt' sch' tbls', evalStmt db [] st = .ok () db' ∧ DbInv db' sdb' pt' sch' tbls' ∧
      ∀ t tb, Spec.findTable sdb' t = some tb → ReadsDurably db' t tb.cols (tb.rows.map (·.vals)) := by
  obtain ⟨db', pt', sch', tbls', e, hi'⟩ := h.accepted [] st hroom sdb' hspec
  exact ⟨db', pt', sch', tbls', e, hi', fun t tb hf => hi'.reads_durably hf⟩

/-- **C08.accepted_values_survive_a_crash** (the restart WITHOUT a close; C02 carried to the reader): from
a checkpointed database (`Ckpt`: what every flush and every recovery leave, `C02_rounds_*`) run any
INSERT / UPDATE / DELETE statements the plain model accepts (`SpecRun`); then the machine crashes with
nothing flushed since the checkpoint.  Start-up recovery succeeds, and every table of the plain database
of ALL acknowledged statements is read back with exactly its rows.  (`Ckpt` carries the side conditions
`PtSelf` / `FreshM` of the replay theorems; they hold in every database reached from CREATE DATABASE,
also once the page table has split: `C02_side_conditions_hold_in_every_reachable_database`.) -/
theorem C08_accepted_values_survive_a_crash {sch : Levels} {db dbN : Engine.DB} {sdb sdbN : Spec.SDB}
    {stmts : List EStmt} {pt : Levels} {tbls : List (Bytes × Levels)} (h : Ckpt sch db sdb pt tbls)
    (run : SpecRun sch db sdb stmts dbN sdbN) (o1 o2 : List Nat) :
    ∃ db', Engine.recover dbN o1 o2 = .ok db' ∧
      ∀ t tb, Spec.findTable sdbN t = some tb → Reads db' t tb.cols (tb.rows.map (·.vals)) := by
  obtain ⟨db', ptN, tblsN, e, _, hk⟩ := h.recover_round run o1 o2
  exact ⟨db', e, fun t tb hf => hk.abs.reads hf⟩

/-- non-vacuity: `real_rounds_example` (Proofs/BaseCase2) is such a run from the checkpointed database
`CREATE DATABASE; CREATE TABLE t (a INT)` leaves -/
example : Ckpt schT tableDB sdbA0 ptT [(tname, tT)] := ckpt_tableDB

/-- **C08.row_refused_iff**: the plain model refuses a row (`Spec.rowOf … = none`) exactly when the number
of values is not the number of (named) columns, or some column would get a non-NULL value that its type
does not admit - `C08_refuse_kind`: a value of the wrong kind, an INT outside 32 bits -, or the encoded
row exceeds the 400-byte limit. -/
theorem C08_row_refused_iff (tb : Spec.STable) (cols : List Bytes) (vals : List Val) :
    Spec.rowOf tb cols vals = none ↔
      (colsOf tb.cols (cols.map Engine.bytesToName)).length ≠ vals.length ∨
      (∃ fd ∈ tb.cols, get ((colsOf tb.cols (cols.map Engine.bytesToName)).zip vals).reverse fd.name ≠ .null ∧
        validate fd (get ((colsOf tb.cols (cols.map Engine.bytesToName)).zip vals).reverse fd.name) ≠ .ok ()) ∨
      ∃ buf, encodeTuple tb.cols ((colsOf tb.cols (cols.map Engine.bytesToName)).zip vals).reverse = .ok buf ∧
        buf.length > c_maxValueSize := by
  rw [specRowOf_none_iff]
  refine or_congr Iff.rfl (or_congr ?_ Iff.rfl)
  have hacc := C08_accept_iff tb.cols ((colsOf tb.cols (cols.map Engine.bytesToName)).zip vals).reverse
  constructor
  · rintro ⟨e, he⟩
    apply Classical.byContradiction
    intro hno
    have : ∃ bs, encodeTuple tb.cols ((colsOf tb.cols (cols.map Engine.bytesToName)).zip vals).reverse = .ok bs := by
      rw [hacc]
      intro fd hfd
      apply Classical.byContradiction
      intro hboth
      simp only [not_or] at hboth
      exact hno ⟨fd, hfd, hboth.1, hboth.2⟩
    obtain ⟨bs, hbs⟩ := this
    rw [he] at hbs
    cases hbs
  · rintro ⟨fd, hfd, h1, h2⟩
    cases henc : encodeTuple tb.cols ((colsOf tb.cols (cols.map Engine.bytesToName)).zip vals).reverse with
    | error e => exact ⟨e, rfl⟩
    | ok bs =>
      have := hacc.mp ⟨bs, henc⟩ fd hfd
      rcases this with h | h
      · exact absurd h h1
      · exact absurd h h2

/-- **C08.refused_value_is_not_stored** (the second sentence of C08).  On a database that satisfies the
invariant, an INSERT whose first row the plain model refuses (`C08_row_refused_iff`: wrong number of
values, a value of the wrong type, an INT outside 32 bits, an encoding over the 400-byte limit) is
refused by the plain model and by the engine model with an error value; the log is untouched; the
invariant holds with THE SAME plain database and the same catalog trees; and the table is read back
exactly as before - no row added, none altered, nothing truncated - now and after flush, eviction and
restart.  (A later row refused after accepted ones: the rows BEFORE it stay applied - the known finding of
C14, `C14_insert_kth_row_plain_model`; the refused row itself is not stored there either, and the
invariant survives: `C18_every_statement_keeps_the_database_invariant`.) -/
theorem C08_refused_value_is_not_stored (db : Engine.DB) (sdb : Spec.SDB) (pt sch : Levels)
    (tbls : List (Bytes × Levels)) (h : DbInv db sdb pt sch tbls) (t : Bytes) (cols : List Bytes)
    (r : List Sql.Lit) (rest : List (List Sql.Lit)) (tb : Spec.STable) (hfind : Spec.findTable sdb t = some tb)
    (hbad : Spec.rowOf tb cols (r.map Engine.litToVal) = none) :
    Spec.specStmt sdb (.insert t cols (r :: rest)) = none ∧
    ∃ e db', evalStmt db [] (.insert t cols (r :: rest)) = .err e db' ∧ db'.wal = db.wal ∧
      DbInv db' sdb pt sch tbls ∧ ReadsDurably db' t tb.cols (tb.rows.map (·.vals)) :=
  refused_insert_not_stored db sdb pt sch tbls h t cols r rest tb hfind hbad

/-- **C08.refused_statement_is_not_stored**: the same for every statement refused before a change
(`StmtRefusal`, the list of `C14_refused_statement_plain_model`: also an UPDATE whose first selected row
cannot be rewritten - wrong type, INT out of range, over the size limit): error value, log untouched,
the same plain database, every table read back as before, durably. -/
theorem C08_refused_statement_is_not_stored (db : Engine.DB) (sdb : Spec.SDB) (pt sch : Levels)
    (tbls : List (Bytes × Levels)) (h : DbInv db sdb pt sch tbls) (st : Sql.Stmt) (hbad : StmtRefusal sdb pt st) :
    Spec.specStmt sdb st = none ∧
    ∃ e db', evalStmt db [] st = .err e db' ∧ db'.wal = db.wal ∧ DbInv db' sdb pt sch tbls ∧
      ∀ t tb, Spec.findTable sdb t = some tb → ReadsDurably db' t tb.cols (tb.rows.map (·.vals)) := by
  obtain ⟨hnone, e, db', he, hw, hi'⟩ := h.refused [] st hbad
  exact ⟨hnone, e, db', he, hw, hi', fun t tb hf => hi'.reads_durably hf⟩

/-- non-vacuity: `INSERT INTO t VALUES (2147483648)` on the same database: the plain model refuses the
row (an INT outside 32 bits) -/
example : Spec.findTable sdbA0 tname = some ⟨tname, schemaA, []⟩ ∧
    Spec.rowOf ⟨tname, schemaA, []⟩ [] ([Sql.Lit.int 2147483648].map Engine.litToVal) = none :=
  ⟨rfl, rfl⟩

end Mkdb.Store
