import Mkdb.Proofs.Tuple
import Mkdb.Proofs.ColumnNames
/-!
# C08 — stored values read back exactly; invalid values are refused (row codec part)

Property theorems only.  Quantifier: every schema with distinct column names (any mix and
order of the four types), every assignment of values (any int64, any byte string, both
booleans, NULL / absent).  The statement-level and page-level parts (size limit, literals,
read-back through flush / eviction / restart) are in C01, C09 and C12.
-/
namespace Mkdb.Tuple
open Mkdb.Bin

/-- **C08.tuple_roundtrip**: whatever `Tuple.Encode` accepts, `Tuple.Decode` returns
bit-for-bit, column by column; NULL/absent columns come back absent. -/
theorem C08_tuple_roundtrip (sch : List FieldDef) (vals : Vals)
    (hvals : ∀ k, ValidVal (get vals k)) (hnd : (sch.map (·.name)).Nodup) (bs : Bytes)
    (h : encodeTuple sch vals = .ok bs) :
    ∃ m, decodeTuple sch bs [] = .ok m ∧ ∀ fd ∈ sch, get m fd.name = get vals fd.name := by
  obtain ⟨m, h1, h2, _⟩ := decode_encode_aux sch vals hvals hnd bs [] [] (by intros; rfl) h
  exact ⟨m, by simpa using h1, h2⟩

/-- **C08.accept_iff**: a row is accepted exactly when every column is NULL/absent or holds
a value of the column's type, INT columns within 32 bits. -/
theorem C08_accept_iff (sch : List FieldDef) (vals : Vals) :
    (∃ bs, encodeTuple sch vals = .ok bs) ↔
      ∀ fd ∈ sch, get vals fd.name = .null ∨ validate fd (get vals fd.name) = .ok () := by
  induction sch with
  | nil => simp [encodeTuple]
  | cons fd t ih =>
    simp only [encodeTuple, List.mem_cons, forall_eq_or_imp]
    rw [← ih, ← encField_ok_iff]
    constructor
    · rintro ⟨bs, h⟩
      cases hb : encField fd (get vals fd.name) with
      | error e => simp [hb] at h
      | ok b =>
        simp only [hb] at h
        cases ht : encodeTuple t vals with
        | error e => simp [ht] at h
        | ok bt => exact ⟨⟨b, rfl⟩, ⟨bt, rfl⟩⟩
    · rintro ⟨⟨b, hb⟩, ⟨bt, ht⟩⟩
      exact ⟨b ++ bt, by simp [hb, ht]⟩

/-- **C08.refuse_kind**: a non-NULL value of the wrong kind is `ErrTypeMismatch`, an INT
outside 32 bits is `ErrIntOutOfRange`; never silently truncated. -/
theorem C08_refuse_kind (fd : FieldDef) (v : Val) :
    (validate fd v = .error .intOutOfRange ↔
      ∃ i, v = .int i ∧ fd.ty = .int ∧ (i > 2147483647 ∨ i < -2147483648)) ∧
    (validate fd v = .error .typeMismatch ↔
      ¬ ((fd.ty = .int ∧ ∃ i, v = .int i) ∨ (fd.ty = .bigint ∧ ∃ i, v = .int i) ∨
         (fd.ty = .varchar ∧ ∃ s, v = .str s) ∨ (fd.ty = .boolean ∧ ∃ b, v = .bool b))) := by
  cases hty : fd.ty <;> cases v <;> simp [validate, hty] <;> (try split) <;> simp_all <;> omega

/-! Non-vacuity -/
example : ∃ bs, encodeTuple [⟨"a", .int, 0⟩, ⟨"b", .varchar, 255⟩, ⟨"c", .boolean, 0⟩, ⟨"d", .bigint, 0⟩]
    [("a", .int (-2147483648)), ("b", .str [0xff, 0]), ("d", .int 9223372036854775807)] = .ok bs := by
  exact ⟨_, rfl⟩

/-- **C08.distinct_names_hold_for_every_table**: the hypothesis `hnd` of `C08_tuple_roundtrip` (distinct
column names) is not an assumption about users: CREATE TABLE passes its per-column checks only if the
column names are distinct (repair 2046ccc; before it `CREATE TABLE t (a int, a int)` was accepted and
`INSERT ... VALUES (1, 2)` read back as (2, 2) - the excluded point of that hypothesis was a defect). -/
theorem C08_distinct_names_hold_for_every_table (fields : List FieldDef)
    (h : Mkdb.Store.checkFieldsFrom [] fields = none) : (fields.map (·.name)).Nodup :=
  ((Mkdb.Store.checkFields_none_iff fields).mp h).2

end Mkdb.Tuple
