import Mkdb.Proofs.NoPanicExec
/-!
# C18 — no statement can crash the engine (SELECT evaluation)

Property theorems only (proofs in `Mkdb/Proofs/NoPanicExec.lean`).  Quantifier: every
database content whose rows have one value per column (any values: NULLs, any types), every
SELECT the parser can produce.  Termination is structural recursion on the row lists.
-/
namespace Mkdb.Exec
open Mkdb.Sql Mkdb.Exec.NoPanicP

/-- **C18.no_panic_partial**: on well-shaped tables, whatever the query (unknown, ambiguous or
duplicated columns, wrong-typed comparisons, AVG over non-integers, empty tables, NULLs …),
evaluation returns rows or an error value; the single remaining panic of the model is the
sort comparator meeting two non-NULL values of different types in one ORDER BY column. -/
theorem C18_no_panic_partial {fetch : Bytes → Option Table} (hw : WellShaped fetch) (q : Select)
    (hq : (∃ a, q.list = [⟨.star, a⟩]) ∨ isStar q.list = false) (s : String)
    (h : evaluateSelect fetch q = .panic s) : s = "sortColumns: no comparison available" :=
  no_panic_except_sort_parsed_shape hw q hq s h

/-- **C18.sort_safe**: that remaining panic cannot occur when every ORDER BY column holds
values of one type or NULL — which is what typed storage (C08) delivers. -/
theorem C18_sort_safe (ob : List SortSpec) (hdr : List Field) (rows : List Row)
    (h : ∀ sp ∈ ob, ∀ i, findColumn sp.key hdr = .ok i →
      ∀ a ∈ rows, ∀ b ∈ rows, Comparable ((a[i]?).getD .null) ((b[i]?).getD .null))
    (s : String) : sortColumns ob hdr rows ≠ .panic s :=
  sort_safe_of_comparable ob hdr rows h s

/-- the shape hypothesis of `C18_no_panic_partial` is necessary: a select list that starts with
`*` and also holds an aggregate (which the parser never builds) would index past the row -/
theorem C18_star_aggregate_counterexample :
    evaluateSelect (fun _ => some ⟨[[105]], [[.int 1]]⟩)
      { list := [⟨.star, []⟩, ⟨.count none, []⟩, ⟨.expr (.val (.lit (.int 1))), []⟩],
        from_ := some (.table ⟨[116], none⟩) } = .panic "aggregateRows: Vals[colIdx]" :=
  star_aggregate_panics

end Mkdb.Exec
